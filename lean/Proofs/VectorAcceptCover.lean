/-
  Proofs.VectorAcceptCover — C10, coverage: the judge's `checkCoverage` (array of rows, `rowCover`, `firstDiff`)
  succeeds on grid segments whose rows cover exactly the expected page rows.  Mathlib-free.
-/
import Proofs.VectorAcceptGeom
import Proofs.Lines

namespace Proofs.VectorAccept
open Spec.Vector Model.Lines Proofs.Lines

/-! ### `firstDiff` -/

theorem mem_zip_self {α} (l : List α) : ∀ p ∈ l.zip l, p.1 = p.2 := by
  induction l with
  | nil => intro p hp; simp at hp
  | cons a l ih =>
    intro p hp
    simp only [List.zip_cons_cons, List.mem_cons] at hp
    rcases hp with rfl | hp
    · rfl
    · exact ih p hp

theorem firstDiff_self (l : List Nat) : firstDiff l l = none := by
  unfold firstDiff
  rw [Option.map_eq_none_iff, List.find?_eq_none]
  intro x hx
  obtain ⟨p, j⟩ := x
  have hp : p ∈ l.zip l := List.fst_mem_of_mem_zipIdx hx
  simp [mem_zip_self l p hp]

/-! ### the array of rows -/

/-- the fold step of `checkCoverage` (verbatim) -/
def addSeg (a : Array (List (Nat × Nat))) (x : Nat × Nat × Nat) : Array (List (Nat × Nat)) :=
  match x with
  | (i, j0, j1) => a.modify i (fun l => (j0, j1) :: l)

/-- the segments of grid row `r`, in order -/
def rowSegs (segs : List (Nat × Nat × Nat)) (r : Nat) : List (Nat × Nat) :=
  (segs.filter (fun t => t.1 == r)).map (fun t => t.2)

theorem addSeg_size (a : Array (List (Nat × Nat))) (x : Nat × Nat × Nat) : (addSeg a x).size = a.size := by
  obtain ⟨i, j0, j1⟩ := x; simp [addSeg]

theorem addSeg_getD (a : Array (List (Nat × Nat))) (x : Nat × Nat × Nat) (r : Nat) (hr : r < a.size) :
    (addSeg a x).getD r [] = (if x.1 == r then [x.2] else []) ++ a.getD r [] := by
  obtain ⟨i, j0, j1⟩ := x
  simp only [addSeg, Array.getD_eq_getD_getElem?]
  by_cases h : i = r
  · subst h; simp [Array.getElem_modify, hr]
  · have : (i == r) = false := by simp [h]
    simp [Array.getElem?_modify, h, this]

theorem foldl_addSeg (segs : List (Nat × Nat × Nat)) : ∀ (a : Array (List (Nat × Nat))) (r : Nat), r < a.size →
    (segs.foldl addSeg a).getD r [] = (rowSegs segs r).reverse ++ a.getD r [] := by
  induction segs with
  | nil => intro a r _; simp [rowSegs]
  | cons x rest ih =>
    intro a r hr
    rw [List.foldl_cons, ih (addSeg a x) r (by rw [addSeg_size]; exact hr), addSeg_getD a x r hr]
    unfold rowSegs
    by_cases h : x.1 == r <;> simp [h]

theorem coverAt_reverse (l : List (Nat × Nat)) (j : Nat) : coverAt l.reverse j = coverAt l j := by
  unfold coverAt; rw [List.filter_reverse, List.length_reverse]

theorem rowCover_congr (n : Nat) (a b : List (Nat × Nat)) (h : ∀ j, coverAt a j = coverAt b j) : rowCover n a = rowCover n b := by
  unfold rowCover
  apply List.map_congr_left
  intro j _; exact h j

/-! ### the loop over the rows -/

theorem forIn_unit_ok {ε α} (l : List α) (f : α → PUnit → Except ε (ForInStep PUnit))
    (h : ∀ a ∈ l, f a PUnit.unit = .ok (.yield PUnit.unit)) : forIn l PUnit.unit f = .ok PUnit.unit := by
  induction l with
  | nil => rfl
  | cons a l ih =>
    rw [List.forIn_cons, h a (by simp)]
    exact ih (fun a ha => h a (by simp [ha]))

/-- coverage: `checkCoverage` accepts segments whose per-row coverage equals the expected page row -/
theorem checkCoverage_ok (w : Want) (c : Color) (hd : w.dark = some c) (segs : List (Nat × Nat × Nat))
    (h : ∀ r, r < w.size + 2 * w.b → rowCover (w.size + 2 * w.b) (rowSegs segs r) = pageRow w.m w.size w.b r) :
    checkCoverage w segs = .ok () := by
  unfold checkCoverage
  simp only []
  rw [forIn_unit_ok]
  · rfl
  · intro r hr
    have hr' : r < w.size + 2 * w.b := List.mem_range.mp hr
    have hf : (List.foldl (fun a x => match x with | (i, j0, j1) => a.modify i fun l => (j0, j1) :: l)
        (Array.replicate (w.size + 2 * w.b) []) segs) = segs.foldl addSeg (Array.replicate (w.size + 2 * w.b) []) := rfl
    have hg := foldl_addSeg segs (Array.replicate (w.size + 2 * w.b) []) r (by simpa using hr')
    have hc : rowCover (w.size + 2 * w.b) ((segs.foldl addSeg (Array.replicate (w.size + 2 * w.b) [])).getD r [])
        = pageRow w.m w.size w.b r := by
      rw [hg, ← h r hr']
      apply rowCover_congr
      intro j
      simp [coverAt_reverse, hr']
    simp only [hd, Option.isSome_some, if_true]
    rw [hf, hc, firstDiff_self]
    rfl

/-! ### the model's runs: bounds -/

theorem rowGo_bound (bits : List Nat) : ∀ (x1 x2 lb : Nat),
    (∀ r ∈ (rowGo x1 x2 lb bits).1, r.2 ≤ x2 + bits.length) ∧ (rowGo x1 x2 lb bits).2.2.1 = x2 + bits.length := by
  induction bits with
  | nil => intro x1 x2 lb; simp [rowGo]
  | cons bit rest ih =>
    intro x1 x2 lb
    simp only [rowGo, List.length_cons]
    have key : ∀ x1', (∀ r ∈ (rowGo x1' (x2 + 1) bit rest).1, r.2 ≤ x2 + 1 + rest.length)
        ∧ (rowGo x1' (x2 + 1) bit rest).2.2.1 = x2 + 1 + rest.length := fun x1' => ih x1' (x2 + 1) bit
    refine ⟨?_, by rw [(key _).2]; omega⟩
    intro r hr
    split at hr
    · rcases List.mem_cons.mp hr with rfl | hr
      · simp
      · have := (key _).1 r hr; omega
    · have := (key _).1 r hr; omega

theorem rowRuns_bound (x lb : Nat) (row : List Nat) : ∀ r ∈ (rowRuns x lb row).1, r.2 ≤ x + row.length := by
  obtain ⟨h1, h2⟩ := rowGo_bound row x x lb
  unfold rowRuns
  intro r hr
  by_cases hz : (rowGo x x lb row).2.2.2 = 0
  · simp [hz] at hr; exact h1 r hr
  · simp [hz] at hr
    rcases hr with hr | hr
    · exact h1 r hr
    · subst hr; simp [h2]

theorem sep_mem (l : List (Nat × Nat)) : ∀ lo, sep lo l → ∀ r ∈ l, lo ≤ r.1 ∧ r.1 ≤ r.2 := by
  induction l with
  | nil => intro lo _ r hr; simp at hr
  | cons a l ih =>
    intro lo hs r hr
    rcases List.mem_cons.mp hr with rfl | hr
    · exact ⟨hs.1, hs.2.1⟩
    · have := ih (a.2 + 1) hs.2.2 r hr
      have h1 := hs.1; have h2 := hs.2.1
      omega

/-- all runs of all rows lie between the start column and the end of the row -/
def rowsOk (b size : Nat) (rows : List (List (Nat × Nat))) : Prop :=
  ∀ rs ∈ rows, ∀ ab ∈ rs, b ≤ ab.1 ∧ ab.1 ≤ ab.2 ∧ ab.2 ≤ b + size

theorem rowsGo_ok (b size : Nat) (m : List (List Nat)) (hm : ∀ row ∈ m, row.length = size) : ∀ lb, rowsOk b size (rowsGo b lb m) := by
  induction m with
  | nil => intro lb rs hrs; simp [rowsGo] at hrs
  | cons row rest ih =>
    intro lb rs hrs
    simp only [rowsGo, List.mem_cons] at hrs
    rcases hrs with rfl | hrs
    · intro ab hab
      have h1 := sep_mem _ _ (rowRuns_sep b lb row) ab hab
      have h2 := rowRuns_bound b lb row ab hab
      have := hm row (by simp)
      omega
    · exact ih (fun r hr => hm r (by simp [hr])) _ rs hrs

/-! ### from the model's rows to grid segments -/

/-- the grid segments of row groups starting at grid row `i0` (empty runs dropped) -/
def segsFrom : Nat → List (List (Nat × Nat)) → List (Nat × Nat × Nat)
  | _, [] => []
  | i0, rs :: rest => rs.filterMap (fun ab => if ab.1 = ab.2 then none else some (i0, ab.1, ab.2)) ++ segsFrom (i0 + 1) rest

theorem filterMap_congr' {α β} (f g : α → Option β) (l : List α) (h : ∀ a ∈ l, f a = g a) : l.filterMap f = l.filterMap g := by
  induction l with
  | nil => rfl
  | cons a l ih =>
    rw [List.filterMap_cons, List.filterMap_cons, h a (by simp), ih (fun a ha => h a (by simp [ha]))]

theorem attach_good (b size n : Nat) (hn : b + size ≤ n) (rows : List (List (Nat × Nat))) (hok : rowsOk b size rows) :
    ∀ i0 : Nat, i0 + rows.length ≤ n → ∀ t ∈ toInt (attach 2 (2 * (i0 : Int) - 1) rows), goodLine n t := by
  induction rows with
  | nil => intro i0 _ t ht; simp [attach, toInt] at ht
  | cons rs rest ih =>
    intro i0 hi t ht
    simp only [attach, toInt, List.map_append, List.map_map, List.mem_append, List.mem_map] at ht
    rcases ht with ⟨ab, hab, rfl⟩ | ht
    · have := hok rs (by simp) ab hab
      refine ⟨ab.1, ab.2, i0, ?_, this.2.1, by omega, by simp at hi; omega⟩
      simp only [Function.comp]
      congr 2; omega
    · have e : (2 * (i0 : Int) - 1 + 2) = 2 * ((i0 + 1 : Nat) : Int) - 1 := by omega
      rw [e] at ht
      apply ih (fun rs hrs => hok rs (by simp [hrs])) (i0 + 1) (by simp at hi; omega) t
      simp only [toInt, List.mem_map]
      exact ht

theorem filterMap_lineSeg_attach (rows : List (List (Nat × Nat))) : ∀ i0 : Nat,
    (toInt (attach 2 (2 * (i0 : Int) - 1) rows)).filterMap lineSeg = segsFrom i0 rows := by
  induction rows with
  | nil => intro i0; rfl
  | cons rs rest ih =>
    intro i0
    have e : (2 * (i0 : Int) - 1 + 2) = 2 * ((i0 + 1 : Nat) : Int) - 1 := by omega
    have := ih (i0 + 1)
    simp only [toInt] at this
    simp only [attach, toInt, segsFrom, List.map_append, List.filterMap_append, List.map_map, List.filterMap_map, e, this]
    congr 1
    apply filterMap_congr'
    intro ab _
    simp only [Function.comp, lineSeg]
    by_cases h : ab.1 = ab.2
    · simp [h]
    · have : ¬ ((ab.1 : Int) = (ab.2 : Int)) := by omega
      simp only [h, this, if_false]
      simp
      omega

theorem rowSegs_append (a b : List (Nat × Nat × Nat)) (r : Nat) : rowSegs (a ++ b) r = rowSegs a r ++ rowSegs b r := by
  simp [rowSegs]

theorem ind_self (a j : Nat) : ind a a j = 0 := by unfold ind; split <;> omega

theorem coverAt_rowSegs_row (i0 r : Nat) (rs : List (Nat × Nat)) (j : Nat) :
    coverAt (rowSegs (rs.filterMap (fun ab => if ab.1 = ab.2 then none else some (i0, ab.1, ab.2))) r) j
      = if i0 = r then coverAt rs j else 0 := by
  induction rs with
  | nil => simp [rowSegs, coverAt_nil]
  | cons ab rs ih =>
    rw [List.filterMap_cons]
    by_cases h : ab.1 = ab.2
    · simp only [h, if_true]
      rw [ih, coverAt_cons, h, ind_self]; simp
    · simp only [h, if_false]
      by_cases hr : i0 = r
      · subst hr
        have : rowSegs ((i0, ab.1, ab.2) :: List.filterMap (fun ab => if ab.1 = ab.2 then none else some (i0, ab.1, ab.2)) rs) i0
            = (ab.1, ab.2) :: rowSegs (List.filterMap (fun ab => if ab.1 = ab.2 then none else some (i0, ab.1, ab.2)) rs) i0 := by
          simp [rowSegs]
        rw [this, coverAt_cons, ih, coverAt_cons]; simp
      · have : rowSegs ((i0, ab.1, ab.2) :: List.filterMap (fun ab => if ab.1 = ab.2 then none else some (i0, ab.1, ab.2)) rs) r
            = rowSegs (List.filterMap (fun ab => if ab.1 = ab.2 then none else some (i0, ab.1, ab.2)) rs) r := by
          simp [rowSegs, hr]
        rw [this, ih]; simp [hr]

/-- per grid row, the segments cover what the runs of that row group cover -/
theorem coverAt_segsFrom (rows : List (List (Nat × Nat))) : ∀ (i0 r j : Nat),
    coverAt (rowSegs (segsFrom i0 rows) r) j = if r < i0 then 0 else coverAt (rows.getD (r - i0) []) j := by
  induction rows with
  | nil => intro i0 r j; simp [segsFrom, rowSegs, coverAt_nil]
  | cons rs rest ih =>
    intro i0 r j
    rw [segsFrom, rowSegs_append, coverAt_append, coverAt_rowSegs_row, ih]
    by_cases h1 : r < i0
    · have : ¬ i0 = r := by omega
      have : r < i0 + 1 := by omega
      simp [*]
    · by_cases h2 : i0 = r
      · subst h2; simp
      · have h3 : ¬ r < i0 + 1 := by omega
        have h4 : r - i0 = (r - (i0 + 1)) + 1 := by omega
        simp only [h1, h2, h3, if_false, Nat.zero_add]
        rw [h4]; simp

/-- coverage of the model: per grid row, the judge's `rowCover` of the model's segments is its expected `pageRow` -/
theorem model_cover (m : List (List Nat)) (b : Nat) (hsq : ∀ row ∈ m, row.length = m.length) (r : Nat)
    (_hr : r < m.length + 2 * b) :
    rowCover (m.length + 2 * b) (rowSegs (segsFrom b (rowsGo b 1 m)) r) = pageRow m m.length b r := by
  by_cases h1 : r < b
  · have hp : pageRow m m.length b r = List.replicate (m.length + 2 * b) 0 := by
      unfold pageRow; simp [h1]
    rw [hp]; unfold rowCover
    apply map_range_zero
    intro j _
    rw [coverAt_segsFrom]; simp [h1]
  · by_cases h2 : b + m.length ≤ r
    · have hp : pageRow m m.length b r = List.replicate (m.length + 2 * b) 0 := by
        unfold pageRow; simp [h2]
      rw [hp]; unfold rowCover
      apply map_range_zero
      intro j _
      rw [coverAt_segsFrom]
      have : (rowsGo b 1 m).getD (r - b) [] = [] := by
        rw [List.getD_eq_getElem?_getD, List.getElem?_eq_none (by rw [rowsGo_length]; omega)]; rfl
      simp only [h1, if_false, this, coverAt_nil]
    · have hi : r - b < m.length := by omega
      have hi' : r - b < (rowsGo b 1 m).length := by rw [rowsGo_length]; exact hi
      have hlen : (m[r - b]).length = m.length := hsq _ (List.getElem_mem hi)
      have e : m.length + 2 * b = b + (m[r - b]).length + b := by omega
      have hrr : r = b + (r - b) := by omega
      rw [rowCover_congr _ _ (rowRuns b 0 (m[r - b])).1]
      · rw [e, rowCover_runs]
        conv => rhs; rw [hrr]
        rw [pageRow_inside m m.length b (r - b) hi hlen hi]
      · intro j
        rw [coverAt_segsFrom]
        have : (rowsGo b 1 m).getD (r - b) [] = (rowsGo b 1 m)[r - b] := by
          rw [List.getD_eq_getElem?_getD, List.getElem?_eq_getElem hi']; rfl
        simp only [h1, if_false, this]
        rw [rowsGo_cover b m 1 (r - b) hi hi' j, rowRuns_cover]

end Proofs.VectorAccept
