/-
  Proofs.TieA2Matrix — the matrix of the model (`Array (Array Nat)`, updated with `Model.set2`) against the matrix of
  translated code (`List (List Int)`, updated with `Py.setItem2` / `Py.setSlice2`, read with `Py.index`, Python indexes
  that may be negative).
-/
import Proofs.TieA2
import Model.Encoder

namespace Proofs.TieA2
open Gen.Py Proofs.TieA Model

/-- the matrix of the model as translated code sees it -/
def mI (m : Matrix) : List (List Int) := m.toList.map (fun r => toI r.toList)

/-- an n × n matrix -/
structure Sq (m : Matrix) (n : Nat) : Prop where
  size : m.size = n
  rows : ∀ i (h : i < m.size), m[i].size = n

theorem mI_length (m : Matrix) : (mI m).length = m.size := by simp [mI]

theorem sq_set2 {m : Matrix} {n : Nat} (h : Sq m n) (i j v : Nat) : Sq (set2 m i j v) n := by
  constructor
  · simp [set2, h.size]
  · intro k hk
    simp only [set2, Array.size_modify] at hk
    simp only [set2, Array.getElem_modify]
    split
    · simp [Array.size_setIfInBounds, h.rows k hk]
    · exact h.rows k hk

/-! ### Python indexes -/

theorem normIndex_nat (n i : Nat) (h : i < n) : normIndex n (i : Int) = some i := by
  unfold normIndex
  rw [if_pos ⟨by omega, by omega⟩]
  simp

/-- `xs[-k]` for 1 ≤ k ≤ n -/
theorem normIndex_neg (n k : Nat) (h1 : 1 ≤ k) (h2 : k ≤ n) : normIndex n (-(k : Int)) = some (n - k) := by
  unfold normIndex
  rw [if_neg (by omega), if_pos ⟨by omega, by omega⟩]
  congr 1
  omega

theorem normIndex_lt {n : Nat} {i : Int} {k : Nat} (h : normIndex n i = some k) : k < n := by
  unfold normIndex at h
  split_ifs at h <;> simp at h <;> omega

theorem index_eq_of_norm {α : Type} (xs : List α) (i : Int) (k : Nat) (h : normIndex xs.length i = some k) :
    index xs i = ofOption .indexError xs[k]? := by
  unfold normIndex at h
  unfold index
  split_ifs at h with h1 h2
  · simp at h; subst h
    rw [if_pos h1]
    cases xs[i.toNat]? <;> rfl
  · simp at h; subst h
    simp only []
    rw [if_neg h1, if_pos h2]
    cases xs[((xs.length : Int) + i).toNat]? <;> rfl

theorem setItem_eq_of_norm {α : Type} (xs : List α) (i : Int) (k : Nat) (v : α) (h : normIndex xs.length i = some k) :
    setItem xs i v = .ok (xs.set k v) := by
  unfold setItem
  rw [h]

/-! ### reading and writing cells -/

theorem getD_row (m : Matrix) (i : Nat) (h : i < m.size) : m.getD i #[] = m[i] := by
  simp [Array.getD, h]

theorem mI_getElem? (m : Matrix) (i : Nat) (h : i < m.size) : (mI m)[i]? = some (toI m[i].toList) := by
  simp [mI, h]

/-- `matrix[ii]` -/
theorem index_row {m : Matrix} {n : Nat} (hs : Sq m n) (ii : Int) (i : Nat) (hi : normIndex n ii = some i) :
    index (mI m) ii = .ok (toI (m.getD i #[]).toList) := by
  have hlt : i < m.size := by rw [hs.size]; exact normIndex_lt hi
  rw [index_eq_of_norm _ ii i (by rw [mI_length, hs.size]; exact hi), mI_getElem? m i hlt, getD_row m i hlt]
  rfl

/-- `matrix[ii][jj]` -/
theorem index_cell {m : Matrix} {n : Nat} (hs : Sq m n) (ii jj : Int) (i j : Nat)
    (hi : normIndex n ii = some i) (hj : normIndex n jj = some j) :
    Gen.Py.bind (index (mI m) ii) (fun r => index r jj) = .ok (Int.ofNat (get2 m i j)) := by
  have hlt : i < m.size := by rw [hs.size]; exact normIndex_lt hi
  have hjl : j < n := normIndex_lt hj
  have hrow : m[i].size = n := hs.rows i hlt
  rw [index_row hs ii i hi, bind_ok, getD_row m i hlt]
  rw [index_eq_of_norm _ jj j (by rw [toI_length, Array.length_toList, hrow]; exact hj)]
  have hj2 : j < m[i].size := by omega
  unfold get2
  rw [getD_row m i hlt]
  simp [toI, hj2, Array.getD]

/-- `matrix[ii][jj] = v` is `set2` -/
theorem setItem2_cell {m : Matrix} {n : Nat} (hs : Sq m n) (ii jj : Int) (i j v : Nat)
    (hi : normIndex n ii = some i) (hj : normIndex n jj = some j) :
    setItem2 (mI m) ii jj (Int.ofNat v) = .ok (mI (set2 m i j v)) := by
  have hlt : i < m.size := by rw [hs.size]; exact normIndex_lt hi
  have hjl : j < n := normIndex_lt hj
  have hrow : m[i].size = n := hs.rows i hlt
  unfold setItem2
  rw [index_row hs ii i hi, bind_ok, getD_row m i hlt]
  rw [setItem_eq_of_norm _ jj j _ (by rw [toI_length, Array.length_toList, hrow]; exact hj), bind_ok]
  rw [setItem_eq_of_norm _ ii i _ (by rw [mI_length, hs.size]; exact hi)]
  congr 1
  simp only [mI, set2]
  apply List.ext_getElem
  · simp
  · intro k h1 h2
    simp only [List.length_set, List.length_map, Array.length_toList] at h1
    simp only [List.getElem_set, List.getElem_map, Array.getElem_toList, Array.getElem_modify]
    by_cases hk : i = k
    · subst hk
      simp [toI, Array.toList_setIfInBounds]
    · simp [hk]

end Proofs.TieA2
