/-
  Proofs.EndToEndHeader — helper lemmas for Props/EndToEnd.lean, part 6: the reference reader's
  `readHeader` on a matrix whose format / version cells hold the expected words.
-/
import Spec.Decode
import Model.Encoder
import Proofs.EndToEndMatrix

namespace Proofs.EndToEnd
open Model
set_option linter.unusedVariables false
set_option linter.unusedSimpArgs false

theorem readWord_eq (m : Matrix) (pos : Nat → Nat × Nat) (x : Nat) : ∀ (w : Nat),
    (∀ k, k < w → Spec.cell m (pos k).1 (pos k).2 = (x >>> k) % 2) → Spec.readWord m pos w = x % 2 ^ w := by
  intro w
  unfold Spec.readWord
  induction w with
  | zero => intro _; simp [Nat.mod_one]
  | succ n ih =>
    intro h
    rw [List.range_succ, List.foldl_append, ih (fun k hk => h k (by omega))]
    simp only [List.foldl_cons, List.foldl_nil]
    rw [h n (by omega), Nat.mod_pow_succ, Nat.shiftRight_eq_div_pow, Nat.mul_comm]

theorem bch_table : (List.range 32).all (fun k => Spec.bch15 k >>> 10 == k && decide (Spec.bch15 k ^^^ 0x5412 < 2 ^ 15)
      && decide (Spec.bch15 k ^^^ 0x4445 < 2 ^ 15)) = true := by
  decide +kernel

theorem golay_table : (List.range 41).all (fun k => decide (Spec.golay18 k < 2 ^ 18)) = true := by
  decide +kernel

theorem level_table : Spec.capacityTable.all (fun r =>
    if r.1 < 1 then (Spec.microSymbolNumber r.1 r.2.1).isSome else (decide (0 ≤ r.2.1) && decide (r.2.1 < 4))) = true := by
  decide +kernel

theorem readHeader_qr (m : Matrix) (ver e mk w : Nat) 
    (hall1 : m.all (fun r => r.size == m.size) = true)
    (hall2 : m.all (fun r => r.all (fun x => decide (x ≤ 1))) = true)
    (hn : ¬ m.size < 21) (hn2 : (m.size - 17) % 4 = 0) (hn3 : ¬ m.size > 177) (hver : (m.size - 17) / 4 = ver)
    (hw1 : Spec.readWord m Spec.fmtPos1 15 = w) (hw2 : Spec.readWord m (Spec.fmtPos2 m.size) 15 = w)
    (hdark : Spec.cell m (m.size - 8) 8 = 1)
    (hbch : Spec.bch15 ((w ^^^ 0x5412) >>> 10) = w ^^^ 0x5412)
    (hlvl : (w ^^^ 0x5412) >>> 10 >>> 3 = e) (hmask : ((w ^^^ 0x5412) >>> 10) % 8 = mk)
    (hv : ver ≥ 7 → Spec.readWord m (Spec.verPos1 m.size) 18 = Spec.golay18 ver ∧ Spec.readWord m (Spec.verPos2 m.size) 18 = Spec.golay18 ver) :
    Spec.readHeader m = .ok { version := (ver : Int), level := (e : Int), mask := mk } := by
  unfold Spec.readHeader
  simp only [hall1, hall2, hn, hn2, hn3, hver, hw1, hw2, hdark, hbch, hlvl, hmask, bind, Except.bind, pure, Except.pure,
    Bool.not_true, Bool.false_eq_true, if_false, bne_self_eq_false, Bool.or_self, decide_false, Nat.reduceBEq]
  split
  · next h7 =>
    obtain ⟨a, b⟩ := hv h7
    simp only [a, b, bne_self_eq_false, Bool.false_eq_true, if_false]
  · rfl

theorem readHeader_micro (m : Matrix) (v lvl : Int) (mk w : Nat) 
    (hall1 : m.all (fun r => r.size == m.size) = true)
    (hall2 : m.all (fun r => r.all (fun x => decide (x ≤ 1))) = true)
    (hn : m.size < 21) (hn2 : (m.size == 11 || m.size == 13 || m.size == 15 || m.size == 17) = true)
    (hw1 : Spec.readWord m Spec.fmtPosMicro 15 = w)
    (hbch : Spec.bch15 ((w ^^^ 0x4445) >>> 10) = w ^^^ 0x4445)
    (hsym : Spec.microSymbol ((w ^^^ 0x4445) >>> 10 >>> 2) = (v, lvl)) (hsize : Spec.size v = m.size)
    (hmask : ((w ^^^ 0x4445) >>> 10) % 4 = mk) :
    Spec.readHeader m = .ok { version := v, level := lvl, mask := mk } := by
  unfold Spec.readHeader
  simp only [hall1, hall2, hn, hn2, hw1, hbch, hsym, hsize, hmask, bind, Except.bind, pure, Except.pure,
    Bool.not_true, Bool.false_eq_true, if_false, if_true, bne_self_eq_false, Bool.or_self, decide_false]


/-! ### the two whole-matrix checks -/

theorem all_square (m : Matrix) (n : Nat) (hs : Proofs.Placement.Sq m n) :
    m.all (fun r => r.size == m.size) = true := by
  rw [Array.all_eq_true]
  intro i hi
  have := hs.2 i (by rw [← hs.1]; exact hi)
  simp only [Array.getD_eq_getD_getElem?, Array.getElem?_eq_getElem hi, Option.getD_some] at this
  simp [this, hs.1]

theorem all_binary (m : Matrix) (n : Nat) (hs : Proofs.Placement.Sq m n)
    (hb : ∀ a b, a < n → b < n → get2 m a b ≤ 1) :
    m.all (fun r => r.all (fun x => decide (x ≤ 1))) = true := by
  rw [Array.all_eq_true]
  intro i hi
  rw [Array.all_eq_true]
  intro j hj
  have hin : i < n := by rw [← hs.1]; exact hi
  have hrow := hs.2 i hin
  simp only [Array.getD_eq_getD_getElem?, Array.getElem?_eq_getElem hi, Option.getD_some] at hrow
  have := hb i j hin (by rw [← hrow]; exact hj)
  unfold get2 at this
  simp only [Array.getD_eq_getD_getElem?, Array.getElem?_eq_getElem hi, Option.getD_some,
    Array.getElem?_eq_getElem hj] at this
  simpa using this

end Proofs.EndToEnd
