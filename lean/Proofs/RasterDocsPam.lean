/-
  Proofs.RasterDocsPam — the list-level PAM reader (Spec/RasterL.lean) applied to the whole files the model of
  `write_pam` writes (Model/RasterDocs.lean), for every tuple type the colour logic can choose.  Mathlib-free.
-/
import Proofs.RasterDocsBase
import Proofs.RasterDocsNetpbm
import Proofs.PngDefs

namespace Proofs.RasterDocs

open Model Model.RasterDocs Spec Proofs.Raster

/-! ### the colour values are bytes -/

theorem name2rgb_bounds : ∀ e ∈ Gen.NAME2RGB, e.2.1 ≤ 255 ∧ e.2.2.1 ≤ 255 ∧ e.2.2.2 ≤ 255 := by decide +kernel

theorem nameToRgb_bounds (s : String) (r g b : Nat) (h : nameToRgb s = some (r, g, b)) : r ≤ 255 ∧ g ≤ 255 ∧ b ≤ 255 := by
  unfold nameToRgb at h
  cases hf : Gen.NAME2RGB.find? (fun e => e.1 == lowerAscii s) with
  | none => rw [hf] at h; cases h
  | some e =>
    rw [hf] at h
    simp only [Option.map_some, Option.some.injEq] at h
    have := name2rgb_bounds e (List.mem_of_find?_eq_some hf)
    rw [h] at this
    exact this

theorem hexVal_le (c : Char) : (hexVal? c).getD 0 ≤ 15 := by
  unfold hexVal?
  simp only [Char.le_def, UInt32.le_iff_toNat_le, Bool.and_eq_true, decide_eq_true_eq]
  split
  · rename_i h; have : c.toNat = c.val.toNat := rfl; simp only [Option.getD_some]; have h2 := h.2; change c.val.toNat ≤ 57 at h2; omega
  · split
    · rename_i h; have : c.toNat = c.val.toNat := rfl; simp only [Option.getD_some]; have h2 := h.2; change c.val.toNat ≤ 102 at h2; omega
    · split
      · rename_i h; have : c.toNat = c.val.toNat := rfl; simp only [Option.getD_some]; have h2 := h.2; change c.val.toNat ≤ 70 at h2; omega
      · simp

theorem hexPairs_bounds : ∀ cs : List Char, ∀ x ∈ hexPairs cs, x ≤ 255
  | [], x, hx => by simp [hexPairs] at hx
  | [_], x, hx => by simp [hexPairs] at hx
  | a :: b :: rest, x, hx => by
    simp only [hexPairs, List.mem_cons] at hx
    rcases hx with rfl | hx
    · have := hexVal_le a; have := hexVal_le b; omega
    · exact hexPairs_bounds rest x hx

theorem hexToInts_bounds (s : String) (l : List Nat) (h : hexToInts s = .ok l) : ∀ x ∈ l, x ≤ 255 := by
  have : ∃ cs, l = hexPairs cs := by
    simp only [hexToInts] at h
    repeat' split at h
    all_goals first | (cases h; exact ⟨_, rfl⟩) | cases h
  obtain ⟨cs, rfl⟩ := this
  exact hexPairs_bounds cs

theorem roundAlpha_le (k : Nat) (hk : k ≤ 1000) : roundAlpha k ≤ 255 := by
  unfold roundAlpha
  simp only
  split
  · omega
  · split
    · omega
    · split <;> omega

/-- what `_color_to_rgba` returns are four bytes -/
theorem colorToRgba_bounds (c : ColorArg) (r g b a : Nat) (h : colorToRgba c = .ok (r, g, b, a)) :
    r ≤ 255 ∧ g ≤ 255 ∧ b ≤ 255 ∧ a ≤ 255 := by
  cases c with
  | none => simp only [colorToRgba] at h; cases h
  | floatAlpha r' g' b' k =>
    simp only [colorToRgba, alphaOfFloat] at h
    by_cases h1 : r' ≤ 255 ∧ g' ≤ 255 ∧ b' ≤ 255
    · by_cases h2 : k ≤ 1000
      · simp only [h1, h2, and_self, if_true, bind, Except.bind, pure, Except.pure] at h
        cases h
        exact ⟨h1.1, h1.2.1, h1.2.2, roundAlpha_le k h2⟩
      · simp only [h1, h2, and_self, if_true, if_false, bind, Except.bind, throw, throwThe, MonadExceptOf.throw] at h
        cases h
    · simp only [h1, if_false] at h; cases h
  | ints l =>
    match l with
    | [] => simp only [colorToRgba] at h; cases h
    | [_] => simp only [colorToRgba] at h; cases h
    | [_, _] => simp only [colorToRgba] at h; cases h
    | [r', g', b'] =>
      simp only [colorToRgba] at h
      by_cases h1 : r' ≤ 255 ∧ g' ≤ 255 ∧ b' ≤ 255
      · simp only [h1, and_self, if_true, pure, Except.pure] at h
        cases h
        exact ⟨h1.1, h1.2.1, h1.2.2, by omega⟩
      · simp only [h1, if_false] at h; cases h
    | [r', g', b', a'] =>
      simp only [colorToRgba, alphaOfInt] at h
      by_cases h1 : r' ≤ 255 ∧ g' ≤ 255 ∧ b' ≤ 255
      · by_cases h2 : a' ≤ 255
        · simp only [h1, h2, and_self, if_true, bind, Except.bind, pure, Except.pure] at h
          cases h
          exact ⟨h1.1, h1.2.1, h1.2.2, h2⟩
        · simp only [h1, h2, and_self, if_true, if_false, bind, Except.bind, throw, throwThe, MonadExceptOf.throw] at h
          cases h
      · simp only [h1, if_false] at h; cases h
    | _ :: _ :: _ :: _ :: _ :: _ => simp only [colorToRgba] at h; cases h
  | str s =>
    simp only [colorToRgba] at h
    cases hn : nameToRgb s with
    | some v =>
      obtain ⟨r', g', b'⟩ := v
      rw [hn] at h
      simp only [pure, Except.pure] at h
      cases h
      have := nameToRgb_bounds _ _ _ _ hn
      exact ⟨this.1, this.2.1, this.2.2, by omega⟩
    | none =>
      rw [hn] at h
      simp only [bind, Except.bind] at h
      cases hx : hexToInts s with
      | error e => rw [hx] at h; cases h
      | ok l =>
        rw [hx] at h
        have hb := hexToInts_bounds s l hx
        match l with
        | [] => cases h
        | [_] => cases h
        | [_, _] => cases h
        | [r', g', b'] =>
          simp only [pure, Except.pure] at h
          cases h
          exact ⟨hb _ (by simp), hb _ (by simp), hb _ (by simp), by omega⟩
        | [r', g', b', a'] =>
          simp only [pure, Except.pure] at h
          cases h
          exact ⟨hb _ (by simp), hb _ (by simp), hb _ (by simp), hb _ (by simp)⟩
        | _ :: _ :: _ :: _ :: _ :: _ => cases h

/-- `_color_to_rgb_or_rgba` for a colour other than `None`: three bytes for an opaque colour, else four -/
theorem rgbOrRgba_shape (c : ColorArg) (hc : c ≠ .none) (t : List Nat) (h : rgbOrRgba c = .ok t) :
    ∃ r g b a, r ≤ 255 ∧ g ≤ 255 ∧ b ≤ 255 ∧ a ≤ 255 ∧
      ((a = 255 ∧ t = [r, g, b] ∧ pngColor c = .ok (.rgb r g b)) ∨ (a ≠ 255 ∧ t = [r, g, b, a] ∧ pngColor c = .ok (.rgba r g b a))) := by
  unfold rgbOrRgba at h
  cases hq : colorToRgba c with
  | error e => rw [hq] at h; cases h
  | ok q =>
    obtain ⟨r, g, b, a⟩ := q
    rw [hq] at h
    simp only [bind, Except.bind, pure, Except.pure] at h
    have hb := colorToRgba_bounds c r g b a hq
    have hp : pngColor c = .ok (if a == 255 then .rgb r g b else .rgba r g b a) := by
      cases c with
      | none => exact absurd rfl hc
      | _ => simp only [pngColor, hq, bind, Except.bind]; rfl
    refine ⟨r, g, b, a, hb.1, hb.2.1, hb.2.2.1, hb.2.2.2, ?_⟩
    by_cases ha : a = 255
    · subst ha
      left
      simp only [beq_self_eq_true, if_true] at h hp
      cases h
      exact ⟨rfl, rfl, hp⟩
    · right
      have : (a == 255) = false := by simp [ha]
      simp only [this, Bool.false_eq_true, if_false] at h hp
      cases h
      exact ⟨ha, rfl, hp⟩

/-! ### what a plan of `write_pam` must satisfy for the reader to show the two colours -/

/-- the bytes `row_filter` writes for one matrix value -/
def pamCell (p : PamPlan) (v : Nat) : List Nat :=
  match p.colours with
  | none => [v ^^^ 1]
  | some (l, d) => if v == 0 then l else d

theorem pamRow_eq (p : PamPlan) (row : List Nat) : pamRow p row = row.flatMap (pamCell p) := by
  unfold pamRow pamCell
  cases p.colours with
  | none =>
    simp only
    induction row with
    | nil => rfl
    | cons v r ih => simp only [List.map_cons, List.flatMap_cons, ih]; rfl
  | some c => obtain ⟨l, d⟩ := c; rfl

structure PlanOK (p : PamPlan) (dPx lPx : RGBA) : Prop where
  depth : L.pamWantDepth (p.tupl.name.map Char.toNat) = some p.depth
  dpos : p.depth ≠ 0
  maxval : p.maxval = 1 ∨ p.maxval = 255
  bw : ((p.tupl.name.map Char.toNat).take 13 == [66, 76, 65, 67, 75, 65, 78, 68, 87, 72, 73, 84, 69] && p.maxval != 1) = false
  len0 : (pamCell p 0).length = p.depth
  len1 : (pamCell p 1).length = p.depth
  px0 : L.pamPixel p.maxval (pamCell p 0) = some lPx
  px1 : L.pamPixel p.maxval (pamCell p 1) = some dPx

theorem scaleTo255_byte (v : Nat) (hv : v ≤ 255) : L.scaleTo255 255 v = some v := by
  unfold L.scaleTo255
  have h1 : ¬ v > 255 := by omega
  have h2 : v * 255 % 255 = 0 := by omega
  have h3 : v * 255 / 255 = v := by omega
  simp [h1, h2, h3]

theorem planOK_rgba (r g b a lr lg lb la : Nat) (hr : r ≤ 255) (hg : g ≤ 255) (hb : b ≤ 255) (ha : a ≤ 255)
    (hlr : lr ≤ 255) (hlg : lg ≤ 255) (hlb : lb ≤ 255) (hla : la ≤ 255) :
    PlanOK { depth := 4, maxval := 255, tupl := .rgbAlpha, colours := some ([lr, lg, lb, la], [r, g, b, a]) } ⟨r, g, b, a⟩ ⟨lr, lg, lb, la⟩ where
  depth := by dsimp only; decide
  dpos := by dsimp only; decide
  maxval := Or.inr rfl
  bw := by dsimp only; decide
  len0 := rfl
  len1 := rfl
  px0 := by simp [pamCell, L.pamPixel, scaleTo255_byte, *]
  px1 := by simp [pamCell, L.pamPixel, scaleTo255_byte, *]

theorem planOK_rgb (r g b lr lg lb : Nat) (hr : r ≤ 255) (hg : g ≤ 255) (hb : b ≤ 255)
    (hlr : lr ≤ 255) (hlg : lg ≤ 255) (hlb : lb ≤ 255) :
    PlanOK { depth := 3, maxval := 255, tupl := .rgb, colours := some ([lr, lg, lb], [r, g, b]) } ⟨r, g, b, 255⟩ ⟨lr, lg, lb, 255⟩ where
  depth := by dsimp only; decide
  dpos := by dsimp only; decide
  maxval := Or.inr rfl
  bw := by dsimp only; decide
  len0 := rfl
  len1 := rfl
  px0 := by simp [pamCell, L.pamPixel, scaleTo255_byte, *]
  px1 := by simp [pamCell, L.pamPixel, scaleTo255_byte, *]

/-- a plan without variables: everything is computed -/
theorem planOK_closed (p : PamPlan) (dPx lPx : RGBA)
    (h : L.pamWantDepth (p.tupl.name.map Char.toNat) = some p.depth ∧ p.depth ≠ 0 ∧ (p.maxval = 1 ∨ p.maxval = 255)
      ∧ ((p.tupl.name.map Char.toNat).take 13 == [66, 76, 65, 67, 75, 65, 78, 68, 87, 72, 73, 84, 69] && p.maxval != 1) = false
      ∧ (pamCell p 0).length = p.depth ∧ (pamCell p 1).length = p.depth
      ∧ L.pamPixel p.maxval (pamCell p 0) = some lPx ∧ L.pamPixel p.maxval (pamCell p 1) = some dPx) :
    PlanOK p dPx lPx :=
  ⟨h.1, h.2.1, h.2.2.1, h.2.2.2.1, h.2.2.2.2.1, h.2.2.2.2.2.1, h.2.2.2.2.2.2.1, h.2.2.2.2.2.2.2⟩

/-- the colour logic of `write_pam` behind the parsing of the two colours (a copy of the text of `Model.RasterDocs.pamPlan`;
    `pamPlan_eq` checks that it is one) -/
def planTail (stroke0 : List Nat) (bg0 : Option (List Nat)) : R PamPlan := do
  let coloredStroke := !(isBlackT stroke0 || isWhiteT stroke0)
  let (tupl, transparency, stroke, bg) : TuplType × Bool × List Nat × List Nat :=
    match bg0 with
    | none =>
      ((if !coloredStroke && stroke0.length != 4 then TuplType.grayscaleAlpha else TuplType.rgbAlpha), true,
       (if stroke0.length != 4 then stroke0 ++ [255] else stroke0), (stroke0.take 3).map (255 - ·) ++ [0])
    | some bg0 =>
      if stroke0.length == 4 || bg0.length == 4 then
        (TuplType.rgbAlpha, true, (if stroke0.length != 4 then stroke0 ++ [255] else stroke0), (if bg0.length != 4 then bg0 ++ [255] else bg0))
      else if coloredStroke || !(isBlackT bg0 || isWhiteT bg0) then (TuplType.rgb, false, stroke0, bg0)
      else (TuplType.blackAndWhite, false, stroke0, bg0)
  if !tupl.isRgb && transparency then
    pure { depth := 2, maxval := 1, tupl := tupl, colours := some (if isBlackT stroke then ([1, 0], [0, 1]) else ([0, 0], [1, 1])) }
  else if tupl.isRgb then
    pure { depth := if !transparency then 3 else 4, maxval := 255, tupl := tupl, colours := some (bg, stroke) }
  else if !(isBlackT stroke && isWhiteT bg) then
    pure { depth := 1, maxval := 1, tupl := tupl,
           colours := some ((if isBlackT bg then [0] else [1]), (if isBlackT stroke then [0] else [1])) }
  else pure { depth := 1, maxval := 1, tupl := tupl, colours := none }

theorem pamPlan_eq (dark light : ColorArg) :
    pamPlan dark light = (do
      let stroke0 ← rgbOrRgba dark
      let bg0 : Option (List Nat) ← match light with
        | .none => pure none
        | c => do let t ← rgbOrRgba c; pure (some t)
      planTail stroke0 bg0) := rfl

/-- `t` is the tuple `_color_to_rgb_or_rgba` returns for the colour `x` -/
def Tuple (t : List Nat) (x : RGBA) : Prop :=
  x.r ≤ 255 ∧ x.g ≤ 255 ∧ x.b ≤ 255 ∧ x.a ≤ 255 ∧ ((x.a = 255 ∧ t = [x.r, x.g, x.b]) ∨ (x.a ≠ 255 ∧ t = [x.r, x.g, x.b, x.a]))

theorem isBlackT3 (r g b : Nat) : isBlackT [r, g, b] = true ↔ r = 0 ∧ g = 0 ∧ b = 0 := by
  simp [isBlackT]

theorem isWhiteT3 (r g b : Nat) : isWhiteT [r, g, b] = true ↔ r = 255 ∧ g = 255 ∧ b = 255 := by
  simp [isWhiteT]

theorem planTail_none (s0 : List Nat) (p : PamPlan) (dPx : RGBA) (hs : Tuple s0 dPx) (h : planTail s0 none = .ok p) :
    ∃ lPx : RGBA, lPx.a = 0 ∧ PlanOK p dPx lPx := by
  obtain ⟨r, g, b, a⟩ := dPx
  obtain ⟨hr, hg, hb, ha, hs⟩ := hs
  simp only at hr hg hb ha hs
  rcases hs with ⟨rfl, rfl⟩ | ⟨ha', rfl⟩
  · by_cases hB : isBlackT [r, g, b] = true
    · obtain ⟨rfl, rfl, rfl⟩ := (isBlackT3 r g b).1 hB
      have : planTail [0, 0, 0] none = .ok { depth := 2, maxval := 1, tupl := .grayscaleAlpha, colours := some ([1, 0], [0, 1]) } := rfl
      rw [this] at h; cases h
      exact ⟨⟨255, 255, 255, 0⟩, rfl, planOK_closed _ _ _ (by decide)⟩
    · by_cases hW : isWhiteT [r, g, b] = true
      · obtain ⟨rfl, rfl, rfl⟩ := (isWhiteT3 r g b).1 hW
        have : planTail [255, 255, 255] none = .ok { depth := 2, maxval := 1, tupl := .grayscaleAlpha, colours := some ([0, 0], [1, 1]) } := rfl
        rw [this] at h; cases h
        exact ⟨⟨0, 0, 0, 0⟩, rfl, planOK_closed _ _ _ (by decide)⟩
      · simp [planTail, hB, hW, TuplType.isRgb] at h
        cases h
        exact ⟨⟨255 - r, 255 - g, 255 - b, 0⟩, rfl,
          planOK_rgba _ _ _ _ _ _ _ _ hr hg hb (by omega) (by omega) (by omega) (by omega) (by omega)⟩
  · simp [planTail, TuplType.isRgb] at h
    cases h
    exact ⟨⟨255 - r, 255 - g, 255 - b, 0⟩, rfl,
      planOK_rgba _ _ _ _ _ _ _ _ hr hg hb ha (by omega) (by omega) (by omega) (by omega)⟩

theorem planTail_some (s0 t : List Nat) (p : PamPlan) (dPx lPx : RGBA) (hs : Tuple s0 dPx) (ht : Tuple t lPx)
    (h : planTail s0 (some t) = .ok p) : PlanOK p dPx lPx := by
  obtain ⟨r, g, b, a⟩ := dPx
  obtain ⟨hr, hg, hb, ha, hs⟩ := hs
  obtain ⟨lr, lg, lb, la⟩ := lPx
  obtain ⟨hlr, hlg, hlb, hla, ht⟩ := ht
  simp only at hr hg hb ha hs hlr hlg hlb hla ht
  rcases hs with ⟨rfl, rfl⟩ | ⟨ha', rfl⟩ <;> rcases ht with ⟨rfl, rfl⟩ | ⟨hla', rfl⟩
  · by_cases hcol : (isBlackT [r, g, b] = false ∧ isWhiteT [r, g, b] = false) ∨ (isBlackT [lr, lg, lb] = false ∧ isWhiteT [lr, lg, lb] = false)
    · simp [planTail, hcol, TuplType.isRgb] at h
      cases h
      exact planOK_rgb _ _ _ _ _ _ hr hg hb hlr hlg hlb
    · have h1 : isBlackT [r, g, b] = true ∨ isWhiteT [r, g, b] = true := by
        cases hx : isBlackT [r, g, b] <;> cases hy : isWhiteT [r, g, b] <;> simp [hx, hy] at hcol ⊢
      have h2 : isBlackT [lr, lg, lb] = true ∨ isWhiteT [lr, lg, lb] = true := by
        cases hx : isBlackT [lr, lg, lb] <;> cases hy : isWhiteT [lr, lg, lb] <;> simp [hx, hy] at hcol ⊢
      rw [isBlackT3, isWhiteT3] at h1 h2
      rcases h1 with ⟨rfl, rfl, rfl⟩ | ⟨rfl, rfl, rfl⟩ <;> rcases h2 with ⟨rfl, rfl, rfl⟩ | ⟨rfl, rfl, rfl⟩
      · have : planTail [0, 0, 0] (some [0, 0, 0]) = .ok { depth := 1, maxval := 1, tupl := .blackAndWhite, colours := some ([0], [0]) } := rfl
        rw [this] at h; cases h
        exact planOK_closed _ _ _ (by decide)
      · have : planTail [0, 0, 0] (some [255, 255, 255]) = .ok { depth := 1, maxval := 1, tupl := .blackAndWhite, colours := none } := rfl
        rw [this] at h; cases h
        exact planOK_closed _ _ _ (by decide)
      · have : planTail [255, 255, 255] (some [0, 0, 0]) = .ok { depth := 1, maxval := 1, tupl := .blackAndWhite, colours := some ([0], [1]) } := rfl
        rw [this] at h; cases h
        exact planOK_closed _ _ _ (by decide)
      · have : planTail [255, 255, 255] (some [255, 255, 255]) = .ok { depth := 1, maxval := 1, tupl := .blackAndWhite, colours := some ([1], [1]) } := rfl
        rw [this] at h; cases h
        exact planOK_closed _ _ _ (by decide)
  · simp [planTail, TuplType.isRgb] at h
    cases h
    exact planOK_rgba _ _ _ _ _ _ _ _ hr hg hb (by omega) hlr hlg hlb hla
  · simp [planTail, TuplType.isRgb] at h
    cases h
    exact planOK_rgba _ _ _ _ _ _ _ _ hr hg hb ha hlr hlg hlb (by omega)
  · simp [planTail, TuplType.isRgb] at h
    cases h
    exact planOK_rgba _ _ _ _ _ _ _ _ hr hg hb ha hlr hlg hlb hla

theorem rgbOrRgba_tuple (c : ColorArg) (hc : c ≠ .none) (t : List Nat) (h : rgbOrRgba c = .ok t) :
    ∃ C x, pngColor c = .ok C ∧ Proofs.Png.Shows C x ∧ Tuple t x := by
  obtain ⟨r, g, b, a, hr, hg, hb, ha, hcase⟩ := rgbOrRgba_shape c hc t h
  rcases hcase with ⟨rfl, rfl, hp⟩ | ⟨ha', rfl, hp⟩
  · exact ⟨_, ⟨r, g, b, 255⟩, hp, rfl, hr, hg, hb, ha, Or.inl ⟨rfl, rfl⟩⟩
  · exact ⟨_, ⟨r, g, b, a⟩, hp, rfl, hr, hg, hb, ha, Or.inr ⟨ha', rfl⟩⟩

/-- the colour logic of `write_pam`: whatever it decides, the reader shows the two colours -/
theorem pamPlan_ok (dark light : ColorArg) (hd : dark ≠ .none) (p : PamPlan) (h : pamPlan dark light = .ok p) :
    ∃ dC lC dPx lPx, pngColor dark = .ok dC ∧ pngColor light = .ok lC
      ∧ Proofs.Png.Shows dC dPx ∧ Proofs.Png.Shows lC lPx ∧ PlanOK p dPx lPx := by
  rw [pamPlan_eq] at h
  simp only [bind, Except.bind] at h
  cases hs : rgbOrRgba dark with
  | error e => rw [hs] at h; cases h
  | ok s0 =>
    rw [hs] at h
    simp only at h
    obtain ⟨dC, dPx, hdC, hdS, hdT⟩ := rgbOrRgba_tuple dark hd s0 hs
    cases light with
    | none =>
      simp only [pure, Except.pure] at h
      obtain ⟨lPx, hl0, hok⟩ := planTail_none s0 p dPx hdT h
      exact ⟨dC, .transparent, dPx, lPx, hdC, rfl, hdS, hl0, hok⟩
    | _ =>
      simp only at h
      split at h
      · cases h
      · rename_i t ht
        simp only [pure, Except.pure] at h
        obtain ⟨lC, lPx, hlC, hlS, hlT⟩ := rgbOrRgba_tuple _ (by simp) t ht
        exact ⟨dC, lC, dPx, lPx, hdC, hlC, hdS, hlS, planTail_some s0 t p dPx lPx hdT hlT h⟩

/-! ### reading the header -/

/-- `key value` with a decimal value -/
def numLine (key : List Nat) (n : Nat) : List Nat := key ++ 32 :: decBytes n

def kW : List Nat := [87, 73, 68, 84, 72]
def kH : List Nat := [72, 69, 73, 71, 72, 84]
def kD : List Nat := [68, 69, 80, 84, 72]
def kM : List Nat := [77, 65, 88, 86, 65, 76]
def kT : List Nat := [84, 85, 80, 76, 84, 89, 80, 69]
def kE : List Nat := [69, 78, 68, 72, 68, 82]

def tuplLine (t : TuplType) : List Nat := kT ++ 32 :: t.name.map Char.toNat

theorem ascii_p7 : ascii "P7" = [80, 55] := by decide
theorem ascii_width : ascii "WIDTH " = kW ++ [32] := by decide
theorem ascii_height : ascii "HEIGHT " = kH ++ [32] := by decide
theorem ascii_depth : ascii "DEPTH " = kD ++ [32] := by decide
theorem ascii_maxval : ascii "MAXVAL " = kM ++ [32] := by decide
theorem ascii_tupltype : ascii "TUPLTYPE " = kT ++ [32] := by decide
theorem ascii_endhdr : ascii "ENDHDR" = kE := by decide

theorem pamHeader_eq (t : List Nat) (W H : Nat) (p : PamPlan) (raster : List Nat) :
    pamHeader (35 :: t) W H p ++ raster =
      80 :: 55 :: 10 :: ((35 :: t) ++ 10 :: (numLine kW W ++ 10 :: (numLine kH H ++ 10 ::
        (numLine kD p.depth ++ 10 :: (numLine kM p.maxval ++ 10 :: (tuplLine p.tupl ++ 10 :: (kE ++ 10 :: raster))))))) := by
  unfold pamHeader
  simp only [ascii_p7, ascii_width, ascii_height, ascii_depth, ascii_maxval, ascii_tupltype, ascii_endhdr, numLine, tuplLine,
    List.append_assoc, List.cons_append, List.nil_append]

theorem pamLines_line (l rest : List Nat) (hl : ∀ c ∈ l, c ≠ 10) : ∀ (cur : List Nat) (acc : List (List Nat)),
    L.pamLines (l ++ 10 :: rest) cur acc =
      if (cur.reverse ++ l) == kE then some (acc.reverse, rest) else L.pamLines rest [] ((cur.reverse ++ l) :: acc) := by
  induction l with
  | nil => intro cur acc; simp [L.pamLines, kE]
  | cons c l ih =>
    intro cur acc
    have hc : (c == 10) = false := by simpa using hl c (by simp)
    simp only [List.cons_append, L.pamLines, hc, Bool.false_eq_true, if_false]
    rw [ih (fun x hx => hl x (by simp [hx]))]
    simp

theorem splitOn_piece (sep : Nat) (l rest : List Nat) (hl : ∀ c ∈ l, c ≠ sep) : ∀ cur : List Nat,
    L.splitOn sep (l ++ sep :: rest) cur =
      if (cur.reverse ++ l).isEmpty then L.splitOn sep rest [] else (cur.reverse ++ l) :: L.splitOn sep rest [] := by
  induction l with
  | nil => intro cur; simp [L.splitOn]
  | cons c l ih =>
    intro cur
    have hc : (c == sep) = false := by simpa using hl c (by simp)
    simp only [List.cons_append, L.splitOn, hc, Bool.false_eq_true, if_false]
    rw [ih (fun x hx => hl x (by simp [hx]))]
    simp

theorem splitOn_last (sep : Nat) (l : List Nat) (hl : ∀ c ∈ l, c ≠ sep) : ∀ cur : List Nat,
    L.splitOn sep l cur = if (cur.reverse ++ l).isEmpty then [] else [cur.reverse ++ l] := by
  induction l with
  | nil => intro cur; simp [L.splitOn]
  | cons c l ih =>
    intro cur
    have hc : (c == sep) = false := by simpa using hl c (by simp)
    simp only [L.splitOn, hc, Bool.false_eq_true, if_false]
    rw [ih (fun x hx => hl x (by simp [hx]))]
    simp

theorem decBytes_no (n sep : Nat) (hsep : isDigitB sep = false) : ∀ c ∈ decBytes n, c ≠ sep := by
  intro c hc hcs
  have := decBytes_digits n c hc
  rw [hcs, hsep] at this
  cases this

theorem natOf_dec (n : Nat) : L.natOf? (decBytes n) = some n := by
  unfold L.natOf?
  have h1 : (decBytes n).isEmpty = false := by
    cases h : decBytes n with
    | nil => exact absurd h (decBytes_ne n)
    | cons _ _ => rfl
  have h2 : (decBytes n).all isDigitB = true := List.all_eq_true.2 (decBytes_digits n)
  simp [h1, h2, digitsVal_decBytes]

/-- the two pieces of a header line `key value` -/
theorem splitOn_two (key v : List Nat) (hk : ∀ c ∈ key, c ≠ 32) (hv : ∀ c ∈ v, c ≠ 32) (hk0 : key ≠ []) (hv0 : v ≠ []) :
    L.splitOn 32 (key ++ 32 :: v) [] = [key, v] := by
  rw [splitOn_piece 32 key v hk, splitOn_last 32 v hv]
  simp [hk0, hv0]

theorem splitOn_num (key : List Nat) (n : Nat) (hk : ∀ c ∈ key, c ≠ 32) (hk0 : key ≠ []) :
    L.splitOn 32 (numLine key n) [] = [key, decBytes n] :=
  splitOn_two key _ hk (decBytes_no n 32 (by decide)) hk0 (decBytes_ne n)

theorem headerLine_comment (hd : L.PamHdr) (r : List Nat) : L.pamHeaderLine hd (35 :: 32 :: r) = .ok hd := by
  simp [L.pamHeaderLine, L.splitOn]

theorem headerLine_width (hd : L.PamHdr) (n : Nat) (h : hd.w = none) :
    L.pamHeaderLine hd (numLine kW n) = .ok { hd with w := some n } := by
  unfold L.pamHeaderLine
  rw [splitOn_num _ n (by decide) (by decide)]
  simp [natOf_dec, h, kW]

theorem headerLine_height (hd : L.PamHdr) (n : Nat) (h : hd.h = none) :
    L.pamHeaderLine hd (numLine kH n) = .ok { hd with h := some n } := by
  unfold L.pamHeaderLine
  rw [splitOn_num _ n (by decide) (by decide)]
  simp [natOf_dec, h, kH]

theorem headerLine_depth (hd : L.PamHdr) (n : Nat) (h : hd.depth = none) :
    L.pamHeaderLine hd (numLine kD n) = .ok { hd with depth := some n } := by
  unfold L.pamHeaderLine
  rw [splitOn_num _ n (by decide) (by decide)]
  simp [natOf_dec, h, kD]

theorem headerLine_maxval (hd : L.PamHdr) (n : Nat) (h : hd.maxval = none) :
    L.pamHeaderLine hd (numLine kM n) = .ok { hd with maxval := some n } := by
  unfold L.pamHeaderLine
  rw [splitOn_num _ n (by decide) (by decide)]
  simp [natOf_dec, h, kM]

theorem tuplName_ok (t : TuplType) : (∀ c ∈ t.name.map Char.toNat, c ≠ 32 ∧ c ≠ 10) ∧ t.name.map Char.toNat ≠ [] := by
  cases t <;> decide

theorem headerLine_tupl (hd : L.PamHdr) (t : TuplType) (h : hd.tupl = []) :
    L.pamHeaderLine hd (tuplLine t) = .ok { hd with tupl := t.name.map Char.toNat } := by
  unfold L.pamHeaderLine tuplLine
  rw [splitOn_two _ _ (by decide) (fun c hc => ((tuplName_ok t).1 c hc).1) (by decide) (tuplName_ok t).2]
  simp [h, L.joinSp, kT]

theorem commentTail_cons : commentTail = 32 :: commentTail.tail := by decide

theorem numLine_no10 (key : List Nat) (n : Nat) (hk : ∀ c ∈ key, c ≠ 10) : ∀ c ∈ numLine key n, c ≠ 10 := by
  intro c hc
  simp only [numLine, List.mem_append, List.mem_cons] at hc
  rcases hc with hc | rfl | hc
  · exact hk c hc
  · decide
  · exact decBytes_no n 10 (by decide) c hc

theorem tuplLine_no10 (t : TuplType) : ∀ c ∈ tuplLine t, c ≠ 10 := by
  cases t <;> decide

/-- the header lines and the raster, as the reader separates them -/
theorem pamLines_header (W H : Nat) (p : PamPlan) (raster : List Nat) :
    L.pamLines ((35 :: commentTail) ++ 10 :: (numLine kW W ++ 10 :: (numLine kH H ++ 10 ::
        (numLine kD p.depth ++ 10 :: (numLine kM p.maxval ++ 10 :: (tuplLine p.tupl ++ 10 :: (kE ++ 10 :: raster))))))) [] []
      = some ([35 :: commentTail, numLine kW W, numLine kH H, numLine kD p.depth, numLine kM p.maxval, tuplLine p.tupl], raster) := by
  have h35 : ∀ c ∈ 35 :: commentTail, c ≠ 10 := by
    intro c hc
    simp only [List.mem_cons] at hc
    rcases hc with rfl | hc
    · decide
    · exact (commentTail_ok c hc).1
  rw [pamLines_line _ _ h35, pamLines_line _ _ (numLine_no10 kW W (by decide)), pamLines_line _ _ (numLine_no10 kH H (by decide)),
    pamLines_line _ _ (numLine_no10 kD _ (by decide)), pamLines_line _ _ (numLine_no10 kM _ (by decide)),
    pamLines_line _ _ (tuplLine_no10 _), pamLines_line kE _ (by decide)]
  simp [numLine, tuplLine, kW, kH, kD, kM, kT, kE]

/-- the header fields the reader collects -/
theorem pamHeader_fields (W H : Nat) (p : PamPlan) :
    L.pamHeader [35 :: commentTail, numLine kW W, numLine kH H, numLine kD p.depth, numLine kM p.maxval, tuplLine p.tupl] {}
      = .ok { w := some W, h := some H, depth := some p.depth, maxval := some p.maxval, tupl := p.tupl.name.map Char.toNat } := by
  rw [commentTail_cons]
  simp only [L.pamHeader, headerLine_comment]
  rw [headerLine_width _ W rfl]
  simp only
  rw [headerLine_height _ H rfl]
  simp only
  rw [headerLine_depth _ _ rfl]
  simp only
  rw [headerLine_maxval _ _ rfl]
  simp only
  rw [headerLine_tupl _ _ rfl]

/-! ### the raster -/

theorem pamCell_bit (p : PamPlan) (dPx lPx : RGBA) (ok : PlanOK p dPx lPx) (v : Nat) (hv : v ≤ 1) :
    (pamCell p v).length = p.depth ∧ L.pamPixel p.maxval (pamCell p v) = some (if v ≠ 0 then dPx else lPx) := by
  have : v = 0 ∨ v = 1 := by omega
  rcases this with rfl | rfl
  · exact ⟨ok.len0, by simpa using ok.px0⟩
  · exact ⟨ok.len1, by simpa using ok.px1⟩

/-- one row of the raster, read back -/
theorem pamRow_read (p : PamPlan) (dPx lPx : RGBA) (ok : PlanOK p dPx lPx) (row : List Nat) (hrow : ∀ v ∈ row, v ≤ 1) :
    (pamRow p row).length = row.length * p.depth
    ∧ (L.chunks p.depth row.length (pamRow p row)).map (L.pamPixel p.maxval) = row.map (fun v => some (if v ≠ 0 then dPx else lPx)) := by
  rw [pamRow_eq]
  have hlen : ∀ v ∈ row, (pamCell p v).length = p.depth := fun v hv => (pamCell_bit p dPx lPx ok v (hrow v hv)).1
  constructor
  · rw [length_flatMap_const _ _ _ hlen, Nat.mul_comm]
  · rw [chunks_flatMap _ _ _ hlen, List.map_map]
    apply List.map_congr_left
    intro v hv
    exact (pamCell_bit p dPx lPx ok v (hrow v hv)).2

/-- the reader applied to a PAM file of the model: header with the `Created by` comment, then the rows -/
theorem readPam_doc (p : PamPlan) (dPx lPx : RGBA) (ok : PlanOK p dPx lPx) (W H : Nat) (hW : 0 < W) (hH : 0 < H)
    (rows : List (List Nat)) (hlen : rows.length = H) (hrowlen : ∀ r ∈ rows, r.length = W) (hbits : ∀ r ∈ rows, ∀ v ∈ r, v ≤ 1) :
    L.readPam (pamHeader (35 :: commentTail) W H p ++ rows.flatMap (pamRow p))
      = .ok { w := W, h := H, px := rows.map (fun row => row.map (fun v => some (if v ≠ 0 then dPx else lPx))) } := by
  rw [pamHeader_eq]
  have hrl : ∀ r ∈ rows, (pamRow p r).length = W * p.depth := by
    intro r hr
    rw [(pamRow_read p dPx lPx ok r (hbits r hr)).1, hrowlen r hr]
  have hraster : (rows.flatMap (pamRow p)).length = W * H * p.depth := by
    rw [length_flatMap_const _ _ _ hrl, hlen, Nat.mul_right_comm]
  have hch : L.chunks (W * p.depth) H (rows.flatMap (pamRow p)) = rows.map (pamRow p) := by
    have := chunks_flatMap (pamRow p) _ rows hrl
    rwa [hlen] at this
  have hW0 : (W == 0) = false := by simp; omega
  have hH0 : (H == 0) = false := by simp; omega
  have hd0 : (p.depth == 0) = false := by simpa using ok.dpos
  have hmx : (p.maxval == 0 || decide (p.maxval > 255)) = false := by
    rcases ok.maxval with h | h <;> rw [h] <;> decide
  simp only [L.readPam, pamLines_header, pamHeader_fields, hW0, hH0, hd0, hmx, ok.depth, ok.bw, hraster, hch, Bool.or_self,
    Bool.false_eq_true, if_false, bne_self_eq_false]
  congr 1
  congr 1
  rw [List.map_map]
  apply List.map_congr_left
  intro r hr
  have := (pamRow_read p dPx lPx ok r (hbits r hr)).2
  rw [hrowlen r hr] at this
  exact this

/-- PAM (P7): whenever the model of `write_pam` succeeds, the reader returns the `Spec.grid` picture in the two
    configured colours (every tuple type the colour logic can choose) -/
theorem pam_doc {w h : Nat} {scale : Num} {border : Option Num} {b : Nat} (a : Admitted w h scale border b)
    (M : List (List Nat)) (hM : WellFormed M w h) (hbits : Bits M) (hw : 0 < w) (hh : 0 < h)
    (dark light : Option ColorArg) (doc : List Nat) (hdoc : pamDoc M w h scale border dark light = .ok doc) :
    ∃ dC lC dPx lPx,
      pngColor (dark.getD (.str "#000")) = .ok dC ∧ pngColor (light.getD (.str "#fff")) = .ok lC
      ∧ Proofs.Png.Shows dC dPx ∧ Proofs.Png.Shows lC lPx
      ∧ L.readPam doc = .ok { w := (w + 2 * b) * scale.toInt.toNat, h := (h + 2 * b) * scale.toInt.toNat,
                              px := (grid M w h scale.toInt.toNat b).map (fun row => row.map (fun v => some (if v ≠ 0 then dPx else lPx))) } := by
  have hs := a.pos
  unfold pamDoc at hdoc
  simp only [validSB_ok a, createdBy_eq, matrixIter_ok a M hM, a.okRange, bind, Except.bind, pure, Except.pure] at hdoc
  generalize hsd : scale.toInt.toNat = s at hs hdoc ⊢
  generalize dark.getD (.str "#000") = dk at hdoc ⊢
  generalize light.getD (.str "#fff") = lt at hdoc ⊢
  by_cases hf : isFalsy dk = true
  · rw [if_pos hf] at hdoc; cases hdoc
  · rw [if_neg hf] at hdoc
    have hdk : dk ≠ .none := by
      intro hn; rw [hn] at hf; exact hf rfl
    cases hp : pamPlan dk lt with
    | error e => rw [hp] at hdoc; cases hdoc
    | ok plan =>
      rw [hp] at hdoc
      simp only [Except.ok.injEq] at hdoc
      subst hdoc
      obtain ⟨dC, lC, dPx, lPx, hdC, hlC, hdS, hlS, ok⟩ := pamPlan_ok dk lt hdk plan hp
      refine ⟨dC, lC, dPx, lPx, hdC, hlC, hdS, hlS, ?_⟩
      exact readPam_doc plan dPx lPx ok _ _ (Nat.mul_pos (by omega) hs) (Nat.mul_pos (by omega) hs) (grid M w h s b)
        (grid_length M w h s b) (grid_row_length M w h s b) (grid_bits M w h s b hbits)

end Proofs.RasterDocs
