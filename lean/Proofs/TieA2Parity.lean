/-
  Proofs.TieA2Parity — `calc_structured_append_parity` (translated, Gen/Funcs2.lean; the three `content.encode(…)` calls
  are opaque reads that can raise) against `Model.xorBytes`.
-/
import Proofs.TieA2
import Model.Sequence

namespace Proofs.TieA2
open Gen.Py Proofs.TieA Model

theorem bxor_nat (a b : Nat) : bxor (a : Int) (b : Int) = ((a ^^^ b : Nat) : Int) := rfl

theorem foldl_bxor (l : List Nat) (x : Nat) : (toI l).foldl bxor (x : Int) = ((l.foldl (· ^^^ ·) x : Nat) : Int) := by
  induction l generalizing x with
  | nil => rfl
  | cons a t ih =>
    simp only [toI_cons, List.foldl_cons]
    rw [bxor_nat, ih]

/-- `reduce(xor, data)` of a non-empty byte string (`TypeError` for the empty one) -/
theorem reduceXor_toI (l : List Nat) (h : l ≠ []) : reduceXor (toI l) = .ok (Int.ofNat (xorBytes l)) := by
  cases l with
  | nil => exact absurd rfl h
  | cons a t =>
    simp only [toI_cons, reduceXor, xorBytes, List.foldl_cons, Nat.zero_xor]
    rw [foldl_bxor]
    rfl

theorem reduceXor_nil : reduceXor (toI []) = .error .typeError := rfl

/-- the content is Latin-1 -/
theorem parity_latin1 (s : String) (l : List Nat) (h : l ≠ []) (x y : M (List Int)) :
    Gen.Funcs2.calc_structured_append_parity s (.ok (toI l)) x y = .ok (Int.ofNat (xorBytes l)) := by
  unfold Gen.Funcs2.calc_structured_append_parity
  simp only [tryExcept_ok]
  exact reduceXor_toI l h

/-- not Latin-1, but Shift JIS -/
theorem parity_sjis (s : String) (l : List Nat) (h : l ≠ []) (y : M (List Int)) :
    Gen.Funcs2.calc_structured_append_parity s (.error .unicodeError) (.ok (toI l)) y = .ok (Int.ofNat (xorBytes l)) := by
  unfold Gen.Funcs2.calc_structured_append_parity
  simp only [tryExcept_error, tryExcept_ok]
  exact reduceXor_toI l h

/-- neither (`UnicodeError`, or the codec is missing: `LookupError`): UTF-8 -/
theorem parity_utf8 (s : String) (l : List Nat) (h : l ≠ []) (e : PyExc) (he : e = .unicodeError ∨ e = .lookupError) :
    Gen.Funcs2.calc_structured_append_parity s (.error .unicodeError) (.error e) (.ok (toI l)) = .ok (Int.ofNat (xorBytes l)) := by
  unfold Gen.Funcs2.calc_structured_append_parity
  rcases he with rfl | rfl <;> simp only [tryExcept_error, bind_ok] <;> exact reduceXor_toI l h

end Proofs.TieA2
