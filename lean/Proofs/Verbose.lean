/-
  Proofs.Verbose — helper lemmas for C11: the type constants of consts.py against the ISO type codes,
  the alignment look-up of `matrix_iter_verbose` against Annex E (`alignCheck`, evaluated per version
  by the kernel in Props/C11*.lean), the cell-level classification theorem.
-/
import Proofs.IterShape
import Proofs.Align
import Proofs.Raster
import Gen.Tables

namespace Proofs.Verbose

open Model Spec Proofs.IterShape Proofs.Align

/-- Tie A for the TYPE_* constants: the value returned at each `return` of `get_bit` is the ISO type
    code of the region, in its dark or light variant according to the module value -/
theorem branchCode_eq (br : Branch) (a val : Nat) (hval : val ≤ 1) (ha : br = .alignment → a = val) :
    branchCode br a val = typeCode (toKind br) val := by
  have hv : val = 0 ∨ val = 1 := by omega
  cases br <;> rcases hv with rfl | rfl <;> first
    | rfl
    | (have := ha rfl; subst this; rfl)

theorem alignmentMatrix_ok (n : Nat) (A : List (List Nat)) (h : alignmentMatrix? n = some A) :
    alignmentMatrix n = .ok A := by
  unfold alignmentMatrix; rw [h]; rfl

/-- cell-level classification: inside the symbol the Python chain, with the alignment look-up `a`
    satisfying `AlignCell`, returns the ISO type code — except at the D8 coordinate (8, n−9) of QR Codes -/
theorem getBitInside_iso (v : Int) (hv1 : -3 ≤ v) (hv2 : v ≤ 40) (i j a val : Nat)
    (hi : i < size v) (hj : j < size v) (hval : val ≤ 1)
    (hcell : AlignCell v i j a) (hsym : a ≠ 2 → val = a)
    (hd8 : ¬ (1 ≤ v ∧ i = 8 ∧ j + 9 = size v)) :
    getBitInside (size v) (size v) true (decide (size v < 21)) a val i j = isoType v i j val := by
  unfold getBitInside isoType
  by_cases hm : v < 1
  · -- Micro QR Code
    have hn : 11 ≤ size v ∧ size v < 21 := by unfold size; simp [show ¬ v > 0 by omega]; omega
    have hdec : decide (size v < 21) = true := by simp [hn.2]
    rw [hdec, kind_eq_kindMicro v hm, ← branch_micro (size v) i j a hn.1 hn.2 hi hj]
    apply branchCode_eq _ _ _ hval
    intro hbr
    have : getBitBranch (size v) (size v) true true a i j ≠ .alignment := by
      unfold getBitBranch; simp only [Bool.not_true, Bool.false_and, Bool.false_eq_true, if_false]
      repeat' split
      all_goals simp
    exact absurd hbr this
  · have hv : 1 ≤ v := by omega
    have hn : ((size v : Nat) : Int) = 17 + 4 * v := by unfold size; simp [show v > 0 by omega]; omega
    have hdec : decide (size v < 21) = false := by
      have : ¬ size v < 21 := by omega
      simp [this]
    rw [hdec, kind_eq_kindQR v hv]
    by_cases hal : inAlignment v.toNat (size v) i j = true
    · have ha2 : a ≠ 2 := hcell.1.2 hal
      rw [branch_qr_alignment (size v) a ha2]
      have hk := (hcell.2 hal).1
      rw [kind_eq_kindQR v hv] at hk
      rw [hk]
      exact branchCode_eq _ _ _ hval (fun _ => (hsym ha2).symm)
    · have ha2 : a = 2 := by
        by_cases h : a = 2
        · exact h
        · exact absurd (hcell.1.1 h) hal
      have hal' : inAlignment v.toNat (size v) i j = false := by simpa using hal
      subst ha2
      rw [hal', ← branch_qr v hv hv2 (size v) i j hn hi hj (fun h => hd8 ⟨hv, h.1, h.2⟩)]
      apply branchCode_eq _ _ _ hval
      intro hbr
      have : getBitBranch (size v) (size v) true false 2 i j ≠ .alignment := by
        unfold getBitBranch; simp only [bne_self_eq_false, Bool.and_false, Bool.false_eq_true, if_false]
        repeat' split
        all_goals simp
      exact absurd hbr this

end Proofs.Verbose
