/-
  Proofs.HelpersEpc — the text returned by the model of `_make_epc_qr_data` splits at LF into the ten
  or eleven lines of the EPC069-12 version 002 layout, in order.
-/
import Proofs.HelpersGeo

namespace Proofs.Helpers
open Spec.Helpers
open Model.Helpers (digitChar decDigits rstrip fmtAmount newlineJoin epcData truthy mapTruthy stripWs rstripWs roundHalfEven
  epcLines epcText epcReference epcBic epcName epcRefusedByLimits)

def NoLF (s : List Char) : Prop := ∀ c ∈ s, c ≠ '\n'

theorem splitPlain_newlineJoin (L : List Str) (hne : L ≠ []) (h : ∀ l ∈ L, NoLF l) :
    splitPlain '\n' (newlineJoin L) = L := by
  induction L with
  | nil => exact absurd rfl hne
  | cons x rest ih =>
    cases rest with
    | nil => simp [newlineJoin, splitPlain_none '\n' x (h x (by simp))]
    | cons y more =>
      have := ih (by simp) (fun l hl => h l (by simp [hl]))
      simp only [newlineJoin] at this ⊢
      rw [splitPlain_cons_delim' '\n' x _ (h x (by simp)), this]

/-- what `epcData` returns, when it returns -/
theorem epcData_some (a : EpcArgs) (canName : String → Bool) (k : Nat) (t : Str) (h : epcData a canName = some (k, t)) :
    t = newlineJoin (epcLines a k (roundHalfEven (100 * a.amount.num) a.amount.den)) ∧ epcRefusedByLimits a = false := by
  unfold epcData at h
  simp only at h
  split at h
  · cases h
  · split at h
    · cases h
    next hlim =>
      have hl : epcRefusedByLimits a = false := by simpa using hlim
      repeat' (split at h)
      all_goals first
        | (cases h; done)
        | (cases h; exact ⟨rfl, hl⟩)

theorem NoLF_of_sublist {s t : List Char} (h : s.Sublist t) (ht : NoLF t) : NoLF s := fun c hc => ht c (h.subset hc)

theorem rstripWs_sublist (s : Str) : (rstripWs s).Sublist s := by
  unfold rstripWs
  have := (List.dropWhile_sublist (l := s.reverse) Model.Helpers.pyIsSpace).reverse
  simpa using this

theorem stripWs_sublist (s : Str) : (stripWs s).Sublist s :=
  (rstripWs_sublist _).trans (List.dropWhile_sublist _)

theorem mapTruthy_noLF (f : Str → Str) (hf : ∀ s, (f s).Sublist s) (o : Option Str) (h : ∀ s, o = some s → NoLF s) :
    NoLF ((mapTruthy f o).getD []) := by
  cases o with
  | none => intro c hc; simp [mapTruthy] at hc
  | some s =>
    by_cases hs : s.isEmpty
    · simpa [mapTruthy, hs] using h s rfl
    · simpa [mapTruthy, hs] using NoLF_of_sublist (hf s) (h s rfl)

theorem fmtAmount_noLF (cents : Nat) : NoLF (fmtAmount cents) := by
  rw [fmtAmount_shape]
  intro c hc
  have hd := decDigits_isDigits (cents / 100)
  have dn : ∀ n, digitChar n ≠ '\n' := fun n e => by
    have := isDigit_digitChar n; rw [e] at this; simp [isDigit] at this
  simp only [List.mem_append, List.mem_cons, List.not_mem_nil, or_false] at hc
  rcases hc with (hc | hc) | hc
  · rcases hc with rfl | rfl | rfl <;> decide
  · intro e; have := hd c hc; rw [e] at this; simp [isDigit] at this
  · split at hc
    · simp only [List.mem_cons, List.not_mem_nil, or_false] at hc
      rcases hc with rfl | rfl | rfl
      · decide
      · exact dn _
      · exact dn _
    · split at hc
      · simp only [List.mem_cons, List.not_mem_nil, or_false] at hc
        rcases hc with rfl | rfl
        · decide
        · exact dn _
      · simp at hc

theorem decDigits_noLF (n : Nat) : NoLF (decDigits n) := by
  intro c hc e
  have := decDigits_isDigits n c hc
  rw [e] at this; simp [isDigit] at this

/-- **EPC layout** (model): the payload text splits at LF into exactly the lines of `epcLines` -/
theorem epc_split (a : EpcArgs) (canName : String → Bool) (k : Nat) (t : Str) (h : epcData a canName = some (k, t))
    (hname : ∀ s, a.name = some s → NoLF s) (hiban : ∀ s, a.iban = some s → NoLF s) (htext : ∀ s, a.text = some s → NoLF s)
    (href : ∀ s, a.reference = some s → NoLF s) (hbic : ∀ s, a.bic = some s → NoLF s) (hpur : ∀ s, a.purpose = some s → NoLF s) :
    splitPlain '\n' t = epcLines a k (roundHalfEven (100 * a.amount.num) a.amount.den) := by
  obtain ⟨ht, _⟩ := epcData_some a canName k t h
  rw [ht]
  apply splitPlain_newlineJoin
  · simp [epcLines]
  · have nb := mapTruthy_noLF stripWs stripWs_sublist a.bic hbic
    have nn := mapTruthy_noLF stripWs stripWs_sublist a.name hname
    have nr := mapTruthy_noLF rstripWs rstripWs_sublist a.reference href
    have nt := mapTruthy_noLF rstripWs rstripWs_sublist a.text htext
    have ni : NoLF (a.iban.getD []) := by
      cases hi : a.iban with
      | none => intro c hc; simp at hc
      | some s => simpa using hiban s hi
    have np : NoLF (a.purpose.getD []) := by
      cases hp : a.purpose with
      | none => intro c hc; simp at hc
      | some s => simpa using hpur s hp
    have nil : NoLF [] := fun c hc => by simp at hc
    intro l hl
    simp only [epcLines, List.mem_append, List.mem_cons, List.not_mem_nil, or_false] at hl
    rcases hl with (rfl | rfl | rfl | rfl | rfl | rfl | rfl | rfl | rfl | rfl) | hl
    · intro c hc; simp at hc; rcases hc with rfl | rfl | rfl <;> decide
    · intro c hc; simp at hc; rcases hc with rfl | rfl <;> decide
    · split
      · exact nil
      · exact decDigits_noLF k
    · intro c hc; simp at hc; rcases hc with rfl | rfl | rfl <;> decide
    · split
      · exact nb
      · exact nil
    · exact nn
    · exact ni
    · exact fmtAmount_noLF _
    · split
      · exact np
      · exact nil
    · split
      · exact nr
      · exact nil
    · split at hl
      · simp only [List.mem_singleton] at hl; subst hl; exact nt
      · simp at hl

/-- an accepted amount is a non-negative number within the range of the (generated) limits -/
theorem epc_amount_accepted (a : EpcArgs) (hmin1 : 1 ≤ Gen.EPC_MIN_AMOUNT_CENTS) (hl : epcRefusedByLimits a = false) :
    a.amount.den ≠ 0 ∧ a.amount.neg = false
    ∧ Gen.EPC_MIN_AMOUNT_CENTS * a.amount.den ≤ 100 * a.amount.num ∧ 100 * a.amount.num ≤ Gen.EPC_MAX_AMOUNT_CENTS * a.amount.den := by
  unfold epcRefusedByLimits at hl
  simp only [Bool.or_eq_false_iff, decide_eq_false_iff_not, Nat.not_lt] at hl
  obtain ⟨⟨⟨⟨_, hden⟩, hneg⟩, hmin⟩, hmax⟩ := hl
  have hd : a.amount.den ≠ 0 := by simpa using hden
  refine ⟨hd, ?_, hmin, by omega⟩
  cases hn : a.amount.neg with
  | false => rfl
  | true =>
    rw [hn] at hneg
    have h0 : a.amount.num = 0 := by simpa using hneg
    rw [h0] at hmin
    have : 1 * a.amount.den ≤ Gen.EPC_MIN_AMOUNT_CENTS * a.amount.den := Nat.mul_le_mul_right _ hmin1
    omega

end Proofs.Helpers
