/-
  Proofs.HelpersGeo — `make_geo_data`: the text `f'{x:.8f}'.rstrip('0').rstrip('.')` of the model is read
  back by the specification's decimal parser as the sign of `x` and the value `x` rounded to 8 decimals,
  in canonical form (no trailing zero); the two numbers are separated by the only comma of the payload.
-/
import Proofs.HelpersNum
import Proofs.Helpers

namespace Proofs.Helpers
open Spec.Helpers
open Model.Helpers (digitChar decDigits rstrip roundHalfEven padZeros fixed floatToStr geoData)

/-- all characters are ASCII digits -/
def IsDigits (s : List Char) : Prop := ∀ c ∈ s, isDigit c = true

theorem IsDigits.append {a b : List Char} (ha : IsDigits a) (hb : IsDigits b) : IsDigits (a ++ b) := by
  intro c hc
  rcases List.mem_append.mp hc with h | h
  · exact ha c h
  · exact hb c h

theorem isDigit_ne {c : Char} (h : isDigit c = true) : c ≠ '.' ∧ c ≠ '-' ∧ c ≠ ',' := by
  refine ⟨?_, ?_, ?_⟩ <;> (intro e; subst e; simp [isDigit] at h)

theorem digitVal_of_isDigit {c : Char} (h : isDigit c = true) : digitVal c = some (c.toNat - 48) := by
  simp [digitVal, h]

theorem isDigit_digitChar (n : Nat) : isDigit (digitChar n) = true :=
  (digit_facts (n % 10) (Nat.mod_lt _ (by omega))).2.2.2.2

theorem decDigits_isDigits (n : Nat) : IsDigits (decDigits n) := by
  induction n using Nat.strongRecOn with
  | _ n ih =>
    by_cases h : n < 10
    · rw [decDigits_lt n h]; intro c hc; simp at hc; subst hc; exact isDigit_digitChar n
    · rw [decDigits_ge n h]
      refine (ih (n / 10) (by omega)).append ?_
      intro c hc; simp at hc; subst hc; exact isDigit_digitChar _

theorem decDigits_length (k n : Nat) (hk : 1 ≤ k) (h : n < 10 ^ k) : (decDigits n).length ≤ k := by
  induction k generalizing n with
  | zero => omega
  | succ k ih =>
    by_cases h10 : n < 10
    · rw [decDigits_lt n h10]; simp
    · rw [decDigits_ge n h10]
      have hk1 : 1 ≤ k := by
        rcases Nat.eq_zero_or_pos k with h0 | h0
        · subst h0; simp at h; omega
        · exact h0
      have : n / 10 < 10 ^ k := by
        rw [Nat.pow_succ] at h
        exact Nat.div_lt_of_lt_mul (by omega)
      have := ih (n / 10) hk1 this
      simp; omega

/-- value of a digit string given least significant digit first -/
def valRev : List Char → Nat
  | [] => 0
  | c :: r => (c.toNat - 48) + 10 * valRev r

theorem valRev_append (a b : List Char) : valRev (a ++ b) = valRev a + 10 ^ a.length * valRev b := by
  induction a with
  | nil => simp [valRev]
  | cons c r ih =>
    simp only [List.cons_append, valRev, ih, List.length_cons, Nat.pow_succ]
    rw [Nat.mul_add, ← Nat.mul_assoc, Nat.mul_comm 10 (10 ^ r.length)]
    omega

theorem parseDigitsAux_valRev (ds : List Char) (h : IsDigits ds) (acc : Nat) :
    parseDigitsAux acc ds = some (acc * 10 ^ ds.length + valRev ds.reverse) := by
  induction ds generalizing acc with
  | nil => simp [parseDigitsAux, valRev]
  | cons c cs ih =>
    have hc := h c (by simp)
    simp only [parseDigitsAux, digitVal_of_isDigit hc, List.reverse_cons, valRev_append, List.length_reverse, valRev,
      List.length_cons, Nat.pow_succ]
    rw [ih (fun x hx => h x (by simp [hx]))]
    simp only [Option.some.injEq, Nat.mul_zero, Nat.add_zero]
    generalize 10 ^ cs.length = p
    generalize c.toNat - 48 = d
    generalize valRev cs.reverse = V
    have e1 : acc * 10 * p = acc * (p * 10) := by rw [Nat.mul_assoc, Nat.mul_comm 10 p]
    have e2 : d * p = p * d := Nat.mul_comm _ _
    rw [Nat.add_mul, e1, e2]
    omega

/-- dropping the least significant zeros divides the value by a power of ten -/
theorem valRev_dropZeros (r : List Char) :
    valRev r = valRev (r.dropWhile (· = '0')) * 10 ^ (r.length - (r.dropWhile (· = '0')).length) := by
  induction r with
  | nil => simp [valRev]
  | cons c r ih =>
    by_cases hc : c = '0'
    · subst hc
      have hle : (r.dropWhile (· = '0')).length ≤ r.length := (List.dropWhile_sublist _).length_le
      simp only [List.dropWhile_cons, decide_true, if_true, valRev, List.length_cons]
      have : r.length + 1 - (r.dropWhile (· = '0')).length = (r.length - (r.dropWhile (· = '0')).length) + 1 := by omega
      rw [this, Nat.pow_succ, ← Nat.mul_assoc, ← ih]
      simp; omega
    · simp [List.dropWhile_cons, hc]

theorem parseDigitsAux_zeros (n : Nat) (rest : List Char) :
    parseDigitsAux 0 (List.replicate n '0' ++ rest) = parseDigitsAux 0 rest := by
  induction n with
  | zero => simp
  | succ n ih =>
    have : digitVal '0' = some 0 := by decide
    simp only [List.replicate_succ, List.cons_append, parseDigitsAux, this, Nat.zero_mul, Nat.add_zero, ih]

theorem padZeros_facts (k f : Nat) (hk : 1 ≤ k) (hf : f < 10 ^ k) :
    IsDigits (padZeros k (decDigits f)) ∧ (padZeros k (decDigits f)).length = k
    ∧ valRev (padZeros k (decDigits f)).reverse = f := by
  have hlen := decDigits_length k f hk hf
  have hd : IsDigits (padZeros k (decDigits f)) := by
    unfold padZeros
    refine IsDigits.append ?_ (decDigits_isDigits f)
    intro c hc
    rw [List.mem_replicate] at hc
    rw [hc.2]; decide
  have hl : (padZeros k (decDigits f)).length = k := by simp [padZeros]; omega
  refine ⟨hd, hl, ?_⟩
  have h1 := parseDigitsAux_valRev _ hd 0
  have h2 : parseDigitsAux 0 (padZeros k (decDigits f)) = some f := by
    unfold padZeros
    rw [parseDigitsAux_zeros]
    have := (decDigits_props f).2.2 0
    simpa using this
  rw [h2] at h1
  simpa using h1.symm

/-- the decimal text with trailing zeros and a trailing point stripped is read back exactly -/
theorem parseFixed_strip (k : Nat) (hk : 1 ≤ k) (sgn : Bool) (q f : Nat) (hf : f < 10 ^ k) :
    parseFixed k (rstrip '.' (rstrip '0' ((if sgn then ['-'] else []) ++ decDigits q ++ '.' :: padZeros k (decDigits f))))
      = some (sgn, q * 10 ^ k + f, true) := by
  obtain ⟨hZd, hZl, hZv⟩ := padZeros_facts k f hk hf
  obtain ⟨hqne, hqall, _⟩ := decDigits_props q
  have hqdot : ∀ c ∈ decDigits q, c ≠ '.' := fun c hc => (hqall c hc).1
  generalize hZ : padZeros k (decDigits f) = Z at hZd hZl hZv
  generalize hS : (if sgn then ['-'] else []) = S
  -- the reversed fraction digits without the least significant zeros
  generalize hr' : Z.reverse.dropWhile (· = '0') = r'
  have hsub : r'.Sublist Z.reverse := hr' ▸ List.dropWhile_sublist _
  have hr'd : IsDigits r'.reverse := by
    intro c hc
    exact hZd c (List.mem_reverse.mp (hsub.subset (List.mem_reverse.mp hc)))
  have hr'len : r'.length ≤ k := by have := hsub.length_le; simp [hZl] at this; exact this
  have hval : f = valRev r' * 10 ^ (k - r'.length) := by
    have := valRev_dropZeros Z.reverse
    rw [hr', hZv, List.length_reverse, hZl] at this
    exact this
  -- body parsing, common to both signs
  have hbody : ∀ (neg : Bool), 
      (match parseDigits ((decDigits q ++ (if r' = [] then [] else '.' :: r'.reverse)).takeWhile (· ≠ '.')),
             (decDigits q ++ (if r' = [] then [] else '.' :: r'.reverse)).dropWhile (· ≠ '.') with
        | some q', [] => some (neg, q' * 10 ^ k, true)
        | some q', _ :: fr =>
          if fr.length > k then none else
          match parseDigits fr with
          | some f' => some (neg, q' * 10 ^ k + f' * 10 ^ (k - fr.length), fr.getLast? != some '0')
          | none => none
        | none, _ => none) = some (neg, q * 10 ^ k + f, true) := by
    intro neg
    by_cases he : r' = []
    · subst he
      simp only [if_true, List.append_nil, takeWhile_all '.' _ hqdot, dropWhile_all '.' _ hqdot, parseDigits_decDigits]
      simp [valRev] at hval
      simp [hval]
    · simp only [if_neg he, takeWhile_until '.' _ _ hqdot, dropWhile_until '.' _ _ hqdot, parseDigits_decDigits]
      have hlen : ¬ (r'.length > k) := by omega
      have hne : r'.reverse.isEmpty = false := by cases r' <;> simp_all
      have hp : parseDigits r'.reverse = some (valRev r') := by
        have := parseDigitsAux_valRev _ hr'd 0
        simp [parseDigits, hne, this]
      have hlast : (r'.reverse.getLast? != some '0') = true := by
        rw [List.getLast?_reverse]
        have := List.head?_dropWhile_not (· = '0') Z.reverse
        rw [hr'] at this
        cases hh : r'.head? with
        | none => simp
        | some y =>
          rw [hh] at this
          simp only [decide_eq_false_iff_not] at this
          simp [this]
      simp only [hlen, if_false, hp, hlast, List.length_reverse]
      rw [← hval]
  -- the stripped text
  have hstrip : rstrip '.' (rstrip '0' (S ++ decDigits q ++ '.' :: Z))
      = S ++ (decDigits q ++ (if r' = [] then [] else '.' :: r'.reverse)) := by
    have e0 : S ++ decDigits q ++ '.' :: Z = (S ++ decDigits q ++ ['.']) ++ Z := by simp
    have h0 : rstrip '0' (S ++ decDigits q ++ '.' :: Z)
        = if r' = [] then S ++ decDigits q ++ ['.'] else (S ++ decDigits q ++ ['.']) ++ r'.reverse := by
      rw [e0]
      unfold rstrip
      rw [List.reverse_append, List.dropWhile_append, hr']
      by_cases he : r' = []
      · subst he
        simp [List.dropWhile_cons]
      · have : r'.isEmpty = false := by cases r' <;> simp_all
        simp [this, he]
    rw [h0]
    by_cases he : r' = []
    · simp only [if_pos he]
      rw [rstrip_snoc_eq, rstrip_of_tail_ne '.' S (decDigits q) hqne hqdot]
      simp
    · simp only [if_neg he]
      have hne : r'.reverse ≠ [] := by simpa using he
      rw [rstrip_of_tail_ne '.' _ _ hne (fun c hc => (isDigit_ne (hr'd c hc)).1)]
      simp
  rw [hstrip]
  unfold parseFixed
  cases sgn
  · simp only [Bool.false_eq_true, if_false] at hS
    subst hS
    have hh : ((decDigits q ++ (if r' = [] then [] else '.' :: r'.reverse)).head? == some '-') = false := by
      apply beq_eq_false_iff_ne.mpr
      cases hd : decDigits q with
      | nil => exact absurd hd hqne
      | cons y ys =>
        have : y ≠ '-' := (hqall y (by rw [hd]; simp)).2
        simpa using this
    simp only [List.nil_append, hh, Bool.false_eq_true, if_false]
    exact hbody false
  · simp only [if_true] at hS
    subst hS
    simp only [List.cons_append, List.nil_append, List.head?_cons, beq_self_eq_true, if_true, List.tail_cons]
    exact hbody true

theorem floatToStr_parse (x : Rat') :
    parseFixed 8 (floatToStr x) = some (x.neg, roundHalfEven (x.num * 10 ^ 8) x.den, true) := by
  unfold floatToStr fixed
  have h := parseFixed_strip 8 (by omega) x.neg (roundHalfEven (x.num * 10 ^ 8) x.den / 10 ^ 8)
    (roundHalfEven (x.num * 10 ^ 8) x.den % 10 ^ 8) (Nat.mod_lt _ (by decide))
  rw [Nat.div_add_mod'] at h
  exact h

/-! ### the payload -/

theorem splitPlain_none (d : Char) (B : List Char) (hB : ∀ c ∈ B, c ≠ d) : splitPlain d B = [B] := by
  induction B with
  | nil => rfl
  | cons c rest ih =>
    have hc : c ≠ d := hB c (by simp)
    simp [splitPlain, hc, ih (fun x hx => hB x (by simp [hx])), consHead]

theorem splitPlain_two (d : Char) (A B : List Char) (hA : ∀ c ∈ A, c ≠ d) (hB : ∀ c ∈ B, c ≠ d) :
    splitPlain d (A ++ d :: B) = [A, B] := by
  induction A with
  | nil => simp [splitPlain, splitPlain_none d B hB]
  | cons c rest ih =>
    have hc : c ≠ d := hA c (by simp)
    simp [splitPlain, hc, ih (fun x hx => hA x (by simp [hx])), consHead]

theorem splitPlain_cons_delim' (d : Char) (A rest : List Char) (hA : ∀ c ∈ A, c ≠ d) :
    splitPlain d (A ++ d :: rest) = A :: splitPlain d rest := by
  induction A with
  | nil => simp [splitPlain]
  | cons c t ih =>
    have hc : c ≠ d := hA c (by simp)
    simp [splitPlain, hc, ih (fun x hx => hA x (by simp [hx])), consHead]

theorem mem_rstrip {c x : Char} {s : List Char} (h : x ∈ rstrip c s) : x ∈ s := by
  unfold rstrip at h
  exact List.mem_reverse.mp ((List.dropWhile_sublist _).subset (List.mem_reverse.mp h))

theorem floatToStr_no_comma (x : Rat') : ∀ c ∈ floatToStr x, c ≠ ',' := by
  intro c hc
  have hc := mem_rstrip (mem_rstrip hc)
  unfold fixed at hc
  obtain ⟨hZd, _, _⟩ := padZeros_facts 8 (roundHalfEven (x.num * 10 ^ 8) x.den % 10 ^ 8) (by omega) (Nat.mod_lt _ (by decide))
  simp only [List.mem_append, List.mem_cons] at hc
  rcases hc with (hc | hc) | hc | hc
  · split at hc
    · simp at hc; subst hc; decide
    · simp at hc
  · exact (isDigit_ne (decDigits_isDigits _ c hc)).2.2
  · subst hc; decide
  · exact (isDigit_ne (hZd c hc)).2.2

/-- **geo round trip**: the payload of the model is `geo:` lat `,` lng where both numbers are written
    with at most 8 decimals, without trailing zeros, and equal the given numbers rounded to 8 decimals -/
theorem geoOk_model (lat lng : Rat') (h1 : lat.den ≠ 0) (h2 : lng.den ≠ 0) : geoOk (geoData lat lng) lat lng = true := by
  unfold geoOk geoData
  have e : ['g', 'e', 'o', ':'] ++ floatToStr lat ++ [','] ++ floatToStr lng
      = geoPrefix ++ (floatToStr lat ++ ',' :: floatToStr lng) := by simp [geoPrefix]
  rw [e, stripPrefix_append]
  simp only
  rw [splitPlain_two ',' _ _ (floatToStr_no_comma lat) (floatToStr_no_comma lng)]
  simp only [geoNumberOk, floatToStr_parse, Bool.true_and, Bool.and_eq_true]
  exact ⟨isRounding_roundHalfEven 8 lat h1, isRounding_roundHalfEven 8 lng h2⟩

end Proofs.Helpers
