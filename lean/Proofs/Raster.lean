/-
  Proofs.Raster — helper lemmas for C09 / C11: scaling by `flatMap (replicate s)`, the generator
  body of `matrix_iter`, packing / unpacking of scanlines.
-/
import Spec.Raster
import Model.Iter

namespace Proofs.Raster

open Model Spec

theorem getElem?_flatMap_replicate {α : Type} (l : List α) (s : Nat) (hs : 0 < s) (k : Nat) :
    (l.flatMap (List.replicate s))[k]? = l[k / s]? := by
  induction l generalizing k with
  | nil => simp
  | cons a l ih =>
    rw [List.flatMap_cons, List.getElem?_append]
    by_cases hk : k < s
    · simp [hk, Nat.div_eq_of_lt hk]
    · have hk' : s ≤ k := Nat.le_of_not_lt hk
      simp only [List.length_replicate, hk, if_false]
      rw [ih (k - s)]
      have : k / s = (k - s) / s + 1 := by
        rw [Nat.div_eq k s]; simp [hs, hk']
      rw [this]; simp

/-- every element `s` times = index `k` shows element `k div s` -/
theorem flatMap_replicate_range {α : Type} (n s : Nat) (hs : 0 < s) (f : Nat → α) :
    ((List.range n).map f).flatMap (List.replicate s) = (List.range (n * s)).map (fun k => f (k / s)) := by
  apply List.ext_getElem?
  intro k
  rw [getElem?_flatMap_replicate _ _ hs]
  by_cases hk : k < n * s
  · have : k / s < n := (Nat.div_lt_iff_lt_mul hs).2 hk
    simp [hk, this]
  · have : ¬ k / s < n := fun h => hk ((Nat.div_lt_iff_lt_mul hs).1 h)
    simp [hk, this]

/-- the generator body: pixel (x, y) shows the cell (y div s, x div s) of the bordered symbol -/
theorem iterWith_eq (cell : Nat → Nat → Nat) (w h s b : Nat) (hs : 0 < s) :
    iterWith cell w h s b =
      (List.range ((h + 2 * b) * s)).map (fun y => (List.range ((w + 2 * b) * s)).map (fun x => cell (y / s) (x / s))) := by
  unfold iterWith scaleRow
  rw [flatMap_replicate_range _ _ hs]
  apply List.map_congr_left
  intro y _
  rw [flatMap_replicate_range _ _ hs]

theorem getD_map_range {α : Type} (f : Nat → α) (n k : Nat) (d : α) (h : k < n) :
    ((List.range n).map f).getD k d = f k := by
  simp [List.getD_eq_getElem?_getD, h]

/-- a well-formed matrix: `h` rows of `w` values -/
def WellFormed (M : List (List Nat)) (w h : Nat) : Prop := M.length = h ∧ ∀ r ∈ M, r.length = w

theorem getD_of_length_le {α : Type} (l : List α) (i : Nat) (d : α) (h : l.length ≤ i) : l.getD i d = d := by
  simp [List.getD_eq_getElem?_getD, List.getElem?_eq_none h]

theorem getD_replicate_zero (w k : Nat) : (List.replicate w 0).getD k 0 = 0 := by
  simp only [List.getD_eq_getElem?_getD, List.getElem?_replicate]
  split <;> rfl

theorem borderedCell_eq (M : List (List Nat)) (w h s b : Nat) (hM : WellFormed M w h) (x y : Nat) :
    borderedCell M w h b (y / s) (x / s) = pixelOf (cellL M) s b x y := by
  unfold borderedCell pixelOf cellL
  obtain ⟨hlen, hrows⟩ := hM
  by_cases h1 : b ≤ y / s <;> by_cases h2 : b ≤ x / s <;> simp only [h1, h2, true_and, false_and, and_false, and_true, if_true, if_false]
  · by_cases h3 : y / s < b + h
    · simp only [h3, if_true]
      by_cases h4 : x / s < b + w
      · simp only [h4, if_true]
      · simp only [h4, if_false]
        have hi : y / s - b < M.length := by omega
        have hl : (M.getD (y / s - b) []).length = w := by
          have : M.getD (y / s - b) [] = M[y / s - b] := by simp [List.getD_eq_getElem?_getD, hi]
          rw [this]; exact hrows _ (List.getElem_mem hi)
        rw [getD_of_length_le _ _ _ (by omega)]
    · simp only [h3, if_false]
      rw [getD_of_length_le M _ _ (by omega)]
      by_cases h4 : x / s < b + w <;> simp only [h4, if_true, if_false, getD_replicate_zero]
      all_goals simp
  · by_cases h4 : x / s < b + w <;> simp only [h4, if_true, if_false, getD_replicate_zero]

theorem iter_eq_grid (M : List (List Nat)) (w h s b : Nat) (hs : 0 < s) (hM : WellFormed M w h) :
    iterWith (borderedCell M w h b) w h s b = grid M w h s b := by
  rw [iterWith_eq _ _ _ _ _ hs]
  unfold grid
  apply List.map_congr_left
  intro y _
  apply List.map_congr_left
  intro x _
  exact borderedCell_eq M w h s b hM x y

end Proofs.Raster

namespace Proofs.Raster

open Model Spec

/-! ### packing and unpacking scanlines -/

theorem groupAt_length (k : Nat) (row : List Nat) (g : Nat) : (groupAt k row g).length = k := by
  unfold groupAt
  simp only [List.length_append, List.length_replicate, List.length_take, List.length_drop]
  omega

theorem groupAt_getD (k : Nat) (row : List Nat) (g p : Nat) (hp : p < k) :
    (groupAt k row g).getD p 0 = row.getD (g * k + p) 0 := by
  unfold groupAt
  simp only [List.getD_eq_getElem?_getD, List.getElem?_append, List.length_take, List.length_drop]
  by_cases h : p < min k (row.length - g * k)
  · simp only [h, if_true, List.getElem?_take, List.getElem?_drop]
    have : p < k := hp
    simp [this]
  · simp only [h, if_false, List.getElem?_replicate]
    have : row.length ≤ g * k + p := by omega
    rw [List.getElem?_eq_none this]
    split <;> rfl

theorem groupAt_bound (bound k : Nat) (hb : 0 < bound) (row : List Nat) (g : Nat) (h : ∀ v ∈ row, v < bound) :
    ∀ v ∈ groupAt k row g, v < bound := by
  intro v hv
  unfold groupAt at hv
  simp only [List.mem_append, List.mem_replicate] at hv
  rcases hv with hv | ⟨_, rfl⟩
  · exact h v (List.mem_of_mem_drop (List.mem_of_mem_take hv))
  · exact hb

/-- groups of `k` values encoded by `enc` and decoded position-wise by `dec` give back the row,
    for any row length (the zero-filled last group included) -/
theorem unpack_pack_generic (k : Nat) (hk0 : 0 < k) (enc : List Nat → Nat) (dec : Nat → Nat → Nat) (bound : Nat)
    (hb : 0 < bound)
    (hf : ∀ c : List Nat, c.length = k → (∀ v ∈ c, v < bound) → ∀ x, dec (enc c) x = c.getD (x % k) 0)
    (row : List Nat) (hrow : ∀ v ∈ row, v < bound) :
    (List.range row.length).map (fun x => dec (((groupsOf k row).map enc).getD (x / k) 0) x) = row := by
  apply List.ext_getElem?
  intro x
  by_cases hx : x < row.length
  · have hq : x / k < (row.length + k - 1) / k := by
      rw [Nat.div_lt_iff_lt_mul hk0]
      have h1 := Nat.div_add_mod (row.length + k - 1) k
      have h2 := Nat.mod_lt (row.length + k - 1) hk0
      rw [Nat.mul_comm] at h1
      omega
    have hm : x % k < k := Nat.mod_lt _ hk0
    simp only [List.getElem?_map, List.getElem?_range hx, Option.map_some, List.getElem?_eq_getElem hx]
    congr 1
    have hg : ((groupsOf k row).map enc).getD (x / k) 0 = enc (groupAt k row (x / k)) := by
      unfold groupsOf
      simp [List.getD_eq_getElem?_getD, hq]
    rw [hg, hf _ (groupAt_length k row _) (groupAt_bound bound k hb row _ hrow) x, groupAt_getD _ _ _ _ hm]
    have : x / k * k + x % k = x := by rw [Nat.mul_comm]; exact Nat.div_add_mod x k
    rw [this]
    simp [List.getD_eq_getElem?_getD, hx]
  · simp [hx]

theorem field_depth1 (c : List Nat) (hc : c.length = 8) (hv : ∀ v ∈ c, v < 2) (x : Nat) :
    sampleOfByte 1 (foldBits 1 c) x = c.getD (x % 8) 0 := by
  match c, hc with
  | [a0, a1, a2, a3, a4, a5, a6, a7], _ =>
    have h0 := hv a0 (by simp); have h1 := hv a1 (by simp); have h2 := hv a2 (by simp); have h3 := hv a3 (by simp)
    have h4 := hv a4 (by simp); have h5 := hv a5 (by simp); have h6 := hv a6 (by simp); have h7 := hv a7 (by simp)
    have hp : x % 8 = 0 ∨ x % 8 = 1 ∨ x % 8 = 2 ∨ x % 8 = 3 ∨ x % 8 = 4 ∨ x % 8 = 5 ∨ x % 8 = 6 ∨ x % 8 = 7 := by omega
    unfold sampleOfByte
    rcases hp with h | h | h | h | h | h | h | h <;>
      simp [h, foldBits, Nat.shiftLeft_eq, Nat.shiftRight_eq_div_pow] <;> omega

theorem field_depth2 (c : List Nat) (hc : c.length = 4) (hv : ∀ v ∈ c, v < 4) (x : Nat) :
    sampleOfByte 2 (foldBits 2 c) x = c.getD (x % 4) 0 := by
  match c, hc with
  | [a0, a1, a2, a3], _ =>
    have h0 := hv a0 (by simp); have h1 := hv a1 (by simp); have h2 := hv a2 (by simp); have h3 := hv a3 (by simp)
    have hp : x % 4 = 0 ∨ x % 4 = 1 ∨ x % 4 = 2 ∨ x % 4 = 3 := by omega
    unfold sampleOfByte
    rcases hp with h | h | h | h <;>
      simp [h, foldBits, Nat.shiftLeft_eq, Nat.shiftRight_eq_div_pow] <;> omega

theorem field_depth4 (c : List Nat) (hc : c.length = 2) (hv : ∀ v ∈ c, v < 16) (x : Nat) :
    sampleOfByte 4 (foldBits 4 c) x = c.getD (x % 2) 0 := by
  match c, hc with
  | [a0, a1], _ =>
    have h0 := hv a0 (by simp); have h1 := hv a1 (by simp)
    have hp : x % 2 = 0 ∨ x % 2 = 1 := by omega
    unfold sampleOfByte
    rcases hp with h | h <;>
      simp [h, foldBits, Nat.shiftLeft_eq, Nat.shiftRight_eq_div_pow] <;> omega

theorem field_xbm (c : List Nat) (hc : c.length = 8) (hv : ∀ v ∈ c, v < 2) (x : Nat) :
    xbmBit (foldBits 1 c.reverse) x = c.getD (x % 8) 0 := by
  match c, hc with
  | [a0, a1, a2, a3, a4, a5, a6, a7], _ =>
    have h0 := hv a0 (by simp); have h1 := hv a1 (by simp); have h2 := hv a2 (by simp); have h3 := hv a3 (by simp)
    have h4 := hv a4 (by simp); have h5 := hv a5 (by simp); have h6 := hv a6 (by simp); have h7 := hv a7 (by simp)
    have hp : x % 8 = 0 ∨ x % 8 = 1 ∨ x % 8 = 2 ∨ x % 8 = 3 ∨ x % 8 = 4 ∨ x % 8 = 5 ∨ x % 8 = 6 ∨ x % 8 = 7 := by omega
    unfold xbmBit
    rcases hp with h | h | h | h | h | h | h | h <;>
      simp [h, foldBits, Nat.shiftLeft_eq, Nat.shiftRight_eq_div_pow] <;> omega

end Proofs.Raster
