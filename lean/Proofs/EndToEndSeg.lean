/-
  Proofs.EndToEndSeg — helper lemmas for Props/EndToEnd.lean, part 1: merging of segments
  (`Segments.add_segment`) and `prepare_data` as a list of (bytes, make_segment result) pairs.
-/
import Spec.Decode
import Spec.Sizing
import Model.Encoder
import Proofs.Modes
import Proofs.Roundtrip

namespace Proofs.EndToEnd
set_option linter.unusedVariables false
open Model Proofs.Modes

/-! ### bits of concatenated content -/

theorem numBits_append : ∀ (n : Nat) (d1 d2 : List Nat), d1.length = 3 * n →
    numBits (d1 ++ d2) = numBits d1 ++ numBits d2
  | 0, d1, d2, h => by
    have : d1 = [] := List.eq_nil_of_length_eq_zero (by omega)
    subst this; simp [Proofs.Roundtrip.numBits_nil]
  | n + 1, a :: b :: c :: rest, d2, h => by
    have hr : rest.length = 3 * n := by simp only [List.length_cons] at h; omega
    simp only [List.cons_append, Proofs.Roundtrip.numBits_cons3, numBits_append n rest d2 hr, List.append_assoc]
  | n + 1, [], _, h => by simp at h
  | n + 1, [_], _, h => by simp at h; omega
  | n + 1, [_, _], _, h => by simp at h; omega

theorem alnumBits_append : ∀ (n : Nat) (d1 d2 : List Nat), d1.length = 2 * n →
    alnumBits (d1 ++ d2) = alnumBits d1 ++ alnumBits d2
  | 0, d1, d2, h => by
    have : d1 = [] := List.eq_nil_of_length_eq_zero (by omega)
    subst this; simp [Proofs.Roundtrip.alnumBits_nil]
  | n + 1, a :: b :: rest, d2, h => by
    have hr : rest.length = 2 * n := by simp only [List.length_cons] at h; omega
    simp only [List.cons_append, Proofs.Roundtrip.alnumBits_cons2, alnumBits_append n rest d2 hr, List.append_assoc]
  | n + 1, [], _, h => by simp at h
  | n + 1, [_], _, h => by simp at h; omega

theorem byteBits_append (d1 d2 : List Nat) : byteBits (d1 ++ d2) = byteBits d1 ++ byteBits d2 := by
  simp [byteBits]

theorem pairs_append : ∀ (n : Nat) (d1 d2 : List Nat), d1.length = 2 * n →
    pairs (d1 ++ d2) = pairs d1 ++ pairs d2
  | 0, d1, d2, h => by
    have : d1 = [] := List.eq_nil_of_length_eq_zero (by omega)
    subst this; simp [pairs]
  | n + 1, a :: b :: rest, d2, h => by
    have hr : rest.length = 2 * n := by simp only [List.length_cons] at h; omega
    simp only [List.cons_append, pairs, pairs_append n rest d2 hr]
  | n + 1, [], _, h => by simp at h
  | n + 1, [_], _, h => by simp at h; omega

theorem allPairs_even (p : Nat → Nat → Bool) (d : List Nat) (h : Spec.allPairs p d = true) : d.length % 2 = 0 := by
  rw [allPairs_eq] at h
  simp only [Bool.and_eq_true, beq_iff_eq] at h
  exact h.1

theorem allPairs_append (p : Nat → Nat → Bool) (d1 d2 : List Nat) (h1 : Spec.allPairs p d1 = true)
    (h2 : Spec.allPairs p d2 = true) : Spec.allPairs p (d1 ++ d2) = true := by
  have e1 := allPairs_even p d1 h1
  have e2 := allPairs_even p d2 h2
  rw [allPairs_eq] at h1 h2 ⊢
  simp only [Bool.and_eq_true, beq_iff_eq] at h1 h2 ⊢
  refine ⟨by rw [List.length_append]; omega, ?_⟩
  rw [pairs_append (d1.length / 2) d1 d2 (by omega), List.all_append, h1.2, h2.2]; rfl

theorem kanjiBits_append (d1 d2 : List Nat) (h : d1.length % 2 = 0) :
    kanjiBits (d1 ++ d2) = kanjiBits d1 ++ kanjiBits d2 := by
  unfold kanjiBits
  rw [pairs_append (d1.length / 2) d1 d2 (by omega)]; simp

theorem hanziBits_append (d1 d2 : List Nat) (h : d1.length % 2 = 0) :
    hanziBits (d1 ++ d2) = hanziBits d1 ++ hanziBits d2 := by
  unfold hanziBits
  rw [pairs_append (d1.length / 2) d1 d2 (by omega)]; simp

/-! ### inversion of `make_segment` including the encoding field -/

theorem segBody_enc (data : List Nat) (enc : String) (sm : Nat) (s : Segment)
    (h : segBody data enc sm = .ok s) : s.encoding = if sm = 4 then some enc else none := by
  have key : (if (sm != 4) = true then none else some enc) = if sm = 4 then some enc else none := by
    by_cases h4 : sm = 4 <;> simp [h4]
  unfold segBody at h
  dsimp only at h
  split at h
  · cases h
  split at h
  · cases h; exact key
  split at h
  · cases h; exact key
  split at h
  · cases h; exact key
  split at h
  · cases hg : (pairs data).mapM hanziGroup with
    | error e => rw [hg] at h; cases h
    | ok g => rw [hg] at h; cases h; exact key
  · cases hg : (pairs data).mapM kanjiGroup with
    | error e => rw [hg] at h; cases h
    | ok g => rw [hg] at h; cases h; exact key

theorem makeSegment_enc (data : List Nat) (mode : Option Nat) (enc : String) (s : Segment)
    (h : makeSegment data mode enc = .ok s) : s.encoding = if s.mode = 4 then some enc else none := by
  obtain ⟨sm, _, hb⟩ := makeSegment_ok_body data mode enc s h
  rw [(segBody_ok data enc sm s hb).1]
  exact segBody_enc data enc sm s hb

/-- the automatically detected mode is not above the segment's mode unless the segment is a byte segment -/
theorem makeSegment_auto_le (data : List Nat) (mode : Option Nat) (enc : String) (s : Segment)
    (h : makeSegment data mode enc = .ok s) : Spec.autoMode data ≤ s.mode ∨ s.mode = 4 := by
  obtain ⟨sm, hsm, hb⟩ := makeSegment_ok_body data mode enc s h
  rw [(segBody_ok data enc sm s hb).1]
  cases mode with
  | none => rw [segModeOf_none] at hsm; cases hsm; exact Or.inl (Nat.le_refl _)
  | some m =>
    by_cases h4 : m = 4
    · subst h4; rw [segModeOf_4] at hsm; cases hsm; exact Or.inr rfl
    · rw [segModeOf_some data m h4] at hsm
      split at hsm
      · cases hsm
      · cases hsm; exact Or.inl (by omega)

theorem rep1_of_mode (data : List Nat) (mode : Option Nat) (enc : String) (s : Segment)
    (h : makeSegment data mode enc = .ok s) (h1 : s.mode = 1) : Spec.representable 1 data = true := by
  rcases makeSegment_auto_le data mode enc s h with hle | h4
  · rcases autoMode_cases data with ⟨_, hr⟩ | ⟨ha, _⟩ | ⟨ha, _⟩ | ⟨ha, _⟩
    · exact hr
    all_goals omega
  · omega

theorem rep2_of_mode (data : List Nat) (mode : Option Nat) (enc : String) (s : Segment)
    (h : makeSegment data mode enc = .ok s) (h1 : s.mode = 2) : Spec.representable 2 data = true := by
  rcases makeSegment_auto_le data mode enc s h with hle | h4
  · rcases autoMode_cases data with ⟨_, hr⟩ | ⟨ha, _, hr⟩ | ⟨ha, _⟩ | ⟨ha, _⟩
    · exact representable_1_2 data hr
    · exact hr
    all_goals omega
  · omega

theorem rep_append (p : Nat → Bool) (d1 d2 : List Nat) (h1 : (!d1.isEmpty && d1.all p) = true)
    (h2 : d2.all p = true) : (!(d1 ++ d2).isEmpty && (d1 ++ d2).all p) = true := by
  simp only [Bool.and_eq_true, Bool.not_eq_true', List.isEmpty_eq_false_iff] at h1 ⊢
  refine ⟨by simp [h1.1], ?_⟩
  rw [List.all_append, h1.2, h2]; rfl

/-- **merging is sound** -/
theorem merged (d1 d2 : List Nat) (m : Option Nat) (e1 e2 : String) (s1 s2 : Segment)
    (hm : m ∈ [none, some 1, some 2, some 4, some 8, some 13])
    (h1 : makeSegment d1 m e1 = .ok s1) (h2 : makeSegment d2 m e2 = .ok s2)
    (hmode : s1.mode = s2.mode) (henc : s1.encoding = s2.encoding)
    (hgroup : s1.charCount % (if s2.mode == 1 then 3 else if s2.mode == 2 then 2 else 1) = 0) :
    makeSegment (d1 ++ d2) (some s1.mode) e2
      = .ok { bits := s1.bits ++ s2.bits, charCount := s1.charCount + s2.charCount, mode := s2.mode, encoding := s2.encoding } := by
  have hE2 := makeSegment_enc d2 m e2 s2 h2
  have sh1 := makeSegment_ok_cases d1 m e1 s1 hm h1
  have sh2 := makeSegment_ok_cases d2 m e2 s2 hm h2
  unfold SegShape at sh1 sh2
  rcases sh2 with ⟨k2, c2, b2, v2⟩ | ⟨k2, c2, b2, v2⟩ | ⟨k2, c2, b2⟩ | ⟨k2, c2, b2, v2⟩ | ⟨k2, c2, b2, v2⟩
  · -- numeric
    rcases sh1 with ⟨k1, c1, b1, v1⟩ | ⟨k1, _⟩ | ⟨k1, _⟩ | ⟨k1, _⟩ | ⟨k1, _⟩
    all_goals first | omega | skip
    have r1 := rep1_of_mode d1 m e1 s1 h1 k1
    have r12 : Spec.representable 1 (d1 ++ d2) = true := by
      rw [representable_1] at r1 ⊢; exact rep_append _ d1 d2 r1 v2
    have ha : Spec.autoMode (d1 ++ d2) = 1 := by
      rcases autoMode_cases (d1 ++ d2) with ⟨ha, _⟩ | ⟨_, hr, _⟩ | ⟨_, hr, _⟩ | ⟨_, hr, _⟩
      · exact ha
      all_goals (rw [r12] at hr; cases hr)
    rw [k1, makeSegment_some _ 1 e2 (by decide), ha, if_neg (by decide), segBody_1]
    rw [k2] at hgroup hE2
    simp only [beq_self_eq_true, if_true] at hgroup
    rw [numBits_append (d1.length / 3) d1 d2 (by omega), b1, b2, c1, c2, k2, hE2, List.length_append]
    rfl
  · -- alphanumeric
    rcases sh1 with ⟨k1, _⟩ | ⟨k1, c1, b1, v1⟩ | ⟨k1, _⟩ | ⟨k1, _⟩ | ⟨k1, _⟩
    all_goals first | omega | skip
    have r1 := rep2_of_mode d1 m e1 s1 h1 k1
    have r12 : Spec.representable 2 (d1 ++ d2) = true := by
      rw [representable_2] at r1 ⊢; exact rep_append _ d1 d2 r1 v2
    have ha : ¬ 2 < Spec.autoMode (d1 ++ d2) := by
      rcases autoMode_cases (d1 ++ d2) with ⟨ha, _⟩ | ⟨ha, _⟩ | ⟨_, _, hr, _⟩ | ⟨_, _, hr, _⟩
      · omega
      · omega
      all_goals (rw [r12] at hr; cases hr)
    rw [k1, makeSegment_some _ 2 e2 (by decide), if_neg ha, segBody_2]
    rw [k2] at hgroup hE2
    simp only [show ((2 : Nat) == 1) = false from rfl, beq_self_eq_true, if_true] at hgroup
    rw [alnumBits_append (d1.length / 2) d1 d2 (by simp at hgroup; omega), b1, b2, c1, c2, k2, hE2, List.length_append]
    rfl
  · -- byte
    rcases sh1 with ⟨k1, _⟩ | ⟨k1, _⟩ | ⟨k1, c1, b1⟩ | ⟨k1, _⟩ | ⟨k1, _⟩
    all_goals first | omega | skip
    rw [k2] at hE2
    rw [k1, makeSegment_4, segBody_4, byteBits_append, b1, b2, c1, c2, k2, hE2, List.length_append]
    rfl
  · -- kanji
    rcases sh1 with ⟨k1, _⟩ | ⟨k1, _⟩ | ⟨k1, _⟩ | ⟨k1, c1, b1, v1⟩ | ⟨k1, _⟩
    all_goals first | omega | skip
    have ev := allPairs_even _ d1 v1
    rw [k2] at hE2
    rw [k1, makeSegment_some _ 8 e2 (by decide), if_neg (by have := autoMode_le_8 (d1 ++ d2); omega), segBody_8,
      if_pos (allPairs_append _ d1 d2 v1 v2), kanjiBits_append d1 d2 ev, b1, b2, c1, c2, k2, hE2, List.length_append]
    have : (d1.length + d2.length) / 2 = d1.length / 2 + d2.length / 2 := by omega
    rw [this]; rfl
  · -- hanzi
    rcases sh1 with ⟨k1, _⟩ | ⟨k1, _⟩ | ⟨k1, _⟩ | ⟨k1, _⟩ | ⟨k1, c1, b1, v1⟩
    all_goals first | omega | skip
    have ev := allPairs_even _ d1 v1
    rw [k2] at hE2
    rw [k1, makeSegment_some _ 13 e2 (by decide), if_neg (by have := autoMode_le_8 (d1 ++ d2); omega), segBody_13,
      if_pos (allPairs_append _ d1 d2 v1 v2), hanziBits_append d1 d2 ev, b1, b2, c1, c2, k2, hE2, List.length_append]
    have : (d1.length + d2.length) / 2 = d1.length / 2 + d2.length / 2 := by omega
    rw [this]; rfl


/-! ### `prepare_data` as a list of (bytes, segment) pairs -/

theorem mode_mem_of_shape (data : List Nat) (s : Segment) (h : SegShape data s) : s.mode ∈ [1, 2, 4, 8, 13] := by
  unfold SegShape at h
  rcases h with ⟨k, _⟩ | ⟨k, _⟩ | ⟨k, _⟩ | ⟨k, _⟩ | ⟨k, _⟩ <;> rw [k] <;> simp

theorem some_mode_mem (k : Nat) (h : k ∈ [1, 2, 4, 8, 13]) :
    some k ∈ [none, some 1, some 2, some 4, some 8, some 13] := by
  simp only [List.mem_cons, List.not_mem_nil, or_false] at h
  rcases h with rfl | rfl | rfl | rfl | rfl <;> simp

/-- a segment is also what `make_segment` returns when its own mode is requested explicitly -/
theorem makeSegment_renorm (data : List Nat) (mode : Option Nat) (enc : String) (s : Segment)
    (h : makeSegment data mode enc = .ok s) : makeSegment data (some s.mode) enc = .ok s := by
  have hle := makeSegment_auto_le data mode enc s h
  obtain ⟨sm, hsm, hb⟩ := makeSegment_ok_body data mode enc s h
  have hmode := (segBody_ok data enc sm s hb).1
  rw [hmode] at hle ⊢
  by_cases h4 : sm = 4
  · subst h4; rw [makeSegment_4]; exact hb
  · rw [makeSegment_some data sm enc h4, if_neg (by omega)]; exact hb

def PairOk (x : List Nat × Segment) : Prop :=
  (∀ b ∈ x.1, b < 256) ∧ x.1 ≠ [] ∧ x.2.mode ∈ [1, 2, 4, 8, 13] ∧ ∃ enc, makeSegment x.1 (some x.2.mode) enc = .ok x.2

theorem addSegment_pairs (ps : List (List Nat × Segment)) (d : List Nat) (s : Segment)
    (hps : ∀ x ∈ ps, PairOk x) (hs : PairOk (d, s)) :
    ∃ ps' : List (List Nat × Segment), addSegment (ps.map (·.2)) s = ps'.map (·.2)
      ∧ (ps'.map (·.1)).flatten = (ps.map (·.1)).flatten ++ d ∧ ∀ x ∈ ps', PairOk x := by
  rcases List.eq_nil_or_concat ps with rfl | ⟨init, ⟨dp, prev⟩, hcat⟩
  · exact ⟨[(d, s)], by simp [addSegment], by simp, by simpa using hs⟩
  · rw [List.concat_eq_append] at hcat
    subst hcat
    have hlast : ((init ++ [(dp, prev)]).map (·.2)).getLast? = some prev := by simp
    have hdrop : ((init ++ [(dp, prev)]).map (·.2)).dropLast = init.map (·.2) := by
      rw [List.map_append, List.map_singleton, List.dropLast_concat]
    unfold addSegment
    rw [hlast]
    dsimp only
    rw [hdrop]
    by_cases hc : (prev.mode == s.mode && prev.encoding == s.encoding &&
        prev.charCount % (if s.mode == Gen.MODE_NUMERIC then 3 else if s.mode == Gen.MODE_ALPHANUMERIC then 2 else 1) == 0) = true
    · rw [if_pos hc]
      simp only [Bool.and_eq_true] at hc
      obtain ⟨⟨hmode, henc⟩, hgrp⟩ := hc
      have hmode := eq_of_beq hmode
      have henc : prev.encoding = s.encoding := eq_of_beq henc
      have hgrp := eq_of_beq hgrp
      obtain ⟨hb1, hn1, hm1, e1, hk1⟩ := hps (dp, prev) (by simp)
      obtain ⟨hb2, hn2, hm2, e2, hk2⟩ := hs
      dsimp only at hb1 hn1 hm1 hk1 hb2 hn2 hm2 hk2
      rw [← hmode] at hk2
      have hmg := merged dp d (some prev.mode) e1 e2 prev s (some_mode_mem _ hm1) hk1 hk2 hmode henc
        hgrp
      refine ⟨init ++ [(dp ++ d, (⟨prev.bits ++ s.bits, prev.charCount + s.charCount, s.mode, s.encoding⟩ : Segment))],
        by simp, by simp, ?_⟩
      intro x hx
      rcases List.mem_append.1 hx with hx | hx
      · exact hps x (List.mem_append_left _ hx)
      · simp only [List.mem_singleton] at hx; subst hx
        refine ⟨?_, by simp [hn1], hm2, e2, ?_⟩
        · intro b hb
          rcases List.mem_append.1 hb with hb | hb
          · exact hb1 b hb
          · exact hb2 b hb
        · show makeSegment (dp ++ d) (some s.mode) e2 = _
          rw [← hmode]; rw [← hmode] at hmg; exact hmg
    · rw [if_neg hc]
      refine ⟨init ++ [(dp, prev)] ++ [(d, s)], by simp, by simp, ?_⟩
      intro x hx
      rcases List.mem_append.1 hx with hx | hx
      · exact hps x hx
      · simp only [List.mem_singleton] at hx; subst hx; exact hs

theorem prepareData_pairs_aux (parts : List Part)
    (hp : ∀ p ∈ parts, (∀ b ∈ p.data, b < 256) ∧ p.data ≠ [] ∧ p.mode ∈ [none, some 1, some 2, some 4, some 8, some 13]) :
    ∀ (ps : List (List Nat × Segment)) (segs : List Segment), (∀ x ∈ ps, PairOk x) →
      parts.foldlM (fun segs p => do
        let s ← makeSegment p.data p.mode p.encoding
        pure (addSegment segs s)) (ps.map (·.2)) = Except.ok segs →
      ∃ ps' : List (List Nat × Segment), segs = ps'.map (·.2)
        ∧ (ps'.map (·.1)).flatten = (ps.map (·.1)).flatten ++ (parts.map (·.data)).flatten ∧ ∀ x ∈ ps', PairOk x := by
  induction parts with
  | nil =>
    intro ps segs hps h
    simp only [List.foldlM_nil, pure, Except.pure, Except.ok.injEq] at h
    exact ⟨ps, h.symm, by simp, hps⟩
  | cons p t ih =>
    intro ps segs hps h
    rw [List.foldlM_cons] at h
    cases hs : makeSegment p.data p.mode p.encoding with
    | error e => simp [hs, bind, Except.bind] at h
    | ok s =>
      simp only [hs, bind, Except.bind, pure, Except.pure] at h
      obtain ⟨hb, hne, hm⟩ := hp p (List.mem_cons_self ..)
      have hok : PairOk (p.data, s) :=
        ⟨hb, hne, mode_mem_of_shape _ _ (makeSegment_ok_cases _ _ _ _ hm hs), p.encoding, makeSegment_renorm _ _ _ _ hs⟩
      obtain ⟨ps1, e1, f1, ok1⟩ := addSegment_pairs ps p.data s hps hok
      rw [e1] at h
      obtain ⟨ps', e', f', ok'⟩ := ih (fun q hq => hp q (List.mem_cons_of_mem _ hq)) ps1 segs ok1 h
      exact ⟨ps', e', by rw [f', f1]; simp, ok'⟩

/-- **step 2**: the segments `prepare_data` returns are `make_segment` results for consecutive slices of
    the content -/
theorem prepareData_pairs (parts : List Part) (segs : List Segment)
    (hp : ∀ p ∈ parts, (∀ b ∈ p.data, b < 256) ∧ p.data ≠ [] ∧ p.mode ∈ [none, some 1, some 2, some 4, some 8, some 13])
    (h : prepareData parts = .ok segs) :
    ∃ ps : List (List Nat × Segment), segs = ps.map (·.2)
      ∧ (ps.map (·.1)).flatten = (parts.map (·.data)).flatten ∧ ∀ x ∈ ps, PairOk x := by
  obtain ⟨ps, a, b, c⟩ := prepareData_pairs_aux parts hp [] segs (by simp) h
  exact ⟨ps, a, by simpa using b, c⟩

end Proofs.EndToEnd
