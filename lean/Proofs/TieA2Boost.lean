/-
  Proofs.TieA2Boost — `boost_error_level` (translated, Gen/Funcs2.lean) against `Model.boostErrorLevel`.
-/
import Proofs.TieA2Capacity
import Proofs.TieAOverhead

set_option linter.unusedSimpArgs false
set_option linter.unusedTactic false

namespace Proofs.TieA2
open Gen.Py Proofs.TieA Model

/-- the three reads of the segment list the translated code makes -/
def nEci (segs : List Segment) : Int :=
  Int.ofNat (segs.filter (fun s => s.mode == Gen.MODE_BYTE && s.encoding != some Gen.DEFAULT_BYTE_ENCODING)).length
def modesOf (segs : List Segment) : List Int := segs.map (fun s => (s.mode : Int))
def bitLen (segs : List Segment) : Int := Int.ofNat (sumNat (segs.map (fun s => s.bits.length)))

theorem blwo' (segs : List Segment) (v : Int) (hv : v ≤ 40) (eci isSa : Bool) :
    Gen.Funcs.bit_length_with_overhead v eci isSa (nEci segs) (modesOf segs) (bitLen segs)
      = ofOption .keyError ((Model.bitLengthWithOverhead segs v eci isSa).map Int.ofNat) := blwo segs v hv eci isSa

/-- the capacity look-up followed by anything -/
theorem cap_bind {β : Type} (v : Int) (l : Nat) (k : Int → M β) :
    Gen.Py.bind (lookup Gen.Funcs2.T_consts_SYMBOL_CAPACITY v) (fun d => Gen.Py.bind (lookup d (some (l : Int))) k)
      = Gen.Py.bind (ofOption .keyError ((Model.capacity v (some l)).map Int.ofNat)) k := by
  rw [← capacity_lookup v (some l)]
  unfold capLookup
  rw [bind_assoc]
  rfl

theorem cap_bind0 {β : Type} (v : Int) (k : Int → M β) :
    Gen.Py.bind (lookup Gen.Funcs2.T_consts_SYMBOL_CAPACITY v) (fun d => Gen.Py.bind (lookup d (some (0 : Int))) k)
      = Gen.Py.bind (ofOption .keyError ((Model.capacity v (some 0)).map Int.ofNat)) k := cap_bind v 0 k
theorem cap_bind1 {β : Type} (v : Int) (k : Int → M β) :
    Gen.Py.bind (lookup Gen.Funcs2.T_consts_SYMBOL_CAPACITY v) (fun d => Gen.Py.bind (lookup d (some (1 : Int))) k)
      = Gen.Py.bind (ofOption .keyError ((Model.capacity v (some 1)).map Int.ofNat)) k := cap_bind v 1 k
theorem cap_bind2 {β : Type} (v : Int) (k : Int → M β) :
    Gen.Py.bind (lookup Gen.Funcs2.T_consts_SYMBOL_CAPACITY v) (fun d => Gen.Py.bind (lookup d (some (2 : Int))) k)
      = Gen.Py.bind (ofOption .keyError ((Model.capacity v (some 2)).map Int.ofNat)) k := cap_bind v 2 k
theorem cap_bind3 {β : Type} (v : Int) (k : Int → M β) :
    Gen.Py.bind (lookup Gen.Funcs2.T_consts_SYMBOL_CAPACITY v) (fun d => Gen.Py.bind (lookup d (some (3 : Int))) k)
      = Gen.Py.bind (ofOption .keyError ((Model.capacity v (some 3)).map Int.ofNat)) k := cap_bind v 3 k

/-- `levels.index(error)` for an error level that is none of L, M, Q, H -/
theorem indexOf_unknown (levels : List Int) (n : Nat) (h : ∀ y ∈ levels, y ≠ (n : Int)) :
    indexOf levels (fun y => (some (n : Int)) == some y) = .error .valueError := by
  unfold indexOf
  have : levels.findIdx? (fun y => (some (n : Int)) == some y) = none := by
    rw [List.findIdx?_eq_none_iff]
    intro y hy
    have := h y hy
    simp
    omega
  rw [this]

theorem pop4 : popAt [(1 : Int), 0, 3, 2] (-1) = .ok (2, [1, 0, 3]) := by decide
theorem pop3 : popAt [(1 : Int), 0, 3] (-1) = .ok (3, [1, 0]) := by decide

macro "boost_finish" : tactic => `(tactic| (
  simp [throw, throwThe, MonadExceptOf.throw, exc, pure, Except.pure, Except.map, Functor.map, Bind.bind, Except.bind] <;>
  try (split_ifs <;> simp_all [exc])))

theorem boost_tie (segs : List Segment) (v : Int) (hv : v ≤ 40) (e : Option Nat) (eci isSa : Bool) :
    toR (Gen.Funcs2.boost_error_level v (e.map Int.ofNat) (Int.ofNat segs.length) (nEci segs) (modesOf segs) (bitLen segs) eci isSa)
      = (Model.boostErrorLevel v e segs eci isSa).map (Option.map Int.ofNat) := by
  unfold Gen.Funcs2.boost_error_level Model.boostErrorLevel
  cases e with
  | none => rfl
  | some n =>
    simp only [blwo' segs v hv, pop4, pop3, bind_ok]
    by_cases hlen : segs.length = 1
    · by_cases hn2 : n = 2
      · subst hn2; simp [hlen, Gen.ERROR_LEVEL_H]; rfl
      · have h1 : ((some (Int.ofNat n) == some (2 : Int)) = false) := by simp; omega
        simp only [Option.map_some, h1, hlen]
        cases hd : Model.bitLengthWithOverhead segs v eci isSa with
        | none => 
          simp [Gen.ERROR_LEVEL_H, hn2, popAt, normIndex]
          rfl
        | some dl => 
          by_cases hk : n = 1 ∨ n = 0 ∨ n = 3
          · rcases hk with h | h | h <;> subst h <;> by_cases hv1 : v < 1 <;> by_cases hv0 : v < 0 <;>
              simp [hv1, hv0, Gen.ERROR_LEVEL_H, Gen.ERROR_LEVEL_L, Gen.ERROR_LEVEL_M, Gen.ERROR_LEVEL_Q, Gen.VERSION_M4, indexOf, slice, sliceLo, sliceHi, clip,
                    List.findIdx?_cons, List.idxOf_cons, List.idxOf_nil, List.drop_succ_cons,
                    cap_bind0, cap_bind1, cap_bind2, cap_bind3, boostErrorLevel.go] <;>
              cases capacity v (some 0) <;> cases capacity v (some 3) <;> cases capacity v (some 2) <;> boost_finish
          · have hn0 : ¬ n = 0 := by omega
            have hn1 : ¬ n = 1 := by omega
            have hn3 : ¬ n = 3 := by omega
            have i0 : ¬ ((0 : Int) = (n : Int)) := by omega
            have i1 : ¬ ((1 : Int) = (n : Int)) := by omega
            have i2 : ¬ ((2 : Int) = (n : Int)) := by omega
            have i3 : ¬ ((3 : Int) = (n : Int)) := by omega
            have j0 : ¬ ((n : Int) = 0) := by omega
            have j1 : ¬ ((n : Int) = 1) := by omega
            have j2 : ¬ ((n : Int) = 2) := by omega
            have j3 : ¬ ((n : Int) = 3) := by omega
            by_cases hv1 : v < 1 <;> by_cases hv0 : v < 0 <;>
              simp [hv1, hv0, Gen.ERROR_LEVEL_H, Gen.ERROR_LEVEL_L, Gen.ERROR_LEVEL_M, Gen.ERROR_LEVEL_Q, Gen.VERSION_M4, indexOf,
                List.findIdx?_cons, hn0, hn1, hn2, hn3, i0, i1, i2, i3, j0, j1, j2, j3, Ne.symm hn0, Ne.symm hn1, Ne.symm hn2, Ne.symm hn3] <;>
              boost_finish
    · have hl : ¬ ((segs.length : Int) = 1) := by omega
      simp [hl, hlen]
      rfl

end Proofs.TieA2
