/-
  Proofs.TieA2 — helpers for Props/TieA2.lean (second round of Tie A): general facts about the loop combinators
  of the translation (`Py.forM`, `Py.foldlM`, `Py.forP`), about `Py.range`, `Py.index` on literal lists, and the
  bridge between `List Nat` (model) and `List Int` (translated code).
-/
import Gen.Funcs2
import Proofs.TieA
import Mathlib.Tactic.SplitIfs

namespace Proofs.TieA2
open Gen.Py Proofs.TieA

/-- `List Nat` of the model as the `List Int` of translated code -/
def toI (l : List Nat) : List Int := l.map Int.ofNat

@[simp] theorem toI_nil : toI [] = [] := rfl
@[simp] theorem toI_cons (a : Nat) (l : List Nat) : toI (a :: l) = (a : Int) :: toI l := rfl
@[simp] theorem toI_append (a b : List Nat) : toI (a ++ b) = toI a ++ toI b := by simp [toI]
@[simp] theorem toI_length (a : List Nat) : (toI a).length = a.length := by simp [toI]
theorem toI_replicate (n a : Nat) : toI (List.replicate n a) = List.replicate n (a : Int) := by simp [toI]

/-! ### loops -/

@[simp] theorem forM_cons {α σ ρ : Type} (x : α) (xs : List α) (init : σ) (body : σ → α → M (Step σ ρ)) :
    forM (x :: xs) init body =
      match body init x with
      | .error e => .error e
      | .ok (.next s) => forM xs s body
      | .ok (.brk s) => .ok (.fin s)
      | .ok (.ret r) => .ok (.ret r) := rfl

@[simp] theorem foldlM_cons {α σ : Type} (x : α) (xs : List α) (init : σ) (body : σ → α → M σ) :
    foldlM (x :: xs) init body =
      match body init x with
      | .error e => .error e
      | .ok s => foldlM xs s body := rfl

/-- a body that never raises (on the elements of the list): the monadic fold is the pure fold -/
theorem foldlM_eq_foldl {α σ : Type} (xs : List α) (init : σ) (body : σ → α → M σ) (f : σ → α → σ)
    (h : ∀ s, ∀ x ∈ xs, body s x = .ok (f s x)) : foldlM xs init body = .ok (xs.foldl f init) := by
  induction xs generalizing init with
  | nil => rfl
  | cons x xs ih =>
    rw [foldlM_cons, h init x (by simp)]
    exact ih _ (fun s y hy => h s y (by simp [hy]))

/-- a body that never raises, never breaks and never returns: `forM` is the pure fold -/
theorem forM_eq_foldl {α σ ρ : Type} (xs : List α) (init : σ) (body : σ → α → M (Step σ ρ)) (f : σ → α → σ)
    (h : ∀ s, ∀ x ∈ xs, body s x = .ok (.next (f s x))) : forM xs init body = .ok (.fin (xs.foldl f init)) := by
  induction xs generalizing init with
  | nil => rfl
  | cons x xs ih =>
    rw [forM_cons, h init x (by simp)]
    exact ih _ (fun s y hy => h s y (by simp [hy]))

/-! ### ranges -/

theorem range_eq (lo hi : Int) : range lo hi = (List.range (hi - lo).toNat).map (fun (k : Nat) => lo + Int.ofNat k) := rfl

theorem range_zero_nat (n : Nat) : range 0 (n : Int) = (List.range n).map Int.ofNat := by
  simp [range]

theorem mem_range {lo hi x : Int} (h : x ∈ range lo hi) : lo ≤ x ∧ x < hi := by
  simp only [range, List.mem_map, List.mem_range, Int.ofNat_eq_natCast] at h
  obtain ⟨k, hk, rfl⟩ := h
  constructor <;> omega

theorem range_empty {lo hi : Int} (h : hi ≤ lo) : range lo hi = [] := by
  have : (hi - lo).toNat = 0 := by omega
  simp [range, this]

theorem range_succ {lo hi : Int} (h : lo < hi) : range lo hi = lo :: range (lo + 1) hi := by
  have e : (hi - lo).toNat = (hi - (lo + 1)).toNat + 1 := by omega
  simp only [range, e, List.range_succ_eq_map, List.map_cons, List.map_map, Int.ofNat_eq_natCast]
  congr 1
  · simp
  · apply List.map_congr_left
    intro k _
    simp only [Function.comp]
    push_cast
    omega

/-! ### subscripts of literal lists -/

theorem index_two {α : Type} (a b : α) (i : Int) (h : 0 ≤ i) : index [a, b] (i % 2) = .ok (if i % 2 = 0 then a else b) := by
  have h2 : i % 2 = 0 ∨ i % 2 = 1 := by omega
  rcases h2 with h0 | h1
  · rw [h0]; rfl
  · rw [h1]; rfl

/-! ### bit arithmetic on non-negative numbers -/

theorem band_one (x : Nat) : band (x : Int) 1 = ((x % 2 : Nat) : Int) := by
  show Int.ofNat (x &&& 1) = _
  rw [Nat.and_one_is_mod]
  rfl

/-- `x >> i` for non-negative x and i -/
theorem shr_nat (x i : Nat) : shr (x : Int) (i : Int) = .ok ((x >>> i : Nat) : Int) := by
  unfold shr
  rw [if_neg (by omega)]
  congr 1
  simp only [Int.toNat_natCast, Nat.shiftRight_eq_div_pow]
  have h2 : (0 : Int) ≤ 2 ^ i := Int.pow_nonneg (by omega)
  rw [Int.fdiv_eq_ediv_of_nonneg _ h2]
  have : ((2 : Int) ^ i) = ((2 ^ i : Nat) : Int) := by push_cast; rfl
  rw [this, ← Int.natCast_ediv]

end Proofs.TieA2
