/-
  Proofs.Sizing — helper lemmas for C04 / C05 (sizing logic of the encoder model vs. Spec.Sizing).
-/
import Spec.Sizing
import Model.Encoder
import Props.C03Tables

set_option linter.unusedSimpArgs false
set_option linter.unusedVariables false

namespace Proofs.Sizing
open Model

/-! ### tables -/

theorem cci_table_eq : Gen.CHAR_COUNT_INDICATOR_LENGTH = Spec.cciTable := by decide +kernel

theorem capacity_antitone :
    Spec.capacityTable.all (fun a => Spec.capacityTable.all (fun b =>
      a.1 != b.1 || a.2.1 == -1 || b.2.1 == -1 || Spec.levelRank a.2.1 > Spec.levelRank b.2.1 || a.2.2 ≥ b.2.2)) = true := by
  decide +kernel

theorem micro_levels :
    Spec.capacityTable.all (fun a => a.1 > 0 || (a.2.1 != 2 && (a.2.1 != 3 || a.1 == 0))) = true := by
  decide +kernel

/-! ### `make_segment` -/

theorem length_appendBits (v w : Nat) : (appendBits v w).length = w := by simp [appendBits]

theorem payload1_step (n : Nat) (h : 0 < n) :
    Spec.payloadBits 1 n = (min 3 n) * 3 + 1 + Spec.payloadBits 1 (n - 3) := by
  simp only [Spec.payloadBits, beq_iff_eq]
  by_cases h3 : 3 ≤ n
  · have e1 : n / 3 = (n - 3) / 3 + 1 := by omega
    have e2 : n % 3 = (n - 3) % 3 := by omega
    rw [e1, e2]; have : min 3 n = 3 := by omega
    rw [this]; omega
  · have : n = 1 ∨ n = 2 := by omega
    rcases this with rfl | rfl <;> simp

theorem numeric_bits_length (fuel : Nat) : ∀ l : List Nat, l.length ≤ fuel →
    (((chunks 3 fuel l).map (fun c => appendBits (digitsVal c) (c.length * 3 + 1))).flatten).length
      = Spec.payloadBits 1 l.length := by
  induction fuel with
  | zero =>
    intro l h
    have : l = [] := by cases l <;> simp_all
    subst this; simp [chunks, Spec.payloadBits]
  | succ f ih =>
    intro l h
    cases l with
    | nil => simp [chunks, Spec.payloadBits]
    | cons a t =>
      rw [chunks]
      · simp only [List.map_cons, List.flatten_cons, List.length_append, length_appendBits]
        rw [ih _ (by simp only [List.length_drop, List.length_cons] at *; omega)]
        rw [payload1_step (a :: t).length (by simp)]
        simp only [List.length_take, List.length_drop]
      · simp

theorem alnum_bits_length (fuel : Nat) : ∀ l : List Nat, l.length ≤ fuel →
    (((chunks 2 fuel l).map (fun c =>
      match c with
      | [a, b] => appendBits (alnumIndex a * 45 + alnumIndex b) 11
      | [a] => appendBits (alnumIndex a) 6
      | _ => [])).flatten).length
      = Spec.payloadBits 2 l.length := by
  induction fuel with
  | zero =>
    intro l h
    have : l = [] := by cases l <;> simp_all
    subst this; simp [chunks, Spec.payloadBits]
  | succ f ih =>
    intro l h
    match l, h with
    | [], _ => simp [chunks, Spec.payloadBits]
    | [a], _ => 
      simp [chunks, Spec.payloadBits, length_appendBits]
      cases f <;> simp [chunks]
    | a :: b :: t, h =>
      rw [chunks]
      · simp only [List.map_cons, List.flatten_cons, List.length_append]
        have hd : List.drop 2 (a :: b :: t) = t := rfl
        have ht : List.take 2 (a :: b :: t) = [a, b] := by simp
        rw [hd, ht, ih t (by simp only [List.length_cons] at h; omega)]
        simp only [length_appendBits, List.length_cons, Spec.payloadBits]
        omega
      · simp

theorem pairs_length (l : List Nat) : (pairs l).length = l.length / 2 := by
  fun_induction pairs l with
  | case1 a b rest ih => simp only [List.length_cons, ih]; omega
  | case2 l h =>
    match l, h with
    | [], _ => simp
    | [a], _ => simp
    | a :: b :: t, h => exact absurd rfl (h a b t)

theorem mapM_flatten_length {α : Type} (f : α → R (List Nat)) (k : Nat)
    (hf : ∀ x y, f x = .ok y → y.length = k) :
    ∀ (l : List α) (r : List (List Nat)), l.mapM f = .ok r → r.flatten.length = k * l.length := by
  intro l
  induction l with
  | nil => intro r h; simp [pure, Except.pure] at h; subst h; simp
  | cons a t ih =>
    intro r h
    rw [List.mapM_cons] at h
    cases hfa : f a with
    | error e => simp [hfa, bind, Except.bind] at h
    | ok y =>
      cases ht : t.mapM f with
      | error e => simp [hfa, ht, bind, Except.bind] at h
      | ok r' =>
        simp [hfa, ht, bind, Except.bind, pure, Except.pure] at h
        subst h
        simp only [List.flatten_cons, List.length_append, hf a y hfa, ih r' ht, List.length_cons]
        rw [Nat.mul_add]; omega

theorem findMode_mem (data : List Nat) : findMode data ∈ [1, 2, 8, 4] := by
  unfold findMode
  split
  · simp [Gen.MODE_NUMERIC]
  · split
    · simp [Gen.MODE_ALPHANUMERIC]
    · split <;> simp [Gen.MODE_KANJI, Gen.MODE_BYTE]


def hanziGroup : Nat × Nat → R (List Nat) := fun (hi, lo) => do
      let code := hi * 256 + lo
      if !(0xa1 ≤ lo && lo ≤ 0xfe) then throw PyErr.valueError
      let diff ← if 0xa1a1 ≤ code && code ≤ 0xaafe then pure (code - 0xa1a1)
                 else if 0xb0a1 ≤ code && code ≤ 0xfafe then pure (code - 0xa6a1)
                 else throw PyErr.valueError
      pure (appendBits ((diff >>> 8) * 0x60 + (diff &&& 0xff)) 13)

def kanjiGroup : Nat × Nat → R (List Nat) := fun (hi, lo) => do
      let code := hi * 256 + lo
      if !isSjisTrail lo then throw PyErr.valueError
      let diff ← if 0x8140 ≤ code && code ≤ 0x9ffc then pure (code - 0x8140)
                 else if 0xe040 ≤ code && code ≤ 0xebbf then pure (code - 0xc140)
                 else throw PyErr.valueError
      pure (appendBits ((diff >>> 8) * 0xc0 + (diff &&& 0xff)) 13)

def segModeOf (data : List Nat) (mode : Option Nat) : R Nat :=
  let guessed := if mode != some Gen.MODE_BYTE then findMode data else Gen.MODE_BYTE
  match mode with
    | some m => if m < guessed then throw PyErr.valueError else pure m
    | none => pure guessed

def segBody (data : List Nat) (encoding : String) (segMode : Nat) : R Segment := do
  let len := data.length
  let segEnc := if segMode != Gen.MODE_BYTE then none else some encoding
  let isDouble := segMode == Gen.MODE_KANJI || segMode == Gen.MODE_HANZI
  let charCount := if isDouble then len / 2 else len
  if isDouble && len % 2 != 0 then throw PyErr.valueError
  if segMode == Gen.MODE_NUMERIC then
    let bits := ((chunks 3 len data).map (fun c => appendBits (digitsVal c) (c.length * 3 + 1))).flatten
    return { bits := bits, charCount := charCount, mode := segMode, encoding := segEnc }
  else if segMode == Gen.MODE_ALPHANUMERIC then
    let bits := ((chunks 2 len data).map (fun c =>
      match c with
      | [a, b] => appendBits (alnumIndex a * 45 + alnumIndex b) 11
      | [a] => appendBits (alnumIndex a) 6
      | _ => [])).flatten
    return { bits := bits, charCount := charCount, mode := segMode, encoding := segEnc }
  else if segMode == Gen.MODE_BYTE then
    return { bits := (data.map (fun b => appendBits b 8)).flatten, charCount := charCount, mode := segMode, encoding := segEnc }
  else if segMode == Gen.MODE_HANZI then
    let groups ← (pairs data).mapM hanziGroup
    return { bits := groups.flatten, charCount := charCount, mode := segMode, encoding := segEnc }
  else
    let groups ← (pairs data).mapM kanjiGroup
    return { bits := groups.flatten, charCount := charCount, mode := segMode, encoding := segEnc }

theorem makeSegment_eq (data : List Nat) (mode : Option Nat) (enc : String) :
    makeSegment data mode enc = segModeOf data mode >>= segBody data enc := by
  cases mode with
  | none => rfl
  | some m =>
    by_cases hlt : m < (if some m != some Gen.MODE_BYTE then findMode data else Gen.MODE_BYTE)
    · show (if m < (if some m != some Gen.MODE_BYTE then findMode data else Gen.MODE_BYTE) then _ else _) = 
        (if m < (if some m != some Gen.MODE_BYTE then findMode data else Gen.MODE_BYTE) then _ else _) >>= _
      rw [if_pos hlt, if_pos hlt]; rfl
    · show (if m < (if some m != some Gen.MODE_BYTE then findMode data else Gen.MODE_BYTE) then _ else _) = 
        (if m < (if some m != some Gen.MODE_BYTE then findMode data else Gen.MODE_BYTE) then _ else _) >>= _
      rw [if_neg hlt, if_neg hlt]; rfl

theorem hanziGroup_len (x : Nat × Nat) (y : List Nat) (h : hanziGroup x = .ok y) : y.length = 13 := by
  obtain ⟨hi, lo⟩ := x
  simp only [hanziGroup, bind, Except.bind, throw, throwThe, MonadExceptOf.throw, pure, Except.pure] at h
  repeat' split at h
  all_goals first | (cases h; simp [length_appendBits]) | simp at h | skip
  all_goals simp_all

theorem segModeOf_mem (data : List Nat) (mode : Option Nat) (m : Nat)
    (hm : mode ∈ [none, some 1, some 2, some 4, some 8, some 13])
    (h : segModeOf data mode = .ok m) : m ∈ [1, 2, 4, 8, 13] := by
  unfold segModeOf at h
  cases mode with
  | none =>
    simp [pure, Except.pure] at h
    have := findMode_mem data
    subst h; simp at this ⊢; omega
  | some k =>
    dsimp only at h
    have hk : m = k := by
      generalize (if some k != some Gen.MODE_BYTE then findMode data else Gen.MODE_BYTE) = g at h
      split at h
      · simp [throw, throwThe, MonadExceptOf.throw] at h
      · simp [pure, Except.pure] at h; exact h.symm
    subst hk; simpa using hm

theorem kanjiGroup_len (x : Nat × Nat) (y : List Nat) (h : kanjiGroup x = .ok y) : y.length = 13 := by
  obtain ⟨hi, lo⟩ := x
  simp only [kanjiGroup, bind, Except.bind, throw, throwThe, MonadExceptOf.throw, pure, Except.pure] at h
  repeat' split at h
  all_goals first | (cases h; simp [length_appendBits]) | simp at h | skip
  all_goals simp_all

theorem byte_bits_length (data : List Nat) :
    ((data.map (fun b => appendBits b 8)).flatten).length = 8 * data.length := by
  induction data with
  | nil => simp
  | cons a t ih => simp only [List.map_cons, List.flatten_cons, List.length_append, length_appendBits, ih, List.length_cons]; omega

theorem segBody_wf (data : List Nat) (enc : String) (m : Nat) (s : Segment)
    (hm : m ∈ [1, 2, 4, 8, 13]) (h : segBody data enc m = .ok s) :
    s.mode ∈ [1, 2, 4, 8, 13] ∧ s.bits.length = Spec.payloadBits s.mode s.charCount := by
  simp only [List.mem_cons, List.not_mem_nil, or_false] at hm
  rcases hm with rfl | rfl | rfl | rfl | rfl
  · simp [segBody, Gen.MODE_NUMERIC, Gen.MODE_KANJI, Gen.MODE_HANZI, Gen.MODE_BYTE, pure, Except.pure] at h
    subst h
    simp [numeric_bits_length data.length data (Nat.le_refl _)]
  · simp [segBody, Gen.MODE_NUMERIC, Gen.MODE_ALPHANUMERIC, Gen.MODE_KANJI, Gen.MODE_HANZI, Gen.MODE_BYTE, pure, Except.pure] at h
    subst h
    simp [alnum_bits_length data.length data (Nat.le_refl _)]
  · simp [segBody, Gen.MODE_NUMERIC, Gen.MODE_ALPHANUMERIC, Gen.MODE_KANJI, Gen.MODE_HANZI, Gen.MODE_BYTE, pure, Except.pure] at h
    subst h
    exact ⟨by simp, by simpa [Spec.payloadBits] using byte_bits_length data⟩
  · cases hg : (pairs data).mapM kanjiGroup with
    | error e =>
      simp [segBody, Gen.MODE_NUMERIC, Gen.MODE_ALPHANUMERIC, Gen.MODE_KANJI, Gen.MODE_HANZI, Gen.MODE_BYTE, pure, Except.pure,
        bind, Except.bind, hg, throw, throwThe, MonadExceptOf.throw] at h
      split at h <;> simp at h
    | ok g =>
      simp [segBody, Gen.MODE_NUMERIC, Gen.MODE_ALPHANUMERIC, Gen.MODE_KANJI, Gen.MODE_HANZI, Gen.MODE_BYTE, pure, Except.pure,
        bind, Except.bind, hg, throw, throwThe, MonadExceptOf.throw] at h
      split at h
      · simp at h
      · simp at h; subst h
        have := mapM_flatten_length kanjiGroup 13 kanjiGroup_len _ _ hg
        rw [pairs_length] at this
        exact ⟨by simp, by simpa [Spec.payloadBits] using this⟩
  · cases hg : (pairs data).mapM hanziGroup with
    | error e =>
      simp [segBody, Gen.MODE_NUMERIC, Gen.MODE_ALPHANUMERIC, Gen.MODE_KANJI, Gen.MODE_HANZI, Gen.MODE_BYTE, pure, Except.pure,
        bind, Except.bind, hg, throw, throwThe, MonadExceptOf.throw] at h
      split at h <;> simp at h
    | ok g =>
      simp [segBody, Gen.MODE_NUMERIC, Gen.MODE_ALPHANUMERIC, Gen.MODE_KANJI, Gen.MODE_HANZI, Gen.MODE_BYTE, pure, Except.pure,
        bind, Except.bind, hg, throw, throwThe, MonadExceptOf.throw] at h
      split at h
      · simp at h
      · simp at h; subst h
        have := mapM_flatten_length hanziGroup 13 hanziGroup_len _ _ hg
        rw [pairs_length] at this
        exact ⟨by simp, by simpa [Spec.payloadBits] using this⟩

theorem makeSegment_wf (data : List Nat) (mode : Option Nat) (enc : String) (s : Segment)
    (hm : mode ∈ [none, some 1, some 2, some 4, some 8, some 13])
    (h : makeSegment data mode enc = .ok s) :
    s.mode ∈ [1, 2, 4, 8, 13] ∧ s.bits.length = Spec.payloadBits s.mode s.charCount := by
  rw [makeSegment_eq] at h
  cases hs : segModeOf data mode with
  | error e => simp [hs, bind, Except.bind] at h
  | ok m =>
    simp only [hs, bind, Except.bind] at h
    exact segBody_wf data enc m s (segModeOf_mem data mode m hm hs) h

/-! ### merging, `prepare_data` -/

def WFs (s : Segment) : Prop :=
  s.mode ∈ [1, 2, 4, 8, 13] ∧ s.bits.length = Spec.payloadBits s.mode s.charCount

theorem payload_add (m a b : Nat) (hm : m ∈ [1, 2, 4, 8, 13])
    (h : a % (if m == Gen.MODE_NUMERIC then 3 else if m == Gen.MODE_ALPHANUMERIC then 2 else 1) = 0) :
    Spec.payloadBits m (a + b) = Spec.payloadBits m a + Spec.payloadBits m b := by
  simp only [List.mem_cons, List.not_mem_nil, or_false] at hm
  rcases hm with rfl | rfl | rfl | rfl | rfl
  · simp [Gen.MODE_NUMERIC] at h
    simp only [Spec.payloadBits, beq_iff_eq]
    have e1 : (a + b) / 3 = a / 3 + b / 3 := by omega
    have e2 : (a + b) % 3 = b % 3 := by omega
    rw [e1, e2, h]; simp; omega
  · simp [Gen.MODE_NUMERIC, Gen.MODE_ALPHANUMERIC] at h
    simp only [Spec.payloadBits]
    omega
  · simp only [Spec.payloadBits]; omega
  · simp only [Spec.payloadBits]; omega
  · simp only [Spec.payloadBits]; omega

theorem addSegment_wf (segs : List Segment) (s : Segment)
    (h1 : ∀ x ∈ segs, WFs x) (h2 : WFs s) : ∀ x ∈ addSegment segs s, WFs x := by
  intro x hx
  unfold addSegment at hx
  cases hl : segs.getLast? with
  | none => simp [hl] at hx; subst hx; exact h2
  | some prev =>
    have hprev : prev ∈ segs := List.mem_of_getLast? hl
    simp only [hl] at hx
    by_cases hc : (prev.mode == s.mode && prev.encoding == s.encoding &&
        prev.charCount % (if s.mode == Gen.MODE_NUMERIC then 3 else if s.mode == Gen.MODE_ALPHANUMERIC then 2 else 1) == 0) = true
    · rw [if_pos hc] at hx
      simp only [Bool.and_eq_true] at hc
      obtain ⟨⟨hmode, henc⟩, hgrp⟩ := hc
      have hmode := eq_of_beq hmode
      have hgrp := eq_of_beq hgrp
      rcases List.mem_append.1 hx with hx | hx
      · exact h1 x (List.dropLast_subset _ hx)
      · simp at hx; subst hx
        obtain ⟨hp1, hp2⟩ := h1 prev hprev
        refine ⟨h2.1, ?_⟩
        simp only [List.length_append, hp2, h2.2, hmode]
        exact (payload_add s.mode prev.charCount s.charCount h2.1 hgrp).symm
    · rw [if_neg hc] at hx
      rcases List.mem_append.1 hx with hx | hx
      · exact h1 x hx
      · simp at hx; subst hx; exact h2

theorem prepareData_wf_aux (parts : List Part)
    (hm : ∀ p ∈ parts, p.mode ∈ [none, some 1, some 2, some 4, some 8, some 13]) :
    ∀ (acc segs : List Segment), (∀ x ∈ acc, WFs x) →
      parts.foldlM (fun segs p => do
        let s ← makeSegment p.data p.mode p.encoding
        pure (addSegment segs s)) acc = Except.ok segs → ∀ x ∈ segs, WFs x := by
  induction parts with
  | nil => intro acc segs hacc h; simp [pure, Except.pure] at h; subst h; exact hacc
  | cons p t ih =>
    intro acc segs hacc h
    rw [List.foldlM_cons] at h
    cases hs : makeSegment p.data p.mode p.encoding with
    | error e => simp [hs, bind, Except.bind] at h
    | ok s =>
      simp only [hs, bind, Except.bind, pure, Except.pure] at h
      exact ih (fun q hq => hm q (List.mem_cons_of_mem _ hq)) _ segs
        (addSegment_wf acc s hacc (makeSegment_wf _ _ _ s (hm p (List.mem_cons_self ..)) hs)) h

theorem prepareData_wf (parts : List Part) (segs : List Segment)
    (hm : ∀ p ∈ parts, p.mode ∈ [none, some 1, some 2, some 4, some 8, some 13])
    (h : prepareData parts = .ok segs) : ∀ x ∈ segs, WFs x :=
  prepareData_wf_aux parts hm [] segs (by simp) h

/-! ### bit length -/

theorem verRange_eq (v : Int) (h1 : -3 ≤ v) (h2 : v ≤ 40) :
    (if v > 0 then Gen.version_range v else v) = Spec.verClass v := by
  simp only [Gen.version_range, Spec.verClass, Bool.and_eq_true, decide_eq_true_eq]
  repeat' split
  all_goals omega

theorem cciLen_eq (m : Nat) (v : Int) (h1 : -3 ≤ v) (h2 : v ≤ 40) :
    cciLen m (if v > 0 then Gen.version_range v else v) = Spec.cciBits m v := by
  rw [verRange_eq v h1 h2]
  unfold cciLen Spec.cciBits
  rw [cci_table_eq]

theorem capacity_eq (v : Int) (e : Option Nat) : capacity v e = Spec.capacityOf v (lvlKey e) := by
  unfold capacity Spec.capacityOf Model.lookup2 Spec.lookup2
  rw [Props.C03.capacity_table_is_iso]

theorem cciBits_hanzi_micro (v : Int) (h1 : -3 ≤ v) (h0 : v ≤ 0) : Spec.cciBits 13 v = none := by
  have : v = -3 ∨ v = -2 ∨ v = -1 ∨ v = 0 := by omega
  rcases this with rfl | rfl | rfl | rfl <;> decide

theorem foldl_add_eq (l : List Nat) : ∀ a, l.foldl (· + ·) a = a + l.sum := by
  induction l with
  | nil => intro a; simp
  | cons x t ih => intro a; simp only [List.foldl_cons, ih, List.sum_cons]; omega

theorem sumNat_eq (l : List Nat) : sumNat l = l.sum := by
  unfold sumNat; rw [foldl_add_eq]; omega

def eciP (s : Segment) : Bool := s.mode == Gen.MODE_BYTE && s.encoding != some Gen.DEFAULT_BYTE_ENCODING

def info (eci : Bool) (s : Segment) : Spec.SegInfo :=
  { mode := s.mode, count := s.charCount,
    eci := eci && s.mode == 4 && s.encoding != some "iso-8859-1" }

def K (v : Int) (eci : Bool) (s : Segment) : Nat :=
  Spec.modeBits v + s.bits.length + (if (info eci s).eci then 12 else 0) + (if v > 0 && (info eci s).mode == 13 then 4 else 0)

def specPer (v : Int) (s : Spec.SegInfo) : Option Nat := do
    let w ← Spec.cciBits s.mode v
    pure (Spec.modeBits v + w + Spec.payloadBits s.mode s.count + (if s.eci then 12 else 0) + (if s.mode == 13 then 4 else 0))

theorem neededBits_eq (v : Int) (l : List Spec.SegInfo) (sa : Bool) :
    Spec.neededBits v l sa = (l.mapM (specPer v)).map (fun per => per.sum + (if sa then 20 else 0)) := by
  show (l.mapM (specPer v) >>= fun per => pure (per.foldl (· + ·) 0 + (if sa then 20 else 0))) = _
  cases h : l.mapM (specPer v) with
  | none => rfl
  | some per => simp [foldl_add_eq]

theorem perSeg_eq (v : Int) (eci : Bool) (s : Segment) (hwf : WFs s) (h1 : -3 ≤ v) :
    (Spec.cciBits s.mode v).map (· + K v eci s) = specPer v (info eci s) := by
  unfold specPer K
  have hm : s.mode = (info eci s).mode := rfl
  have hcnt : s.charCount = (info eci s).count := rfl
  rw [hwf.2, hm, hcnt]
  generalize info eci s = i
  by_cases hh : v ≤ 0 ∧ i.mode = 13
  · have : Spec.cciBits i.mode v = none := by rw [hh.2]; exact cciBits_hanzi_micro v h1 hh.1
    simp [this]
  · cases hc : Spec.cciBits i.mode v with
    | none => simp
    | some w =>
      simp only [Option.map_some, bind, Option.bind, pure]
      congr 1
      have e1 : (if (v > 0 && i.mode == 13) = true then 4 else 0) = (if (i.mode == 13) = true then 4 else 0) := by
        by_cases hm : i.mode = 13
        · have : v > 0 := by omega
          simp [hm, this]
        · simp [hm]
      rw [e1]
      omega

theorem mapM_option_shift {α : Type} (f : α → Option Nat) (k : α → Nat) :
    ∀ l : List α, (l.mapM (fun s => (f s).map (· + k s))).map List.sum
      = (l.mapM f).map (fun ws => ws.sum + (l.map k).sum) := by
  intro l
  induction l with
  | nil => simp
  | cons a t ih =>
    rw [List.mapM_cons, List.mapM_cons]
    cases hfa : f a with
    | none => simp
    | some w =>
      cases ht : t.mapM f with
      | none =>
        rw [ht] at ih
        cases ht' : t.mapM (fun s => (f s).map (· + k s)) with
        | none => simp
        | some r => rw [ht'] at ih; simp at ih
      | some ws =>
        rw [ht] at ih
        cases ht' : t.mapM (fun s => (f s).map (· + k s)) with
        | none => rw [ht'] at ih; simp at ih
        | some r =>
          rw [ht'] at ih; simp at ih
          simp [ih]; omega

theorem sumK (v : Int) (eci : Bool) (segs : List Segment) :
    (segs.map (K v eci)).sum = segs.length * Spec.modeBits v + (segs.map (fun s => s.bits.length)).sum
      + 12 * (if eci then (segs.filter (fun s => s.mode == Gen.MODE_BYTE && s.encoding != some Gen.DEFAULT_BYTE_ENCODING)).length else 0)
      + (if v > 0 then 4 * (segs.filter (fun s => s.mode == Gen.MODE_HANZI)).length else 0) := by
  induction segs with
  | nil => simp
  | cons a t ih =>
    simp only [List.map_cons, List.sum_cons, ih, List.length_cons, List.filter_cons]
    have e1 : (info eci a).eci = (eci && (a.mode == Gen.MODE_BYTE && a.encoding != some Gen.DEFAULT_BYTE_ENCODING)) := by
      simp [info, Gen.MODE_BYTE, Gen.DEFAULT_BYTE_ENCODING, Bool.and_assoc]
    have e2 : (info eci a).mode = a.mode := rfl
    unfold K
    rw [e1, e2]
    generalize (a.mode == Gen.MODE_BYTE && a.encoding != some Gen.DEFAULT_BYTE_ENCODING) = b1
    have e3 : (a.mode == Gen.MODE_HANZI) = (a.mode == 13) := rfl
    rw [e3]
    generalize (a.mode == 13) = b2
    rw [Nat.add_mul]
    cases eci <;> cases b1 <;> cases b2 <;> by_cases hv : v > 0 <;> simp [hv] <;> omega

theorem specSide (v : Int) (eci : Bool) (h1 : -3 ≤ v) : ∀ segs : List Segment, (∀ x ∈ segs, WFs x) →
    (segs.map (info eci)).mapM (specPer v) = segs.mapM (fun s => (Spec.cciBits s.mode v).map (· + K v eci s)) := by
  intro segs
  induction segs with
  | nil => intro _; rfl
  | cons a t ih =>
    intro h
    rw [List.map_cons, List.mapM_cons, List.mapM_cons, ih (fun x hx => h x (List.mem_cons_of_mem _ hx)),
      perSeg_eq v eci a (h a (List.mem_cons_self ..)) h1]

theorem bitLength_eq_needed (segs : List Segment) (v : Int) (eci sa : Bool)
    (hwf : ∀ x ∈ segs, WFs x) (h1 : -3 ≤ v) (h2 : v ≤ 40) :
    bitLengthWithOverhead segs v eci sa = Spec.neededBits v (segs.map (info eci)) sa := by
  rw [neededBits_eq, specSide v eci h1 segs hwf]
  have := mapM_option_shift (fun s : Segment => Spec.cciBits s.mode v) (K v eci) segs
  have e : ∀ o : Option (List Nat), o.map (fun per => per.sum + (if sa then 20 else 0))
      = (o.map List.sum).map (· + (if sa then 20 else 0)) := by intro o; cases o <;> rfl
  rw [e, this, sumK]
  unfold bitLengthWithOverhead
  have ef : (fun s : Segment => cciLen s.mode (if v > 0 then Gen.version_range v else v)) = (fun s => Spec.cciBits s.mode v) := by
    funext s; exact cciLen_eq s.mode v h1 h2
  simp only [ef]
  cases hc : segs.mapM (fun s : Segment => Spec.cciBits s.mode v) with
  | none => rfl
  | some ws =>
    simp only [bind, Option.bind, pure, Option.map_some, sumNat_eq, Spec.modeBits, Gen.VERSION_M1]
    congr 1
    generalize (List.filter (fun s => s.mode == Gen.MODE_BYTE && s.encoding != some Gen.DEFAULT_BYTE_ENCODING) segs).length = n1
    generalize (List.filter (fun s => s.mode == Gen.MODE_HANZI) segs).length = n2
    generalize (List.map (fun s => s.bits.length) segs).sum = n3
    by_cases hv : v > 0
    · simp only [hv, if_true]; cases eci <;> cases sa <;> simp <;> omega
    · simp only [hv, if_false]
      by_cases hv3 : v > -3
      · simp only [hv3, if_true]; cases eci <;> cases sa <;> simp <;> omega
      · have : v = -3 := by omega
        subst this
        cases eci <;> cases sa <;> simp <;> omega

/-! ### `find_version` -/

def pM (segs : List Segment) (error : Option Nat) (eci sa : Bool) (v : Int) : Bool :=
    let e := if error.isNone && v != Gen.VERSION_M1 then some Gen.ERROR_LEVEL_L else error
    match capacity v e, bitLengthWithOverhead segs v eci sa with
    | some cap, some bl => cap ≥ bl
    | _, _ => false

def finish (found : Option Int) : R Int :=
  match found with
  | some v => pure v
  | none => throw PyErr.dataOverflow

theorem findVersion_A (segs : List Segment) (error : Option Nat) (eci sa : Bool) :
    findVersion segs error eci (some false) sa = finish ((intRange 1 40).find? (pM segs error eci sa)) := by
  unfold findVersion finish pM
  simp [Gen.VERSION_M1, Gen.VERSION_M2, bind, Except.bind, pure, Except.pure]
  rfl

theorem findVersion_B (segs : List Segment) (error : Option Nat) (sa : Bool) (micro : Option Bool) (hmic : micro ≠ some false):
    findVersion segs error false micro sa = 
      match segs.mapM (fun s => findMinimumVersionForMode s.mode) with
      | none => throw PyErr.valueError
      | some [] => throw PyErr.valueError
      | some (x :: xs) => finish ((intRange (if error.isSome then -2 else xs.foldl max x) (if micro == some true then 0 else 40)).find? (pM segs error false sa)) := by
  unfold findVersion finish pM
  cases hmm : List.mapM (fun s => findMinimumVersionForMode s.mode) segs with
  | none => simp [Gen.VERSION_M1, Gen.VERSION_M2, Gen.VERSION_M4, bind, Except.bind, pure, Except.pure, hmic, hmm]; rfl
  | some l =>
    cases l with
    | nil => simp [Gen.VERSION_M1, Gen.VERSION_M2, Gen.VERSION_M4, bind, Except.bind, pure, Except.pure, hmic, hmm]; rfl
    | cons x xs =>
      simp [Gen.VERSION_M1, Gen.VERSION_M2, Gen.VERSION_M4, bind, Except.bind, pure, Except.pure, hmic, hmm]
      rfl

theorem pM_eq (segs : List Segment) (error : Option Nat) (eci sa : Bool) (v : Int)
    (hwf : ∀ x ∈ segs, WFs x) (h1 : -3 ≤ v) (h2 : v ≤ 40) :
    pM segs error eci sa v
      = Spec.fits v (lvlKey (if error.isNone && v != -3 then some 1 else error)) (segs.map (info eci)) sa := by
  unfold pM Spec.fits
  dsimp only
  rw [capacity_eq, bitLength_eq_needed segs v eci sa hwf h1 h2]
  rfl

theorem lvl_eq (error : Option Nat) (v : Int) (h : v ≠ -3 ∨ error = none) :
    lvlKey (if error.isNone && v != -3 then some 1 else error) = Spec.sizingLevel error v := by
  unfold Spec.sizingLevel lvlKey
  cases error with
  | none =>
    by_cases hv : v = -3
    · simp [hv]
    · simp [hv]
  | some l =>
    have hv : v ≠ -3 := by rcases h with h | h; exact h; cases h
    simp [hv]

theorem intRange_filter : ∀ lo ∈ [(-3 : Int), -2, -1, 1], ∀ hi ∈ [(0 : Int), 40],
    intRange lo hi = Spec.versionOrder.filter (fun v => decide (lo ≤ v) && decide (v ≤ hi)) := by
  decide +kernel

theorem find?_congr' {α : Type} (p q : α → Bool) : ∀ l : List α, (∀ x ∈ l, p x = q x) → l.find? p = l.find? q := by
  intro l
  induction l with
  | nil => intro _; rfl
  | cons a t ih =>
    intro h
    simp only [List.find?_cons, h a (List.mem_cons_self ..), ih (fun x hx => h x (List.mem_cons_of_mem _ hx))]

theorem mem_versionOrder (v : Int) (h : v ∈ Spec.versionOrder) : -3 ≤ v ∧ v ≤ 40 := by
  unfold Spec.versionOrder at h
  simp only [List.mem_append, List.mem_cons, List.not_mem_nil, or_false, List.mem_map, List.mem_range] at h
  rcases h with h | ⟨k, hk, rfl⟩
  · omega
  · simp only [Int.ofNat_eq_natCast]; omega

theorem find_range (lo hi : Int) (hlo : lo ∈ [(-3 : Int), -2, -1, 1]) (hhi : hi ∈ [(0 : Int), 40])
    (p q : Int → Bool) (h : ∀ v, -3 ≤ v → v ≤ 40 → (decide (lo ≤ v) && decide (v ≤ hi) && p v) = q v) :
    (intRange lo hi).find? p = Spec.versionOrder.find? q := by
  rw [intRange_filter lo hlo hi hhi, List.find?_filter]
  apply find?_congr'
  intro v hv
  obtain ⟨a, b⟩ := mem_versionOrder v hv
  rw [← h v a b]
  cases (decide (lo ≤ v) && decide (v ≤ hi)) <;> cases p v <;> rfl

theorem findMin_vals : findMinimumVersionForMode 1 = some (-3) ∧ findMinimumVersionForMode 2 = some (-2)
    ∧ findMinimumVersionForMode 4 = some (-1) ∧ findMinimumVersionForMode 8 = some (-1)
    ∧ findMinimumVersionForMode 13 = some 1 := by decide +kernel

theorem findMin_spec (m : Nat) (r : Int) (hm : m ∈ [1, 2, 4, 8, 13]) (h : findMinimumVersionForMode m = some r) :
    r ∈ [(-3 : Int), -2, -1, 1] ∧ ∀ v : Int, -3 ≤ v → v < r → Spec.cciBits m v = none := by
  obtain ⟨f1, f2, f4, f8, f13⟩ := findMin_vals
  simp only [List.mem_cons, List.not_mem_nil, or_false] at hm
  rcases hm with rfl | rfl | rfl | rfl | rfl
  · rw [f1] at h; cases h; exact ⟨by simp, fun v a b => by omega⟩
  · rw [f2] at h; cases h; refine ⟨by simp, fun v a b => ?_⟩
    have : v = -3 := by omega
    subst this; decide
  · rw [f4] at h; cases h; refine ⟨by simp, fun v a b => ?_⟩
    have : v = -3 ∨ v = -2 := by omega
    rcases this with rfl | rfl <;> decide
  · rw [f8] at h; cases h; refine ⟨by simp, fun v a b => ?_⟩
    have : v = -3 ∨ v = -2 := by omega
    rcases this with rfl | rfl <;> decide
  · rw [f13] at h; cases h; refine ⟨by simp, fun v a b => ?_⟩
    exact cciBits_hanzi_micro v a (by omega)

theorem foldl_max_mem (xs : List Int) : ∀ x : Int, xs.foldl max x ∈ x :: xs := by
  induction xs with
  | nil => intro x; simp
  | cons a t ih =>
    intro x
    simp only [List.foldl_cons]
    have := ih (max x a)
    rcases List.mem_cons.1 this with h | h
    · rw [h]
      rcases Int.le_total x a with hxa | hxa
      · rw [Int.max_eq_right hxa]; simp
      · rw [Int.max_eq_left hxa]; simp
    · exact List.mem_cons_of_mem _ (List.mem_cons_of_mem _ h)

theorem mapM_some_mem {α β : Type} (f : α → Option β) : ∀ (l : List α) (r : List β), l.mapM f = some r →
    ∀ y ∈ r, ∃ s ∈ l, f s = some y := by
  intro l
  induction l with
  | nil => intro r h y hy; simp at h; subst h; cases hy
  | cons a t ih =>
    intro r h y hy
    rw [List.mapM_cons] at h
    cases hfa : f a with
    | none => simp [hfa] at h
    | some b =>
      cases ht : t.mapM f with
      | none => simp [hfa, ht] at h
      | some bs =>
        simp [hfa, ht] at h
        subst h
        rcases List.mem_cons.1 hy with rfl | hy
        · exact ⟨a, List.mem_cons_self .., hfa⟩
        · obtain ⟨s, hs, e⟩ := ih bs ht y hy
          exact ⟨s, List.mem_cons_of_mem _ hs, e⟩

theorem neededBits_none (v : Int) (eci sa : Bool) : ∀ (segs : List Segment) (s : Segment), s ∈ segs →
    Spec.cciBits s.mode v = none → Spec.neededBits v (segs.map (info eci)) sa = none := by
  intro segs s hs hc
  rw [neededBits_eq]
  suffices h : (segs.map (info eci)).mapM (specPer v) = none by rw [h]; rfl
  induction segs with
  | nil => cases hs
  | cons a t ih =>
    rw [List.map_cons, List.mapM_cons]
    rcases List.mem_cons.1 hs with rfl | hs
    · have : specPer v (info eci s) = none := by
        unfold specPer
        show (Spec.cciBits s.mode v >>= _) = none
        rw [hc]; rfl
      rw [this]; rfl
    · rw [ih hs]
      cases specPer v (info eci a) <;> rfl

theorem pwA (segs : List Segment) (error : Option Nat) (eci sa : Bool) (hwf : ∀ x ∈ segs, WFs x)
    (v : Int) (h1 : -3 ≤ v) (h2 : v ≤ 40) :
    (decide ((1 : Int) ≤ v) && decide (v ≤ 40) && pM segs error eci sa v)
      = (Spec.admissible (some false) eci error v && Spec.fits v (Spec.sizingLevel error v) (segs.map (info eci)) sa) := by
  by_cases hv : v < 1
  · have : ¬ (1 : Int) ≤ v := by omega
    simp [Spec.admissible, hv, this]
  · rw [pM_eq segs error eci sa v hwf h1 h2, lvl_eq error v (Or.inl (by omega))]
    have : (1 : Int) ≤ v := by omega
    simp [Spec.admissible, hv, this, h2]

theorem pwB (segs : List Segment) (error : Option Nat) (micro : Option Bool) (sa : Bool) (hwf : ∀ x ∈ segs, WFs x)
    (hmic : micro ≠ some false) (lo : Int) (hlo : -3 ≤ lo) (hlo_err : error.isSome → lo = -2)
    (hlo_none : error = none → ∀ v, -3 ≤ v → v < lo →
      Spec.fits v (Spec.sizingLevel error v) (segs.map (info false)) sa = false)
    (v : Int) (h1 : -3 ≤ v) (h2 : v ≤ 40) :
    (decide (lo ≤ v) && decide (v ≤ (if micro == some true then 0 else 40)) && pM segs error false sa v)
      = (Spec.admissible micro false error v && Spec.fits v (Spec.sizingLevel error v) (segs.map (info false)) sa) := by
  by_cases hlov : lo ≤ v
  · have hd : v ≠ -3 ∨ error = none := by
      cases error with
      | none => exact Or.inr rfl
      | some l => have := hlo_err rfl; left; omega
    rw [pM_eq segs error false sa v hwf h1 h2, lvl_eq error v hd]
    generalize Spec.fits v (Spec.sizingLevel error v) (segs.map (info false)) sa = F
    have hadm : (v != -3 || error.isNone) = true := by
      rcases hd with h | h
      · simp [h]
      · simp [h]
    unfold Spec.admissible
    rw [hadm]
    match micro, hmic with
    | none, _ =>
      by_cases hv : v < 1
      · have : v ≤ 0 := by omega
        simp [hv, hlov, h2]
      · simp [hv, hlov, h2]
    | some true, _ =>
      by_cases hv : v < 1
      · have : v ≤ 0 := by omega
        simp [hv, hlov, this]
      · have : ¬ v ≤ 0 := by omega
        simp [hv, hlov, this]
    | some false, h => exact absurd rfl h
  · have hl : decide (lo ≤ v) = false := by simp [hlov]
    rw [hl]
    cases error with
    | none =>
      rw [hlo_none rfl v h1 (by omega)]; simp
    | some l =>
      have := hlo_err rfl
      have hv : v = -3 := by omega
      subst hv
      simp [Spec.admissible]

theorem mapM_some_of_forall {α β : Type} (f : α → Option β) : ∀ (l : List α), (∀ s ∈ l, ∃ y, f s = some y) →
    ∃ r, l.mapM f = some r ∧ r.length = l.length := by
  intro l
  induction l with
  | nil => intro _; exact ⟨[], by simp, rfl⟩
  | cons a t ih =>
    intro h
    obtain ⟨y, hy⟩ := h a (List.mem_cons_self ..)
    obtain ⟨r, hr, hl⟩ := ih (fun s hs => h s (List.mem_cons_of_mem _ hs))
    exact ⟨y :: r, by rw [List.mapM_cons, hy, hr]; rfl, by simp [hl]⟩

theorem findMin_some (m : Nat) (hm : m ∈ [1, 2, 4, 8, 13]) : ∃ y, findMinimumVersionForMode m = some y := by
  obtain ⟨f1, f2, f4, f8, f13⟩ := findMin_vals
  simp only [List.mem_cons, List.not_mem_nil, or_false] at hm
  rcases hm with rfl | rfl | rfl | rfl | rfl
  · exact ⟨_, f1⟩
  · exact ⟨_, f2⟩
  · exact ⟨_, f4⟩
  · exact ⟨_, f8⟩
  · exact ⟨_, f13⟩

theorem finish_eq (o : Option Int) :
    finish o = match o with
      | some v => .ok v
      | none => .error PyErr.dataOverflow := by
  cases o <;> rfl

theorem findVersion_is_first_fit (segs : List Segment) (error : Option Nat) (eci : Bool)
    (micro : Option Bool) (sa : Bool)
    (hwf : ∀ x ∈ segs, WFs x) (hne : segs ≠ [])
    (hE : eci = true → micro = some false) :
    findVersion segs error eci micro sa =
      match Spec.expectedVersion micro eci error (segs.map (info eci)) sa with
      | some v => .ok v
      | none => .error PyErr.dataOverflow := by
  rw [← finish_eq]
  unfold Spec.expectedVersion
  by_cases hmic : micro = some false
  · subst hmic
    rw [findVersion_A]
    congr 1
    exact find_range 1 40 (by simp) (by simp) _ _ (pwA segs error eci sa hwf)
  · have heci : eci = false := by
      cases eci with
      | false => rfl
      | true => exact absurd (hE rfl) hmic
    subst heci
    rw [findVersion_B segs error sa micro hmic]
    obtain ⟨r, hr, hlen⟩ := mapM_some_of_forall (fun s : Segment => findMinimumVersionForMode s.mode) segs
      (fun s hs => findMin_some s.mode (hwf s hs).1)
    rw [hr]
    match r, hr, hlen with
    | [], _, hlen =>
      exact absurd (List.length_eq_zero_iff.1 hlen.symm) hne
    | x :: xs, hr, _ =>
      dsimp only
      congr 1
      -- facts about the maximum
      obtain ⟨s, hs, hfs⟩ := mapM_some_mem _ segs (x :: xs) hr _ (foldl_max_mem xs x)
      obtain ⟨hmem, hbelow⟩ := findMin_spec s.mode _ (hwf s hs).1 hfs
      have hlo : (if error.isSome then (-2 : Int) else xs.foldl max x) ∈ [(-3 : Int), -2, -1, 1] := by
        split
        · simp
        · exact hmem
      have hhi : (if micro == some true then (0 : Int) else 40) ∈ [(0 : Int), 40] := by
        split <;> simp
      refine find_range _ _ hlo hhi _ _ (pwB segs error micro sa hwf hmic _ ?_ ?_ ?_)
      · simp only [List.mem_cons, List.not_mem_nil, or_false] at hlo; omega
      · intro h; simp [h]
      · intro he v h1 hv
        subst he
        simp only [Option.isSome_none, Bool.false_eq_true, if_false] at hv
        unfold Spec.fits
        rw [neededBits_none v false sa segs s hs (hbelow v h1 hv)]
        cases Spec.capacityOf v (Spec.sizingLevel none v) <;> rfl

/-! ### `boost_error_level` -/

theorem boost_identity_cases (v : Int) (error : Option Nat) (segs : List Segment) (eci sa : Bool)
    (h : error = none ∨ error = some 2 ∨ segs.length ≠ 1) :
    boostErrorLevel v error segs eci sa = .ok error := by
  unfold boostErrorLevel
  cases error with
  | none => rfl
  | some e =>
    have : (e == Gen.ERROR_LEVEL_H || segs.length != 1) = true := by
      rcases h with h | h | h
      · cases h
      · cases h; rfl
      · simp [h]
    simp only [this, if_true]; rfl

theorem go_mem (v : Int) (d : Nat) : ∀ (ls : List Nat) (cur r : Nat),
    boostErrorLevel.go v d cur ls = .ok r → r ∈ cur :: ls := by
  intro ls
  induction ls with
  | nil => intro cur r h; simp [boostErrorLevel.go, pure, Except.pure] at h; simp [h]
  | cons l t ih =>
    intro cur r h
    simp only [boostErrorLevel.go] at h
    split at h
    · simp [throw, throwThe, MonadExceptOf.throw] at h
    · split at h
      · have := ih l r h
        exact List.mem_cons_of_mem _ this
      · simp [pure, Except.pure] at h; simp [h]

theorem go_fits (v : Int) (d : Nat) : ∀ (ls : List Nat) (cur r : Nat),
    boostErrorLevel.go v d cur ls = .ok r → r = cur ∨ ∃ cap, capacity v (some r) = some cap ∧ cap ≥ d := by
  intro ls
  induction ls with
  | nil => intro cur r h; simp [boostErrorLevel.go, pure, Except.pure] at h; simp [h]
  | cons l t ih =>
    intro cur r h
    simp only [boostErrorLevel.go] at h
    split at h
    · simp [throw, throwThe, MonadExceptOf.throw] at h
    · rename_i cap hcap
      split at h
      · rename_i hge
        rcases ih l r h with rfl | h'
        · exact Or.inr ⟨cap, hcap, hge⟩
        · exact Or.inr h'
      · simp [pure, Except.pure] at h; simp [h]

def boostLevels (v : Int) : List Nat := if v < 1 then (if v < 0 then [1, 0] else [1, 0, 3]) else [1, 0, 3, 2]

theorem boostLevels_mem (v : Int) : boostLevels v ∈ [[1, 0], [1, 0, 3], [1, 0, 3, 2]] := by
  unfold boostLevels; split
  · split <;> simp
  · simp

theorem boost_eq (v : Int) (e : Nat) (segs : List Segment) (eci sa : Bool) :
    boostErrorLevel v (some e) segs eci sa =
      if (e == 2 || segs.length != 1) = true then .ok (some e) else
      match bitLengthWithOverhead segs v eci sa with
      | some d =>
        if (boostLevels v).contains e then
          (match boostErrorLevel.go v d e ((boostLevels v).drop ((boostLevels v).idxOf e + 1)) with
           | .ok r => .ok (some r)
           | .error x => .error x)
        else .error PyErr.valueError
      | none => .error PyErr.keyError := by
  unfold boostErrorLevel
  dsimp only
  have hL : (if v < 1 then if v < Gen.VERSION_M4 then List.take 2 [Gen.ERROR_LEVEL_L, Gen.ERROR_LEVEL_M, Gen.ERROR_LEVEL_Q, Gen.ERROR_LEVEL_H] else List.take 3 [Gen.ERROR_LEVEL_L, Gen.ERROR_LEVEL_M, Gen.ERROR_LEVEL_Q, Gen.ERROR_LEVEL_H] else [Gen.ERROR_LEVEL_L, Gen.ERROR_LEVEL_M, Gen.ERROR_LEVEL_Q, Gen.ERROR_LEVEL_H]) = boostLevels v := rfl
  rw [hL]
  generalize boostLevels v = L
  by_cases h1 : (e == 2 || segs.length != 1) = true
  · have h1' : (e == Gen.ERROR_LEVEL_H || segs.length != 1) = true := h1
    rw [if_pos h1, if_pos h1']; rfl
  · have h1' : ¬ (e == Gen.ERROR_LEVEL_H || segs.length != 1) = true := h1
    rw [if_neg h1, if_neg h1']
    cases bitLengthWithOverhead segs v eci sa with
    | none => rfl
    | some d =>
      dsimp only
      cases hc : L.contains e
      · simp [bind, Except.bind, throw, throwThe, MonadExceptOf.throw]
      · simp [bind, Except.bind, pure, Except.pure]
        cases boostErrorLevel.go v d e (List.drop (List.idxOf e L + 1) L) <;> rfl

theorem rank_check : ∀ L ∈ [[1, 0], [1, 0, 3], [1, 0, 3, 2]], ∀ e ∈ L, ∀ r' ∈ e :: L.drop (L.idxOf e + 1),
    Spec.levelRank ((r' : Nat) : Int) ≥ Spec.levelRank ((e : Nat) : Int) := by decide

theorem boost_never_below (v : Int) (e : Nat) (segs : List Segment) (eci sa : Bool) (r : Option Nat)
    (h : boostErrorLevel v (some e) segs eci sa = .ok r) :
    ∃ e', r = some e' ∧ Spec.levelRank (e' : Int) ≥ Spec.levelRank (e : Int) := by
  rw [boost_eq] at h
  split at h
  · cases h; exact ⟨e, rfl, Nat.le_refl _⟩
  · split at h
    · rename_i d hd
      split at h
      · rename_i hc
        split at h
        · rename_i r' hg
          cases h
          refine ⟨r', rfl, ?_⟩
          exact rank_check _ (boostLevels_mem v) e (by simpa using hc) r' (go_mem v d _ e r' hg)
        · cases h
      · cases h
    · cases h

/-- after boosting the content still fits -/
theorem boost_fits (v : Int) (e : Nat) (segs : List Segment) (eci sa : Bool) (r : Option Nat) (d cap : Nat)
    (hd : bitLengthWithOverhead segs v eci sa = some d) (hcap : capacity v (some e) = some cap) (hle : d ≤ cap)
    (h : boostErrorLevel v (some e) segs eci sa = .ok r) :
    ∃ cap', capacity v r = some cap' ∧ d ≤ cap' := by
  rw [boost_eq] at h
  split at h
  · cases h; exact ⟨cap, hcap, hle⟩
  · rw [hd] at h
    dsimp only at h
    split at h
    · split at h
      · rename_i r' hg
        cases h
        rcases go_fits v d _ e r' hg with rfl | ⟨c, hc, hge⟩
        · exact ⟨cap, hcap, hle⟩
        · exact ⟨c, hc, hge⟩
      · cases h
    · cases h

theorem caps_qr_all : ((List.range 40).all (fun k =>
    match Spec.capacityOf ((k : Int) + 1) 1, Spec.capacityOf ((k : Int) + 1) 0, Spec.capacityOf ((k : Int) + 1) 3, Spec.capacityOf ((k : Int) + 1) 2 with
    | some a, some b, some c, some d => decide (b ≤ a) && decide (c ≤ b) && decide (d ≤ c)
    | _, _, _, _ => false)) = true := by decide +kernel

theorem caps_qr (v : Int) (h1 : 1 ≤ v) (h2 : v ≤ 40) : ∃ c1 c0 c3 c2,
    Spec.capacityOf v 1 = some c1 ∧ Spec.capacityOf v 0 = some c0 ∧ Spec.capacityOf v 3 = some c3 ∧
    Spec.capacityOf v 2 = some c2 ∧ c0 ≤ c1 ∧ c3 ≤ c0 ∧ c2 ≤ c3 := by
  have := List.all_eq_true.1 caps_qr_all (v - 1).toNat (List.mem_range.2 (by omega))
  have hv : (((v - 1).toNat : Nat) : Int) + 1 = v := by omega
  rw [hv] at this
  split at this
  · rename_i a b c d ha hb hc hd
    simp only [Bool.and_eq_true, decide_eq_true_eq] at this
    exact ⟨a, b, c, d, ha, hb, hc, hd, this.1.1, this.1.2, this.2⟩
  · cases this

theorem caps_micro :
    Spec.capacityOf 0 1 = some 128 ∧ Spec.capacityOf 0 0 = some 112 ∧ Spec.capacityOf 0 3 = some 80 ∧ Spec.capacityOf 0 2 = none ∧
    Spec.capacityOf (-1) 1 = some 84 ∧ Spec.capacityOf (-1) 0 = some 68 ∧ Spec.capacityOf (-1) 3 = none ∧ Spec.capacityOf (-1) 2 = none ∧
    Spec.capacityOf (-2) 1 = some 40 ∧ Spec.capacityOf (-2) 0 = some 32 ∧ Spec.capacityOf (-2) 3 = none ∧ Spec.capacityOf (-2) 2 = none ∧
    Spec.capacityOf (-3) 1 = none ∧ Spec.capacityOf (-3) 0 = none ∧ Spec.capacityOf (-3) 3 = none ∧ Spec.capacityOf (-3) 2 = none := by
  decide +kernel

theorem boost_qr (v : Int) (e n : Nat) (s : Segment) (eci sa : Bool)
    (c1 c0 c3 c2 : Nat) (hv : 1 ≤ v) (he : e = 0 ∨ e = 1 ∨ e = 3)
    (h1 : Spec.capacityOf v 1 = some c1) (h0 : Spec.capacityOf v 0 = some c0) (h3 : Spec.capacityOf v 3 = some c3)
    (h2 : Spec.capacityOf v 2 = some c2) (o1 : c0 ≤ c1) (o2 : c3 ≤ c0) (o3 : c2 ≤ c3)
    (hn : Spec.neededBits v [info eci s] sa = some n) (hb : bitLengthWithOverhead [s] v eci sa = some n)
    (hfit : Spec.fits v (e : Int) [info eci s] sa = true) :
    boostErrorLevel v (some e) [s] eci sa = .ok (some (Spec.expectedLevel v (some e) true [info eci s] sa).toNat) := by
  have hL : boostLevels v = [1, 0, 3, 2] := by unfold boostLevels; rw [if_neg (by omega)]
  have hv3 : (v == -3) = false := by simp; omega
  rw [boost_eq, hb, hL]
  unfold Spec.expectedLevel Spec.sizingLevel Spec.fits at *
  rcases he with rfl | rfl | rfl
  all_goals
    simp [hn, h1, h0, h3, h2, hv3, boostErrorLevel.go, capacity_eq, lvlKey, Spec.levelsAscending, Spec.levelRank, List.filter, List.idxOf, List.findIdx, List.findIdx.go] at hfit ⊢
    by_cases a1 : n ≤ c1 <;> by_cases a0 : n ≤ c0 <;> by_cases a3 : n ≤ c3 <;> by_cases a2 : n ≤ c2 <;>
      simp [a1, a0, a3, a2, pure, Except.pure] <;> omega

theorem boost_micro (v : Int) (e n : Nat) (s : Segment) (eci sa : Bool)
    (hv : v = 0 ∨ v = -1 ∨ v = -2) (he : e = 0 ∨ e = 1 ∨ e = 3)
    (hn : Spec.neededBits v [info eci s] sa = some n) (hb : bitLengthWithOverhead [s] v eci sa = some n)
    (hfit : Spec.fits v (e : Int) [info eci s] sa = true) :
    boostErrorLevel v (some e) [s] eci sa = .ok (some (Spec.expectedLevel v (some e) true [info eci s] sa).toNat) := by
  obtain ⟨a1, a2, a3, a4, b1, b2, b3, b4, c1, c2, c3, c4, -⟩ := caps_micro
  rw [boost_eq, hb]
  unfold Spec.expectedLevel Spec.sizingLevel Spec.fits at *
  rcases hv with rfl | rfl | rfl <;> rcases he with rfl | rfl | rfl
  all_goals
    simp [hn, a1, a2, a3, a4, b1, b2, b3, b4, c1, c2, c3, c4, boostLevels, boostErrorLevel.go, capacity_eq, lvlKey, Spec.levelsAscending, Spec.levelRank, List.filter, List.idxOf, List.findIdx, List.findIdx.go] at hfit ⊢
  all_goals
    by_cases x1 : n ≤ 128 <;> by_cases x2 : n ≤ 112 <;> by_cases x3 : n ≤ 80 <;> by_cases x4 : n ≤ 84 <;> by_cases x5 : n ≤ 68 <;>
      by_cases x6 : n ≤ 40 <;> by_cases x7 : n ≤ 32 <;> simp [x1, x2, x3, x4, x5, x6, x7, pure, Except.pure] <;> omega

theorem boost_is_highest_fitting (v : Int) (e : Nat) (s : Segment) (eci sa : Bool)
    (hwf : WFs s) (h1 : -3 ≤ v) (h2 : v ≤ 40) (he : e ∈ [0, 1, 2, 3])
    (hfit : Spec.fits v (e : Int) [info eci s] sa = true) :
    boostErrorLevel v (some e) [s] eci sa
      = .ok (some (Spec.expectedLevel v (some e) true [info eci s] sa).toNat) := by
  -- the content has a bit length in `v`
  have hb0 := bitLength_eq_needed [s] v eci sa (by intro x hx; simp at hx; subst hx; exact hwf) h1 h2
  simp only [List.map_cons, List.map_nil] at hb0
  obtain ⟨n, hn⟩ : ∃ n, Spec.neededBits v [info eci s] sa = some n := by
    unfold Spec.fits at hfit
    cases hq : Spec.neededBits v [info eci s] sa with
    | none => rw [hq] at hfit; cases Spec.capacityOf v (e : Int) <;> simp at hfit
    | some n => exact ⟨n, rfl⟩
  have hb : bitLengthWithOverhead [s] v eci sa = some n := by rw [hb0, hn]
  have hv3 : v ≠ -3 := by
    rintro rfl
    obtain ⟨-, -, -, -, -, -, -, -, -, -, -, -, d1, d2, d3, d4⟩ := caps_micro
    unfold Spec.fits at hfit
    simp only [List.mem_cons, List.not_mem_nil, or_false] at he
    rcases he with rfl | rfl | rfl | rfl <;> simp_all
  simp only [List.mem_cons, List.not_mem_nil, or_false] at he
  by_cases he2 : e = 2
  · subst he2
    rw [boost_identity_cases v (some 2) [s] eci sa (Or.inr (Or.inl rfl))]
    have hv3' : (v == -3) = false := by simp [hv3]
    unfold Spec.expectedLevel Spec.sizingLevel
    simp [hv3', Spec.levelsAscending, Spec.levelRank, List.filter]
    cases Spec.fits v 2 [info eci s] sa <;> simp
  · have he' : e = 0 ∨ e = 1 ∨ e = 3 := by omega
    by_cases hv : 1 ≤ v
    · obtain ⟨c1, c0, c3, c2, k1, k0, k3, k2, o1, o2, o3⟩ := caps_qr v hv h2
      exact boost_qr v e n s eci sa c1 c0 c3 c2 hv he' k1 k0 k3 k2 o1 o2 o3 hn hb hfit
    · exact boost_micro v e n s eci sa (by omega) he' hn hb hfit

/-! ### `_encode`, `encode` -/

def encodeTail (segs : List Segment) (v : Int) (mask : Option Nat) (eci : Bool)
    (eciNumber : String → Option Nat) (sa : Option (Nat × Nat × Nat)) (error' : Option Nat) : R Code := do
  let saBits := match sa with
    | some (number, total, parity) => appendBits Gen.MODE_STRUCTURED_APPEND 4 ++ appendBits number 4 ++ appendBits total 4 ++ appendBits parity 8
    | none => []
  let segBits ← segs.mapM (fun s => writeSegment s v eci eciNumber)
  let buff := saBits ++ segBits.flatten
  let some cap := capacity v error' | throw PyErr.keyError
  let stream ← finishStream buff v cap
  let final ← makeFinalMessage v error' stream
  let n := (Gen.calc_matrix_size v).toNat
  let m0 ← addAlignmentPatterns (addFinderPatterns (makeMatrix n) n) n
  let m1 ← addCodewords m0 final v
  let (mk, m2) ← findAndApplyBestMask m1 mask
  let m3 ← addFormatInfo m2 v error' mk
  let m4 ← addVersionInfo m3 v
  pure { matrix := m4, version := v, error := error', mask := mk, segments := segs }

theorem encodeCore_eq (segs : List Segment) (error : Option Nat) (v : Int) (mask : Option Nat) (eci boost : Bool)
    (eciNumber : String → Option Nat) (sa : Option (Nat × Nat × Nat)) :
    encodeCore segs error v mask eci boost eciNumber sa =
      (if boost then boostErrorLevel v error segs eci sa.isSome else pure error) >>= encodeTail segs v mask eci eciNumber sa := by
  cases boost <;> rfl

theorem encodeTail_inv (segs : List Segment) (v : Int) (mask : Option Nat) (eci : Bool)
    (eciNumber : String → Option Nat) (sa : Option (Nat × Nat × Nat)) (error' : Option Nat) (c : Code)
    (h : encodeTail segs v mask eci eciNumber sa error' = .ok c) :
    c.version = v ∧ c.segments = segs ∧ c.error = error' ∧ ∃ cap, capacity v error' = some cap := by
  unfold encodeTail at h
  simp only [bind, Except.bind] at h
  split at h
  · cases h
  · split at h
    · rename_i cap hcap
      repeat' split at h
      all_goals first | (cases h; done) | skip
      all_goals
        simp only [pure, Except.pure, Except.ok.injEq] at h
        subst h
        exact ⟨rfl, rfl, rfl, cap, hcap⟩
    · cases h

theorem encodeCore_inv (segs : List Segment) (error : Option Nat) (v : Int) (mask : Option Nat) (eci boost : Bool)
    (eciNumber : String → Option Nat) (sa : Option (Nat × Nat × Nat)) (c : Code)
    (h : encodeCore segs error v mask eci boost eciNumber sa = .ok c) :
    c.version = v ∧ c.segments = segs ∧
      (if boost then boostErrorLevel v error segs eci sa.isSome else pure error) = .ok c.error ∧
      ∃ cap, capacity v c.error = some cap := by
  rw [encodeCore_eq] at h
  cases hE : (if boost then boostErrorLevel v error segs eci sa.isSome else pure error) with
  | error x => rw [hE] at h; cases h
  | ok error' =>
    rw [hE] at h
    obtain ⟨a, b, c', d⟩ := encodeTail_inv segs v mask eci eciNumber sa error' c h
    rw [c']
    exact ⟨a, b, rfl, d⟩


set_option hygiene false in
macro "mask_tac" : tactic => `(tactic| (
  split at h
  · split at h
    · cases h
    · exact h
  · exact h))

set_option hygiene false in
macro "fin_tac" : tactic => `(tactic| (
  split at h
  · split at h
    · rename_i cap bl hcap hbl
      split at h
      · rename_i hge
        refine ⟨fun _ => ⟨cap, bl, hcap, hbl, hge⟩, ?_⟩
        mask_tac
      · cases h
    · cases h
  · rename_i hne
    refine ⟨fun hh => absurd ?_ hh, ?_⟩
    · exact Decidable.byContradiction (fun hh' => hne (bne_iff_ne.2 hh'))
    · mask_tac))

set_option hygiene false in
macro "tailN_tac" : tactic => `(tactic| (
  split at h
  · cases h
  · rename_i segs hsegs
    split at h
    · cases h
    · rename_i g hg
      refine ⟨segs, g, g, hsegs, hg, Or.inl ⟨rfl, rfl⟩, ?_⟩
      fin_tac))

set_option hygiene false in
macro "tailS_tac" : tactic => `(tactic| (
  split at h
  · cases h
  · rename_i segs hsegs
    split at h
    · cases h
    · rename_i g hg
      split at h
      · cases h
      · rename_i hle
        refine ⟨segs, g, _, hsegs, hg, Or.inr ⟨rfl, by omega⟩, ?_⟩
        fin_tac))

set_option hygiene false in
macro "check1" : tactic => `(tactic| (
  split at h
  · cases h))

set_option maxHeartbeats 400000 in
theorem encode_inv_nn (parts : List Part) (error : Option Nat) (mask : Option Nat) (eci : Bool) (micro : Option Bool) (boost : Bool)
    (eciNumber : String → Option Nat) (c : Code)
    (h : encode parts error (none : Option Int) none mask eci micro boost eciNumber = .ok c) :
    ∃ segs guessed v, prepareData parts = .ok segs ∧
      findVersion segs error eci (if eci && micro.isNone then some false else micro) = .ok guessed ∧
      (((none : Option Int) = none ∧ v = guessed) ∨ ((none : Option Int) = some v ∧ guessed ≤ v)) ∧
      (v ≠ guessed → ∃ cap bl, capacity v (if error.isNone && v != Gen.VERSION_M1 then some Gen.ERROR_LEVEL_L else error) = some cap ∧
        bitLengthWithOverhead segs v eci false = some bl ∧ bl ≤ cap) ∧
      encodeCore segs (if error.isNone && v != Gen.VERSION_M1 then some Gen.ERROR_LEVEL_L else error) v mask eci boost eciNumber = .ok c := by
  simp only [encode, bind, Except.bind, throw, throwThe, MonadExceptOf.throw, pure, Except.pure] at h
  check1; check1; check1; check1
  tailN_tac

set_option maxHeartbeats 400000 in
theorem encode_inv_ns (parts : List Part) (error : Option Nat) (md : Nat) (mask : Option Nat) (eci : Bool) (micro : Option Bool) (boost : Bool)
    (eciNumber : String → Option Nat) (c : Code)
    (h : encode parts error (none : Option Int) (some md) mask eci micro boost eciNumber = .ok c) :
    ∃ segs guessed v, prepareData parts = .ok segs ∧
      findVersion segs error eci (if eci && micro.isNone then some false else micro) = .ok guessed ∧
      (((none : Option Int) = none ∧ v = guessed) ∨ ((none : Option Int) = some v ∧ guessed ≤ v)) ∧
      (v ≠ guessed → ∃ cap bl, capacity v (if error.isNone && v != Gen.VERSION_M1 then some Gen.ERROR_LEVEL_L else error) = some cap ∧
        bitLengthWithOverhead segs v eci false = some bl ∧ bl ≤ cap) ∧
      encodeCore segs (if error.isNone && v != Gen.VERSION_M1 then some Gen.ERROR_LEVEL_L else error) v mask eci boost eciNumber = .ok c := by
  simp only [encode, bind, Except.bind, throw, throwThe, MonadExceptOf.throw, pure, Except.pure] at h
  check1; check1; check1; check1
  tailN_tac

set_option maxHeartbeats 400000 in
theorem encode_inv_sn (parts : List Part) (error : Option Nat) (v0 : Int) (mask : Option Nat) (eci : Bool) (micro : Option Bool) (boost : Bool)
    (eciNumber : String → Option Nat) (c : Code)
    (h : encode parts error (some v0) none mask eci micro boost eciNumber = .ok c) :
    ∃ segs guessed v, prepareData parts = .ok segs ∧
      findVersion segs error eci (if eci && micro.isNone then some false else micro) = .ok guessed ∧
      (((some v0) = none ∧ v = guessed) ∨ ((some v0) = some v ∧ guessed ≤ v)) ∧
      (v ≠ guessed → ∃ cap bl, capacity v (if error.isNone && v != Gen.VERSION_M1 then some Gen.ERROR_LEVEL_L else error) = some cap ∧
        bitLengthWithOverhead segs v eci false = some bl ∧ bl ≤ cap) ∧
      encodeCore segs (if error.isNone && v != Gen.VERSION_M1 then some Gen.ERROR_LEVEL_L else error) v mask eci boost eciNumber = .ok c := by
  simp only [encode, bind, Except.bind, throw, throwThe, MonadExceptOf.throw, pure, Except.pure] at h
  check1; check1; check1; check1
  tailS_tac

set_option maxHeartbeats 400000 in
theorem encode_inv_ss (parts : List Part) (error : Option Nat) (v0 : Int) (md : Nat) (mask : Option Nat) (eci : Bool) (micro : Option Bool) (boost : Bool)
    (eciNumber : String → Option Nat) (c : Code)
    (h : encode parts error (some v0) (some md) mask eci micro boost eciNumber = .ok c) :
    ∃ segs guessed v, prepareData parts = .ok segs ∧
      findVersion segs error eci (if eci && micro.isNone then some false else micro) = .ok guessed ∧
      (((some v0) = none ∧ v = guessed) ∨ ((some v0) = some v ∧ guessed ≤ v)) ∧
      (v ≠ guessed → ∃ cap bl, capacity v (if error.isNone && v != Gen.VERSION_M1 then some Gen.ERROR_LEVEL_L else error) = some cap ∧
        bitLengthWithOverhead segs v eci false = some bl ∧ bl ≤ cap) ∧
      encodeCore segs (if error.isNone && v != Gen.VERSION_M1 then some Gen.ERROR_LEVEL_L else error) v mask eci boost eciNumber = .ok c := by
  simp only [encode, bind, Except.bind, throw, throwThe, MonadExceptOf.throw, pure, Except.pure] at h
  check1; check1
  split at h
  · cases h
  · cases h
  · check1; check1
    tailS_tac

theorem encode_inv (parts : List Part) (error : Option Nat) (version : Option Int)
    (mode : Option Nat) (mask : Option Nat) (eci : Bool) (micro : Option Bool) (boost : Bool)
    (eciNumber : String → Option Nat) (c : Code)
    (h : encode parts error version mode mask eci micro boost eciNumber = .ok c) :
    ∃ segs guessed v, prepareData parts = .ok segs ∧
      findVersion segs error eci (if eci && micro.isNone then some false else micro) = .ok guessed ∧
      ((version = none ∧ v = guessed) ∨ (version = some v ∧ guessed ≤ v)) ∧
      (v ≠ guessed → ∃ cap bl, capacity v (if error.isNone && v != Gen.VERSION_M1 then some Gen.ERROR_LEVEL_L else error) = some cap ∧
        bitLengthWithOverhead segs v eci false = some bl ∧ bl ≤ cap) ∧
      encodeCore segs (if error.isNone && v != Gen.VERSION_M1 then some Gen.ERROR_LEVEL_L else error) v mask eci boost eciNumber = .ok c := by
  cases version with
  | none =>
    cases mode with
    | none => exact encode_inv_nn parts error mask eci micro boost eciNumber c h
    | some md => exact encode_inv_ns parts error md mask eci micro boost eciNumber c h
  | some v0 =>
    cases mode with
    | none => exact encode_inv_sn parts error v0 mask eci micro boost eciNumber c h
    | some md => exact encode_inv_ss parts error v0 md mask eci micro boost eciNumber c h

theorem findVersion_ok (segs : List Segment) (error : Option Nat) (eci : Bool) (micro : Option Bool) (sa : Bool) (g : Int)
    (h : findVersion segs error eci micro sa = .ok g) : pM segs error eci sa g = true := by
  unfold findVersion at h
  simp only [bind, Except.bind, pure, Except.pure, throw, throwThe, MonadExceptOf.throw] at h
  repeat' split at h
  all_goals first | (cases h; done) | skip
  all_goals
    rename_i hv
    simp only [Except.ok.injEq] at h
    subst h
    exact List.find?_some hv

theorem pM_true (segs : List Segment) (error : Option Nat) (eci sa : Bool) (v : Int)
    (h : pM segs error eci sa v = true) :
    ∃ cap bl, capacity v (if error.isNone && v != Gen.VERSION_M1 then some Gen.ERROR_LEVEL_L else error) = some cap ∧
      bitLengthWithOverhead segs v eci sa = some bl ∧ bl ≤ cap := by
  unfold pM at h
  dsimp only at h
  split at h
  · rename_i cap bl hcap hbl
    exact ⟨cap, bl, hcap, hbl, by simpa using h⟩
  · cases h

theorem encode_requested_version (parts : List Part) (error : Option Nat) (v : Int)
    (mode : Option Nat) (mask : Option Nat) (eci : Bool) (micro : Option Bool) (boost : Bool)
    (eciNumber : String → Option Nat) (c : Code)
    (h : encode parts error (some v) mode mask eci micro boost eciNumber = .ok c) :
    c.version = v := by
  obtain ⟨segs, g, v', -, -, hv, -, hcore⟩ := encode_inv _ _ _ _ _ _ _ _ _ _ h
  obtain ⟨hver, -, -, -⟩ := encodeCore_inv _ _ _ _ _ _ _ _ _ hcore
  rcases hv with ⟨h0, -⟩ | ⟨h0, -⟩
  · cases h0
  · cases h0; exact hver

theorem encode_never_truncates (parts : List Part) (error : Option Nat) (version : Option Int)
    (mode : Option Nat) (mask : Option Nat) (eci : Bool) (micro : Option Bool) (boost : Bool)
    (eciNumber : String → Option Nat) (c : Code)
    (h : encode parts error version mode mask eci micro boost eciNumber = .ok c) :
    ∃ need cap, bitLengthWithOverhead c.segments c.version eci false = some need
      ∧ capacity c.version c.error = some cap ∧ need ≤ cap := by
  obtain ⟨segs, g, v, -, hfind, -, hfit, hcore⟩ := encode_inv _ _ _ _ _ _ _ _ _ _ h
  obtain ⟨hver, hsegs, herr, -⟩ := encodeCore_inv _ _ _ _ _ _ _ _ _ hcore
  rw [hver, hsegs]
  -- the content fits at the sizing level
  obtain ⟨cap, bl, hcap, hbl, hle⟩ : ∃ cap bl,
      capacity v (if error.isNone && v != Gen.VERSION_M1 then some Gen.ERROR_LEVEL_L else error) = some cap ∧
      bitLengthWithOverhead segs v eci false = some bl ∧ bl ≤ cap := by
    by_cases hvg : v = g
    · subst hvg; exact pM_true _ _ _ _ _ (findVersion_ok _ _ _ _ _ _ hfind)
    · exact hfit hvg
  generalize (if error.isNone && v != Gen.VERSION_M1 then some Gen.ERROR_LEVEL_L else error) = e' at *
  cases boost with
  | false =>
    simp only [Bool.false_eq_true, if_false, pure, Except.pure, Except.ok.injEq] at herr
    rw [← herr]; exact ⟨bl, cap, hbl, hcap, hle⟩
  | true =>
    simp only [if_true] at herr
    cases e' with
    | none =>
      rw [boost_identity_cases v none segs eci _ (Or.inl rfl)] at herr
      simp only [Except.ok.injEq] at herr
      rw [← herr]; exact ⟨bl, cap, hbl, hcap, hle⟩
    | some e =>
      obtain ⟨cap', hc', hle'⟩ := boost_fits v e segs eci _ c.error bl cap hbl hcap hle herr
      exact ⟨bl, cap', hbl, hc', hle'⟩

theorem version_boost_invariant (parts : List Part) (error : Option Nat) (version : Option Int)
    (mode : Option Nat) (mask : Option Nat) (eci : Bool) (micro : Option Bool)
    (eciNumber : String → Option Nat) (c1 c2 : Code)
    (hb : encode parts error version mode mask eci micro true eciNumber = .ok c1)
    (hn : encode parts error version mode mask eci micro false eciNumber = .ok c2) :
    c1.version = c2.version := by
  obtain ⟨segs1, g1, v1, hp1, hf1, hv1, -, hcore1⟩ := encode_inv _ _ _ _ _ _ _ _ _ _ hb
  obtain ⟨segs2, g2, v2, hp2, hf2, hv2, -, hcore2⟩ := encode_inv _ _ _ _ _ _ _ _ _ _ hn
  obtain ⟨hver1, -, -, -⟩ := encodeCore_inv _ _ _ _ _ _ _ _ _ hcore1
  obtain ⟨hver2, -, -, -⟩ := encodeCore_inv _ _ _ _ _ _ _ _ _ hcore2
  rw [hver1, hver2]
  rw [hp1] at hp2; cases hp2
  rw [hf1] at hf2; cases hf2
  rcases hv1 with ⟨a, b⟩ | ⟨a, b⟩ <;> rcases hv2 with ⟨a', b'⟩ | ⟨a', b'⟩
  · rw [b, b']
  · rw [a] at a'; cases a'
  · rw [a] at a'; cases a'
  · rw [a] at a'; cases a'; rfl

theorem noboost_exact (parts : List Part) (error : Option Nat) (version : Option Int)
    (mode : Option Nat) (mask : Option Nat) (eci : Bool) (micro : Option Bool)
    (eciNumber : String → Option Nat) (c : Code)
    (h : encode parts error version mode mask eci micro false eciNumber = .ok c) :
    c.error = (if error.isNone && c.version != -3 then some 1 else error) := by
  obtain ⟨segs, g, v, -, -, -, -, hcore⟩ := encode_inv _ _ _ _ _ _ _ _ _ _ h
  obtain ⟨hver, -, herr, -⟩ := encodeCore_inv _ _ _ _ _ _ _ _ _ hcore
  simp only [Bool.false_eq_true, if_false, pure, Except.pure, Except.ok.injEq] at herr
  rw [← herr, hver]; rfl

end Proofs.Sizing
