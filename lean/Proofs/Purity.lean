/-
  Proofs.Purity — helper lemmas for Props/C15 (the judge of C15, Spec/Purity.lean).
-/
import Spec.Purity

namespace Proofs.Purity
open Spec.Purity

theorem firstDiff_none_iff (e o : List String) (k : Nat) : firstDiff e o k = none ↔ e = o := by
  induction e generalizing o k with
  | nil => cases o <;> simp [firstDiff]
  | cons a as ih =>
    cases o with
    | nil => simp [firstDiff]
    | cons b bs =>
      simp only [firstDiff]
      by_cases hab : a = b
      · subst hab; simp [ih]
      · simp [hab]

end Proofs.Purity
