/-
  Proofs.Placement — helper lemmas for Props/C02Model.lean: get2/set2 algebra, write lists,
  format and version information placement.
-/
import Spec.Decode
import Model.Encoder
import Props.C02

namespace Proofs.Placement
open Model

/-! ### get2 / set2 algebra -/

theorem get2_set2 (m : Matrix) (i j x a b : Nat) :
    get2 (set2 m i j x) a b
      = if a = i ∧ b = j ∧ i < m.size ∧ j < (m.getD i #[]).size then x else get2 m a b := by
  unfold get2 set2
  simp only [Array.getD_eq_getD_getElem?, Array.getElem?_modify]
  by_cases hai : a = i
  · subst hai
    by_cases ha : a < m.size
    · simp [ha, Array.getElem?_setIfInBounds]
      by_cases hj : j = b
      · subst hj
        by_cases hj2 : j < m[a].size <;> simp [hj2]
      · have : ¬ b = j := fun h => hj h.symm
        simp [hj, this]
    · simp [ha]
  · have : ¬ i = a := fun h => hai h.symm
    simp [hai, this]

def Sq (m : Matrix) (n : Nat) : Prop := m.size = n ∧ ∀ i, i < n → (m.getD i #[]).size = n

theorem size_set2 (m : Matrix) (i j x : Nat) : (set2 m i j x).size = m.size := by
  simp [set2]

theorem rowsize_set2 (m : Matrix) (i j x a : Nat) :
    ((set2 m i j x).getD a #[]).size = (m.getD a #[]).size := by
  unfold set2
  simp only [Array.getD_eq_getD_getElem?, Array.getElem?_modify]
  by_cases hai : i = a
  · subst hai
    by_cases ha : i < m.size <;> simp [ha]
  · simp [hai]

theorem Sq_set2 (m : Matrix) (n i j x : Nat) : Sq (set2 m i j x) n ↔ Sq m n := by
  simp only [Sq, size_set2, rowsize_set2]

theorem get2_set2_sq (m : Matrix) (n i j x a b : Nat) (h : Sq m n) :
    get2 (set2 m i j x) a b = if a = i ∧ b = j ∧ i < n ∧ j < n then x else get2 m a b := by
  rw [get2_set2]
  obtain ⟨h1, h2⟩ := h
  by_cases hi : i < n
  · rw [h1, h2 i hi]
  · rw [h1]; simp only [hi, false_and, and_false]

/-! ### write lists: a sequence of `set2` calls and the value a cell holds afterwards -/

abbrev W := Nat × Nat × Nat
def applyW (m : Matrix) (ws : List W) : Matrix := ws.foldl (fun m w => set2 m w.1 w.2.1 w.2.2) m

def evalW (n a b : Nat) : List W → Nat → Nat
  | [], d => d
  | w :: ws, d => evalW n a b ws (if w.1 = a ∧ w.2.1 = b ∧ a < n ∧ b < n then w.2.2 else d)

theorem Sq_applyW (m : Matrix) (n : Nat) (ws : List W) : Sq (applyW m ws) n ↔ Sq m n := by
  induction ws generalizing m with
  | nil => rfl
  | cons w ws ih => simp only [applyW, List.foldl_cons] at ih ⊢; rw [ih, Sq_set2]

theorem get2_applyW (m : Matrix) (n a b : Nat) (ws : List W) (h : Sq m n) :
    get2 (applyW m ws) a b = evalW n a b ws (get2 m a b) := by
  induction ws generalizing m with
  | nil => rfl
  | cons w ws ih =>
    simp only [applyW, List.foldl_cons, evalW] at ih ⊢
    rw [ih _ ((Sq_set2 m n _ _ _).2 h), get2_set2_sq m n _ _ _ _ _ h]
    congr 1
    by_cases hc : w.1 = a ∧ w.2.1 = b ∧ a < n ∧ b < n
    · obtain ⟨h1, h2, h3, h4⟩ := hc
      subst h1; subst h2; simp [h3, h4]
    · rw [if_neg hc, if_neg]
      intro ⟨h1, h2, h3, h4⟩
      exact hc ⟨h1.symm, h2.symm, h1 ▸ h3, h2 ▸ h4⟩

theorem applyW_append (m : Matrix) (ws ws' : List W) : applyW m (ws ++ ws') = applyW (applyW m ws) ws' := by
  simp [applyW]

theorem foldl_applyW {α : Type} (g : α → List W) (l : List α) (m : Matrix) :
    l.foldl (fun m i => applyW m (g i)) m = applyW m (l.flatMap g) := by
  induction l generalizing m with
  | nil => rfl
  | cons x l ih => simp only [List.foldl_cons, List.flatMap_cons, applyW_append, ih]

/-! ### calc_format_info -/

theorem format_info_get (k : Nat) (h : k < 32) : Gen.FORMAT_INFO[k]? = some (Spec.bch15 k ^^^ 0x5412) := by
  rw [Props.C02.format_info_is_bch, List.getElem?_map, List.getElem?_range h]; rfl

theorem format_info_micro_get (k : Nat) (h : k < 32) : Gen.FORMAT_INFO_MICRO[k]? = some (Spec.bch15 k ^^^ 0x4445) := by
  rw [Props.C02.format_info_micro_is_bch, List.getElem?_map, List.getElem?_range h]; rfl

theorem version_info_get (k : Nat) (h : k < 34) : Gen.VERSION_INFO[k]? = some (Spec.golay18 (k + 7)) := by
  rw [Props.C02.version_info_is_golay, List.getElem?_map, List.getElem?_range h]; rfl

theorem calcFormatInfo_qr (v : Int) (e mask : Nat) (hv : 1 ≤ v) (he : e < 4) (hm : mask < 8) :
    Model.calcFormatInfo v (some e) mask = .ok (Spec.formatWordQR e mask) := by
  have hv' : v > 0 := by omega
  unfold Model.calcFormatInfo Spec.formatWordQR
  simp only [hv', if_true]
  have he' : e = 0 ∨ e = 1 ∨ e = 2 ∨ e = 3 := by omega
  rcases he' with rfl | rfl | rfl | rfl <;>
    simp [Gen.ERROR_LEVEL_L, Gen.ERROR_LEVEL_H, Gen.ERROR_LEVEL_Q] <;>
    rw [format_info_get _ (by omega)] <;> simp [pure, Except.pure, Nat.add_comm]

theorem micro_lookup (v l : Int) (s : Nat) (hs : Spec.microSymbolNumber v l = some s) :
    s < 8 ∧ lookup2 Gen.ERROR_LEVEL_TO_MICRO_MAPPING v l = some s := by
  unfold Spec.microSymbolNumber at hs
  have h1 := List.find?_some hs
  have h2 := List.mem_of_find?_eq_some hs
  have h3 : s < 8 := by simpa using h2
  refine ⟨h3, ?_⟩
  have hs' : s = 0 ∨ s = 1 ∨ s = 2 ∨ s = 3 ∨ s = 4 ∨ s = 5 ∨ s = 6 ∨ s = 7 := by omega
  rcases hs' with rfl | rfl | rfl | rfl | rfl | rfl | rfl | rfl <;>
    (simp [Spec.microSymbol] at h1; obtain ⟨rfl, rfl⟩ := h1; decide)

theorem calcFormatInfo_micro (v : Int) (lvl : Option Nat) (mask s : Nat) (hv : v < 1) (hm : mask < 4)
    (hs : Spec.microSymbolNumber v (Model.lvlKey lvl) = some s) :
    Model.calcFormatInfo v lvl mask = .ok (Spec.formatWordMicro s mask) := by
  obtain ⟨h8, hl⟩ := micro_lookup _ _ _ hs
  have hv' : ¬ v > 0 := by omega
  unfold Model.calcFormatInfo Spec.formatWordMicro
  simp only [hv', if_false, hl]
  have e : mask + (s <<< 2) = s * 4 + mask := by rw [Nat.shiftLeft_eq]; omega
  rw [e, format_info_micro_get _ (by omega)]; rfl

/-! ### add_format_info as a write list, and what each format cell holds afterwards -/

def qrStep (n fi i : Nat) : List W :=
  [(i + (if i ≥ 6 then 1 else 0), 8, (fi >>> i) % 2), (8, i + (if i ≥ 6 then 1 else 0), (fi >>> (14 - i)) % 2),
   (8, n - 1 - i, (fi >>> i) % 2), (n - 1 - i, 8, (fi >>> (14 - i)) % 2)]

def microStep (fi i : Nat) : List W :=
  [(i + 1, 8, (fi >>> i) % 2), (8, i + 1, (fi >>> (14 - i)) % 2)]

theorem addFormatInfo_qr_eq (m : Matrix) (v : Int) (error : Option Nat) (mask fi : Nat) (hv : 1 ≤ v)
    (hc : calcFormatInfo v error mask = .ok fi) :
    addFormatInfo m v error mask
      = .ok (applyW m ((List.range 8).flatMap (qrStep m.size fi) ++ [(m.size - 8, 8, 1)])) := by
  have hv' : ¬ v < 1 := by omega
  unfold addFormatInfo
  simp only [hc, bind, Except.bind, pure, Except.pure, hv', decide_false, Bool.not_false, if_true,
    Bool.true_and, if_false]
  rw [applyW_append m, ← foldl_applyW (qrStep m.size fi)]
  simp only [applyW, qrStep, List.foldl_cons, List.foldl_nil, decide_eq_true_eq, Nat.zero_add]

theorem addFormatInfo_micro_eq (m : Matrix) (v : Int) (error : Option Nat) (mask fi : Nat) (hv : v < 1)
    (hc : calcFormatInfo v error mask = .ok fi) :
    addFormatInfo m v error mask = .ok (applyW m ((List.range 8).flatMap (microStep fi))) := by
  unfold addFormatInfo
  simp only [hc, bind, Except.bind, pure, Except.pure, hv, decide_true, Bool.not_true, if_true,
    Bool.false_and, Bool.false_eq_true, if_false]
  rw [← foldl_applyW (microStep fi)]
  simp only [applyW, microStep, List.foldl_cons, List.foldl_nil]

theorem range8 : List.range 8 = [0, 1, 2, 3, 4, 5, 6, 7] := by decide


def qrWrites (n fi : Nat) : List W := (List.range 8).flatMap (qrStep n fi) ++ [(n - 8, 8, 1)]

theorem qrWrites_explicit (n fi : Nat) : qrWrites n fi =
  [(0, 8, (fi >>> 0) % 2), (8, 0, (fi >>> 14) % 2), (8, n - 1 - 0, (fi >>> 0) % 2), (n - 1 - 0, 8, (fi >>> 14) % 2),
   (1, 8, (fi >>> 1) % 2), (8, 1, (fi >>> 13) % 2), (8, n - 1 - 1, (fi >>> 1) % 2), (n - 1 - 1, 8, (fi >>> 13) % 2),
   (2, 8, (fi >>> 2) % 2), (8, 2, (fi >>> 12) % 2), (8, n - 1 - 2, (fi >>> 2) % 2), (n - 1 - 2, 8, (fi >>> 12) % 2),
   (3, 8, (fi >>> 3) % 2), (8, 3, (fi >>> 11) % 2), (8, n - 1 - 3, (fi >>> 3) % 2), (n - 1 - 3, 8, (fi >>> 11) % 2),
   (4, 8, (fi >>> 4) % 2), (8, 4, (fi >>> 10) % 2), (8, n - 1 - 4, (fi >>> 4) % 2), (n - 1 - 4, 8, (fi >>> 10) % 2),
   (5, 8, (fi >>> 5) % 2), (8, 5, (fi >>> 9) % 2), (8, n - 1 - 5, (fi >>> 5) % 2), (n - 1 - 5, 8, (fi >>> 9) % 2),
   (7, 8, (fi >>> 6) % 2), (8, 7, (fi >>> 8) % 2), (8, n - 1 - 6, (fi >>> 6) % 2), (n - 1 - 6, 8, (fi >>> 8) % 2),
   (8, 8, (fi >>> 7) % 2), (8, 8, (fi >>> 7) % 2), (8, n - 1 - 7, (fi >>> 7) % 2), (n - 1 - 7, 8, (fi >>> 7) % 2),
   (n - 8, 8, 1)] := by
  simp only [qrWrites, range8, qrStep, List.flatMap_cons, List.flatMap_nil, List.cons_append, List.nil_append,
    List.append_nil]
  rfl


theorem evalW_miss (n a b i j x : Nat) (ws : List W) (d : Nat) (h : i ≠ a ∨ j ≠ b) :
    evalW n a b ((i, j, x) :: ws) d = evalW n a b ws d := by
  rw [evalW, if_neg]; intro ⟨h1, h2, _⟩; cases h with | inl h => exact h h1 | inr h => exact h h2

theorem evalW_hit (n a b i j x : Nat) (ws : List W) (d : Nat) (hi : i = a) (hj : j = b) (ha : a < n) (hb : b < n) :
    evalW n a b ((i, j, x) :: ws) d = evalW n a b ws x := by
  rw [evalW, if_pos ⟨hi, hj, ha, hb⟩]

theorem evalW_nil (n a b d : Nat) : evalW n a b [] d = d := rfl

macro "evalW_steps" : tactic => `(tactic|
  (repeat (first
    | rw [evalW_miss _ _ _ _ _ _ _ _ (by omega)]
    | rw [evalW_hit _ _ _ _ _ _ _ _ (by omega) (by omega) (by omega) (by omega)]))
   <;> try rw [evalW_nil])


theorem lt15_cases (k : Nat) (h : k < 15) : k = 0 ∨ k = 1 ∨ k = 2 ∨ k = 3 ∨ k = 4 ∨ k = 5 ∨ k = 6 ∨ k = 7 ∨
    k = 8 ∨ k = 9 ∨ k = 10 ∨ k = 11 ∨ k = 12 ∨ k = 13 ∨ k = 14 := by omega

theorem qr_copy1 (m : Matrix) (n fi k : Nat) (hs : Sq m n) (hn : 21 ≤ n) (hk : k < 15) :
    get2 (applyW m (qrWrites n fi)) (Spec.fmtPos1 k).1 (Spec.fmtPos1 k).2 = (fi >>> k) % 2 := by
  rw [get2_applyW _ n _ _ _ hs, qrWrites_explicit]
  rcases lt15_cases k hk with rfl | rfl | rfl | rfl | rfl | rfl | rfl | rfl | rfl | rfl | rfl | rfl | rfl | rfl | rfl <;>
    simp only [Spec.fmtPos1, Nat.reduceLT, Nat.reduceBEq, if_true, if_false, Nat.reduceSub, Bool.false_eq_true] <;>
    evalW_steps

theorem qr_copy2 (m : Matrix) (n fi k : Nat) (hs : Sq m n) (hn : 21 ≤ n) (hk : k < 15) :
    get2 (applyW m (qrWrites n fi)) (Spec.fmtPos2 n k).1 (Spec.fmtPos2 n k).2 = (fi >>> k) % 2 := by
  rw [get2_applyW _ n _ _ _ hs, qrWrites_explicit]
  rcases lt15_cases k hk with rfl | rfl | rfl | rfl | rfl | rfl | rfl | rfl | rfl | rfl | rfl | rfl | rfl | rfl | rfl <;>
    simp only [Spec.fmtPos2, Nat.reduceLT, if_true, if_false] <;>
    evalW_steps

theorem qr_dark (m : Matrix) (n fi : Nat) (hs : Sq m n) (hn : 21 ≤ n) :
    get2 (applyW m (qrWrites n fi)) (n - 8) 8 = 1 := by
  rw [get2_applyW _ n _ _ _ hs, qrWrites_explicit]
  evalW_steps

def microWrites (fi : Nat) : List W := (List.range 8).flatMap (microStep fi)

theorem microWrites_explicit (fi : Nat) : microWrites fi =
  [(1, 8, (fi >>> 0) % 2), (8, 1, (fi >>> 14) % 2), (2, 8, (fi >>> 1) % 2), (8, 2, (fi >>> 13) % 2),
   (3, 8, (fi >>> 2) % 2), (8, 3, (fi >>> 12) % 2), (4, 8, (fi >>> 3) % 2), (8, 4, (fi >>> 11) % 2),
   (5, 8, (fi >>> 4) % 2), (8, 5, (fi >>> 10) % 2), (6, 8, (fi >>> 5) % 2), (8, 6, (fi >>> 9) % 2),
   (7, 8, (fi >>> 6) % 2), (8, 7, (fi >>> 8) % 2), (8, 8, (fi >>> 7) % 2), (8, 8, (fi >>> 7) % 2)] := by
  simp only [microWrites, range8, microStep, List.flatMap_cons, List.flatMap_nil, List.cons_append, List.nil_append]

theorem micro_copy (m : Matrix) (n fi k : Nat) (hs : Sq m n) (hn : 11 ≤ n) (hk : k < 15) :
    get2 (applyW m (microWrites fi)) (Spec.fmtPosMicro k).1 (Spec.fmtPosMicro k).2 = (fi >>> k) % 2 := by
  rw [get2_applyW _ n _ _ _ hs, microWrites_explicit]
  rcases lt15_cases k hk with rfl | rfl | rfl | rfl | rfl | rfl | rfl | rfl | rfl | rfl | rfl | rfl | rfl | rfl | rfl <;>
    simp only [Spec.fmtPosMicro, Nat.reduceLT, Nat.reduceAdd, Nat.reduceSub, if_true, if_false] <;>
    evalW_steps

theorem size_qr (v : Int) (h1 : 1 ≤ v) (h2 : v ≤ 40) : 21 ≤ Spec.size v ∧ ((Spec.size v : Nat) : Int) = 17 + 4 * v := by
  unfold Spec.size; simp only [show v > 0 by omega, if_true]; omega

theorem size_micro (v : Int) (h1 : -3 ≤ v) (h2 : v < 1) : 11 ≤ Spec.size v ∧ ((Spec.size v : Nat) : Int) = 17 + 2 * v := by
  unfold Spec.size; simp only [show ¬ v > 0 by omega, if_false]; omega

theorem format_written_qr (m m' : Model.Matrix) (v : Int) (e mask : Nat) (hv1 : 1 ≤ v) (hv2 : v ≤ 40)
    (he : e < 4) (hm : mask < 8) (hs : Sq m (Spec.size v))
    (h : Model.addFormatInfo m v (some e) mask = .ok m') :
    (∀ k, k < 15 → Spec.cell m' (Spec.fmtPos1 k).1 (Spec.fmtPos1 k).2 = (Spec.formatWordQR e mask >>> k) % 2)
    ∧ (∀ k, k < 15 → Spec.cell m' (Spec.fmtPos2 (Spec.size v) k).1 (Spec.fmtPos2 (Spec.size v) k).2
          = (Spec.formatWordQR e mask >>> k) % 2)
    ∧ Spec.cell m' (Spec.size v - 8) 8 = 1 := by
  rw [addFormatInfo_qr_eq m v _ mask _ hv1 (calcFormatInfo_qr v e mask hv1 he hm), hs.1] at h
  injection h with h
  subst h
  have hn := (size_qr v hv1 hv2).1
  exact ⟨fun k hk => qr_copy1 m _ _ k hs hn hk, fun k hk => qr_copy2 m _ _ k hs hn hk, qr_dark m _ _ hs hn⟩

theorem format_written_micro (m m' : Model.Matrix) (v : Int) (lvl : Option Nat) (mask s : Nat)
    (hv1 : -3 ≤ v) (hv2 : v < 1) (hm : mask < 4) (hs : Sq m (Spec.size v))
    (hsym : Spec.microSymbolNumber v (Model.lvlKey lvl) = some s)
    (h : Model.addFormatInfo m v lvl mask = .ok m') :
    ∀ k, k < 15 → Spec.cell m' (Spec.fmtPosMicro k).1 (Spec.fmtPosMicro k).2 = (Spec.formatWordMicro s mask >>> k) % 2 := by
  rw [addFormatInfo_micro_eq m v _ mask _ hv2 (calcFormatInfo_micro v lvl mask s hv2 hm hsym)] at h
  injection h with h
  subst h
  exact fun k hk => micro_copy m _ _ k hs (size_micro v hv1 hv2).1 hk

/-! ### add_version_info -/

theorem version_info_noop (m : Model.Matrix) (v : Int) (h : v < 7) : Model.addVersionInfo m v = .ok m := by
  unfold addVersionInfo; simp only [h, if_true]; rfl

def verStep (n vi i : Nat) : List W :=
  [(n - 11, i, (vi >>> (i * 3)) % 2), (n - 10, i, (vi >>> (i * 3 + 1)) % 2), (n - 9, i, (vi >>> (i * 3 + 2)) % 2),
   (i, n - 11, (vi >>> (i * 3)) % 2), (i, n - 10, (vi >>> (i * 3 + 1)) % 2), (i, n - 9, (vi >>> (i * 3 + 2)) % 2)]

def verWrites (n vi : Nat) : List W := (List.range 6).flatMap (verStep n vi)

theorem addVersionInfo_eq (m : Matrix) (v : Int) (h1 : 7 ≤ v) (h2 : v ≤ 40) :
    addVersionInfo m v = .ok (applyW m (verWrites m.size (Spec.golay18 v.toNat))) := by
  have hv : ¬ v < 7 := by omega
  have e : (v - 7).toNat + 7 = v.toNat := by omega
  unfold addVersionInfo verWrites
  simp only [hv, if_false, version_info_get (v - 7).toNat (by omega), e, pure, Except.pure]
  rw [← foldl_applyW (verStep m.size _)]
  simp only [applyW, verStep, List.foldl_cons, List.foldl_nil]

theorem range6 : List.range 6 = [0, 1, 2, 3, 4, 5] := by decide

theorem verWrites_explicit (n vi : Nat) : verWrites n vi =
  [(n - 11, 0, (vi >>> 0) % 2), (n - 10, 0, (vi >>> 1) % 2), (n - 9, 0, (vi >>> 2) % 2),
   (0, n - 11, (vi >>> 0) % 2), (0, n - 10, (vi >>> 1) % 2), (0, n - 9, (vi >>> 2) % 2),
   (n - 11, 1, (vi >>> 3) % 2), (n - 10, 1, (vi >>> 4) % 2), (n - 9, 1, (vi >>> 5) % 2),
   (1, n - 11, (vi >>> 3) % 2), (1, n - 10, (vi >>> 4) % 2), (1, n - 9, (vi >>> 5) % 2),
   (n - 11, 2, (vi >>> 6) % 2), (n - 10, 2, (vi >>> 7) % 2), (n - 9, 2, (vi >>> 8) % 2),
   (2, n - 11, (vi >>> 6) % 2), (2, n - 10, (vi >>> 7) % 2), (2, n - 9, (vi >>> 8) % 2),
   (n - 11, 3, (vi >>> 9) % 2), (n - 10, 3, (vi >>> 10) % 2), (n - 9, 3, (vi >>> 11) % 2),
   (3, n - 11, (vi >>> 9) % 2), (3, n - 10, (vi >>> 10) % 2), (3, n - 9, (vi >>> 11) % 2),
   (n - 11, 4, (vi >>> 12) % 2), (n - 10, 4, (vi >>> 13) % 2), (n - 9, 4, (vi >>> 14) % 2),
   (4, n - 11, (vi >>> 12) % 2), (4, n - 10, (vi >>> 13) % 2), (4, n - 9, (vi >>> 14) % 2),
   (n - 11, 5, (vi >>> 15) % 2), (n - 10, 5, (vi >>> 16) % 2), (n - 9, 5, (vi >>> 17) % 2),
   (5, n - 11, (vi >>> 15) % 2), (5, n - 10, (vi >>> 16) % 2), (5, n - 9, (vi >>> 17) % 2)] := by
  simp only [verWrites, range6, verStep, List.flatMap_cons, List.flatMap_nil, List.cons_append, List.nil_append]

theorem lt18_cases (k : Nat) (h : k < 18) : k = 0 ∨ k = 1 ∨ k = 2 ∨ k = 3 ∨ k = 4 ∨ k = 5 ∨ k = 6 ∨ k = 7 ∨
    k = 8 ∨ k = 9 ∨ k = 10 ∨ k = 11 ∨ k = 12 ∨ k = 13 ∨ k = 14 ∨ k = 15 ∨ k = 16 ∨ k = 17 := by omega

theorem ver_copy1 (m : Matrix) (n vi k : Nat) (hs : Sq m n) (hn : 45 ≤ n) (hk : k < 18) :
    get2 (applyW m (verWrites n vi)) (Spec.verPos1 n k).1 (Spec.verPos1 n k).2 = (vi >>> k) % 2 := by
  rw [get2_applyW _ n _ _ _ hs, verWrites_explicit]
  rcases lt18_cases k hk with rfl | rfl | rfl | rfl | rfl | rfl | rfl | rfl | rfl | rfl | rfl | rfl | rfl | rfl | rfl
     | rfl | rfl | rfl <;>
    simp only [Spec.verPos1, Nat.reduceDiv, Nat.reduceMod] <;>
    evalW_steps

theorem ver_copy2 (m : Matrix) (n vi k : Nat) (hs : Sq m n) (hn : 45 ≤ n) (hk : k < 18) :
    get2 (applyW m (verWrites n vi)) (Spec.verPos2 n k).1 (Spec.verPos2 n k).2 = (vi >>> k) % 2 := by
  rw [get2_applyW _ n _ _ _ hs, verWrites_explicit]
  rcases lt18_cases k hk with rfl | rfl | rfl | rfl | rfl | rfl | rfl | rfl | rfl | rfl | rfl | rfl | rfl | rfl | rfl
     | rfl | rfl | rfl <;>
    simp only [Spec.verPos2, Nat.reduceDiv, Nat.reduceMod] <;>
    evalW_steps

theorem version_written (m m' : Model.Matrix) (v : Int) (hv1 : 7 ≤ v) (hv2 : v ≤ 40) (hs : Sq m (Spec.size v))
    (h : Model.addVersionInfo m v = .ok m') :
    (∀ k, k < 18 → Spec.cell m' (Spec.verPos1 (Spec.size v) k).1 (Spec.verPos1 (Spec.size v) k).2 = (Spec.golay18 v.toNat >>> k) % 2)
    ∧ (∀ k, k < 18 → Spec.cell m' (Spec.verPos2 (Spec.size v) k).1 (Spec.verPos2 (Spec.size v) k).2 = (Spec.golay18 v.toNat >>> k) % 2) := by
  rw [addVersionInfo_eq m v hv1 hv2, hs.1] at h
  injection h with h
  subst h
  have hn : 45 ≤ Spec.size v := by have := (size_qr v (by omega) hv2).2; omega
  exact ⟨fun k hk => ver_copy1 m _ _ k hs hn hk, fun k hk => ver_copy2 m _ _ k hs hn hk⟩

/-! ### add_format_info writes only format cells / the dark module -/

theorem kind_qr_format (v : Int) (i j : Nat) (h1 : 1 ≤ v) (h2 : v ≤ 40)
    (hp : (i = 8 ∧ (j ≤ 8 ∨ j + 8 ≥ Spec.size v) ∨ j = 8 ∧ (i ≤ 8 ∨ i + 8 ≥ Spec.size v)) ∧ i ≠ 6 ∧ j ≠ 6
          ∧ i < Spec.size v ∧ j < Spec.size v) :
    Spec.kind v i j = .format ∨ Spec.kind v i j = .darkmodule := by
  have hn : 21 ≤ Spec.size v := by
    unfold Spec.size; simp only [show v > 0 by omega, if_true]; omega
  unfold Spec.kind Spec.isMicro
  generalize Spec.size v = n at *
  simp only [show decide (v < 1) = false by simp; omega, Bool.false_eq_true, if_false,
    Bool.or_eq_true, Bool.and_eq_true, decide_eq_true_eq, beq_iff_eq]
  rw [if_neg (by omega), if_neg (by omega)]
  by_cases hd : i + 8 = n ∧ j = 8
  · rw [if_pos hd]; exact Or.inr rfl
  · rw [if_neg hd, if_pos (by omega), if_neg (by omega)]; exact Or.inl rfl

theorem kind_micro_format (v : Int) (i j : Nat) (h2 : v < 1)
    (hp : i = 8 ∧ 1 ≤ j ∧ j ≤ 8 ∨ j = 8 ∧ 1 ≤ i ∧ i ≤ 8) :
    Spec.kind v i j = .format := by
  unfold Spec.kind Spec.isMicro
  simp only [show decide (v < 1) = true by simp; omega, if_true,
    Bool.or_eq_true, Bool.and_eq_true, decide_eq_true_eq, beq_iff_eq]
  rw [if_neg (by omega), if_neg (by omega), if_neg (by omega), if_pos (by omega)]

theorem addFormatInfo_error (m : Matrix) (v : Int) (error : Option Nat) (mask : Nat) (e : PyErr)
    (hc : calcFormatInfo v error mask = .error e) : addFormatInfo m v error mask = .error e := by
  unfold addFormatInfo
  simp only [hc, bind, Except.bind]

theorem evalW_oob (n a b : Nat) (ws : List W) (d : Nat) (h : ¬ (a < n ∧ b < n)) : evalW n a b ws d = d := by
  induction ws generalizing d with
  | nil => rfl
  | cons w ws ih =>
    rw [evalW, if_neg, ih]
    intro ⟨_, _, h3, h4⟩; exact h ⟨h3, h4⟩

theorem qr_untouched (m : Matrix) (n fi i j : Nat) (hs : Sq m n) (hn : 21 ≤ n)
    (hp : ¬ ((i = 8 ∧ (j ≤ 8 ∨ j + 8 ≥ n) ∨ j = 8 ∧ (i ≤ 8 ∨ i + 8 ≥ n)) ∧ i ≠ 6 ∧ j ≠ 6 ∧ i < n ∧ j < n)) :
    get2 (applyW m (qrWrites n fi)) i j = get2 m i j := by
  rw [get2_applyW _ n _ _ _ hs, qrWrites_explicit]
  by_cases hb : i < n ∧ j < n
  · evalW_steps
  · exact evalW_oob _ _ _ _ _ hb

theorem micro_untouched (m : Matrix) (n fi i j : Nat) (hs : Sq m n)
    (hp : ¬ (i = 8 ∧ 1 ≤ j ∧ j ≤ 8 ∨ j = 8 ∧ 1 ≤ i ∧ i ≤ 8)) :
    get2 (applyW m (microWrites fi)) i j = get2 m i j := by
  rw [get2_applyW _ n _ _ _ hs, microWrites_explicit]
  evalW_steps

theorem format_info_touches_only_format_cells (m m' : Model.Matrix) (v : Int) (lvl : Option Nat) (mask i j : Nat)
    (hv1 : -3 ≤ v) (hv2 : v ≤ 40) (hs : Sq m (Spec.size v))
    (h : Model.addFormatInfo m v lvl mask = .ok m')
    (hk : Spec.kind v i j ≠ .format ∧ Spec.kind v i j ≠ .darkmodule) :
    Spec.cell m' i j = Spec.cell m i j := by
  cases hc : calcFormatInfo v lvl mask with
  | error e => rw [addFormatInfo_error m v lvl mask e hc] at h; cases h
  | ok fi =>
    by_cases hv : v < 1
    · have h' := (addFormatInfo_micro_eq m v _ mask _ hv hc).symm.trans h
      have h'' := Except.ok.inj h'
      subst h''
      exact micro_untouched m _ fi i j hs (fun hp => hk.1 (kind_micro_format v i j hv hp))
    · have hv' : 1 ≤ v := by omega
      have h' := (addFormatInfo_qr_eq m v _ mask _ hv' hc).symm.trans h
      rw [hs.1] at h'
      have h'' := Except.ok.inj h'
      subst h''
      refine qr_untouched m _ fi i j hs (size_qr v hv' hv2).1 (fun hp => ?_)
      cases kind_qr_format v i j hv' hv2 hp with
      | inl h => exact hk.1 h
      | inr h => exact hk.2 h


/-! ### the function matrix as a list of writes -/

theorem foldl_set2 {α : Type} (f g h : α → Nat) (l : List α) (m : Matrix) :
    l.foldl (fun m c => set2 m (f c) (g c) (h c)) m = applyW m (l.map (fun c => (f c, g c, h c))) := by
  induction l generalizing m with
  | nil => rfl
  | cons x l ih => simp only [List.foldl_cons, List.map_cons, applyW] at ih ⊢; rw [ih]

/-- the writes of `make_matrix` -/
def mmW (n : Nat) : List W :=
  (if n > 41 then (List.range 6).flatMap (fun i =>
      [(i, n - 11, 0), (i, n - 10, 0), (i, n - 9, 0), (n - 11, i, 0), (n - 10, i, 0), (n - 9, i, 0)]) else [])
  ++ (if n < 21 then
        (List.range 9).flatMap (fun i => [(i, 8, 0), (8, i, 0)])
        ++ (List.range (n - 8)).flatMap (fun k => [(8 + k, 0, (k + 1) % 2), (0, 8 + k, (k + 1) % 2)])
      else
        (List.range 9).flatMap (fun i => [(i, 8, 0), (8, i, 0), ((if i == 0 then 0 else n - i), 8, 0),
                                           (8, (if i == 0 then 0 else n - i), 0)])
        ++ (List.range (n - 8 - 8)).flatMap (fun k => [(8 + k, 6, (k + 1) % 2), (6, 8 + k, (k + 1) % 2)]))

theorem makeMatrix_eq (n : Nat) :
    makeMatrix n = applyW (Array.replicate n (Array.replicate n 2)) (mmW n) := by
  unfold makeMatrix mmW
  rw [applyW_append]
  have h1 : (if n > 41 then
      (List.range 6).foldl (fun m i =>
        let m := set2 (set2 (set2 m i (n - 11) 0) i (n - 10) 0) i (n - 9) 0
        set2 (set2 (set2 m (n - 11) i 0) (n - 10) i 0) (n - 9) i 0) (Array.replicate n (Array.replicate n 2))
    else Array.replicate n (Array.replicate n 2)) =
    applyW (Array.replicate n (Array.replicate n 2)) (if n > 41 then (List.range 6).flatMap (fun i =>
      [(i, n - 11, 0), (i, n - 10, 0), (i, n - 9, 0), (n - 11, i, 0), (n - 10, i, 0), (n - 9, i, 0)]) else []) := by
    split
    · rw [← foldl_applyW]; simp only [applyW, List.foldl_cons, List.foldl_nil]
    · rfl
  simp only [h1]
  generalize applyW (Array.replicate n (Array.replicate n 2)) _ = m1
  by_cases hm : n < 21
  · simp only [hm, decide_true, Bool.not_true, Bool.false_eq_true, if_false, if_true]
    rw [applyW_append, ← foldl_applyW, ← foldl_applyW]
    simp only [applyW, List.foldl_cons, List.foldl_nil]
  · simp only [hm, decide_false, Bool.not_false, if_false, if_true]
    rw [applyW_append, ← foldl_applyW, ← foldl_applyW]
    simp only [applyW, List.foldl_cons, List.foldl_nil]

def finderBlock (i j off sep : Nat) : List W :=
  (List.range 8).flatMap (fun r => (List.range 8).map (fun c =>
    (i + r, j + c, (Gen.FINDER_PATTERN.getD (off + r) []).getD (sep + c) 0)))

/-- the writes of `add_finder_patterns` -/
def finderW (n : Nat) : List W :=
  if n < 21 then finderBlock 0 0 1 1
  else finderBlock 0 0 1 1 ++ finderBlock 0 (n - 8) 1 0 ++ finderBlock (n - 8) 0 0 1

theorem finderBlock_eq (m : Matrix) (i j off sep : Nat) :
    (List.range 8).foldl (fun m r =>
      (List.range 8).foldl (fun m c =>
        set2 m (i + r) (j + c) ((Gen.FINDER_PATTERN.getD (off + r) []).getD (sep + c) 0)) m) m
    = applyW m (finderBlock i j off sep) := by
  unfold finderBlock
  rw [← foldl_applyW]
  simp only [foldl_set2]

theorem addFinderPatterns_eq (m : Matrix) (n : Nat) : addFinderPatterns m n = applyW m (finderW n) := by
  unfold addFinderPatterns finderW
  by_cases hm : n < 21
  · simp only [hm, if_true, List.foldl_cons, List.foldl_nil, finderBlock_eq]
  · simp only [hm, if_false, List.foldl_cons, List.foldl_nil, finderBlock_eq, applyW_append]

def alignBlock (x y : Nat) : List W :=
  (List.range 5).flatMap (fun r => (List.range 5).map (fun c =>
    (x - 2 + r, y - 2 + c, alignmentPattern.getD (r * 5 + c) 0)))

theorem alignBlock_eq (m : Matrix) (x y : Nat) :
    (List.range 5).foldl (fun m r =>
      (List.range 5).foldl (fun m c =>
        set2 m (x - 2 + r) (y - 2 + c) (alignmentPattern.getD (r * 5 + c) 0)) m) m
    = applyW m (alignBlock x y) := by
  unfold alignBlock
  rw [← foldl_applyW]
  simp only [foldl_set2]

theorem applyW_ite (m : Matrix) (c : Prop) [Decidable c] (l : List W) :
    applyW m (if c then [] else l) = if c then m else applyW m l := by
  split <;> rfl

/-- the writes of `add_alignment_patterns` -/
def alignW (n : Nat) : R (List W) :=
  let version : Int := Int.fdiv ((n : Int) - 17) 4
  if version < 2 then .ok [] else
  match Gen.ALIGNMENT_POS[(version - 2).toNat]? with
  | none => .error PyErr.indexError
  | some positions =>
    match positions.head? with
    | none => .error PyErr.indexError
    | some minPos =>
      match positions.getLast? with
      | none => .error PyErr.indexError
      | some maxPos =>
        .ok (((positions.map (fun x => positions.map (fun y => (x, y)))).flatten).flatMap (fun (p : Nat × Nat) =>
          if p == (minPos, minPos) || p == (minPos, maxPos) || p == (maxPos, minPos) then []
          else alignBlock p.1 p.2))

theorem addAlignmentPatterns_eq (m : Matrix) (n : Nat) :
    addAlignmentPatterns m n = (alignW n).map (applyW m) := by
  unfold addAlignmentPatterns alignW
  simp only []
  split
  · rfl
  · cases h1 : Gen.ALIGNMENT_POS[(Int.fdiv ((n : Int) - 17) 4 - 2).toNat]? with
    | none => rfl
    | some positions =>
      cases h2 : positions.head? with
      | none => simp only [h2]; rfl
      | some minPos =>
        cases h3 : positions.getLast? with
        | none => simp only [h2, h3]; rfl
        | some maxPos =>
          simp only [h2, h3, Except.map, pure, Except.pure]
          rw [← foldl_applyW]
          simp only [alignBlock_eq, applyW_ite]

/-- all writes of the function matrix, in order -/
def fmW (n : Nat) : R (List W) :=
  (alignW n).map (fun aw => mmW n ++ finderW n ++ aw ++ (if n < 21 then [] else [(n - 8, 8, 1)]))

theorem functionMatrix_eq (n : Nat) :
    functionMatrix n = (fmW n).map (applyW (Array.replicate n (Array.replicate n 2))) := by
  unfold functionMatrix fmW
  rw [addAlignmentPatterns_eq, addFinderPatterns_eq, makeMatrix_eq]
  cases alignW n with
  | error e => rfl
  | ok aw =>
    simp only [Except.map, bind, Except.bind, pure, Except.pure, applyW_append]
    split
    · rfl
    · rfl

theorem Sq_replicate (n : Nat) : Sq (Array.replicate n (Array.replicate n 2)) n := by
  refine ⟨Array.size_replicate, fun i hi => ?_⟩
  rw [Array.getD_eq_getD_getElem?, Array.getElem?_replicate]
  simp [hi]

theorem get2_replicate (n i j : Nat) (hi : i < n) (hj : j < n) :
    get2 (Array.replicate n (Array.replicate n 2)) i j = 2 := by
  unfold get2
  simp [Array.getD_eq_getD_getElem?, hi, hj]

/-! ### bit-packed evaluation of write lists (cheap in the kernel) -/

def setBit (A k : Nat) (b : Bool) : Nat := if b then A ||| 2 ^ k else A ^^^ (A &&& 2 ^ k)

theorem testBit_setBit (A k k' : Nat) (b : Bool) :
    (setBit A k b).testBit k' = if k' = k then b else A.testBit k' := by
  unfold setBit
  cases b
  · simp only [Bool.false_eq_true, if_false, Nat.testBit_xor, Nat.testBit_and, Nat.testBit_two_pow]
    by_cases h : k' = k
    · subst h; simp
    · have : ¬ k = k' := fun e => h e.symm
      simp [h, this]
  · simp only [if_true, Nat.testBit_or, Nat.testBit_two_pow]
    by_cases h : k' = k
    · subst h; simp
    · have : ¬ k = k' := fun e => h e.symm
      simp [h, this]

theorem idx_inj (n a b i j : Nat) (hb : b < n) (hj : j < n) : a * n + b = i * n + j ↔ a = i ∧ b = j := by
  constructor
  · intro h
    have h1 : (a * n + b) / n = (i * n + j) / n := by rw [h]
    have h2 : (a * n + b) % n = (i * n + j) % n := by rw [h]
    have hn : 0 < n := by omega
    rw [Nat.mul_comm a n, Nat.mul_comm i n, Nat.mul_add_div hn, Nat.mul_add_div hn,
      Nat.div_eq_of_lt hb, Nat.div_eq_of_lt hj] at h1
    rw [Nat.mul_comm a n, Nat.mul_comm i n, Nat.mul_add_mod, Nat.mul_add_mod,
      Nat.mod_eq_of_lt hb, Nat.mod_eq_of_lt hj] at h2
    omega
  · rintro ⟨rfl, rfl⟩; rfl

def decode (n : Nat) (S : Nat × Nat) (i j : Nat) : Nat :=
  (S.1.testBit (i * n + j)).toNat + 2 * (S.2.testBit (i * n + j)).toNat

def packStep (n : Nat) (S : Nat × Nat) (w : W) : Nat × Nat :=
  if w.1 < n ∧ w.2.1 < n then
    (setBit S.1 (w.1 * n + w.2.1) (w.2.2 % 2 == 1), setBit S.2 (w.1 * n + w.2.1) (w.2.2 / 2 == 1))
  else S

def pack (n : Nat) (ws : List W) (S : Nat × Nat) : Nat × Nat := ws.foldl (packStep n) S

theorem decode_packStep (n : Nat) (S : Nat × Nat) (w : W) (i j : Nat) (hi : i < n) (hj : j < n) (hx : w.2.2 < 4) :
    decode n (packStep n S w) i j
      = if w.1 = i ∧ w.2.1 = j ∧ i < n ∧ j < n then w.2.2 else decode n S i j := by
  unfold packStep
  by_cases hb : w.1 < n ∧ w.2.1 < n
  · rw [if_pos hb]
    unfold decode
    simp only [testBit_setBit]
    by_cases hc : w.1 = i ∧ w.2.1 = j
    · have : i * n + j = w.1 * n + w.2.1 := ((idx_inj n w.1 w.2.1 i j hb.2 hj).2 hc).symm
      rw [if_pos this, if_pos this, if_pos ⟨hc.1, hc.2, hi, hj⟩]
      have : w.2.2 = 0 ∨ w.2.2 = 1 ∨ w.2.2 = 2 ∨ w.2.2 = 3 := by omega
      rcases this with h | h | h | h <;> rw [h] <;> rfl
    · have : ¬ (i * n + j = w.1 * n + w.2.1) := fun e => hc ((idx_inj n w.1 w.2.1 i j hb.2 hj).1 e.symm)
      rw [if_neg this, if_neg this, if_neg (fun h => hc ⟨h.1, h.2.1⟩)]
  · rw [if_neg hb, if_neg]
    intro ⟨h1, h2, _, _⟩; exact hb ⟨h1 ▸ hi, h2 ▸ hj⟩

theorem decode_pack (n : Nat) (ws : List W) (S : Nat × Nat) (i j : Nat) (hi : i < n) (hj : j < n)
    (hx : ∀ w ∈ ws, w.2.2 < 4) :
    decode n (pack n ws S) i j = evalW n i j ws (decode n S i j) := by
  induction ws generalizing S with
  | nil => rfl
  | cons w ws ih =>
    simp only [pack, List.foldl_cons, evalW] at ih ⊢
    rw [ih _ (fun w' hw' => hx w' (List.mem_cons_of_mem _ hw')),
      decode_packStep n S w i j hi hj (hx w List.mem_cons_self)]

theorem decode_init (n i j : Nat) (hi : i < n) (hj : j < n) : decode n (0, 2 ^ (n * n) - 1) i j = 2 := by
  unfold decode
  have : i * n + j < n * n := by
    have : (i + 1) * n ≤ n * n := Nat.mul_le_mul_right n hi
    rw [Nat.add_mul] at this; omega
  simp [Nat.testBit_two_pow_sub_one, this]

/-! ### skeleton check through the packed evaluator -/

def cellOk (v : Int) (i j x : Nat) : Bool :=
  match Spec.kind v i j with
  | .data => x == 2
  | .format => x == 0
  | .version => x == 0
  | .darkmodule => x == 1
  | _ => some x == Spec.fixedValue v i j

def skeletonOkM (v : Int) : Bool :=
  let n := Spec.size v
  match functionMatrix n with
  | .error _ => false
  | .ok fm =>
    fm.size == n &&
    (List.range n).all (fun i => (List.range n).all (fun j => cellOk v i j (get2 fm i j)))

def skeletonOkP (v : Int) : Bool :=
  let n := Spec.size v
  match fmW n with
  | .error _ => false
  | .ok ws =>
    ws.all (fun w => w.2.2 < 4) &&
    (let S := pack n ws (0, 2 ^ (n * n) - 1)
     (List.range n).all (fun i => (List.range n).all (fun j => cellOk v i j (decode n S i j))))

theorem skeletonOkM_of_P (v : Int) (h : skeletonOkP v = true) : skeletonOkM v = true := by
  unfold skeletonOkP at h
  unfold skeletonOkM
  simp only [functionMatrix_eq] at *
  generalize Spec.size v = n at *
  cases hw : fmW n with
  | error e => rw [hw] at h; cases h
  | ok ws =>
    rw [hw] at h
    simp only [Except.map, Bool.and_eq_true, List.all_eq_true, List.mem_range, decide_eq_true_eq, beq_iff_eq] at h ⊢
    obtain ⟨hx, hc⟩ := h
    have hsq : Sq (applyW (Array.replicate n (Array.replicate n 2)) ws) n := (Sq_applyW _ _ _).2 (Sq_replicate n)
    refine ⟨hsq.1, fun i hi j hj => ?_⟩
    rw [get2_applyW _ n _ _ _ (Sq_replicate n), get2_replicate n i j hi hj,
      ← decode_init n i j hi hj, ← decode_pack n ws _ i j hi hj hx]
    exact hc i hi j hj


theorem all_skeletonOkM_of_P (l : List Int) (h : l.all skeletonOkP = true) : l.all skeletonOkM = true := by
  rw [List.all_eq_true] at h ⊢
  exact fun v hv => skeletonOkM_of_P v (h v hv)

end Proofs.Placement
