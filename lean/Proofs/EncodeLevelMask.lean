/-
  Proofs.EncodeLevelMask — helper lemmas for Props/EncodeLevel.lean, part 2: the automatic mask of the
  symbol `Model.encode` returns is the first optimum of the ISO evaluation, every candidate being
  rebuilt from the FINAL matrix (`Spec.candidate`).
-/
import Spec.Penalty
import Model.Encoder
import Props.C06
import Props.EndToEnd
import Proofs.EndToEnd

namespace Proofs.EncodeLevel
open Model Proofs.EndToEnd Proofs.Placement2
set_option linter.unusedVariables false
set_option linter.unusedSimpArgs false

/-! ### the chain of matrices of an accepted input (as in `encode_all`, without the ECI table hypothesis) -/

theorem encode_chain (parts : List Part) (error : Option Nat) (version : Option Int)
    (mode : Option Nat) (mask : Option Nat) (eci : Bool) (micro : Option Bool) (boost : Bool)
    (f : String → Option Nat) (c : Code)
    (hp : ∀ p ∈ parts, (∀ b ∈ p.data, b < 256) ∧ p.data ≠ [] ∧ p.mode ∈ [none, some 1, some 2, some 4, some 8, some 13])
    (h : encode parts error version mode mask eci micro boost f = .ok c) :
    -3 ≤ c.version ∧ c.version ≤ 40 ∧ ∃ final, Nonempty (Chain c.version c.error mask c.mask final c.matrix)
      ∧ (∀ b ∈ final, b ≤ 1) ∧ final.length = (Spec.dataCoords c.version).length := by
  obtain ⟨segs, hprep, ⟨st⟩, hev, h1, h2, need, cap, hneed, hcap, hle⟩ := encode_stages _ _ _ _ _ _ _ _ _ _ h
  have hwf := Proofs.Sizing.prepareData_wf parts segs (fun p hp' => (hp p hp').2.2) hprep
  have hcapeq : cap = st.cap := by
    have := st.hcap; rw [hcap] at this; exact Option.some.inj this
  subst hcapeq
  have hlen := written_length segs c.version eci f st.segBits h1 h2 hwf st.hw
  rw [hneed] at hlen
  have hneq : need = st.segBits.flatten.length := Option.some.inj hlen
  have hfit' : st.segBits.flatten.length ≤ st.cap := by omega
  obtain ⟨-, hcl⟩ := Props.C13.stream_layout_d1 c.version st.cap st.segBits.flatten st.stream h1 h2 ⟨c.error, hcap⟩ hfit' st.hstream
  obtain ⟨ecc, hecc⟩ := Proofs.Message.ecc_of_ok _ _ _ _ st.hfinal
  have hl1 := Props.C03.final_message_length c.version c.error st.cap st.stream st.final h1 h2 st.hcap hcl st.hfinal ecc hecc
  have hl2 := Props.C01.data_cell_count c.version (lvlKey c.error) ecc h1 h2 hecc
  have hlen : st.final.length = (Spec.dataCoords c.version).length := by
    generalize (if Spec.fourBitFinal c.version = true then 4 else 0) = z at hl1 hl2
    omega
  exact ⟨h1, h2, st.final,
    ⟨⟨st.m0, st.m1, st.m2, st.m3, by have := st.hm0; rwa [calc_size c.version h1 h2] at this, st.hm1, st.hm2, st.hm3, st.hm4⟩⟩,
    Bin_final c.version c.error st.stream st.final st.hfinal, hlen⟩

/-! ### matrices are determined by their cells -/

theorem matrix_ext (n : Nat) (a b : Matrix) (ha : Proofs.Placement2.Sq n a) (hb : Proofs.Placement2.Sq n b)
    (h : ∀ i j, i < n → j < n → get2 a i j = get2 b i j) : a = b := by
  apply Array.ext
  · rw [ha.1, hb.1]
  · intro i hi1 hi2
    have hin : i < n := by rw [← ha.1]; exact hi1
    have hra := ha.2 i hin
    have hrb := hb.2 i hin
    simp only [Array.getD_eq_getD_getElem?, Array.getElem?_eq_getElem hi1, Array.getElem?_eq_getElem hi2,
      Option.getD_some] at hra hrb
    apply Array.ext
    · rw [hra, hrb]
    · intro j hj1 hj2
      have hjn : j < n := by rw [← hra]; exact hj1
      have := h i j hin hjn
      unfold get2 at this
      simp only [Array.getD_eq_getD_getElem?, Array.getElem?_eq_getElem hi1, Array.getElem?_eq_getElem hi2,
        Option.getD_some, Array.getElem?_eq_getElem hj1, Array.getElem?_eq_getElem hj2] at this
      exact this

/-! ### `Spec.candidate` cell by cell -/

def candCell (v : Int) (k p i j x : Nat) : Nat :=
  match Spec.kind v i j with
  | .data => (x + Spec.maskBit v k i j + Spec.maskBit v p i j) % 2
  | .format => 0
  | .version => 0
  | .darkmodule => 0
  | _ => x

theorem candidate_eq (v : Int) (m : Matrix) (k p : Nat) :
    Spec.candidate v m k p = m.mapIdx (fun i row => row.mapIdx (fun j x => candCell v k p i j x)) := rfl

theorem size_candidate (v : Int) (m : Matrix) (k p : Nat) : (Spec.candidate v m k p).size = m.size := by
  simp [Spec.candidate]

theorem rowsize_candidate (v : Int) (m : Matrix) (k p i : Nat) :
    ((Spec.candidate v m k p).getD i #[]).size = (m.getD i #[]).size := by
  rw [candidate_eq]
  simp only [Array.getD_eq_getD_getElem?, Array.getElem?_mapIdx]
  by_cases hi : i < m.size <;> simp [hi]

theorem get2_candidate (v : Int) (m : Matrix) (k p i j : Nat) (hi : i < m.size) (hj : j < (m.getD i #[]).size) :
    get2 (Spec.candidate v m k p) i j = candCell v k p i j (get2 m i j) := by
  rw [candidate_eq]
  simp only [Array.getD_eq_getD_getElem?, Array.getElem?_eq_getElem hi, Option.getD_some] at hj
  simp only [get2, Array.getD_eq_getD_getElem?, Array.getElem?_mapIdx, Array.getElem?_eq_getElem hi,
    Option.map_some, Option.getD_some, Array.getElem?_eq_getElem hj]

/-! ### pattern numbering -/

theorem pattern_of (v : Int) (p : Nat) (hp : p < (maskPatterns (decide (v < 1))).length) :
    (maskPatterns (decide (v < 1))).getD p 0 = (if Spec.isMicro v then Spec.microMaskToQR p else p)
      ∧ (maskPatterns (decide (v < 1))).getD p 0 < 8 := by
  obtain ⟨o1, o2⟩ := Proofs.Mask.mask_order
  unfold maskPatterns Spec.isMicro at *
  by_cases hv : v < 1
  · simp only [hv, decide_true, if_true, o1] at hp ⊢
    simp only [List.length_cons, List.length_nil] at hp
    have : p = 0 ∨ p = 1 ∨ p = 2 ∨ p = 3 := by omega
    rcases this with rfl | rfl | rfl | rfl <;> decide
  · simp only [hv, decide_false, Bool.false_eq_true, if_false, o2] at hp ⊢
    simp only [List.length_cons, List.length_nil] at hp
    have : p = 0 ∨ p = 1 ∨ p = 2 ∨ p = 3 ∨ p = 4 ∨ p = 5 ∨ p = 6 ∨ p = 7 := by omega
    rcases this with rfl | rfl | rfl | rfl | rfl | rfl | rfl | rfl <;> decide

theorem maskFn_pattern (v : Int) (p i j : Nat) (hp : p < (maskPatterns (decide (v < 1))).length) :
    (if maskFn ((maskPatterns (decide (v < 1))).getD p 0) i j then 1 else 0) = Spec.maskBit v p i j := by
  obtain ⟨e1, e2⟩ := pattern_of v p hp
  unfold Spec.maskBit
  rw [Proofs.Mask.maskFn_eq_maskCond _ i j e2, e1]

theorem remask_bit (b x y : Nat) (hb : b ≤ 1) (hx : x ≤ 1) (hy : y ≤ 1) : ((b ^^^ x) + x + y) % 2 = b ^^^ y := by
  have hb' : b = 0 ∨ b = 1 := by omega
  have hx' : x = 0 ∨ x = 1 := by omega
  have hy' : y = 0 ∨ y = 1 := by omega
  rcases hb' with rfl | rfl <;> rcases hx' with rfl | rfl <;> rcases hy' with rfl | rfl <;> decide

theorem maskBit_le (v : Int) (p i j : Nat) : Spec.maskBit v p i j ≤ 1 := by
  unfold Spec.maskBit
  generalize Spec.maskCond _ i j = c
  cases c <;> simp

theorem list_eq_map_getD (l : List Nat) : l = (List.range l.length).map (fun p => l.getD p 0) := by
  apply List.ext_getElem
  · simp
  · intro i h1 h2
    simp [List.getD_eq_getElem?_getD, List.getElem?_eq_getElem h1]

/-! ### every candidate of the specification is the model's candidate -/

theorem candidate_is_model (v : Int) (e : Option Nat) (mk : Nat) (bits : List Nat) (m4 : Matrix)
    (ch : Chain v e none mk bits m4) (h1 : -3 ≤ v) (h2 : v ≤ 40) (hb : ∀ b ∈ bits, b ≤ 1)
    (hlen : bits.length = (Spec.dataCoords v).length) (fm : Matrix) (hfm : functionMatrix (Spec.size v) = .ok fm)
    (p : Nat) (hp : p < (maskPatterns (decide (v < 1))).length) :
    Spec.candidate v m4 mk p = applyMask ch.m1 fm ((maskPatterns (decide (v < 1))).getD p 0) := by
  obtain ⟨fm', hfm', hmk, hm2eq, P2, hsq2, hsq3, hsq4, hbin4, hk4, hc4⟩ := chain_basic v e none mk bits m4 ch h1 h2 hb hlen
  rw [hfm] at hfm'
  cases hfm'
  have P1 := placed_m1 v bits ch.m0 ch.m1 h1 h2 hb hlen ch.hm0 ch.hm1
  have PP := placed_mask v ch.m1 fm ((maskPatterns (decide (v < 1))).getD p 0) h1 h2 hfm P1
  have hsqc : Proofs.Placement2.Sq (Spec.size v) (Spec.candidate v m4 mk p) := by
    refine ⟨by rw [size_candidate]; exact hsq4.1, fun i hi => ?_⟩
    rw [rowsize_candidate]; exact hsq4.2 i hi
  apply matrix_ext (Spec.size v) _ _ hsqc PP.sq
  intro i j hi hj
  rw [get2_candidate v m4 mk p i j (by rw [hsq4.1]; exact hi) (by rw [hsq4.2 i hi]; exact hj)]
  -- what the final matrix holds outside format / version / dark-module cells
  have hm4 : Spec.kind v i j ≠ .format → Spec.kind v i j ≠ .version → Spec.kind v i j ≠ .darkmodule →
      get2 m4 i j = get2 ch.m2 i j := by
    intro n1 n2 n3
    rw [hk4 i j n2]
    exact Props.C02.format_info_touches_only_format_cells ch.m2 ch.m3 v e mk i j h1 h2 hsq2 ch.hm3 ⟨n1, n3⟩
  cases hd : Spec.isData v i j with
  | true =>
    have hk : Spec.kind v i j = .data := by
      unfold Spec.isData at hd
      exact eq_of_beq hd
    have hfmc : get2 fm i j > 1 := by
      rw [fm_cells v fm h1 h2 hfm i j hi hj]
      have := (skelCell_eq_two_iff 1 (by decide) v i j).2 hd
      omega
    have hin : i < ch.m1.size ∧ j < (ch.m1.getD i #[]).size := by
      rw [P1.sq.1, P1.sq.2 i hi]; exact ⟨hi, hj⟩
    rw [hm4 (by rw [hk]; decide) (by rw [hk]; decide) (by rw [hk]; decide), hm2eq,
      Proofs.Mask.get2_applyMask, if_pos hin, if_pos hfmc,
      Proofs.Mask.get2_applyMask, if_pos hin, if_pos hfmc,
      maskFn_pattern v mk i j hmk, maskFn_pattern v p i j hp]
    unfold candCell
    simp only [hk]
    exact remask_bit _ _ _ (P1.data i j hi hj hd) (maskBit_le _ _ _ _) (maskBit_le _ _ _ _)
  | false =>
    rw [PP.other i j hi hj hd]
    unfold candCell
    cases hk : Spec.kind v i j
    case data =>
      unfold Spec.isData at hd
      rw [hk] at hd
      cases hd
    case format => simp only [skelCell, hk]
    case version => simp only [skelCell, hk]
    case darkmodule => simp only [skelCell, hk]
    all_goals
      simp only
      rw [hm4 (by rw [hk]; decide) (by rw [hk]; decide) (by rw [hk]; decide)]
      exact P2.other i j hi hj hd

/-! ### the automatic mask -/

theorem bestMask_snd (v : Int) (m : Matrix) (k : Nat) :
    (Spec.bestMask v m k).2 = (List.range (if Spec.isMicro v then 4 else 8)).map (fun p =>
      if Spec.isMicro v then Spec.scoreMicro (Spec.candidate v m k p) else Spec.penaltyQR (Spec.candidate v m k p)) := rfl

theorem bestMask_fst (v : Int) (m : Matrix) (k : Nat) :
    (Spec.bestMask v m k).1 = (Spec.bestMask v m k).2.idxOf
      (if Spec.isMicro v then (Spec.bestMask v m k).2.foldl max 0
       else (Spec.bestMask v m k).2.foldl min ((Spec.bestMask v m k).2.headD 0)) := rfl

theorem auto_mask_chain (v : Int) (e : Option Nat) (mk : Nat) (bits : List Nat) (m4 : Matrix)
    (ch : Chain v e none mk bits m4) (h1 : -3 ≤ v) (h2 : v ≤ 40) (hb : ∀ b ∈ bits, b ≤ 1)
    (hlen : bits.length = (Spec.dataCoords v).length) :
    (Spec.bestMask v m4 mk).1 = mk := by
  have P1 := placed_m1 v bits ch.m0 ch.m1 h1 h2 hb hlen ch.hm0 ch.hm1
  obtain ⟨fm, hfm⟩ := functionMatrix_ok _ _ ch.hm0
  have hsz1 : ch.m1.size = Spec.size v := P1.sq.1
  obtain ⟨-, hk, -⟩ := Proofs.Mask.auto_first_best ch.m1 fm mk ch.m2 (by rw [hsz1]; exact hfm) ch.hm2
  rw [hsz1, size_lt21_iff v h1 h2] at hk
  -- the model's scores are the specification's
  have hscores : ((maskPatterns (decide (v < 1))).map (fun pat => applyMask ch.m1 fm pat)).map
        (fun c => if decide (v < 1) = true then evaluateMicroMask c else evaluateMask c)
      = (Spec.bestMask v m4 mk).2 := by
    rw [bestMask_snd, List.map_map]
    conv => lhs; rw [list_eq_map_getD (maskPatterns (decide (v < 1)))]
    rw [List.map_map, maskPatterns_length v]
    have hN : (if Spec.isMicro v = true then 4 else 8) = (if v < 1 then 4 else 8) := by
      unfold Spec.isMicro
      by_cases hv : v < 1 <;> simp [hv]
    rw [hN]
    apply List.map_congr_left
    intro p hpm
    have hp : p < (maskPatterns (decide (v < 1))).length := by
      rw [maskPatterns_length v]; exact List.mem_range.1 hpm
    simp only [Function.comp]
    rw [candidate_is_model v e mk bits m4 ch h1 h2 hb hlen fm hfm p hp]
    have PP := placed_mask v ch.m1 fm ((maskPatterns (decide (v < 1))).getD p 0) h1 h2 hfm P1
    have hsq : ∀ i, i < (applyMask ch.m1 fm ((maskPatterns (decide (v < 1))).getD p 0)).size →
        ((applyMask ch.m1 fm ((maskPatterns (decide (v < 1))).getD p 0)).getD i #[]).size
          = (applyMask ch.m1 fm ((maskPatterns (decide (v < 1))).getD p 0)).size := by
      intro i hi
      rw [PP.sq.1] at hi ⊢
      exact PP.sq.2 i hi
    rw [Proofs.Mask.score_eq _ hsq, Proofs.Mask.micro_score]
    rfl
  rw [hscores] at hk
  rw [bestMask_fst]
  exact hk.symm

theorem encode_auto_mask (parts : List Part) (error : Option Nat) (version : Option Int)
    (mode : Option Nat) (eci : Bool) (micro : Option Bool) (boost : Bool) (f : String → Option Nat) (c : Code)
    (hp : Props.EndToEnd.PartsOk parts)
    (h : encode parts error version mode none eci micro boost f = .ok c) :
    (Spec.bestMask c.version c.matrix c.mask).1 = c.mask := by
  obtain ⟨h1, h2, final, ⟨ch⟩, hb, hlen⟩ := encode_chain _ _ _ _ _ _ _ _ _ _ hp.2 h
  exact auto_mask_chain _ _ _ _ _ ch h1 h2 hb hlen

end Proofs.EncodeLevel
