/-
  Proofs.C14SerKinds — kind by kind: the typed document model a documented serialiser call amounts to (`serRead`) ends in a
  document or ValueError, and in ValueError exactly when the request is `Malformed`.  Assembles Proofs/C14SerRaster.lean,
  C14SerPng.lean, C14SerVec.lean (typed outcomes), C14SerRead.lean (typing of the values read) and C14SerGlue.lean.
  Helper lemmas for Props/C14Serializers.lean.
-/
import Proofs.C14SerRead
import Proofs.C14SerGlue
import Proofs.C14SerRaster
import Proofs.C14SerPng
import Proofs.C14SerVec

namespace Proofs.C14Ser
open Gen (PyV)
open Model Model.Cli Model.Routes Model.RoutesDocs Model.RoutesVec Model.RasterDocs Proofs.Png

/-- the PNG file as a serialiser output; `alt` = what happens when a value does not fit a 32-bit field (`struct.error`) -/
def pngOut (alt : R SerOut) : R (Option (List Nat)) → R SerOut
  | .error e => .error e
  | .ok (some bs) => .ok (.bytes bs)
  | .ok none => alt

theorem outcome_of_cases {α : Type} (r : R α) (P : Prop) (h1 : P → r = .error .valueError) (h2 : ¬ P → ∃ d, r = .ok d) :
    Clean r ∧ (r = .error .valueError ↔ P) := by
  by_cases hP : P
  · exact ⟨Or.inr (h1 hP), fun _ => hP, h1⟩
  · obtain ⟨d, hd⟩ := h2 hP
    refine ⟨Or.inl ⟨d, hd⟩, fun h => ?_, fun h => absurd h hP⟩
    rw [hd] at h; cases h

/-- what every kind is shown to satisfy -/
def Outcome (M : List (List Nat)) (w h : Nat) (key : String) (kw : Config) (r : R SerOut) : Prop :=
  Clean r ∧ (r = .error .valueError ↔ Malformed M w h key kw)

section
variable (svc : Services) (vs : VecServices) (M : List (List Nat)) (w h : Nat) (rest : String → Config → R SerOut)

theorem outcome_pbm (hs : SymbolShaped M w h) (kw : Config) (hdoc : DocumentedSer "pbm" kw) :
    Outcome M w h "pbm" kw (serRead svc vs M w h rest "pbm" kw) := by
  have hbo := val_typed "pbm" kw hdoc "border" .border (by decide)
  have hr := refused_iff (val "pbm" kw "scale") (val "pbm" kw "border") hbo
  obtain ⟨h1, h2⟩ := simple_outcomes M w h hs (numV (val "pbm" kw "scale")) (optNumV (val "pbm" kw "border")) (borderOK_of_typed _ hbo)
    (flagV (val "pbm" kw "plain")) []
  have hm : Malformed M w h "pbm" kw ↔ (scaleRefusedRaster (val "pbm" kw "scale") = true ∨ borderRefused (val "pbm" kw "border") = true) := by
    simp [Malformed]
  show Clean (bytesOut _) ∧ (bytesOut _ = _ ↔ _)
  rw [clean_bytesOut, bytesOut_err, hm, ← hr]
  exact outcome_of_cases _ _ (fun hR => (h1 hR).1) (fun hR => (h2 hR).1)

theorem outcome_xbm (hs : SymbolShaped M w h) (kw : Config) (hdoc : DocumentedSer "xbm" kw) :
    Outcome M w h "xbm" kw (serRead svc vs M w h rest "xbm" kw) := by
  have hbo := val_typed "xbm" kw hdoc "border" .border (by decide)
  have hr := refused_iff (val "xbm" kw "scale") (val "xbm" kw "border") hbo
  obtain ⟨h1, h2⟩ := simple_outcomes M w h hs (numV (val "xbm" kw "scale")) (optNumV (val "xbm" kw "border")) (borderOK_of_typed _ hbo)
    false (strV (val "xbm" kw "name")).toList
  have hm : Malformed M w h "xbm" kw ↔ (scaleRefusedRaster (val "xbm" kw "scale") = true ∨ borderRefused (val "xbm" kw "border") = true) := by
    simp [Malformed]
  show Clean (textOut _) ∧ (textOut _ = _ ↔ _)
  rw [clean_textOut, textOut_err, hm, ← hr]
  exact outcome_of_cases _ _ (fun hR => (h1 hR).2) (fun hR => (h2 hR).2)

theorem outcome_txt (hs : SymbolShaped M w h) (kw : Config) (hdoc : DocumentedSer "txt" kw) :
    Outcome M w h "txt" kw (serRead svc vs M w h rest "txt" kw) := by
  have hbo := val_typed "txt" kw hdoc "border" .border (by decide)
  have hr := refused_iff_one (val "txt" kw "border") hbo
  obtain ⟨h1, h2⟩ := text_outcomes M w h hs (optNumV (val "txt" kw "border")) (borderOK_of_typed _ hbo)
    (txtV (val "txt" kw "dark")) (txtV (val "txt" kw "light"))
  have hm : Malformed M w h "txt" kw ↔ borderRefused (val "txt" kw "border") = true := by simp [Malformed]
  show Clean (textOut _) ∧ (textOut _ = _ ↔ _)
  rw [clean_textOut, textOut_err, hm, ← hr]
  exact outcome_of_cases _ _ (fun hR => (h1 hR).1) (fun hR => (h2 hR).1)

theorem outcome_ans (hs : SymbolShaped M w h) (kw : Config) (hdoc : DocumentedSer "ans" kw) :
    Outcome M w h "ans" kw (serRead svc vs M w h rest "ans" kw) := by
  have hbo := val_typed "ans" kw hdoc "border" .border (by decide)
  have hr := refused_iff_one (val "ans" kw "border") hbo
  obtain ⟨h1, h2⟩ := text_outcomes M w h hs (optNumV (val "ans" kw "border")) (borderOK_of_typed _ hbo) [] []
  have hm : Malformed M w h "ans" kw ↔ borderRefused (val "ans" kw "border") = true := by simp [Malformed]
  show Clean (textOut _) ∧ (textOut _ = _ ↔ _)
  rw [clean_textOut, textOut_err, hm, ← hr]
  exact outcome_of_cases _ _ (fun hR => (h1 hR).2.1) (fun hR => (h2 hR).2.1)

theorem outcome_compact (hs : SymbolShaped M w h) (kw : Config) (hdoc : DocumentedSer "compact" kw) :
    Outcome M w h "compact" kw (serRead svc vs M w h rest "compact" kw) := by
  have hbo := val_typed "compact" kw hdoc "border" .border (by decide)
  have hr := refused_iff_one (val "compact" kw "border") hbo
  obtain ⟨h1, h2⟩ := text_outcomes M w h hs (optNumV (val "compact" kw "border")) (borderOK_of_typed _ hbo) [] []
  have hm : Malformed M w h "compact" kw ↔ borderRefused (val "compact" kw "border") = true := by simp [Malformed]
  show Clean (textOut _) ∧ (textOut _ = _ ↔ _)
  rw [clean_textOut, textOut_err, hm, ← hr]
  exact outcome_of_cases _ _ (fun hR => (h1 hR).2.2) (fun hR => (h2 hR).2.2)

theorem outcome_pam (hs : SymbolShaped M w h) (kw : Config) (hdoc : DocumentedSer "pam" kw) :
    Outcome M w h "pam" kw (serRead svc vs M w h rest "pam" kw) := by
  have hbo := val_typed "pam" kw hdoc "border" .border (by decide)
  have hr := refused_iff (val "pam" kw "scale") (val "pam" kw "border") hbo
  obtain ⟨h1, h2⟩ := pam_outcome M w h hs (numV (val "pam" kw "scale")) (optNumV (val "pam" kw "border")) (borderOK_of_typed _ hbo)
    (colV (val "pam" kw "dark")) (colV (val "pam" kw "light"))
  have hm : Malformed M w h "pam" kw ↔ ((scaleRefusedRaster (val "pam" kw "scale") = true ∨ borderRefused (val "pam" kw "border") = true)
      ∨ colV (val "pam" kw "dark") = .none ∨ malformed (colV (val "pam" kw "dark")) = true ∨ malformed (colV (val "pam" kw "light")) = true) := by
    simp [Malformed]
  show Clean (bytesOut _) ∧ (bytesOut _ = _ ↔ _)
  rw [clean_bytesOut, bytesOut_err, hm, ← hr]
  exact ⟨h1, h2⟩

theorem outcome_xpm (hs : SymbolShaped M w h) (kw : Config) (hdoc : DocumentedSer "xpm" kw) :
    Outcome M w h "xpm" kw (serRead svc vs M w h rest "xpm" kw) := by
  have hbo := val_typed "xpm" kw hdoc "border" .border (by decide)
  have hr := refused_iff (val "xpm" kw "scale") (val "xpm" kw "border") hbo
  obtain ⟨h1, h2⟩ := xpm_outcome M w h hs (numV (val "xpm" kw "scale")) (optNumV (val "xpm" kw "border")) (borderOK_of_typed _ hbo)
    (colV (val "xpm" kw "dark")) (colV (val "xpm" kw "light")) (strV (val "xpm" kw "name")).toList
  have hm : Malformed M w h "xpm" kw ↔ ((scaleRefusedRaster (val "xpm" kw "scale") = true ∨ borderRefused (val "xpm" kw "border") = true)
      ∨ (colV (val "xpm" kw "dark") ≠ .none ∧ opaqueCol (colV (val "xpm" kw "dark")) = false)
      ∨ (colV (val "xpm" kw "light") ≠ .none ∧ opaqueCol (colV (val "xpm" kw "light")) = false)) := by
    simp [Malformed]
  show Clean (textOut _) ∧ (textOut _ = _ ↔ _)
  rw [clean_textOut, textOut_err, hm, ← hr]
  exact ⟨h1, h2⟩

theorem outcome_ppm (hs : SymbolShaped M w h) (kw : Config) (hdoc : DocumentedSer "ppm" kw) :
    Outcome M w h "ppm" kw (serRead svc vs M w h rest "ppm" kw) := by
  have hbo := val_typed "ppm" kw hdoc "border" .border (by decide)
  have hr := refused_iff (val "ppm" kw "scale") (val "ppm" kw "border") hbo
  obtain ⟨h1, h2⟩ := ppm_outcome M w h hs (numV (val "ppm" kw "scale")) (optNumV (val "ppm" kw "border")) (borderOK_of_typed _ hbo)
    (colV (val "ppm" kw "dark")) (colV (val "ppm" kw "light")) (typeOptsV (val "ppm" kw))
  have hm : Malformed M w h "ppm" kw ↔ ((scaleRefusedRaster (val "ppm" kw "scale") = true ∨ borderRefused (val "ppm" kw "border") = true)
      ∨ ∃ e ∈ makeColormap w h (colV (val "ppm" kw "dark")) (colV (val "ppm" kw "light")) (typeOptsV (val "ppm" kw)), opaqueCol e.2 = false) := by
    simp [Malformed]
  show Clean (bytesOut _) ∧ (bytesOut _ = _ ↔ _)
  rw [clean_bytesOut, bytesOut_err, hm, ← hr]
  exact ⟨h1, h2⟩

theorem outcome_png (hs : SymbolShaped M w h) (hset : SetOrderOK svc.setOrder) (kw : Config) (hdoc : DocumentedSer "png" kw)
    (hfit : PngFits svc M w h kw) :
    Outcome M w h "png" kw (serRead svc vs M w h rest "png" kw) := by
  have hbo := val_typed "png" kw hdoc "border" .border (by decide)
  have hdp := val_typed "png" kw hdoc "dpi" .dpi (by decide)
  have hr := refused_iff (val "png" kw "scale") (val "png" kw "border") hbo
  obtain ⟨h1, h2⟩ := png_outcome svc.setOrder hset M w h hs (numV (val "png" kw "scale")) (optNumV (val "png" kw "border"))
    (borderOK_of_typed _ hbo) (colV (val "png" kw "dark")) (colV (val "png" kw "light")) (typeOptsV (val "png" kw))
    (dpiV svc (val "png" kw "dpi")) (pngCompV svc M w h (val "png" kw))
  have hm : Malformed M w h "png" kw ↔ ((scaleRefusedRaster (val "png" kw "scale") = true ∨ borderRefused (val "png" kw "border") = true)
      ∨ dpiNegative (val "png" kw "dpi") = true
      ∨ ∃ e ∈ makeColormap w h (colV (val "png" kw "dark")) (colV (val "png" kw "light")) (typeOptsV (val "png" kw)), malformed e.2 = true) := by
    simp [Malformed]
  rw [dpiBad_eq svc _ hdp, hr] at h2
  unfold Outcome
  rw [hm, ← h2]
  have hfit' : pngFileV svc M w h (val "png" kw) ≠ .ok none := hfit
  have h1' : (∃ f, pngFileV svc M w h (val "png" kw) = .ok f) ∨ pngFileV svc M w h (val "png" kw) = .error .valueError := h1
  have hrd : serRead svc vs M w h rest "png" kw = pngOut (rest "png" (completed "png" kw)) (pngFileV svc M w h (val "png" kw)) := rfl
  rw [hrd]
  show _ ∧ (_ ↔ pngFileV svc M w h (val "png" kw) = .error .valueError)
  cases hp : pngFileV svc M w h (val "png" kw) with
  | error e =>
    rw [hp] at h1'
    rcases h1' with ⟨f, hf⟩ | hve
    · cases hf
    · cases hve
      exact ⟨Or.inr rfl, by simp [pngOut]⟩
  | ok f =>
    cases f with
    | none => exact absurd hp hfit'
    | some bs => exact ⟨Or.inl ⟨_, rfl⟩, by simp [pngOut]⟩

theorem outcome_tex (kw : Config) (hdoc : DocumentedSer "tex" kw) :
    Outcome M w h "tex" kw (serRead svc vs M w h rest "tex" kw) := by
  have hsc := val_typed "tex" kw hdoc "scale" .scale (by decide)
  have hbo := val_typed "tex" kw hdoc "border" .border (by decide)
  have hm : Malformed M w h "tex" kw ↔ (scaleRefusedVector (val "tex" kw "scale") = true ∨ borderRefused (val "tex" kw "border") = true) := by
    simp [Malformed]
  unfold Outcome
  rw [hm]
  show Clean (if refusedFloat (val "tex" kw "border") then _ else _) ∧ ((if refusedFloat (val "tex" kw "border") then _ else _) = _ ↔ _)
  cases hf : refusedFloat (val "tex" kw "border") with
  | true =>
    simp only [if_true]
    exact ⟨Or.inr rfl, fun _ => Or.inr (borderRefused_of_float _ hf), fun _ => trivial⟩
  | false =>
    simp only [Bool.false_eq_true, if_false]
    obtain ⟨h1, h2⟩ := tex_outcome M w h (texOptsV svc vs (val "tex" kw))
    rw [clean_map, map_err, h2]
    have e1 : scaleBad (texOptsV svc vs (val "tex" kw)).scale = scaleRefusedVector (val "tex" kw "scale") := scaleBad_eq svc _ hsc
    have e2 : borderBad (texOptsV svc vs (val "tex" kw)).border = borderRefused (val "tex" kw "border") := borderBad_eq _ hbo hf
    rw [e1, e2]
    exact ⟨h1, Iff.rfl⟩

theorem outcome_eps (hs : SymbolShaped M w h) (kw : Config) (hdoc : DocumentedSer "eps" kw) :
    Outcome M w h "eps" kw (serRead svc vs M w h rest "eps" kw) := by
  have hsc := val_typed "eps" kw hdoc "scale" .scale (by decide)
  have hbo := val_typed "eps" kw hdoc "border" .border (by decide)
  have hm : Malformed M w h "eps" kw ↔ ((scaleRefusedVector (val "eps" kw "scale") = true ∨ borderRefused (val "eps" kw "border") = true)
      ∨ (Svg.isBlack (colV (val "eps" kw "dark")) = false ∧ opaqueCol (colV (val "eps" kw "dark")) = false)
      ∨ (colV (val "eps" kw "light") ≠ .none ∧ opaqueCol (colV (val "eps" kw "light")) = false)) := by
    simp [Malformed]
  unfold Outcome
  rw [hm]
  show Clean (if refusedFloat (val "eps" kw "border") then _ else _) ∧ ((if refusedFloat (val "eps" kw "border") then _ else _) = _ ↔ _)
  cases hf : refusedFloat (val "eps" kw "border") with
  | true =>
    simp only [if_true]
    exact ⟨Or.inr rfl, fun _ => Or.inl (Or.inr (borderRefused_of_float _ hf)), fun _ => trivial⟩
  | false =>
    simp only [Bool.false_eq_true, if_false]
    obtain ⟨h1, h2⟩ := eps_outcome M w h hs (epsOptsV svc vs w h (val "eps" kw)) (colV (val "eps" kw "dark")) (colV (val "eps" kw "light")) rfl rfl
    rw [clean_map, map_err, h2]
    have e1 : scaleBad (epsOptsV svc vs w h (val "eps" kw)).scale = scaleRefusedVector (val "eps" kw "scale") := scaleBad_eq svc _ hsc
    have e2 : borderBad (epsOptsV svc vs w h (val "eps" kw)).border = borderRefused (val "eps" kw "border") := borderBad_eq _ hbo hf
    rw [e1, e2]
    exact ⟨h1, by rw [or_assoc]⟩

theorem outcome_pdf (kw : Config) (hdoc : DocumentedSer "pdf" kw) :
    Outcome M w h "pdf" kw (serRead svc vs M w h rest "pdf" kw) := by
  have hsc := val_typed "pdf" kw hdoc "scale" .scale (by decide)
  have hbo := val_typed "pdf" kw hdoc "border" .border (by decide)
  have hm : Malformed M w h "pdf" kw ↔ ((scaleRefusedVector (val "pdf" kw "scale") = true ∨ borderRefused (val "pdf" kw "border") = true)
      ∨ (Svg.isBlack (colV (val "pdf" kw "dark")) = false ∧ opaqueCol (colV (val "pdf" kw "dark")) = false)
      ∨ (colV (val "pdf" kw "light") ≠ .none ∧ opaqueCol (colV (val "pdf" kw "light")) = false)) := by
    simp [Malformed]
  unfold Outcome
  rw [hm]
  show Clean (if refusedFloat (val "pdf" kw "border") then _ else _) ∧ ((if refusedFloat (val "pdf" kw "border") then _ else _) = _ ↔ _)
  cases hf : refusedFloat (val "pdf" kw "border") with
  | true =>
    simp only [if_true]
    exact ⟨Or.inr rfl, fun _ => Or.inl (Or.inr (borderRefused_of_float _ hf)), fun _ => trivial⟩
  | false =>
    simp only [Bool.false_eq_true, if_false]
    obtain ⟨h1, h2⟩ := pdf_outcome M w h (pdfOptsV svc vs w h (val "pdf" kw)) (colV (val "pdf" kw "dark")) (colV (val "pdf" kw "light")) rfl rfl
    rw [clean_map, map_err, h2]
    have e1 : scaleBad (pdfOptsV svc vs w h (val "pdf" kw)).scale = scaleRefusedVector (val "pdf" kw "scale") := scaleBad_eq svc _ hsc
    have e2 : borderBad (pdfOptsV svc vs w h (val "pdf" kw)).border = borderRefused (val "pdf" kw "border") := borderBad_eq _ hbo hf
    rw [e1, e2]
    exact ⟨h1, by rw [or_assoc]⟩

theorem outcome_svg (hs : SymbolShaped M w h) (kw : Config) (hdoc : DocumentedSer "svg" kw) :
    Outcome M w h "svg" kw (serRead svc vs M w h rest "svg" kw) := by
  have hsc := val_typed "svg" kw hdoc "scale" .scale (by decide)
  have hbo := val_typed "svg" kw hdoc "border" .border (by decide)
  have hm : Malformed M w h "svg" kw ↔ ((scaleRefusedVector (val "svg" kw "scale") = true ∨ borderRefused (val "svg" kw "border") = true)
      ∨ (optStrV (val "svg" kw "unit") ≠ none ∧ optStrV (val "svg" kw "unit") ≠ some "" ∧ flagV (val "svg" kw "omitsize") = true)
      ∨ ∃ c ∈ svgPainted M w h (makeColormap w h (colV (val "svg" kw "dark")) (colV (val "svg" kw "light")) (typeOptsV (val "svg" kw)))
          (flagV (val "svg" kw "draw_transparent")) (borderNat w h (val "svg" kw "border")), c ≠ .none ∧ malformed c = true) := by
    simp [Malformed]
  unfold Outcome
  rw [hm]
  show Clean (if refusedFloat (val "svg" kw "border") then _ else _) ∧ ((if refusedFloat (val "svg" kw "border") then _ else _) = _ ↔ _)
  cases hf : refusedFloat (val "svg" kw "border") with
  | true =>
    simp only [if_true]
    exact ⟨Or.inr rfl, fun _ => Or.inl (Or.inr (borderRefused_of_float _ hf)), fun _ => trivial⟩
  | false =>
    simp only [Bool.false_eq_true, if_false]
    obtain ⟨h1, h2⟩ := svg_outcome M w h hs (colV (val "svg" kw "dark")) (colV (val "svg" kw "light")) (typeOptsV (val "svg" kw))
      (svgOptsV svc w h (val "svg" kw))
    have e1 : scaleBad (svgOptsV svc w h (val "svg" kw)).scale = scaleRefusedVector (val "svg" kw "scale") := scaleBad_eq svc _ hsc
    have e2 : borderBad (svgOptsV svc w h (val "svg" kw)).border = borderRefused (val "svg" kw "border") := borderBad_eq _ hbo hf
    have e3 : effBorder w h (svgOptsV svc w h (val "svg" kw)).border = borderNat w h (val "svg" kw "border") := effBorder_eq w h _ hbo hf
    rw [e1, e2, e3] at h2
    have hmap : svgDoc M w h (SvgArgs.mk (colV (val "svg" kw "dark")) (colV (val "svg" kw "light")) (typeOptsV (val "svg" kw))
          (svgOptsV svc w h (val "svg" kw)))
        = (Svg.saveSvg M w h (some (colV (val "svg" kw "dark"))) (some (colV (val "svg" kw "light"))) (typeOptsV (val "svg" kw))
            (svgOptsV svc w h (val "svg" kw))).map (fun s => .text s.toList (some ((svgOptsV svc w h (val "svg" kw)).encoding.getD "utf-8"))) := by
      unfold svgDoc
      cases Svg.saveSvg M w h (some (colV (val "svg" kw "dark"))) (some (colV (val "svg" kw "light"))) (typeOptsV (val "svg" kw))
        (svgOptsV svc w h (val "svg" kw)) <;> rfl
    rw [hmap, clean_map, map_err, h2]
    refine ⟨h1, ?_⟩
    simp only [or_assoc]
    exact Iff.rfl

end

end Proofs.C14Ser
