/-
  Proofs.TieA2Scores — `mask_scores` (translated, Gen/Funcs2.lean: one nested loop over the matrix that carries eight
  locals, the two calls of the nested function `n3_pattern_occurrences` per row, the float expression of N4 in exact
  rational arithmetic) against `Model.maskScores` (N1 … N4 as separate sums over rows, columns and 2 × 2 blocks).

  Part A: loop invariants (`innerInv`, `outerInv`) — the state of the translated loops in closed form.
  Part B: the closed forms are the sums of the model (`lineScore_eq`: Python's run scan started at "previous bit −1" is
  the model's `n1Line` started at "previous bit 2" on 0/1 lines; re-indexing of the N2 sum; N4).
-/
import Proofs.TieA2Matrix
import Proofs.TieAOverhead
import Proofs.TieA2N3
import Mathlib.Tactic.Ring

set_option linter.unusedSimpArgs false
set_option linter.unusedTactic false
set_option linter.unusedVariables false
set_option linter.deprecated false

namespace Proofs.TieA2
open Gen.Py Proofs.TieA Model

theorem foldlM_inv_list {σ α : Type} (xs : List α) (body : σ → α → M σ) (P : Nat → σ → Prop) (init : σ) (h0 : P 0 init)
    (hstep : ∀ k (hk : k < xs.length) s, P k s → ∃ s', body s xs[k] = .ok s' ∧ P (k + 1) s') :
    ∃ s', foldlM xs init body = .ok s' ∧ P xs.length s' := by
  induction xs generalizing P init with
  | nil => exact ⟨init, rfl, h0⟩
  | cons x xs ih =>
    obtain ⟨s1, hb, hp1⟩ := hstep 0 (by simp) init h0
    simp only [List.getElem_cons_zero] at hb
    rw [foldlM_cons, hb]
    obtain ⟨s', hf, hp'⟩ := ih (fun k s => P (k + 1) s) s1 hp1 (by
      intro k hk s hp
      have := hstep (k + 1) (by simp; omega) s hp
      simpa using this)
    exact ⟨s', hf, by simpa using hp'⟩

theorem foldlM_inv_range {σ : Type} (n : Nat) (body : σ → Int → M σ) (P : Nat → σ → Prop) (init : σ) (h0 : P 0 init)
    (hstep : ∀ k s, k < n → P k s → ∃ s', body s (k : Int) = .ok s' ∧ P (k + 1) s') :
    ∃ s', foldlM (range 0 (n : Int)) init body = .ok s' ∧ P n s' := by
  rw [range_zero_nat]
  have := foldlM_inv_list ((List.range n).map Int.ofNat) body P init h0 (by
    intro k hk s hp
    simp only [List.length_map, List.length_range] at hk
    have := hstep k s hk hp
    simpa using this)
  simpa using this

/-- row i / column i of the matrix as lists -/
def rowL (m : Matrix) (i : Nat) : List Nat := (m.getD i #[]).toList
def colL (m : Matrix) (i : Nat) : List Nat := (List.range m.size).map (fun j => get2 m j i)

/-- Python's run-length scan of N1: (previous bit, counter, score) -/
def runStep (st : Int × Int × Int) (b : Nat) : Int × Int × Int :=
  if (b : Int) = st.1 then (st.1, st.2.1 + 1, st.2.2)
  else ((b : Int), 1, if st.2.1 ≥ 5 then st.2.2 + (st.2.1 - 2) else st.2.2)

def runScan (l : List Nat) : Int × Int × Int := l.foldl runStep (-1, 0, 0)

/-- the N2 test of the inner loop at (i, j) -/
def n2At (m : Matrix) (i j : Nat) : Bool :=
  decide (1 ≤ i) && decide (1 ≤ j) && decide (get2 m i j = get2 m i (j - 1)) && decide (get2 m i (j - 1) = get2 m (i - 1) j)
    && decide (get2 m (i - 1) j = get2 m (i - 1) (j - 1))

def n2Sum (m : Matrix) (i k : Nat) : Int := ((List.range k).map (fun j => if n2At m i j then (3 : Int) else 0)).foldl (· + ·) 0

/-- the state of the inner loop of `mask_scores` before column k of row i -/
def innerInv (m : Matrix) (i : Nat) (d0 : Int) (c0 : List Int) (s10 s20 : Int) (k : Nat)
    (s : Int × Int × Int × Int × List Int × Int × Int × Int) : Prop :=
  s.1 = (runScan ((colL m i).take k)).1 ∧
  s.2.1 = d0 + Int.ofNat (sumNat ((rowL m i).take k)) ∧
  s.2.2.1 = (runScan ((colL m i).take k)).2.1 ∧
  s.2.2.2.1 = (runScan ((rowL m i).take k)).2.1 ∧
  s.2.2.2.2.1 = toI ((colL m i).take k) ++ c0.drop k ∧
  s.2.2.2.2.2.1 = (runScan ((rowL m i).take k)).1 ∧
  s.2.2.2.2.2.2.1 = s10 + (runScan ((rowL m i).take k)).2.2 + (runScan ((colL m i).take k)).2.2 ∧
  s.2.2.2.2.2.2.2 = s20 + n2Sum m i k

theorem foldlM_range_then {σ β : Type} (n : Nat) (body : σ → Int → M σ) (k : σ → M β) (P : Nat → σ → Prop) (init : σ)
    (Q : β → Prop) (h0 : P 0 init)
    (hstep : ∀ j s, j < n → P j s → ∃ s', body s (j : Int) = .ok s' ∧ P (j + 1) s')
    (hk : ∀ s, P n s → ∃ r, k s = .ok r ∧ Q r) :
    ∃ r, Gen.Py.bind (foldlM (range 0 (n : Int)) init body) k = .ok r ∧ Q r := by
  obtain ⟨s', hs, hp⟩ := foldlM_inv_range n body P init h0 hstep
  rw [hs]
  exact hk s' hp

/-- Σ_{r < k} f r -/
def isum (f : Nat → Int) (k : Nat) : Int := ((List.range k).map f).foldl (· + ·) 0

theorem isum_succ (f : Nat → Int) (k : Nat) : isum f (k + 1) = isum f k + f k := by
  simp [isum, List.range_succ, List.foldl_append]

/-- N1 score of one line as Python computes it: the scan plus the last run -/
def lineScore (l : List Nat) : Int :=
  (runScan l).2.2 + (if (runScan l).2.1 ≥ 5 then (runScan l).2.1 - 2 else 0)

/-- the state of the outer loop before row i: (dark, last row, column buffer, N1, N2, N3) -/
def outerInv (m : Matrix) (n : Nat) (i : Nat)
    (s : Int × Option (List Int) × List Int × Int × Int × Int) : Prop :=
  s.1 = isum (fun r => Int.ofNat (sumNat (rowL m r))) i ∧
  s.2.1 = (if i = 0 then none else some (toI (rowL m (i - 1)))) ∧
  s.2.2.1.length = n ∧
  s.2.2.2.1 = isum (fun r => lineScore (rowL m r) + lineScore (colL m r)) i ∧
  s.2.2.2.2.1 = isum (fun r => n2Sum m r n) i ∧
  s.2.2.2.2.2 = isum (fun r => Int.ofNat (n3Occurrences (rowL m r)) + Int.ofNat (n3Occurrences (colL m r))) i

theorem index_rowL {m : Matrix} {n : Nat} (hs : Sq m n) (i : Nat) (hi : i < n) : index (mI m) (i : Int) = .ok (toI (rowL m i)) :=
  index_row hs i i (normIndex_nat n i hi)

theorem rowL_length {m : Matrix} {n : Nat} (hs : Sq m n) (i : Nat) (hi : i < n) : (rowL m i).length = n := by
  have hlt : i < m.size := by rw [hs.size]; exact hi
  simp [rowL, getD_row m i hlt, hs.rows i hlt]

theorem colL_length {m : Matrix} {n : Nat} (hs : Sq m n) (i : Nat) : (colL m i).length = n := by
  simp [colL, hs.size]

theorem index_toI (l : List Nat) (j : Nat) (hj : j < l.length) : index (toI l) (j : Int) = .ok (Int.ofNat (l.getD j 0)) := by
  rw [index_eq_of_norm _ _ j (by rw [toI_length]; exact normIndex_nat _ _ hj)]
  simp [toI, hj]

theorem bind_eq_of_eq {α β : Type} {x : M α} (v : α) (k : α → M β) (h : x = .ok v) : Gen.Py.bind x k = k v := by
  rw [h]; rfl

theorem take_succ_getD (l : List Nat) (j : Nat) (hj : j < l.length) : l.take (j + 1) = l.take j ++ [l.getD j 0] := by
  rw [List.take_succ]
  simp [hj]

theorem runScan_snoc (l : List Nat) (b : Nat) : runScan (l ++ [b]) = runStep (runScan l) b := by
  simp [runScan, List.foldl_append]

theorem sumNat_snoc (l : List Nat) (b : Nat) : sumNat (l ++ [b]) = sumNat l + b := by
  simp [sumNat, List.foldl_append]

theorem rowL_getD {m : Matrix} (i j : Nat) : (rowL m i).getD j 0 = get2 m i j := by
  unfold rowL get2
  generalize m.getD i #[] = r
  simp [List.getD, Array.getD]
  by_cases h : j < r.size <;> simp [h]

/-- one step of the two interleaved N1 scans (row and column) of the inner loop -/
theorem n1_update (rp rc rsc cp cc csc s10 : Int) (a b : Nat) :
    let s1 := s10 + rsc + csc
    let phi1 : Int × Int := if (Int.ofNat a == rp) = true then (rc + 1, s1) else (1, if decide (rc ≥ 5) = true then s1 + (rc - 2) else s1)
    let phi2 : Int × Int := if (Int.ofNat b == cp) = true then (cc + 1, phi1.2)
      else (1, if decide (cc ≥ 5) = true then phi1.2 + (cc - 2) else phi1.2)
    phi1.1 = (runStep (rp, rc, rsc) a).2.1 ∧ phi2.1 = (runStep (cp, cc, csc) b).2.1 ∧
      phi2.2 = s10 + (runStep (rp, rc, rsc) a).2.2 + (runStep (cp, cc, csc) b).2.2 ∧
      Int.ofNat a = (runStep (rp, rc, rsc) a).1 ∧ Int.ofNat b = (runStep (cp, cc, csc) b).1 := by
  simp only [runStep, Int.ofNat_eq_natCast, beq_iff_eq, decide_eq_true_eq]
  by_cases h1 : (a : Int) = rp <;> by_cases h2 : (b : Int) = cp <;> by_cases h3 : rc ≥ 5 <;> by_cases h4 : cc ≥ 5 <;>
    simp [h1, h2, h3, h4] <;> omega

theorem colL_getD {m : Matrix} {n : Nat} (hs : Sq m n) (i j : Nat) (hj : j < n) : (colL m i).getD j 0 = get2 m j i := by
  simp [colL, hs.size, hj, List.getD]

theorem runStep_fst (st : Int × Int × Int) (b : Nat) : (runStep st b).1 = (b : Int) := by
  unfold runStep
  by_cases h : (b : Int) = st.1 <;> simp [h]

theorem n2Sum_succ (m : Matrix) (i k : Nat) : n2Sum m i (k + 1) = n2Sum m i k + (if n2At m i k then 3 else 0) := by
  simp [n2Sum, List.range_succ, List.foldl_append]

/-- N4 of `mask_scores`: the float expression `10 * int(abs(dark / size² * 100 - 50) / 5)`, in exact rational
    arithmetic, is the integer formula of the model -/
theorem n4_q {β : Type} (d n : Nat) (hn : 1 ≤ n) (k : Int → M β) :
    Gen.Py.bind ((Q.ofInt (d : Int)).div (Q.ofInt ((n : Int) ^ 2))) (fun t15 =>
      Gen.Py.bind ((((t15.mul (Q.ofInt 100)).sub (Q.ofInt 50)).abs).div (Q.ofInt 5)) (fun t16 =>
        k (10 * t16.toInt)))
      = k (Int.ofNat (10 * ((if 20 * d ≥ 10 * (n * n) then 20 * d - 10 * (n * n) else 10 * (n * n) - 20 * d) / (n * n)))) := by
  have hT : 0 < n * n := Nat.mul_pos hn hn
  have hT' : ((n : Int) ^ 2) = ((n * n : Nat) : Int) := by push_cast; ring
  rw [hT']
  generalize n * n = T at hT
  have hne : ¬ ((T : Int) = 0) := by omega
  have hpos : ¬ ((T : Int) < 0) := by omega
  simp only [Q.div, Q.ofInt, Q.mul, Q.sub, Q.abs, Q.toInt, hne, hpos, if_false, bind_ok]
  have h5 : ¬ ((5 : Int) = 0) := by decide
  have h5' : ¬ ((5 : Int) < 0) := by decide
  simp only [h5, h5', if_false, bind_ok]
  have hdev : ((d : Int) * ((1 : Nat) : Int) * 100 * ((1 : Nat) : Int) - 50 * ((1 * (T : Int).natAbs * 1 : Nat) : Int)).natAbs
      = 5 * (if 20 * d ≥ 10 * T then 20 * d - 10 * T else 10 * T - 20 * d) := by
    split_ifs <;> omega
  have hden : (1 * (T : Int).natAbs * 1 * 1 * Int.natAbs 5) = 5 * T := by
    have : Int.natAbs 5 = 5 := rfl
    rw [this]; simp; omega
  rw [hdev, hden]
  generalize (if 20 * d ≥ 10 * T then 20 * d - 10 * T else 10 * T - 20 * d) = dev
  simp only [Int.ofNat_eq_natCast, Int.mul_one, Nat.cast_one]
  congr 1
  have e : ((5 * dev : Nat) : Int).tdiv ((5 * T : Nat) : Int) = (((5 * dev) / (5 * T) : Nat) : Int) := by
    rw [Int.tdiv_eq_ediv_of_nonneg (by omega)]
    exact (Int.natCast_ediv _ _).symm
  rw [e, Nat.mul_div_mul_left _ _ (by omega : 0 < 5)]
  push_cast
  rfl

/-- the step of `Model.n1Line` -/
def mStep (acc : Nat × Nat × Nat) (b : Nat) : Nat × Nat × Nat :=
  let (score, prev, cnt) := acc
  if b == prev then (score, prev, cnt + 1)
  else ((if cnt ≥ 5 then score + (cnt - 2) else score), b, 1)

theorem n1Line_eq (l : List Nat) :
    n1Line l = (let r := l.foldl mStep (0, 2, 0); if r.2.2 ≥ 5 then r.1 + (r.2.2 - 2) else r.1) := by
  unfold n1Line
  rfl

/-- the two scans run in lock-step on bits -/
theorem scan_rel (l : List Nat) (hb : ∀ b ∈ l, b ≤ 1) (p c s : Int) (s' p' c' : Nat)
    (hc : c = c') (hs : s = s') (hp : p = (p' : Int) ∨ (p = -1 ∧ p' = 2)) :
    (l.foldl runStep (p, c, s)).2.1 = ((l.foldl mStep (s', p', c')).2.2 : Nat) ∧
    (l.foldl runStep (p, c, s)).2.2 = ((l.foldl mStep (s', p', c')).1 : Nat) := by
  induction l generalizing p c s s' p' c' with
  | nil => simp [hc, hs]
  | cons b t ih =>
    have hb1 : b ≤ 1 := hb b (by simp)
    simp only [List.foldl_cons]
    have hcond : ((b : Int) = p) ↔ (b = p') := by
      rcases hp with h | ⟨h1, h2⟩
      · rw [h]; omega
      · rw [h1, h2]; omega
    by_cases hbp : b = p'
    · have hbp' : (b : Int) = p := hcond.mpr hbp
      have e1 : runStep (p, c, s) b = (p, c + 1, s) := by simp [runStep, hbp']
      have e2 : mStep (s', p', c') b = (s', p', c' + 1) := by simp [mStep, hbp]
      rw [e1, e2]
      exact ih (fun x hx => hb x (by simp [hx])) p (c + 1) s s' p' (c' + 1) (by rw [hc]; push_cast; rfl) hs hp
    · have hbp' : ¬ ((b : Int) = p) := fun h => hbp (hcond.mp h)
      have e1 : runStep (p, c, s) b = ((b : Int), 1, if c ≥ 5 then s + (c - 2) else s) := by simp [runStep, hbp']
      have e2 : mStep (s', p', c') b = ((if c' ≥ 5 then s' + (c' - 2) else s'), b, 1) := by simp [mStep, hbp]
      rw [e1, e2]
      refine ih (fun x hx => hb x (by simp [hx])) _ _ _ _ _ _ (by simp) ?_ (Or.inl rfl)
      subst hc hs
      split_ifs <;> first | rfl | omega | (push_cast; omega)

theorem lineScore_eq (l : List Nat) (hb : ∀ b ∈ l, b ≤ 1) : lineScore l = Int.ofNat (n1Line l) := by
  rw [n1Line_eq]
  unfold lineScore runScan
  obtain ⟨h1, h2⟩ := scan_rel l hb (-1) 0 0 0 2 0 rfl rfl (Or.inr ⟨rfl, rfl⟩)
  rw [h1, h2]
  simp only [Int.ofNat_eq_natCast]
  split_ifs <;> first | rfl | omega | (push_cast; omega)

theorem isum_ofNat (f : Nat → Nat) (k : Nat) : isum (fun r => Int.ofNat (f r)) k = Int.ofNat (sumNat ((List.range k).map f)) := by
  induction k with
  | zero => rfl
  | succ k ih =>
    rw [isum_succ, ih, List.range_succ, List.map_append]
    simp [sumNat, List.foldl_append]

theorem isum_add (f g : Nat → Int) (k : Nat) : isum (fun r => f r + g r) k = isum f k + isum g k := by
  induction k with
  | zero => rfl
  | succ k ih => rw [isum_succ, isum_succ, isum_succ, ih]; omega

theorem isum_congr (f g : Nat → Int) (k : Nat) (h : ∀ r, r < k → f r = g r) : isum f k = isum g k := by
  induction k with
  | zero => rfl
  | succ k ih => rw [isum_succ, isum_succ, ih (fun r hr => h r (by omega)), h k (by omega)]

/-- a sum whose first term vanishes, re-indexed -/
theorem isum_shift (f : Nat → Int) (k : Nat) (h0 : f 0 = 0) : isum f (k + 1) = isum (fun r => f (r + 1)) k := by
  induction k with
  | zero => simp [isum, h0]
  | succ k ih => rw [isum_succ, ih, isum_succ]


/-- the four scores as the translated loops compute them -/
def pyScores (m : Matrix) (n : Nat) : Int × Int × Int × Int :=
  (isum (fun r => lineScore (rowL m r) + lineScore (colL m r)) n,
   isum (fun r => n2Sum m r n) n,
   isum (fun r => Int.ofNat (n3Occurrences (rowL m r)) + Int.ofNat (n3Occurrences (colL m r))) n,
   Int.ofNat (10 * ((let d := sumNat ((List.range n).map (fun r => sumNat (rowL m r)))
      if 20 * d ≥ 10 * (n * n) then 20 * d - 10 * (n * n) else 10 * (n * n) - 20 * d) / (n * n))))

/-- Part A: the translated `mask_scores` on an n × n matrix (n ≥ 1) never raises and yields `pyScores` -/
theorem mask_scores_py (m : Matrix) (n : Nat) (hs : Sq m n) (hn : 1 ≤ n) :
    ∃ r, Gen.Funcs2.mask_scores (mI m) n n = .ok r ∧ r = pyScores m n := by
  unfold Gen.Funcs2.mask_scores
  have hz : zeros (n : Int) = .ok (List.replicate n 0) := by simp [zeros]
  simp -zeta only [beq_self_eq_true, if_true, hz, bind_ok]
  apply foldlM_range_then n _ _ (outerInv m n)
  · simp [outerInv, isum]
  · intro i s hi hP
    obtain ⟨dark, last, c0, s10, s20, s30⟩ := s
    rw [index_rowL hs i hi, bind_ok]
    apply foldlM_range_then n _ _ (innerInv m i dark c0 s10 s20)
    · simp [innerInv, runScan, sumNat, n2Sum]
    · intro j st hj hI
      obtain ⟨cp, dk, cc, rc, n3c, rp, s1, s2⟩ := st
      obtain ⟨h1, h2, h3, h4, h5, h6, h7, h8⟩ := hI
      simp only [] at h1 h2 h3 h4 h5 h6 h7 h8
      have hrj : j < (rowL m i).length := by rw [rowL_length hs i hi]; exact hj
      rw [index_toI _ j hrj, bind_ok, index_rowL hs j hj, bind_ok]
      have hri : i < (rowL m j).length := by rw [rowL_length hs j hj]; exact hi
      rw [index_toI _ i hri, bind_ok]
      have hc0 : c0.length = n := hP.2.2.1
      have hn3len : j < n3c.length := by
        rw [h5]; simp [colL_length hs i, hc0]; omega
      rw [setItem_eq_of_norm _ _ j _ (normIndex_nat _ _ hn3len), bind_ok]
      rw [rowL_getD, rowL_getD]
      simp -zeta only []
      rw [bind_eq_of_eq (n2At m i j)]
      · have hrow : (rowL m i).take (j + 1) = (rowL m i).take j ++ [get2 m i j] := by
          rw [take_succ_getD _ _ hrj, rowL_getD]
        have hcol : (colL m i).take (j + 1) = (colL m i).take j ++ [get2 m j i] := by
          rw [take_succ_getD _ _ (by rw [colL_length hs i]; exact hj), colL_getD hs i j hj]
        have hN1 := n1_update (runScan ((rowL m i).take j)).1 (runScan ((rowL m i).take j)).2.1 (runScan ((rowL m i).take j)).2.2
          (runScan ((colL m i).take j)).1 (runScan ((colL m i).take j)).2.1 (runScan ((colL m i).take j)).2.2 s10 (get2 m i j) (get2 m j i)
        have hset : n3c.set j (Int.ofNat (get2 m j i)) = toI ((colL m i).take j ++ [get2 m j i]) ++ c0.drop (j + 1) := by
          rw [h5]
          have hl : (toI ((colL m i).take j)).length = j := by
            rw [toI_length, List.length_take, colL_length hs i]; omega
          rw [List.set_append_right _ _ (by omega), hl, Nat.sub_self]
          have hd : c0.drop j = c0[j]'(by omega) :: c0.drop (j + 1) := by
            rw [List.drop_eq_getElem_cons]
          rw [hd, List.set_cons_zero, toI_append]
          simp
        subst h1 h2 h3 h4 h6 h7 h8
        by_cases hN : n2At m i j = true
        · rw [if_pos hN]
          refine ⟨_, rfl, ?_⟩
          unfold innerInv
          simp only [hrow, hcol, runScan_snoc, sumNat_snoc, n2Sum_succ, hN, if_true]
          refine ⟨hN1.2.2.2.2, ?_, hN1.2.1, hN1.1, hset, hN1.2.2.2.1, hN1.2.2.1, ?_⟩
          · simp only [Int.ofNat_eq_natCast]; push_cast; omega
          · omega
        · rw [if_neg hN]
          refine ⟨_, rfl, ?_⟩
          unfold innerInv
          simp only [hrow, hcol, runScan_snoc, sumNat_snoc, n2Sum_succ, hN]
          refine ⟨hN1.2.2.2.2, ?_, hN1.2.1, hN1.1, hset, hN1.2.2.2.1, hN1.2.2.1, ?_⟩
          · simp only [Int.ofNat_eq_natCast]; push_cast; omega
          · simp
      · have hlast : last = if i = 0 then none else some (toI (rowL m (i - 1))) := hP.2.1
        simp only [hlast]
        by_cases hi0 : i = 0
        · simp [hi0, n2At]
        · simp only [hi0, if_false]
          have hlr : (rowL m (i - 1)).length = n := rowL_length hs (i - 1) (by omega)
          have hne : (!(toI (rowL m (i - 1))).isEmpty) = true := by
            cases h : toI (rowL m (i - 1)) with
            | nil => have := congrArg List.length h; simp [hlr] at this; omega
            | cons _ _ => rfl
          rw [if_pos hne]
          by_cases hj0 : j = 0
          · subst hj0; simp [n2At]
          · have hjne : (((j : Int) != 0) = true) := by simp; omega
            rw [if_pos hjne]
            have hrp : rp = Int.ofNat (get2 m i (j - 1)) := by
              rw [h6]
              have : (rowL m i).take j = (rowL m i).take (j - 1) ++ [get2 m i (j - 1)] := by
                have := take_succ_getD (rowL m i) (j - 1) (by omega)
                rw [rowL_getD] at this
                rwa [Nat.sub_add_cancel (by omega)] at this
              rw [this, runScan_snoc, runStep_fst]; rfl
            have e1 : ((j : Int) - 1) = ((j - 1 : Nat) : Int) := by omega
            rw [index_toI _ j (by omega), e1, index_toI _ (j - 1) (by omega), rowL_getD, rowL_getD, hrp]
            simp only [bind_ok, Int.ofNat_eq_natCast]
            unfold n2At
            have hi1 : 1 ≤ i := by omega
            have hj1 : 1 ≤ j := by omega
            by_cases c1 : get2 m i j = get2 m i (j - 1) <;> by_cases c2 : get2 m i (j - 1) = get2 m (i - 1) j <;>
              by_cases c3 : get2 m (i - 1) j = get2 m (i - 1) (j - 1) <;> simp [c1, c2, c3, hi1, hj1, Int.natCast_inj] <;> (try split_ifs) <;> (try simp_all) <;> (try omega)
    · intro st hI
      obtain ⟨cp, dk, cc, rc, n3c, rp, s1, s2⟩ := st
      obtain ⟨h1, h2, h3, h4, h5, h6, h7, h8⟩ := hI
      simp only [] at h1 h2 h3 h4 h5 h6 h7 h8
      have hrl : (rowL m i).length = n := rowL_length hs i hi
      have hcl : (colL m i).length = n := colL_length hs i
      have hc0 : c0.length = n := hP.2.2.1
      have tr : (rowL m i).take n = rowL m i := by rw [← hrl, List.take_length]
      have tc : (colL m i).take n = colL m i := by rw [← hcl, List.take_length]
      have dc : c0.drop n = [] := by rw [← hc0, List.drop_length]
      rw [tr] at h2 h4 h6 h7
      rw [tc] at h1 h3 h5 h7
      rw [dc, List.append_nil] at h5
      have e3r := n3_occurrences_eq (rowL m i)
      have e3c := n3_occurrences_eq (colL m i)
      rw [hrl] at e3r
      rw [hcl] at e3c
      simp only [e3r, h5, e3c, bind_ok]
      refine ⟨_, rfl, ?_⟩
      obtain ⟨p1, p2, p3, p4, p5, p6⟩ := hP
      simp only [] at p1 p2 p3 p4 p5 p6
      unfold outerInv
      simp only [isum_succ, Nat.add_sub_cancel, Nat.succ_ne_zero, if_false, toI_length]
      refine ⟨?_, trivial, hcl, ?_, ?_, ?_⟩
      · rw [h2, p1]
      · rw [h7, h4, h3, p4]
        unfold lineScore
        simp only [ge_iff_le, decide_eq_true_eq]
        split_ifs <;> omega
      · rw [h8, p5]
      · rw [p6]; omega
  · intro s hP
    obtain ⟨dark, last, c0, s10, s20, s30⟩ := s
    obtain ⟨p1, p2, p3, p4, p5, p6⟩ := hP
    simp only [] at p1 p2 p3 p4 p5 p6
    simp only []
    rw [p1, isum_ofNat]
    have h4 := n4_q (sumNat ((List.range n).map (fun r => sumNat (rowL m r)))) n hn
      (fun x => (Except.ok (s10, s20, s30, x) : M (Int × Int × Int × Int)))
    refine ⟨(s10, s20, s30, Int.ofNat (10 * ((let d := sumNat ((List.range n).map (fun r => sumNat (rowL m r)))
      if 20 * d ≥ 10 * (n * n) then 20 * d - 10 * (n * n) else 10 * (n * n) - 20 * d) / (n * n)))), ?_, ?_⟩
    · exact h4
    · unfold pyScores
      rw [p4, p5, p6]


/-! ### Part B: the closed forms are the sums of the model -/

theorem rowL_bits {m : Matrix} (hbits : ∀ i j, get2 m i j ≤ 1) (r : Nat) : ∀ b ∈ rowL m r, b ≤ 1 := by
  intro b hb
  obtain ⟨j, hj, rfl⟩ := List.getElem_of_mem hb
  have h := hbits r j
  rw [← rowL_getD] at h
  have e : (rowL m r).getD j 0 = (rowL m r)[j] := by simp [List.getD, hj]
  rw [e] at h
  exact h

theorem colL_bits {m : Matrix} (hbits : ∀ i j, get2 m i j ≤ 1) (r : Nat) : ∀ b ∈ colL m r, b ≤ 1 := by
  intro b hb
  simp only [colL, List.mem_map, List.mem_range] at hb
  obtain ⟨j, _, rfl⟩ := hb
  exact hbits j r

theorem isum_zero (k : Nat) : isum (fun _ => 0) k = 0 := by
  induction k with
  | zero => rfl
  | succ k ih => rw [isum_succ, ih]; rfl

theorem n2Sum_eq_isum (m : Matrix) (i k : Nat) : n2Sum m i k = isum (fun j => if n2At m i j then (3 : Int) else 0) k := rfl

/-- the N2 test of Python at (i + 1, j + 1) is the block test of the model at (i, j) -/
theorem n2At_succ (m : Matrix) (i j : Nat) :
    (if n2At m (i + 1) (j + 1) then (3 : Int) else 0) =
      Int.ofNat (let a := get2 m i j
        if a == get2 m i (j + 1) && a == get2 m (i + 1) j && a == get2 m (i + 1) (j + 1) then 3 else 0) := by
  unfold n2At
  simp only [Nat.add_sub_cancel]
  by_cases c1 : get2 m (i + 1) (j + 1) = get2 m (i + 1) j <;> by_cases c2 : get2 m (i + 1) j = get2 m i (j + 1) <;>
    by_cases c3 : get2 m i (j + 1) = get2 m i j <;> simp only [c1, c2, c3, decide_true, decide_false, Bool.and_true,
      Bool.and_false, Bool.true_and, Bool.false_and, Nat.le_add_left, beq_iff_eq, Bool.and_eq_true] <;>
    (try split_ifs) <;> (try simp_all) <;> (try omega)

theorem pyScores_eq (m : Matrix) (n : Nat) (hs : Sq m n) (hbits : ∀ i j, get2 m i j ≤ 1) :
    pyScores m n = (Int.ofNat (maskScores m).1, Int.ofNat (maskScores m).2.1, Int.ofNat (maskScores m).2.2.1,
      Int.ofNat (maskScores m).2.2.2) := by
  unfold pyScores maskScores
  simp only [hs.size]
  have hrows : (List.range n).map (fun i => (m.getD i #[]).toList) = (List.range n).map (rowL m) := rfl
  have hcols : (List.range n).map (column m) = (List.range n).map (colL m) := by
    apply List.map_congr_left
    intro j _
    simp [column, colL]
  rw [hrows, hcols]
  refine Prod.ext ?_ (Prod.ext ?_ (Prod.ext ?_ ?_))
  · -- N1
    simp only [List.map_map]
    rw [isum_add]
    rw [isum_congr _ (fun r => Int.ofNat (n1Line (rowL m r))) n (fun r _ => lineScore_eq _ (rowL_bits hbits r))]
    rw [isum_congr (fun r => lineScore (colL m r)) (fun r => Int.ofNat (n1Line (colL m r))) n
      (fun r _ => lineScore_eq _ (colL_bits hbits r))]
    rw [isum_ofNat, isum_ofNat]
    simp only [Int.ofNat_eq_natCast, Function.comp_def]
    push_cast
    rfl
  · -- N2
    simp only []
    cases n with
    | zero => rfl
    | succ k =>
      have z0 : ∀ j, n2At m 0 j = false := by intro j; simp [n2At]
      have zc : ∀ i, n2At m i 0 = false := by intro i; simp [n2At]
      have hrow : ∀ i, n2Sum m (i + 1) (k + 1) = Int.ofNat (sumNat ((List.range k).map (fun j =>
          let a := get2 m i j
          if a == get2 m i (j + 1) && a == get2 m (i + 1) j && a == get2 m (i + 1) (j + 1) then 3 else 0))) := by
        intro i
        rw [n2Sum_eq_isum, isum_shift _ _ (by simp [zc])]
        rw [isum_congr _ _ k (fun j _ => n2At_succ m i j)]
        exact isum_ofNat _ k
      have h0 : n2Sum m 0 (k + 1) = 0 := by
        rw [n2Sum_eq_isum]
        rw [isum_congr _ (fun _ => 0) (k + 1) (fun j _ => by simp [z0])]
        exact isum_zero _
      rw [isum_shift _ _ h0]
      rw [isum_congr _ _ k (fun i _ => hrow i)]
      rw [isum_ofNat]
      simp only [Nat.add_sub_cancel]
  · -- N3
    simp only [List.map_map]
    rw [isum_add, isum_ofNat, isum_ofNat]
    simp only [Int.ofNat_eq_natCast, Function.comp_def]
    push_cast
    rfl
  · -- N4
    simp only [List.map_map, Function.comp_def]

/-- `mask_scores(matrix, n, n)` on an n × n matrix of 0/1 modules, n ≥ 1 -/
theorem mask_scores_eq (m : Matrix) (n : Nat) (hs : Sq m n) (hn : 1 ≤ n) (hbits : ∀ i j, get2 m i j ≤ 1) :
    Gen.Funcs2.mask_scores (mI m) n n
      = .ok (Int.ofNat (maskScores m).1, Int.ofNat (maskScores m).2.1, Int.ofNat (maskScores m).2.2.1,
          Int.ofNat (maskScores m).2.2.2) := by
  obtain ⟨r, h, hr⟩ := mask_scores_py m n hs hn
  rw [h, hr, pyScores_eq m n hs hbits]

/-- `evaluate_mask(matrix, n, n)`: the sum of the four scores -/
theorem evaluate_mask_eq (m : Matrix) (n : Nat) (hs : Sq m n) (hn : 1 ≤ n) (hbits : ∀ i j, get2 m i j ≤ 1) :
    Gen.Funcs2.evaluate_mask (mI m) n n = .ok (Int.ofNat (evaluateMask m)) := by
  unfold Gen.Funcs2.evaluate_mask
  rw [mask_scores_eq m n hs hn hbits, bind_ok]
  unfold evaluateMask
  rcases maskScores m with ⟨a, b, c, d⟩
  simp only [sumL, List.foldl_cons, List.foldl_nil, Int.ofNat_eq_natCast]
  congr 1
  push_cast
  omega

end Proofs.TieA2
