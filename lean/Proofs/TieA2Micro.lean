/-
  Proofs.TieA2Micro — `evaluate_micro_mask` (translated, Gen/Funcs2.lean) against `Model.evaluateMicroMask`: the two
  generator sums `sum(matrix[i][-1] for i in range(1, width))` and `sum(matrix[-1][i] for i in range(1, width))`
  (`Py.sumM`, every element expression can raise IndexError) are the two `Model.sumNat` of the model.
-/
import Proofs.TieA2Matrix
import Proofs.TieAOverhead

namespace Proofs.TieA2
open Gen.Py Proofs.TieA Model

/-! ### `Py.sumM` with an element expression that does not raise on the list -/

/-- the fold of `Py.sumM` from an arbitrary accumulator -/
theorem sumM_fold_map (ks : List Nat) (φ : Nat → Int) (f : Int → M Int) (g : Nat → Nat)
    (h : ∀ k ∈ ks, f (φ k) = .ok (Int.ofNat (g k))) (acc : Int) :
    List.foldl (fun acc x => Gen.Py.bind acc (fun s => Gen.Py.bind (f x) (fun v => .ok (s + v)))) (.ok acc) (ks.map φ)
      = .ok (acc + Int.ofNat (sumNat (ks.map g))) := by
  induction ks generalizing acc with
  | nil => simp [sumNat]
  | cons k t ih =>
    simp only [List.map_cons, List.foldl_cons, Gen.Py.bind_ok, h k (by simp)]
    rw [ih (fun k' hk' => h k' (by simp [hk']))]
    congr 1
    rw [sumNat_cons']
    simp only [Int.ofNat_eq_natCast]
    push_cast
    omega

/-- `sum(f(x) for x in xs)` where `f` is a natural number `g` on every element: the sum of the model -/
theorem sumM_map (ks : List Nat) (φ : Nat → Int) (f : Int → M Int) (g : Nat → Nat)
    (h : ∀ k ∈ ks, f (φ k) = .ok (Int.ofNat (g k))) :
    sumM (ks.map φ) f = .ok (Int.ofNat (sumNat (ks.map g))) := by
  unfold sumM
  rw [sumM_fold_map ks φ f g h 0]
  simp

/-- `range(1, n)` -/
theorem range_one_nat (n : Nat) : range 1 (n : Int) = (List.range (n - 1)).map (fun (k : Nat) => (1 : Int) + Int.ofNat k) := by
  have : ((n : Int) - 1).toNat = n - 1 := by omega
  simp [range, this]

/-! ### the subscripts of `evaluate_micro_mask` -/

theorem normIndex_minus_one (n : Nat) (hn : 1 ≤ n) : normIndex n (-1 : Int) = some (n - 1) := by
  simpa using normIndex_neg n 1 (Nat.le_refl 1) hn

theorem normIndex_one_add (n k : Nat) (hk : k < n - 1) : normIndex n ((1 : Int) + Int.ofNat k) = some (k + 1) := by
  have : ((1 : Int) + Int.ofNat k) = ((k + 1 : Nat) : Int) := by
    simp only [Int.ofNat_eq_natCast]; push_cast; omega
  rw [this]
  exact normIndex_nat n (k + 1) (by omega)

/-- `evaluate_micro_mask(matrix, n, n)` on an n × n matrix, n ≥ 1 (for n = 0 Python raises IndexError at `matrix[-1]`) -/
theorem evaluate_micro_mask_eq (m : Matrix) (n : Nat) (hs : Sq m n) (hn : 1 ≤ n) :
    Gen.Funcs2.evaluate_micro_mask (mI m) n n = .ok (Int.ofNat (Model.evaluateMicroMask m)) := by
  have hl := normIndex_minus_one n hn
  unfold Gen.Funcs2.evaluate_micro_mask
  simp only []
  rw [index_row hs (-1) (n - 1) hl, bind_ok, range_one_nat]
  -- first sum: the last column
  rw [sumM_map (List.range (n - 1)) _ _ (fun k => get2 m (k + 1) (n - 1))
    (by
      intro k hk
      rw [List.mem_range] at hk
      exact index_cell hs _ (-1) (k + 1) (n - 1) (normIndex_one_add n k hk) hl), bind_ok]
  -- second sum: the last row
  rw [sumM_map (List.range (n - 1)) _ _ (fun k => get2 m (n - 1) (k + 1))
    (by
      intro k hk
      rw [List.mem_range] at hk
      have h := index_cell hs (-1) ((1 : Int) + Int.ofNat k) (n - 1) (k + 1) hl (normIndex_one_add n k hk)
      rw [index_row hs (-1) (n - 1) hl, bind_ok] at h
      exact h), bind_ok]
  unfold Model.evaluateMicroMask
  simp only [hs.size]
  generalize sumNat (List.map (fun k => get2 m (k + 1) (n - 1)) (List.range (n - 1))) = s1
  generalize sumNat (List.map (fun k => get2 m (n - 1) (k + 1)) (List.range (n - 1))) = s2
  congr 1
  simp only [Int.ofNat_eq_natCast]
  by_cases h : s1 ≤ s2
  · have h' : (s1 : Int) ≤ (s2 : Int) := by omega
    rw [if_pos h, if_pos (decide_eq_true h')]
    push_cast
    rfl
  · have h' : ¬ (s1 : Int) ≤ (s2 : Int) := by omega
    rw [if_neg h, if_neg (by simpa using h')]
    push_cast
    rfl

end Proofs.TieA2
