/-
  Proofs.EncodeCoreTotal — every stage of `_encode` (`Model.encodeCore`) on content that fits: the stage returns a
  value, or its only error is ValueError.  Used by Props/C14NoCrash.lean (`encodeCore_crash_free`).
-/
import Props.C14
import Proofs.Idempotent
import Proofs.Sizing
import Proofs.Stream

namespace Proofs.EncodeCoreTotal
open Model Proofs.ArgsLemmas Proofs.EncodeStages

set_option linter.unusedVariables false
set_option linter.unusedSimpArgs false

/-! ### generic plumbing -/

theorem mapM_err {α β : Type} (f : α → R β) : ∀ (l : List α) (e : PyErr), l.mapM f = .error e →
    ∃ s ∈ l, f s = .error e := by
  intro l
  induction l with
  | nil => intro e h; simp [pure, Except.pure] at h
  | cons a t ih =>
    intro e h
    rw [List.mapM_cons] at h
    rcases bind_err h with h | ⟨y, hy, h⟩
    · exact ⟨a, List.mem_cons_self .., h⟩
    · rcases bind_err h with h | ⟨ys, hys, h⟩
      · obtain ⟨s, hs, he⟩ := ih e h
        exact ⟨s, List.mem_cons_of_mem _ hs, he⟩
      · cases h

theorem mapM_some_all {α β : Type} (f : α → Option β) : ∀ (l : List α) (r : List β), l.mapM f = some r →
    ∀ s ∈ l, (f s).isSome = true := by
  intro l
  induction l with
  | nil => intro r _ s hs; cases hs
  | cons a t ih =>
    intro r h s hs
    rw [List.mapM_cons] at h
    cases hfa : f a with
    | none => simp [hfa] at h
    | some b =>
      cases ht : t.mapM f with
      | none => simp [hfa, ht] at h
      | some bs =>
        rcases List.mem_cons.1 hs with rfl | hs
        · simp [hfa]
        · exact ih bs ht s hs

theorem lookup2_mem {α : Type} (t : List (Int × Int × α)) (a b : Int) (x : α) (h : lookup2 t a b = some x) :
    (a, b, x) ∈ t := by
  unfold lookup2 at h
  rw [Option.map_eq_some_iff] at h
  obtain ⟨y, hy, rfl⟩ := h
  have hp := List.find?_some hy
  have hm := List.mem_of_find?_eq_some hy
  simp only [Bool.and_eq_true, beq_iff_eq] at hp
  obtain ⟨y1, y2, y3⟩ := y
  simp only [] at hp
  obtain ⟨rfl, rfl⟩ := hp
  exact hm

/-! ### the version range and the level after boosting -/

theorem fits_range {segs : List Segment} {er : Option Nat} {eci : Bool} {v : Int} (h : Fits segs er eci v) :
    -3 ≤ v ∧ v ≤ 40 := by
  obtain ⟨cap, bl, hc, -, -⟩ := h
  obtain ⟨h1, h2, -, -⟩ := Proofs.Stream.cap_facts _ hc
  exact ⟨h1, h2⟩

/-- every level `boost_error_level` may try has a capacity entry (M2 … 40) -/
theorem boost_levels_capacity :
    (List.range 43).all (fun k =>
      (Proofs.Sizing.boostLevels ((k : Int) - 2)).all (fun l => (capacity ((k : Int) - 2) (some l)).isSome)) = true := by
  decide +kernel

theorem boost_levels_cap (v : Int) (h1 : -2 ≤ v) (h2 : v ≤ 40) :
    ∀ l ∈ Proofs.Sizing.boostLevels v, (capacity v (some l)).isSome = true := by
  have := List.all_eq_true.1 boost_levels_capacity (v + 2).toNat (List.mem_range.2 (by omega))
  have hv : (((v + 2).toNat : Nat) : Int) - 2 = v := by omega
  rw [hv] at this
  exact List.all_eq_true.1 this

theorem go_no_err (v : Int) (d : Nat) : ∀ (ls : List Nat) (cur : Nat) (e : PyErr),
    (∀ l ∈ ls, (capacity v (some l)).isSome = true) → boostErrorLevel.go v d cur ls ≠ .error e := by
  intro ls
  induction ls with
  | nil => intro cur e _ h; simp [boostErrorLevel.go, pure, Except.pure] at h
  | cons l t ih =>
    intro cur e hl h
    simp only [boostErrorLevel.go] at h
    split at h
    · rename_i hc
      have := hl l (List.mem_cons_self ..)
      rw [hc] at this; cases this
    · split at h
      · exact ih l e (fun x hx => hl x (List.mem_cons_of_mem _ hx)) h
      · cases h

/-- `boost_error_level` on fitting content: ValueError (a level the version does not know) at most -/
theorem boost_err (v : Int) (e0 : Nat) (segs : List Segment) (eci : Bool) (d cap : Nat) (e : PyErr)
    (hd : bitLengthWithOverhead segs v eci false = some d) (hcap : capacity v (some e0) = some cap)
    (h : boostErrorLevel v (some e0) segs eci false = .error e) : e = .valueError := by
  obtain ⟨h1, h2, -, h4⟩ := Proofs.Idempotent.capacity_facts v (some e0) cap hcap
  have hv3 : v ≠ -3 := h4 rfl
  rw [Proofs.Sizing.boost_eq, hd] at h
  split at h
  · cases h
  · dsimp only at h
    split at h
    · split at h
      · cases h
      · rename_i x hg
        cases h
        exfalso
        refine go_no_err v d _ e0 _ ?_ hg
        intro l hl
        exact boost_levels_cap v (by omega) h2 l (List.mem_of_mem_drop hl)
    · cases h; rfl

/-! ### `write_segment` -/

theorem micro_modes_ok :
    Gen.CHAR_COUNT_INDICATOR_LENGTH.all (fun x =>
      !(x.2.1 == -2 || x.2.1 == -1 || x.2.1 == 0) || (assoc Gen.MODE_TO_MICRO_MODE_MAPPING x.1).isSome) = true := by
  decide +kernel

theorem cciLen_mem (m : Nat) (r : Int) (c : Nat) (h : cciLen m r = some c) : (m, r, c) ∈ Gen.CHAR_COUNT_INDICATOR_LENGTH := by
  unfold cciLen at h
  rw [Option.map_eq_some_iff] at h
  obtain ⟨y, hy, rfl⟩ := h
  have hp := List.find?_some hy
  have hm := List.mem_of_find?_eq_some hy
  simp only [Bool.and_eq_true, beq_iff_eq] at hp
  obtain ⟨y1, y2, y3⟩ := y
  simp only [] at hp
  obtain ⟨rfl, rfl⟩ := hp
  exact hm

theorem micro_mode_some (m : Nat) (v : Int) (c : Nat) (h1 : -3 < v) (h2 : v < 1) (h : cciLen m v = some c) :
    (assoc Gen.MODE_TO_MICRO_MODE_MAPPING m).isSome = true := by
  have := List.all_eq_true.1 micro_modes_ok _ (cciLen_mem m v c h)
  simp only [Bool.or_eq_true, Bool.not_eq_true', beq_iff_eq] at this
  rcases this with h | h
  · simp only [Bool.or_eq_false_iff, beq_eq_false_iff_ne] at h
    omega
  · exact h

/-- `write_segment` with a defined character count indicator: ValueError (no ECI assignment number) at most -/
theorem writeSegment_err (s : Segment) (v : Int) (eci : Bool) (f : String → Option Nat) (e : PyErr)
    (hv : -3 ≤ v) (hc : (cciLen s.mode (if v > 0 then Gen.version_range v else v)).isSome = true)
    (h : writeSegment s v eci f = .error e) : e = .valueError := by
  have hr : (if v < 1 then v else Gen.version_range v) = (if v > 0 then Gen.version_range v else v) := by
    by_cases hv1 : v < 1
    · have : ¬ v > 0 := by omega
      simp [hv1, this]
    · have : v > 0 := by omega
      simp [hv1, this]
  obtain ⟨c, hc⟩ := Option.isSome_iff_exists.1 hc
  have hmm : ¬ (!decide (v < 1)) = true → v > Gen.VERSION_M1 →
      ∃ mm, assoc Gen.MODE_TO_MICRO_MODE_MAPPING s.mode = some mm := by
    intro hm1 hm3
    have hv1 : v < 1 := by simpa using hm1
    have hv3 : -3 < v := by simpa [Gen.VERSION_M1] using hm3
    have hc' : cciLen s.mode v = some c := by
      have : ¬ v > 0 := by omega
      simpa [this] using hc
    exact Option.isSome_iff_exists.1 (micro_mode_some s.mode v c hv3 hv1 hc')
  unfold writeSegment at h
  simp only [hr, hc, bind, Except.bind, pure, Except.pure, throw, throwThe, MonadExceptOf.throw] at h
  by_cases hm1 : (!decide (v < 1)) = true
  · simp only [hm1, if_true] at h
    repeat' split at h
    all_goals first | (cases h; rfl) | (cases h; done)
  · by_cases hm3 : v > Gen.VERSION_M1
    · obtain ⟨mm, hmm⟩ := hmm hm1 hm3
      simp only [hm1, hm3, hmm, if_true, if_false] at h
      repeat' split at h
      all_goals first | (cases h; rfl) | (cases h; done)
    · simp only [hm1, hm3, if_true, if_false] at h
      repeat' split at h
      all_goals first | (cases h; rfl) | (cases h; done)

theorem bitLength_cci (segs : List Segment) (v : Int) (eci sa : Bool) (bl : Nat)
    (h : bitLengthWithOverhead segs v eci sa = some bl) :
    ∀ s ∈ segs, (cciLen s.mode (if v > 0 then Gen.version_range v else v)).isSome = true := by
  unfold bitLengthWithOverhead at h
  cases hm : segs.mapM (fun s => cciLen s.mode (if v > 0 then Gen.version_range v else v)) with
  | none => simp [hm, bind, Option.bind] at h
  | some r => exact mapM_some_all _ segs r hm

theorem writeSegments_err (segs : List Segment) (v : Int) (eci : Bool) (f : String → Option Nat) (e : PyErr) (bl : Nat)
    (hv : -3 ≤ v) (hb : bitLengthWithOverhead segs v eci false = some bl)
    (h : segs.mapM (fun s => writeSegment s v eci f) = .error e) : e = .valueError := by
  obtain ⟨s, hs, he⟩ := mapM_err _ segs e h
  exact writeSegment_err s v eci f e hv (bitLength_cci segs v eci false bl hb s hs) he

/-! ### `make_final_message` -/

/-- same keys in Table 7 and Table 9 as the code holds them -/
theorem ecc_keys : Gen.SYMBOL_CAPACITY.all (fun x => (lookup2 Gen.ECC x.1 x.2.1).isSome) = true := by
  decide +kernel

theorem eccInfo_some (v : Int) (e : Option Nat) (cap : Nat) (h : capacity v e = some cap) :
    ∃ infos, eccInfo v e = some infos ∧ (v, lvlKey e, infos) ∈ Gen.ECC := by
  have hm := Proofs.Idempotent.capacity_mem v e cap h
  have := List.all_eq_true.1 ecc_keys _ hm
  obtain ⟨infos, hi⟩ := Option.isSome_iff_exists.1 this
  exact ⟨infos, hi, lookup2_mem _ _ _ _ hi⟩

/-- M1 / M3: the first block exists and has at least one data codeword -/
theorem ecc_m13 :
    Gen.ECC.all (fun e => !(e.1 == -3 || e.1 == -1) ||
      (match e.2.2 with
       | b :: _ => decide (1 ≤ b.1) && decide (1 ≤ b.2.2)
       | [] => false)) = true := by
  decide +kernel

def shapesOf (ecInfos : List (Nat × Nat × Nat)) : List (Nat × Nat) :=
  (ecInfos.map (fun e => List.replicate e.1 (e.2.2, e.2.1 - e.2.2))).flatten

theorem shapes_gen (v l : Int) (infos : List (Nat × Nat × Nat)) (hm : (v, l, infos) ∈ Gen.ECC) :
    ∀ p ∈ shapesOf infos, (assoc Gen.GEN_POLY p.2).isSome = true := by
  have := List.all_eq_true.1 Props.C03.gen_poly_covers_table9 _ hm
  have hb := List.all_eq_true.1 this
  intro p hp
  unfold shapesOf at hp
  simp only [List.mem_flatten, List.mem_map] at hp
  obtain ⟨l', ⟨b, hbm, rfl⟩, hp⟩ := hp
  have := List.eq_of_mem_replicate hp
  subst this
  have h2 := hb b hbm
  simpa [assoc] using h2

theorem makeBlocks_go_ok : ∀ (shapes : List (Nat × Nat)) (cws : List Nat),
    (∀ p ∈ shapes, (assoc Gen.GEN_POLY p.2).isSome = true) →
    ∃ ds es, makeBlocks.go cws shapes = .ok (ds, es) ∧
      ∀ p rest, shapes = p :: rest → ∃ ds', ds = cws.take p.1 :: ds' := by
  intro shapes
  induction shapes with
  | nil => intro cws _; exact ⟨[], [], rfl, by intro p rest h; cases h⟩
  | cons p t ih =>
    intro cws h
    obtain ⟨nd, ne⟩ := p
    obtain ⟨gen, hg⟩ := Option.isSome_iff_exists.1 (h (nd, ne) (List.mem_cons_self ..))
    obtain ⟨ds, es, hgo, -⟩ := ih (cws.drop nd) (fun q hq => h q (List.mem_cons_of_mem _ hq))
    refine ⟨cws.take nd :: ds, rsRemainder gen (cws.take nd) ne :: es, ?_, ?_⟩
    · simp only [makeBlocks.go, hg, hgo, bind, Except.bind, pure, Except.pure]
    · intro p rest hpr
      cases hpr
      exact ⟨ds, rfl⟩

theorem toInts_ne_nil (f : Nat) (b : Nat) (bs : List Nat) : toInts (f + 1) (b :: bs) ≠ [] := by
  simp [toInts]

/-- `make_final_message` never fails when the level has a capacity entry (M1 / M3: and the stream is not empty) -/
theorem makeFinalMessage_ok (v : Int) (e : Option Nat) (cap : Nat) (stream : List Nat)
    (hcap : capacity v e = some cap) (hs : isM1M3 v = true → stream ≠ []) :
    ∃ r, makeFinalMessage v e stream = .ok r := by
  obtain ⟨infos, hi, hmem⟩ := eccInfo_some v e cap hcap
  obtain ⟨ds, es, hgo, hhead⟩ := makeBlocks_go_ok (shapesOf infos) (toInts (stream.length + 1) stream)
    (shapes_gen _ _ infos hmem)
  have hmb : makeBlocks infos (toInts (stream.length + 1) stream) = .ok (ds, es) := hgo
  unfold makeFinalMessage
  simp only [hi, hmb, bind, Except.bind, pure, Except.pure]
  cases hm : isM1M3 v with
  | false => exact ⟨_, rfl⟩
  | true =>
    -- the first data block is not empty
    have h13 := List.all_eq_true.1 ecc_m13 _ hmem
    have hv : ((v == -3 || v == -1) = true) := hm
    simp only [hv, Bool.not_true, Bool.false_or] at h13
    cases infos with
    | nil => cases h13
    | cons b bt =>
      simp only [Bool.and_eq_true, decide_eq_true_eq] at h13
      obtain ⟨c, t, d⟩ := b
      simp only [] at h13
      obtain ⟨k, hk⟩ : ∃ k, c = k + 1 := ⟨c - 1, by omega⟩
      subst hk
      obtain ⟨ds', hds⟩ := hhead (d, t - d) (List.replicate k (d, t - d) ++ shapesOf bt)
        (by simp [shapesOf, List.replicate_succ])
      subst hds
      have hne := hs hm
      cases stream with
      | nil => exact absurd rfl hne
      | cons x xs =>
        have hcw : toInts ((x :: xs).length + 1) (x :: xs) ≠ [] := toInts_ne_nil _ _ _
        have hblock : List.take d (toInts ((x :: xs).length + 1) (x :: xs)) ≠ [] := by
          intro h0
          rw [List.take_eq_nil_iff] at h0
          rcases h0 with h0 | h0
          · omega
          · exact hcw h0
        obtain ⟨lastCw, hl⟩ : ∃ y, (List.take d (toInts ((x :: xs).length + 1) (x :: xs))).getLast? = some y := by
          cases hq : (List.take d (toInts ((x :: xs).length + 1) (x :: xs))).getLast? with
          | none => exact absurd (List.getLast?_eq_none_iff.1 hq) hblock
          | some y => exact ⟨y, rfl⟩
        simp only [hl]
        exact ⟨_, rfl⟩

/-- M1 / M3: the stream has at least `cap` bits (so it is not empty) -/
theorem finish_m13_length (buff s : List Nat) (v : Int) (cap : Nat) (h1 : -3 ≤ v) (h2 : v ≤ 40)
    (hf : Spec.fourBitFinal v = true) (h : finishStream buff v cap = .ok s) : cap ≤ s.length := by
  rw [Proofs.Stream.finish_m13 buff v cap h1 h2 hf] at h
  cases h
  simp only [List.length_append, List.length_replicate, Proofs.Stream.padCodewords_length]
  omega

/-! ### matrix stages -/

/-- the alignment pattern row of the version that `add_alignment_patterns` recomputes from the matrix size exists
    and is not empty -/
def alignOk (n : Nat) : Bool :=
  decide (Int.fdiv ((n : Int) - 17) 4 < 2) ||
  match Gen.ALIGNMENT_POS[(Int.fdiv ((n : Int) - 17) 4 - 2).toNat]? with
  | some p => p.head?.isSome && p.getLast?.isSome
  | none => false

theorem alignOk_all : (List.range 44).all (fun k => alignOk (Gen.calc_matrix_size ((k : Int) - 3)).toNat) = true := by
  decide +kernel

theorem alignOk_version (v : Int) (h1 : -3 ≤ v) (h2 : v ≤ 40) : alignOk (Gen.calc_matrix_size v).toNat = true := by
  have := List.all_eq_true.1 alignOk_all (v + 3).toNat (List.mem_range.2 (by omega))
  have hv : (((v + 3).toNat : Nat) : Int) - 3 = v := by omega
  rw [hv] at this
  exact this

theorem align_total (m : Matrix) (n : Nat) (h : alignOk n = true) : ∃ m', addAlignmentPatterns m n = .ok m' := by
  unfold alignOk at h
  unfold addAlignmentPatterns
  simp only [bind, Except.bind, pure, Except.pure]
  by_cases hv : Int.fdiv ((n : Int) - 17) 4 < 2
  · simp only [hv, if_true]; exact ⟨_, rfl⟩
  · simp only [hv, decide_false, Bool.false_or, if_false] at h ⊢
    split at h
    · rename_i p hp
      simp only [Bool.and_eq_true] at h
      obtain ⟨a, ha⟩ := Option.isSome_iff_exists.1 h.1
      obtain ⟨b, hb⟩ := Option.isSome_iff_exists.1 h.2
      simp only [hp, ha, hb]
      exact ⟨_, rfl⟩
    · cases h

theorem functionMatrix_total (n : Nat) (h : alignOk n = true) : ∃ fm, functionMatrix n = .ok fm := by
  obtain ⟨m', hm⟩ := align_total (addFinderPatterns (makeMatrix n) n) n h
  unfold functionMatrix
  simp only [hm, bind, Except.bind, pure, Except.pure]
  exact ⟨_, rfl⟩

/-- `add_codewords`: ValueError (bits left over) at most -/
theorem addCodewords_err (m : Matrix) (bits : List Nat) (v : Int) (e : PyErr) (h : addCodewords m bits v = .error e) :
    e = .valueError := by
  unfold addCodewords at h
  simp only [pure, Except.pure, throw, throwThe, MonadExceptOf.throw] at h
  split at h
  · cases h
  · cases h; rfl

theorem foldl_isSome {α β : Type} (f : Option β → α → Option β) (hf : ∀ b a, (f b a).isSome = true) :
    ∀ (l : List α) (b : Option β), l ≠ [] → (l.foldl f b).isSome = true := by
  intro l
  induction l with
  | nil => intro b h; exact absurd rfl h
  | cons a t ih =>
    intro b _
    cases t with
    | nil => exact hf b a
    | cons a' t' => exact ih (f b a) (by simp)

theorem fabm_match {α : Type} (F : Option (Nat × Nat × Matrix) → α → Option (Nat × Nat × Matrix))
    (hF : ∀ b a, (F b a).isSome = true) (l : List α) (hl : l ≠ []) :
    ∃ r, (match l.foldl F none with
          | some (_, k, bm) => (Except.ok (k, bm) : R (Nat × Matrix))
          | none => Except.error PyErr.typeError) = .ok r := by
  obtain ⟨r, hr⟩ := Option.isSome_iff_exists.1 (foldl_isSome F hF l none hl)
  obtain ⟨s, k, bm⟩ := r
  exact ⟨(k, bm), by rw [hr]⟩

theorem maskPatterns_length (b : Bool) : (maskPatterns b).length = if b then 4 else 8 := by
  cases b <;> rfl

/-- `find_and_apply_best_mask` never fails for a mask in range -/
theorem fabm_total (m : Matrix) (mask : Option Nat) (hal : alignOk m.size = true)
    (hmask : ∀ mk, mask = some mk → mk < (maskPatterns (decide (m.size < 21))).length) :
    ∃ r, findAndApplyBestMask m mask = .ok r := by
  obtain ⟨fm, hfm⟩ := functionMatrix_total m.size hal
  unfold findAndApplyBestMask
  simp only [hfm, bind, Except.bind, pure, Except.pure]
  cases mask with
  | some p =>
    have hp := hmask p rfl
    obtain ⟨pat, hpat⟩ : ∃ pat, (maskPatterns (decide (m.size < 21)))[p]? = some pat :=
      ⟨_, List.getElem?_eq_getElem hp⟩
    simp only [hpat]
    exact ⟨_, rfl⟩
  | none =>
    simp only []
    have hne : (maskPatterns (decide (m.size < 21))).zipIdx ≠ [] := by
      intro h0
      have := congrArg List.length h0
      rw [List.length_zipIdx, maskPatterns_length] at this
      split at this <;> cases this
    refine fabm_match _ ?_ _ hne
    intro b a
    obtain ⟨pat, k⟩ := a
    cases b with
    | none => rfl
    | some t =>
      obtain ⟨bs, bk, bm⟩ := t
      simp only []
      repeat' split
      all_goals rfl

theorem format_lengths : Gen.FORMAT_INFO.length = 32 ∧ Gen.FORMAT_INFO_MICRO.length = 32 ∧ Gen.VERSION_INFO.length = 34 := by
  decide

/-- every Micro QR (version, level) with a capacity entry has a symbol number (below 8) -/
theorem micro_map_ok :
    Gen.SYMBOL_CAPACITY.all (fun x => decide (x.1 > 0) ||
      (match lookup2 Gen.ERROR_LEVEL_TO_MICRO_MAPPING x.1 x.2.1 with
       | some s => decide (s < 8)
       | none => false)) = true := by
  decide +kernel

theorem calcFormatInfo_total (v : Int) (e : Option Nat) (cap mk : Nat) (hcap : capacity v e = some cap)
    (h8 : mk < 8) (h4 : v < 1 → mk < 4) : ∃ w, calcFormatInfo v e mk = .ok w := by
  obtain ⟨l1, l2, -⟩ := format_lengths
  unfold calcFormatInfo
  simp only [bind, Except.bind, pure, Except.pure]
  by_cases hv : v > 0
  · simp only [hv, if_true]
    have hlt : mk + (if e == some Gen.ERROR_LEVEL_L then 0x08 else if e == some Gen.ERROR_LEVEL_H then 0x10
        else if e == some Gen.ERROR_LEVEL_Q then 0x18 else 0) < Gen.FORMAT_INFO.length := by
      rw [l1]; repeat' split
      all_goals omega
    rw [List.getElem?_eq_getElem hlt]
    exact ⟨_, rfl⟩
  · simp only [hv, if_false]
    have hm := Proofs.Idempotent.capacity_mem v e cap hcap
    have := List.all_eq_true.1 micro_map_ok _ hm
    simp only [hv, decide_false, Bool.false_or] at this
    split at this
    · rename_i s hs
      have hs8 : s < 8 := by simpa using this
      have hmk : mk < 4 := h4 (by omega)
      have hlt : mk + (s <<< 2) < Gen.FORMAT_INFO_MICRO.length := by
        rw [l2, Nat.shiftLeft_eq]; omega
      simp only [hs]
      rw [List.getElem?_eq_getElem hlt]
      exact ⟨_, rfl⟩
    · cases this

theorem addFormatInfo_total (m : Matrix) (v : Int) (e : Option Nat) (cap mk : Nat) (hcap : capacity v e = some cap)
    (h8 : mk < 8) (h4 : v < 1 → mk < 4) : ∃ m', addFormatInfo m v e mk = .ok m' := by
  obtain ⟨w, hw⟩ := calcFormatInfo_total v e cap mk hcap h8 h4
  unfold addFormatInfo
  simp only [hw, bind, Except.bind, pure, Except.pure]
  exact ⟨_, rfl⟩

theorem addVersionInfo_total (m : Matrix) (v : Int) (h2 : v ≤ 40) : ∃ m', addVersionInfo m v = .ok m' := by
  obtain ⟨-, -, l3⟩ := format_lengths
  unfold addVersionInfo
  simp only [bind, Except.bind, pure, Except.pure]
  by_cases hv : v < 7
  · simp only [hv, if_true]; exact ⟨_, rfl⟩
  · simp only [hv, if_false]
    have hlt : (v - 7).toNat < Gen.VERSION_INFO.length := by rw [l3]; omega
    rw [List.getElem?_eq_getElem hlt]
    exact ⟨_, rfl⟩

/-! ### the chain -/

/-- `_encode` up to the mask selection: ValueError at most -/
theorem preMatrix_err (segs : List Segment) (e' : Option Nat) (v : Int) (eci : Bool) (f : String → Option Nat)
    (cap bl : Nat) (err : PyErr) (hb : bitLengthWithOverhead segs v eci false = some bl)
    (hcap : capacity v e' = some cap) (h : Proofs.Idempotent.preMatrix segs e' v eci f = .error err) :
    err = .valueError := by
  obtain ⟨hv1, hv2, hc4, -⟩ := Proofs.Stream.cap_facts _ hcap
  unfold Proofs.Idempotent.preMatrix at h
  rcases bind_err h with h | ⟨segBits, _, h⟩
  · exact writeSegments_err segs v eci f err bl hv1 hb h
  simp only [hcap] at h
  rcases bind_err h with h | ⟨stream, hst, h⟩
  · obtain ⟨s, hs⟩ := Proofs.Stream.finish_total v cap ([] ++ segBits.flatten) hv1 hv2
    rw [hs] at h; cases h
  rcases bind_err h with h | ⟨final, _, h⟩
  · obtain ⟨r, hr⟩ := makeFinalMessage_ok v e' cap stream hcap (by
      intro hm
      have hf : Spec.fourBitFinal v = true := hm
      have hlen := finish_m13_length _ stream v cap hv1 hv2 hf hst
      have := (hc4 hf).2
      intro h0
      rw [h0] at hlen
      simp at hlen
      omega)
    rw [hr] at h; cases h
  rcases bind_err h with h | ⟨m0, _, h⟩
  · obtain ⟨m', hm'⟩ := align_total (addFinderPatterns (makeMatrix (Gen.calc_matrix_size v).toNat) (Gen.calc_matrix_size v).toNat)
      (Gen.calc_matrix_size v).toNat (alignOk_version v hv1 hv2)
    rw [hm'] at h; cases h
  · exact addCodewords_err _ _ _ _ h

theorem size_lt_21 (v : Int) (h : (Gen.calc_matrix_size v).toNat < 21) : v < 1 := by
  unfold Gen.calc_matrix_size at h
  by_cases hv : v > 0
  · simp only [hv, decide_true, if_true] at h; omega
  · omega

/-- `_encode` without boosting, at a level with a capacity entry: ValueError at most -/
theorem encodeCore_false_err (segs : List Segment) (e' : Option Nat) (v : Int) (mask : Option Nat) (eci : Bool)
    (f : String → Option Nat) (cap bl : Nat) (err : PyErr)
    (hb : bitLengthWithOverhead segs v eci false = some bl) (hcap : capacity v e' = some cap) (hmask : MaskOk v mask)
    (h : encodeCore segs e' v mask eci false f = .error err) : err = .valueError := by
  obtain ⟨hv1, hv2, -, -⟩ := Proofs.Stream.cap_facts _ hcap
  rw [Proofs.Idempotent.encodeCore_false] at h
  rcases bind_err h with h | ⟨m1, hm1, h⟩
  · exact preMatrix_err segs e' v eci f cap bl err hb hcap h
  have hsize := Proofs.Idempotent.preMatrix_size segs e' v eci f m1 hm1
  rcases bind_err h with h | ⟨x, hx, h⟩
  · exfalso
    obtain ⟨r, hr⟩ := fabm_total m1 mask (by rw [hsize]; exact alignOk_version v hv1 hv2) (by
      intro mk hmk
      obtain ⟨h8, h4⟩ := hmask mk hmk
      rw [maskPatterns_length]
      split
      · rename_i hlt
        have : m1.size < 21 := by simpa using hlt
        rw [hsize] at this
        exact h4 (size_lt_21 v this)
      · exact h8)
    rw [hr] at h; cases h
  obtain ⟨k, m2⟩ := x
  obtain ⟨-, hk⟩ := Proofs.Idempotent.fabm_idem m1 mask k m2 hx
  obtain ⟨h8, h4⟩ := Proofs.Idempotent.mask_bound v m1.size k hsize hk
  rcases bind_err h with h | ⟨m3, _, h⟩
  · obtain ⟨m', hm'⟩ := addFormatInfo_total m2 v e' cap k hcap h8 h4
    simp only [] at h
    rw [hm'] at h; cases h
  rcases bind_err h with h | ⟨m4, _, h⟩
  · obtain ⟨m', hm'⟩ := addVersionInfo_total m3 v hv2
    rw [hm'] at h; cases h
  · cases h

/-- **`_encode` on fitting segments and a mask in range ends in a symbol or in ValueError** -/
theorem encodeCore_err (segs : List Segment) (er : Option Nat) (v : Int) (mask : Option Nat) (eci boost : Bool)
    (f : String → Option Nat) (err : PyErr) (hfit : Fits segs er eci v) (hmask : MaskOk v mask)
    (h : encodeCore segs (defaultLevel er v) v mask eci boost f = .error err) : err = .valueError := by
  obtain ⟨cap, bl, hcap, hb, hle⟩ := hfit
  rw [Proofs.Idempotent.encodeCore_boost] at h
  rcases bind_err h with h | ⟨e'', hb', h⟩
  · cases boost with
    | false => cases h
    | true =>
      simp only [if_true] at h
      cases hd : defaultLevel er v with
      | none => rw [hd] at h; cases h
      | some e0 =>
        rw [hd] at h hcap
        exact boost_err v e0 segs eci bl cap err hb hcap h
  · have hcap' : ∃ cap', capacity v e'' = some cap' := by
      cases boost with
      | false => cases hb'; exact ⟨cap, hcap⟩
      | true =>
        simp only [if_true] at hb'
        rcases Proofs.Idempotent.boost_inv v _ e'' segs eci hb' with rfl | ⟨-, c, -, hc, -, -⟩
        · exact ⟨cap, hcap⟩
        · exact ⟨c, hc⟩
    obtain ⟨cap', hcap'⟩ := hcap'
    exact encodeCore_false_err segs e'' v mask eci f cap' bl err hb hcap' hmask h

end Proofs.EncodeCoreTotal
