/-
  Proofs.TieA2Blocks — `make_blocks` (translated, Gen/Funcs2.lean: Reed-Solomon error correction blocks by extended
  synthetic division with in-place XOR updates of a bytearray) against `Model.makeBlocks` (`rsRemainder` / `rsLoop` /
  `rsStep` on lists, table access totalised with `getD`).

  Stage 1: `Buffer.toints()` of the translation is the model's on 0/1 streams; all codewords are bytes.
  Stage 2: `for n in range_error_words` at a fixed k is `zipWith xor` on the part behind position k (`rsStep`).
  Stage 3: `for k in range(len_data)`: processed bytes ++ the model's list after k steps of `rsLoop`.
  Stage 4: the blocks of one EC information (Python appends, the model conses in a recursion).
  Stage 5: the list of EC informations; `KeyError` for a missing generator polynomial on both sides.
-/
import Gen.Funcs2
import Proofs.TieA2
import Proofs.TieA2Scores
import Proofs.Message
import Proofs.RSField
import Model.Encoder

set_option linter.unusedVariables false

namespace Proofs.TieA2
open Gen.Py Proofs.TieA Model
open Gen.Funcs2 (T_consts_GALIOS_EXP T_consts_GALIOS_LOG T_consts_GEN_POLY)

/-- the EC information of the model as translated code sees it -/
def ecI (ecs : List (Nat × Nat × Nat)) : List (Int × Int × Int) :=
  ecs.map (fun e => ((e.1 : Int), (e.2.1 : Int), (e.2.2 : Int)))

/-- body of `for n in range_error_words` -/
def mbNBody (t1 : List Int) (k t5 : Int) (acc : List Int) (n : Int) : M (List Int) :=
  let j : Int := (k + n) + 1
  Gen.Py.bind (index acc j) (fun t6 =>
    Gen.Py.bind (index t1 n) (fun t7 =>
      Gen.Py.bind (index T_consts_GALIOS_EXP (t5 + t7)) (fun t8 =>
        setItem acc j (bxor t6 t8))))

def mbKBody (t1 : List Int) (rew : List Int) (acc : List Int) (k : Int) : M (List Int) :=
  Gen.Py.bind (index acc k) (fun t4 =>
    if (!(t4 == (0:Int))) then
      Gen.Py.bind (index T_consts_GALIOS_LOG t4) (fun t5 =>
        Gen.Py.bind (foldlM rew acc (mbNBody t1 k t5)) (fun st => .ok st))
    else .ok acc)

abbrev MbSt := List Int × List (List Int) × List (List Int)

def mbBlockBody (t1 : List Int) (new : Int) (nd : Int) (acc : MbSt) (i : Int) : M MbSt :=
  Gen.Py.bind (isliceN acc.1 nd) (fun t2 =>
    Gen.Py.bind (checkBytes t2.1) (fun _ =>
      Gen.Py.bind (foldlM (range 0 (Int.ofNat t2.1.length)) (t2.1 ++ List.replicate new.toNat (0:Int)) (mbKBody t1 (range 0 new))) (fun st =>
        .ok (t2.2, acc.2.1 ++ [t2.1], acc.2.2 ++ [slice st (some (Int.ofNat t2.1.length)) none]))))

def mbEcBody (acc : MbSt) (e : Int × Int × Int) : M MbSt :=
  Gen.Py.bind (lookup T_consts_GEN_POLY (e.2.1 - e.2.2)) (fun t1 =>
    Gen.Py.bind (foldlM (range 0 e.1) (acc.1, acc.2.1, acc.2.2) (mbBlockBody t1 (e.2.1 - e.2.2) e.2.2)) (fun st => .ok (st.1, st.2.1, st.2.2)))

theorem mb_make_blocks_unfold (ec : List (Int × Int × Int)) (buff : List Int) :
    Gen.Funcs2.make_blocks ec buff =
      Gen.Py.bind (foldlM ec (Gen.Py.toInts (buff.length + 1) buff, [], []) mbEcBody) (fun st => .ok (st.2.1, st.2.2)) := rfl

theorem mb_log_tab : T_consts_GALIOS_LOG = toI Gen.GALIOS_LOG := by decide +kernel
theorem mb_exp_tab : T_consts_GALIOS_EXP = toI Gen.GALIOS_EXP := by decide +kernel
theorem mb_gen_tab : T_consts_GEN_POLY = Gen.GEN_POLY.map (fun p => ((p.1 : Int), toI p.2)) := by decide +kernel
theorem mb_gen_facts : ∀ p ∈ Gen.GEN_POLY, p.2.length = p.1 ∧ ∀ g ∈ p.2, g ≤ 255 := by decide +kernel
theorem mb_log_len : Gen.GALIOS_LOG.length = 256 := by decide +kernel
theorem mb_exp_len : Gen.GALIOS_EXP.length = 510 := by decide +kernel


/-! ### stage 1: codewords -/

theorem mb_foldl_bits (l : List Nat) (a : Nat) :
    (toI l).foldl (fun acc b => acc * 2 + b) (a : Int) = ((l.foldl (fun acc b => acc * 2 + b) a : Nat) : Int) := by
  induction l generalizing a with
  | nil => rfl
  | cons b l ih =>
    simp only [toI_cons, List.foldl_cons]
    have : (a : Int) * 2 + (b : Int) = ((a * 2 + b : Nat) : Int) := by push_cast; rfl
    rw [this, ih]

theorem mb_toI_take (n : Nat) (l : List Nat) : toI (l.take n) = (toI l).take n := by simp [toI, List.map_take]
theorem mb_toI_drop (n : Nat) (l : List Nat) : toI (l.drop n) = (toI l).drop n := by simp [toI, List.map_drop]

theorem mb_toInts_toI : ∀ (f : Nat) (bits : List Nat), Gen.Py.toInts f (toI bits) = toI (Model.toInts f bits)
  | 0, _ => rfl
  | f + 1, [] => rfl
  | f + 1, b :: bs => by
    have ih := mb_toInts_toI f ((b :: bs).drop 8)
    rw [Proofs.Message.toInts_succ f (b :: bs) (by simp)]
    rw [toI_cons, toI_cons, ← ih]
    show (List.foldl (fun acc b => acc * 2 + b) 0 _) :: _ = _
    rw [← toI_cons, ← mb_toI_take, ← mb_toI_drop, toI_length]
    congr 1
    have := mb_foldl_bits (List.take 8 (b :: bs) ++ List.replicate (8 - (List.take 8 (b :: bs)).length) 0) 0
    rw [toI_append, toI_replicate] at this
    exact this

theorem mb_checkBytes_toI (l : List Nat) (h : Proofs.RSField.Bytes l) : checkBytes (toI l) = .ok () := by
  unfold checkBytes
  rw [if_pos]
  simp only [toI, List.all_map, List.all_eq_true, Function.comp]
  intro x hx
  have := h x hx
  simp only [Int.ofNat_eq_natCast, decide_eq_true_eq]
  omega


/-! ### stage 2: `for n in range_error_words` -/

theorem mb_set_mid (P R : List Nat) (r v : Nat) : (P ++ r :: R).set P.length v = P ++ v :: R := by
  induction P with
  | nil => rfl
  | cons p P ih => simp [ih]

theorem mb_index_mid (P R : List Nat) (r : Nat) (i : Int) (hi : i = (P.length : Int)) :
    index (toI (P ++ r :: R)) i = .ok (r : Int) := by
  subst hi
  rw [index_toI _ _ (by simp)]
  simp

theorem mb_setItem_mid (P R : List Nat) (r v : Nat) (i : Int) (hi : i = (P.length : Int)) :
    setItem (toI (P ++ r :: R)) i (v : Int) = .ok (toI (P ++ v :: R)) := by
  subst hi
  rw [setItem_eq_of_norm _ _ P.length _ (normIndex_nat _ _ (by simp))]
  congr 1
  rw [← mb_set_mid P R r v]
  simp [toI]

theorem mb_index_exp (a : Nat) (h : a < 510) (i : Int) (hi : i = (a : Int)) :
    index T_consts_GALIOS_EXP i = .ok ((expArr.getD a 0 : Nat) : Int) := by
  subst hi
  rw [mb_exp_tab, index_toI _ _ (by rw [mb_exp_len]; exact h), Proofs.RSField.expArr_getD]
  rfl

theorem mb_index_log (a : Nat) (h : a < 256) :
    index T_consts_GALIOS_LOG (a : Int) = .ok ((logArr.getD a 0 : Nat) : Int) := by
  rw [mb_log_tab, index_toI _ _ (by rw [mb_log_len]; exact h), Proofs.RSField.logArr_getD]
  rfl

theorem mb_inner_loop (gen : List Nat) (lc k : Nat) (hlc : lc < 255) (hgen : ∀ g ∈ gen, g ≤ 255) :
    ∀ (gs gd P R : List Nat), gen = gd ++ gs → P.length = k + 1 + gd.length → gs.length ≤ R.length →
      foldlM (range (gd.length : Int) (gen.length : Int)) (toI (P ++ R)) (mbNBody (toI gen) (k : Int) (lc : Int))
        = .ok (toI (P ++ (List.zipWith (fun r g => r ^^^ expArr.getD (lc + g) 0) R gs ++ R.drop gs.length))) := by
  intro gs
  induction gs with
  | nil =>
    intro gd P R hg _ _
    rw [range_empty (by rw [hg]; simp)]
    simp [foldlM]
  | cons g gs ih =>
    intro gd P R hg hP hR
    cases R with
    | nil => simp at hR
    | cons r R =>
      have hlen : gen.length = gd.length + (gs.length + 1) := by rw [hg]; simp
      rw [range_succ (by rw [hlen]; push_cast; omega), foldlM_cons]
      have hg255 : g ≤ 255 := hgen g (by rw [hg]; simp)
      have hbody : mbNBody (toI gen) (k : Int) (lc : Int) (toI (P ++ r :: R)) (gd.length : Int)
          = .ok (toI (P ++ (r ^^^ expArr.getD (lc + g) 0) :: R)) := by
        unfold mbNBody
        simp only []
        rw [mb_index_mid P R r _ (by rw [hP]; push_cast; omega), bind_ok]
        have : gen = gd ++ g :: gs := hg
        rw [this, mb_index_mid gd gs g _ rfl, bind_ok, mb_index_exp (lc + g) (by omega) _ (by push_cast; rfl), bind_ok]
        exact mb_setItem_mid P R r _ _ (by rw [hP]; push_cast; omega)
      rw [hbody]
      simp only []
      have := ih (gd ++ [g]) (P ++ [r ^^^ expArr.getD (lc + g) 0]) R (by rw [hg]; simp) (by simp [hP]; omega)
        (by simp at hR; omega)
      simp only [List.length_append, List.length_singleton, List.append_assoc, List.singleton_append] at this
      push_cast at this
      rw [this]
      simp


/-! ### stage 3: `for k in range(len_data)` -/

open Proofs.RSField in
theorem mb_k_loop (gen : List Nat) (hgen : ∀ g ∈ gen, g ≤ 255) :
    ∀ (m : Nat) (P L : List Nat), Bytes L → m + gen.length ≤ L.length →
      ∃ P' : List Nat, P'.length = P.length + m ∧
        foldlM (range (P.length : Int) ((P.length + m : Nat) : Int)) (toI (P ++ L))
            (mbKBody (toI gen) (range 0 (gen.length : Int)))
          = .ok (toI (P' ++ rsLoop gen m L)) := by
  intro m
  induction m with
  | zero =>
    intro P L _ _
    refine ⟨P, rfl, ?_⟩
    rw [range_empty (by simp)]
    rfl
  | succ m ih =>
    intro P L hL hlen
    cases L with
    | nil => simp at hlen
    | cons c rest =>
      obtain ⟨hc, hrest⟩ := bytes_cons.mp hL
      rw [range_succ (by push_cast; omega), foldlM_cons]
      have hbody : mbKBody (toI gen) (range 0 (gen.length : Int)) (toI (P ++ c :: rest)) (P.length : Int)
          = .ok (toI ((P ++ [c]) ++ rsStep gen c rest)) := by
        unfold mbKBody
        rw [mb_index_mid P rest c _ rfl, bind_ok]
        by_cases h0 : c = 0
        · subst h0
          rw [rsStep_zero]
          simp
        · have hne : (!(((c : Nat) : Int) == (0 : Int))) = true := by
            simp only [Bool.not_eq_true', beq_eq_false_iff_ne, ne_eq]
            omega
          rw [if_pos hne, mb_index_log c hc, bind_ok]
          obtain ⟨hl, _⟩ := log_spec c h0 hc
          rw [← logArr_getD] at hl
          have := mb_inner_loop gen (logArr.getD c 0) P.length hl hgen gen [] (P ++ [c]) rest rfl (by simp)
            (by simp at hlen; omega)
          have e : P ++ c :: rest = (P ++ [c]) ++ rest := by simp
          rw [e]
          rw [show ((([] : List Nat).length : Nat) : Int) = 0 from rfl] at this
          rw [this, bind_ok, rsStep_eq gen c rest h0, List.length_zipWith,
            Nat.min_eq_right (by simp at hlen; omega)]
      rw [hbody]
      simp only []
      obtain ⟨P', hP', hf⟩ := ih (P ++ [c]) (rsStep gen c rest) (rsStep_bytes gen c rest hrest)
        (by rw [rsStep_length]; simp at hlen; omega)
      refine ⟨P', by rw [hP']; simp; omega, ?_⟩
      simp only [List.length_append, List.length_singleton] at hf
      rw [show ((P.length : Int) + 1) = ((P.length + 1 : Nat) : Int) by push_cast; rfl,
        show P.length + (m + 1) = P.length + 1 + m by omega, hf]
      rfl


/-! ### stage 4: the blocks -/

theorem mb_bytes_take {l : List Nat} (n : Nat) (h : Proofs.RSField.Bytes l) : Proofs.RSField.Bytes (l.take n) :=
  fun x hx => h x (List.mem_of_mem_take hx)

theorem mb_bytes_drop {l : List Nat} (n : Nat) (h : Proofs.RSField.Bytes l) : Proofs.RSField.Bytes (l.drop n) :=
  fun x hx => h x (List.mem_of_mem_drop hx)

theorem mb_slice_from (P X : List Nat) : slice (toI (P ++ X)) (some (Int.ofNat P.length)) none = toI X := by
  unfold slice sliceLo sliceHi clip
  simp only [toI, List.map_append, List.length_append, List.length_map]
  rw [if_neg (by simp), show (Int.ofNat P.length).toNat = P.length from rfl,
    Nat.min_eq_left (by omega), List.take_of_length_le (by simp), List.drop_left' (by simp)]

/-- one block: `islice`, the data block, the synthetic division, the error correction block -/
theorem mb_block_step (gen : List Nat) (hgen : ∀ g ∈ gen, g ≤ 255) (nd : Nat) (cws : List Nat)
    (hb : Proofs.RSField.Bytes cws) (ds es : List (List Int)) (i : Int) :
    mbBlockBody (toI gen) (gen.length : Int) (nd : Int) (toI cws, ds, es) i
      = .ok (toI (cws.drop nd), ds ++ [toI (cws.take nd)],
          es ++ [toI (rsRemainder gen (cws.take nd) gen.length)]) := by
  unfold mbBlockBody isliceN
  rw [if_neg (by omega), bind_ok]
  simp only [Int.toNat_natCast]
  rw [← mb_toI_take, ← mb_toI_drop, mb_checkBytes_toI _ (mb_bytes_take nd hb), bind_ok]
  obtain ⟨P', hP', hf⟩ := mb_k_loop gen hgen (cws.take nd).length [] (cws.take nd ++ List.replicate gen.length 0)
    (by
      intro x hx
      rcases List.mem_append.1 hx with h | h
      · exact mb_bytes_take nd hb x h
      · rw [List.eq_of_mem_replicate h]; omega)
    (by simp)
  simp only [List.length_nil, Nat.zero_add, List.nil_append, toI_append, toI_replicate, Int.ofNat_zero] at hf hP'
  rw [toI_length, Int.ofNat_eq_natCast, hf, bind_ok]
  rw [show (((cws.take nd).length : Nat) : Int) = Int.ofNat P'.length by rw [hP']; rfl, ← toI_append, mb_slice_from]
  rfl

theorem mb_lookup_gen (k : Nat) :
    lookup T_consts_GEN_POLY (k : Int) = (match assoc Gen.GEN_POLY k with
      | some g => .ok (toI g)
      | none => .error .keyError) := by
  rw [mb_gen_tab]
  generalize Gen.GEN_POLY = t
  unfold lookup assoc
  induction t with
  | nil => rfl
  | cons p t ih =>
    simp only [List.map_cons, List.find?_cons]
    have : (((p.1 : Nat) : Int) == (k : Int)) = (p.1 == k) := by
      rw [Bool.eq_iff_iff]; simp
    rw [this]
    cases p.1 == k
    · exact ih
    · rfl

/-- all blocks of one EC information -/
theorem mb_blocks_loop (gen : List Nat) (hgen : ∀ g ∈ gen, g ≤ 255) (nd : Nat)
    (hassoc : assoc Gen.GEN_POLY gen.length = some gen) :
    ∀ (xs : List Int) (cws : List Nat) (ds es : List (List Int)), Proofs.RSField.Bytes cws →
      ∃ (cws' : List Nat) (D E : List (List Nat)), Proofs.RSField.Bytes cws' ∧
        foldlM xs (toI cws, ds, es) (mbBlockBody (toI gen) (gen.length : Int) (nd : Int))
          = .ok (toI cws', ds ++ D.map toI, es ++ E.map toI) ∧
        ∀ rest, Model.makeBlocks.go cws (List.replicate xs.length (nd, gen.length) ++ rest)
          = (Model.makeBlocks.go cws' rest).map (fun p => (D ++ p.1, E ++ p.2)) := by
  intro xs
  induction xs with
  | nil =>
    intro cws ds es hb
    refine ⟨cws, [], [], hb, by simp [foldlM], ?_⟩
    intro rest
    show Model.makeBlocks.go cws rest = _
    cases Model.makeBlocks.go cws rest <;> rfl
  | cons x xs ih =>
    intro cws ds es hb
    obtain ⟨cws', D, E, hb', hf, hgo⟩ := ih (cws.drop nd) (ds ++ [toI (cws.take nd)])
      (es ++ [toI (rsRemainder gen (cws.take nd) gen.length)]) (mb_bytes_drop nd hb)
    refine ⟨cws', cws.take nd :: D, rsRemainder gen (cws.take nd) gen.length :: E, hb', ?_, ?_⟩
    · rw [foldlM_cons, mb_block_step gen hgen nd cws hb]
      simp only []
      rw [hf]
      simp
    · intro rest
      simp only [List.length_cons, List.replicate_succ, List.cons_append]
      rw [Model.makeBlocks.go.eq_2, hassoc]
      simp only []
      rw [hgo rest]
      cases Model.makeBlocks.go cws' rest <;> rfl


/-! ### stage 5: the EC information list -/

theorem mb_assoc_mem (t : List (Nat × List Nat)) (k : Nat) (g : List Nat) (h : assoc t k = some g) : (k, g) ∈ t := by
  unfold assoc at h
  cases hf : t.find? (fun x => x.1 == k) with
  | none => rw [hf] at h; simp at h
  | some p =>
    rw [hf] at h
    have h1 := List.find?_some hf
    have h2 := List.mem_of_find?_eq_some hf
    simp only [Option.map_some, Option.some.injEq] at h
    simp only [beq_iff_eq] at h1
    rw [← h1, ← h]
    exact h2

theorem mb_range_length (n : Nat) : (range 0 (n : Int)).length = n := by simp [range]

def mbShapes (ecs : List (Nat × Nat × Nat)) : List (Nat × Nat) :=
  (ecs.map (fun e => List.replicate e.1 (e.2.2, e.2.1 - e.2.2))).flatten

theorem mb_makeBlocks_go (ecs : List (Nat × Nat × Nat)) (cws : List Nat) :
    Model.makeBlocks ecs cws = Model.makeBlocks.go cws (mbShapes ecs) := rfl

theorem mb_ec_loop : ∀ (ecs : List (Nat × Nat × Nat)), (∀ e ∈ ecs, 1 ≤ e.1 ∧ e.2.2 ≤ e.2.1) →
    ∀ (cws : List Nat) (ds es : List (List Int)), Proofs.RSField.Bytes cws →
      toR (Gen.Py.bind (foldlM (ecI ecs) (toI cws, ds, es) mbEcBody) (fun st => .ok (st.2.1, st.2.2)))
        = (Model.makeBlocks.go cws (mbShapes ecs)).map (fun p => (ds ++ p.1.map toI, es ++ p.2.map toI)) := by
  intro ecs
  induction ecs with
  | nil =>
    intro _ cws ds es _
    simp [ecI, mbShapes, Model.makeBlocks.go, Except.map, pure, Except.pure]
  | cons e ecs ih =>
    intro hec cws ds es hb
    obtain ⟨nb, nt, nd⟩ := e
    obtain ⟨h1, h2⟩ := hec (nb, nt, nd) (by simp)
    simp only at h1 h2
    have hsh : mbShapes ((nb, nt, nd) :: ecs) = List.replicate nb (nd, nt - nd) ++ mbShapes ecs := by
      simp [mbShapes]
    have hI : ecI ((nb, nt, nd) :: ecs) = ((nb : Int), (nt : Int), (nd : Int)) :: ecI ecs := rfl
    rw [hsh, hI, foldlM_cons]
    have hsub : (nt : Int) - (nd : Int) = ((nt - nd : Nat) : Int) := by omega
    have hE : mbEcBody (toI cws, ds, es) ((nb : Int), (nt : Int), (nd : Int))
        = Gen.Py.bind (lookup T_consts_GEN_POLY ((nt : Int) - (nd : Int))) (fun t1 =>
            Gen.Py.bind (foldlM (range 0 (nb : Int)) (toI cws, ds, es) (mbBlockBody t1 ((nt : Int) - (nd : Int)) (nd : Int)))
              (fun st => .ok (st.1, st.2.1, st.2.2))) := rfl
    rw [hE, hsub, mb_lookup_gen]
    cases hA : assoc Gen.GEN_POLY (nt - nd) with
    | none =>
      simp only [bind_error, toR_error]
      obtain ⟨nb', rfl⟩ : ∃ k, nb = k + 1 := ⟨nb - 1, by omega⟩
      rw [List.replicate_succ, List.cons_append, Model.makeBlocks.go.eq_2, hA]
      rfl
    | some gen =>
      have hmem := mb_assoc_mem _ _ _ hA
      obtain ⟨hl, hg⟩ := mb_gen_facts _ hmem
      simp only at hl hg
      rw [← hl] at hA ⊢
      obtain ⟨cws', D, E, hb', hf, hgo⟩ := mb_blocks_loop gen hg nd hA (range 0 (nb : Int)) cws ds es hb
      rw [mb_range_length] at hgo
      simp only [bind_ok]
      rw [hf]
      simp only [bind_ok]
      rw [ih (fun e he => hec e (by simp [he])) cws' _ _ hb', hgo]
      cases Model.makeBlocks.go cws' (mbShapes ecs) with
      | error e => rfl
      | ok p => simp [Except.map]

/-- `make_blocks(ec_infos, buff)` for every bit stream and every EC information list with num_blocks ≥ 1 and
    num_data ≤ num_total: the same data blocks and error correction blocks; `KeyError` (no generator polynomial for the
    number of error words) in the same cases; the in-place synthetic division never leaves the tables -/
theorem make_blocks_eq (ecs : List (Nat × Nat × Nat)) (bits : List Nat) (hbits : ∀ b ∈ bits, b ≤ 1)
    (hec : ∀ e ∈ ecs, 1 ≤ e.1 ∧ e.2.2 ≤ e.2.1) :
    toR (Gen.Funcs2.make_blocks (ecI ecs) (toI bits))
      = (Model.makeBlocks ecs (Model.toInts (bits.length + 1) bits)).map (fun p => (p.1.map toI, p.2.map toI)) := by
  rw [mb_make_blocks_unfold, toI_length, mb_toInts_toI, mb_makeBlocks_go,
    mb_ec_loop ecs hec _ [] [] (Proofs.Message.toInts_lt bits hbits _)]
  simp

end Proofs.TieA2
