/-
  Proofs.TieA3Segment — `write_segment` (third round of Tie A): ECI header, mode indicator (QR: 4 bits + the Hanzi subset
  indicator, Micro QR: `ver + 3` bits of the mapped mode, M1: none), character count indicator, data bits — against
  `Model.writeSegment`.
-/
import Gen.Funcs3
import Proofs.TieABits
import Proofs.TieA2Stream
import Proofs.TieA2Final

namespace Proofs.TieA3
open Gen.Py Proofs.TieA Proofs.TieA2 Model

/-- `Buffer.append_bits(val, length)` of the prelude is `Model.appendBits` -/
theorem appendBits_nat (x len : Nat) : Gen.Py.appendBits (x : Int) (len : Int) = toI (Model.appendBits x len) := by
  unfold Gen.Py.appendBits Model.appendBits
  rw [range_zero_nat, ← List.map_reverse, fm_reverse_range]
  simp only [toI, List.map_map]
  apply List.map_congr_left
  intro k _
  simp only [Function.comp]
  exact fm_bit x (len - 1 - k)

/-- the nested look-up of the character count indicator length followed by a continuation -/
theorem cci_then {β : Type} (mode : Nat) (vr : Int) (k : Int → M β) :
    Gen.Py.bind (lookup Gen.Funcs.T_consts_CHAR_COUNT_INDICATOR_LENGTH (mode : Int)) (fun t => Gen.Py.bind (lookup t vr) k)
      = Gen.Py.bind (ofOption .keyError ((Model.cciLen mode vr).map Int.ofNat)) k :=
  (Gen.Py.bind_assoc _ (fun t => lookup t vr) k).symm.trans (by rw [cci_lookup])

/-- `consts.MODE_TO_MICRO_MODE_MAPPING[mode]` -/
theorem micro_mode_lookup (mode : Nat) :
    lookup Gen.Funcs3.T_consts_MODE_TO_MICRO_MODE_MAPPING (mode : Int)
      = ofOption .keyError ((assoc Gen.MODE_TO_MICRO_MODE_MAPPING mode).map Int.ofNat) := by
  by_cases hm : mode = 1 ∨ mode = 2 ∨ mode = 4 ∨ mode = 8
  · rcases hm with h | h | h | h <;> subst h <;> decide
  · have a1 : ((1 : Int) == (mode : Int)) = false := by simp; omega
    have a2 : ((2 : Int) == (mode : Int)) = false := by simp; omega
    have a4 : ((4 : Int) == (mode : Int)) = false := by simp; omega
    have a8 : ((8 : Int) == (mode : Int)) = false := by simp; omega
    have b1 : ((1 : Nat) == mode) = false := by simp; omega
    have b2 : ((2 : Nat) == mode) = false := by simp; omega
    have b4 : ((4 : Nat) == mode) = false := by simp; omega
    have b8 : ((8 : Nat) == mode) = false := by simp; omega
    simp [lookup, Gen.Funcs3.T_consts_MODE_TO_MICRO_MODE_MAPPING, List.find?, Model.assoc, Gen.MODE_TO_MICRO_MODE_MAPPING,
      a1, a2, a4, a8, b1, b2, b4, b8]

/-- what `get_eci_assignment_number(segment.encoding)` (an opaque read of the translation: `codecs.lookup` is a runtime
    service) yields, given the model's ECI table parameter -/
def eciM (eciNumber : String → Option Nat) (enc : Option String) : M Int :=
  match eciNumber (enc.getD "") with
  | some n => .ok (n : Int)
  | none => .error .valueError

/-- the `ver_range` argument `_encode` passes: the version for a Micro QR Code, `version_range(version)` otherwise -/
def verRangeOf (v : Int) : Int := if v < 1 then v else Gen.version_range v

theorem appendBits_lit (x len : Nat) (xi li : Int) (hx : xi = (x : Int)) (hl : li = (len : Int)) :
    Gen.Py.appendBits xi li = toI (Model.appendBits x len) := by
  subst hx hl; exact appendBits_nat x len

theorem write_segment_eq (buff : List Nat) (s : Segment) (v : Int) (eci : Bool) (eciNumber : String → Option Nat) :
    toR (Gen.Funcs3.write_segment (toI buff) s.mode s.encoding s.charCount (toI s.bits) (verArg v) (verRangeOf v) eci
        (eciM eciNumber s.encoding))
      = (Model.writeSegment s v eci eciNumber).map (fun bs => toI (buff ++ bs)) := by
  unfold Gen.Funcs3.write_segment Model.writeSegment
  simp only [cci_then, micro_mode_lookup]
  have e7 : Gen.Py.appendBits (7 : Int) (4 : Int) = toI (Model.appendBits 7 4) := appendBits_lit 7 4 _ _ rfl rfl
  have e1 : Gen.Py.appendBits (1 : Int) (4 : Int) = toI (Model.appendBits 1 4) := appendBits_lit 1 4 _ _ rfl rfl
  have em : Gen.Py.appendBits (s.mode : Int) (4 : Int) = toI (Model.appendBits s.mode 4) := appendBits_lit _ 4 _ _ rfl rfl
  have ecc : ∀ cl : Nat, Gen.Py.appendBits (s.charCount : Int) ((cl : Nat) : Int) = toI (Model.appendBits s.charCount cl) :=
    fun cl => appendBits_lit _ cl _ _ rfl rfl
  have en : ∀ n : Nat, Gen.Py.appendBits (n : Int) (8 : Int) = toI (Model.appendBits n 8) := fun n => appendBits_lit n 8 _ _ rfl rfl
  have hcond : (eci && (((s.mode : Int) == (4 : Int)) && !(s.encoding == some "iso-8859-1")))
      = (eci && s.mode == Gen.MODE_BYTE && s.encoding != some Gen.DEFAULT_BYTE_ENCODING) := by
    have : (((s.mode : Int) == (4 : Int))) = (s.mode == Gen.MODE_BYTE) := by
      rw [Bool.eq_iff_iff]; simp [Gen.MODE_BYTE]; omega
    rw [this, Bool.and_assoc]
    rfl
  rw [hcond]
  simp only [e7, e1, em]
  unfold verArg verRangeOf eciM
  have hlen : ∀ (mm : Nat), v > -3 → v < 1 → Gen.Py.appendBits ((mm : Nat) : Int) (v + 3) = toI (Model.appendBits mm (v + 3).toNat) :=
    fun mm h1 h2 => appendBits_lit mm (v + 3).toNat _ _ rfl (by omega)
  clear hcond e7 e1 em
  have hh : ((s.mode : Int) == (13 : Int)) = (s.mode == Gen.MODE_HANZI) := by
    rw [Bool.eq_iff_iff]; simp [Gen.MODE_HANZI]; omega
  rw [hh]
  by_cases hE : (eci && s.mode == Gen.MODE_BYTE && s.encoding != some Gen.DEFAULT_BYTE_ENCODING) = true <;>
  cases hN : eciNumber (s.encoding.getD "") <;>
  by_cases hv : v < 1 <;>
  by_cases hv3 : v > -3 <;>
  cases hmm : assoc Gen.MODE_TO_MICRO_MODE_MAPPING s.mode <;>
  cases hc : cciLen s.mode v <;>
  cases hc2 : cciLen s.mode (Gen.version_range v) <;>
  by_cases hz : (s.mode == Gen.MODE_HANZI) = true <;>
  first
    | omega
    | simp [*, Bind.bind, Except.bind, Except.map, Gen.VERSION_M1, Pure.pure, Except.pure, throw, throwThe, MonadExceptOf.throw, exc,
        Gen.MODE_ECI, hlen _ hv3 hv]
    | simp [*, Bind.bind, Except.bind, Except.map, Gen.VERSION_M1, Pure.pure, Except.pure, throw, throwThe, MonadExceptOf.throw, exc,
        Gen.MODE_ECI]

/-! ### `make_segment`: byte mode -/

theorem byte_flat (data : List Nat) :
    ((toI data).map (fun x => Gen.Py.appendBits x (8 : Int))).flatten = toI ((data.map (fun b => Model.appendBits b 8)).flatten) := by
  induction data with
  | nil => rfl
  | cons b t ih =>
    simp only [toI_cons, List.map_cons, List.flatten_cons, toI_append, ih]
    rw [appendBits_lit b 8 (b : Int) (8 : Int) rfl rfl]

/-- the translation in byte mode (requested, or found by `find_mode`) -/
theorem make_segment_byte_py (raw : String) (data : List Nat) (mode : Option Nat) (enc : Option String) (encName : String)
    (intOf : List Int → M Int) (hmode : mode = some 4 ∨ (mode = none ∧ findMode data = 4)) :
    Gen.Funcs3.make_segment raw (mode.map Int.ofNat) enc (.ok (toI data, (data.length : Int), encName)) (findMode data : Int) intOf
      = .ok (toI ((data.map (fun b => Model.appendBits b 8)).flatten), (data.length : Int), 4, some encName) := by
  have hf := byte_flat data
  rcases hmode with h | ⟨h, hg⟩
  · subst h
    unfold Gen.Funcs3.make_segment
    simp [hf]
  · subst h
    unfold Gen.Funcs3.make_segment
    simp [hg, hf]

/-- the model in byte mode -/
theorem make_segment_byte_model (data : List Nat) (mode : Option Nat) (encName : String)
    (hmode : mode = some 4 ∨ (mode = none ∧ findMode data = 4)) :
    Model.makeSegment data mode encName
      = .ok { bits := (data.map (fun b => Model.appendBits b 8)).flatten, charCount := data.length, mode := 4, encoding := some encName } := by
  rcases hmode with h | ⟨h, hg⟩
  · subst h
    unfold Model.makeSegment
    simp [Gen.MODE_BYTE, Gen.MODE_KANJI, Gen.MODE_HANZI, Gen.MODE_NUMERIC, Gen.MODE_ALPHANUMERIC, Bind.bind, Except.bind, Pure.pure, Except.pure]
  · subst h
    unfold Model.makeSegment
    simp [hg, Gen.MODE_BYTE, Gen.MODE_KANJI, Gen.MODE_HANZI, Gen.MODE_NUMERIC, Gen.MODE_ALPHANUMERIC, Bind.bind, Except.bind, Pure.pure, Except.pure]

end Proofs.TieA3
