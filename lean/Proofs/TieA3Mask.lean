/-
  Proofs.TieA3Mask — `apply_mask` (third round of Tie A): the two nested range loops of the translation, which XOR one
  cell after the other (`row[j] ^= mask_pattern(i, j)` for the cells of the encoding region), against `Model.applyMask`
  (`mapIdx` over rows and cells).  The closure `is_encoding_region` is the translation of the nested function of
  `find_and_apply_best_mask`, applied to the function matrix.
-/
import Gen.Funcs3
import Proofs.TieA2Format
import Proofs.Placement
import Proofs.Mask

namespace Proofs.TieA3
open Gen.Py Proofs.TieA Proofs.TieA2 Model

/-! ### cells of square matrices -/

theorem sq_pl {m : Matrix} {n : Nat} (h : Sq m n) : Proofs.Placement.Sq m n := by
  refine ⟨h.size, fun i hi => ?_⟩
  have hlt : i < m.size := by rw [h.size]; exact hi
  rw [getD_row m i hlt]
  exact h.rows i hlt

theorem get2_set2_sq {m : Matrix} {n : Nat} (h : Sq m n) (i j x a b : Nat) :
    get2 (set2 m i j x) a b = if a = i ∧ b = j ∧ i < n ∧ j < n then x else get2 m a b :=
  Proofs.Placement.get2_set2_sq m n i j x a b (sq_pl h)

/-- square matrices are determined by their cells -/
theorem sq_ext {a b : Matrix} {n : Nat} (ha : Sq a n) (hb : Sq b n)
    (h : ∀ i j, i < n → j < n → get2 a i j = get2 b i j) : a = b := by
  apply Array.ext
  · rw [ha.size, hb.size]
  · intro i hi1 hi2
    have hin : i < n := by rw [← ha.size]; exact hi1
    have hra := ha.rows i hi1
    have hrb := hb.rows i hi2
    apply Array.ext
    · rw [hra, hrb]
    · intro j hj1 hj2
      have := h i j hin (by rw [← hra]; exact hj1)
      unfold get2 at this
      rw [getD_row a i hi1, getD_row b i hi2] at this
      simpa [Array.getD, hj1, hj2] using this

/-- `matrix[i][j]` followed by a continuation -/
theorem index_cell_then {β : Type} {m : Matrix} {n : Nat} (hs : Sq m n) (i j : Nat) (hi : i < n) (hj : j < n) (k : Int → M β) :
    Gen.Py.bind (index (mI m) (i : Int)) (fun r => Gen.Py.bind (index r (j : Int)) k) = k (Int.ofNat (get2 m i j)) :=
  (Gen.Py.bind_assoc (index (mI m) (i : Int)) (fun r => index r (j : Int)) k).symm.trans
    (by rw [index_cell hs _ _ i j (normIndex_nat n i hi) (normIndex_nat n j hj), bind_ok])

/-! ### the loops of `apply_mask` as folds over the model matrix -/

/-- the new value of cell (i, j) -/
def maskVal (fm : Matrix) (p i j x : Nat) : Nat :=
  if get2 fm i j > 1 then x ^^^ (if maskFn p i j then 1 else 0) else x

/-- one iteration of the inner loop -/
def maskCell (fm : Matrix) (p i : Nat) (t : Matrix) (j : Nat) : Matrix :=
  if get2 fm i j > 1 then set2 t i j (get2 t i j ^^^ (if maskFn p i j then 1 else 0)) else t

/-- one iteration of the outer loop -/
def maskRow (fm : Matrix) (p n : Nat) (t : Matrix) (i : Nat) : Matrix := (List.range n).foldl (maskCell fm p i) t

theorem sq_maskCell {n : Nat} (fm : Matrix) (p i : Nat) {t : Matrix} (h : Sq t n) (j : Nat) : Sq (maskCell fm p i t j) n := by
  unfold maskCell
  split
  · exact sq_set2 h _ _ _
  · exact h

theorem sq_maskRow {n : Nat} (fm : Matrix) (p k : Nat) {t : Matrix} (h : Sq t n) (i : Nat) : Sq (maskRow fm p k t i) n :=
  sq_foldl (maskCell fm p i) (fun t j hs => sq_maskCell fm p i hs j) _ t h

theorem bxor_bit (x : Nat) (b : Bool) :
    bxor (Int.ofNat x) (if b then (1 : Int) else (0 : Int)) = Int.ofNat (x ^^^ (if b then 1 else 0)) := by
  cases b <;> rfl

/-- the cells of a row after the first c iterations of the inner loop -/
theorem get2_maskCells (fm : Matrix) (p n i : Nat) (hi : i < n) (t : Matrix) (ht : Sq t n) (c : Nat) :
    ∀ a b, a < n → b < n →
      get2 ((List.range c).foldl (maskCell fm p i) t) a b = if a = i ∧ b < c then maskVal fm p i b (get2 t i b) else get2 t a b := by
  induction c with
  | zero => intro a b _ _; simp
  | succ c ih =>
    intro a b ha hb
    rw [List.range_succ, List.foldl_append, List.foldl_cons, List.foldl_nil]
    have hsq : Sq ((List.range c).foldl (maskCell fm p i) t) n :=
      sq_foldl (maskCell fm p i) (fun t j hs => sq_maskCell fm p i hs j) _ t ht
    generalize hT : (List.range c).foldl (maskCell fm p i) t = T at ih hsq
    unfold maskCell
    by_cases hc : c < n
    · split
      · rename_i hfm
        rw [get2_set2_sq hsq, ih a b ha hb, ih i c hi hc]
        by_cases h1 : a = i
        · subst h1
          by_cases h2 : b = c
          · subst h2
            simp [maskVal, hfm, hi, hc]
          · have h3 : b < c + 1 ↔ b < c := by omega
            simp [h2, h3]
        · simp [h1]
      · rename_i hfm
        rw [ih a b ha hb]
        by_cases h1 : a = i
        · subst h1
          by_cases h2 : b = c
          · subst h2
            have := ih a b ha hb
            simp [maskVal, hfm]
          · have h3 : b < c + 1 ↔ b < c := by omega
            simp [h2, h3]
        · simp [h1]
    · have h3 : b < c + 1 ↔ b < c := by omega
      split
      · rw [get2_set2_sq hsq, ih a b ha hb]
        have : ¬ (a = i ∧ b = c ∧ i < n ∧ c < n) := fun h => hc h.2.2.2
        simp [this, h3]
      · rw [ih a b ha hb]; simp [h3]

/-- the cells after the first k iterations of the outer loop -/
theorem get2_maskRows (fm : Matrix) (p n : Nat) (m : Matrix) (hm : Sq m n) (k : Nat) (hk : k ≤ n) :
    ∀ a b, a < n → b < n →
      get2 ((List.range k).foldl (maskRow fm p n) m) a b = if a < k then maskVal fm p a b (get2 m a b) else get2 m a b := by
  induction k with
  | zero => intro a b _ _; simp
  | succ k ih =>
    intro a b ha hb
    rw [List.range_succ, List.foldl_append, List.foldl_cons, List.foldl_nil]
    have hsq : Sq ((List.range k).foldl (maskRow fm p n) m) n :=
      sq_foldl (maskRow fm p n) (fun t j hs => sq_maskRow fm p n hs j) _ m hm
    have ih' := ih (by omega)
    generalize hT : (List.range k).foldl (maskRow fm p n) m = T at ih' hsq
    unfold maskRow
    rw [get2_maskCells fm p n k (by omega) T hsq n a b ha hb, ih' a b ha hb, ih' k b (by omega) hb]
    by_cases h1 : a = k
    · subst h1; simp [hb]
    · have h3 : a < k + 1 ↔ a < k := by omega
      simp [h1, h3]

/-- the two loops are `Model.applyMask` -/
theorem maskRows_eq (m fm : Matrix) (n p : Nat) (hm : Sq m n) :
    (List.range n).foldl (maskRow fm p n) m = Model.applyMask m fm p := by
  have hsq : Sq ((List.range n).foldl (maskRow fm p n) m) n :=
    sq_foldl (maskRow fm p n) (fun t j hs => sq_maskRow fm p n hs j) _ m hm
  have hsq2 : Sq (Model.applyMask m fm p) n := by
    constructor
    · rw [Proofs.Mask.size_applyMask, hm.size]
    · intro i hi
      have hi' : i < m.size := by rwa [Proofs.Mask.size_applyMask] at hi
      have := Proofs.Mask.rowsize_applyMask m fm p i
      rw [getD_row _ i hi, getD_row _ i hi'] at this
      rw [this, hm.rows i hi']
  apply sq_ext hsq hsq2
  intro i j hi hj
  rw [get2_maskRows fm p n m hm n (Nat.le_refl _) i j hi hj, Proofs.Mask.get2_applyMask]
  have hi' : i < m.size := by rw [hm.size]; exact hi
  have hj' : j < (m.getD i #[]).size := by rw [getD_row m i hi', hm.rows i hi']; exact hj
  rw [if_pos hi, if_pos (show i < m.size ∧ j < (m.getD i #[]).size from ⟨hi', hj'⟩)]
  rfl

/-! ### the translation -/

theorem region_cell {fm : Matrix} {n : Nat} (hf : Sq fm n) (i j : Nat) (hi : i < n) (hj : j < n) :
    Gen.Funcs3.is_encoding_region (mI fm) (i : Int) (j : Int) = .ok (decide (get2 fm i j > 1)) := by
  unfold Gen.Funcs3.is_encoding_region
  rw [index_cell_then hf i j hi hj]
  congr 1
  simp only [Int.ofNat_eq_natCast, gt_iff_lt, decide_eq_decide]
  omega

theorem mask_fold (n : Nat) (f : Matrix → Nat → Matrix) (m : Matrix) (hs : Sq m n) (body : List (List Int) → Int → M (List (List Int)))
    (hstep : ∀ (t : Matrix) (i : Nat), i < n → Sq t n → body (mI t) (i : Int) = .ok (mI (f t i)) ∧ Sq (f t i) n) :
    foldlM (range 0 (n : Int)) (mI m) body = .ok (mI ((List.range n).foldl f m)) := by
  have := foldlM_range_inv (fun _ t => mI t) (fun t => Sq t n) f body n hstep n 0 m (by omega) hs
  rw [List.range_eq_range']
  exact this

/-- `apply_mask(matrix, f, n, n, is_encoding_region)` on an n × n matrix with the closure over an n × n function matrix, for
    every callable `f` that agrees with mask condition p on the coordinates of the matrix -/
theorem apply_mask_fn (m fm : Matrix) (n p : Nat) (hs : Sq m n) (hf : Sq fm n) (f : Int → Int → Bool)
    (hfn : ∀ (i j : Nat), f (i : Int) (j : Int) = maskFn p i j) :
    Gen.Funcs3.apply_mask (mI m) f (n : Int) (n : Int) (Gen.Funcs3.is_encoding_region (mI fm))
      = .ok (mI (Model.applyMask m fm p)) := by
  unfold Gen.Funcs3.apply_mask
  rw [← maskRows_eq m fm n p hs]
  simp only []
  rw [mask_fold n (maskRow fm p n) m hs _ ?step]
  · rfl
  · intro t i hi ht
    refine ⟨?_, sq_maskRow fm p n ht i⟩
    rw [index_row ht _ i (normIndex_nat n i hi), bind_ok]
    rw [mask_fold n (maskCell fm p i) t ht _ ?inner]
    · rfl
    · intro u j hj hu
      refine ⟨?_, sq_maskCell fm p i hu j⟩
      rw [region_cell hf i j hi hj, bind_ok]
      unfold maskCell
      by_cases hfm : get2 fm i j > 1
      · simp only [hfm, decide_true, if_true]
        rw [index_cell_then hu i j hi hj, hfn]
        rw [bxor_bit, setItem2_cell hu _ _ i j _ (normIndex_nat n i hi) (normIndex_nat n j hj)]
      · simp only [hfm, decide_false, if_false, Bool.false_eq_true]

/-- … in particular for the regenerated condition `Model.maskFn p` itself -/
theorem apply_mask_eq (m fm : Matrix) (n p : Nat) (hs : Sq m n) (hf : Sq fm n) :
    Gen.Funcs3.apply_mask (mI m) (fun i j => maskFn p i.toNat j.toNat) (n : Int) (n : Int) (Gen.Funcs3.is_encoding_region (mI fm))
      = .ok (mI (Model.applyMask m fm p)) :=
  apply_mask_fn m fm n p hs hf _ (fun i j => by simp only [Int.toNat_natCast])

/-- the bits stay bits -/
theorem applyMask_bits (m fm : Matrix) (p : Nat) (hbits : ∀ i j, get2 m i j ≤ 1) : ∀ i j, get2 (Model.applyMask m fm p) i j ≤ 1 := by
  intro i j
  rw [Proofs.Mask.get2_applyMask]
  have h := hbits i j
  split
  · split
    · generalize get2 m i j = x at h
      have : x = 0 ∨ x = 1 := by omega
      rcases this with rfl | rfl <;> cases maskFn p i j <;> decide
    · exact h
  · omega

theorem sq_applyMask {m : Matrix} {n : Nat} (fm : Matrix) (p : Nat) (hm : Sq m n) : Sq (Model.applyMask m fm p) n := by
  constructor
  · rw [Proofs.Mask.size_applyMask, hm.size]
  · intro i hi
    have hi' : i < m.size := by rwa [Proofs.Mask.size_applyMask] at hi
    have := Proofs.Mask.rowsize_applyMask m fm p i
    rw [getD_row _ i hi, getD_row _ i hi'] at this
    rw [this, hm.rows i hi']

end Proofs.TieA3
