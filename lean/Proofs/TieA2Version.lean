/-
  Proofs.TieA2Version — `find_version` (translated, Gen/Funcs2.lean) against `Model.findVersion`.
  (Imports Props.TieA for `find_minimum_version_for_mode_tie`, the tie of the function `find_version` calls.)
-/
import Proofs.TieA2Boost
import Props.TieA

set_option linter.unusedSimpArgs false
set_option linter.unusedTactic false

namespace Proofs.TieA2
open Gen.Py Proofs.TieA Model

/-- a search loop: the body either returns the current element or goes on with a new state -/
theorem forM_search {σ : Type} (hi : Int) (body : σ → Int → M (Step σ Int)) (q : σ → Int → Bool) (nxt : σ → Int → σ)
    (p : Int → Bool) (I : σ → Int → Prop)
    (hbody : ∀ s x, I s x → x < hi → body s x = .ok (if q s x then .ret x else .next (nxt s x)))
    (hq : ∀ s x, I s x → q s x = p x)
    (hI : ∀ s x, I s x → I (nxt s x) (x + 1)) :
    ∀ (n : Nat) (lo : Int) (s : σ), (hi - lo).toNat = n → I s lo →
      ∃ s', forM (range lo hi) s body = .ok (match (range lo hi).find? p with | some v => .ret v | none => .fin s') := by
  intro n
  induction n with
  | zero =>
    intro lo s hn _
    rw [range_empty (by omega)]
    exact ⟨s, rfl⟩
  | succ n ih =>
    intro lo s hn hs
    have hlt : lo < hi := by omega
    rw [range_succ hlt, forM_cons, hbody s lo hs hlt, hq s lo hs, List.find?_cons]
    by_cases hp : p lo = true
    · simp [hp]; exact ⟨s, trivial⟩
    · simp only [Bool.not_eq_true] at hp
      simp only [hp]
      exact ih (lo + 1) (nxt s lo) (by omega) (hI s lo hs)

theorem intRange_eq (lo hi : Int) : Model.intRange lo hi = range lo (hi + 1) := rfl

theorem mapM_fmv (segs : List Segment) :
    Gen.Py.mapM (modesOf segs) (fun m => Gen.Funcs.find_minimum_version_for_mode m)
      = ofOption .valueError (segs.mapM (fun s => Model.findMinimumVersionForMode s.mode)) := by
  induction segs with
  | nil => rfl
  | cons s t ih =>
    simp only [modesOf, List.map_cons, Gen.Py.mapM, List.mapM_cons] at ih ⊢
    rw [Props.TieA.find_minimum_version_for_mode_tie]
    cases findMinimumVersionForMode s.mode with
    | none => rfl
    | some x =>
      simp only [ofOption_some, bind_ok]
      rw [ih]
      cases List.mapM (fun s => findMinimumVersionForMode s.mode) t <;> rfl


/-- the test of `find_version`: the capacity of version v at level `lvl` suffices (a missing table entry = no) -/
def fitsM (segs : List Segment) (eci isSa : Bool) (lvl : Option Nat) (v : Int) : Bool :=
  match capacity v lvl, bitLengthWithOverhead segs v eci isSa with
  | some cap, some bl => decide (cap ≥ bl)
  | _, _ => false

/-- a search loop followed by `return the hit / raise DataOverflowError` -/
theorem search_then {σ : Type} (lo hi : Int) (s : σ) (body : σ → Int → M (Step σ Int)) (k : Done σ Int → M Int)
    (q : σ → Int → Bool) (nxt : σ → Int → σ) (p : Int → Bool) (I : σ → Int → Prop)
    (hbody : ∀ s x, I s x → x < hi → body s x = .ok (if q s x then .ret x else .next (nxt s x)))
    (hq : ∀ s x, I s x → q s x = p x)
    (hI : ∀ s x, I s x → I (nxt s x) (x + 1))
    (hs : I s lo)
    (hk : ∀ s', k (.fin s') = .error .dataOverflow) (hr : ∀ r, k (.ret r) = .ok r) :
    Gen.Py.bind (forM (range lo hi) s body) k
      = match (range lo hi).find? p with | some v => .ok v | none => .error .dataOverflow := by
  obtain ⟨s', h⟩ := forM_search hi body q nxt p I hbody hq hI _ lo s rfl hs
  rw [h]
  cases List.find? p (range lo hi) with
  | none => exact hk s'
  | some v => exact hr v

/-- the error level the loop of `find_version` works with at version v -/
def effLevel (e : Option Nat) (v : Int) : Option Nat :=
  if e.isNone && v != Gen.VERSION_M1 then some Gen.ERROR_LEVEL_L else e

/-- the search of `Model.findVersion` over the versions lo … hi -/
def searchM (segs : List Segment) (e : Option Nat) (eci isSa : Bool) (lo hi : Int) : R Int :=
  match (range lo (hi + 1)).find? (fun v => fitsM segs eci isSa (effLevel e v) v) with
  | some v => .ok v
  | none => .error .dataOverflow

/-- `Model.findVersion` in the vocabulary of this file -/
theorem findVersion_spec (segs : List Segment) (e : Option Nat) (eci : Bool) (micro : Option Bool) (isSa : Bool) :
    Model.findVersion segs e eci micro isSa =
      if (eci && micro == some true) = true then .error .assertionError
      else if (micro != some false) = true then
        match segs.mapM (fun s => findMinimumVersionForMode s.mode) with
        | none => .error .valueError
        | some [] => .error .valueError
        | some (x :: xs) =>
          searchM segs e eci isSa (if e.isSome then -2 else xs.foldl max x) (if micro == some true then 0 else 40)
      else searchM segs e eci isSa 1 40 := by
  unfold Model.findVersion searchM
  have hp : (fun v => match capacity v (if e.isNone && v != Gen.VERSION_M1 then some Gen.ERROR_LEVEL_L else e),
        bitLengthWithOverhead segs v eci isSa with
      | some cap, some bl => decide (cap ≥ bl)
      | _, _ => false) = (fun v => fitsM segs eci isSa (effLevel e v) v) := by
    funext v
    unfold fitsM effLevel
    cases capacity v (if e.isNone && v != Gen.VERSION_M1 then some Gen.ERROR_LEVEL_L else e) <;>
      cases bitLengthWithOverhead segs v eci isSa <;> rfl
  rcases micro with _ | _ | _ <;> cases eci <;> cases e <;>
    simp [intRange_eq, Gen.VERSION_M1, Gen.VERSION_M2, Gen.VERSION_M4, throw, throwThe, MonadExceptOf.throw, pure, Except.pure,
      Bind.bind, Except.bind, hp] <;>
    first
    | rfl
    | (cases List.mapM (fun s => findMinimumVersionForMode s.mode) segs with
       | none => rfl
       | some l =>
         cases l with
         | nil => rfl
         | cons x xs =>
           simp only []
           congr 1; congr 1; funext v
           unfold fitsM effLevel
           by_cases hv : v = -3 <;> simp [hv, Gen.VERSION_M1] <;> (first | rfl | (split <;> simp_all)))

theorem cap_bind_opt {β : Type} (v : Int) (e : Option Nat) (k : Int → M β) :
    Gen.Py.bind (lookup Gen.Funcs2.T_consts_SYMBOL_CAPACITY v) (fun d => Gen.Py.bind (lookup d (e.map Int.ofNat)) k)
      = Gen.Py.bind (ofOption .keyError ((Model.capacity v e).map Int.ofNat)) k := by
  rw [← capacity_lookup v e]
  unfold capLookup
  rw [bind_assoc]

/-- the result of one iteration, whatever the state afterwards is -/
theorem fv_step {σ : Type} (segs : List Segment) (eci isSa : Bool) (e : Option Nat) (x : Int) (hx : x ≤ 40) (s : σ) :
    tryExcept
      (Gen.Py.bind (ofOption .keyError ((Model.capacity x e).map Int.ofNat)) fun c =>
          Gen.Py.bind (ofOption .keyError ((Model.bitLengthWithOverhead segs x eci isSa).map Int.ofNat)) fun b =>
            if decide (c ≥ b) = true then (Except.ok (Step.ret x) : M (Step Unit Int)) else Except.ok (Step.next ()))
      (fun st => match st with
        | Step.next _ => Except.ok (Step.next s)
        | Step.brk _ => Except.ok (Step.next s)
        | Step.ret r => Except.ok (Step.ret r))
      (fun ex => if (ex == PyExc.keyError) = true then Except.ok (Step.next s) else Except.error ex)
    = .ok (if fitsM segs eci isSa e x then Step.ret x else Step.next s) := by
  unfold fitsM
  cases capacity x e <;> cases bitLengthWithOverhead segs x eci isSa <;> simp
  split_ifs <;> simp_all <;> omega


/-- solves a goal `toR (bind (forM (range lo hi) ↑n body) k) = …` for the loop of `find_version` at a fixed level -/
macro "fv_loop_some" segs:term "," n:term "," eci:term "," isSa:term : tactic => `(tactic| (
  rw [search_then _ _ (($n : Nat) : Int) _ _ (fun _ x => fitsM $segs $eci $isSa (some $n) x) (fun s _ => s)
    (fitsM $segs $eci $isSa (some $n)) (fun s _ => s = (($n : Nat) : Int))]
  · first | rfl | (cases List.find? (fitsM $segs $eci $isSa (some $n)) _ <;> rfl)
  · intro s x hs hx
    subst hs
    rw [cap_bind, blwo' $segs x (by omega)]
    unfold fitsM
    cases capacity x (some $n) <;> cases bitLengthWithOverhead $segs x $eci $isSa <;> simp <;>
      (try (split_ifs <;> simp_all <;> omega))
  · intros; rfl
  · intro s x hs; exact hs
  · rfl
  · intro s'; rfl
  · intro r; rfl))

theorem fv_some (segs : List Segment) (n : Nat) (eci : Bool) (micro : Option Bool) (isSa : Bool) :
    toR (Gen.Funcs2.find_version (nEci segs) (modesOf segs) (bitLen segs) (some (n : Int)) eci micro isSa)
      = Model.findVersion segs (some n) eci micro isSa := by
  rw [findVersion_spec]
  unfold Gen.Funcs2.find_version searchM
  simp only [mapM_fmv]
  rcases micro with _ | _ | _
  · simp [effLevel]
    cases List.mapM (fun s => findMinimumVersionForMode s.mode) segs with
    | none => rfl
    | some l =>
      cases l with
      | nil => rfl
      | cons x xs =>
        simp [maxOf]
        fv_loop_some segs, n, eci, isSa
  · simp [effLevel]
    fv_loop_some segs, n, eci, isSa
  · cases eci
    · simp [effLevel]
      cases List.mapM (fun s => findMinimumVersionForMode s.mode) segs with
      | none => rfl
      | some l =>
        cases l with
        | nil => rfl
        | cons x xs =>
          simp [maxOf]
          fv_loop_some segs, n, false, isSa
    · rfl

theorem cap_bind_none {β : Type} (v : Int) (k : Int → M β) :
    Gen.Py.bind (lookup Gen.Funcs2.T_consts_SYMBOL_CAPACITY v) (fun d => Gen.Py.bind (lookup d (none : Option Int)) k)
      = Gen.Py.bind (ofOption .keyError ((Model.capacity v none).map Int.ofNat)) k := cap_bind_opt v none k

/-- every minimal version is a version constant -/
theorem fmv_known : ∀ m ∈ [1, 2, 4, 7, 8, 13], (findMinimumVersionForMode m).all (fun v => decide (-3 ≤ v)) = true := by decide

theorem fmv_ge (m : Nat) (v : Int) (h : findMinimumVersionForMode m = some v) : -3 ≤ v := by
  by_cases hk : m = 1 ∨ m = 2 ∨ m = 4 ∨ m = 7 ∨ m = 8 ∨ m = 13
  · have := fmv_known m (by simp; omega)
    rw [h] at this
    simpa using this
  · have hn : m ≠ 1 ∧ m ≠ 2 ∧ m ≠ 4 ∧ m ≠ 7 ∧ m ≠ 8 ∧ m ≠ 13 := by omega
    unfold findMinimumVersionForMode at h
    simp [isModeSupported_unknown m hn, Gen.MICRO_VERSIONS, List.findSome?] at h

theorem foldl_max_ge (x : Int) (xs : List Int) : x ≤ xs.foldl max x := by
  induction xs generalizing x with
  | nil => exact Int.le_refl x
  | cons y t ih => exact Int.le_trans (Int.le_max_left x y) (ih (max x y))

theorem mapM_fmv_ge (segs : List Segment) : ∀ l, segs.mapM (fun s => findMinimumVersionForMode s.mode) = some l → ∀ y ∈ l, -3 ≤ y := by
  induction segs with
  | nil => intro l h y hy; simp at h; subst h; simp at hy
  | cons s t ih =>
    intro l h y hy
    rw [List.mapM_cons] at h
    cases h1 : findMinimumVersionForMode s.mode with
    | none => simp [h1] at h
    | some v =>
      cases h2 : List.mapM (fun s => findMinimumVersionForMode s.mode) t with
      | none => simp [h1, h2] at h
      | some bs =>
        simp [h1, h2] at h
        subst h
        simp at hy
        rcases hy with rfl | hy
        · exact fmv_ge _ _ h1
        · exact ih bs h2 y hy

theorem minV_ge (segs : List Segment) (x : Int) (xs : List Int)
    (h : segs.mapM (fun s => findMinimumVersionForMode s.mode) = some (x :: xs)) : -3 ≤ xs.foldl max x :=
  Int.le_trans (mapM_fmv_ge segs _ h x (by simp)) (foldl_max_ge x xs)

/-- the loop of `find_version` started without an error level -/
macro "fv_loop_none" segs:term "," eci:term "," isSa:term "," hlo:term : tactic => `(tactic| (
  rw [search_then _ _ (none : Option Int) _ _ (fun _ x => fitsM $segs $eci $isSa (effLevel none x) x)
    (fun _ x => (effLevel none x).map Int.ofNat)
    (fun x => fitsM $segs $eci $isSa (effLevel none x) x) (fun s x => -3 ≤ x ∧ (s = none ∨ (s = some 1 ∧ -3 < x)))]
  · first | rfl | (cases List.find? (fun x => fitsM $segs $eci $isSa (effLevel none x) x) _ <;> rfl)
  · intro s x hs hx
    obtain ⟨hx3, hs' | ⟨hs', hgt⟩⟩ := hs <;> subst hs'
    · by_cases hm1 : x = -3
      · subst hm1
        simp [effLevel, Gen.VERSION_M1]
        rw [cap_bind_none, blwo' $segs _ (by omega)]
        unfold fitsM
        cases capacity (-3) none <;> cases bitLengthWithOverhead $segs (-3) $eci $isSa <;> simp <;>
          (try (split_ifs <;> simp_all <;> omega))
      · simp [effLevel, Gen.VERSION_M1, Gen.ERROR_LEVEL_L, hm1]
        rw [cap_bind1, blwo' $segs _ (by omega)]
        unfold fitsM
        cases capacity x (some 1) <;> cases bitLengthWithOverhead $segs x $eci $isSa <;> simp <;>
          (try (split_ifs <;> simp_all <;> omega))
    · have hm1 : ¬ x = -3 := by omega
      simp [effLevel, Gen.VERSION_M1, Gen.ERROR_LEVEL_L, hm1]
      rw [cap_bind1, blwo' $segs _ (by omega)]
      unfold fitsM
      cases capacity x (some 1) <;> cases bitLengthWithOverhead $segs x $eci $isSa <;> simp <;>
        (try (split_ifs <;> simp_all <;> omega))
  · intros; rfl
  · intro s x hs
    refine ⟨by omega, ?_⟩
    by_cases hm1 : x = -3
    · left; simp [effLevel, Gen.VERSION_M1, hm1]
    · right; refine ⟨by simp [effLevel, Gen.VERSION_M1, Gen.ERROR_LEVEL_L, hm1], by omega⟩
  · exact ⟨$hlo, Or.inl rfl⟩
  · intro s'; rfl
  · intro r; rfl))

theorem fv_none (segs : List Segment) (eci : Bool) (micro : Option Bool) (isSa : Bool) :
    toR (Gen.Funcs2.find_version (nEci segs) (modesOf segs) (bitLen segs) none eci micro isSa)
      = Model.findVersion segs none eci micro isSa := by
  rw [findVersion_spec]
  unfold Gen.Funcs2.find_version searchM
  simp only [mapM_fmv]
  rcases micro with _ | _ | _
  · simp
    cases hm : List.mapM (fun s => findMinimumVersionForMode s.mode) segs with
    | none => rfl
    | some l =>
      cases l with
      | nil => rfl
      | cons x xs =>
        simp [maxOf]
        have hlo := minV_ge segs x xs hm
        fv_loop_none segs, eci, isSa, hlo
  · simp
    fv_loop_none segs, eci, isSa, (by omega)
  · cases eci
    · simp
      cases hm : List.mapM (fun s => findMinimumVersionForMode s.mode) segs with
      | none => rfl
      | some l =>
        cases l with
        | nil => rfl
        | cons x xs =>
          simp [maxOf]
          have hlo := minV_ge segs x xs hm
          fv_loop_none segs, false, isSa, hlo
    · rfl

/-- `find_version` for every segment list, error level (or `None`), ECI flag, `micro` ∈ {None, False, True}, and
    structured-append flag -/
theorem fv_tie (segs : List Segment) (e : Option Nat) (eci : Bool) (micro : Option Bool) (isSa : Bool) :
    toR (Gen.Funcs2.find_version (nEci segs) (modesOf segs) (bitLen segs) (e.map Int.ofNat) eci micro isSa)
      = Model.findVersion segs e eci micro isSa := by
  cases e with
  | none => exact fv_none segs eci micro isSa
  | some n => exact fv_some segs n eci micro isSa

end Proofs.TieA2
