/-
  Proofs.TieAOverhead — `Segments.bit_length_with_overhead`: the translated method (the segment list enters through the
  three reads `self.modes`, `self.bit_length` and the number of ECI indicators) against `Model.bitLengthWithOverhead`.
-/
import Proofs.TieA
import Proofs.TieABits

set_option linter.unusedSimpArgs false
set_option linter.unusedTactic false

namespace Proofs.TieA
open Gen.Py Model

theorem sumNat_cons' (x : Nat) (l : List Nat) : sumNat (x :: l) = x + sumNat l := by
  unfold sumNat
  simp only [List.foldl_cons, Nat.zero_add]
  have : ∀ (l : List Nat) (a b : Nat), List.foldl (· + ·) (a + b) l = a + List.foldl (· + ·) b l := by
    intro l; induction l with
    | nil => intros; rfl
    | cons y t ih => intro a b; simp only [List.foldl_cons]; rw [Nat.add_assoc]; exact ih a (b + y)
  simpa using this l x 0

theorem sumM_cci (segs : List Segment) (vr : Int) (acc : Int) :
    List.foldl (fun acc x => Gen.Py.bind acc (fun s => Gen.Py.bind
        (Gen.Py.bind (lookup Gen.Funcs.T_consts_CHAR_COUNT_INDICATOR_LENGTH x) (fun t => lookup t vr))
        (fun v => .ok (s + v)))) (.ok acc) (segs.map (fun s => (s.mode : Int)))
      = ofOption .keyError ((segs.mapM (fun s => cciLen s.mode vr)).map (fun l => acc + Int.ofNat (sumNat l))) := by
  induction segs generalizing acc with
  | nil => simp [sumNat]
  | cons s t ih =>
    simp only [List.map_cons, List.foldl_cons, Gen.Py.bind_ok, cci_lookup, List.mapM_cons]
    cases hc : cciLen s.mode vr with
    | none =>
      simp only [Option.map_none, ofOption_none, Gen.Py.bind_error]
      have : ∀ l : List Int, List.foldl (fun acc x => Gen.Py.bind acc (fun s => Gen.Py.bind
          (Gen.Py.bind (lookup Gen.Funcs.T_consts_CHAR_COUNT_INDICATOR_LENGTH x) (fun t => lookup t vr))
          (fun v => .ok (s + v)))) (.error .keyError : M Int) l = .error .keyError := by
        intro l; induction l with
        | nil => rfl
        | cons y t ih => simpa using ih
      rw [this]; rfl
    | some cl =>
      simp only [Option.map_some, ofOption_some, Gen.Py.bind_ok]
      rw [ih]
      cases hm : List.mapM (fun s => cciLen s.mode vr) t with
      | none => rfl
      | some l =>
        simp [sumNat_cons']
        omega

theorem sum_hanzi (segs : List Segment) :
    Gen.Py.sum ((segs.map (fun s => (s.mode : Int))).filter (fun m => m == (13 : Int))) (fun _ => (4 : Int))
      = 4 * Int.ofNat (segs.filter (fun s => s.mode == Gen.MODE_HANZI)).length := by
  unfold Gen.Py.sum
  have : ∀ (l : List Int) (a : Int), List.foldl (fun acc _ => acc + 4) a l = a + 4 * Int.ofNat l.length := by
    intro l; induction l with
    | nil => intro a; simp
    | cons y t ih => intro a; simp only [List.foldl_cons, ih, List.length_cons, Int.ofNat_eq_natCast]; push_cast; omega
  rw [this]
  have h2 : ((segs.map (fun s => (s.mode : Int))).filter (fun m => m == (13 : Int))).length
      = (segs.filter (fun s => s.mode == Gen.MODE_HANZI)).length := by
    induction segs with
    | nil => rfl
    | cons s t ih =>
      simp only [List.map_cons, List.filter_cons, Gen.MODE_HANZI] at ih ⊢
      by_cases h : s.mode = 13
      · simp [h, ih]
      · have : ¬ ((s.mode : Int) = 13) := by omega
        simp [h, this, ih]
  rw [h2]; omega

theorem vr_ok (v : Int) (h1 : 0 < v) (h2 : v ≤ 40) : Gen.Funcs.version_range v = .ok (Gen.version_range v) := by
  unfold Gen.Funcs.version_range Gen.version_range
  split_ifs <;> simp_all <;> omega

theorem blwo (segs : List Segment) (v : Int) (hv : v ≤ 40) (eci isSa : Bool) :
    Gen.Funcs.bit_length_with_overhead v eci isSa
        (Int.ofNat (segs.filter (fun s => s.mode == Gen.MODE_BYTE && s.encoding != some Gen.DEFAULT_BYTE_ENCODING)).length)
        (segs.map (fun s => (s.mode : Int))) (Int.ofNat (sumNat (segs.map (fun s => s.bits.length))))
      = ofOption .keyError ((Model.bitLengthWithOverhead segs v eci isSa).map Int.ofNat) := by
  unfold Gen.Funcs.bit_length_with_overhead Model.bitLengthWithOverhead
  simp only [Gen.Py.sumM, sum_hanzi]
  by_cases h0 : 0 < v
  · simp only [h0, vr_ok v h0 hv, gt_iff_lt, decide_true, if_true, Gen.Py.bind_ok]
    rw [sumM_cci]
    cases hm : List.mapM (fun s => cciLen s.mode (Gen.version_range v)) segs with
    | none => cases eci <;> rfl
    | some l =>
      simp only [Option.map_some, ofOption_some, Gen.Py.bind_ok, List.length_map]
      simp only [Option.bind_eq_bind, Option.bind_some, Option.pure_def, Option.map_some, ofOption_some]
      generalize (List.filter (fun s => s.mode == Gen.MODE_BYTE && s.encoding != some Gen.DEFAULT_BYTE_ENCODING) segs).length = ne
      generalize (List.filter (fun s => s.mode == Gen.MODE_HANZI) segs).length = nh
      generalize sumNat (List.map (fun s => s.bits.length) segs) = sb
      generalize sumNat l = sc
      cases eci <;> cases isSa <;> simp [Int.ofNat_eq_natCast] <;> omega
  · have h0' : ¬ (v > 0) := h0
    simp only [h0, h0', gt_iff_lt, decide_false, Bool.false_eq_true, if_false, Gen.Py.bind_ok]
    rw [sumM_cci]
    cases hm : List.mapM (fun s => cciLen s.mode v) segs with
    | none => cases eci <;> rfl
    | some l =>
      simp only [Option.map_some, ofOption_some, Gen.Py.bind_ok, List.length_map]
      simp only [Option.bind_eq_bind, Option.bind_some, Option.pure_def, Option.map_some, ofOption_some, Gen.VERSION_M1]
      by_cases h3 : -3 < v
      · have h3' : v > -3 := h3
        have hp : Int.ofNat (segs.length * (v + 3).toNat) = Int.ofNat segs.length * (v + 3) := by
          simp only [Int.ofNat_eq_natCast]; push_cast; rw [Int.toNat_of_nonneg (by omega)]
        simp only [h3, h3', decide_true, if_true]
        generalize (List.filter (fun s => s.mode == Gen.MODE_BYTE && s.encoding != some Gen.DEFAULT_BYTE_ENCODING) segs).length = ne
        generalize sumNat (List.map (fun s => s.bits.length) segs) = sb
        generalize sumNat l = sc
        generalize hP : Int.ofNat segs.length * (v + 3) = P at hp ⊢
        generalize segs.length * (v + 3).toNat = Q at hp ⊢
        cases eci <;> cases isSa <;> simp [Int.ofNat_eq_natCast] at hp ⊢ <;> omega
      · have h3' : ¬ (v > -3) := h3
        simp only [h3, h3', decide_false, Bool.false_eq_true, if_false]
        generalize (List.filter (fun s => s.mode == Gen.MODE_BYTE && s.encoding != some Gen.DEFAULT_BYTE_ENCODING) segs).length = ne
        generalize sumNat (List.map (fun s => s.bits.length) segs) = sb
        generalize sumNat l = sc
        cases eci <;> cases isSa <;> simp [Int.ofNat_eq_natCast] <;> omega

end Proofs.TieA
