/-
  Proofs.ArgsLemmas — helper lemmas about Model.Args (argument normalisation) and about the head of
  Model.encode, used by Props/C14.lean.
-/
import Model.Args
import Proofs.CliLemmas

namespace Proofs.ArgsLemmas
open Model Model.Args Model.Cli Gen

instance instDecEqExcept {ε α : Type} [DecidableEq ε] [DecidableEq α] : DecidableEq (Except ε α) := fun a b =>
  match a, b with
  | .ok x, .ok y => if h : x = y then isTrue (by rw [h]) else isFalse (by intro e; cases e; exact h rfl)
  | .error x, .error y => if h : x = y then isTrue (by rw [h]) else isFalse (by intro e; cases e; exact h rfl)
  | .ok _, .error _ => isFalse (by intro e; cases e)
  | .error _, .ok _ => isFalse (by intro e; cases e)

/-- splits every `match` / `if` of an equation `… = .error e` and closes the branches in which the
    error is the expected one (`rfl`) or the equation is absurd -/
macro "err_cases" h:ident : tactic => `(tactic| (
  simp only [bind, Except.bind, pure, Except.pure, throw, throwThe, MonadExceptOf.throw] at $h:ident
  repeat' split at $h:ident
  all_goals (first | (cases $h:ident; rfl) | (cases $h:ident) | skip)))

theorem bind_ok {α β : Type} {x : R α} {f : α → R β} {r : β} (h : (x >>= f) = .ok r) :
    ∃ a, x = .ok a ∧ f a = .ok r := by
  cases x with
  | error e => simp [bind, Except.bind] at h
  | ok a => exact ⟨a, rfl, h⟩

theorem bind_err {α β : Type} {x : R α} {f : α → R β} {e : PyErr} (h : (x >>= f) = .error e) :
    x = .error e ∨ ∃ a, x = .ok a ∧ f a = .error e := by
  cases x with
  | error e' => left; simpa [bind, Except.bind] using h
  | ok a => right; exact ⟨a, rfl, h⟩

/-! ### the normalisers raise ValueError only (mask: TypeError for a value `int()` rejects by type) -/

theorem normalizeVersion_err (v : PyV) (e : PyErr) (h : normalizeVersion v = .error e) : e = .valueError := by
  unfold normalizeVersion at h
  err_cases h

theorem normalizeMode_err (v : PyV) (e : PyErr) (h : normalizeMode v = .error e) : e = .valueError := by
  unfold normalizeMode at h
  err_cases h

theorem normalizeErrorLevel_err (v : PyV) (e : PyErr) (h : normalizeErrorLevel v = .error e) : e = .valueError := by
  unfold normalizeErrorLevel at h
  err_cases h

theorem comboChecks_err (v : Option Int) (er : Option Nat) (m : Option Nat) (eci : Bool) (micro : Option Bool) (e : PyErr)
    (h : comboChecks v er m eci micro = .error e) : e = .valueError := by
  unfold comboChecks at h
  err_cases h

theorem normalizeMask_err (v : PyV) (b : Bool) (e : PyErr) (h : normalizeMask v b = .error e) :
    e = .valueError ∨ (e = .typeError ∧ maskRequest v = .typeError) := by
  unfold normalizeMask at h
  simp only [pure, Except.pure, throw, throwThe, MonadExceptOf.throw] at h
  repeat' split at h
  all_goals first | (cases h; left; rfl) | (cases h; right; exact ⟨rfl, by assumption⟩) | cases h

theorem symbolCountCheck_err (v : PyV) (e : PyErr) (h : symbolCountCheck v = .error e) :
    e = .valueError ∨ (e = .typeError ∧ asInt v = none) := by
  unfold symbolCountCheck at h
  simp only [pure, Except.pure, throw, throwThe, MonadExceptOf.throw] at h
  repeat' split at h
  all_goals first | (cases h; left; rfl) | (cases h; right; exact ⟨rfl, by assumption⟩) | cases h

/-! ### ASCII upper case of the Micro version names -/

theorem upperC_eq_M (c : Char) (h : upperC c = 'M') : c = 'M' ∨ c = 'm' := by
  unfold upperC at h
  split at h <;> first | (right; rfl) | (exact absurd h (by decide)) | (left; exact h)

theorem upperC_digit (c d : Char) (hd : isDigit d = true) (h : upperC c = d) : c = d := by
  unfold upperC at h
  split at h <;> first | exact h | (subst h; exact absurd hd (by decide))

/-! ### `Model.encode` = argument checks, then the encoding proper -/

def pickVersion (version : Option Int) (guessed : Int) : R Int :=
  match version with
  | none => pure guessed
  | some v => if guessed > v then throw PyErr.dataOverflow else pure v

def ownCapacityCheck (segs : List Segment) (v guessed : Int) (error' : Option Nat) (eci : Bool) : R Unit :=
  if v != guessed then
    match capacity v error', bitLengthWithOverhead segs v eci false with
    | some cap, some bl => if cap ≥ bl then pure () else throw PyErr.dataOverflow
    | _, _ => throw PyErr.dataOverflow
  else pure ()

def maskRangeCheck (v : Int) (mask : Option Nat) : R Unit :=
  match mask with
  | some mk => if (v < 1 && mk ≥ 4) || mk ≥ 8 then throw PyErr.valueError else pure ()
  | none => pure ()

def defaultLevel (error : Option Nat) (v : Int) : Option Nat :=
  if error.isNone && v != Gen.VERSION_M1 then some Gen.ERROR_LEVEL_L else error

/-- `encoder.encode` after its argument checks (the statements of `Model.encode` that follow them), as a chain of binds -/
def encTail (parts : List Part) (error : Option Nat) (version : Option Int) (mask : Option Nat)
    (eci : Bool) (micro : Option Bool) (boost : Bool) (eciNumber : String → Option Nat) : R Code :=
  prepareData parts >>= fun segs =>
  findVersion segs error eci (if eci && micro.isNone then some false else micro) >>= fun guessed =>
  pickVersion version guessed >>= fun v =>
  ownCapacityCheck segs v guessed (defaultLevel error v) eci >>= fun _ =>
  maskRangeCheck v mask >>= fun _ =>
  encodeCore segs (defaultLevel error v) v mask eci boost eciNumber

/-- the same statements in `do` notation, literally as in `Model.encode` -/
def encTailDo (parts : List Part) (error : Option Nat) (version : Option Int) (mask : Option Nat)
    (eci : Bool) (micro : Option Bool) (boost : Bool) (eciNumber : String → Option Nat) : R Code := do
  let micro' := if eci && micro.isNone then some false else micro
  let segs ← prepareData parts
  let guessed ← findVersion segs error eci micro'
  let v ← match version with
    | none => pure guessed
    | some v => if guessed > v then throw PyErr.dataOverflow else pure v
  let error' := if error.isNone && v != Gen.VERSION_M1 then some Gen.ERROR_LEVEL_L else error
  if v != guessed then
    match capacity v error', bitLengthWithOverhead segs v eci false with
    | some cap, some bl => if cap ≥ bl then pure () else throw PyErr.dataOverflow
    | _, _ => throw PyErr.dataOverflow
  match mask with
  | some mk => if (v < 1 && mk ≥ 4) || mk ≥ 8 then throw PyErr.valueError
  | none => pure ()
  encodeCore segs error' v mask eci boost eciNumber

theorem encode_eq_do (parts : List Part) (error : Option Nat) (version : Option Int) (mode : Option Nat) (mask : Option Nat)
    (eci : Bool) (micro : Option Bool) (boost : Bool) (f : String → Option Nat) :
    encode parts error version mode mask eci micro boost f
      = (comboChecks version error mode eci micro >>= fun _ => encTailDo parts error version mask eci micro boost f) := by
  cases version with
  | none =>
    cases mode <;> rcases micro with _ | _ | _ <;> cases eci <;> cases hH : (error == some ERROR_LEVEL_H) <;>
      simp [encode, comboChecks, encTailDo, hH, bind, Except.bind, pure, Except.pure, throw, throwThe, MonadExceptOf.throw] <;> rfl
  | some v =>
    by_cases hmv : v ∈ MICRO_VERSIONS <;> cases mode with
    | none =>
      rcases micro with _ | _ | _ <;> cases eci <;> cases hH : (error == some ERROR_LEVEL_H) <;>
        simp [encode, comboChecks, encTailDo, hH, hmv, bind, Except.bind, pure, Except.pure, throw, throwThe, MonadExceptOf.throw] <;> rfl
    | some md =>
      rcases hs : isModeSupported md v with _ | _ | _ <;>
      rcases micro with _ | _ | _ <;> cases eci <;> cases hH : (error == some ERROR_LEVEL_H) <;>
        simp [encode, comboChecks, encTailDo, hH, hmv, hs, bind, Except.bind, pure, Except.pure, throw, throwThe, MonadExceptOf.throw] <;> rfl

theorem encTailDo_eq (parts : List Part) (error : Option Nat) (version : Option Int) (mask : Option Nat)
    (eci : Bool) (micro : Option Bool) (boost : Bool) (f : String → Option Nat) :
    encTailDo parts error version mask eci micro boost f = encTail parts error version mask eci micro boost f := by
  simp only [encTailDo, encTail, pickVersion, ownCapacityCheck, maskRangeCheck, defaultLevel,
    bind, Except.bind, pure, Except.pure, throw, throwThe, MonadExceptOf.throw]
  cases prepareData parts with
  | error e => rfl
  | ok segs =>
    simp only []
    cases findVersion segs error eci (if (eci && micro.isNone) = true then some false else micro) with
    | error e => rfl
    | ok guessed =>
      simp only []
      cases version with
      | none =>
        simp only []
        cases mask with
        | none => simp
        | some mk => by_cases hb : (decide (guessed < 1) && decide (mk ≥ 4) || decide (mk ≥ 8)) = true <;> simp [hb]
      | some v =>
        simp only []
        by_cases hg : guessed > v
        · simp [hg]
        · by_cases hv : (v != guessed) = true
          · simp only [hg, hv, if_true, if_false]
            cases capacity v (if (error.isNone && v != VERSION_M1) = true then some ERROR_LEVEL_L else error) <;>
              cases bitLengthWithOverhead segs v eci false <;> simp only [] <;> try rfl
            rename_i cap bl
            by_cases hc : cap ≥ bl
            · simp only [hc, if_true]
              cases mask with
              | none => simp
              | some mk => by_cases hb : (decide (v < 1) && decide (mk ≥ 4) || decide (mk ≥ 8)) = true <;> simp [hb]
            · simp [hc]
          · simp only [hg, hv, if_false]
            cases mask with
            | none => simp
            | some mk => by_cases hb : (decide (v < 1) && decide (mk ≥ 4) || decide (mk ≥ 8)) = true <;> simp [hb]

/-- the head of `Model.encode` is exactly `Model.Args.comboChecks` -/
theorem encode_eq (parts : List Part) (error : Option Nat) (version : Option Int) (mode : Option Nat) (mask : Option Nat)
    (eci : Bool) (micro : Option Bool) (boost : Bool) (f : String → Option Nat) :
    encode parts error version mode mask eci micro boost f
      = (comboChecks version error mode eci micro >>= fun _ => encTail parts error version mask eci micro boost f) := by
  rw [encode_eq_do]
  simp only [encTailDo_eq]

/-- a mask request ≥ 8 never yields a symbol -/
theorem encTail_bad_mask (parts : List Part) (error : Option Nat) (version : Option Int) (mk : Nat)
    (eci : Bool) (micro : Option Bool) (boost : Bool) (f : String → Option Nat) (hmk : 8 ≤ mk) (r : Code)
    (h : encTail parts error version (some mk) eci micro boost f = .ok r) : False := by
  unfold encTail at h
  obtain ⟨segs, _, h⟩ := bind_ok h
  obtain ⟨guessed, _, h⟩ := bind_ok h
  obtain ⟨v, _, h⟩ := bind_ok h
  obtain ⟨_, _, h⟩ := bind_ok h
  obtain ⟨_, hm, _⟩ := bind_ok h
  have : (decide (v < 1) && decide (mk ≥ 4) || decide (mk ≥ 8)) = true := by simp; right; exact hmk
  simp [maskRangeCheck, this, throw, throwThe, MonadExceptOf.throw] at hm

theorem encode_bad_mask (parts : List Part) (error : Option Nat) (version : Option Int) (mode : Option Nat) (mk : Nat)
    (eci : Bool) (micro : Option Bool) (boost : Bool) (f : String → Option Nat) (hmk : 8 ≤ mk) (r : Code)
    (h : encode parts error version mode (some mk) eci micro boost f = .ok r) : False := by
  rw [encode_eq] at h
  obtain ⟨_, _, h⟩ := bind_ok h
  exact encTail_bad_mask _ _ _ _ _ _ _ _ hmk r h

/-! ### ranges of the normalised values -/

theorem assocStr_mem {β : Type} (t : List (String × β)) (k : Str) (x : β) (h : assocStr t k = some x) :
    x ∈ t.map (·.2) := by
  simp only [assocStr, Option.map_eq_some_iff] at h
  obtain ⟨a, ha, rfl⟩ := h
  exact List.mem_map.2 ⟨a, List.mem_of_find?_eq_some ha, rfl⟩

theorem find_val_mem {β : Type} (t : List (String × β)) (p : String × β → Bool) (x : β)
    (h : (t.find? p).map (·.2) = some x) : x ∈ t.map (·.2) := by
  simp only [Option.map_eq_some_iff] at h
  obtain ⟨a, ha, rfl⟩ := h
  exact List.mem_map.2 ⟨a, List.mem_of_find?_eq_some ha, rfl⟩

theorem normalizeVersion_range (v : PyV) (x : Int) (h : normalizeVersion v = .ok (some x)) : -3 ≤ x ∧ x ≤ 40 := by
  unfold normalizeVersion at h
  simp only [pure, Except.pure, throw, throwThe, MonadExceptOf.throw] at h
  repeat' split at h
  all_goals first | (cases h; done) | skip
  all_goals
    rename_i hc
    cases h
    simp [Gen.MICRO_VERSIONS] at hc
    omega

theorem normalizeErrorLevel_range (v : PyV) (x : Nat) (h : normalizeErrorLevel v = .ok (some x)) :
    x ∈ Gen.ERROR_MAPPING.map (·.2) := by
  unfold normalizeErrorLevel at h
  simp only [pure, Except.pure, throw, throwThe, MonadExceptOf.throw] at h
  repeat' split at h
  all_goals first | (cases h; done) | skip
  · rename_i hc; cases h; exact assocStr_mem _ _ _ hc
  · rename_i hc; cases h
    rw [Option.bind_eq_some_iff] at hc
    obtain ⟨i, _, hi⟩ := hc
    exact find_val_mem _ _ _ hi

theorem normalizeMode_range (v : PyV) (x : Nat) (h : normalizeMode v = .ok (some x)) :
    x ∈ Gen.MODE_MAPPING.map (·.2) := by
  unfold normalizeMode at h
  simp only [pure, Except.pure, throw, throwThe, MonadExceptOf.throw] at h
  repeat' split at h
  all_goals first | (cases h; done) | skip
  · rename_i hc; cases h
    rw [Option.bind_eq_some_iff] at hc
    obtain ⟨i, _, hi⟩ := hc
    exact find_val_mem _ _ _ hi
  · rename_i hc; cases h; exact assocStr_mem _ _ _ hc

end Proofs.ArgsLemmas
