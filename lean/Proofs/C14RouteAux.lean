/-
  Proofs.C14RouteAux — helper lemmas of Proofs/C14Route.lean that do not mention plans' `TargetOK` / `PostOK`: how a computation
  ends relative to a class `P` of codec errors (`EndsP`, `EnvP`), `writable` on documents of the right shape, the dispatch of `save`,
  `save` into a buffer followed by a data-URI step as ONE plan, the parts of a pass-through call, typing of the keyword maps the
  routes build, the loop of `QRCodeSequence.save`, and when `completeKw` raises TypeError.
-/
import Proofs.C14RouteDefs
import Props.C14Serializers
import Props.C12Routes

namespace Proofs.C14Route
open Gen (PyV)
open Model Model.Cli Model.Routes Model.RoutesDocs Model.RoutesVec Proofs.C14Ser Proofs.Routes Proofs.Png

/-! ### how a computation ends, with the errors of the codec as a parameter -/

theorem map_ok_shape {α : Type} (f : α → SerOut) (r : R α) (so : SerOut) (h : r.map f = .ok so) : ∃ a, so = f a := by
  cases r with
  | error e => simp [Except.map] at h
  | ok a => simp only [Except.map, Except.ok.injEq] at h; exact ⟨a, h.symm⟩

/-- a result, ValueError, or an error of the class `P` -/
def EndsP {α : Type} (P : PyErr → Prop) (r : R α) : Prop :=
  (∃ x, r = .ok x) ∨ r = .error .valueError ∨ ∃ x, r = .error x ∧ P x

/-- the runtime services of an environment raise only errors of the class `P` (codec, decode) / ValueError (gzip) -/
structure EnvP (env : Env) (P : PyErr → Prop) : Prop where
  codec : ∀ e s, EndsP P (env.codec e s)
  decode : ∀ e b, EndsP P (env.decode e b)
  gzip : ∀ l, env.gzipCheck l = .ok () ∨ env.gzipCheck l = .error .valueError

/-- what the serialiser of a plan hands over -/
def ShapeOK (key : String) (so : SerOut) : Prop :=
  (key = "svg" → ∃ s e, so = .text s (some e)) ∧ (key ∈ binaryKinds → ∃ b, so = .bytes b) ∧ (key ∈ textKinds → ∃ s, so = .text s none)

theorem endsP_map {α β : Type} {P : PyErr → Prop} {r : R α} (hr : EndsP P r) (f : α → β) : EndsP P (r.map f) := by
  rcases hr with ⟨x, rfl⟩ | rfl | ⟨x, rfl, hx⟩
  · exact Or.inl ⟨_, rfl⟩
  · exact Or.inr (Or.inl rfl)
  · exact Or.inr (Or.inr ⟨x, rfl, hx⟩)

theorem endsP_bind_pure {α β : Type} {P : PyErr → Prop} {r : R α} (hr : EndsP P r) (f : α → β) :
    EndsP P (r >>= fun a => pure (f a)) := by
  rcases hr with ⟨x, rfl⟩ | rfl | ⟨x, rfl, hx⟩
  · exact Or.inl ⟨_, rfl⟩
  · exact Or.inr (Or.inl rfl)
  · exact Or.inr (Or.inr ⟨x, rfl, hx⟩)

theorem writableBin_ends (env : Env) (P : PyErr → Prop) (he : EnvP env P) (so : SerOut)
    (hso : (∃ b, so = .bytes b) ∨ ∃ s e, so = .text s (some e)) : EndsP P (writableBin env so) := by
  rcases hso with ⟨b, rfl⟩ | ⟨s, e, rfl⟩
  · exact Or.inl ⟨b, rfl⟩
  · exact he.codec e s

theorem writable_file_ends (env : Env) (P : PyErr → Prop) (he : EnvP env P) (so : SerOut) : EndsP P (writable env .file so) := by
  cases so with
  | bytes b => exact Or.inl ⟨_, rfl⟩
  | text s enc =>
    cases enc with
    | some e => exact endsP_bind_pure (he.codec e s) _
    | none => exact endsP_bind_pure (he.codec env.defaultEnc s) _

theorem shape_bin {key : String} {so : SerOut} (hsh : ShapeOK key so) (hk : key = "svg" ∨ key ∈ binaryKinds) :
    (∃ b, so = .bytes b) ∨ ∃ s e, so = .text s (some e) := by
  rcases hk with hk | hk
  · exact Or.inr (hsh.1 hk)
  · exact Or.inl (hsh.2.1 hk)

theorem routeClean_iff {α : Type} (r : R α) : RouteClean r ↔ EndsP (fun x => x = .unicodeError ∨ x = .lookupError) r := by
  unfold RouteClean EndsP
  constructor
  · rintro (h | h | h | h)
    · exact Or.inl h
    · exact Or.inr (Or.inl h)
    · exact Or.inr (Or.inr ⟨_, h, Or.inl rfl⟩)
    · exact Or.inr (Or.inr ⟨_, h, Or.inr rfl⟩)
  · rintro (h | h | ⟨x, h, rfl | rfl⟩)
    · exact Or.inl h
    · exact Or.inr (Or.inl h)
    · exact Or.inr (Or.inr (Or.inl h))
    · exact Or.inr (Or.inr (Or.inr h))

/-! ### the dispatch of `save` -/

theorem reserved_not_options : ∀ key ∈ kinds, ∀ k ∈ saveReserved, ∀ p ∈ optTypes key, p.1 ≠ k := by decide +kernel

/-- a failing dispatch of `save` is a ValueError, except for the stream without a name -/
theorem dispatchOf_error (out : OutArg) (kind : Option Str) (e : PyErr) (h : dispatchOf out kind = .error e) :
    e = .valueError ∨ (kind = none ∧ ∃ b, out = .stream b none) := by
  have hd : ∀ f s k, dispatch validKeys f s k = .error e → e = .valueError := by
    intro f s k hk
    unfold dispatch at hk
    dsimp only at hk
    split at hk
    · cases hk
    · cases hk; rfl
  cases kind with
  | some k => exact Or.inl (hd _ _ _ h)
  | none =>
    cases out with
    | path n => exact Or.inl (hd _ _ _ h)
    | stream b nm =>
      cases nm with
      | some n => exact Or.inl (hd _ _ _ h)
      | none => exact Or.inr ⟨rfl, b, rfl⟩

theorem dispatchKey_gz (f : Str) (s : Bool) (k : Option Str) (h : (dispatchKey f s k).2 = true) : (dispatchKey f s k).1 = "svg" := by
  unfold dispatchKey at h ⊢
  cases k <;> simp only [] at h ⊢ <;> simp only [h, if_true]

/-- only svgz is compressed -/
theorem dispatchOf_gz (out : OutArg) (kind : Option Str) (key : String) (h : dispatchOf out kind = .ok (key, true)) : key = "svg" := by
  have hd : ∀ f s k, dispatch validKeys f s k = .ok (key, true) → key = "svg" := by
    intro f s k hk
    unfold dispatch at hk
    dsimp only at hk
    split at hk
    · simp only [pure, Except.pure, Except.ok.injEq] at hk
      have h1 : (dispatchKey f s k).1 = key := by rw [hk]
      have h2 : (dispatchKey f s k).2 = true := by rw [hk]
      rw [← h1]
      exact dispatchKey_gz f s k h2
    · cases hk
  cases kind with
  | some k => exact hd _ _ _ h
  | none =>
    cases out with
    | path n => exact hd _ _ _ h
    | stream b nm =>
      cases nm with
      | some n => exact hd _ _ _ h
      | none => cases h

/-! ### typing of the keyword maps the routes build -/

theorem any_of_mem {key k : String} {ty : Ty} {v : PyV} (hm : (k, ty) ∈ optTypes key) (ht : hasType ty v = true) :
    (optTypes key).any (fun p => p.1 == (k, v).1 && hasType p.2 (k, v).2) = true :=
  List.any_eq_true.2 ⟨(k, ty), hm, by simp [ht]⟩

theorem svg_encoding_default : ((((serializerDefaults "svg").getD []).find? (·.1 == "encoding")).map (·.2)).getD PyV.none = .str "utf-8" := by
  decide +kernel

/-- the `encoding` of a documented SVG request is a `str` -/
theorem encoding_str (kw : Config) (hdoc : DocumentedSer "svg" kw) : ∃ e, (cget kw "encoding").getD (.str "utf-8") = .str e := by
  have ht := val_typed "svg" kw hdoc "encoding" .text (by decide)
  have hv : val "svg" kw "encoding" = (cget kw "encoding").getD (.str "utf-8") := by
    unfold val
    rw [svg_encoding_default]
  rw [hv] at ht
  exact text_str ht

theorem inlineForced_typed : ∀ e ∈ inlineForced, (optTypes "svg").any (fun p => p.1 == e.1 && hasType p.2 e.2) = true := by decide +kernel

theorem uriDefaults_typed : ∀ e ∈ uriDefaults, (optTypes "svg").any (fun p => p.1 == e.1 && hasType p.2 e.2) = true := by decide +kernel

/-! ### `save` into a buffer + data-URI step = one plan -/

/-- `save` into a fresh buffer followed by the post-processing of `as_svg_data_uri` is one plan -/
theorem save_bind_svgUri (env : Env) (K : Config) (hf : Free saveReserved K) (enc : PyV) (mn oc : Bool) :
    save env (.stream true none) (some "svg".toList) K >>= toSvgUri enc mn oc
      = execute env { key := "svg", kw := K, target := .buffer, post := .svgUri enc mn oc } := by
  rw [save_free _ _ _ _ hf, dispatch_svg_kind]
  simp only [bind, Except.bind, saveCore, Bool.false_eq_true, if_false, OutArg.sink, execute, openTarget, runTarget, pure, Except.pure]
  cases env.ser "svg" K with
  | error e => rfl
  | ok so =>
    simp only
    rw [writable_bin]
    cases writableBin env so with
    | error e => rfl
    | ok b => simp only [Except.map, toSvgUri, bind, Except.bind, pure, Except.pure]

theorem dispatch_png_kind : dispatchOf (.stream true none) (some "png".toList) = .ok ("png", false) := by
  simp only [dispatchOf]; exact eq_of_okIs (by decide +kernel)

/-- … and so is `save` followed by the base64 step of `as_png_data_uri` -/
theorem save_bind_pngUri (env : Env) (K : Config) (hf : Free saveReserved K) :
    save env (.stream true none) (some "png".toList) K >>= toPngUri
      = execute env { key := "png", kw := K, target := .buffer, post := .pngUri } := by
  rw [save_free _ _ _ _ hf, dispatch_png_kind]
  simp only [bind, Except.bind, saveCore, Bool.false_eq_true, if_false, OutArg.sink, execute, openTarget, runTarget, pure, Except.pure]
  cases env.ser "png" K with
  | error e => rfl
  | ok so =>
    simp only
    rw [writable_bin]
    cases writableBin env so with
    | error e => rfl
    | ok b => rfl

/-! ### pass-through calls -/

/-- the parts of a pass-through call -/
theorem through_inner (sig : Sig) (passes : List String) (kw b inner : Config) (h : through sig passes kw = .ok (b, inner)) :
    inner = passes.map (fun k => (k, arg b k)) ++ kw.filter (fun e => !sig.params.any (·.1 == e.1)) := by
  unfold through at h
  cases hb : bindArgs sig kw with
  | error e => rw [hb] at h; exact absurd h (by simp [bind, Except.bind])
  | ok br =>
    obtain ⟨b', rest'⟩ := br
    obtain ⟨_, hrest, _⟩ := bindArgs_ok sig kw b' rest' hb
    rw [hb] at h
    simp only [bind, Except.bind] at h
    unfold callKw at h
    by_cases hc : (rest'.any (fun e => (passes.map (fun k => (k, arg b' k))).any (·.1 == e.1))) = true
    · simp only [hc, if_true] at h
      exact absurd h (by simp [throw, throwThe, MonadExceptOf.throw])
    · simp only [hc, Bool.false_eq_true, if_false, pure, Except.pure, Except.ok.injEq, Prod.mk.injEq] at h
      obtain ⟨hbb, hinner⟩ := h
      subst hbb
      rw [← hinner, hrest]

theorem png_pass_defaults : ∀ k ∈ pngPasses,
    dflt asPngDataUriSig.params k = ((((serializerDefaults "png").getD []).find? (·.1 == k)).map (·.2)).getD PyV.none := by decide +kernel

theorem png_pass_types : ∀ k ∈ pngPasses, ∃ ty, (k, ty) ∈ optTypes "png" := by
  intro k hk
  simp only [pngPasses, List.mem_cons, List.not_mem_nil, or_false] at hk
  rcases hk with rfl | rfl | rfl
  · exact ⟨.scale, by decide⟩
  · exact ⟨.border, by decide⟩
  · exact ⟨.level, by decide⟩

theorem terminal_doc (key : String) (hk : key = "ans" ∨ key = "compact") (border : PyV) (hb : hasType .border border = true) :
    DocumentedSer key [("border", border)] := by
  rcases hk with rfl | rfl
  · refine ⟨by decide, fun e he => ?_⟩
    simp only [List.mem_singleton] at he
    subst he
    exact any_of_mem (by decide) hb
  · refine ⟨by decide, fun e he => ?_⟩
    simp only [List.mem_singleton] at he
    subst he
    exact any_of_mem (by decide) hb

/-! ### sequences, keyword binding -/

theorem seqSaveGo_clean (m : Nat) (out : OutArg) (kind : Option Str) (kw : Config) :
    ∀ (envs : List Env) (n : Nat), (∀ env ∈ envs, ∀ n, RouteClean (save env (seqOut out m n) kind kw)) →
      RouteClean (seqSaveGo m out kind kw n envs)
  | [], _, _ => Or.inl ⟨[], rfl⟩
  | env :: more, n, hall => by
    simp only [seqSaveGo, bind, Except.bind]
    rcases hall env (List.mem_cons_self) n with ⟨r, hr⟩ | hr | hr | hr
    · rw [hr]
      simp only
      rcases seqSaveGo_clean m out kind kw more (n + 1) (fun e he => hall e (List.mem_cons_of_mem _ he)) with ⟨l, hl⟩ | hl | hl | hl
      · rw [hl]; exact Or.inl ⟨_, rfl⟩
      · rw [hl]; exact Or.inr (Or.inl rfl)
      · rw [hl]; exact Or.inr (Or.inr (Or.inl rfl))
      · rw [hl]; exact Or.inr (Or.inr (Or.inr rfl))
    · rw [hr]; exact Or.inr (Or.inl rfl)
    · rw [hr]; exact Or.inr (Or.inr (Or.inl rfl))
    · rw [hr]; exact Or.inr (Or.inr (Or.inr rfl))

/-- the keyword binding of a serialiser call fails with TypeError iff a keyword is not an option of the serialiser -/
theorem completeKw_typeError_iff_aux (key : String) (kw : Config) (hk : key ∈ kinds) :
    completeKw key kw = .error .typeError ↔ ∃ e ∈ kw, ∀ p ∈ optTypes key, p.1 ≠ e.1 := by
  obtain ⟨⟨d, hd, hkeys⟩, _⟩ := Proofs.C14Ser.option_table_is_signature key hk
  unfold completeKw
  rw [hd]
  simp only
  have hany : ∀ e : String × PyV, d.any (·.1 == e.1) = true ↔ ∃ p ∈ optTypes key, p.1 = e.1 := by
    intro e
    rw [List.any_eq_true]
    constructor
    · rintro ⟨q, hq, hqe⟩
      have : q.1 ∈ d.map (·.1) := List.mem_map.2 ⟨q, hq, rfl⟩
      rw [← hkeys] at this
      obtain ⟨p, hp, hpq⟩ := List.mem_map.1 this
      exact ⟨p, hp, by rw [hpq]; simpa using hqe⟩
    · rintro ⟨p, hp, hpe⟩
      have : p.1 ∈ (optTypes key).map (·.1) := List.mem_map.2 ⟨p, hp, rfl⟩
      rw [hkeys] at this
      obtain ⟨q, hq, hqp⟩ := List.mem_map.1 this
      exact ⟨q, hq, by rw [hqp, hpe]; simp⟩
  by_cases hall : kw.all (fun kv => d.any (·.1 == kv.1)) = true
  · rw [if_pos hall]
    constructor
    · intro hx; cases hx
    · rintro ⟨e, he, hne⟩
      obtain ⟨p, hp, hpe⟩ := (hany e).1 (List.all_eq_true.1 hall e he)
      exact absurd hpe (hne p hp)
  · rw [if_neg hall]
    constructor
    · intro _
      have hall' : kw.all (fun kv => d.any (·.1 == kv.1)) = false := by simpa using hall
      obtain ⟨e, he, hne⟩ := List.all_eq_false.1 hall'
      exact ⟨e, he, fun p hp hpe => hne ((hany e).2 ⟨p, hp, hpe⟩)⟩
    · intro _; rfl

end Proofs.C14Route
