/-
  Proofs.TieA3Bound — the penalty score of `Model.evaluateMask` is far below `sys.maxsize` for every symbol size: the
  hypothesis of `find_and_apply_best_mask_tie_partial` holds for every n × n matrix of 0 / 1 modules with n ≤ 177.
-/
import Proofs.TieA2Scores
import Proofs.TieAOverhead

namespace Proofs.TieA3
open Proofs.TieA Proofs.TieA2 Model

theorem sumNat_map_le {α : Type} (l : List α) (f : α → Nat) (B : Nat) (h : ∀ x ∈ l, f x ≤ B) : sumNat (l.map f) ≤ l.length * B := by
  induction l with
  | nil => simp [sumNat]
  | cons x t ih =>
    rw [List.map_cons, sumNat_cons', List.length_cons, Nat.succ_mul]
    have h1 := h x (by simp)
    have h2 := ih (fun y hy => h y (by simp [hy]))
    omega

theorem mStep_step (acc : Nat × Nat × Nat) (b : Nat) : (mStep acc b).1 + (mStep acc b).2.2 ≤ acc.1 + acc.2.2 + 1 := by
  rcases acc with ⟨s, p, c⟩
  unfold mStep
  simp only []
  split
  · simp; omega
  · split <;> simp <;> omega

theorem mStep_inv (l : List Nat) : ∀ acc : Nat × Nat × Nat,
    (l.foldl mStep acc).1 + (l.foldl mStep acc).2.2 ≤ acc.1 + acc.2.2 + l.length := by
  induction l with
  | nil => intro acc; simp
  | cons b t ih =>
    intro acc
    rw [List.foldl_cons, List.length_cons]
    have h1 := ih (mStep acc b)
    have h2 := mStep_step acc b
    omega

theorem n1Line_le (l : List Nat) : n1Line l ≤ l.length := by
  rw [n1Line_eq]
  have := mStep_inv l (0, 2, 0)
  simp only [] at this ⊢
  split <;> omega

theorem n3_go_le (seq : List Nat) (size : Nat) : ∀ (fuel : Nat) (idx : Option Nat) (count : Nat),
    n3Occurrences.go seq size fuel idx count ≤ count + 40 * fuel := by
  intro fuel
  induction fuel with
  | zero => intro idx count; unfold n3Occurrences.go; simp
  | succ f ih =>
    intro idx count
    cases idx with
    | none => unfold n3Occurrences.go; simp
    | some i =>
      unfold n3Occurrences.go
      simp only []
      have := ih (findPattern seq (i + 4))
      split
      · have h := this (count + 40); omega
      · have h := this count; omega

theorem n3_le (seq : List Nat) : n3Occurrences seq ≤ 40 * (seq.length + 1) := by
  unfold n3Occurrences
  have := n3_go_le seq seq.length (seq.length + 1) (findPattern seq 0) 0
  simpa using this

theorem sum_bits_le (l : List Nat) (h : ∀ b ∈ l, b ≤ 1) : sumNat l ≤ l.length := by
  have := sumNat_map_le l id 1 (fun x hx => h x hx)
  simpa using this

theorem row_eq (m : Matrix) (i : Nat) : (m.getD i #[]).toList = rowL m i := rfl
theorem col_eq (m : Matrix) : column m = colL m := rfl

theorem maskScores_le (m : Matrix) (n : Nat) (hs : Sq m n) (hbits : ∀ i j, get2 m i j ≤ 1) :
    (maskScores m).1 ≤ n * n + n * n ∧ (maskScores m).2.1 ≤ (n - 1) * ((n - 1) * 3)
    ∧ (maskScores m).2.2.1 ≤ n * (40 * (n + 1)) + n * (40 * (n + 1)) ∧ (maskScores m).2.2.2 ≤ 300 := by
  unfold maskScores
  simp only [hs.size, List.map_map, row_eq, col_eq]
  refine ⟨?_, ?_, ?_, ?_⟩
  · have h1 := sumNat_map_le (List.range n) (n1Line ∘ fun i => rowL m i) n (fun i hi => by
      simp only [Function.comp]
      have := n1Line_le (rowL m i)
      rw [rowL_length hs i (List.mem_range.mp hi)] at this
      exact this)
    have h2 := sumNat_map_le (List.range n) (n1Line ∘ colL m) n (fun i _ => by
      simp only [Function.comp]
      have := n1Line_le (colL m i)
      rw [colL_length hs i] at this
      exact this)
    simp only [List.length_range] at h1 h2
    omega
  · have := sumNat_map_le (List.range (n - 1)) (fun i => sumNat ((List.range (n - 1)).map (fun j =>
        if (get2 m i j == get2 m i (j + 1) && get2 m i j == get2 m (i + 1) j && get2 m i j == get2 m (i + 1) (j + 1)) = true then 3 else 0)))
      ((n - 1) * 3) (fun i _ => by
        have := sumNat_map_le (List.range (n - 1)) (fun j =>
          if (get2 m i j == get2 m i (j + 1) && get2 m i j == get2 m (i + 1) j && get2 m i j == get2 m (i + 1) (j + 1)) = true then 3 else 0) 3
          (fun j _ => by split <;> omega)
        simpa using this)
    simpa using this
  · have h1 := sumNat_map_le (List.range n) (n3Occurrences ∘ fun i => rowL m i) (40 * (n + 1)) (fun i hi => by
      simp only [Function.comp]
      have := n3_le (rowL m i)
      rw [rowL_length hs i (List.mem_range.mp hi)] at this
      exact this)
    have h2 := sumNat_map_le (List.range n) (n3Occurrences ∘ colL m) (40 * (n + 1)) (fun i _ => by
      simp only [Function.comp]
      have := n3_le (colL m i)
      rw [colL_length hs i] at this
      exact this)
    simp only [List.length_range] at h1 h2
    omega
  · have hd := sumNat_map_le (List.range n) (sumNat ∘ fun i => rowL m i) n (fun i hi => by
      simp only [Function.comp]
      have := sum_bits_le (rowL m i) (rowL_bits hbits i)
      rw [rowL_length hs i (List.mem_range.mp hi)] at this
      exact this)
    simp only [List.length_range] at hd
    generalize sumNat (List.map (sumNat ∘ fun i => rowL m i) (List.range n)) = dark at hd ⊢
    generalize n * n = total at hd ⊢
    have hq : ∀ dev : Nat, dev ≤ 30 * total → dev / total ≤ 30 := by
      intro dev h
      by_cases ht : total = 0
      · subst ht; simp
      · exact Nat.div_le_of_le_mul (by rw [Nat.mul_comm]; exact h)
    split
    · have := hq (20 * dark - 10 * total) (by omega); omega
    · have := hq (10 * total - 20 * dark) (by omega); omega

/-- the penalty score of an n × n matrix of 0 / 1 modules, n ≤ 177, is below 10⁷ (and so below `sys.maxsize`) -/
theorem evaluateMask_lt (m : Matrix) (n : Nat) (hs : Sq m n) (hn : n ≤ 177) (hbits : ∀ i j, get2 m i j ≤ 1) :
    evaluateMask m < 10000000 := by
  obtain ⟨h1, h2, h3, h4⟩ := maskScores_le m n hs hbits
  have hnn : n * n ≤ 177 * 177 := Nat.mul_le_mul hn hn
  have h2' : (n - 1) * ((n - 1) * 3) ≤ 177 * (177 * 3) := Nat.mul_le_mul (by omega) (Nat.mul_le_mul (by omega) (Nat.le_refl _))
  have h3' : n * (40 * (n + 1)) ≤ 177 * (40 * 178) := Nat.mul_le_mul hn (Nat.mul_le_mul (Nat.le_refl _) (by omega))
  unfold evaluateMask
  rcases hm : maskScores m with ⟨a, b, c, d⟩
  rw [hm] at h1 h2 h3 h4
  simp only [] at h1 h2 h3 h4 ⊢
  omega

end Proofs.TieA3
