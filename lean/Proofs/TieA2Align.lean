/-
  Proofs.TieA2Align — `add_alignment_patterns` (translated, Gen/Funcs2.lean) against `Model.addAlignmentPatterns`:
  the slice assignments `matrix[i + r][j:j + 5] = pattern[r * 5:r * 5 + 5]` of the source are the 25 cell writes
  (`Model.set2`) per alignment pattern of the model; the positions come from the two renderings of
  `consts.ALIGNMENT_POS`.  The general part (namespace `Proofs.TieA2.Align`) repeats the lemmas of
  Proofs/TieA2Finder.lean about cells, slice assignments and loops, so that the two files are independent.
-/
import Proofs.TieA2Matrix

namespace Proofs.TieA2.Align
open Gen.Py Proofs.TieA Proofs.TieA2 Model

/-- the cells after one cell write inside an n × n matrix -/
theorem cell_set2 {m : Matrix} {n : Nat} (hs : Sq m n) (i j v a b : Nat) (hi : i < n) (hj : j < n) :
    get2 (set2 m i j v) a b = if a = i ∧ b = j then v else get2 m a b := by
  have hsz := hs.size
  unfold get2 set2
  simp only [Array.getD_eq_getD_getElem?, Array.getElem?_modify]
  by_cases hai : i = a
  · subst hai
    have ha : i < m.size := by omega
    have hr := hs.rows i ha
    simp only [if_true, true_and, Array.getElem?_eq_getElem ha, Option.map_some, Option.getD_some,
      Array.getElem?_setIfInBounds]
    by_cases hbj : j = b
    · subst hbj
      simp [hr, hj]
    · have : ¬ b = j := fun h => hbj h.symm
      simp [hbj, this]
  · have : ¬ a = i := fun h => hai h.symm
    simp [hai, this]

/-- `w` cell writes into row `i`, columns `j … j + w - 1` -/
def rowWrite (m : Matrix) (i j w : Nat) (f : Nat → Nat) : Matrix :=
  (List.range w).foldl (fun m c => set2 m i (j + c) (f c)) m

theorem sq_rowWrite {m : Matrix} {n : Nat} (hs : Sq m n) (i j w : Nat) (f : Nat → Nat) : Sq (rowWrite m i j w f) n := by
  unfold rowWrite
  induction w with
  | zero => simpa using hs
  | succ w ih => rw [List.range_succ, List.foldl_append]; exact sq_set2 ih _ _ _

/-- the cells after `rowWrite` inside an n × n matrix -/
theorem cell_rowWrite {m : Matrix} {n : Nat} (hs : Sq m n) (i j w : Nat) (f : Nat → Nat) (hi : i < n) (hj : j + w ≤ n)
    (a b : Nat) :
    get2 (rowWrite m i j w f) a b = if a = i ∧ j ≤ b ∧ b < j + w then f (b - j) else get2 m a b := by
  induction w with
  | zero =>
    have : ¬ (a = i ∧ j ≤ b ∧ b < j + 0) := by omega
    rw [if_neg this]; rfl
  | succ w ih =>
    have ih := ih (by omega)
    have hsq := sq_rowWrite hs i j w f
    unfold rowWrite at ih hsq ⊢
    rw [List.range_succ, List.foldl_append, List.foldl_cons, List.foldl_nil,
      cell_set2 hsq _ _ _ _ _ hi (by omega), ih]
    by_cases h1 : a = i ∧ b = j + w
    · obtain ⟨h1, h2⟩ := h1
      subst h1 h2
      have : (j + w - j) = w := by omega
      simp [this]
    · rw [if_neg h1]
      by_cases h2 : a = i ∧ j ≤ b ∧ b < j + w
      · rw [if_pos h2, if_pos (by omega)]
      · rw [if_neg h2, if_neg (by omega)]

/-- a list of rows with the cells of an n × n matrix is that matrix -/
theorem eq_mI_of_cells (L : List (List Int)) (M : Matrix) (n : Nat) (hs : Sq M n) (hl : L.length = n)
    (hc : ∀ a, a < n → ∀ r, L[a]? = some r → r.length = n ∧ ∀ b, b < n → r[b]? = some (get2 M a b : Int)) : L = mI M := by
  apply List.ext_getElem?
  intro a
  by_cases ha : a < n
  · have hm : a < M.size := by rw [hs.size]; exact ha
    rw [mI_getElem? M a hm]
    have hL : a < L.length := by omega
    rw [List.getElem?_eq_getElem hL]
    congr 1
    obtain ⟨h1, h2⟩ := hc a ha L[a] (List.getElem?_eq_getElem hL)
    have hr := hs.rows a hm
    apply List.ext_getElem?
    intro b
    by_cases hb : b < n
    · rw [h2 b hb]
      unfold get2
      rw [getD_row M a hm]
      simp [toI, Array.getD, hr, hb]
    · rw [List.getElem?_eq_none (by omega), List.getElem?_eq_none (by simp [hr]; omega)]
  · rw [List.getElem?_eq_none (by omega), List.getElem?_eq_none (by rw [mI_length, hs.size]; omega)]

/-- the rows of `mI m` -/
theorem mI_row_cells {m : Matrix} {n : Nat} (hs : Sq m n) (a : Nat) (ha : a < n) (r : List Int)
    (h : (mI m)[a]? = some r) : r.length = n ∧ ∀ b, b < n → r[b]? = some (get2 m a b : Int) := by
  have hm : a < m.size := by rw [hs.size]; exact ha
  have hr := hs.rows a hm
  rw [mI_getElem? m a hm] at h
  simp only [Option.some.injEq] at h
  subst h
  refine ⟨by simp [hr], ?_⟩
  intro b hb
  unfold get2
  rw [getD_row m a hm]
  simp [toI, Array.getD, hr, hb]

theorem clip_nat (n k : Nat) (h : k ≤ n) : clip n (k : Int) = k := by
  unfold clip
  rw [if_neg (by omega)]
  simp; omega

/-- `matrix[ii][lo:hi] = ys` with `w = hi - lo` values inside the row is `w` cell writes of the model -/
theorem setSlice2_row {m : Matrix} {n : Nat} (hs : Sq m n) (ii lo hi : Int) (i j w : Nat) (f : Nat → Nat)
    (hi' : normIndex n ii = some i) (hlo : lo = (j : Int)) (hhi : hi = ((j + w : Nat) : Int)) (hjw : j + w ≤ n) :
    setSlice2 (mI m) ii (some lo) (some hi) (toI ((List.range w).map f)) = .ok (mI (rowWrite m i j w f)) := by
  have hin : i < n := normIndex_lt hi'
  have hlt : i < m.size := by rw [hs.size]; exact hin
  have hrow : m[i].size = n := hs.rows i hlt
  subst hlo hhi
  unfold setSlice2
  rw [index_row hs ii i hi', bind_ok, getD_row m i hlt]
  rw [setItem_eq_of_norm _ ii i _ (by rw [mI_length, hs.size]; exact hi')]
  congr 1
  have hlen : (toI m[i].toList).length = n := by simp [hrow]
  have hcells := (mI_row_cells hs i hin _ (mI_getElem? m i hlt)).2
  generalize toI m[i].toList = row at hlen hcells
  apply eq_mI_of_cells _ _ n (sq_rowWrite hs i j w f) (by rw [List.length_set, mI_length, hs.size])
  intro a ha r hr
  rw [List.getElem?_set] at hr
  by_cases hia : i = a
  · subst hia
    rw [if_pos rfl, if_pos (by rw [mI_length]; exact hlt)] at hr
    simp only [Option.some.injEq] at hr
    subst hr
    unfold setSlice sliceLo sliceHi
    simp only [hlen, clip_nat n j (by omega), clip_nat n (j + w) hjw, Nat.le_add_right, Nat.max_eq_right]
    constructor
    · simp [hlen]; omega
    · intro b hb
      rw [cell_rowWrite hs i j w f hin hjw]
      simp only [true_and]
      rw [List.append_assoc, List.getElem?_append]
      simp only [List.length_take, hlen, Nat.min_eq_left (show j ≤ n by omega)]
      by_cases h1 : b < j
      · rw [if_pos h1, if_neg (by omega), List.getElem?_take, if_pos h1, hcells b hb]
      · rw [if_neg h1, List.getElem?_append]
        simp only [toI_length, List.length_map, List.length_range]
        by_cases h2 : b - j < w
        · rw [if_pos h2, if_pos (by omega)]
          simp [toI, h2]
        · rw [if_neg h2, if_neg (by omega), List.getElem?_drop]
          have : j + w + (b - j - w) = b := by omega
          rw [this, hcells b hb]
  · rw [if_neg hia] at hr
    obtain ⟨h1, h2⟩ := mI_row_cells hs a ha r hr
    refine ⟨h1, ?_⟩
    intro b hb
    rw [cell_rowWrite hs i j w f hin hjw, if_neg (by omega), h2 b hb]

/-! ### loops over a matrix -/

/-- a loop of translated code over the image of a list the model folds over, with an invariant of the model's state -/
theorem foldlM_map_inv {α β σ τ : Type} (P : τ → Prop) (g : τ → σ) (φ : β → α) (ys : List β) (body : σ → α → M σ)
    (f : τ → β → τ) (h : ∀ t, P t → ∀ y ∈ ys, body (g t) (φ y) = .ok (g (f t y)) ∧ P (f t y)) (t : τ) (ht : P t) :
    foldlM (ys.map φ) (g t) body = .ok (g (ys.foldl f t)) ∧ P (ys.foldl f t) := by
  induction ys generalizing t with
  | nil => exact ⟨rfl, ht⟩
  | cons y ys ih =>
    obtain ⟨h1, h2⟩ := h t ht y (by simp)
    rw [List.map_cons, foldlM_cons, h1]
    exact ih (fun t' ht' y' hy' => h t' ht' y' (by simp [hy'])) _ h2

/-! ### `add_alignment_patterns` -/

/-- the body of the inner loop `for r in alignment_range` -/
def alignRowBody (i j : Int) (acc : List (List Int)) (r : Int) : M (List (List Int)) :=
  setSlice2 acc (i + r) (some j) (some (j + 5))
    (slice [(1 : Int), 1, 1, 1, 1, 1, 0, 0, 0, 1, 1, 0, 1, 0, 1, 1, 0, 0, 0, 1, 1, 1, 1, 1, 1] (some (r * 5)) (some (r * 5 + 5)))

/-- the body of the outer loop `for x, y in product(positions, repeat=2)` -/
def alignBody (t2 t3 : Int) (acc : List (List Int)) (p : Int × Int) : M (List (List Int)) :=
  if ([(t2, t2), (t2, t3), (t3, t2)]).any (fun y => ((p.1, p.2) == y)) then .ok acc
  else Gen.Py.bind (foldlM (range 0 5) acc (alignRowBody (p.1 - 2) (p.2 - 2))) (fun st => .ok st)

theorem add_alignment_patterns_unfold (matrix : List (List Int)) (w h : Int) :
    Gen.Funcs2.add_alignment_patterns matrix w h =
      if (w == h && decide ((w - 17) / 4 < 2)) then .ok matrix
      else Gen.Py.bind (index Gen.Funcs2.T_consts_ALIGNMENT_POS ((w - 17) / 4 - 2)) (fun t1 =>
        Gen.Py.bind (index t1 0) (fun t2 => Gen.Py.bind (index t1 (-1)) (fun t3 =>
          Gen.Py.bind (foldlM (product2 t1) matrix (alignBody t2 t3)) (fun st => .ok st)))) := rfl

/-- one position pair of the model -/
def alignCell (mn mx : Nat) (m : Matrix) (q : Nat × Nat) : Matrix :=
  if (q.1, q.2) == (mn, mn) || (q.1, q.2) == (mn, mx) || (q.1, q.2) == (mx, mn) then m
  else (List.range 5).foldl (fun m r => rowWrite m (q.1 - 2 + r) (q.2 - 2) 5 (fun c => alignmentPattern.getD (r * 5 + c) 0)) m

theorem version_small (n : Nat) (h : n < 25) : Int.fdiv ((n : Int) - 17) 4 < 2 := by
  rw [Int.fdiv_eq_ediv_of_nonneg _ (by omega)]; omega

theorem version_big (k : Nat) : Int.fdiv (((4 * k + 25 : Nat) : Int) - 17) 4 = (k : Int) + 2 := by
  rw [Int.fdiv_eq_ediv_of_nonneg _ (by omega)]; omega

theorem addAlign_small (m : Matrix) (n : Nat) (h : n < 25) : addAlignmentPatterns m n = .ok m := by
  unfold addAlignmentPatterns
  simp only [version_small n h, if_true]
  rfl

theorem addAlign_big (m : Matrix) (k : Nat) (pos : List Nat) (mn mx : Nat)
    (h1 : Gen.ALIGNMENT_POS[k]? = some pos) (h2 : pos.head? = some mn) (h3 : pos.getLast? = some mx) :
    addAlignmentPatterns m (4 * k + 25) =
      .ok ((pos.map (fun x => pos.map (fun y => (x, y)))).flatten.foldl (alignCell mn mx) m) := by
  unfold addAlignmentPatterns
  have hv : ¬ ((k : Int) + 2 < 2) := by omega
  have hk : ((k : Int) + 2 - 2).toNat = k := by omega
  simp only [version_big k, hv, if_false, hk, h1, h2, h3]
  rfl

/-- positions of version k + 2 -/
def posOf (k : Nat) : List Nat := Gen.ALIGNMENT_POS.getD k []

theorem table_index : ∀ k : Fin 39,
    index Gen.Funcs2.T_consts_ALIGNMENT_POS ((k.val : Nat) : Int) = .ok (toI (posOf k.val)) := by decide

theorem table_model : ∀ k : Fin 39, Gen.ALIGNMENT_POS[k.val]? = some (posOf k.val) := by decide

theorem table_first : ∀ k : Fin 39,
    index (toI (posOf k.val)) 0 = .ok (((posOf k.val).headD 0 : Nat) : Int) ∧ (posOf k.val).head? = some ((posOf k.val).headD 0) := by
  decide

theorem table_last : ∀ k : Fin 39,
    index (toI (posOf k.val)) (-1) = .ok (((posOf k.val).getLastD 0 : Nat) : Int) ∧
      (posOf k.val).getLast? = some ((posOf k.val).getLastD 0) := by
  decide

/-- every 5 × 5 block around a position pair is inside the symbol -/
theorem table_bounds : ∀ k : Fin 39, (posOf k.val).all (fun x => decide (2 ≤ x) && decide (x + 3 ≤ 4 * k.val + 25)) = true := by
  decide

theorem pattern_slice : ∀ r : Fin 5,
    slice [(1 : Int), 1, 1, 1, 1, 1, 0, 0, 0, 1, 1, 0, 1, 0, 1, 1, 0, 0, 0, 1, 1, 1, 1, 1, 1]
        (some (((r.val : Nat) : Int) * 5)) (some (((r.val : Nat) : Int) * 5 + 5)) =
      toI ((List.range 5).map (fun c => alignmentPattern.getD (r.val * 5 + c) 0)) := by decide

/-- `itertools.product(positions, repeat=2)` is the list of pairs of the model -/
theorem product2_toI (l1 l2 : List Nat) :
    (toI l1).flatMap (fun x => (toI l2).map (fun y => (x, y))) =
      ((l1.map (fun x => l2.map (fun y => (x, y)))).flatten).map (fun q : Nat × Nat => ((q.1 : Int), (q.2 : Int))) := by
  induction l1 with
  | nil => rfl
  | cons a l1 ih =>
    rw [toI_cons, List.flatMap_cons, ih, List.map_cons, List.flatten_cons, List.map_append]
    congr 1
    simp [toI]

theorem mem_cells {l1 l2 : List Nat} {q : Nat × Nat} (h : q ∈ (l1.map (fun x => l2.map (fun y => (x, y)))).flatten) :
    q.1 ∈ l1 ∧ q.2 ∈ l2 := by
  simp only [List.mem_flatten, List.mem_map] at h
  obtain ⟨l, ⟨x, hx, rfl⟩, hq⟩ := h
  simp only [List.mem_map] at hq
  obtain ⟨y, hy, rfl⟩ := hq
  exact ⟨hx, hy⟩

theorem pair_beq (x y a b : Nat) : ((((x : Int), (y : Int)) == ((a : Int), (b : Int)))) = ((x, y) == (a, b)) := by
  rw [Bool.eq_iff_iff]; simp; omega

theorem alignBody_eq {m : Matrix} {n : Nat} (hs : Sq m n) (mn mx : Nat) (q : Nat × Nat)
    (h1 : 2 ≤ q.1 ∧ q.1 + 3 ≤ n) (h2 : 2 ≤ q.2 ∧ q.2 + 3 ≤ n) :
    alignBody (mn : Int) (mx : Int) (mI m) ((q.1 : Int), (q.2 : Int)) = .ok (mI (alignCell mn mx m q)) ∧
      Sq (alignCell mn mx m q) n := by
  unfold alignBody alignCell
  simp only [List.any_cons, List.any_nil, Bool.or_false, pair_beq, ← Bool.or_assoc]
  by_cases hc : ((q.1, q.2) == (mn, mn) || (q.1, q.2) == (mn, mx) || (q.1, q.2) == (mx, mn)) = true
  · rw [if_pos hc, if_pos hc]; exact ⟨rfl, hs⟩
  · rw [if_neg hc, if_neg hc]
    have e5 : range 0 5 = (List.range 5).map Int.ofNat := range_zero_nat 5
    rw [e5]
    have key := foldlM_map_inv (fun t => Sq t n) mI Int.ofNat (List.range 5) (alignRowBody ((q.1 : Int) - 2) ((q.2 : Int) - 2))
      (fun m r => rowWrite m (q.1 - 2 + r) (q.2 - 2) 5 (fun c => alignmentPattern.getD (r * 5 + c) 0))
      (by
        intro t ht r hr
        have hr5 : r < 5 := List.mem_range.mp hr
        refine ⟨?_, sq_rowWrite ht _ _ _ _⟩
        unfold alignRowBody
        have e2 := pattern_slice ⟨r, hr5⟩
        simp only at e2
        rw [show Int.ofNat r = (r : Int) from rfl, e2]
        exact setSlice2_row ht _ _ _ (q.1 - 2 + r) (q.2 - 2) 5 _
          (by
            have e : (q.1 : Int) - 2 + (r : Int) = ((q.1 - 2 + r : Nat) : Int) := by omega
            rw [e]; exact normIndex_nat n _ (by omega))
          (by omega) (by omega) (by omega))
      m hs
    exact ⟨by rw [key.1]; rfl, key.2⟩

end Proofs.TieA2.Align

namespace Proofs.TieA2
open Gen.Py Proofs.TieA Model Proofs.TieA2.Align

/-- `add_alignment_patterns(matrix, n, n)` on an n × n matrix of a symbol size: n < 25 (no alignment pattern) or
    n = 4·ver + 17 with 2 ≤ ver ≤ 40 -/
theorem add_alignment_patterns_eq (m : Matrix) (n : Nat) (hs : Sq m n)
    (hn : n < 25 ∨ (n % 4 = 1 ∧ n ≤ 177)) :
    toR (Gen.Funcs2.add_alignment_patterns (mI m) n n) = (Model.addAlignmentPatterns m n).map mI := by
  rw [add_alignment_patterns_unfold]
  by_cases h25 : n < 25
  · have hc : ((n : Int) == (n : Int) && decide (((n : Int) - 17) / 4 < 2)) = true := by simp; omega
    rw [if_pos hc, addAlign_small m n h25]
    rfl
  · have hn' : n % 4 = 1 ∧ n ≤ 177 := by
      rcases hn with h | h
      · exact absurd h h25
      · exact h
    obtain ⟨k, hk⟩ : ∃ k : Nat, n = 4 * k + 25 := ⟨(n - 25) / 4, by omega⟩
    have hk39 : k < 39 := by omega
    subst hk
    have hc : ¬ ((((4 * k + 25 : Nat) : Int)) == ((4 * k + 25 : Nat) : Int) && decide ((((4 * k + 25 : Nat) : Int) - 17) / 4 < 2)) = true := by
      simp; omega
    have hv : (((4 * k + 25 : Nat) : Int) - 17) / 4 - 2 = (k : Int) := by omega
    rw [if_neg hc, hv]
    have t1 := table_index ⟨k, hk39⟩
    have t2 := table_model ⟨k, hk39⟩
    have t3 := table_first ⟨k, hk39⟩
    have t4 := table_last ⟨k, hk39⟩
    have t5 := table_bounds ⟨k, hk39⟩
    simp only at t1 t2 t3 t4 t5
    rw [addAlign_big m k (posOf k) _ _ t2 t3.2 t4.2, t1, bind_ok, t3.1, bind_ok, t4.1, bind_ok]
    unfold product2
    rw [product2_toI]
    have key := foldlM_map_inv (fun t => Sq t (4 * k + 25)) mI (fun q : Nat × Nat => ((q.1 : Int), (q.2 : Int)))
      ((posOf k).map (fun x => (posOf k).map (fun y => (x, y)))).flatten
      (alignBody (((posOf k).headD 0 : Nat) : Int) (((posOf k).getLastD 0 : Nat) : Int))
      (alignCell ((posOf k).headD 0) ((posOf k).getLastD 0))
      (by
        intro t ht q hq
        obtain ⟨hq1, hq2⟩ := mem_cells hq
        rw [List.all_eq_true] at t5
        have b1 := t5 q.1 hq1
        have b2 := t5 q.2 hq2
        simp only [Bool.and_eq_true, decide_eq_true_eq] at b1 b2
        exact alignBody_eq ht _ _ q b1 b2)
      m hs
    rw [key.1]
    rfl

end Proofs.TieA2

