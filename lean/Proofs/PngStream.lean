/-
  Proofs.PngStream — the PNG scanline stream of the model (`Model.pngStream`) split into scanlines
  (`Proofs.Png.pngLines`), and the reference reconstruction (filter types 0 / 2) + unpacking of these
  scanlines gives the colour-index picture (`Proofs.Png.idxPicture`).
-/
import Proofs.PngDefs
import Proofs.Raster

namespace Proofs.Png

open Model Spec Proofs.Raster

/-! ### packed rows -/

theorem groupsOf_length (k : Nat) (row : List Nat) : (groupsOf k row).length = (row.length + k - 1) / k := by
  simp [groupsOf]

/-- length of a packed row -/
theorem packRow_length (d : Nat) (hd : d = 1 ∨ d = 2 ∨ d = 4) (row : List Nat) :
    (packRow d row).length = (row.length * d + 7) / 8 := by
  unfold packRow
  rw [List.length_map, groupsOf_length]
  rcases hd with rfl | rfl | rfl
  · show (row.length + 8 - 1) / 8 = _; omega
  · show (row.length + 4 - 1) / 4 = _; omega
  · show (row.length + 2 - 1) / 2 = _; omega

theorem foldBits1_lt (c : List Nat) (hc : c.length = 8) (hv : ∀ v ∈ c, v < 2) : foldBits 1 c < 256 := by
  match c, hc with
  | [a0, a1, a2, a3, a4, a5, a6, a7], _ =>
    have h0 := hv a0 (by simp); have h1 := hv a1 (by simp); have h2 := hv a2 (by simp); have h3 := hv a3 (by simp)
    have h4 := hv a4 (by simp); have h5 := hv a5 (by simp); have h6 := hv a6 (by simp); have h7 := hv a7 (by simp)
    simp [foldBits, Nat.shiftLeft_eq]; omega

theorem foldBits2_lt (c : List Nat) (hc : c.length = 4) (hv : ∀ v ∈ c, v < 4) : foldBits 2 c < 256 := by
  match c, hc with
  | [a0, a1, a2, a3], _ =>
    have h0 := hv a0 (by simp); have h1 := hv a1 (by simp); have h2 := hv a2 (by simp); have h3 := hv a3 (by simp)
    simp [foldBits, Nat.shiftLeft_eq]; omega

theorem foldBits4_lt (c : List Nat) (hc : c.length = 2) (hv : ∀ v ∈ c, v < 16) : foldBits 4 c < 256 := by
  match c, hc with
  | [a0, a1], _ =>
    have h0 := hv a0 (by simp); have h1 := hv a1 (by simp)
    simp [foldBits, Nat.shiftLeft_eq]; omega

/-- packed bytes are bytes -/
theorem packRow_lt (d : Nat) (hd : d = 1 ∨ d = 2 ∨ d = 4) (row : List Nat) (hrow : ∀ v ∈ row, v < 2 ^ d) :
    ∀ v ∈ packRow d row, v < 256 := by
  intro v hv
  unfold packRow groupsOf at hv
  simp only [List.map_map, List.mem_map, List.mem_range, Function.comp] at hv
  obtain ⟨g, _, rfl⟩ := hv
  rcases hd with rfl | rfl | rfl
  · exact foldBits1_lt _ (groupAt_length _ _ _) (groupAt_bound 2 _ (by decide) row g hrow)
  · exact foldBits2_lt _ (groupAt_length _ _ _) (groupAt_bound 4 _ (by decide) row g hrow)
  · exact foldBits4_lt _ (groupAt_length _ _ _) (groupAt_bound 16 _ (by decide) row g hrow)

theorem groupAt_zeros (k n g : Nat) : groupAt k (List.replicate n 0) g = List.replicate k 0 := by
  rw [List.eq_replicate_iff]
  refine ⟨groupAt_length _ _ _, ?_⟩
  intro v hv
  have := groupAt_bound 1 k (by decide) (List.replicate n 0) g
    (by intro v hv; rw [(List.mem_replicate.1 hv).2]; decide) v hv
  omega

/-- a row of zero samples packs to zero bytes -/
theorem packRow_zeros (d : Nat) (hd : d = 1 ∨ d = 2 ∨ d = 4) (n : Nat) :
    packRow d (List.replicate n 0) = List.replicate ((n * d + 7) / 8) 0 := by
  rw [List.eq_replicate_iff]
  refine ⟨by rw [packRow_length d hd, List.length_replicate], ?_⟩
  intro v hv
  unfold packRow groupsOf at hv
  simp only [List.map_map, List.mem_map, List.mem_range, Function.comp] at hv
  obtain ⟨g, _, rfl⟩ := hv
  rw [groupAt_zeros]
  rcases hd with rfl | rfl | rfl <;> decide

/-! ### the stream as a list of scanlines -/

theorem flat_append (l1 l2 : List Line) : flat (l1 ++ l2) = flat l1 ++ flat l2 := by
  simp [flat, List.flatMap_append]

theorem flat_replicate (n : Nat) (l : Line) : flat (List.replicate n l) = (List.replicate n (l.1 :: l.2)).flatten := by
  simp [flat, List.flatMap_replicate]

theorem flat_rowLines (d s b qz width : Nat) (row : List Nat) :
    flat (rowLines d s b qz width row)
      = scanline d 0 (fullRow s b qz row) ++ (List.replicate (s - 1) (scanline d 2 (List.replicate width 0))).flatten := by
  unfold rowLines
  show flat ([(0, packRow d (fullRow s b qz row))] ++ _) = _
  rw [flat_append, flat_replicate]
  simp [flat, scanline, upLine]

/-- the model stream is the concatenation of its scanlines -/
theorem pngStream_eq_flat (idx : List (List Nat)) (w d s b qz : Nat) :
    pngStream idx w d s b qz = flat (pngLines idx w d s b qz) := by
  unfold pngStream pngLines
  simp only [flat_append, flat_replicate, borderLine]
  have hflat : flat (idx.flatMap (rowLines d s b qz ((w + 2 * b) * s)))
      = idx.flatMap (fun row => flat (rowLines d s b qz ((w + 2 * b) * s) row)) := by
    unfold flat; rw [List.flatMap_assoc]
  rw [hflat]
  simp only [flat_rowLines]
  have hs : (if s > 1 then (List.replicate (s - 1) (scanline d 2 (List.replicate ((w + 2 * b) * s) 0))).flatten else [])
      = (List.replicate (s - 1) (scanline d 2 (List.replicate ((w + 2 * b) * s) 0))).flatten := by
    by_cases h : s > 1
    · simp [h]
    · have : s - 1 = 0 := by omega
      simp [h, this]
  rw [hs]
  by_cases hb : b > 0
  · simp only [hb, if_true, scanline, fullRow]
  · have hb0 : b = 0 := by omega
    subst hb0
    simp [scanline, fullRow]

theorem rowLines_length (d s b qz width : Nat) (row : List Nat) (hs : 0 < s) :
    (rowLines d s b qz width row).length = s := by
  simp [rowLines]; omega

theorem length_flatMap_rowLines (idx : List (List Nat)) (d s b qz width : Nat) (hs : 0 < s) :
    (idx.flatMap (rowLines d s b qz width)).length = idx.length * s := by
  induction idx with
  | nil => simp
  | cons r idx ih =>
    rw [List.flatMap_cons, List.length_append, ih, rowLines_length _ _ _ _ _ _ hs, List.length_cons, Nat.add_mul]
    omega

theorem pngLines_length (idx : List (List Nat)) (w d s b qz : Nat) (hs : 0 < s) :
    (pngLines idx w d s b qz).length = (idx.length + 2 * b) * s := by
  unfold pngLines
  simp only [List.length_append, List.length_replicate, length_flatMap_rowLines _ _ _ _ _ _ hs]
  rw [Nat.add_mul, Nat.mul_assoc, Nat.two_mul]
  omega

theorem scaleRow_length (s : Nat) (row : List Nat) : (scaleRow s row).length = row.length * s := by
  unfold scaleRow
  induction row with
  | nil => simp
  | cons a l ih => rw [List.flatMap_cons, List.length_append, ih, List.length_replicate, List.length_cons, Nat.add_mul]; omega

theorem fullRow_length (s b qz : Nat) (row : List Nat) : (fullRow s b qz row).length = (row.length + 2 * b) * s := by
  unfold fullRow
  simp only [List.length_append, List.length_replicate, scaleRow_length]
  rw [Nat.add_mul, Nat.mul_assoc, Nat.two_mul]
  omega

/-- every scanline has filter type 0 or 2 and 1 + ⌈width·depth/8⌉ bytes -/
theorem pngLines_line (idx : List (List Nat)) (w d s b qz : Nat) (hd : d = 1 ∨ d = 2 ∨ d = 4)
    (hrows : ∀ r ∈ idx, r.length = w) :
    ∀ l ∈ pngLines idx w d s b qz, (l.1 = 0 ∨ l.1 = 2) ∧ l.2.length = ((w + 2 * b) * s * d + 7) / 8 := by
  intro l hl
  have hborder : (borderLine d ((w + 2 * b) * s) qz).1 = 0 ∧
      (borderLine d ((w + 2 * b) * s) qz).2.length = ((w + 2 * b) * s * d + 7) / 8 := by
    refine ⟨rfl, ?_⟩
    show (packRow d _).length = _
    rw [packRow_length d hd, List.length_replicate]
  unfold pngLines at hl
  simp only [List.mem_append, List.mem_replicate, List.mem_flatMap] at hl
  rcases hl with (⟨_, rfl⟩ | ⟨row, hrow, hl⟩) | ⟨_, rfl⟩
  · exact ⟨Or.inl hborder.1, hborder.2⟩
  · unfold rowLines at hl
    simp only [List.mem_cons, List.mem_replicate] at hl
    rcases hl with rfl | ⟨_, rfl⟩
    · refine ⟨Or.inl rfl, ?_⟩
      show (packRow d _).length = _
      rw [packRow_length d hd, fullRow_length, hrows row hrow]
    · refine ⟨Or.inr rfl, ?_⟩
      show (packRow d _).length = _
      rw [packRow_length d hd, List.length_replicate]
  · exact ⟨Or.inl hborder.1, hborder.2⟩

/-! ### reconstruction of the scanlines -/

theorem unfilterUp_zeros (prev : List Nat) (h : ∀ v ∈ prev, v < 256) :
    unfilterUp (List.replicate prev.length 0) prev = prev := by
  unfold unfilterUp
  induction prev with
  | nil => rfl
  | cons a l ih =>
    simp only [List.length_cons, List.replicate_succ, List.zipWith_cons_cons, Nat.zero_add]
    rw [ih (fun v hv => h v (List.mem_cons_of_mem _ hv)), Nat.mod_eq_of_lt (h a (by simp))]

theorem recon_cons (prev : List Nat) (ft : Nat) (raw : List Nat) (rest : List Line) :
    recon prev ((ft, raw) :: rest)
      = (if ft == 2 then unfilterUp raw prev else raw) :: recon (if ft == 2 then unfilterUp raw prev else raw) rest := rfl

/-- `n` Up-filtered zero rows below the row `P` reproduce `P` -/
theorem recon_upLines (d width : Nat) (hd : d = 1 ∨ d = 2 ∨ d = 4) (P : List Nat) (hP : ∀ v ∈ P, v < 256)
    (hlen : P.length = (width * d + 7) / 8) (n : Nat) (rest : List Line) :
    recon P (List.replicate n (upLine d width) ++ rest) = List.replicate n P ++ recon P rest := by
  induction n with
  | zero => simp
  | succ n ih =>
    have hup : unfilterUp (packRow d (List.replicate width 0)) P = P := by
      rw [packRow_zeros d hd, ← hlen]; exact unfilterUp_zeros P hP
    rw [List.replicate_succ, List.cons_append]
    show recon P ((2, packRow d (List.replicate width 0)) :: _) = _
    rw [recon_cons]
    simp only [beq_self_eq_true, if_true, hup, ih, List.replicate_succ, List.cons_append]

theorem mem_scaleRow (s : Nat) (row : List Nat) (v : Nat) (h : v ∈ scaleRow s row) : v ∈ row := by
  unfold scaleRow at h
  simp only [List.mem_flatMap, List.mem_replicate] at h
  obtain ⟨a, ha, _, rfl⟩ := h
  exact ha

theorem fullRow_bound (s b qz bound : Nat) (hqz : qz < bound) (row : List Nat) (hrow : ∀ v ∈ row, v < bound) :
    ∀ v ∈ fullRow s b qz row, v < bound := by
  intro v hv
  unfold fullRow at hv
  simp only [List.mem_append, List.mem_replicate] at hv
  rcases hv with (⟨_, rfl⟩ | hv) | ⟨_, rfl⟩
  · exact hqz
  · exact hrow v (mem_scaleRow s row v hv)
  · exact hqz

/-- reconstruction (filter 0 / Up) of the scanlines of one module row gives `s` copies of the packed row -/
theorem recon_rowLines (d s b qz w : Nat) (hd : d = 1 ∨ d = 2 ∨ d = 4) (hs : 0 < s) (hqz : qz < 2 ^ d)
    (row : List Nat) (hlen : row.length = w) (hrow : ∀ v ∈ row, v < 2 ^ d) (prev : List Nat) (rest : List Line) :
    recon prev (rowLines d s b qz ((w + 2 * b) * s) row ++ rest)
      = List.replicate s (packRow d (fullRow s b qz row)) ++ recon (packRow d (fullRow s b qz row)) rest := by
  unfold rowLines
  rw [List.cons_append, recon_cons]
  have h0 : ((0 : Nat) == 2) = false := rfl
  simp only [h0, Bool.false_eq_true, if_false]
  rw [recon_upLines d _ hd _ (packRow_lt d hd _ (fullRow_bound s b qz _ hqz row hrow))
    (by rw [packRow_length d hd, fullRow_length, hlen])]
  have hrep : ∀ (P : List Nat), List.replicate s P = P :: List.replicate (s - 1) P := by
    intro P
    rw [← List.replicate_succ]
    congr 1
    omega
  rw [hrep, List.cons_append]

/-- reconstruction of filter-0 scanlines gives the scanlines themselves -/
theorem recon_border (P : List Nat) (n : Nat) (rest : List Line) (R : List (List Nat))
    (hrest : ∀ prev, recon prev rest = R) (prev : List Nat) :
    recon prev (List.replicate n ((0, P) : Line) ++ rest) = List.replicate n P ++ R := by
  induction n generalizing prev with
  | zero => simpa using hrest prev
  | succ n ih =>
    rw [List.replicate_succ, List.cons_append, recon_cons]
    have h0 : ((0 : Nat) == 2) = false := rfl
    simp only [h0, Bool.false_eq_true, if_false, ih, List.replicate_succ, List.cons_append]

theorem recon_modules (d s b qz w : Nat) (hd : d = 1 ∨ d = 2 ∨ d = 4) (hs : 0 < s) (hqz : qz < 2 ^ d)
    (idx : List (List Nat)) (hrows : ∀ r ∈ idx, r.length = w ∧ ∀ v ∈ r, v < 2 ^ d)
    (rest : List Line) (R : List (List Nat)) (hrest : ∀ prev, recon prev rest = R) (prev : List Nat) :
    recon prev (idx.flatMap (rowLines d s b qz ((w + 2 * b) * s)) ++ rest)
      = (idx.map (fun row => packRow d (fullRow s b qz row))).flatMap (List.replicate s) ++ R := by
  induction idx generalizing prev with
  | nil => simpa using hrest prev
  | cons r idx ih =>
    have hr := hrows r (by simp)
    rw [List.flatMap_cons, List.append_assoc, recon_rowLines d s b qz w hd hs hqz r hr.1 hr.2,
      ih (fun r' h' => hrows r' (List.mem_cons_of_mem _ h'))]
    simp

/-- the reconstructed scanlines of the whole stream -/
theorem recon_pngLines (idx : List (List Nat)) (w d s b qz : Nat) (hd : d = 1 ∨ d = 2 ∨ d = 4) (hs : 0 < s) (hqz : qz < 2 ^ d)
    (hrows : ∀ r ∈ idx, r.length = w ∧ ∀ v ∈ r, v < 2 ^ d) (prev : List Nat) :
    recon prev (pngLines idx w d s b qz)
      = ((List.replicate b (List.replicate ((w + 2 * b) * s) qz) ++ idx.map (fullRow s b qz)
          ++ List.replicate b (List.replicate ((w + 2 * b) * s) qz)).map (packRow d)).flatMap (List.replicate s) := by
  unfold pngLines borderLine
  have hlast : ∀ prev, recon prev (List.replicate (b * s) ((0, packRow d (List.replicate ((w + 2 * b) * s) qz)) : Line))
      = List.replicate (b * s) (packRow d (List.replicate ((w + 2 * b) * s) qz)) := by
    intro prev
    have := recon_border (packRow d (List.replicate ((w + 2 * b) * s) qz)) (b * s) [] [] (fun _ => rfl) prev
    simpa using this
  show recon prev (_ ++ _ ++ _) = _
  rw [List.append_assoc, recon_border _ _ _ _ (fun prev => recon_modules d s b qz w hd hs hqz idx hrows _ _ hlast prev)]
  simp [List.flatMap_append, List.flatMap_replicate, List.flatten_replicate_replicate, List.map_append, Function.comp_def]

/-! ### the colour-index picture -/

theorem scaleRow_replicate (s n v : Nat) : scaleRow s (List.replicate n v) = List.replicate (n * s) v := by
  unfold scaleRow
  rw [List.flatMap_replicate, List.flatten_replicate_replicate]

theorem scaleRow_append (s : Nat) (l1 l2 : List Nat) : scaleRow s (l1 ++ l2) = scaleRow s l1 ++ scaleRow s l2 := by
  unfold scaleRow
  rw [List.flatMap_append]

theorem cellRow_outside (idx : List (List Nat)) (w b qz ii : Nat) (h : ¬ (b ≤ ii ∧ ii < b + idx.length)) :
    (List.range (w + 2 * b)).map (fun jj => idxCell idx w b qz ii jj) = List.replicate (w + 2 * b) qz := by
  rw [List.eq_replicate_iff]
  refine ⟨by simp, ?_⟩
  intro v hv
  simp only [List.mem_map, List.mem_range] at hv
  obtain ⟨jj, _, rfl⟩ := hv
  unfold idxCell
  have : ¬ (b ≤ ii ∧ ii < b + idx.length ∧ b ≤ jj ∧ jj < b + w) := fun h' => h ⟨h'.1, h'.2.1⟩
  simp only [this, if_false]

theorem cellRow_inside (idx : List (List Nat)) (w b qz ii : Nat) (h1 : b ≤ ii) (h2 : ii < b + idx.length)
    (hlen : (idx.getD (ii - b) []).length = w) :
    (List.range (w + 2 * b)).map (fun jj => idxCell idx w b qz ii jj)
      = List.replicate b qz ++ idx.getD (ii - b) [] ++ List.replicate b qz := by
  apply List.ext_getElem?
  intro k
  simp only [List.getElem?_map, List.getElem?_append, List.length_append, List.length_replicate, hlen,
    List.getElem?_replicate]
  by_cases hk : k < w + 2 * b
  · rw [List.getElem?_range hk]
    simp only [Option.map_some, idxCell]
    by_cases hk1 : k < b
    · have : k < b + w := by omega
      have hn : ¬ (b ≤ ii ∧ ii < b + idx.length ∧ b ≤ k ∧ k < b + w) := by omega
      rw [if_neg hn]
      simp only [this, hk1, if_true]
    · by_cases hk2 : k < b + w
      · have hy : b ≤ ii ∧ ii < b + idx.length ∧ b ≤ k ∧ k < b + w := by omega
        have hlt : k - b < (idx.getD (ii - b) []).length := by omega
        rw [if_pos hy]
        simp only [hk2, hk1, if_true, if_false, List.getD_eq_getElem?_getD (l := idx.getD (ii - b) []),
          List.getElem?_eq_getElem hlt, Option.getD_some]
      · have hn : ¬ (b ≤ ii ∧ ii < b + idx.length ∧ b ≤ k ∧ k < b + w) := by omega
        have : k - (b + w) < b := by omega
        rw [if_neg hn]
        simp only [hk2, this, if_true, if_false]
  · have h1' : ¬ k < b + w := by omega
    have h2' : ¬ k - (b + w) < b := by omega
    have : (List.range (w + 2 * b))[k]? = none := by
      rw [List.getElem?_eq_none]; simp; omega
    simp [this, h1', h2']

/-- the picture rows before the vertical scaling: quiet zone rows, the module rows, quiet zone rows -/
theorem picture_rows (idx : List (List Nat)) (w s b qz : Nat) (hrows : ∀ r ∈ idx, r.length = w) :
    (List.range (idx.length + 2 * b)).map
        (fun ii => scaleRow s ((List.range (w + 2 * b)).map (fun jj => idxCell idx w b qz ii jj)))
      = List.replicate b (List.replicate ((w + 2 * b) * s) qz) ++ idx.map (fullRow s b qz)
          ++ List.replicate b (List.replicate ((w + 2 * b) * s) qz) := by
  apply List.ext_getElem?
  intro k
  simp only [List.getElem?_map, List.getElem?_append, List.length_append, List.length_replicate, List.length_map,
    List.getElem?_replicate]
  by_cases hk : k < idx.length + 2 * b
  · rw [List.getElem?_range hk]
    simp only [Option.map_some]
    by_cases hk1 : k < b
    · have : k < b + idx.length := by omega
      simp only [this, hk1, if_true]
      rw [cellRow_outside idx w b qz k (by omega), scaleRow_replicate]
    · by_cases hk2 : k < b + idx.length
      · have hlt : k - b < idx.length := by omega
        have hget : idx.getD (k - b) [] = idx[k - b] := by simp [List.getD_eq_getElem?_getD, hlt]
        have hlen : (idx.getD (k - b) []).length = w := by rw [hget]; exact hrows _ (List.getElem_mem hlt)
        simp only [hk2, hk1, if_true, if_false]
        rw [cellRow_inside idx w b qz k (by omega) hk2 hlen, hget, List.getElem?_eq_getElem hlt]
        simp only [Option.map_some, fullRow, scaleRow_append, scaleRow_replicate]
      · have : k - (b + idx.length) < b := by omega
        simp only [hk2, this, if_true, if_false]
        rw [cellRow_outside idx w b qz k (by omega), scaleRow_replicate]
  · have h1' : ¬ k < b + idx.length := by omega
    have h2' : ¬ k - (b + idx.length) < b := by omega
    have : (List.range (idx.length + 2 * b))[k]? = none := by
      rw [List.getElem?_eq_none]; simp; omega
    simp [this, h1', h2']

theorem idxPicture_eq (idx : List (List Nat)) (w s b qz : Nat) (hrows : ∀ r ∈ idx, r.length = w) :
    idxPicture idx w s b qz
      = (List.replicate b (List.replicate ((w + 2 * b) * s) qz) ++ idx.map (fullRow s b qz)
          ++ List.replicate b (List.replicate ((w + 2 * b) * s) qz)).flatMap (List.replicate s) := by
  unfold idxPicture iterWith
  rw [picture_rows idx w s b qz hrows]

theorem unpack_pack (d : Nat) (hd : d = 1 ∨ d = 2 ∨ d = 4) (row : List Nat) (hrow : ∀ v ∈ row, v < 2 ^ d) :
    unpackRow d row.length (packRow d row) = row := by
  unfold unpackRow packRow
  rcases hd with rfl | rfl | rfl
  · exact unpack_pack_generic 8 (by decide) (foldBits 1) (sampleOfByte 1) 2 (by decide) field_depth1 row hrow
  · exact unpack_pack_generic 4 (by decide) (foldBits 2) (sampleOfByte 2) 4 (by decide) field_depth2 row hrow
  · exact unpack_pack_generic 2 (by decide) (foldBits 4) (sampleOfByte 4) 16 (by decide) field_depth4 row hrow

theorem map_flatMap_replicate {α β : Type} (f : α → β) (s : Nat) (l : List α) :
    (l.flatMap (List.replicate s)).map f = (l.map f).flatMap (List.replicate s) := by
  induction l with
  | nil => rfl
  | cons a l ih => simp only [List.flatMap_cons, List.map_append, List.map_replicate, List.map_cons, ih]

/-- MAIN: unfiltering (reference semantics) and unpacking the model's scanlines yields the colour-index picture -/
theorem recon_unpack (idx : List (List Nat)) (w d s b qz : Nat) (hd : d = 1 ∨ d = 2 ∨ d = 4) (hs : 0 < s) (hqz : qz < 2 ^ d)
    (hrows : ∀ r ∈ idx, r.length = w ∧ ∀ v ∈ r, v < 2 ^ d) :
    (recon [] (pngLines idx w d s b qz)).map (unpackRow d ((w + 2 * b) * s)) = idxPicture idx w s b qz := by
  rw [recon_pngLines idx w d s b qz hd hs hqz hrows, idxPicture_eq idx w s b qz (fun r hr => (hrows r hr).1),
    map_flatMap_replicate, List.map_map]
  congr 1
  conv => rhs; rw [← List.map_id (_ ++ _ ++ _)]
  apply List.map_congr_left
  intro r hr
  have hgood : r.length = (w + 2 * b) * s ∧ ∀ v ∈ r, v < 2 ^ d := by
    simp only [List.mem_append, List.mem_replicate, List.mem_map] at hr
    rcases hr with (⟨_, rfl⟩ | ⟨row, hrow, rfl⟩) | ⟨_, rfl⟩
    · refine ⟨by simp, ?_⟩
      intro v hv; rw [(List.mem_replicate.1 hv).2]; exact hqz
    · refine ⟨by rw [fullRow_length, (hrows row hrow).1], fullRow_bound s b qz _ hqz row (hrows row hrow).2⟩
    · refine ⟨by simp, ?_⟩
      intro v hv; rw [(List.mem_replicate.1 hv).2]; exact hqz
  show unpackRow d ((w + 2 * b) * s) (packRow d r) = r
  rw [← hgood.1]
  exact unpack_pack d hd r hgood.2

/-- pixel formula of the picture -/
theorem idxPicture_pixel (idx : List (List Nat)) (w s b qz : Nat) (hs : 0 < s) (x y : Nat)
    (hx : x < (w + 2 * b) * s) (hy : y < (idx.length + 2 * b) * s) :
    ((idxPicture idx w s b qz).getD y []).getD x 0 = idxCell idx w b qz (y / s) (x / s) := by
  unfold idxPicture
  rw [iterWith_eq _ _ _ _ _ hs, getD_map_range _ _ _ _ hy, getD_map_range _ _ _ _ hx]

end Proofs.Png
