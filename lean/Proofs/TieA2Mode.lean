/-
  Proofs.TieA2Mode — `is_kanji` and `find_mode` (translated, Gen/Funcs2.lean) against `Model.isKanji` and
  `Model.findMode`.  The source of `is_kanji` walks an iterator with two `next` calls per round of
  `for i in range(0, data_len, 2)` and leaves the loop with `return False`; the model tests `Model.pairs data`.
  (Imports Props.TieA for `is_shift_jis_trail_byte_tie`, the tie of the function `is_kanji` calls.)
-/
import Proofs.TieA2
import Model.Encoder
import Props.TieA

namespace Proofs.TieA2
open Gen.Py Proofs.TieA Model

/-! ### bit arithmetic of `code = (hi << 8) | lo`, `code & 0xff` -/

/-- `(hi * 256) | lo` for a byte `lo` -/
theorem bor_shift8 (hi lo : Nat) (h : lo < 256) : bor ((hi : Int) * 256) (lo : Int) = ((hi * 256 + lo : Nat) : Int) := by
  have e : ((hi : Int) * 256) = Int.ofNat (hi * 256) := (Int.natCast_mul hi 256).symm
  rw [e]
  show Int.ofNat (hi * 256 ||| lo) = _
  have h2 : hi <<< 8 + lo = hi <<< 8 ||| lo := Nat.shiftLeft_add_eq_or_of_lt (by omega) hi
  rw [Nat.shiftLeft_eq] at h2
  simp only [Nat.reducePow] at h2
  rw [← h2]
  rfl

/-- `(hi * 256 + lo) & 0xff` for a byte `lo` -/
theorem band_255 (hi lo : Nat) (h : lo < 256) : band ((hi * 256 + lo : Nat) : Int) 255 = (lo : Int) := by
  show Int.ofNat ((hi * 256 + lo) &&& 255) = _
  have h2 : (hi * 256 + lo) &&& (2 ^ 8 - 1) = (hi * 256 + lo) % 2 ^ 8 := Nat.and_two_pow_sub_one_eq_mod _ 8
  simp only [Nat.reducePow, Nat.reduceSub] at h2
  rw [h2]
  have h4 : (hi * 256 + lo) % 256 = lo := by omega
  rw [h4]
  rfl

/-! ### `is_kanji` -/

/-- the test of the model on one pair of bytes -/
def kanjiPair (p : Nat × Nat) : Bool :=
  let code := p.1 * 256 + p.2
  ((0x8140 ≤ code && code ≤ 0x9ffc) || (0xe040 ≤ code && code ≤ 0xebbf)) && isSjisTrail p.2

theorem isKanji_pairs (data : List Nat) :
    Model.isKanji data = (data.length != 0 && data.length % 2 == 0 && (pairs data).all kanjiPair) := rfl

/-- the loop of `is_kanji` on an arbitrary rest of the iterator: `is` is the rest of `range(0, data_len, 2)` (only its
    length matters, the loop variable is not read), `rest` the bytes the iterator still holds -/
theorem is_kanji_loop (is : List Int) (rest : List Nat) (hl : rest.length = 2 * is.length) (hb : ∀ b ∈ rest, b < 256) :
    Gen.Py.bind (Gen.Py.forM is (toI rest) (fun (acc'1 : (List Int)) (_ : Int) =>
        ((Gen.Py.bind ((Gen.Py.next acc'1) : M (Int × (List Int))) (fun t'1 =>
          (Gen.Py.bind ((Gen.Py.next t'1.2) : M (Int × (List Int))) (fun t'2 =>
            (let code'1 := (Gen.Py.bor (t'1.1 * (256 : Int)) t'2.1);
            (if (!(((decide ((33088 : Int) ≤ code'1)) && (decide (code'1 ≤ (40956 : Int)))) || ((decide ((57408 : Int) ≤ code'1)) && (decide (code'1 ≤ (60351 : Int)))))) then
              (Except.ok (Gen.Py.Step.ret false))
            else
              (if (!(Gen.Funcs._is_shift_jis_trail_byte (Gen.Py.band code'1 (255 : Int)))) then
                (Except.ok (Gen.Py.Step.ret false))
              else
                (Except.ok (Gen.Py.Step.next t'2.2))))))))) : M (Gen.Py.Step (List Int) Bool)))) (fun d'1 =>
      (match d'1 with
        | .fin _ => (Except.ok true)
        | .ret r'1 => (Except.ok r'1)))
      = .ok ((pairs rest).all kanjiPair) := by
  induction is generalizing rest with
  | nil =>
    have : rest = [] := by
      cases rest with
      | nil => rfl
      | cons a t => simp at hl
    subst this
    rfl
  | cons i is ih =>
    match rest, hl, hb with
    | [], hl, _ => simp at hl
    | [_], hl, _ => simp at hl; omega
    | a :: b :: rest', hl, hb =>
      have hb256 : b < 256 := hb b (by simp)
      have hl' : rest'.length = 2 * is.length := by simp at hl; omega
      have hb' : ∀ x ∈ rest', x < 256 := fun x hx => hb x (by simp [hx])
      rw [forM_cons]
      simp only [toI_cons, Gen.Py.next, bind_ok]
      rw [bor_shift8 a b hb256, band_255 a b hb256, Props.TieA.is_shift_jis_trail_byte_tie]
      simp only [pairs, List.all_cons]
      have hc : (((decide ((33088 : Int) ≤ ((a * 256 + b : Nat) : Int))) && (decide (((a * 256 + b : Nat) : Int) ≤ (40956 : Int))))
            || ((decide ((57408 : Int) ≤ ((a * 256 + b : Nat) : Int))) && (decide (((a * 256 + b : Nat) : Int) ≤ (60351 : Int)))))
          = ((decide (0x8140 ≤ a * 256 + b) && decide (a * 256 + b ≤ 0x9ffc))
            || (decide (0xe040 ≤ a * 256 + b) && decide (a * 256 + b ≤ 0xebbf))) := by
        rw [Bool.eq_iff_iff]
        simp only [Bool.or_eq_true, Bool.and_eq_true, decide_eq_true_eq]
        omega
      rw [hc]
      have hk : kanjiPair (a, b) = (((decide (0x8140 ≤ a * 256 + b) && decide (a * 256 + b ≤ 0x9ffc))
            || (decide (0xe040 ≤ a * 256 + b) && decide (a * 256 + b ≤ 0xebbf))) && isSjisTrail b) := rfl
      rw [hk]
      cases ((decide (0x8140 ≤ a * 256 + b) && decide (a * 256 + b ≤ 0x9ffc))
            || (decide (0xe040 ≤ a * 256 + b) && decide (a * 256 + b ≤ 0xebbf))) with
      | false => rfl
      | true =>
        cases isSjisTrail b with
        | false => rfl
        | true =>
          simp only [Bool.not_true, Bool.false_eq_true, if_false, Bool.and_self, Bool.true_and]
          exact ih rest' hl' hb'

theorem rangeStep_two_length (n : Nat) (h : n % 2 = 0) : (rangeStep 0 (n : Int) 2).length = n / 2 := by
  simp only [rangeStep, List.length_map, List.length_range]
  have : ((n : Int) - 0).toNat = n := by omega
  rw [this]
  omega

/-- `is_kanji(data)` for every byte string: the iterator / `next` loop with early `return False` of the source is
    `Model.isKanji` -/
theorem is_kanji_eq (data : List Nat) (hb : ∀ b ∈ data, b < 256) :
    Gen.Funcs2.is_kanji (toI data) = .ok (Model.isKanji data) := by
  unfold Gen.Funcs2.is_kanji
  simp only [toI_length, Int.ofNat_eq_natCast]
  rw [isKanji_pairs]
  by_cases h0 : data.length = 0
  · simp [h0]
  · by_cases h2 : data.length % 2 = 0
    · have c1 : ((data.length : Int) != 0) = true := by rw [bne_iff_ne]; omega
      have c2 : (((data.length : Int) % 2) != 0) = false := by rw [bne_eq_false_iff_eq]; omega
      have c3 : (data.length != 0) = true := by rw [bne_iff_ne]; omega
      have c4 : (data.length % 2 == 0) = true := by rw [beq_iff_eq]; omega
      rw [c1, c2, c3, c4]
      simp only [Bool.not_true, Bool.or_self, Bool.false_eq_true, if_false, Bool.and_self, Bool.true_and]
      exact is_kanji_loop _ data (by rw [rangeStep_two_length _ h2]; omega) hb
    · have c2 : (((data.length : Int) % 2) != 0) = true := by rw [bne_iff_ne]; omega
      have c4 : (data.length % 2 == 0) = false := by rw [beq_eq_false_iff_ne]; omega
      rw [c2, c4]
      simp

/-! ### `find_mode` -/

/-- `data.isdigit()` -/
theorem isDigit_toI (data : List Nat) : Gen.Py.isDigit (toI data) = (data.length != 0 && data.all Model.isDigitByte) := by
  cases data with
  | nil => rfl
  | cons a t =>
    have : ∀ l : List Nat, (toI l).all (fun b => decide (48 ≤ b ∧ b ≤ 57)) = l.all Model.isDigitByte := by
      intro l
      induction l with
      | nil => rfl
      | cons x l ih =>
        simp only [toI_cons, List.all_cons, ih]
        congr 1
        unfold Model.isDigitByte
        rw [Bool.eq_iff_iff]
        simp only [Bool.and_eq_true, decide_eq_true_eq]
        omega
    unfold Gen.Py.isDigit
    rw [this]
    simp

/-- `find_mode(data)`; the regular expression of `is_alphanumeric` is an opaque read of the translation: its truth value is
    supplied as "non-empty and only characters of the alphanumeric table" -/
theorem find_mode_eq (data : List Nat) (hb : ∀ b ∈ data, b < 256) :
    Gen.Funcs2.find_mode (toI data) (decide (data.length ≠ 0) && data.all Model.isAlnumByte)
      = .ok (Int.ofNat (Model.findMode data)) := by
  unfold Gen.Funcs2.find_mode Model.findMode
  rw [isDigit_toI, is_kanji_eq data hb]
  have e : (decide (data.length ≠ 0) && data.all Model.isAlnumByte) = (data.length != 0 && data.all Model.isAlnumByte) := by
    cases data with
    | nil => rfl
    | cons a t => simp
  rw [e]
  cases (data.length != 0 && data.all Model.isDigitByte) with
  | true => rfl
  | false =>
    cases (data.length != 0 && data.all Model.isAlnumByte) with
    | true => rfl
    | false =>
      cases Model.isKanji data <;> rfl

end Proofs.TieA2
