/-
  Proofs.HelpersModel — the builders of Model/Helpers.lean written as "prefix ++ rendered fields ++
  terminator".  The lemmas take the behaviour of the escaping table as a hypothesis
  (`Escaping escMecard mecardSpecial`); they never unfold `Gen.MECARD_ESCAPE`, so they stay valid
  whatever the table is — the table itself is the subject of `Props.C16.mecard_table_escapes`.
-/
import Proofs.Helpers
import Gen.Helpers

namespace Proofs.Helpers
open Spec.Helpers Model.Helpers

/-- what `str.translate(table)` does to one character -/
def escOf (table : List (Char × Option (List Char))) (c : Char) : List Char :=
  match table.lookup c with
  | none => [c]
  | some none => []
  | some (some r) => r

theorem translate_eq (table : List (Char × Option (List Char))) (s : List Char) :
    translate table s = s.flatMap (escOf table) := rfl

/-- characters the MeCard / WIFI syntax requires to be escaped -/
def mecardSpecial (c : Char) : Prop := c = '\\' ∨ c = ';' ∨ c = ':' ∨ c = '"'

abbrev escMecard : Char → List Char := escOf Gen.MECARD_ESCAPE

theorem escapeMecard_eq (s : List Char) : escapeMecard s = s.flatMap escMecard := rfl

section
variable (E : Escaping escMecard mecardSpecial)
include E

theorem noop_of_plain (s : List Char) (h : ∀ c ∈ s, ¬ mecardSpecial c) : s.flatMap escMecard = s :=
  escape_noop E s h

/-! ### WIFI -/

theorem wifiData_eq (a : WifiArgs) (hsec : ∀ s, a.security = some s → ∀ c ∈ wifiToken s, ¬ mecardSpecial c) :
    wifiData a = wifiPrefix ++ (render escMecard (wifiFields a) ++ (if a.hidden then [] else [';'])) := by
  obtain ⟨ssid, pw, sec, hid⟩ := a
  have htok : ∀ s, sec = some s → (wifiToken s).flatMap escMecard = wifiToken s :=
    fun s hs => escape_noop E _ (hsec s hs)
  have htrue : ['t', 'r', 'u', 'e'].flatMap escMecard = ['t', 'r', 'u', 'e'] :=
    escape_noop E _ (by simp [mecardSpecial])
  cases sec with
  | none =>
    cases pw <;> cases hid <;>
      simp [wifiData, wifiFields, wifiPrefix, render, fieldText, optVal, truthy, escapeMecard_eq, htrue]
  | some s =>
    have ht := htok s rfl
    have hw : wifiSecurity s = wifiToken s := rfl
    by_cases he : s = []
    · subst he
      cases pw <;> cases hid <;>
        simp [wifiData, wifiFields, wifiPrefix, render, fieldText, optVal, truthy, escapeMecard_eq, htrue]
    · have he' : s.isEmpty = false := by cases s <;> simp_all
      cases pw <;> cases hid <;>
        simp [wifiData, wifiFields, wifiPrefix, render, fieldText, optVal, truthy, escapeMecard_eq, htrue, he', hw, ht]

omit E in
theorem wifi_keys (a : WifiArgs) : ∀ f ∈ wifiFields a, KeyOk f.1 := by
  intro f hf
  simp only [wifiFields, List.mem_append, List.mem_map, List.mem_singleton] at hf
  rcases hf with ((⟨_, _, rfl⟩ | rfl) | hf) | hf
  · simp [KeyOk]
  · simp [KeyOk]
  · split at hf
    · simp at hf; subst hf; simp [KeyOk]
    · simp at hf
  · split at hf
    · simp at hf; subst hf; simp [KeyOk]
    · simp at hf

/-! ### MeCard -/

omit E in
theorem mecardField_eq (key v : List Char) : mecardField key v = render escMecard [(key, v)] := by
  simp [mecardField, render, fieldText, escapeMecard_eq]

omit E in
theorem mecardOpt_eq (key : List Char) (o : Option Str) :
    mecardOpt key o = render escMecard ((optVal o).map (fun s => (key, s))) := by
  cases o with
  | none => simp [mecardOpt, truthy, optVal, render]
  | some s =>
    by_cases he : s = []
    · subst he; simp [mecardOpt, truthy, optVal, render]
    · have he' : s.isEmpty = false := by cases s <;> simp_all
      simp [mecardOpt, truthy, optVal, he', mecardField_eq]

omit E in
theorem multiValues_eq (a : Arg) : multiValues a = a.values := by cases a <;> rfl

omit E in
theorem mecardMulti_eq (key : List Char) (a : Arg) :
    mecardMulti key a = render escMecard (a.values.map (fun s => (key, s))) := by
  unfold mecardMulti
  rw [multiValues_eq]
  induction a.values with
  | nil => simp [render]
  | cons v rest ih => simp [render, mecardField, fieldText, escapeMecard_eq] at ih ⊢; exact ih

omit E in
theorem any_truthy_eq (l : List (Option Str)) :
    l.any truthy = !((l.map (·.getD [])).all (·.isEmpty)) := by
  induction l with
  | nil => rfl
  | cons o rest ih =>
    cases o with
    | none => simpa [truthy] using ih
    | some s => cases s <;> simpa [truthy] using ih

theorem commaJoin_escape (l : List Str) :
    (Spec.Helpers.commaJoin l).flatMap escMecard = Model.Helpers.commaJoin (l.map (·.flatMap escMecard)) := by
  have hc : escMecard ',' = [','] := E.other ',' (by simp [mecardSpecial])
  induction l with
  | nil => rfl
  | cons x rest ih =>
    cases rest with
    | nil => simp [Spec.Helpers.commaJoin, Model.Helpers.commaJoin]
    | cons y more =>
      simp only [Spec.Helpers.commaJoin, Model.Helpers.commaJoin, List.map_cons, List.flatMap_append, List.flatMap_cons, hc] at ih ⊢
      rw [ih]
      simp

theorem bday_eq (o : Option Str) (hb : ∀ b, o = some b → ∀ c ∈ b, ¬ mecardSpecial c) :
    (if truthy o then ['B', 'D', 'A', 'Y', ':'] ++ o.getD [] ++ [';'] else [])
      = render escMecard ((optVal o).map (fun s => (['B', 'D', 'A', 'Y'], s))) := by
  cases o with
  | none => simp [truthy, optVal, render]
  | some s =>
    by_cases he : s = []
    · subst he; simp [truthy, optVal, render]
    · have he' : s.isEmpty = false := by cases s <;> simp_all
      have hn : s.flatMap escMecard = s := escape_noop E s (hb s rfl)
      simp [truthy, optVal, he', render, fieldText, hn]

theorem adr_eq (a : MecardArgs) :
    (if (mecardAdrProps a).any truthy
      then ['A', 'D', 'R', ':'] ++ Model.Helpers.commaJoin ((mecardAdrProps a).map (fun o => escapeMecard (o.getD []))) ++ [';'] else [])
      = render escMecard (if (mecardAdr a).all (·.isEmpty) then [] else [(['A', 'D', 'R'], Spec.Helpers.commaJoin (mecardAdr a))]) := by
  have hm : mecardAdr a = (mecardAdrProps a).map (·.getD []) := rfl
  rw [any_truthy_eq, ← hm]
  cases hall : (mecardAdr a).all (·.isEmpty)
  · have := commaJoin_escape E (mecardAdr a)
    rw [hm, List.map_map] at this
    simp only [Bool.not_false, if_true, Bool.false_eq_true, if_false, render, fieldText, List.map_cons, List.map_nil,
      List.flatten_cons, List.flatten_nil, List.append_nil, hm]
    simp only [escapeMecard_eq, List.append_assoc, List.cons_append, List.nil_append, List.append_cancel_left_eq, List.cons.injEq, true_and,
      List.append_cancel_right_eq]
    exact this.symm
  · simp [render]

/-- `make_mecard_data` = `MECARD:` + the supplied fields, each `KEY:escaped;`, + the closing `;` -/
theorem mecardData_eq (a : MecardArgs) (hb : ∀ b, a.birthday = some b → ∀ c ∈ b, ¬ mecardSpecial c) :
    mecardData a = mecardPrefix ++ (render escMecard (mecardFields a) ++ [';']) := by
  unfold mecardData mecardFields
  rw [bday_eq E a.birthday hb, adr_eq E a]
  simp only [mecardField_eq, mecardOpt_eq, mecardMulti_eq, render_append, mecardPrefix, List.append_assoc]

omit E in
theorem mecard_keys (a : MecardArgs) : ∀ f ∈ mecardFields a, KeyOk f.1 := by
  intro f hf
  simp only [mecardFields, List.mem_append, List.mem_map, List.mem_singleton] at hf
  have k : ∀ (key : List Char), (∀ c ∈ key, c ≠ '\\' ∧ c ≠ ';' ∧ c ≠ ':') → ∀ v, KeyOk ((key, v) : Field).1 := fun key h _ => h
  rcases hf with ((((((((rfl | ⟨_, _, rfl⟩) | ⟨_, _, rfl⟩) | ⟨_, _, rfl⟩) | ⟨_, _, rfl⟩) | ⟨_, _, rfl⟩) | ⟨_, _, rfl⟩) | ⟨_, _, rfl⟩) | hf) | ⟨_, _, rfl⟩
  all_goals first
    | (simp [KeyOk]; done)
    | (split at hf
       · simp at hf
       · simp at hf; subst hf; simp [KeyOk])

end

end Proofs.Helpers
