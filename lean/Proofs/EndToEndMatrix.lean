/-
  Proofs.EndToEndMatrix — helper lemmas for Props/EndToEnd.lean, part 5: what every module of the
  matrix holds after add_codewords, masking, add_format_info and add_version_info.
-/
import Spec.Decode
import Model.Encoder
import Props.C02
import Props.C02Model
import Props.C06
import Props.C01Placement
import Proofs.Placement
import Proofs.Placement2
import Proofs.Geometry
import Proofs.Mask
import Proofs.EndToEndBlocks

namespace Proofs.EndToEnd
open Model Proofs.Placement2
set_option linter.unusedVariables false
set_option linter.unusedSimpArgs false

theorem calc_size (v : Int) (h1 : -3 ≤ v) (h2 : v ≤ 40) : (Gen.calc_matrix_size v).toNat = Spec.size v := by
  rw [Props.C02.matrix_size_iso v h1 h2]; simp

theorem size_lt21_iff (v : Int) (h1 : -3 ≤ v) (h2 : v ≤ 40) : decide (Spec.size v < 21) = decide (v < 1) := by
  by_cases hv : v < 1
  · have := Proofs.Placement2.size_micro v hv; simp [hv, this]
  · have := Proofs.Placement2.size_qr v (by omega); simp [hv]; omega

/-! ### every module but the timing column is on the zig-zag walk -/

theorem mem_zz (v : Int) (hc : colsOK v = true) (i j : Nat) (hi : i < Spec.size v) (hj : j < Spec.size v)
    (hs : j ≠ skipCol v) : (i, j) ∈ zz (Spec.stripColumns v) (Spec.size v) := by
  unfold colsOK at hc
  have hexp := beq_iff_eq.mp hc
  have hjm : j ∈ expandCols (Spec.stripColumns v) := by
    rw [hexp]
    simp only [List.mem_filter, List.mem_reverse, List.mem_range, bne_iff_ne, ne_eq]
    exact ⟨hj, hs⟩
  unfold expandCols at hjm
  simp only [List.mem_flatten, List.mem_map] at hjm
  obtain ⟨l, ⟨c, hcm, rfl⟩, hjl⟩ := hjm
  have hcz : c ∈ (Spec.stripColumns v).zipIdx.map Prod.fst := by rw [List.zipIdx_map_fst]; exact hcm
  simp only [List.mem_map] at hcz
  obtain ⟨p, hp, rfl⟩ := hcz
  rw [zz_eq]
  simp only [List.mem_flatten, List.mem_map]
  refine ⟨_, ⟨p, hp, rfl⟩, ?_⟩
  unfold strip
  simp only [List.mem_flatten, List.mem_map]
  refine ⟨[(i, p.1), (i, p.1 - 1)], ⟨i, ?_, rfl⟩, ?_⟩
  · split <;> simp [hi]
  · simp only [List.mem_cons, List.not_mem_nil, or_false] at hjl ⊢
    rcases hjl with rfl | rfl <;> simp

/-! ### the matrix after `add_codewords` -/

/-- module contents of a matrix in which the encoding region holds bits and everything else is as in
    the skeleton without dark module -/
structure Placed (v : Int) (m : Matrix) : Prop where
  sq : Sq (Spec.size v) m
  data : ∀ i j, i < Spec.size v → j < Spec.size v → Spec.isData v i j = true → get2 m i j ≤ 1
  other : ∀ i j, i < Spec.size v → j < Spec.size v → Spec.isData v i j = false → get2 m i j = skelCell 0 v i j

theorem placed_m1 (v : Int) (bits : List Nat) (m0 m1 : Matrix) (h1 : -3 ≤ v) (h2 : v ≤ 40)
    (hb : ∀ b ∈ bits, b ≤ 1) (hlen : bits.length = (Spec.dataCoords v).length)
    (hm0 : addAlignmentPatterns (addFinderPatterns (makeMatrix (Spec.size v)) (Spec.size v)) (Spec.size v) = .ok m0)
    (hm1 : addCodewords m0 bits v = .ok m1) : Placed v m1 := by
  have hgeo := geom_rows v (geom_ok v h1 h2)
  obtain ⟨hord, hcols⟩ := strips_ok v h1 h2
  have hr0 : toRows m0 = skelRows 0 v := by
    have := map_m0 (Spec.size v)
    rw [hm0, hgeo] at this
    simpa [Except.map] using this
  have hsq0 := sq_of_toRows 0 v m0 hr0
  obtain ⟨hnd, hrange⟩ := zigzag_nodup_range v hcols
  have hfilter : (zz (Spec.stripColumns v) (Spec.size v)).filter (is2 m0) = Spec.dataCoords v := by
    rw [dataCoords_eq]
    apply List.filter_congr
    intro p hp
    obtain ⟨h1, h2⟩ := hrange p hp
    unfold is2
    rw [cells_of_toRows 0 v m0 hr0 p.1 p.2 h1 h2]
    have := skelCell_eq_two_iff 0 (by decide) v p.1 p.2
    cases hd : Spec.isData v p.1 p.2
    · have : ¬ skelCell 0 v p.1 p.2 = 2 := fun h => by rw [this.mp h] at hd; cases hd
      simp [this]
    · simp [this.mpr hd]
  rw [addCodewords_eq, hsq0.1, order_of_ok v hord] at hm1
  have hspec := place_spec (Spec.size v) _ m0 bits hsq0 hnd hrange (by rw [hfilter]; exact hlen)
  obtain ⟨_, hsq1, hmap, hrest⟩ := hspec
  have hm1' : (List.foldl placeStep (m0, bits) (zz (Spec.stripColumns v) (Spec.size v))).1 = m1 := by
    simp only at hm1
    split at hm1
    · simp only [pure, Except.pure] at hm1
      exact Except.ok.inj hm1
    · cases hm1
  rw [hm1'] at hsq1 hrest
  rw [hm1', hfilter] at hmap
  rw [hfilter] at hrest
  refine ⟨hsq1, ?_, ?_⟩
  · intro i j hi hj hd
    have hmem : (i, j) ∈ Spec.dataCoords v := by
      rw [dataCoords_eq]
      refine List.mem_filter.mpr ⟨mem_zz v hcols i j hi hj ?_, hd⟩
      intro hs; rw [hs, isData_skip] at hd; cases hd
    apply hb
    rw [← hmap]
    exact List.mem_map_of_mem (f := fun p : Nat × Nat => get2 m1 p.1 p.2) hmem
  · intro i j hi hj hd
    have hnot : (i, j) ∉ Spec.dataCoords v := by
      rw [dataCoords_eq]
      intro hmem
      have := (List.mem_filter.mp hmem).2
      simp only at this
      rw [hd] at this; cases this
    rw [hrest i j hnot, cells_of_toRows 0 v m0 hr0 i j hi hj]

/-! ### masking -/

theorem functionMatrix_ok (n : Nat) (m0 : Matrix)
    (hm0 : addAlignmentPatterns (addFinderPatterns (makeMatrix n) n) n = .ok m0) :
    ∃ fm, functionMatrix n = .ok fm := by
  unfold functionMatrix
  rw [hm0]
  exact ⟨_, rfl⟩

theorem mask_inv (m1 fm : Matrix) (mask : Option Nat) (mk : Nat) (m2 : Matrix)
    (hfm : functionMatrix m1.size = .ok fm)
    (h : findAndApplyBestMask m1 mask = .ok (mk, m2)) :
    mk < (maskPatterns (decide (m1.size < 21))).length
      ∧ m2 = applyMask m1 fm ((maskPatterns (decide (m1.size < 21))).getD mk 0) := by
  cases mask with
  | some p =>
    by_cases hp : p < (maskPatterns (decide (m1.size < 21))).length
    · rw [Proofs.Mask.requested m1 fm p hfm hp] at h
      simp only [Except.ok.injEq, Prod.mk.injEq] at h
      obtain ⟨rfl, rfl⟩ := h
      exact ⟨hp, rfl⟩
    · exfalso
      unfold findAndApplyBestMask at h
      simp only [hfm, bind, Except.bind] at h
      have : (maskPatterns (decide (m1.size < 21)))[p]? = none := by
        rw [List.getElem?_eq_none_iff]; omega
      simp [this, throw, throwThe, MonadExceptOf.throw] at h
  | none =>
    obtain ⟨-, -, hc⟩ := Proofs.Mask.auto_first_best m1 fm mk m2 hfm h
    simp only [List.getElem?_map, Option.map_eq_some_iff] at hc
    obtain ⟨pat, hpat, rfl⟩ := hc
    have hlt : mk < (maskPatterns (decide (m1.size < 21))).length := by
      rcases Nat.lt_or_ge mk (maskPatterns (decide (m1.size < 21))).length with h | h
      · exact h
      · rw [List.getElem?_eq_none_iff.mpr h] at hpat; cases hpat
    refine ⟨hlt, ?_⟩
    rw [List.getD_eq_getElem?_getD, hpat]; rfl

theorem fm_cells (v : Int) (fm : Matrix) (h1 : -3 ≤ v) (h2 : v ≤ 40)
    (hfm : functionMatrix (Spec.size v) = .ok fm) (i j : Nat) (hi : i < Spec.size v) (hj : j < Spec.size v) :
    get2 fm i j = skelCell 1 v i j := by
  have hrf : toRows fm = skelRows 1 v := by
    have := functionMatrix_rows v (geom_rows v (geom_ok v h1 h2))
    rw [hfm] at this
    simpa [Except.map] using this
  exact cells_of_toRows 1 v fm hrf i j hi hj

theorem xor_bit_le (b : Nat) (c : Bool) (hb : b ≤ 1) : b ^^^ (if c then 1 else 0) ≤ 1 := by
  have hb' : b = 0 ∨ b = 1 := by omega
  rcases hb' with rfl | rfl <;> cases c <;> decide

theorem placed_mask (v : Int) (m1 fm : Matrix) (p : Nat) (h1 : -3 ≤ v) (h2 : v ≤ 40)
    (hfm : functionMatrix (Spec.size v) = .ok fm) (hp : Placed v m1) : Placed v (applyMask m1 fm p) := by
  obtain ⟨hsq, hdata, hother⟩ := hp
  refine ⟨⟨by rw [Proofs.Mask.size_applyMask]; exact hsq.1,
    fun i hi => by rw [Proofs.Mask.rowsize_applyMask]; exact hsq.2 i hi⟩, ?_, ?_⟩
  · intro i j hi hj hd
    rw [Proofs.Mask.get2_applyMask, if_pos ⟨by rw [hsq.1]; exact hi, by rw [hsq.2 i hi]; exact hj⟩]
    split
    · exact xor_bit_le _ _ (hdata i j hi hj hd)
    · exact hdata i j hi hj hd
  · intro i j hi hj hd
    rw [Proofs.Mask.applyMask_leaves m1 fm p i j
      (by rw [fm_cells v fm h1 h2 hfm i j hi hj]; exact skelCell_le_one_of_not_data 1 (by decide) v i j hd)]
    exact hother i j hi hj hd


/-! ### lists of writes -/

open Proofs.Placement in
theorem evalW_cases (n a b : Nat) : ∀ (ws : List W) (d : Nat),
    evalW n a b ws d = d ∨ ∃ w ∈ ws, w.1 = a ∧ w.2.1 = b ∧ evalW n a b ws d = w.2.2
  | [], d => Or.inl rfl
  | w :: ws, d => by
    rw [evalW]
    rcases evalW_cases n a b ws (if w.1 = a ∧ w.2.1 = b ∧ a < n ∧ b < n then w.2.2 else d) with h | ⟨w', hw', h1, h2, h3⟩
    · by_cases hc : w.1 = a ∧ w.2.1 = b ∧ a < n ∧ b < n
      · rw [if_pos hc] at h
        exact Or.inr ⟨w, List.mem_cons_self .., hc.1, hc.2.1, by rw [if_pos hc]; exact h⟩
      · rw [if_neg hc] at h ⊢
        exact Or.inl h
    · exact Or.inr ⟨w', List.mem_cons_of_mem _ hw', h1, h2, h3⟩

open Proofs.Placement in
theorem applyW_untouched (m : Matrix) (n : Nat) (ws : List W) (hs : Proofs.Placement.Sq m n) (a b : Nat)
    (h : ∀ w ∈ ws, ¬ (w.1 = a ∧ w.2.1 = b)) : get2 (applyW m ws) a b = get2 m a b := by
  rw [get2_applyW m n a b ws hs]
  rcases evalW_cases n a b ws (get2 m a b) with h' | ⟨w, hw, h1, h2, -⟩
  · exact h'
  · exact absurd ⟨h1, h2⟩ (h w hw)

open Proofs.Placement in
theorem applyW_bin (m : Matrix) (n : Nat) (ws : List W) (hs : Proofs.Placement.Sq m n)
    (hw : ∀ w ∈ ws, w.2.2 ≤ 1) (a b : Nat) (h : get2 m a b ≤ 1) : get2 (applyW m ws) a b ≤ 1 := by
  rw [get2_applyW m n a b ws hs]
  rcases evalW_cases n a b ws (get2 m a b) with h' | ⟨w, hw', -, -, h3⟩
  · rw [h']; exact h
  · rw [h3]; exact hw w hw'

/-! ### `add_format_info` -/

open Proofs.Placement in
theorem format_step (m m' : Matrix) (v : Int) (lvl : Option Nat) (mask : Nat) (h1 : -3 ≤ v) (h2 : v ≤ 40)
    (hs : Proofs.Placement.Sq m (Spec.size v)) (h : addFormatInfo m v lvl mask = .ok m') :
    Proofs.Placement.Sq m' (Spec.size v) ∧ (∀ a b, get2 m a b ≤ 1 → get2 m' a b ≤ 1) := by
  cases hc : calcFormatInfo v lvl mask with
  | error e => rw [addFormatInfo_error m v lvl mask e hc] at h; cases h
  | ok fi =>
    by_cases hv : v < 1
    · have h' := (addFormatInfo_micro_eq m v _ mask _ hv hc).symm.trans h
      have h'' := Except.ok.inj h'
      subst h''
      refine ⟨(Sq_applyW m _ _).2 hs, fun a b hab => applyW_bin m _ _ hs ?_ a b hab⟩
      intro w hw
      simp only [List.mem_flatMap, List.mem_range, microStep, List.mem_cons, List.not_mem_nil, or_false] at hw
      obtain ⟨i, _, rfl | rfl⟩ := hw <;> (simp only; omega)
    · have hv' : 1 ≤ v := by omega
      have h' := (addFormatInfo_qr_eq m v _ mask _ hv' hc).symm.trans h
      have h'' := Except.ok.inj h'
      subst h''
      refine ⟨(Sq_applyW m _ _).2 hs, fun a b hab => applyW_bin m _ _ hs ?_ a b hab⟩
      intro w hw
      simp only [List.mem_append, List.mem_flatMap, List.mem_range, qrStep, List.mem_cons, List.not_mem_nil,
        or_false] at hw
      rcases hw with ⟨i, _, rfl | rfl | rfl | rfl⟩ | rfl <;> (simp only; omega)

/-! ### `add_version_info` -/

theorem kind_version (v : Int) (h1 : 7 ≤ v) (h2 : v ≤ 40) (i r : Nat) (hi : i < 6)
    (hr : r = Spec.size v - 11 ∨ r = Spec.size v - 10 ∨ r = Spec.size v - 9) :
    Spec.kind v r i = .version ∧ Spec.kind v i r = .version := by
  have hn : 45 ≤ Spec.size v := by have := (Proofs.Placement.size_qr v (by omega) h2).2; omega
  unfold Spec.kind Spec.isMicro
  generalize Spec.size v = n at *
  simp only [show decide (v < 1) = false by simp; omega, Bool.false_eq_true, if_false,
    Bool.or_eq_true, Bool.and_eq_true, decide_eq_true_eq, beq_iff_eq]
  constructor
  · rw [if_neg (by omega), if_neg (by omega), if_neg (by omega), if_neg (by omega), if_pos (by omega)]
  · rw [if_neg (by omega), if_neg (by omega), if_neg (by omega), if_neg (by omega), if_pos (by omega)]

/-- the two 6×3 blocks of the version information -/
def inVersionArea (n a b : Nat) : Prop :=
  (a < 6 ∧ n - 11 ≤ b ∧ b ≤ n - 9) ∨ (b < 6 ∧ n - 11 ≤ a ∧ a ≤ n - 9)

open Proofs.Placement in
theorem version_step (m m' : Matrix) (v : Int) (h1 : -3 ≤ v) (h2 : v ≤ 40)
    (hs : Proofs.Placement.Sq m (Spec.size v)) (h : addVersionInfo m v = .ok m') :
    Proofs.Placement.Sq m' (Spec.size v) ∧ (∀ a b, get2 m a b ≤ 1 → get2 m' a b ≤ 1)
      ∧ (∀ a b, Spec.kind v a b ≠ .version → get2 m' a b = get2 m a b)
      ∧ (∀ a b, ¬ inVersionArea (Spec.size v) a b → get2 m' a b = get2 m a b) := by
  by_cases hv : v < 7
  · rw [version_info_noop m v hv] at h
    have := Except.ok.inj h
    subst this
    exact ⟨hs, fun _ _ h => h, fun _ _ _ => rfl, fun _ _ _ => rfl⟩
  · have hv' : 7 ≤ v := by omega
    have hn : 45 ≤ Spec.size v := by have := (Proofs.Placement.size_qr v (by omega) h2).2; omega
    rw [addVersionInfo_eq m v hv' h2, hs.1] at h
    have h'' := Except.ok.inj h
    subst h''
    have hmem : ∀ w ∈ verWrites (Spec.size v) (Spec.golay18 v.toNat),
        w.2.2 ≤ 1 ∧ Spec.kind v w.1 w.2.1 = .version ∧ inVersionArea (Spec.size v) w.1 w.2.1 := by
      intro w hw
      simp only [verWrites, List.mem_flatMap, List.mem_range, verStep, List.mem_cons, List.not_mem_nil,
        or_false] at hw
      unfold inVersionArea
      obtain ⟨i, hi, rfl | rfl | rfl | rfl | rfl | rfl⟩ := hw
      · exact ⟨by simp only; omega, (kind_version v hv' h2 i _ hi (Or.inl rfl)).1, by simp only; omega⟩
      · exact ⟨by simp only; omega, (kind_version v hv' h2 i _ hi (Or.inr (Or.inl rfl))).1, by simp only; omega⟩
      · exact ⟨by simp only; omega, (kind_version v hv' h2 i _ hi (Or.inr (Or.inr rfl))).1, by simp only; omega⟩
      · exact ⟨by simp only; omega, (kind_version v hv' h2 i _ hi (Or.inl rfl)).2, by simp only; omega⟩
      · exact ⟨by simp only; omega, (kind_version v hv' h2 i _ hi (Or.inr (Or.inl rfl))).2, by simp only; omega⟩
      · exact ⟨by simp only; omega, (kind_version v hv' h2 i _ hi (Or.inr (Or.inr rfl))).2, by simp only; omega⟩
    refine ⟨(Sq_applyW m _ _).2 hs, fun a b hab => applyW_bin m _ _ hs (fun w hw => (hmem w hw).1) a b hab, ?_, ?_⟩
    · intro a b hk
      apply applyW_untouched m _ _ hs
      intro w hw ⟨e1, e2⟩
      apply hk
      rw [← e1, ← e2]
      exact (hmem w hw).2.1
    · intro a b hk
      apply applyW_untouched m _ _ hs
      intro w hw ⟨e1, e2⟩
      apply hk
      rw [← e1, ← e2]
      exact (hmem w hw).2.2

end Proofs.EndToEnd
