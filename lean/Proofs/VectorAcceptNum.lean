/-
  Proofs.VectorAcceptNum — C10, token level, numbers: the judge's exact decimal parser (`Spec.Vector.parseDecimal`,
  `num?`) reads back the numbers the model prints (`toString` of an `Int`, `Model.Lines.showHalf`).
  Mathlib-free.
-/
import Model.Lines
import Spec.Vector

namespace Proofs.VectorAccept
open Spec.Vector Model.Lines

/-- half of a doubled coordinate, as exact rational -/
def half (y2 : Int) : Rat := (y2 : Rat) / 2

theorem digitsVal_eq (ds : List Char) : digitsVal ds = Nat.ofDigitChars 10 ds 0 := by
  unfold digitsVal Nat.ofDigitChars
  congr 1
  funext a c
  simp [Nat.mul_comm]

theorem digitsVal_toDigits (n : Nat) : digitsVal (Nat.toDigits 10 n) = n := by
  rw [digitsVal_eq]; exact Nat.ofDigitChars_ten_toDigits

theorem isDigit_toDigits (n : Nat) : ∀ c ∈ Nat.toDigits 10 n, c.isDigit = true :=
  fun _ hc => Nat.isDigit_of_mem_toDigits (by decide) (by decide) hc

theorem span_loop_append (p : Char → Bool) (ds rest : List Char) (hd : ∀ c ∈ ds, p c = true)
    (hr : ∀ c r, rest = c :: r → p c = false) : ∀ acc, List.span.loop p (ds ++ rest) acc = (acc.reverse ++ ds, rest) := by
  induction ds with
  | nil =>
    intro acc
    cases rest with
    | nil => simp [List.span.loop]
    | cons c r => simp [List.span.loop, hr c r rfl]
  | cons d ds ih =>
    intro acc
    have h1 : p d = true := hd d (by simp)
    simp [List.span.loop, h1, ih (fun c hc => hd c (by simp [hc]))]

/-- `span isDigit` stops exactly after a block of digits followed by a non-digit (or the end) -/
theorem spanDigits_append (ds rest : List Char) (hd : ∀ c ∈ ds, c.isDigit = true)
    (hr : ∀ c r, rest = c :: r → c.isDigit = false) : spanDigits (ds ++ rest) = (ds, rest) := by
  unfold spanDigits List.span
  simpa using span_loop_append Char.isDigit ds rest hd hr []

theorem spanDigits_all (ds : List Char) (hd : ∀ c ∈ ds, c.isDigit = true) : spanDigits ds = (ds, []) := by
  have := spanDigits_append ds [] hd (fun _ _ h => by cases h)
  simpa using this

theorem digitsVal_snoc5 (ds : List Char) : digitsVal (ds ++ ['5']) = digitsVal ds * 10 + 5 := by
  simp [digitsVal, List.foldl_append]

theorem parse_digits (ds : List Char) (hne : ds ≠ []) (hd : ∀ c ∈ ds, c.isDigit = true) :
    parseDecPrefix ds = some ((((digitsVal ds : Nat) : Int), 1), []) := by
  cases ds with
  | nil => exact absurd rfl hne
  | cons d r =>
    have hd0 : d.isDigit = true := hd d (by simp)
    have h1 : d ≠ '-' := by intro h; subst h; simp at hd0
    have h2 : d ≠ '+' := by intro h; subst h; simp at hd0
    simp [parseDecPrefix, h1, h2, spanDigits_all (d :: r) hd]

theorem parse_neg_digits (ds : List Char) (hne : ds ≠ []) (hd : ∀ c ∈ ds, c.isDigit = true) :
    parseDecPrefix ('-' :: ds) = some ((-((digitsVal ds : Nat) : Int), 1), []) := by
  simp [parseDecPrefix, spanDigits_all ds hd, hne]

theorem parse_digits_half (ds : List Char) (hne : ds ≠ []) (hd : ∀ c ∈ ds, c.isDigit = true) :
    parseDecPrefix (ds ++ ['.', '5']) = some ((((digitsVal ds * 10 + 5 : Nat) : Int), 10), []) := by
  cases ds with
  | nil => exact absurd rfl hne
  | cons d r =>
    have hd0 : d.isDigit = true := hd d (by simp)
    have h1 : d ≠ '-' := by intro h; subst h; simp at hd0
    have h2 : d ≠ '+' := by intro h; subst h; simp at hd0
    have hs := spanDigits_append (d :: r) ['.', '5'] hd (by intro c r h; cases h; decide)
    have hs5 := spanDigits_all ['5'] (by decide)
    simp only [List.cons_append] at hs
    simp [parseDecPrefix, h1, h2, hs, hs5]
    have := digitsVal_snoc5 (d :: r)
    simp only [List.cons_append] at this
    rw [this]; simp

theorem parse_neg_digits_half (ds : List Char) (_hne : ds ≠ []) (hd : ∀ c ∈ ds, c.isDigit = true) :
    parseDecPrefix ('-' :: (ds ++ ['.', '5'])) = some ((-((digitsVal ds * 10 + 5 : Nat) : Int), 10), []) := by
  have hs := spanDigits_append ds ['.', '5'] hd (by intro c r h; cases h; decide)
  have hs5 := spanDigits_all ['5'] (by decide)
  simp [parseDecPrefix, hs, hs5]
  rw [digitsVal_snoc5]; simp

theorem toList_int (k : Int) : (toString k).toList = if 0 ≤ k then Nat.toDigits 10 k.toNat else '-' :: Nat.toDigits 10 (-k).toNat := by
  rw [Int.toString_eq_repr, Int.repr_eq_if]
  split <;> simp

theorem parseDecimal_int (k : Int) : parseDecimal (toString k) = some (k, 1) := by
  unfold parseDecimal
  rw [toList_int]
  by_cases h : 0 ≤ k
  · rw [if_pos h, parse_digits _ Nat.toDigits_ne_nil (isDigit_toDigits _), digitsVal_toDigits]
    simp; omega
  · rw [if_neg h, parse_neg_digits _ Nat.toDigits_ne_nil (isDigit_toDigits _), digitsVal_toDigits]
    simp; omega

theorem num_int (k : Int) : num? (toString k) = some (k : Rat) := by
  unfold num?
  rw [parseDecimal_int]
  simp [Rat.mkRat_eq_div]
  grind

theorem toList_showHalf_odd (y2 : Int) (h : y2 % 2 ≠ 0) :
    (showHalf y2).toList = (if y2 < 0 then ['-'] else []) ++ (Nat.toDigits 10 (y2.natAbs / 2) ++ ['.', '5']) := by
  unfold showHalf
  have : (y2 % 2 == 0) = false := by simp [h]
  rw [this]
  by_cases hn : y2 < 0 <;> simp [hn, String.toList_append]

theorem num_showHalf (y2 : Int) : num? (showHalf y2) = some (half y2) := by
  by_cases h : y2 % 2 = 0
  · have : showHalf y2 = toString (y2 / 2) := by simp [showHalf, h]
    rw [this, num_int]
    unfold half
    have e : y2 = 2 * (y2 / 2) := by omega
    have : (y2 : Rat) = 2 * ((y2 / 2 : Int) : Rat) := by
      conv => lhs; rw [e]
      simp
    rw [this]; grind
  · unfold num? parseDecimal
    rw [toList_showHalf_odd y2 h]
    by_cases hn : y2 < 0
    · simp only [hn, if_true, List.singleton_append]
      rw [parse_neg_digits_half _ Nat.toDigits_ne_nil (isDigit_toDigits _), digitsVal_toDigits]
      simp [Rat.mkRat_eq_div]
      have e : y2 = -(2 * ((y2.natAbs : Int) / 2) + 1) := by omega
      generalize ((y2.natAbs : Int) / 2) = q at e ⊢
      subst e
      unfold half
      simp only [Rat.intCast_neg, Rat.intCast_add, Rat.intCast_mul]
      grind
    · simp only [hn, if_false, List.nil_append]
      rw [parse_digits_half _ Nat.toDigits_ne_nil (isDigit_toDigits _), digitsVal_toDigits]
      simp [Rat.mkRat_eq_div]
      have e : y2 = (2 * ((y2.natAbs : Int) / 2) + 1) := by omega
      generalize ((y2.natAbs : Int) / 2) = q at e ⊢
      subst e
      unfold half
      simp only [Rat.intCast_add, Rat.intCast_mul]
      grind

theorem noAlpha_of_digit (c : Char) (h : c.isDigit = true) : c.isAlpha = false := by
  simp only [Char.isDigit, Char.isAlpha, Char.isUpper, Char.isLower, Bool.and_eq_true, Bool.or_eq_false_iff, Bool.and_eq_false_iff, decide_eq_true_eq, decide_eq_false_iff_not, UInt32.le_iff_toNat_le, ge_iff_le] at *
  have e0 : '0'.val.toNat = 48 := rfl
  have e9 : '9'.val.toNat = 57 := rfl
  have eA : 'A'.val.toNat = 65 := rfl
  have eZ : 'Z'.val.toNat = 90 := rfl
  have ea : 'a'.val.toNat = 97 := rfl
  have ez : 'z'.val.toNat = 122 := rfl
  omega

theorem noAlpha_int (k : Int) : ∀ c ∈ (toString k).toList, c.isAlpha = false := by
  intro c hc
  rw [toList_int] at hc
  split at hc
  · exact noAlpha_of_digit c (isDigit_toDigits _ c hc)
  · rcases List.mem_cons.mp hc with rfl | hc
    · decide
    · exact noAlpha_of_digit c (isDigit_toDigits _ c hc)

theorem noAlpha_showHalf (y2 : Int) : ∀ c ∈ (showHalf y2).toList, c.isAlpha = false := by
  intro c hc
  by_cases h : y2 % 2 = 0
  · have : showHalf y2 = toString (y2 / 2) := by simp [showHalf, h]
    rw [this] at hc
    exact noAlpha_int _ c hc
  · rw [toList_showHalf_odd y2 h] at hc
    simp only [List.mem_append, List.mem_cons, List.mem_nil_iff, or_false] at hc
    rcases hc with hc | hc | rfl | rfl
    · split at hc
      · simp at hc; subst hc; decide
      · simp at hc
    · exact noAlpha_of_digit c (isDigit_toDigits _ c hc)
    · decide
    · decide

end Proofs.VectorAccept
