/-
  Proofs.VectorAcceptEps — C10: the judge's PostScript interpreter (`Spec.Vector.psRun`: procedure definitions,
  expansion, operand stack, `rmoveto` / `rlineto`) on the program the model emits (`Model.Lines.epsPath` between
  `newpath` and `stroke`, after the prolog `/m { rmoveto } bind def  /l { rlineto } bind def`).  Mathlib-free.
-/
import Proofs.VectorAcceptPdf

namespace Proofs.VectorAccept
open Spec.Vector Model.Lines Proofs.Lines

/-! ### procedure definitions -/

def prolog : List String := ["/m", "{", "rmoveto", "}", "bind", "def", "/l", "{", "rlineto", "}", "bind", "def"]

theorem drop_m : ("/m".drop 1).copy = "m" := by decide +kernel
theorem drop_l : ("/l".drop 1).copy = "l" := by decide +kernel

theorem go_prolog (f : Nat) (rest : List String) (defs out) :
    psDefs.go (f + 2) (prolog ++ rest) defs out = psDefs.go f rest (("l", ["rlineto"]) :: ("m", ["rmoveto"]) :: defs) out := by
  simp [prolog, psDefs.go, drop_m, drop_l]

theorem go_plain (rest : List String) (h : ∀ t ∈ rest, t.startsWith "/" = false) : ∀ (f : Nat) defs out, rest.length ≤ f →
    psDefs.go f rest defs out = .ok (defs, out.reverse ++ rest) := by
  induction rest with
  | nil => intro f defs out _; cases f <;> simp [psDefs.go]
  | cons t rest ih =>
    intro f defs out hf
    cases f with
    | zero => simp at hf
    | succ f =>
      have ht := h t (by simp)
      simp only [psDefs.go, ht, Bool.false_eq_true, if_false]
      rw [ih (fun t ht => h t (by simp [ht])) f defs (t :: out) (by simpa using hf)]
      simp

theorem psDefs_prolog (rest : List String) (h : ∀ t ∈ rest, t.startsWith "/" = false) :
    psDefs (prolog ++ rest) = .ok ([("l", ["rlineto"]), ("m", ["rmoveto"])], rest) := by
  unfold psDefs
  have e : (prolog ++ rest).length + 1 = (rest.length + 11) + 2 := by simp [prolog]
  rw [e, go_prolog, go_plain rest h _ _ _ (by omega)]
  simp

/-- a token that parses as a number does not start with `/` -/
theorem num_not_slash (t : String) (q : Rat) (h : num? t = some q) : t.startsWith "/" = false := by
  rw [String.startsWith_string_eq_false_iff]
  intro hp
  obtain ⟨r, hr⟩ := hp
  have : "/".toList = ['/'] := rfl
  rw [this] at hr
  unfold num? parseDecimal at h
  rw [← hr] at h
  simp [parseDecPrefix, spanDigits, List.span, List.span.loop] at h

theorem num_ne (t t' : String) (q : Rat) (h : num? t = some q) (h' : num? t' = none) : (t' == t) = false := by
  simp only [beq_eq_false_iff_ne]
  intro e; subst e; rw [h'] at h; cases h

/-! ### expansion of the procedures -/

def psD : List (String × List String) := [("l", ["rlineto"]), ("m", ["rmoveto"])]

def exp1 (t : String) : List String :=
  match psD.find? (·.1 == t) with
  | some d => d.2
  | none => [t]

theorem expandDefs_eq (toks : List String) : expandDefs psD toks = (toks.flatMap exp1).flatMap exp1 := rfl

theorem exp1_num (t : String) (q : Rat) (h : num? t = some q) : exp1 t = [t] := by
  unfold exp1 psD
  simp [num_ne t "l" q h num_l, num_ne t "m" q h num_m]

theorem exp1_m : exp1 "m" = ["rmoveto"] := by decide +kernel
theorem exp1_l : exp1 "l" = ["rlineto"] := by decide +kernel
theorem exp1_rmoveto : exp1 "rmoveto" = ["rmoveto"] := by decide +kernel
theorem exp1_rlineto : exp1 "rlineto" = ["rlineto"] := by decide +kernel
theorem exp1_moveto : exp1 "moveto" = ["moveto"] := by decide +kernel
theorem exp1_scale : exp1 "scale" = ["scale"] := by decide +kernel
theorem exp1_newpath : exp1 "newpath" = ["newpath"] := by decide +kernel
theorem exp1_stroke : exp1 "stroke" = ["stroke"] := by decide +kernel

/-! ### single steps -/

theorem psStep_num (m : Machine) (t : String) (q : Rat) (h : num? t = some q) :
    psStep m t = .ok { m with stack := q :: m.stack } := by
  unfold psStep; simp [h]

theorem num_rmoveto : num? "rmoveto" = none := by decide +kernel
theorem num_rlineto : num? "rlineto" = none := by decide +kernel
theorem num_moveto : num? "moveto" = none := by decide +kernel
theorem num_scale : num? "scale" = none := by decide +kernel
theorem num_newpath : num? "newpath" = none := by decide +kernel
theorem num_stroke : num? "stroke" = none := by decide +kernel

theorem psStep_scale (m : Machine) (a b : Rat) (st : List Rat) (h : m.stack = b :: a :: st) :
    psStep m "scale" = .ok { m with stack := st, gs := { m.gs with ctm := m.gs.ctm.comp { sx := a, sy := b } } } := by
  unfold psStep; simp [num_scale, pop2, h]; rfl

theorem psStep_newpath (m : Machine) : psStep m "newpath" = .ok { m with path := {}, clip := false } := by
  unfold psStep; simp [num_newpath]

theorem psStep_moveto (m : Machine) (x y : Rat) (st : List Rat) (h : m.stack = y :: x :: st) :
    psStep m "moveto" = .ok { m with stack := st, path := m.path.moveTo (x, y) (m.gs.ctm.app (x, y)), clip := false } := by
  unfold psStep; simp [num_moveto, pop2, h]; rfl

theorem psStep_rmoveto (m : Machine) (dx dy px py : Rat) (st : List Rat) (h : m.stack = dy :: dx :: st)
    (hp : m.path.pos = some (px, py)) :
    psStep m "rmoveto" = .ok { m with stack := st, path := m.path.moveTo (m.path.upos.1 + dx, m.path.upos.2 + dy) (px + m.gs.ctm.sx * dx, py + m.gs.ctm.sy * dy) } := by
  unfold psStep; simp [num_rmoveto, pop2, h]
  simp only [bind, Except.bind, hp]
  rfl

theorem psStep_rlineto (m : Machine) (dx dy px py : Rat) (st : List Rat) (p' : PathSt) (h : m.stack = dy :: dx :: st)
    (hp : m.path.pos = some (px, py))
    (hl : m.path.lineTo (m.path.upos.1 + dx, m.path.upos.2 + dy) (px + m.gs.ctm.sx * dx, py + m.gs.ctm.sy * dy) = .ok p') :
    psStep m "rlineto" = .ok { m with stack := st, path := p' } := by
  unfold psStep; simp [num_rlineto, pop2, h]
  simp only [bind, Except.bind, hp]
  show (_ <$> m.path.lineTo (m.path.upos.1 + dx, m.path.upos.2 + dy) (px + m.gs.ctm.sx * dx, py + m.gs.ctm.sy * dy)) = _
  rw [hl]; rfl

theorem psStep_stroke (m : Machine) (rs : List Rect) (h : strokeRects (m.gs.lw * absQ m.gs.ctm.sy / 2) m.path.done = .ok rs) :
    psStep m "stroke" = .ok { m with paints := Paint.stroke rs m.gs.strokeC :: m.paints, path := {}, clip := false } := by
  unfold psStep; simp [num_stroke, Machine.strokeNow, h]; rfl

/-! ### the path -/

theorem moveTo_lineTo_done' (p : PathSt) (u d u' d' : Rat × Rat) :
    ∃ p', (p.moveTo u d).lineTo u' d' = .ok p' ∧ p'.pos = some d' ∧ p'.done = p.done ++ [{ pts := [d, d'], closed := false }] := by
  refine ⟨_, rfl, rfl, ?_⟩
  simp [PathSt.moveTo, PathSt.done, PathSt.flush]

def cS (s : Rat) : Xf := { sx := s, sy := s, tx := 0, ty := 0 }
def gsS (s : Rat) : GState := { ctm := cS s }

/-- one relative run after expansion -/
def relX (t : Int × Int × Int) : List String := [toString t.1, toString t.2.1, "rmoveto", toString t.2.2, "0", "rlineto"]

theorem eps_rel_one (s : Rat) (t : Int × Int × Int) (p : PathSt) (px py2 : Int)
    (hp : p.pos = some (s * (px : Rat) + 0, s * half py2 + 0)) :
    ∃ p', (relX t).foldlM psStep (mkM [] (gsS s) p) = .ok (mkM [] (gsS s) p')
      ∧ p'.pos = some (s * ((px + t.1 + t.2.2 : Int) : Rat) + 0, s * half (py2 + 2 * t.2.1) + 0)
      ∧ p'.done = p.done ++ subsOf (cS s) [(px + t.1, py2 + 2 * t.2.1, px + t.1 + t.2.2)] := by
  obtain ⟨dx, dy, len⟩ := t
  have ed : (s * (px : Rat) + 0 + s * (dx : Rat), s * half py2 + 0 + s * (dy : Rat))
      = (s * ((px + dx : Int) : Rat) + 0, s * half (py2 + 2 * dy) + 0) := by
    unfold half; simp only [Rat.intCast_add, Rat.intCast_mul]; congr 1 <;> grind
  have ed' : (s * ((px + dx : Int) : Rat) + 0 + s * (len : Rat), s * half (py2 + 2 * dy) + 0 + s * 0)
      = (s * ((px + dx + len : Int) : Rat) + 0, s * half (py2 + 2 * dy) + 0) := by
    simp only [Rat.intCast_add]; congr 1 <;> grind
  obtain ⟨p', h1, h2, h3⟩ := moveTo_lineTo_done' p (p.upos.1 + (dx : Rat), p.upos.2 + (dy : Rat))
    (s * ((px + dx : Int) : Rat) + 0, s * half (py2 + 2 * dy) + 0)
    (p.upos.1 + (dx : Rat) + (len : Rat), p.upos.2 + (dy : Rat) + 0)
    (s * ((px + dx + len : Int) : Rat) + 0, s * half (py2 + 2 * dy) + 0)
  refine ⟨p', ?_, h2, by rw [h3]; simp [subsOf, Xf.app, cS]⟩
  simp only [relX, List.foldlM_cons, List.foldlM_nil, mkM]
  rw [psStep_num _ _ _ (num_int dx)]; simp only [bind, Except.bind]
  rw [psStep_num _ _ _ (num_int dy)]; simp only []
  rw [psStep_rmoveto _ (dx : Rat) (dy : Rat) _ _ [] rfl hp]; simp only []
  rw [psStep_num _ _ _ (num_int len)]; simp only []
  rw [psStep_num _ _ _ num_zero]; simp only []
  have e1 : (gsS s).ctm.sx = s := rfl
  have e2 : (gsS s).ctm.sy = s := rfl
  rw [e1, e2, ed]
  rw [psStep_rlineto _ (len : Rat) 0 (s * ((px + dx : Int) : Rat) + 0) (s * half (py2 + 2 * dy) + 0) [] p' rfl rfl
    (by simp only [e1, e2]; rw [ed']; exact h1)]
  rfl

theorem eps_rel_run (s : Rat) (rel : List (Int × Int × Int)) : ∀ (p : PathSt) (px py2 : Int),
    p.pos = some (s * (px : Rat) + 0, s * half py2 + 0) →
    ∃ p', ((rel.map relX).flatten).foldlM psStep (mkM [] (gsS s) p) = .ok (mkM [] (gsS s) p')
      ∧ p'.done = p.done ++ subsOf (cS s) (epsAbs px py2 rel) := by
  induction rel with
  | nil => intro p px py2 _; exact ⟨p, rfl, by simp [subsOf, epsAbs]⟩
  | cons t rest ih =>
    intro p px py2 hp
    obtain ⟨p1, h1, hp1, d1⟩ := eps_rel_one s t p px py2 hp
    obtain ⟨p2, h2, d2⟩ := ih p1 (px + t.1 + t.2.2) (py2 + 2 * t.2.1) hp1
    refine ⟨p2, ?_, ?_⟩
    · rw [List.map_cons, List.flatten_cons, List.foldlM_append, h1]
      exact h2
    · obtain ⟨dx, dy, len⟩ := t
      rw [d2, d1]; simp [subsOf, epsAbs]

/-- the first (absolute) run after expansion -/
def firstX (x1 y1 x2 : Int) : List String := [toString x1, showHalf y1, "moveto", toString (x2 - x1), "0", "rlineto"]

theorem eps_first (s : Rat) (x1 y1 x2 : Int) :
    ∃ p', (firstX x1 y1 x2).foldlM psStep (mkM [] (gsS s) {}) = .ok (mkM [] (gsS s) p')
      ∧ p'.pos = some (s * (x2 : Rat) + 0, s * half y1 + 0)
      ∧ p'.done = subsOf (cS s) [(x1, y1, x2)] := by
  have ed' : (s * (x1 : Rat) + 0 + s * ((x2 - x1 : Int) : Rat), s * half y1 + 0 + s * 0)
      = (s * (x2 : Rat) + 0, s * half y1 + 0) := by
    simp only [Rat.intCast_sub]; congr 1 <;> grind
  obtain ⟨p', h1, h2, h3⟩ := moveTo_lineTo_done' {} ((x1 : Rat), half y1) (s * (x1 : Rat) + 0, s * half y1 + 0)
    ((x1 : Rat) + ((x2 - x1 : Int) : Rat), half y1 + 0) (s * (x2 : Rat) + 0, s * half y1 + 0)
  refine ⟨p', ?_, h2, by rw [h3]; simp [subsOf, Xf.app, cS, PathSt.done, PathSt.flush]⟩
  simp only [firstX, List.foldlM_cons, List.foldlM_nil, mkM]
  rw [psStep_num _ _ _ (num_int x1)]; simp only [bind, Except.bind]
  rw [psStep_num _ _ _ (num_showHalf y1)]; simp only []
  rw [psStep_moveto _ (x1 : Rat) (half y1) [] rfl]; simp only []
  rw [psStep_num _ _ _ (num_int (x2 - x1))]; simp only []
  rw [psStep_num _ _ _ num_zero]; simp only []
  rw [psStep_rlineto _ ((x2 - x1 : Int) : Rat) 0 (s * (x1 : Rat) + 0) (s * half y1 + 0) [] p' rfl rfl
    (by
      have e1 : (gsS s).ctm.sx = s := rfl
      have e2 : (gsS s).ctm.sy = s := rfl
      simp only [e1, e2]; rw [ed']; exact h1)]
  rfl

/-! ### the model's tokens: expansion and absence of literal names -/

def relM (t : Int × Int × Int) : List String := [toString t.1, toString t.2.1, "m", toString t.2.2, "0", "l"]
def firstM (x1 y1 x2 : Int) : List String := [toString x1, showHalf y1, "moveto", toString (x2 - x1), "0", "l"]

theorem exp1_int (k : Int) : exp1 (toString k) = [toString k] := exp1_num _ _ (num_int k)
theorem exp1_half (k : Int) : exp1 (showHalf k) = [showHalf k] := exp1_num _ _ (num_showHalf k)
theorem exp1_zero : exp1 "0" = ["0"] := exp1_num _ _ num_zero

theorem exp_relM (t : Int × Int × Int) : (relM t).flatMap exp1 = relX t := by
  simp only [relM, relX, List.flatMap_cons, List.flatMap_nil, exp1_int, exp1_zero, exp1_m, exp1_l, List.cons_append, List.nil_append, List.append_nil]

theorem exp_relX (t : Int × Int × Int) : (relX t).flatMap exp1 = relX t := by
  simp only [relX, List.flatMap_cons, List.flatMap_nil, exp1_int, exp1_zero, exp1_rmoveto, exp1_rlineto, List.cons_append, List.nil_append, List.append_nil]

theorem exp_firstM (x1 y1 x2 : Int) : (firstM x1 y1 x2).flatMap exp1 = firstX x1 y1 x2 := by
  simp only [firstM, firstX, List.flatMap_cons, List.flatMap_nil, exp1_int, exp1_half, exp1_zero, exp1_moveto, exp1_l, List.cons_append, List.nil_append, List.append_nil]

theorem exp_firstX (x1 y1 x2 : Int) : (firstX x1 y1 x2).flatMap exp1 = firstX x1 y1 x2 := by
  simp only [firstX, List.flatMap_cons, List.flatMap_nil, exp1_int, exp1_half, exp1_zero, exp1_moveto, exp1_rlineto, List.cons_append, List.nil_append, List.append_nil]

theorem exp_relsM (rel : List (Int × Int × Int)) : ((rel.map relM).flatten).flatMap exp1 = (rel.map relX).flatten := by
  induction rel with
  | nil => rfl
  | cons t rest ih => rw [List.map_cons, List.flatten_cons, List.flatMap_append, exp_relM, ih]; rfl

theorem exp_relsX (rel : List (Int × Int × Int)) : ((rel.map relX).flatten).flatMap exp1 = (rel.map relX).flatten := by
  induction rel with
  | nil => rfl
  | cons t rest ih => rw [List.map_cons, List.flatten_cons, List.flatMap_append, exp_relX, ih]

/-- the program after the prolog: optional scale, `newpath`, the path, `stroke` -/
def epsBody (pre path : List String) : List String := pre ++ ("newpath" :: (path ++ ["stroke"]))

theorem expand_body (pre : List String) (hpre : pre.flatMap exp1 = pre) (x1 y1 x2 : Int) (rel : List (Int × Int × Int)) :
    expandDefs psD (epsBody pre (firstM x1 y1 x2 ++ (rel.map relM).flatten))
      = epsBody pre (firstX x1 y1 x2 ++ (rel.map relX).flatten) := by
  rw [expandDefs_eq]
  simp only [epsBody, List.flatMap_append, List.flatMap_cons, List.flatMap_nil, hpre, exp1_newpath, exp1_stroke,
    exp_firstM, exp_firstX, exp_relsM, exp_relsX, List.append_nil, List.singleton_append]

theorem slash_lit (t : String) (h : t ∈ ["moveto", "m", "l", "0", "newpath", "stroke", "scale"]) : t.startsWith "/" = false := by
  simp only [List.mem_cons, List.mem_nil_iff, or_false] at h
  rcases h with rfl | rfl | rfl | rfl | rfl | rfl | rfl <;> decide +kernel

theorem slash_body (pre : List String) (hpre : ∀ t ∈ pre, t.startsWith "/" = false) (x1 y1 x2 : Int) (rel : List (Int × Int × Int)) :
    ∀ t ∈ epsBody pre (firstM x1 y1 x2 ++ (rel.map relM).flatten), t.startsWith "/" = false := by
  intro t ht
  simp only [epsBody, List.mem_append, List.mem_cons, List.mem_flatten, List.mem_map, firstM, relM, List.mem_nil_iff, or_false] at ht
  rcases ht with ht | rfl | (((rfl | rfl | rfl | rfl | rfl | rfl) | ⟨l, ⟨r, _, rfl⟩, ht⟩) | rfl)
  · exact hpre t ht
  · exact slash_lit _ (by simp)
  · exact num_not_slash _ _ (num_int _)
  · exact num_not_slash _ _ (num_showHalf _)
  · exact slash_lit _ (by simp)
  · exact num_not_slash _ _ (num_int _)
  · exact slash_lit _ (by simp)
  · exact slash_lit _ (by simp)
  · simp only [List.mem_cons, List.mem_nil_iff, or_false] at ht
    rcases ht with rfl | rfl | rfl | rfl | rfl | rfl
    · exact num_not_slash _ _ (num_int _)
    · exact num_not_slash _ _ (num_int _)
    · exact slash_lit _ (by simp)
    · exact num_not_slash _ _ (num_int _)
    · exact slash_lit _ (by simp)
    · exact slash_lit _ (by simp)
  · exact slash_lit _ (by simp)

/-! ### the whole program -/

theorem eps_body_run (s : Rat) (pre : List String) (hrun : pre.foldlM psStep ({} : Machine) = .ok (mkM [] (gsS s) {}))
    (x1 y1 x2 : Int) (rel : List (Int × Int × Int)) (rs : List Rect)
    (hrs : strokeRects (1 * absQ s / 2) (subsOf (cS s) ((x1, y1, x2) :: epsAbs x2 y1 rel)) = .ok rs) :
    (epsBody pre (firstX x1 y1 x2 ++ (rel.map relX).flatten)).foldlM psStep ({} : Machine)
      = .ok { mkM [] (gsS s) {} with paints := [Paint.stroke rs black] } := by
  unfold epsBody
  rw [List.foldlM_append, hrun]
  simp only [bind, Except.bind, List.foldlM_cons]
  rw [psStep_newpath]
  simp only []
  rw [List.foldlM_append, List.foldlM_append]
  obtain ⟨p1, h1, hp1, d1⟩ := eps_first s x1 y1 x2
  obtain ⟨p2, h2, d2⟩ := eps_rel_run s rel p1 x2 y1 hp1
  have h1' : (firstX x1 y1 x2).foldlM psStep
      { stack := (mkM [] (gsS s) {}).stack, gs := (mkM [] (gsS s) {}).gs, saved := (mkM [] (gsS s) {}).saved,
        path := {}, clip := false, paints := (mkM [] (gsS s) {}).paints } = .ok (mkM [] (gsS s) p1) := h1
  rw [h1']
  simp only [bind, Except.bind]
  rw [h2]
  simp only [List.foldlM_cons, List.foldlM_nil, bind, Except.bind]
  have hd : p2.done = subsOf (cS s) ((x1, y1, x2) :: epsAbs x2 y1 rel) := by
    rw [d2, d1]; simp [subsOf]
  rw [psStep_stroke _ rs (by simp only [mkM]; rw [hd]; exact hrs)]
  rfl

theorem psRun_of_fold (body : List String) (hsl : ∀ t ∈ body, t.startsWith "/" = false) (m : Machine)
    (h : (expandDefs psD body).foldlM psStep ({} : Machine) = .ok m)
    (hst : m.stack = []) (hp : m.path.done = []) : psRun (prolog ++ body) = .ok m.paints.reverse := by
  unfold psRun
  rw [psDefs_prolog body hsl]
  simp only [bind, Except.bind]
  have h' : (expandDefs [("l", ["rlineto"]), ("m", ["rmoveto"])] body).foldlM psStep ({} : Machine) = .ok m := h
  rw [h']
  simp [hst, hp]
  rfl

/-! ### geometry and the final judgement -/

theorem gridItems_shift (b : Nat) (rows : List (List (Nat × Nat))) : ∀ i0,
    gridItems i0 (rows.map (shiftRuns b)) = (gridItems i0 rows).map (fun a => (a.1, a.2.1 + b, a.2.2 + b)) := by
  induction rows with
  | nil => intro i0; rfl
  | cons rs rest ih =>
    intro i0
    simp only [List.map_cons, gridItems, List.map_append, ih (i0 + 1)]
    congr 1
    simp [shiftRuns]

/-- the model's EPS lines as items -/
theorem eps_lines_items (m : List (List Nat)) (b : Nat) (y2 : Int) :
    matrixToLines m b y2 (-2)
      = (gridItems 0 (rowsGo 0 1 m)).map (fun a => (a.2.1 + b, y2 + 2 + ((a.1 : Int) + 1) * (-2), a.2.2 + b)) := by
  have h1 := linesGo_rows b (-2) m (y2 - (-2)) 1
  have h2 := attach_items (-2) (y2 + 2) (rowsGo b 1 m) 0
  unfold matrixToLines
  rw [h1]
  have e : y2 - (-2) = y2 + 2 + ((0 : Nat) : Int) * (-2) := by omega
  rw [e, h2, rowsGo_shift, gridItems_shift, List.map_map]
  rfl

theorem subsOf_toInt (c : Xf) (l : List (Nat × Int × Nat)) : subsOf c (toInt l) = l.map (subC c) := by
  simp [subsOf, toInt, subC]

/-- EPS: given the shape of the model's lines (first line at the initial y, rest absolutised — `rel_abs_eps`), the
    judge accepts the program prolog + `pre` + newpath + model path + stroke, where `pre` sets the transform `scale(s)` -/
theorem eps_accept (m : List (List Nat)) (b : Nat) (s : Rat) (hs : 0 < s) (hsq : ∀ row ∈ m, row.length = m.length)
    (pre : List String) (hpre1 : pre.flatMap exp1 = pre) (hpre2 : ∀ t ∈ pre, t.startsWith "/" = false)
    (hrun : pre.foldlM psStep ({} : Machine) = .ok (mkM [] (gsS s) {}))
    (x1 x2 : Int) (tail : List (Int × Int × Int))
    (hL : toInt (matrixToLines m b (2 * ((m.length : Int) + (b : Int)) - 1) (-2)) = (x1, 2 * ((m.length : Int) + (b : Int)) - 1, x2) :: tail)
    (habs : epsAbs x2 (2 * ((m.length : Int) + (b : Int)) - 1) (epsRel x2 (2 * ((m.length : Int) + (b : Int)) - 1) tail) = tail) :
    ∃ toks, epsPath m b = some toks ∧
      (do
        let paints ← psRun (prolog ++ epsBody pre toks)
        judgePaints { m := m, size := m.length, b := b, s := s, dark := some black, light := none }
          (some (((m.length + 2 * b : Nat) : Rat) * s, ((m.length + 2 * b : Nat) : Rat) * s)) true (((m.length + 2 * b : Nat) : Rat) * s) 0
          paints) = .ok (segsFrom b (rowsGo b 1 m)) := by
  refine ⟨firstM x1 (2 * ((m.length : Int) + (b : Int)) - 1) x2
      ++ ((epsRel x2 (2 * ((m.length : Int) + (b : Int)) - 1) tail).map relM).flatten, ?_, ?_⟩
  · unfold epsPath
    simp only [hL]
    rfl
  · have hrs := strokeRects_subC (cS s) (1 * absQ s / 2) (matrixToLines m b (2 * ((m.length : Int) + (b : Int)) - 1) (-2))
    rw [← subsOf_toInt, hL] at hrs
    have hfold := eps_body_run s pre hrun x1 (2 * ((m.length : Int) + (b : Int)) - 1) x2
      (epsRel x2 (2 * ((m.length : Int) + (b : Int)) - 1) tail) _ (by rw [habs]; exact hrs)
    rw [← expand_body pre hpre1] at hfold
    rw [psRun_of_fold _ (slash_body pre hpre2 _ _ _ _) _ hfold rfl rfl]
    simp only [bind, Except.bind, List.reverse_cons, List.reverse_nil, List.nil_append]
    rw [eps_lines_items, List.map_map]
    apply judgePaints_items m b s hsq
    intro a _ h1 h2 h3
    simp only [if_true, Function.comp, rectC, cS]
    apply rect_up s hs _ _ _ _ _ (((a.2.1 + b : Nat) : Int)) (((a.2.2 + b : Nat) : Int)) (((a.1 + b : Nat) : Int)) (by omega)
    · grind
    · grind
    · rw [absQ_pos hs]; grind
    · unfold half
      simp only [Int.natCast_add, Rat.intCast_add, Rat.intCast_mul, Rat.intCast_sub, Rat.intCast_neg,
        Rat.natCast_add, Rat.natCast_mul, Rat.intCast_natCast]
      grind

/-! ### the two prefixes `write_eps` produces: `s s scale` (scale ≠ 1) and nothing (scale = 1) -/

theorem eps_pre_exp (st : String) (s : Rat) (hst : num? st = some s) : [st, st, "scale"].flatMap exp1 = [st, st, "scale"] := by
  simp only [List.flatMap_cons, List.flatMap_nil, exp1_num _ _ hst, exp1_scale, List.cons_append, List.nil_append, List.append_nil]

theorem eps_pre_slash (st : String) (s : Rat) (hst : num? st = some s) : ∀ t ∈ [st, st, "scale"], t.startsWith "/" = false := by
  intro t ht
  simp only [List.mem_cons, List.mem_nil_iff, or_false] at ht
  rcases ht with rfl | rfl | rfl
  · exact num_not_slash _ _ hst
  · exact num_not_slash _ _ hst
  · exact slash_lit _ (by simp)

theorem eps_pre_run (st : String) (s : Rat) (hst : num? st = some s) :
    [st, st, "scale"].foldlM psStep ({} : Machine) = .ok (mkM [] (gsS s) {}) := by
  simp only [List.foldlM_cons, List.foldlM_nil]
  rw [psStep_num _ _ _ hst]; simp only [bind, Except.bind]
  rw [psStep_num _ _ _ hst]; simp only []
  rw [psStep_scale _ s s [] rfl]
  simp only [comp_id_scale]
  rfl

theorem eps_nopre_run : ([] : List String).foldlM psStep ({} : Machine) = .ok (mkM [] (gsS 1) {}) := rfl

end Proofs.VectorAccept
