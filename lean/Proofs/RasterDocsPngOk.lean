/-
  Proofs.RasterDocsPngOk — the chunk contents `Model.savePng` produces satisfy what the container reader demands
  (`OutOK`), and the colour table the container reader builds shows every sample as `Proofs.Png.readColour` does.
-/
import Proofs.RasterDocsPngContainer
import Proofs.PngIndex

namespace Proofs.RasterDocs

open Model Model.RasterDocs Spec Proofs.Png

/-- greyscale: bit depth 1, and the tRNS grey value is 0 or 1 -/
theorem paletteFrom_grey (P0 : List PColor) (clrMap : List (Nat × PColor)) (p : PaletteInfo)
    (hp : paletteFrom P0 clrMap = .ok p) (hg : p.isGrey = true) :
    p.depth = 1 ∧ (p.isTransparent = true → p.transIdx < 2) := by
  unfold paletteFrom at hp
  simp only [bind, Except.bind, pure, Except.pure] at hp
  split at hp
  · -- PLTE: not grey
    split at hp
    · split at hp
      · cases hp
      · cases hp; cases hg
    · cases hp; cases hg
  · rename_i hgrey
    simp only [Bool.not_eq_true, Bool.not_eq_false'] at hgrey
    simp only [Bool.and_eq_true, beq_iff_eq] at hgrey
    split at hp
    · rename_i htr
      cases hp
      refine ⟨rfl, fun _ => ?_⟩
      simp only
      split
      · decide
      · have hmem : PColor.transparent ∈ P0 := by simpa using htr
        have := List.idxOf_lt_length_iff.2 hmem
        omega
    · cases hp
      exact ⟨rfl, fun h => by cases h⟩

/-- indexed colour: the palette has n ≥ 1 entries, n ≤ 2^depth, PLTE holds 3n bytes, tRNS at most n -/
theorem palette_indexed (setOrder : List PColor → List PColor) (hset : SetOrderOK setOrder) (clrMap : List (Nat × PColor))
    (p : PaletteInfo) (hp : buildPalette setOrder clrMap = .ok p) (hlen : clrMap.length ≤ 16) (hne : clrMap ≠ []) (hg : p.isGrey = false) :
    ∃ n, 0 < n ∧ (plteBytes p).length = 3 * n ∧ n ≤ 2 ^ p.depth ∧ (trnsBytes p).length ≤ n := by
  have hp' : paletteFrom (palette0 setOrder clrMap) clrMap = .ok p := hp
  have hl : (palette0 setOrder clrMap).length ≤ 16 := by
    have := nodup_length_le (palette0 setOrder clrMap) (clrMap.map (·.2)) (nodup_palette0 setOrder hset clrMap)
      (fun x hx => (mem_palette0 setOrder hset clrMap x).1 hx)
    rw [List.length_map] at this
    omega
  obtain ⟨_, hpl, _, hle, _, _⟩ := paletteFrom_facts (palette0 setOrder clrMap) clrMap p hp'
    (nodup_palette0 setOrder hset clrMap) (sorted_palette0 setOrder clrMap) (head_palette0 setOrder clrMap) hl
  have hpos : 0 < (palette0 setOrder clrMap).length := by
    obtain ⟨e, rest, rfl⟩ : ∃ e rest, clrMap = e :: rest := by
      cases clrMap with
      | nil => exact absurd rfl hne
      | cons e rest => exact ⟨e, rest, rfl⟩
    have : e.2 ∈ palette0 setOrder (e :: rest) := (mem_palette0 setOrder hset _ e.2).2 (by simp)
    exact List.length_pos_of_mem this
  refine ⟨p.palette.length, by omega, ?_, hle, ?_⟩
  · simp only [plteBytes, hg, Bool.false_eq_true, if_false]
    exact length_flatMap_rgb3 _
  · unfold trnsBytes
    simp only [hg, Bool.not_false, if_true]
    split
    · rw [List.length_map]; exact List.length_filter_le _ _
    · split
      · simp; omega
      · simp

/-- the chunk contents of a successful run of `save(kind='png')` are what the container reader demands -/
theorem savePng_outOK (setOrder : List PColor → List PColor) (hset : SetOrderOK setOrder) (M : List (List Nat)) (w h : Nat)
    (dark light : Option ColorArg) (o : TypeOpts ColorArg) (scale : Num) (border : Option Num) (out : PngOut)
    (hw : 0 < w) (hh : 0 < h) (hs : savePng setOrder M w h dark light o scale border = .ok out)
    (hwl : out.width < 4294967296) (hhl : out.height < 4294967296) : OutOK out := by
  unfold savePng at hs
  obtain ⟨clrMap, p, b, idx, hparse, hpal, _, _, hspos, _, _, hout⟩ := writePng_ok setOrder M w h _ scale border out hs
  have hcmlen : (makeColormap w h (dark.getD (.str "#000")) (light.getD (.str "#fff")) o).length ≤ 15 := by
    unfold makeColormap
    exact Nat.le_trans (List.length_filter_le _ _) (by simp [mt2color])
  have hlen : clrMap.length ≤ 16 := by rw [parseColormap_length _ _ hparse]; omega
  have hne : clrMap ≠ [] := by
    intro h0
    have hl := parseColormap_length _ _ hparse
    rw [h0] at hl
    -- the quiet zone entry is never dropped
    have hq : (Gen.TYPE_QUIET_ZONE, (o.quiet_zone.getD (light.getD (.str "#fff")))) ∈ makeColormap w h (dark.getD (.str "#000")) (light.getD (.str "#fff")) o := by
      unfold makeColormap
      rw [List.mem_filter]
      refine ⟨by simp [mt2color], ?_⟩
      unfold unsupportedTypes
      split
      · split <;> simp <;> decide
      · split
        · split <;> simp <;> decide
        · simp
    have := List.length_pos_of_mem hq
    simp at hl
    omega
  obtain ⟨hd, _, _, _⟩ := buildPalette_facts setOrder hset clrMap p hpal hlen
  have hp' : paletteFrom (palette0 setOrder clrMap) clrMap = .ok p := hpal
  subst hout
  refine ⟨Nat.mul_pos (by omega) hspos, Nat.mul_pos (by omega) hspos, hwl, hhl, hd, ?_, ?_, ?_⟩
  · cases p.isGrey <;> simp
  · intro hc
    have hg : p.isGrey = true := by
      cases hgr : p.isGrey with
      | true => rfl
      | false => simp [hgr] at hc
    obtain ⟨hd1, htr⟩ := paletteFrom_grey _ _ p hp' hg
    refine ⟨by simp [plteBytes, hg], ?_⟩
    unfold trnsBytes
    simp only [hg, Bool.not_true, Bool.false_eq_true, if_false]
    by_cases ht : p.isTransparent = true
    · right
      have := htr ht
      refine ⟨p.transIdx, ?_, ?_⟩
      · simp only [ht, if_true]
        have e1 : p.transIdx / 256 % 256 = 0 := by omega
        have e2 : p.transIdx % 256 = p.transIdx := by omega
        rw [e1, e2]
      · simp only [hd1]; omega
    · left; simp [ht]
  · intro hc
    have hg : p.isGrey = false := by
      cases hgr : p.isGrey with
      | false => rfl
      | true => simp [hgr] at hc
    exact palette_indexed setOrder hset clrMap p hpal hlen hne hg

/-! ### the colour table of the container reader = `readColour` -/

theorem chunks_getElem? {α : Type} (k : Nat) : ∀ (n : Nat) (l : List α) (i : Nat),
    (L.chunks k n l)[i]? = if i < n then some ((l.drop (i * k)).take k) else none
  | 0, l, i => by simp [L.chunks]
  | n + 1, l, 0 => by simp [L.chunks]
  | n + 1, l, i + 1 => by
    simp only [L.chunks, List.getElem?_cons_succ, chunks_getElem? k n (l.drop k) i, List.drop_drop]
    have : k + i * k = (i + 1) * k := by rw [Nat.succ_mul, Nat.add_comm]
    rw [this]
    by_cases hi : i < n
    · simp [hi]
    · simp [hi]

theorem getD_take_drop {l : List Nat} (a j : Nat) (hj : j < 3) : ((l.drop a).take 3).getD j 0 = l.getD (a + j) 0 := by
  simp only [List.getD_eq_getElem?_getD, List.getElem?_take, hj, if_true, List.getElem?_drop]

/-- the table built from chunks of three bytes is the table `Proofs.Png.plteOfBytes` builds by index -/
theorem tableOf_eq (o : PngOut) (hc : o.ctype ≠ 0) : tableOf o = plteOfBytes o.plte o.trns := by
  apply List.ext_getElem?
  intro i
  unfold tableOf plteOfBytes
  simp only [List.getElem?_map, List.getElem?_zipIdx, chunks_getElem?, List.getElem?_range, hc, if_false, Nat.zero_add]
  by_cases hi : i < o.plte.length / 3
  · simp only [hi, if_true, Option.map_some]
    have h0 := getD_take_drop (l := o.plte) (i * 3) 0 (by decide)
    have h1 := getD_take_drop (l := o.plte) (i * 3) 1 (by decide)
    have h2 := getD_take_drop (l := o.plte) (i * 3) 2 (by decide)
    simp only [Nat.add_zero] at h0
    rw [h0, h1, h2, Nat.mul_comm i 3]
    have hr : (List.range (o.plte.length / 3))[i]? = some i := by simp [hi]
    simp [hr]
  · simp [hi]

/-- the container reader shows every sample as the reference semantics of `png_model_picture` (`readColour`) do -/
theorem pngColour_container (o : PngOut) (ok : OutOK o) (ppm : Nat) (comp : List Nat) (k : Nat) :
    L.pngColour (containerOf o ppm comp) k = readColour o.depth o.ctype o.plte o.trns k := by
  unfold L.pngColour readColour specPng Png.img
  rcases ok.ctype with hc | hc
  · obtain ⟨_, ht⟩ := ok.grey hc
    rcases ht with ht | ⟨v, ht, _⟩
    · simp [containerOf, hc, ht]
    · simp [containerOf, hc, ht]
  · have hc0 : o.ctype ≠ 0 := by omega
    simp [containerOf, hc, tableOf_eq o hc0]

end Proofs.RasterDocs
