/-
  Proofs.TieA2Timing — `add_timing_pattern` (translated, Gen/Funcs2.lean).  The model has no separate function for it:
  the timing pattern is the last fold of `Model.makeMatrix`.  `timingM` is that fold on an arbitrary n × n matrix,
  `makeMatrix_eq_timingM` shows that `Model.makeMatrix n` is `timingM` applied to the matrix with the reserved
  version / format areas (`reservedM n`, the first two folds), and `add_timing_pattern_eq` ties the translated function
  to `timingM`.
-/
import Proofs.TieA2Matrix

namespace Proofs.TieA2
open Gen.Py Proofs.TieA Model

/-! ### the structure of `Model.makeMatrix` -/

/-- the first part of `Model.makeMatrix`: the matrix of `0x2` with the version and format areas set to 0 -/
def reservedM (n : Nat) : Matrix :=
  let isMicro := n < 21
  let m0 : Matrix := Array.replicate n (Array.replicate n 2)
  let m1 := if n > 41 then
      (List.range 6).foldl (fun m i =>
        let m := set2 (set2 (set2 m i (n - 11) 0) i (n - 10) 0) i (n - 9) 0
        set2 (set2 (set2 m (n - 11) i 0) (n - 10) i 0) (n - 9) i 0) m0
    else m0
  (List.range 9).foldl (fun m i =>
      let m := set2 (set2 m i 8 0) 8 i 0
      if !isMicro then
        let ni := if i == 0 then 0 else n - i
        set2 (set2 m ni 8 0) 8 ni 0
      else m) m1

/-- one round of the timing loop: `matrix[i][j] = bit; matrix[j][i] = bit` for i = 8 + k, bit = (k + 1) % 2 -/
def timingStep (j : Nat) (m : Matrix) (k : Nat) : Matrix :=
  let i := 8 + k
  let bit := (k + 1) % 2
  set2 (set2 m i j bit) j i bit

/-- the timing pattern part of `Model.makeMatrix` (its last fold) applied to an n × n matrix -/
def timingM (m : Matrix) (n : Nat) (isMicro : Bool) : Matrix :=
  let (j, stop) := if isMicro then (0, n) else (6, n - 8)
  (List.range (stop - 8)).foldl (fun m k =>
    let i := 8 + k
    let bit := (k + 1) % 2
    set2 (set2 m i j bit) j i bit) m

/-- `Model.makeMatrix` is: reserve the version / format areas, then add the timing pattern -/
theorem makeMatrix_eq_timingM (n : Nat) : Model.makeMatrix n = timingM (reservedM n) n (decide (n < 21)) := by
  unfold Model.makeMatrix timingM reservedM
  by_cases h : n < 21
  · simp only [h, decide_true, if_true]
  · simp only [h, decide_false, if_false, Bool.false_eq_true]

theorem timingM_micro (m : Matrix) (n : Nat) : timingM m n true = (List.range (n - 8)).foldl (timingStep 0) m := rfl
theorem timingM_qr (m : Matrix) (n : Nat) : timingM m n false = (List.range (n - 8 - 8)).foldl (timingStep 6) m := rfl

theorem sq_timingStep {m : Matrix} {n : Nat} (h : Sq m n) (j k : Nat) : Sq (timingStep j m k) n :=
  sq_set2 (sq_set2 h _ _ _) _ _ _

/-! ### the loop of `add_timing_pattern` -/

/-- the loop body of the translation, with the row / column number `j` of the pattern as a parameter -/
def timingBody (J : Int) : (Int × (List (List Int))) → Int → M (Int × (List (List Int))) :=
  fun (acc'1 : (Int × (List (List Int)))) (i'1 : Int) =>
        ((Gen.Py.bind ((Gen.Py.index acc'1.2 i'1) : M (List Int)) (fun _ =>
          (Gen.Py.bind ((Gen.Py.checkByte acc'1.1) : M Unit) (fun _ =>
            (Gen.Py.bind ((Gen.Py.setItem2 acc'1.2 i'1 J acc'1.1) : M (List (List Int))) (fun t'4 =>
              (Gen.Py.bind ((Gen.Py.index t'4 J) : M (List Int)) (fun _ =>
                (Gen.Py.bind ((Gen.Py.checkByte acc'1.1) : M Unit) (fun _ =>
                  (Gen.Py.bind ((Gen.Py.setItem2 t'4 J i'1 acc'1.1) : M (List (List Int))) (fun t'7 =>
                    (let bit'1 := (Gen.Py.bxor acc'1.1 (1 : Int));
                    (Except.ok (bit'1, t'7))))))))))))))) : M (Int × (List (List Int))))

theorem checkByte_bit (k : Nat) : checkByte (Int.ofNat (k % 2)) = .ok () := by
  unfold checkByte
  rw [if_pos]
  simp only [Int.ofNat_eq_natCast]
  omega

theorem bxor_bit (k : Nat) : bxor (Int.ofNat ((k + 1) % 2)) 1 = Int.ofNat ((k + 1 + 1) % 2) := by
  show Int.ofNat (((k + 1) % 2) ^^^ 1) = _
  congr 1
  have h : k % 2 = 0 ∨ k % 2 = 1 := by omega
  rcases h with h | h
  · have e1 : (k + 1) % 2 = 1 := by omega
    have e2 : (k + 1 + 1) % 2 = 0 := by omega
    rw [e1, e2]; rfl
  · have e1 : (k + 1) % 2 = 0 := by omega
    have e2 : (k + 1 + 1) % 2 = 1 := by omega
    rw [e1, e2]; rfl

/-- one round: the state is (bit, matrix) with bit = (k + 1) % 2 in round k -/
theorem timingBody_eq {m : Matrix} {n : Nat} (hs : Sq m n) (j k : Nat) (hj : j < n) (hk : 8 + k < n) :
    timingBody (Int.ofNat j) (Int.ofNat ((k + 1) % 2), mI m) ((8 : Int) + Int.ofNat k)
      = .ok (Int.ofNat ((k + 1 + 1) % 2), mI (timingStep j m k)) := by
  have hi : normIndex n ((8 : Int) + Int.ofNat k) = some (8 + k) := by
    have : ((8 : Int) + Int.ofNat k) = ((8 + k : Nat) : Int) := by
      simp only [Int.ofNat_eq_natCast]; push_cast; rfl
    rw [this]
    exact normIndex_nat n (8 + k) hk
  have hJ : normIndex n (Int.ofNat j) = some j := normIndex_nat n j hj
  have hs1 : Sq (set2 m (8 + k) j ((k + 1) % 2)) n := sq_set2 hs _ _ _
  unfold timingBody
  simp only []
  rw [index_row hs _ _ hi, bind_ok, checkByte_bit, bind_ok, setItem2_cell hs _ _ _ _ _ hi hJ, bind_ok,
    index_row hs1 _ _ hJ, bind_ok, bind_ok, setItem2_cell hs1 _ _ _ _ _ hJ hi, bind_ok, bxor_bit]
  rfl

/-- the loop from round `k0` on, `c` rounds -/
theorem timing_loop (n j : Nat) (hj : j < n) (c : Nat) :
    ∀ (k0 : Nat) (m : Matrix), Sq m n → (c ≠ 0 → 8 + k0 + c ≤ n) →
      ∃ b : Int, foldlM ((List.range' k0 c).map (fun (k : Nat) => (8 : Int) + Int.ofNat k))
          (Int.ofNat ((k0 + 1) % 2), mI m) (timingBody (Int.ofNat j))
        = .ok (b, mI ((List.range' k0 c).foldl (timingStep j) m)) := by
  induction c with
  | zero => intro k0 m _ _; exact ⟨_, rfl⟩
  | succ c ih =>
    intro k0 m hs hle
    have hle := hle (by omega)
    rw [List.range'_succ, List.map_cons, foldlM_cons, timingBody_eq hs j k0 hj (by omega)]
    simp only [List.foldl_cons]
    exact ih (k0 + 1) _ (sq_timingStep hs j k0) (fun _ => by omega)

/-- `add_timing_pattern` with the row / column `j` and the end `stop` of the loop already chosen -/
theorem timing_core (m : Matrix) (n : Nat) (hs : Sq m n) (j : Nat) (hj : j < n) (stop : Int) (hstop : stop ≤ n) :
    Gen.Py.bind (index (mI m) (Int.ofNat j)) (fun _ =>
      Gen.Py.bind (foldlM (range 8 stop) ((1 : Int), mI m) (timingBody (Int.ofNat j))) (fun st'1 => .ok st'1.2))
      = .ok (mI ((List.range (stop - 8).toNat).foldl (timingStep j) m)) := by
  have hJ : normIndex n (Int.ofNat j) = some j := normIndex_nat n j hj
  rw [index_row hs _ _ hJ, bind_ok, range_eq, List.range_eq_range']
  obtain ⟨b, hb⟩ := timing_loop n j hj (stop - 8).toNat 0 m hs (fun _ => by omega)
  rw [show ((1 : Int), mI m) = (Int.ofNat ((0 + 1) % 2), mI m) from rfl, hb]
  rfl

/-- `add_timing_pattern(matrix, is_micro)` on an n × n matrix (n ≥ 1 for Micro, n ≥ 7 for QR so that row 0 resp. 6 exists) -/
theorem add_timing_pattern_eq (m : Matrix) (n : Nat) (hs : Sq m n) (isMicro : Bool) (hn : if isMicro then 1 ≤ n else 7 ≤ n) :
    Gen.Funcs2.add_timing_pattern (mI m) isMicro = .ok (mI (timingM m n isMicro)) := by
  cases isMicro with
  | true =>
    simp only [if_true] at hn
    rw [timingM_micro]
    have h := timing_core m n hs 0 (by omega) (n : Int) (Int.le_refl _)
    have e : ((n : Int) - 8).toNat = n - 8 := by omega
    rw [e] at h
    rw [← h]
    unfold Gen.Funcs2.add_timing_pattern
    simp only [mI_length, hs.size, if_true]
    rfl
  | false =>
    simp only [Bool.false_eq_true, if_false] at hn
    rw [timingM_qr]
    have h := timing_core m n hs 6 (by omega) ((n : Int) - 8) (by omega)
    have e : ((n : Int) - 8 - 8).toNat = n - 8 - 8 := by omega
    rw [e] at h
    rw [← h]
    unfold Gen.Funcs2.add_timing_pattern
    simp only [mI_length, hs.size, Bool.false_eq_true, if_false]
    rfl

end Proofs.TieA2
