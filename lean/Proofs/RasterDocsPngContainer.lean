/-
  Proofs.RasterDocsPngContainer — the container level of the PNG file the model writes: the list-level reference
  reader `Spec.L.readPngContainer` (signature, chunk walk with every CRC, IHDR first / IEND last, chunk order,
  IHDR / PLTE / tRNS / pHYs contents) accepts `Model.RasterDocs.pngFile o ppm comp` for every well-formed set of
  chunk contents `o`, and returns the IHDR fields, the resolution, the IDAT payload and a colour table that shows
  every sample as `Proofs.Png.readColour` (the semantics `Props.C09Png.png_model_picture` is stated with).
-/
import Proofs.RasterDocsPng
import Proofs.PngDefs

namespace Proofs.RasterDocs

open Model Model.RasterDocs Spec Proofs.Png

/-- what the container reader demands of the chunk contents -/
structure OutOK (o : PngOut) : Prop where
  wpos : 0 < o.width
  hpos : 0 < o.height
  wlt : o.width < 4294967296
  hlt : o.height < 4294967296
  depth : o.depth = 1 ∨ o.depth = 2 ∨ o.depth = 4
  ctype : o.ctype = 0 ∨ o.ctype = 3
  grey : o.ctype = 0 → o.plte = [] ∧ (o.trns = [] ∨ ∃ v, o.trns = [0, v] ∧ v < 2 ^ o.depth)
  indexed : o.ctype = 3 → ∃ n, 0 < n ∧ o.plte.length = 3 * n ∧ n ≤ 2 ^ o.depth ∧ o.trns.length ≤ n

theorem drop4_be32 (n : Nat) (rest : List Nat) : List.drop 4 (RasterDocs.be32 n ++ rest) = rest := rfl

theorem ihdr_8 (W H d c : Nat) (h : 8 < (RasterDocs.be32 W ++ (RasterDocs.be32 H ++ [d, c, 0, 0, 0])).length) :
    (RasterDocs.be32 W ++ (RasterDocs.be32 H ++ [d, c, 0, 0, 0]))[8]'h = d := rfl
theorem ihdr_9 (W H d c : Nat) (h : 9 < (RasterDocs.be32 W ++ (RasterDocs.be32 H ++ [d, c, 0, 0, 0])).length) :
    (RasterDocs.be32 W ++ (RasterDocs.be32 H ++ [d, c, 0, 0, 0]))[9]'h = c := rfl
theorem ihdr_10 (W H d c : Nat) (h : 10 < (RasterDocs.be32 W ++ (RasterDocs.be32 H ++ [d, c, 0, 0, 0])).length) :
    (RasterDocs.be32 W ++ (RasterDocs.be32 H ++ [d, c, 0, 0, 0]))[10]'h = 0 := rfl
theorem ihdr_11 (W H d c : Nat) (h : 11 < (RasterDocs.be32 W ++ (RasterDocs.be32 H ++ [d, c, 0, 0, 0])).length) :
    (RasterDocs.be32 W ++ (RasterDocs.be32 H ++ [d, c, 0, 0, 0]))[11]'h = 0 := rfl
theorem ihdr_12 (W H d c : Nat) (h : 12 < (RasterDocs.be32 W ++ (RasterDocs.be32 H ++ [d, c, 0, 0, 0])).length) :
    (RasterDocs.be32 W ++ (RasterDocs.be32 H ++ [d, c, 0, 0, 0]))[12]'h = 0 := rfl

theorem chunks_length {α : Type} (k n : Nat) (l : List α) : (L.chunks k n l).length = n := by
  induction n generalizing l with
  | zero => rfl
  | succ n ih => simp [L.chunks, ih]

theorem phys_8 (ppm : Nat) (h : 8 < (RasterDocs.be32 ppm ++ (RasterDocs.be32 ppm ++ [1])).length) :
    (RasterDocs.be32 ppm ++ (RasterDocs.be32 ppm ++ [1]))[8]'h = 1 := rfl

/-- the colour table the container reader builds from PLTE / tRNS contents -/
def tableOf (o : PngOut) : List RGBA :=
  (L.chunks 3 (o.plte.length / 3) o.plte).zipIdx.map
    (fun e => (⟨e.1.getD 0 0, e.1.getD 1 0, e.1.getD 2 0, (if o.ctype = 0 then [] else o.trns).getD e.2 255⟩ : RGBA))

/-- what the container reader returns for the file the model writes -/
def containerOf (o : PngOut) (ppm : Nat) (comp : List Nat) : L.PngL :=
  { hdr := { width := o.width, height := o.height, depth := o.depth, ctype := o.ctype },
    plte := tableOf o,
    greyTrans := if o.ctype = 0 ∧ o.trns ≠ [] then some (o.trns.getD 0 0 * 256 + o.trns.getD 1 0) else none,
    phys := if ppm = 0 then none else some (ppm, ppm, 1),
    comp := comp }

local macro "csimp" "[" ts:Lean.Parser.Tactic.simpLemma,* "]" : tactic =>
  `(tactic| simp (config := {decide := true}) [containerOf, tableOf, fileChunks, L.nIHDR, L.nPLTE, L.ntRNS, L.nIDAT, L.nIEND, L.npHYs, be32_length,
      drop4_be32, ihdr_8, ihdr_9, ihdr_10, ihdr_11, ihdr_12, phys_8, $ts,*])

/-- the container of the file the model writes is accepted; header fields, colour table, resolution and payload
    are read back -/
theorem container_accepts (o : PngOut) (ok : OutOK o) (ppm : Nat) (hppm : ppm < 4294967296) (comp : List Nat) (hcomp : comp.length < 4294967296) :
    L.readPngContainer (pngFile o ppm comp) = .ok (containerOf o ppm comp) := by
  have hplte : o.plte.length < 4294967296 := by
    rcases ok.ctype with hc | hc
    · rw [(ok.grey hc).1]; decide
    · obtain ⟨n, _, hl, hn, _⟩ := ok.indexed hc
      have : (2 : Nat) ^ o.depth ≤ 16 := by rcases ok.depth with h | h | h <;> rw [h] <;> decide
      omega
  have htrns : o.trns.length < 4294967296 := by
    rcases ok.ctype with hc | hc
    · rcases (ok.grey hc).2 with h | ⟨v, h, _⟩ <;> rw [h] <;> simp
    · obtain ⟨n, _, hl, hn, ht⟩ := ok.indexed hc
      have : (2 : Nat) ^ o.depth ≤ 16 := by rcases ok.depth with h | h | h <;> rw [h] <;> decide
      omega
  obtain ⟨hsig, hch⟩ := png_file_chunks o ppm comp hplte htrns hcomp
  have hbW : ∀ rest, L.be32 (RasterDocs.be32 o.width ++ rest) = o.width := fun rest => be32_read _ ok.wlt rest
  have hbH : ∀ rest, L.be32 (RasterDocs.be32 o.height ++ rest) = o.height := fun rest => be32_read _ ok.hlt rest
  have hbP : ∀ rest, L.be32 (RasterDocs.be32 ppm ++ rest) = ppm := fun rest => be32_read _ hppm rest
  have hW0 : o.width ≠ 0 := by have := ok.wpos; omega
  have hH0 : o.height ≠ 0 := by have := ok.hpos; omega
  have hd : o.depth = 1 ∨ o.depth = 2 ∨ o.depth = 4 := ok.depth
  unfold L.readPngContainer
  simp only [hsig, hch, bne_self_eq_false, Bool.false_eq_true, if_false]
  rcases ok.ctype with hc | hc
  · -- greyscale: no PLTE
    obtain ⟨hp, ht⟩ := ok.grey hc
    by_cases hp0 : ppm = 0
    · rcases ht with ht | ⟨v, ht, hv⟩
      · csimp [hc, hp, ht, hp0, hbW, hbH, hbP, hW0, hH0, L.chunks]
        rcases hd with h | h | h <;> simp [h]
      · csimp [hc, hp, ht, hp0, hbW, hbH, hbP, hW0, hH0, L.chunks]
        rcases hd with h | h | h
        · rw [h] at hv; have : ¬ 2 ≤ v := by omega
          simp [h, this]
        · rw [h] at hv; have : ¬ 4 ≤ v := by omega
          simp [h, this]
        · rw [h] at hv; have : ¬ 16 ≤ v := by omega
          simp [h, this]
    · have hpb : (ppm != 0) = true := by simp [hp0]
      rcases ht with ht | ⟨v, ht, hv⟩
      · csimp [hc, hp, ht, hpb, hp0, hbW, hbH, hbP, hW0, hH0, L.chunks]
        rcases hd with h | h | h <;> simp [h]
      · csimp [hc, hp, ht, hpb, hp0, hbW, hbH, hbP, hW0, hH0, L.chunks]
        rcases hd with h | h | h
        · rw [h] at hv; have : ¬ 2 ≤ v := by omega
          simp [h, this]
        · rw [h] at hv; have : ¬ 4 ≤ v := by omega
          simp [h, this]
        · rw [h] at hv; have : ¬ 16 ≤ v := by omega
          simp [h, this]
  · -- indexed colour
    obtain ⟨n, hn, hl, hnd, htl⟩ := ok.indexed hc
    have hne : o.plte ≠ [] := by intro h; rw [h] at hl; simp at hl; omega
    have hmod : o.plte.length % 3 = 0 := by omega
    have hdiv : o.plte.length / 3 = n := by omega
    have hcl := chunks_length 3 n o.plte
    have hcne : L.chunks 3 n o.plte ≠ [] := by intro h; rw [h] at hcl; simp at hcl; omega
    have h1 : ¬ n < o.trns.length := by omega
    by_cases hp0 : ppm = 0
    · by_cases ht : o.trns = []
      · csimp [hc, ht, hp0, hbW, hbH, hbP, hW0, hH0, hne, hmod, hdiv, hcl, hcne]
        rcases hd with h | h | h
        · rw [h] at hnd; have h2 : ¬ 2 < n := by omega
          simp [h, h2, h1] <;> omega
        · rw [h] at hnd; have h2 : ¬ 4 < n := by omega
          simp [h, h2, h1] <;> omega
        · rw [h] at hnd; have h2 : ¬ 16 < n := by omega
          simp [h, h2, h1] <;> omega
      · have htb : (!o.trns.isEmpty) = true := by simp [List.isEmpty_iff, ht]
        csimp [hc, ht, htb, hp0, hbW, hbH, hbP, hW0, hH0, hne, hmod, hdiv, hcl, hcne]
        rcases hd with h | h | h
        · rw [h] at hnd; have h2 : ¬ 2 < n := by omega
          simp [h, h2, h1] <;> omega
        · rw [h] at hnd; have h2 : ¬ 4 < n := by omega
          simp [h, h2, h1] <;> omega
        · rw [h] at hnd; have h2 : ¬ 16 < n := by omega
          simp [h, h2, h1] <;> omega
    · have hpb : (ppm != 0) = true := by simp [hp0]
      by_cases ht : o.trns = []
      · csimp [hc, ht, hpb, hp0, hbW, hbH, hbP, hW0, hH0, hne, hmod, hdiv, hcl, hcne]
        rcases hd with h | h | h
        · rw [h] at hnd; have h2 : ¬ 2 < n := by omega
          simp [h, h2, h1] <;> omega
        · rw [h] at hnd; have h2 : ¬ 4 < n := by omega
          simp [h, h2, h1] <;> omega
        · rw [h] at hnd; have h2 : ¬ 16 < n := by omega
          simp [h, h2, h1] <;> omega
      · have htb : (!o.trns.isEmpty) = true := by simp [List.isEmpty_iff, ht]
        csimp [hc, ht, htb, hpb, hp0, hbW, hbH, hbP, hW0, hH0, hne, hmod, hdiv, hcl, hcne]
        rcases hd with h | h | h
        · rw [h] at hnd; have h2 : ¬ 2 < n := by omega
          simp [h, h2, h1] <;> omega
        · rw [h] at hnd; have h2 : ¬ 4 < n := by omega
          simp [h, h2, h1] <;> omega
        · rw [h] at hnd; have h2 : ¬ 16 < n := by omega
          simp [h, h2, h1] <;> omega

end Proofs.RasterDocs
