/-
  Proofs.IterShape — the decision chain of `get_bit` (Model.getBitBranch, Python evaluation order)
  classifies every position like the ISO region classifier `Spec.kind`, FOR ALL WIDTHS (linear
  arithmetic in (n, i, j); the truth value of every condition is fixed by the position class of i and
  of j, which `omega` decides), except at the one coordinate (8, n−9) of QR Codes (finding D8).
  Imports nothing generated.
-/
import Model.IterShape
import Spec.Geometry

set_option linter.unusedSimpArgs false

namespace Proofs.IterShape

open Model Spec

def toKind : Branch → Kind
  | .alignment => .alignment | .version => .version | .darkmodule => .darkmodule | .timing => .timing
  | .format => .format | .finder => .finder | .separator => .separator | .data => .data

/-- `Spec.kind` for a QR Code of size n with the alignment membership as a parameter -/
def kindQR (v : Int) (n i j : Nat) (al : Bool) : Kind :=
  if (i < 7 && j < 7) || (i < 7 && j + 7 ≥ n) || (i + 7 ≥ n && j < 7) then .finder
  else if (i ≤ 7 && j ≤ 7) || (i ≤ 7 && j + 8 ≥ n) || (i + 8 ≥ n && j ≤ 7) then .separator
  else if i + 8 == n && j == 8 then .darkmodule
  else if (i == 8 && (j ≤ 8 || j + 8 ≥ n)) || (j == 8 && (i ≤ 8 || i + 8 ≥ n)) then
    (if i == 6 || j == 6 then .timing else .format)
  else if v ≥ 7 && ((i < 6 && n - 11 ≤ j && j + 9 ≤ n) || (j < 6 && n - 11 ≤ i && i + 9 ≤ n)) then .version
  else if al then .alignment
  else if i == 6 || j == 6 then .timing
  else .data

def kindMicro (i j : Nat) : Kind :=
  if i < 7 && j < 7 then .finder
  else if (i == 7 && j ≤ 7) || (j == 7 && i ≤ 7) then .separator
  else if i == 0 || j == 0 then .timing
  else if (i == 8 && 1 ≤ j && j ≤ 8) || (j == 8 && 1 ≤ i && i ≤ 8) then .format
  else .data

theorem kind_eq_kindQR (v : Int) (hv : 1 ≤ v) (i j : Nat) :
    kind v i j = kindQR v (size v) i j (inAlignment v.toNat (size v) i j) := by
  have : isMicro v = false := by simp [isMicro]; omega
  unfold kind kindQR
  simp [this]

theorem kind_eq_kindMicro (v : Int) (hv : v < 1) (i j : Nat) : kind v i j = kindMicro i j := by
  have : isMicro v = true := by simp [isMicro]; omega
  unfold kind kindMicro
  simp [this]

set_option maxHeartbeats 4000000 in
/-- QR Codes, positions outside alignment patterns: for EVERY width n = 17 + 4v the Python chain takes
    the branch of the ISO region, except at (8, n−9) -/
theorem branch_qr (v : Int) (hv1 : 1 ≤ v) (hv2 : v ≤ 40) (n i j : Nat) (hn : (n : Int) = 17 + 4 * v)
    (hi : i < n) (hj : j < n) (hd8 : ¬ (i = 8 ∧ j + 9 = n)) :
    toKind (getBitBranch n n true false 2 i j) = kindQR v n i j false := by
  unfold getBitBranch kindQR
  simp only [apply_ite toKind, toKind]
  simp only [Bool.not_false, Bool.not_true, Bool.true_and, Bool.false_and, Bool.false_or, bne_self_eq_false,
    Bool.false_eq_true, if_false, Bool.and_eq_true, Bool.or_eq_true, decide_eq_true_eq, beq_iff_eq, bne_iff_ne, ne_eq,
    not_false_eq_true, if_true, or_false, false_or, and_false, false_and, true_and, and_true, or_true, true_or]
  have hic : i < 6 ∨ i = 6 ∨ i = 7 ∨ i = 8 ∨ (9 ≤ i ∧ i + 12 ≤ n) ∨ (i + 12 > n ∧ i + 9 ≤ n) ∨ i + 8 = n ∨ i + 7 ≥ n := by omega
  have hjc : j < 6 ∨ j = 6 ∨ j = 7 ∨ j = 8 ∨ (9 ≤ j ∧ j + 12 ≤ n) ∨ (j + 12 > n ∧ j + 9 ≤ n) ∨ j + 8 = n ∨ j + 7 ≥ n := by omega
  by_cases hv7 : v ≥ 7 <;>
  rcases hic with hic | hic | hic | hic | hic | hic | hic | hic <;>
  rcases hjc with hjc | hjc | hjc | hjc | hjc | hjc | hjc | hjc <;>
  simp (disch := omega) only [if_pos, if_neg]

/-- QR Codes, positions inside an alignment pattern -/
theorem branch_qr_alignment (n : Nat) (a : Nat) (ha : a ≠ 2) (i j : Int) :
    getBitBranch n n true false a i j = .alignment := by
  unfold getBitBranch
  simp [ha]

set_option maxHeartbeats 4000000 in
/-- Micro QR Codes: for every width the chain takes the branch of the ISO region -/
theorem branch_micro (n i j a : Nat) (hn1 : 11 ≤ n) (hn2 : n < 21) (hi : i < n) (hj : j < n) :
    toKind (getBitBranch n n true true a i j) = kindMicro i j := by
  unfold getBitBranch kindMicro
  simp only [apply_ite toKind, toKind]
  simp only [Bool.not_false, Bool.not_true, Bool.true_and, Bool.false_and, Bool.false_or, bne_self_eq_false,
    Bool.false_eq_true, if_false, Bool.and_eq_true, Bool.or_eq_true, decide_eq_true_eq, beq_iff_eq, bne_iff_ne, ne_eq,
    not_false_eq_true, if_true, or_false, false_or, and_false, false_and, true_and, and_true, or_true, true_or]
  have hic : i = 0 ∨ (1 ≤ i ∧ i < 7) ∨ i = 7 ∨ i = 8 ∨ 9 ≤ i := by omega
  have hjc : j = 0 ∨ (1 ≤ j ∧ j < 7) ∨ j = 7 ∨ j = 8 ∨ 9 ≤ j := by omega
  rcases hic with hic | hic | hic | hic | hic <;>
  rcases hjc with hjc | hjc | hjc | hjc | hjc <;>
  simp (disch := omega) only [if_pos, if_neg]

/-- D8: at (8, n−9) the chain answers `format` for every QR width, where ISO has a data module -/
theorem branch_qr_d8 (v : Int) (hv1 : 1 ≤ v) (hv2 : v ≤ 40) (n : Nat) (hn : (n : Int) = 17 + 4 * v) :
    getBitBranch n n true false 2 8 ((n - 9 : Nat) : Int) = .format ∧ kindQR v n 8 (n - 9) false = .data := by
  unfold getBitBranch kindQR
  simp only [Bool.not_false, Bool.not_true, Bool.true_and, Bool.false_and, Bool.false_or, bne_self_eq_false,
    Bool.false_eq_true, if_false, Bool.and_eq_true, Bool.or_eq_true, decide_eq_true_eq, beq_iff_eq, bne_iff_ne, ne_eq,
    not_false_eq_true, if_true, or_false, false_or, and_false, false_and, true_and, and_true, or_true, true_or]
  constructor <;> simp (disch := omega) only [if_pos, if_neg]

end Proofs.IterShape
