/-
  Proofs.Modes — helper lemmas for C07 (mode detection, requested modes) and a structural
  decomposition of `Model.makeSegment` that is reused by Proofs.Roundtrip (C01).
-/
import Spec.Sizing
import Model.Encoder

namespace Proofs.Modes
open Model

def kanjiVal (hi lo : Nat) : Nat :=
  let code := hi * 256 + lo
  let diff := if code ≤ 0x9ffc then code - 0x8140 else code - 0xc140
  (diff >>> 8) * 0xc0 + (diff &&& 0xff)

def hanziVal (hi lo : Nat) : Nat :=
  let code := hi * 256 + lo
  let diff := if code ≤ 0xaafe then code - 0xa1a1 else code - 0xa6a1
  (diff >>> 8) * 0x60 + (diff &&& 0xff)

def kanjiGroup (p : Nat × Nat) : R (List Nat) :=
  if Spec.isKanjiPair p.1 p.2 then .ok (appendBits (kanjiVal p.1 p.2) 13) else .error PyErr.valueError
def hanziGroup (p : Nat × Nat) : R (List Nat) :=
  if Spec.isHanziPair p.1 p.2 then .ok (appendBits (hanziVal p.1 p.2) 13) else .error PyErr.valueError

def segModeOf (data : List Nat) (mode : Option Nat) : R Nat :=
  let guessed := if mode != some 4 then findMode data else 4
  match mode with
  | some m => if m < guessed then .error PyErr.valueError else .ok m
  | none => .ok guessed

def numBits (data : List Nat) : List Nat :=
  ((chunks 3 data.length data).map (fun c => appendBits (digitsVal c) (c.length * 3 + 1))).flatten
def alnumBits (data : List Nat) : List Nat :=
  ((chunks 2 data.length data).map (fun c =>
      match c with
      | [a, b] => appendBits (alnumIndex a * 45 + alnumIndex b) 11
      | [a] => appendBits (alnumIndex a) 6
      | _ => [])).flatten
def byteBits (data : List Nat) : List Nat := (data.map (fun b => appendBits b 8)).flatten

def segBody (data : List Nat) (enc : String) (segMode : Nat) : R Segment :=
  let segEnc := if segMode != 4 then none else some enc
  let isDouble := segMode == 8 || segMode == 13
  let charCount := if isDouble then data.length / 2 else data.length
  if isDouble && data.length % 2 != 0 then .error PyErr.valueError
  else if segMode == 1 then .ok { bits := numBits data, charCount := charCount, mode := segMode, encoding := segEnc }
  else if segMode == 2 then .ok { bits := alnumBits data, charCount := charCount, mode := segMode, encoding := segEnc }
  else if segMode == 4 then .ok { bits := byteBits data, charCount := charCount, mode := segMode, encoding := segEnc }
  else if segMode == 13 then
    ((pairs data).mapM hanziGroup).bind fun groups =>
      .ok { bits := groups.flatten, charCount := charCount, mode := segMode, encoding := segEnc }
  else
    ((pairs data).mapM kanjiGroup).bind fun groups =>
      .ok { bits := groups.flatten, charCount := charCount, mode := segMode, encoding := segEnc }

theorem mapM_bind_eq {α β γ : Type} (F G : α → R β) (l : List α) (k k' : List β → R γ) (h : ∀ x, F x = G x)
    (hk : ∀ g, k g = k' g) : (l.mapM F >>= k) = (l.mapM G).bind k' := by
  have : F = G := funext h
  subst this
  have : k = k' := funext hk
  subst this
  rfl

theorem bind_eq {α β : Type} (x x' : R α) (f f' : α → R β) (hx : x = x') (hf : ∀ a, f a = f' a) :
    (x >>= f) = x'.bind f' := by
  have : f = f' := funext hf
  subst this; subst hx; rfl



set_option hygiene false in
local macro "body_tac" : tactic => `(tactic| (
    intro sm
    unfold segBody
    by_cases h1 : ((sm == 8 || sm == 13) && data.length % 2 != 0) = true
    · simp only [h1, if_true]; rfl
    · simp only [h1, ↓reduceIte, Bool.false_eq_true]
      by_cases h2 : (sm == 1) = true
      · simp only [h2, ↓reduceIte, Bool.false_eq_true]; rfl
      · by_cases h3 : (sm == 2) = true
        · simp only [h2, h3, ↓reduceIte, Bool.false_eq_true]; rfl
        · by_cases h4 : (sm == 4) = true
          · simp only [h2, h3, h4, ↓reduceIte, Bool.false_eq_true]; rfl
          · by_cases h5 : (sm == 13) = true
            · simp only [h2, h3, h4, h5, ↓reduceIte, Bool.false_eq_true]
              refine mapM_bind_eq _ hanziGroup _ _ _ ?_ (fun _ => rfl)
              intro ⟨hi, lo⟩
              unfold hanziGroup hanziVal Spec.isHanziPair
              simp only [bind, Except.bind, pure, Except.pure, throw, throwThe, MonadExceptOf.throw]
              by_cases h1 : 161 ≤ lo <;> by_cases h2 : lo ≤ 254 <;> by_cases h3 : 41377 ≤ hi * 256 + lo <;>
                by_cases h4 : hi * 256 + lo ≤ 43774 <;> by_cases h5 : 45217 ≤ hi * 256 + lo <;>
                by_cases h6 : hi * 256 + lo ≤ 64254 <;> simp [h1, h2, h3, h4, h5, h6] <;> omega
            · simp only [h2, h3, h4, h5, ↓reduceIte, Bool.false_eq_true]
              refine mapM_bind_eq _ kanjiGroup _ _ _ ?_ (fun _ => rfl)
              intro ⟨hi, lo⟩
              unfold kanjiGroup kanjiVal Spec.isKanjiPair isSjisTrail
              simp only [bind, Except.bind, pure, Except.pure, throw, throwThe, MonadExceptOf.throw]
              by_cases h1 : 64 ≤ lo <;> by_cases h2 : lo ≤ 252 <;> by_cases h3 : 33088 ≤ hi * 256 + lo <;>
                by_cases h4 : hi * 256 + lo ≤ 40956 <;> by_cases h5 : 57408 ≤ hi * 256 + lo <;>
                by_cases h6 : hi * 256 + lo ≤ 60351 <;> by_cases h7 : lo = 127 <;>
                simp [h1, h2, h3, h4, h5, h6, h7] <;> omega))

theorem makeSegment_eq (data : List Nat) (mode : Option Nat) (enc : String) :
    makeSegment data mode enc = (segModeOf data mode).bind (segBody data enc) := by
  unfold makeSegment
  simp only [Gen.MODE_BYTE, Gen.MODE_KANJI, Gen.MODE_HANZI, Gen.MODE_NUMERIC, Gen.MODE_ALPHANUMERIC]
  have key : ∀ (x : R Nat) (f : Nat → R Segment), (∀ a, f a = segBody data enc a) →
      (x >>= f) = x.bind (segBody data enc) := fun x f hf => bind_eq x x f _ rfl hf
  cases mode with
  | none =>
    unfold segModeOf
    refine key _ _ ?_
    body_tac
  | some m =>
    dsimp only
    by_cases hlt : m < (if (some m != some 4) = true then findMode data else 4)
    · refine (if_pos hlt).trans ?_
      have e1 : segModeOf data (some m) = .error PyErr.valueError := by
        unfold segModeOf; dsimp only; exact if_pos hlt
      rw [e1]; rfl
    · refine (if_neg hlt).trans ?_
      have e1 : segModeOf data (some m) = .ok m := by
        unfold segModeOf; dsimp only; exact if_neg hlt
      rw [e1]
      refine key _ _ ?_
      body_tac


/-! ### `List.mapM` over `Except` with a guarded function -/

theorem mapM_guard {α β : Type} (p : α → Bool) (g : α → β) (e : PyErr) (l : List α) :
    l.mapM (fun x => if p x then (.ok (g x) : R β) else .error e)
      = if l.all p then .ok (l.map g) else .error e := by
  induction l with
  | nil => rfl
  | cons x xs ih =>
    rw [List.mapM_cons, ih]
    by_cases hx : p x = true
    · by_cases hxs : xs.all p = true
      · simp [hx, hxs, bind, Except.bind, pure, Except.pure]
      · simp [hx, hxs, bind, Except.bind]
    · simp [hx, bind, Except.bind]

/-! ### mode predicates: model = specification -/

theorem alnum_table : Gen.ALPHANUMERIC_CHARS = Spec.alnumChars.map Char.toNat := by decide

theorem isDigitByte_eq (b : Nat) : isDigitByte b = Spec.isDigit b := rfl

theorem isAlnumByte_eq (b : Nat) : isAlnumByte b = Spec.isAlnum b := by
  unfold isAlnumByte Spec.isAlnum
  rw [alnum_table, List.contains_eq_any_beq, List.any_map]
  congr 1
  funext c
  simp only [Function.comp]
  exact Bool.beq_comm ..

theorem isDigit_isAlnum (b : Nat) (h : Spec.isDigit b = true) : Spec.isAlnum b = true := by
  rw [← isAlnumByte_eq]
  unfold isAlnumByte Gen.ALPHANUMERIC_CHARS
  simp only [Spec.isDigit, Bool.and_eq_true, decide_eq_true_eq] at h
  have : b = 48 ∨ b = 49 ∨ b = 50 ∨ b = 51 ∨ b = 52 ∨ b = 53 ∨ b = 54 ∨ b = 55 ∨ b = 56 ∨ b = 57 := by omega
  rcases this with h | h | h | h | h | h | h | h | h | h <;> subst h <;> decide

theorem length_ne_zero (data : List Nat) : (data.length != 0) = !data.isEmpty := by
  cases data <;> rfl

theorem allPairs_eq (p : Nat → Nat → Bool) : ∀ data : List Nat,
    Spec.allPairs p data = (data.length % 2 == 0 && (pairs data).all (fun x => p x.1 x.2))
  | [] => rfl
  | [_] => rfl
  | a :: b :: rest => by
    have ih := allPairs_eq p rest
    have hl : (a :: b :: rest).length % 2 = rest.length % 2 := by simp only [List.length_cons]; omega
    rw [Spec.allPairs, pairs, List.all_cons, ih, hl]
    cases p a b <;> cases (rest.length % 2 == 0) <;> rfl

theorem isKanji_eq (data : List Nat) :
    isKanji data = (!data.isEmpty && Spec.allPairs Spec.isKanjiPair data) := by
  unfold isKanji
  rw [length_ne_zero, allPairs_eq, Bool.and_assoc]
  congr 2
  apply List.all_congr rfl  
  intro ⟨hi, lo⟩
  simp only [Spec.isKanjiPair, isSjisTrail, Bool.and_assoc]


theorem representable_1 (data : List Nat) : Spec.representable 1 data = (!data.isEmpty && data.all Spec.isDigit) := rfl
theorem representable_2 (data : List Nat) : Spec.representable 2 data = (!data.isEmpty && data.all Spec.isAlnum) := rfl
theorem representable_4 (data : List Nat) : Spec.representable 4 data = true := rfl
theorem representable_8 (data : List Nat) :
    Spec.representable 8 data = Spec.allPairs Spec.isKanjiPair data := rfl
theorem representable_13 (data : List Nat) :
    Spec.representable 13 data = Spec.allPairs Spec.isHanziPair data := rfl

theorem findMode_eq_autoMode (data : List Nat) : findMode data = Spec.autoMode data := by
  unfold findMode Spec.autoMode
  rw [representable_1, representable_2, representable_8, isKanji_eq, length_ne_zero]
  have e1 : data.all isDigitByte = data.all Spec.isDigit := rfl
  have e2 : data.all isAlnumByte = data.all Spec.isAlnum := by
    congr 1; funext b; exact isAlnumByte_eq b
  rw [e1, e2]
  rfl

/-- the four outcomes of automatic mode detection -/
theorem autoMode_cases (data : List Nat) :
    (Spec.autoMode data = 1 ∧ Spec.representable 1 data = true) ∨
    (Spec.autoMode data = 2 ∧ Spec.representable 1 data = false ∧ Spec.representable 2 data = true) ∨
    (Spec.autoMode data = 8 ∧ Spec.representable 1 data = false ∧ Spec.representable 2 data = false
        ∧ Spec.representable 8 data = true) ∨
    (Spec.autoMode data = 4 ∧ Spec.representable 1 data = false ∧ Spec.representable 2 data = false
        ∧ (!data.isEmpty && Spec.representable 8 data) = false) := by
  unfold Spec.autoMode
  cases h1 : Spec.representable 1 data <;> cases h2 : Spec.representable 2 data <;>
    cases h8 : Spec.representable 8 data <;> cases he : data.isEmpty <;> simp

theorem representable_1_2 (data : List Nat) (h : Spec.representable 1 data = true) :
    Spec.representable 2 data = true := by
  rw [representable_1] at h
  rw [representable_2]
  simp only [Bool.and_eq_true, List.all_eq_true] at h ⊢
  exact ⟨h.1, fun b hb => isDigit_isAlnum b (h.2 b hb)⟩


/-! ### the body of `make_segment` per mode -/

def kanjiBits (data : List Nat) : List Nat :=
  ((pairs data).map (fun p => appendBits (kanjiVal p.1 p.2) 13)).flatten
def hanziBits (data : List Nat) : List Nat :=
  ((pairs data).map (fun p => appendBits (hanziVal p.1 p.2) 13)).flatten

theorem segBody_1 (data : List Nat) (enc : String) :
    segBody data enc 1 = .ok ⟨numBits data, data.length, 1, none⟩ := rfl
theorem segBody_2 (data : List Nat) (enc : String) :
    segBody data enc 2 = .ok ⟨alnumBits data, data.length, 2, none⟩ := rfl
theorem segBody_4 (data : List Nat) (enc : String) :
    segBody data enc 4 = .ok ⟨byteBits data, data.length, 4, some enc⟩ := rfl

theorem mapM_kanjiGroup (l : List (Nat × Nat)) :
    l.mapM kanjiGroup = if l.all (fun p => Spec.isKanjiPair p.1 p.2)
      then .ok (l.map (fun p => appendBits (kanjiVal p.1 p.2) 13)) else .error PyErr.valueError :=
  mapM_guard (fun p : Nat × Nat => Spec.isKanjiPair p.1 p.2) (fun p => appendBits (kanjiVal p.1 p.2) 13)
    PyErr.valueError l

theorem mapM_hanziGroup (l : List (Nat × Nat)) :
    l.mapM hanziGroup = if l.all (fun p => Spec.isHanziPair p.1 p.2)
      then .ok (l.map (fun p => appendBits (hanziVal p.1 p.2) 13)) else .error PyErr.valueError :=
  mapM_guard (fun p : Nat × Nat => Spec.isHanziPair p.1 p.2) (fun p => appendBits (hanziVal p.1 p.2) 13)
    PyErr.valueError l

theorem segBody_8 (data : List Nat) (enc : String) :
    segBody data enc 8 = if Spec.allPairs Spec.isKanjiPair data
      then .ok ⟨kanjiBits data, data.length / 2, 8, none⟩ else .error PyErr.valueError := by
  rw [allPairs_eq]
  unfold segBody kanjiBits
  rw [mapM_kanjiGroup]
  by_cases h1 : data.length % 2 = 0
  · by_cases h2 : (pairs data).all (fun p => Spec.isKanjiPair p.1 p.2) = true
    · simp [h1, h2, Except.bind]
    · simp [h1, h2, Except.bind]
  · simp [h1]

theorem segBody_13 (data : List Nat) (enc : String) :
    segBody data enc 13 = if Spec.allPairs Spec.isHanziPair data
      then .ok ⟨hanziBits data, data.length / 2, 13, none⟩ else .error PyErr.valueError := by
  rw [allPairs_eq]
  unfold segBody hanziBits
  rw [mapM_hanziGroup]
  by_cases h1 : data.length % 2 = 0
  · by_cases h2 : (pairs data).all (fun p => Spec.isHanziPair p.1 p.2) = true
    · simp [h1, h2, Except.bind]
    · simp [h1, h2, Except.bind]
  · simp [h1]


/-! ### the mode check of `make_segment` -/

theorem segModeOf_none (data : List Nat) : segModeOf data none = .ok (Spec.autoMode data) := by
  unfold segModeOf
  rw [← findMode_eq_autoMode]; rfl

theorem segModeOf_4 (data : List Nat) : segModeOf data (some 4) = .ok 4 := rfl

theorem segModeOf_some (data : List Nat) (m : Nat) (hm : m ≠ 4) :
    segModeOf data (some m) = if m < Spec.autoMode data then .error PyErr.valueError else .ok m := by
  unfold segModeOf
  rw [← findMode_eq_autoMode]
  have : (some m != some 4) = true := by simp [hm]
  simp only [this, if_true]

theorem makeSegment_none (data : List Nat) (enc : String) :
    makeSegment data none enc = segBody data enc (Spec.autoMode data) := by
  rw [makeSegment_eq, segModeOf_none]; rfl

theorem makeSegment_4 (data : List Nat) (enc : String) :
    makeSegment data (some 4) enc = segBody data enc 4 := by
  rw [makeSegment_eq, segModeOf_4]; rfl

theorem makeSegment_some (data : List Nat) (m : Nat) (enc : String) (hm : m ≠ 4) :
    makeSegment data (some m) enc =
      if m < Spec.autoMode data then .error PyErr.valueError else segBody data enc m := by
  rw [makeSegment_eq, segModeOf_some data m hm]
  split <;> rfl

theorem autoMode_le_8 (data : List Nat) : Spec.autoMode data ≤ 8 := by
  rcases autoMode_cases data with h | h | h | h <;> omega

/-! ### C07 -/

theorem makeSegment_auto (data : List Nat) (enc : String) :
    ∃ s, makeSegment data none enc = .ok s ∧ s.mode = Spec.autoMode data := by
  rw [makeSegment_none]
  rcases autoMode_cases data with ⟨h, _⟩ | ⟨h, _⟩ | ⟨h, _, _, h8⟩ | ⟨h, _⟩ <;> rw [h]
  · exact ⟨_, segBody_1 data enc, rfl⟩
  · exact ⟨_, segBody_2 data enc, rfl⟩
  · rw [representable_8] at h8
    rw [segBody_8, if_pos h8]
    exact ⟨_, rfl, rfl⟩
  · exact ⟨_, segBody_4 data enc, rfl⟩

theorem auto_never_hanzi (data : List Nat) : findMode data ≠ 13 := by
  rw [findMode_eq_autoMode]
  have := autoMode_le_8 data
  omega

/-- requested mode: honoured exactly when the content is representable, refused otherwise -/
theorem makeSegment_requested (data : List Nat) (m : Nat) (enc : String) (hm : m ∈ [1, 2, 4, 8, 13]) :
    (Spec.representable m data = true → ∃ s, makeSegment data (some m) enc = .ok s ∧ s.mode = m)
    ∧ (Spec.representable m data = false → makeSegment data (some m) enc = .error PyErr.valueError) := by
  simp only [List.mem_cons, List.mem_nil_iff, or_false] at hm
  rcases hm with rfl | rfl | rfl | rfl | rfl
  · -- numeric
    rw [makeSegment_some data 1 enc (by decide)]
    constructor
    · intro h
      rcases autoMode_cases data with ⟨ha, _⟩ | ⟨_, h1, _⟩ | ⟨_, h1, _⟩ | ⟨_, h1, _⟩
      · rw [ha, if_neg (by decide)]; exact ⟨_, segBody_1 data enc, rfl⟩
      all_goals (rw [h] at h1; cases h1)
    · intro h
      rcases autoMode_cases data with ⟨_, h1⟩ | ⟨ha, _⟩ | ⟨ha, _⟩ | ⟨ha, _⟩
      · rw [h] at h1; cases h1
      all_goals (rw [ha, if_pos (by decide)])
  · -- alphanumeric
    rw [makeSegment_some data 2 enc (by decide)]
    constructor
    · intro h
      rcases autoMode_cases data with ⟨ha, _⟩ | ⟨ha, _⟩ | ⟨_, _, h2, _⟩ | ⟨_, _, h2, _⟩
      · rw [ha, if_neg (by decide)]; exact ⟨_, segBody_2 data enc, rfl⟩
      · rw [ha, if_neg (by decide)]; exact ⟨_, segBody_2 data enc, rfl⟩
      all_goals (rw [h] at h2; cases h2)
    · intro h
      rcases autoMode_cases data with ⟨_, h1⟩ | ⟨_, _, h2⟩ | ⟨ha, _⟩ | ⟨ha, _⟩
      · rw [representable_1_2 data h1] at h; cases h
      · rw [h] at h2; cases h2
      all_goals (rw [ha, if_pos (by decide)])
  · -- byte
    rw [makeSegment_4]
    exact ⟨fun _ => ⟨_, segBody_4 data enc, rfl⟩, fun h => by cases h⟩
  · -- kanji
    rw [makeSegment_some data 8 enc (by decide), if_neg (by have := autoMode_le_8 data; omega), segBody_8,
      representable_8]
    constructor
    · intro h; rw [if_pos (by simpa using h)]; exact ⟨_, rfl, rfl⟩
    · intro h; rw [if_neg (by simpa using h)]
  · -- hanzi
    rw [makeSegment_some data 13 enc (by decide), if_neg (by have := autoMode_le_8 data; omega), segBody_13,
      representable_13]
    constructor
    · intro h; rw [if_pos (by simpa using h)]; exact ⟨_, rfl, rfl⟩
    · intro h; rw [if_neg (by simpa using h)]

/-- empty content is accepted as an empty kanji / hanzi segment (vacuously representable) -/
theorem makeSegment_empty_double (enc : String) :
    makeSegment [] (some 8) enc = .ok ⟨[], 0, 8, none⟩ ∧ makeSegment [] (some 13) enc = .ok ⟨[], 0, 13, none⟩
    ∧ Spec.representable 8 [] = true ∧ Spec.representable 13 [] = true := by
  refine ⟨?_, ?_, rfl, rfl⟩
  · rw [makeSegment_some [] 8 enc (by decide)]; rfl
  · rw [makeSegment_some [] 13 enc (by decide)]; rfl


/-! ### successful results -/

theorem segBody_ok (data : List Nat) (enc : String) (sm : Nat) (s : Segment)
    (h : segBody data enc sm = .ok s) : s.mode = sm ∧ s.charCount = Spec.charCount sm data.length := by
  unfold segBody at h
  unfold Spec.charCount
  dsimp only at h
  split at h
  · cases h
  split at h
  · cases h; exact ⟨rfl, rfl⟩
  split at h
  · cases h; exact ⟨rfl, rfl⟩
  split at h
  · cases h; exact ⟨rfl, rfl⟩
  split at h
  · cases hg : (pairs data).mapM hanziGroup with
    | error e => rw [hg] at h; cases h
    | ok g => rw [hg] at h; cases h; exact ⟨rfl, rfl⟩
  · cases hg : (pairs data).mapM kanjiGroup with
    | error e => rw [hg] at h; cases h
    | ok g => rw [hg] at h; cases h; exact ⟨rfl, rfl⟩

theorem makeSegment_ok_body (data : List Nat) (mode : Option Nat) (enc : String) (s : Segment)
    (h : makeSegment data mode enc = .ok s) : ∃ sm, segModeOf data mode = .ok sm ∧ segBody data enc sm = .ok s := by
  rw [makeSegment_eq] at h
  cases hs : segModeOf data mode with
  | error e => rw [hs] at h; cases h
  | ok sm => rw [hs] at h; exact ⟨sm, rfl, h⟩

theorem makeSegment_charCount (data : List Nat) (mode : Option Nat) (enc : String) (s : Segment)
    (h : makeSegment data mode enc = .ok s) : s.charCount = Spec.charCount s.mode data.length := by
  obtain ⟨sm, _, hb⟩ := makeSegment_ok_body data mode enc s h
  obtain ⟨h1, h2⟩ := segBody_ok data enc sm s hb
  rw [h1, h2]

/-- the five shapes of an accepted segment, with the content validated for the mode -/
def SegShape (data : List Nat) (s : Segment) : Prop :=
    (s.mode = 1 ∧ s.charCount = data.length ∧ s.bits = numBits data ∧ data.all Spec.isDigit = true) ∨
    (s.mode = 2 ∧ s.charCount = data.length ∧ s.bits = alnumBits data ∧ data.all Spec.isAlnum = true) ∨
    (s.mode = 4 ∧ s.charCount = data.length ∧ s.bits = byteBits data) ∨
    (s.mode = 8 ∧ s.charCount = data.length / 2 ∧ s.bits = kanjiBits data
        ∧ Spec.allPairs Spec.isKanjiPair data = true) ∨
    (s.mode = 13 ∧ s.charCount = data.length / 2 ∧ s.bits = hanziBits data
        ∧ Spec.allPairs Spec.isHanziPair data = true)

/-- every accepted segment (automatic or one of the five requestable modes) has one of five shapes -/
theorem makeSegment_ok_cases (data : List Nat) (mode : Option Nat) (enc : String) (s : Segment)
    (hm : mode ∈ [none, some 1, some 2, some 4, some 8, some 13])
    (h : makeSegment data mode enc = .ok s) : SegShape data s := by
  have c1 : Spec.representable 1 data = true → segBody data enc 1 = .ok s → SegShape data s := fun hr hb => by
    rw [segBody_1] at hb; cases hb; unfold SegShape
    rw [representable_1, Bool.and_eq_true] at hr
    exact Or.inl ⟨rfl, rfl, rfl, hr.2⟩
  have c2 : Spec.representable 2 data = true → segBody data enc 2 = .ok s → SegShape data s := fun hr hb => by
    rw [segBody_2] at hb; cases hb; unfold SegShape
    rw [representable_2, Bool.and_eq_true] at hr
    exact Or.inr (Or.inl ⟨rfl, rfl, rfl, hr.2⟩)
  have c4 : segBody data enc 4 = .ok s → SegShape data s := fun hb => by
    rw [segBody_4] at hb; cases hb; unfold SegShape
    exact Or.inr (Or.inr (Or.inl ⟨rfl, rfl, rfl⟩))
  have c8 : segBody data enc 8 = .ok s → SegShape data s := fun hb => by
    rw [segBody_8] at hb
    split at hb
    · next hp => cases hb; unfold SegShape; exact Or.inr (Or.inr (Or.inr (Or.inl ⟨rfl, rfl, rfl, hp⟩)))
    · cases hb
  have c13 : segBody data enc 13 = .ok s → SegShape data s := fun hb => by
    rw [segBody_13] at hb
    split at hb
    · next hp => cases hb; unfold SegShape; exact Or.inr (Or.inr (Or.inr (Or.inr ⟨rfl, rfl, rfl, hp⟩)))
    · cases hb
  simp only [List.mem_cons, List.mem_nil_iff, or_false] at hm
  rcases hm with rfl | rfl | rfl | rfl | rfl | rfl
  · rw [makeSegment_none] at h
    rcases autoMode_cases data with ⟨ha, h1⟩ | ⟨ha, _, h2⟩ | ⟨ha, _⟩ | ⟨ha, _⟩ <;> rw [ha] at h
    · exact c1 h1 h
    · exact c2 h2 h
    · exact c8 h
    · exact c4 h
  · rw [makeSegment_some data 1 enc (by decide)] at h
    split at h
    · cases h
    · next hlt =>
      rcases autoMode_cases data with ⟨ha, h1⟩ | ⟨ha, _⟩ | ⟨ha, _⟩ | ⟨ha, _⟩
      · exact c1 h1 h
      all_goals omega
  · rw [makeSegment_some data 2 enc (by decide)] at h
    split at h
    · cases h
    · next hlt =>
      rcases autoMode_cases data with ⟨ha, h1⟩ | ⟨ha, _, h2⟩ | ⟨ha, _⟩ | ⟨ha, _⟩
      · exact c2 (representable_1_2 data h1) h
      · exact c2 h2 h
      all_goals omega
  · rw [makeSegment_4] at h; exact c4 h
  · rw [makeSegment_some data 8 enc (by decide)] at h
    split at h
    · cases h
    · exact c8 h
  · rw [makeSegment_some data 13 enc (by decide)] at h
    split at h
    · cases h
    · exact c13 h

end Proofs.Modes
