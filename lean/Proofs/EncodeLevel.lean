/-
  Proofs.EncodeLevel — helper lemmas for Props/EncodeLevel.lean, part 1: version (C04), level (C05),
  requested mask (C06) and modes (C07) of the symbol `Model.encode` returns, by composing the
  inversion of `encode` with the per-stage results.  (Part 2: Proofs/EncodeLevelMask.lean, automatic mask.)
-/
import Spec.Sizing
import Spec.Penalty
import Model.Encoder
import Props.C04
import Props.C05
import Props.C06
import Props.C07
import Props.EndToEnd
import Proofs.ArgsLemmas
import Proofs.EncodeStages
import Proofs.EncodeCoreTotal

namespace Proofs.EncodeLevel
open Model Props.C04
set_option linter.unusedVariables false
set_option linter.unusedSimpArgs false

/-! ### small facts -/

/-- `Spec.admissible` already excludes Micro versions under ECI, so mapping micro = None to False changes nothing -/
theorem expectedVersion_micro (micro : Option Bool) (eci : Bool) (error : Option Nat) (segs : List Spec.SegInfo)
    (sa : Bool) (h : eci = true → micro ≠ some true) :
    Spec.expectedVersion (if eci && micro.isNone then some false else micro) eci error segs sa
      = Spec.expectedVersion micro eci error segs sa := by
  cases eci with
  | false => rfl
  | true =>
    rcases micro with _ | _ | _
    · unfold Spec.expectedVersion
      apply Proofs.Sizing.find?_congr'
      intro v _
      have : Spec.admissible (if (true && (none : Option Bool).isNone) = true then some false else none) true error v
          = Spec.admissible none true error v := by
        unfold Spec.admissible
        by_cases hv : v < 1
        · simp [hv]
        · simp [hv]; decide
      rw [this]
    · rfl
    · exact absurd rfl (h rfl)

theorem addSegment_ne_nil (segs : List Segment) (s : Segment) : addSegment segs s ≠ [] := by
  unfold addSegment
  split
  · simp
  · dsimp only
    generalize (if s.mode == Gen.MODE_NUMERIC then 3 else if s.mode == Gen.MODE_ALPHANUMERIC then 2 else 1) = g
    split <;> simp

theorem foldlM_ne_nil (parts : List Part) : ∀ (acc segs : List Segment), (parts ≠ [] ∨ acc ≠ []) →
    parts.foldlM (fun segs p => do
      let s ← makeSegment p.data p.mode p.encoding
      pure (addSegment segs s)) acc = .ok segs → segs ≠ [] := by
  induction parts with
  | nil =>
    intro acc segs h hr
    simp only [List.foldlM_nil, pure, Except.pure, Except.ok.injEq] at hr
    subst hr
    rcases h with h | h
    · exact absurd rfl h
    · exact h
  | cons p ps ih =>
    intro acc segs _ hr
    rw [List.foldlM_cons] at hr
    cases hs : makeSegment p.data p.mode p.encoding with
    | error e => rw [hs] at hr; simp [bind, Except.bind] at hr
    | ok s =>
      rw [hs] at hr
      simp only [bind, Except.bind, pure, Except.pure] at hr
      exact ih (addSegment acc s) segs (Or.inr (addSegment_ne_nil acc s)) hr

theorem prepareData_ne_nil (parts : List Part) (segs : List Segment) (hne : parts ≠ [])
    (h : prepareData parts = .ok segs) : segs ≠ [] :=
  foldlM_ne_nil parts [] segs (Or.inl hne) h

theorem prepareData_wf (parts : List Part) (segs : List Segment) (hp : Props.EndToEnd.PartsOk parts)
    (h : prepareData parts = .ok segs) : ∀ x ∈ segs, WF x :=
  Props.C04.prepareData_wf parts segs (fun p hp' => (hp.2 p hp').2.2) h

/-! ### C04 -/

theorem encode_version_is_first_fit (parts : List Part) (error : Option Nat) (mode mask : Option Nat)
    (eci : Bool) (micro : Option Bool) (boost : Bool) (f : String → Option Nat) (c : Code)
    (hp : Props.EndToEnd.PartsOk parts)
    (h : encode parts error none mode mask eci micro boost f = .ok c) :
    Spec.expectedVersion micro eci error (c.segments.map (info eci)) false = some c.version := by
  obtain ⟨segs, g, v, hprep, hfind, hv, -, hcore⟩ := Proofs.Sizing.encode_inv _ _ _ _ _ _ _ _ _ _ h
  obtain ⟨hver, hsegs, -, -⟩ := Proofs.Sizing.encodeCore_inv _ _ _ _ _ _ _ _ _ hcore
  have hmic := fun he => (Proofs.EndToEnd.encode_eci_check _ _ _ _ _ _ _ _ _ _ h he).1
  have hE : eci = true → (if (eci && micro.isNone) = true then some false else micro) = some false := by
    intro he
    subst he
    rcases micro with _ | _ | _
    · rfl
    · rfl
    · exact absurd rfl (hmic rfl)
  have hff := Proofs.Sizing.findVersion_is_first_fit segs error eci _ false
    (prepareData_wf parts segs hp hprep) (prepareData_ne_nil parts segs hp.1 hprep) hE
  rw [hfind, expectedVersion_micro micro eci error _ false hmic] at hff
  rw [hsegs, hver]
  rcases hv with ⟨-, rfl⟩ | ⟨h0, -⟩
  · change Spec.expectedVersion micro eci error (segs.map (info eci)) false = some v
    cases hx : Spec.expectedVersion micro eci error (List.map (Proofs.Sizing.info eci) segs) false with
    | none => rw [hx] at hff; cases hff
    | some w =>
      rw [hx] at hff
      simp only [Except.ok.injEq] at hff
      change Spec.expectedVersion micro eci error (List.map (Proofs.Sizing.info eci) segs) false = some v
      rw [hx, hff]
  · cases h0

theorem encode_overflow (parts : List Part) (error : Option Nat) (mode mask : Option Nat)
    (eci : Bool) (micro : Option Bool) (boost : Bool) (f : String → Option Nat) (segs : List Segment)
    (hp : Props.EndToEnd.PartsOk parts) (hs : prepareData parts = .ok segs)
    (h : encode parts error none mode mask eci micro boost f = .error PyErr.dataOverflow) :
    Spec.expectedVersion (if eci && micro.isNone then some false else micro) eci error (segs.map (info eci)) false = none := by
  rw [Proofs.ArgsLemmas.encode_eq] at h
  rcases Proofs.ArgsLemmas.bind_err h with h | ⟨u, hcombo, h⟩
  · cases Proofs.ArgsLemmas.comboChecks_err _ _ _ _ _ _ h
  -- the combination checks passed: no ECI with micro = True
  have hmic : eci = true → micro ≠ some true := by
    intro he hm
    subst he
    rw [Proofs.EncodeStages.combo_eci hm] at hcombo
    cases hcombo
  have hE : eci = true → (if (eci && micro.isNone) = true then some false else micro) = some false := by
    intro he
    subst he
    rcases micro with _ | _ | _
    · rfl
    · rfl
    · exact absurd rfl (hmic rfl)
  have hff := Proofs.Sizing.findVersion_is_first_fit segs error eci _ false
    (prepareData_wf parts segs hp hs) (prepareData_ne_nil parts segs hp.1 hs) hE
  unfold Proofs.ArgsLemmas.encTail at h
  rw [hs] at h
  rcases Proofs.ArgsLemmas.bind_err h with h | ⟨segs', hs', h⟩
  · cases h
  cases hs'
  rcases Proofs.ArgsLemmas.bind_err h with h | ⟨g, hg, h⟩
  · rw [h] at hff
    change Spec.expectedVersion _ eci error (List.map (Proofs.Sizing.info eci) segs) false = none
    cases hx : Spec.expectedVersion (if (eci && micro.isNone) = true then some false else micro) eci error
        (List.map (Proofs.Sizing.info eci) segs) false with
    | none => rfl
    | some w => rw [hx] at hff; cases hff
  · exfalso
    have hfit := Proofs.EncodeStages.findVersion_fits _ _ _ _ _ hg
    rcases Proofs.ArgsLemmas.bind_err h with h | ⟨v, hv, h⟩
    · cases h
    have : v = g := by
      simp only [Proofs.ArgsLemmas.pickVersion, pure, Except.pure, Except.ok.injEq] at hv
      exact hv.symm
    subst this
    rcases Proofs.ArgsLemmas.bind_err h with h | ⟨u1, -, h⟩
    · simp [Proofs.ArgsLemmas.ownCapacityCheck, pure, Except.pure] at h
    rcases Proofs.ArgsLemmas.bind_err h with h | ⟨u2, hmask, h⟩
    · cases Proofs.EncodeStages.maskRangeCheck_err _ _ _ h
    have := Proofs.EncodeCoreTotal.encodeCore_err segs error v mask eci boost f _ hfit
      (Proofs.EncodeStages.maskRangeCheck_ok _ _ _ hmask) h
    cases this

/-! ### C05 -/

theorem capacity_m1_level : ([0, 1, 2, 3] : List Nat).all (fun e => (capacity (-3) (some e)).isNone) = true := by
  decide +kernel

theorem sizingLevel_default (error : Option Nat) (v : Int) (hm1 : v = -3 → error = none) :
    lvlKey (if error.isNone && v != Gen.VERSION_M1 then some Gen.ERROR_LEVEL_L else error) = Spec.sizingLevel error v := by
  unfold Spec.sizingLevel
  cases error with
  | none =>
    by_cases hv : v = -3
    · subst hv; rfl
    · have : (v == -3) = false := by simpa using hv
      have h2 : (v != Gen.VERSION_M1) = true := by simpa [Gen.VERSION_M1] using hv
      simp [this, h2, lvlKey, Gen.ERROR_LEVEL_L]
  | some l =>
    have hv : v ≠ -3 := fun hv => by cases hm1 hv
    have : (v == -3) = false := by simpa using hv
    simp [this, lvlKey]

theorem expectedLevel_congr (v : Int) (r1 r2 : Option Nat) (boost : Bool) (l : List Spec.SegInfo) (sa : Bool)
    (h : Spec.sizingLevel r1 v = Spec.sizingLevel r2 v) :
    Spec.expectedLevel v r1 boost l sa = Spec.expectedLevel v r2 boost l sa := by
  unfold Spec.expectedLevel
  rw [h]

theorem expectedLevel_id (v : Int) (r : Option Nat) (boost : Bool) (l : List Spec.SegInfo) (sa : Bool)
    (h : (!boost || l.length != 1 || Spec.sizingLevel r v == -1) = true) :
    Spec.expectedLevel v r boost l sa = Spec.sizingLevel r v := by
  unfold Spec.expectedLevel
  dsimp only
  rw [if_pos h]

theorem expectedLevel_nonneg (v : Int) (r : Option Nat) (boost : Bool) (l : List Spec.SegInfo) (sa : Bool)
    (h : 0 ≤ Spec.sizingLevel r v) : 0 ≤ Spec.expectedLevel v r boost l sa := by
  unfold Spec.expectedLevel
  dsimp only
  split
  · exact h
  · cases hx : (List.filter (fun l_1 => decide (Spec.levelRank l_1 ≥ Spec.levelRank (Spec.sizingLevel r v)) && Spec.fits v l_1 l sa)
        Spec.levelsAscending).getLast? with
    | none => exact h
    | some x =>
      have hm := List.mem_of_getLast? hx
      have hm' := (List.mem_filter.1 hm).1
      simp only [Spec.levelsAscending, List.mem_cons, List.not_mem_nil, or_false] at hm'
      simp only [Option.getD_some]
      omega

theorem expectedLevel_H (v : Int) (r : Option Nat) (boost : Bool) (l : List Spec.SegInfo) (sa : Bool)
    (h : Spec.sizingLevel r v = 2) : Spec.expectedLevel v r boost l sa = 2 := by
  unfold Spec.expectedLevel
  rw [h]
  dsimp only
  split
  · rfl
  · cases hf : Spec.fits v 2 l sa <;>
      simp [Spec.levelsAscending, Spec.levelRank, List.filter, hf]

theorem fits_of_model (v : Int) (e : Nat) (s : Segment) (eci : Bool) (cap bl : Nat) (hwf : WF s)
    (h1 : -3 ≤ v) (h2 : v ≤ 40)
    (hcap : capacity v (some e) = some cap) (hbl : bitLengthWithOverhead [s] v eci false = some bl) (hle : bl ≤ cap) :
    Spec.fits v (e : Int) [info eci s] false = true := by
  rw [Proofs.Sizing.capacity_eq] at hcap
  rw [Props.C04.bitLength_eq_needed [s] v eci false (fun x hx => by
    rw [List.mem_singleton.1 hx]; exact hwf) h1 h2] at hbl
  unfold Spec.fits
  have e1 : lvlKey (some e) = (e : Int) := rfl
  rw [e1] at hcap
  simp only [List.map_cons, List.map_nil] at hbl
  rw [hcap, hbl]
  simpa using hle

theorem encode_level_is_expected (parts : List Part) (error : Option Nat) (version : Option Int)
    (mode mask : Option Nat) (eci : Bool) (micro : Option Bool) (boost : Bool) (f : String → Option Nat) (c : Code)
    (hp : Props.EndToEnd.PartsOk parts) (herr : error ∈ [none, some 0, some 1, some 2, some 3])
    (h : encode parts error version mode mask eci micro boost f = .ok c) :
    lvlKey c.error = Spec.expectedLevel c.version error boost (c.segments.map (info eci)) false := by
  obtain ⟨segs, g, v, hprep, hfind, hv, hfit, hcore⟩ := Proofs.Sizing.encode_inv _ _ _ _ _ _ _ _ _ _ h
  obtain ⟨hver, hsegs, herr', -⟩ := Proofs.Sizing.encodeCore_inv _ _ _ _ _ _ _ _ _ hcore
  rw [hver, hsegs]
  have hwf := prepareData_wf parts segs hp hprep
  -- the content fits at the sizing level
  obtain ⟨cap, bl, hcap, hbl, hle⟩ : ∃ cap bl,
      capacity v (if error.isNone && v != Gen.VERSION_M1 then some Gen.ERROR_LEVEL_L else error) = some cap ∧
      bitLengthWithOverhead segs v eci false = some bl ∧ bl ≤ cap := by
    by_cases hvg : v = g
    · subst hvg; exact Proofs.Sizing.pM_true _ _ _ _ _ (Proofs.Sizing.findVersion_ok _ _ _ _ _ _ hfind)
    · exact hfit hvg
  obtain ⟨h1, h2, -, -⟩ := Proofs.Stream.cap_facts _ hcap
  -- M1 has no level
  have hm1 : v = -3 → error = none := by
    intro hv3
    subst hv3
    have hall := List.all_eq_true.1 capacity_m1_level
    simp only [List.mem_cons, List.not_mem_nil, or_false] at herr
    rcases herr with rfl | rfl | rfl | rfl | rfl
    · rfl
    · have := hall 0 (by simp); rw [show (if ((some 0 : Option Nat).isNone && ((-3 : Int) != Gen.VERSION_M1)) = true
        then some Gen.ERROR_LEVEL_L else some 0) = some 0 from rfl] at hcap; rw [hcap] at this; cases this
    · have := hall 1 (by simp); rw [show (if ((some 1 : Option Nat).isNone && ((-3 : Int) != Gen.VERSION_M1)) = true
        then some Gen.ERROR_LEVEL_L else some 1) = some 1 from rfl] at hcap; rw [hcap] at this; cases this
    · have := hall 2 (by simp); rw [show (if ((some 2 : Option Nat).isNone && ((-3 : Int) != Gen.VERSION_M1)) = true
        then some Gen.ERROR_LEVEL_L else some 2) = some 2 from rfl] at hcap; rw [hcap] at this; cases this
    · have := hall 3 (by simp); rw [show (if ((some 3 : Option Nat).isNone && ((-3 : Int) != Gen.VERSION_M1)) = true
        then some Gen.ERROR_LEVEL_L else some 3) = some 3 from rfl] at hcap; rw [hcap] at this; cases this
  have hbase := sizingLevel_default error v hm1
  -- the level the encoder starts from is one of the constants
  have he' : (if error.isNone && v != Gen.VERSION_M1 then some Gen.ERROR_LEVEL_L else error)
      ∈ [none, some 0, some 1, some 2, some 3] := by
    split
    · simp [Gen.ERROR_LEVEL_L]
    · exact herr
  generalize (if error.isNone && v != Gen.VERSION_M1 then some Gen.ERROR_LEVEL_L else error) = e' at *
  by_cases hid : boost = false ∨ e' = none ∨ e' = some 2 ∨ segs.length ≠ 1
  · -- the level is left alone
    have hce : c.error = e' := by
      rcases hid with rfl | hid
      · simp only [Bool.false_eq_true, if_false, pure, Except.pure, Except.ok.injEq] at herr'
        exact herr'.symm
      · cases boost with
        | false =>
          simp only [Bool.false_eq_true, if_false, pure, Except.pure, Except.ok.injEq] at herr'
          exact herr'.symm
        | true =>
          simp only [if_true] at herr'
          rw [Props.C05.boost_identity_cases v e' segs eci _ hid] at herr'
          simp only [Except.ok.injEq] at herr'
          exact herr'.symm
    rw [hce, hbase]
    rcases hid with rfl | rfl | rfl | hlen
    · rw [expectedLevel_id _ _ _ _ _ (by simp)]
    · have : Spec.sizingLevel error v = -1 := by rw [← hbase]; rfl
      rw [expectedLevel_id _ _ _ _ _ (by simp [this])]
    · have : Spec.sizingLevel error v = 2 := by rw [← hbase]; rfl
      rw [expectedLevel_H v error boost _ false this, this]
    · have : ((segs.map (info eci)).length != 1) = true := by simpa using hlen
      rw [expectedLevel_id _ _ _ _ _ (by rw [this]; simp)]
  · -- boosting a single segment
    have hb : boost = true := by
      cases boost with
      | false => exact absurd (Or.inl rfl) hid
      | true => rfl
    subst hb
    have hlen : segs.length = 1 := by
      apply Decidable.byContradiction
      intro hne
      exact hid (Or.inr (Or.inr (Or.inr hne)))
    obtain ⟨s, rfl⟩ := List.length_eq_one_iff.1 hlen
    cases e' with
    | none => exact absurd (Or.inr (Or.inl rfl)) hid
    | some e =>
      have he : e ∈ [0, 1, 2, 3] := by
        simp only [List.mem_cons, List.not_mem_nil, or_false, Option.some.injEq, reduceCtorEq, false_or] at he'
        simp only [List.mem_cons, List.not_mem_nil, or_false]
        omega
      have hfits := fits_of_model v e s eci cap bl (hwf s (by simp)) h1 h2 hcap hbl hle
      simp only [if_true] at herr'
      change boostErrorLevel v (some e) [s] eci false = _ at herr'
      rw [Props.C05.boost_is_highest_fitting v e s eci false (hwf s (by simp)) h1 h2 he hfits] at herr'
      simp only [Except.ok.injEq] at herr'
      have hsz : Spec.sizingLevel (some e) v = Spec.sizingLevel error v := by
        rw [← hbase]
        have hv3 : v ≠ -3 := by
          intro hv3
          subst hv3
          have := List.all_eq_true.1 capacity_m1_level e he
          rw [hcap] at this
          cases this
        have : (v == -3) = false := by simpa using hv3
        simp [Spec.sizingLevel, this, lvlKey]
      have hcg := expectedLevel_congr v (some e) error true [info eci s] false hsz
      have hnn := expectedLevel_nonneg v error true [info eci s] false (by
        rw [← hbase]; simp [lvlKey])
      rw [← herr']
      simp only [List.map_cons, List.map_nil, lvlKey]
      rw [hcg]
      omega

/-! ### C06: requested mask -/

theorem requested_mask_inv (m1 : Matrix) (p mk : Nat) (m2 : Matrix)
    (h : findAndApplyBestMask m1 (some p) = .ok (mk, m2)) : mk = p := by
  unfold findAndApplyBestMask at h
  simp only [bind, Except.bind, pure, Except.pure, throw, throwThe, MonadExceptOf.throw] at h
  repeat' split at h
  all_goals first | (cases h; done) | skip
  all_goals
    simp only [Except.ok.injEq, Prod.mk.injEq] at h
    exact h.1.symm

theorem encode_requested_mask (parts : List Part) (error : Option Nat) (version : Option Int)
    (mode : Option Nat) (k : Nat) (eci : Bool) (micro : Option Bool) (boost : Bool) (f : String → Option Nat) (c : Code)
    (h : encode parts error version mode (some k) eci micro boost f = .ok c) : c.mask = k := by
  obtain ⟨segs, -, ⟨st⟩, -⟩ := Proofs.EndToEnd.encode_stages _ _ _ _ _ _ _ _ _ _ h
  exact requested_mask_inv _ _ _ _ st.hm2

/-! ### C07 -/

theorem prepareData_single (p : Part) :
    prepareData [p] = (makeSegment p.data p.mode p.encoding >>= fun s => pure [s]) := by
  unfold prepareData
  rw [List.foldlM_cons]
  cases makeSegment p.data p.mode p.encoding with
  | error e => rfl
  | ok s => rfl

theorem encode_single_inv (data : List Nat) (md : Option Nat) (enc : String) (error : Option Nat) (version : Option Int)
    (mode mask : Option Nat) (eci : Bool) (micro : Option Bool) (boost : Bool) (f : String → Option Nat) (c : Code)
    (h : encode [{ data := data, mode := md, encoding := enc }] error version mode mask eci micro boost f = .ok c) :
    ∃ s, makeSegment data md enc = .ok s ∧ c.segments = [s] := by
  obtain ⟨segs, g, v, hprep, -, -, -, hcore⟩ := Proofs.Sizing.encode_inv _ _ _ _ _ _ _ _ _ _ h
  obtain ⟨-, hsegs, -, -⟩ := Proofs.Sizing.encodeCore_inv _ _ _ _ _ _ _ _ _ hcore
  rw [prepareData_single] at hprep
  obtain ⟨s, hs, hr⟩ := Proofs.ArgsLemmas.bind_ok hprep
  simp only [pure, Except.pure, Except.ok.injEq] at hr
  exact ⟨s, hs, by rw [hsegs, ← hr]⟩

theorem encode_single_auto_mode (data : List Nat) (enc : String) (error : Option Nat) (version : Option Int)
    (mask : Option Nat) (eci : Bool) (micro : Option Bool) (boost : Bool) (f : String → Option Nat) (c : Code)
    (h : encode [{ data := data, mode := none, encoding := enc }] error version none mask eci micro boost f = .ok c) :
    c.segments.map (·.mode) = [Spec.autoMode data] := by
  obtain ⟨s, hs, hc⟩ := encode_single_inv _ _ _ _ _ _ _ _ _ _ _ _ h
  obtain ⟨s', hs', hm⟩ := Props.C07.makeSegment_auto data enc
  rw [hs] at hs'
  cases hs'
  rw [hc]
  simp [hm]

theorem encode_single_requested_mode (data : List Nat) (m : Nat) (enc : String) (error : Option Nat) (version : Option Int)
    (mask : Option Nat) (eci : Bool) (micro : Option Bool) (boost : Bool) (f : String → Option Nat)
    (hm : m ∈ [1, 2, 4, 8, 13]) :
    (∀ c, encode [{ data := data, mode := some m, encoding := enc }] error version (some m) mask eci micro boost f = .ok c →
        c.segments.map (·.mode) = [m] ∧ Spec.representable m data = true)
    ∧ (Spec.representable m data = false →
        encode [{ data := data, mode := some m, encoding := enc }] error version (some m) mask eci micro boost f
          = .error PyErr.valueError) := by
  obtain ⟨hyes, hno⟩ := Props.C07.makeSegment_requested data m enc hm
  constructor
  · intro c h
    obtain ⟨s, hs, hc⟩ := encode_single_inv _ _ _ _ _ _ _ _ _ _ _ _ h
    cases hr : Spec.representable m data with
    | false => rw [hno hr] at hs; cases hs
    | true =>
      obtain ⟨s', hs', hm'⟩ := hyes hr
      rw [hs] at hs'
      cases hs'
      rw [hc]
      simp [hm']
  · intro hr
    rw [Proofs.ArgsLemmas.encode_eq]
    cases hcombo : Model.Args.comboChecks version error (some m) eci micro with
    | error e => rw [Proofs.ArgsLemmas.comboChecks_err _ _ _ _ _ _ hcombo]; rfl
    | ok u =>
      unfold Proofs.ArgsLemmas.encTail
      rw [prepareData_single, hno hr]
      rfl

end Proofs.EncodeLevel
