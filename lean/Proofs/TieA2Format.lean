/-
  Proofs.TieA2Format — `add_format_info` and `add_version_info` (translated, Gen/Funcs2.lean) against
  `Model.addFormatInfo` / `Model.addVersionInfo`: the same matrix for every version number, error level and mask
  number, the same exception (`IndexError` / `KeyError` of `calc_format_info`, `IndexError` of
  `consts.VERSION_INFO[version - 7]`) in the same cases.  The loops (`range(8)` / `range(6)`) are taken by one
  generic lemma (`foldlM_range_inv`): a fold over `range(lo, hi)` whose state is the image of a model state.
-/
import Proofs.TieA2Matrix
import Props.TieA
import Mathlib.Tactic.SplitIfs

namespace Proofs.TieA2
open Gen.Py Proofs.TieA Model

/-- fold over `range(lo, hi)` with a state that is the image of a model state -/
theorem foldlM_range_inv {σ τ : Type} (emb : Nat → τ → σ) (Inv : τ → Prop) (f : τ → Nat → τ)
    (body : σ → Int → M σ) (hi : Nat)
    (hstep : ∀ t i, i < hi → Inv t → body (emb i t) (i : Int) = .ok (emb (i + 1) (f t i)) ∧ Inv (f t i)) :
    ∀ (k lo : Nat) (t : τ), lo + k = hi → Inv t →
      foldlM (range (lo : Int) (hi : Int)) (emb lo t) body = .ok (emb hi ((List.range' lo k).foldl f t)) := by
  intro k
  induction k with
  | zero =>
    intro lo t h _
    have : lo = hi := by omega
    subst this
    rw [range_empty (Int.le_refl _)]
    rfl
  | succ k ih =>
    intro lo t h hinv
    obtain ⟨h1, h2⟩ := hstep t lo (by omega) hinv
    rw [range_succ (by omega), foldlM_cons, h1]
    have := ih (lo + 1) (f t lo) (by omega) h2
    simp only [List.range'_succ, List.foldl_cons]
    push_cast at this
    exact this

/-! ### Python indexes given as expressions -/

theorem normIndex_pos (n : Nat) (ii : Int) (i : Nat) (h : ii = (i : Int)) (hlt : i < n) : normIndex n ii = some i := by
  subst h; exact normIndex_nat n i hlt

theorem normIndex_minus (n : Nat) (ii : Int) (k : Nat) (h : ii = -(k : Int)) (h1 : 1 ≤ k) (h2 : k ≤ n) :
    normIndex n ii = some (n - k) := by
  subst h; exact normIndex_neg n k h1 h2

theorem set_cell {m : Matrix} {n : Nat} (hs : Sq m n) (ii jj : Int) (i j v : Nat)
    (hi : normIndex n ii = some i) (hj : normIndex n jj = some j) :
    setItem2 (mI m) ii jj (v : Int) = .ok (mI (set2 m i j v)) := setItem2_cell hs ii jj i j v hi hj

/-! ### version information -/

/-- the two dumps of `consts.VERSION_INFO` agree -/
theorem version_info_tables : Gen.Funcs2.T_consts_VERSION_INFO = Gen.VERSION_INFO.map Int.ofNat := by decide

/-- one iteration of the loop of `Model.addVersionInfo` -/
def verStep (n vi : Nat) (m : Matrix) (i : Nat) : Matrix :=
  let b1 := (vi >>> (i * 3)) % 2
  let b2 := (vi >>> (i * 3 + 1)) % 2
  let b3 := (vi >>> (i * 3 + 2)) % 2
  let m := set2 (set2 (set2 m (n - 11) i b1) (n - 10) i b2) (n - 9) i b3
  set2 (set2 (set2 m i (n - 11) b1) i (n - 10) b2) i (n - 9) b3

theorem ver_fold (n vi : Nat) (m : Matrix) (hs : Sq m n) (body : List (List Int) → Int → M (List (List Int)))
    (hstep : ∀ (t : Matrix) (i : Nat), i < 6 → Sq t n → body (mI t) (i : Int) = .ok (mI (verStep n vi t i)) ∧ Sq (verStep n vi t i) n) :
    foldlM (range 0 6) (mI m) body = .ok (mI ((List.range 6).foldl (verStep n vi) m)) := by
  have := foldlM_range_inv (fun _ t => mI t) (fun t => Sq t n) (verStep n vi) body 6 hstep 6 0 m rfl hs
  rw [List.range_eq_range']
  exact this

/-- `add_version_info(matrix, version)` on an n × n matrix, n ≥ 11, every version number -/
theorem add_version_info_eq (m : Matrix) (n : Nat) (hs : Sq m n) (hn : 11 ≤ n) (v : Int) :
    toR (Gen.Funcs2.add_version_info (mI m) v) = (Model.addVersionInfo m v).map mI := by
  unfold Gen.Funcs2.add_version_info Model.addVersionInfo
  by_cases hv : v < 7
  · simp only [hv, decide_true, if_true]
    rfl
  · simp only [hv, decide_false, if_false, Bool.false_eq_true]
    generalize hk : (v - 7).toNat = k
    have e : v - 7 = (k : Int) := by omega
    rw [e, version_info_tables, index_map_ofNat]
    cases hvi : Gen.VERSION_INFO[k]? with
    | none => rfl
    | some vi =>
      simp only [Option.map_some, ofOption_some, bind_ok, hs.size]
      rw [ver_fold n vi m hs _ ?step]
      · rfl
      · intro t (i : Nat) hi hst
        have e1 : ((i : Int) * 3) = ((i * 3 : Nat) : Int) := by push_cast; rfl
        have e2 : ((i * 3 : Nat) : Int) + 1 = ((i * 3 + 1 : Nat) : Int) := by push_cast; rfl
        have e3 : ((i * 3 : Nat) : Int) + 2 = ((i * 3 + 2 : Nat) : Int) := by push_cast; rfl
        have s1 := sq_set2 hst (n - 11) i (vi >>> (i * 3) % 2)
        have s2 := sq_set2 s1 (n - 10) i (vi >>> (i * 3 + 1) % 2)
        have s3 := sq_set2 s2 (n - 9) i (vi >>> (i * 3 + 2) % 2)
        have s4 := sq_set2 s3 i (n - 11) (vi >>> (i * 3) % 2)
        have s5 := sq_set2 s4 i (n - 10) (vi >>> (i * 3 + 1) % 2)
        have s6 := sq_set2 s5 i (n - 9) (vi >>> (i * 3 + 2) % 2)
        refine ⟨?_, s6⟩
        have hi' : normIndex n (i : Int) = some i := normIndex_nat n i (by omega)
        have h11 : normIndex n (-11) = some (n - 11) := normIndex_minus n _ 11 (by omega) (by omega) (by omega)
        have h10 : normIndex n (-10) = some (n - 10) := normIndex_minus n _ 10 (by omega) (by omega) (by omega)
        have h9 : normIndex n (-9) = some (n - 9) := normIndex_minus n _ 9 (by omega) (by omega) (by omega)
        simp only [Int.ofNat_eq_natCast, e1, e2, e3, shr_nat, bind_ok, band_one]
        rw [set_cell hst _ _ _ _ _ h11 hi', bind_ok, set_cell s1 _ _ _ _ _ h10 hi', bind_ok,
          set_cell s2 _ _ _ _ _ h9 hi', bind_ok, index_row s3 _ _ hi', bind_ok,
          set_cell s3 _ _ _ _ _ hi' h11, bind_ok, set_cell s4 _ _ _ _ _ hi' h10, bind_ok,
          set_cell s5 _ _ _ _ _ hi' h9]
        rfl


/-! ### format information -/

/-- `calc_format_info`: both sides return the same word or raise the same exception -/
theorem cfi_cases (v : Int) (e : Option Nat) (mask : Nat) :
    (∃ w : Nat, Gen.Funcs.calc_format_info v (e.map Int.ofNat) mask = .ok (w : Int) ∧ Model.calcFormatInfo v e mask = .ok w) ∨
    (∃ ex, Gen.Funcs.calc_format_info v (e.map Int.ofNat) mask = .error ex ∧ Model.calcFormatInfo v e mask = .error (exc ex)) := by
  have h := Props.TieA.calc_format_info_tie v e mask
  cases hc : Gen.Funcs.calc_format_info v (e.map Int.ofNat) mask with
  | error ex =>
    cases hm : Model.calcFormatInfo v e mask with
    | error er =>
      rw [hc, hm] at h
      right
      refine ⟨ex, rfl, ?_⟩
      simp only [toR_error, Except.map] at h
      injection h with h
      rw [h]
    | ok w => rw [hc, hm] at h; simp [Except.map] at h
  | ok w' =>
    cases hm : Model.calcFormatInfo v e mask with
    | error er => rw [hc, hm] at h; simp [Except.map] at h
    | ok w =>
      rw [hc, hm] at h
      left
      refine ⟨w, ?_, rfl⟩
      simp only [toR_ok, Except.map] at h
      injection h with h
      rw [h]
      rfl

/-- the offset held by the loop state before item i is processed -/
def off (mc : Bool) (i : Nat) : Nat := if mc then 1 else if 6 < i then 1 else 0

/-- one iteration of the loop of `Model.addFormatInfo` (`mc`: Micro QR Code) -/
def fmtStep (n fi : Nat) (mc : Bool) (m : Matrix) (i : Nat) : Matrix :=
  let vbit := (fi >>> i) % 2
  let hbit := (fi >>> (14 - i)) % 2
  let o := off mc (i + 1)
  let m := set2 (set2 m (i + o) 8 vbit) 8 (i + o) hbit
  if !mc then set2 (set2 m 8 (n - 1 - i) vbit) (n - 1 - i) 8 hbit else m

theorem sq_fmtStep {n : Nat} (fi : Nat) (mc : Bool) {t : Matrix} (h : Sq t n) (i : Nat) : Sq (fmtStep n fi mc t i) n := by
  unfold fmtStep
  cases mc
  · exact sq_set2 (sq_set2 (sq_set2 (sq_set2 h _ _ _) _ _ _) _ _ _) _ _ _
  · exact sq_set2 (sq_set2 h _ _ _) _ _ _

theorem sq_foldl {n : Nat} (f : Matrix → Nat → Matrix) (hf : ∀ t i, Sq t n → Sq (f t i) n) (l : List Nat) :
    ∀ t, Sq t n → Sq (l.foldl f t) n := by
  induction l with
  | nil => intro t h; exact h
  | cons x xs ih => intro t h; exact ih _ (hf t x h)

theorem fmt_fold (n fi : Nat) (mc : Bool) (m : Matrix) (hs : Sq m n)
    (body : Int × List (List Int) × Int → Int → M (Int × List (List Int) × Int))
    (hstep : ∀ (t : Matrix) (i : Nat), i < 8 → Sq t n →
      body ((off mc i : Int), mI t, (off mc i : Int)) (i : Int)
        = .ok ((off mc (i + 1) : Int), mI (fmtStep n fi mc t i), (off mc (i + 1) : Int)) ∧ Sq (fmtStep n fi mc t i) n) :
    foldlM (range 0 8) ((off mc 0 : Int), mI m, (off mc 0 : Int)) body
      = .ok ((off mc 8 : Int), mI ((List.range 8).foldl (fmtStep n fi mc) m), (off mc 8 : Int)) := by
  have := foldlM_range_inv (fun i t => (((off mc i : Nat) : Int), mI t, ((off mc i : Nat) : Int))) (fun t => Sq t n)
    (fmtStep n fi mc) body 8 hstep 8 0 m rfl hs
  rw [List.range_eq_range']
  exact this

theorem fmt_fold_micro (n fi : Nat) (m : Matrix) (hs : Sq m n)
    (body : Int × List (List Int) × Int → Int → M (Int × List (List Int) × Int))
    (hstep : ∀ (t : Matrix) (i : Nat), i < 8 → Sq t n →
      body (1, mI t, 1) (i : Int) = .ok (1, mI (fmtStep n fi true t i), 1) ∧ Sq (fmtStep n fi true t i) n) :
    foldlM (range 0 8) (1, mI m, 1) body = .ok (1, mI ((List.range 8).foldl (fmtStep n fi true) m), 1) :=
  fmt_fold n fi true m hs body hstep

theorem fmt_fold_qr (n fi : Nat) (m : Matrix) (hs : Sq m n)
    (body : Int × List (List Int) × Int → Int → M (Int × List (List Int) × Int))
    (hstep : ∀ (t : Matrix) (i : Nat), i < 8 → Sq t n →
      body ((off false i : Int), mI t, (off false i : Int)) (i : Int)
        = .ok ((off false (i + 1) : Int), mI (fmtStep n fi false t i), (off false (i + 1) : Int)) ∧ Sq (fmtStep n fi false t i) n) :
    foldlM (range 0 8) (0, mI m, 0) body = .ok (1, mI ((List.range 8).foldl (fmtStep n fi false) m), 1) :=
  fmt_fold n fi false m hs body hstep

/-- `add_format_info(matrix, version, error, mask_pattern)` on an n × n matrix, n ≥ 9, every version number, error level
    (or None) and mask number -/
theorem add_format_info_eq (m : Matrix) (n : Nat) (hs : Sq m n) (hn : 9 ≤ n) (v : Int) (e : Option Nat) (mask : Nat) :
    toR (Gen.Funcs2.add_format_info (mI m) v (e.map Int.ofNat) mask) = (Model.addFormatInfo m v e mask).map mI := by
  unfold Gen.Funcs2.add_format_info Model.addFormatInfo
  rcases cfi_cases v e mask with ⟨fi, hc, hm⟩ | ⟨ex, hc, hm⟩
  · have h8 : normIndex n 8 = some 8 := normIndex_pos n 8 8 rfl (by omega)
    simp only [hc, hm, bind_ok, index_row hs 8 8 h8]
    by_cases hv : v < 1
    · simp only [hv, decide_true, if_true]
      rw [fmt_fold_micro n fi m hs _ ?step]
      · simp only [Bool.not_true, Bool.false_eq_true, if_false, Bool.false_and, bind_ok]
        rfl
      · intro t (i : Nat) hi hst
        have e14 : (14 : Int) - (i : Int) = ((14 - i : Nat) : Int) := by omega
        have e1 : (i : Int) + 1 = ((i + 1 : Nat) : Int) := by omega
        have s1 := sq_set2 hst (i + 1) 8 (fi >>> i % 2)
        have s2 := sq_set2 s1 8 (i + 1) (fi >>> (14 - i) % 2)
        have hi1 : normIndex n ((i + 1 : Nat) : Int) = some (i + 1) := normIndex_nat n (i + 1) (by omega)
        refine ⟨?_, s2⟩
        simp only [Bool.not_true, Bool.false_eq_true, if_false, Bool.and_false, e14, e1, shr_nat, bind_ok, band_one]
        rw [set_cell hst _ _ _ _ _ hi1 h8, bind_ok, set_cell s1 _ _ _ _ _ h8 hi1]
        rfl
    · simp only [hv, decide_false, if_false, Bool.false_eq_true]
      rw [fmt_fold_qr n fi m hs _ ?stepq]
      · simp only [Bool.not_false, if_true, Bool.true_and, bind_ok]
        have hsM : Sq ((List.range 8).foldl (fmtStep n fi false) m) n :=
          sq_foldl _ (fun t i h => sq_fmtStep fi false h i) _ m hs
        have hm8 : normIndex n (-8) = some (n - 8) := normIndex_minus n _ 8 (by omega) (by omega) (by omega)
        rw [show setItem2 (mI ((List.range 8).foldl (fmtStep n fi false) m)) (-8) 8 1 = _ from
          set_cell hsM (-8) 8 (n - 8) 8 1 hm8 h8, hs.size]
        refine congrArg (fun x => Except.ok (mI (set2 x (n - 8) 8 1))) ?_
        refine congrArg (fun f => List.foldl f m (List.range 8)) ?_
        funext t i
        by_cases h6 : 6 ≤ i
        · have h6' : 6 < i + 1 := by omega
          simp [fmtStep, off, h6, h6']
        · have h6' : ¬ 6 < i + 1 := by omega
          simp [fmtStep, off, h6, h6']
      · intro t (i : Nat) hi hst
        have e14 : (14 : Int) - (i : Int) = ((14 - i : Nat) : Int) := by omega
        have hphi : (if ((i : Int) == 6) = true then ((1 : Int), ((off false i : Nat) : Int) + 1)
            else (((off false i : Nat) : Int), ((off false i : Nat) : Int)))
            = (((off false (i + 1) : Nat) : Int), ((off false (i + 1) : Nat) : Int)) := by
          by_cases h6 : i = 6
          · subst h6; rfl
          · have hb : ((i : Int) == 6) = false := by simp; omega
            have ho : off false (i + 1) = off false i := by
              unfold off
              simp only [Bool.false_eq_true, if_false]
              split_ifs <;> omega
            rw [hb, ho]
            rfl
        have ho1 : off false (i + 1) ≤ 1 := by unfold off; split_ifs <;> omega
        have ho8 : i + off false (i + 1) ≤ 8 := by
          unfold off
          simp only [Bool.false_eq_true, if_false]
          split_ifs <;> omega
        have hfs : fmtStep n fi false t i = set2 (set2 (set2 (set2 t (i + off false (i + 1)) 8 (fi >>> i % 2)) 8
            (i + off false (i + 1)) (fi >>> (14 - i) % 2)) 8 (n - 1 - i) (fi >>> i % 2)) (n - 1 - i) 8 (fi >>> (14 - i) % 2) := rfl
        rw [hfs]
        generalize off false (i + 1) = o at *
        have eo : (i : Int) + (o : Int) = ((i + o : Nat) : Int) := by omega
        have s1 := sq_set2 hst (i + o) 8 (fi >>> i % 2)
        have s2 := sq_set2 s1 8 (i + o) (fi >>> (14 - i) % 2)
        have s3 := sq_set2 s2 8 (n - 1 - i) (fi >>> i % 2)
        have s4 := sq_set2 s3 (n - 1 - i) 8 (fi >>> (14 - i) % 2)
        have hio : normIndex n ((i + o : Nat) : Int) = some (i + o) := normIndex_nat n (i + o) (by omega)
        have hni : normIndex n (-1 - (i : Int)) = some (n - 1 - i) := by
          have e : n - (i + 1) = n - 1 - i := by omega
          rw [normIndex_minus n _ (i + 1) (by omega) (by omega) (by omega), e]
        simp only [Bool.not_false, if_true, Bool.and_true, e14, shr_nat, bind_ok, band_one, hphi, eo]
        refine ⟨?_, s4⟩
        rw [set_cell hst _ _ _ _ _ hio h8, bind_ok, set_cell s1 _ _ _ _ _ h8 hio, bind_ok,
          set_cell s2 _ _ _ _ _ h8 hni, bind_ok, set_cell s3 _ _ _ _ _ hni h8, bind_ok]
  · simp only [hc, hm, bind_error]
    rfl

end Proofs.TieA2
