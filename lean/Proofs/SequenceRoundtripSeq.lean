/-
  Proofs.SequenceRoundtripSeq — helper lemmas for Props/C08Roundtrip.lean, part 3: all symbols of a
  Structured Append sequence made for a requested symbol count.
-/
import Spec.Decode
import Spec.Judge
import Model.Sequence
import Props.C08
import Proofs.SequenceRoundtrip

namespace Proofs.SequenceRoundtrip
open Model Proofs.EndToEnd Proofs.Sequence

/-! ### modes with a character count indicator -/

theorem cci_table_modes : Gen.CHAR_COUNT_INDICATOR_LENGTH.all (fun x => [1, 2, 4, 8, 13].contains x.1) = true := by
  decide +kernel

theorem cciLen_mode (mode : Nat) (vr : Int) (cl : Nat) (h : cciLen mode vr = some cl) : mode ∈ [1, 2, 4, 8, 13] := by
  unfold cciLen at h
  rw [Option.map_eq_some_iff] at h
  obtain ⟨x, hx, -⟩ := h
  have hm := List.all_eq_true.mp cci_table_modes x (List.mem_of_find?_eq_some hx)
  have hp := List.find?_some hx
  simp only [Bool.and_eq_true, beq_iff_eq] at hp
  rw [← hp.1]
  simpa using hm

/-- a single segment with a computable bit length has one of the five modes -/
theorem bitLength_single_mode (s : Segment) (v : Int) (eci isSa : Bool) (bl : Nat)
    (h : bitLengthWithOverhead [s] v eci isSa = some bl) : s.mode ∈ [1, 2, 4, 8, 13] := by
  rw [bitLength_single] at h
  cases hc : cciLen s.mode (if v > 0 then Gen.version_range v else v) with
  | none => rw [hc] at h; cases h
  | some cl => exact cciLen_mode _ _ _ hc

/-! ### kanji / hanzi content consists of whole characters -/

theorem makeSegment_double_even (data : List Nat) (mode : Option Nat) (enc : String) (s : Segment)
    (h : makeSegment data mode enc = .ok s) (hdbl : s.mode = 8 ∨ s.mode = 13) : data.length % 2 = 0 := by
  obtain ⟨sm, -, hb⟩ := Proofs.Modes.makeSegment_ok_body data mode enc s h
  obtain ⟨hmode, -⟩ := Proofs.Modes.segBody_ok data enc sm s hb
  rw [hmode] at hdbl
  unfold Proofs.Modes.segBody at hb
  dsimp only at hb
  split at hb
  · cases hb
  · rename_i hc
    rcases hdbl with rfl | rfl <;> simp at hc <;> omega

/-- the message is the data of the single content part: its length is a multiple of the character size -/
theorem single_part_whole (parts : List Part) (msg : List Nat) (segs : List Segment) (s0 : Segment)
    (hcontent : parts.map (·.data) = [msg]) (hprep : prepareData parts = .ok segs) (hs0 : segs.head? = some s0) :
    csOf s0.mode ∣ msg.length := by
  match parts, hcontent with
  | [p], hcontent =>
    simp only [List.map_cons, List.map_nil, List.cons.injEq, and_true] at hcontent
    unfold prepareData at hprep
    simp only [List.foldlM_cons, List.foldlM_nil] at hprep
    obtain ⟨segs1, h1, h2⟩ := bind_ok.1 hprep
    obtain ⟨s, hs, h3⟩ := bind_ok.1 h1
    rw [pure_eq_ok] at h3 h2
    subst h2 h3
    simp only [addSegment, List.getLast?_nil, List.head?_cons, Option.some.injEq] at hs0
    subst hs0
    rw [hcontent] at hs
    unfold csOf
    split
    · rename_i hc
      have := makeSegment_double_even msg p.mode p.encoding s hs (by
        simp only [Bool.or_eq_true, beq_iff_eq] at hc
        exact hc)
      exact Nat.dvd_of_mod_eq_zero this
    · exact Nat.one_dvd _

/-! ### chunks -/

theorem chunk_mem (d : List Nat) (num cs : Nat) (c : List Nat) (hc : c ∈ divideIntoChunks d num cs) :
    ∀ b ∈ c, b ∈ d := by
  unfold divideIntoChunks at hc
  simp only [List.mem_map, List.mem_range] at hc
  obtain ⟨i, -, rfl⟩ := hc
  intro b hb
  exact List.mem_of_mem_drop (List.mem_of_mem_take hb)

/-! ### the sequence -/

/-- all symbols of a sequence made for a requested symbol count (the message length being a multiple
    of the character size, `hwhole`) -/
theorem sequence_core (parts : List Part) (msg : List Nat) (msgEnc : String) (error : Option Nat)
    (version : Option Int) (mask : Option Nat) (boost : Bool) (k : Int) (f : String → Option Nat) (cs : List Code)
    (hmsg : ∀ b ∈ msg, b < 256)
    (hwhole : ∀ segs s0, prepareData parts = .ok segs → segs.head? = some s0 → csOf s0.mode ∣ msg.length)
    (h : encodeSequenceAux parts msg msgEnc error version mask false boost (some k) f = .ok (true, cs)) :
    (version = none → cs.length = k.toNat)
    ∧ 1 ≤ cs.length ∧ cs.length ≤ 16
    ∧ ∃ payloads : List (List Nat), payloads.length = cs.length ∧ payloads.flatten = msg
        ∧ ∀ i (hi : i < cs.length), ∃ d p, Spec.decode cs[i].matrix = .ok d
            ∧ d.header = { version := cs[i].version, level := lvlKey cs[i].error, mask := cs[i].mask }
            ∧ d.badBlocks = 0 ∧ d.fnBad = none ∧ Spec.allZero d.blocks.remainder = true
            ∧ d.parsed = .ok p ∧ p.sa = some (i, cs.length - 1, Spec.xorAll msg)
            ∧ (p.segments.map (·.bytes)).flatten = payloads.getD i [] := by
  have hfits := Props.C08.each_symbol_fits_partial _ _ _ _ _ _ _ _ _ _ _ h
  obtain ⟨-, -, hk, segs, hprep, hcase⟩ := encodeSequenceAux_ok _ _ _ _ _ _ _ _ _ _ _ _ h
  rcases hcase with ⟨hf, -⟩ | ⟨-, mode, chunks, v, parity, hplan, hmap⟩
  · cases hf
  obtain ⟨hk1, hk16⟩ := hk k rfl
  obtain ⟨hlen, hget⟩ := zipIdx_mapM_ok _ _ _ hmap
  obtain ⟨hpar, hparlt⟩ := Props.C08.parity_is_xor _ _ _ _ _ _ _ _ _ _ _ hplan
  obtain ⟨s0, num, hs0, hmode, -, hnum, hchunks, -, hnv, hnn, hfind, -⟩ := planSequence_ok _ _ _ _ _ _ _ _ _ _ _ hplan
  have hcl : chunks.length = num := by rw [hchunks]; exact divideIntoChunks_length _ _ _
  have hpos : 1 ≤ num := by
    cases version with
    | some vv => exact numberOfSymbols_pos _ _ _ _ _ _ _ _ (hnv vv rfl)
    | none =>
      rw [hnn rfl]
      simp only [Option.map_some, Option.getD_some]
      omega
  -- the version is a QR Code version
  have hv : 1 ≤ v := by
    obtain ⟨segsL, -, hfv⟩ := hfind k.toNat rfl
    have hlvl : (if error.isNone = true then some Gen.ERROR_LEVEL_L else error)
        = some ((if error.isNone = true then some Gen.ERROR_LEVEL_L else error).getD 0) := by
      cases error <;> simp
    rw [hlvl] at hfv
    exact (findVersion_qr _ _ _ _ _ hfv).1
  -- the chunks
  have hdiv : csOf mode ∣ msg.length := by rw [hmode]; exact hwhole segs s0 hprep hs0
  have hflat : chunks.flatten = msg := by
    rw [hchunks, divideIntoChunks_flatten msg num (csOf mode) hpos, Nat.div_mul_cancel hdiv, List.take_length]
  refine ⟨?_, by omega, by omega, chunks, hlen.symm, hflat, ?_⟩
  · intro hvn
    rw [hlen, hcl, hnn hvn]
    rfl
  · intro i hi
    have hic : i < chunks.length := by omega
    obtain ⟨segs', hs', henc⟩ := symbolOf_ok _ _ _ _ _ _ _ _ _ _ _ _ (hget i hic hi)
    simp only at hs' henc
    obtain ⟨hcv, hcsg, -⟩ := encodeCore_ok _ _ _ _ _ _ _ _ _ henc
    obtain ⟨bl, cap, hbl, hcap, hle⟩ := hfits cs[i] (List.getElem_mem _)
    rw [hcv, hcsg] at hbl
    rw [hcv] at hcap
    -- the mode is one of the five
    obtain ⟨s, hseq, hsm, -, -⟩ := oneItemSegments_ok _ _ _ _ hs'
    have hm5 : mode ∈ [1, 2, 4, 8, 13] := by
      rw [← hsm]
      rw [hseq] at hbl
      exact bitLength_single_mode s v false true bl hbl
    have hd : ∀ b ∈ chunks[i], b < 256 := by
      intro b hb
      exact hmsg b (chunk_mem msg num (csOf mode) chunks[i] (by rw [← hchunks]; exact List.getElem_mem _) b hb)
    obtain ⟨d, hdec, hhdr, hfn, hbad, hrem, p, hp1, hp2, hp3⟩ :=
      sa_symbol_final chunks[i] mode msgEnc segs' _ v mask boost f i (chunks.length - 1) parity cs[i]
        hd hm5 (by omega) (by omega) (hparlt hmsg) hv hs' ⟨bl, cap, hbl, hcap, hle⟩ henc
    refine ⟨d, p, hdec, hhdr, hbad, hfn, hrem, hp1, ?_, ?_⟩
    · rw [hp2, hlen, hpar]
    · rw [hp3, List.getD_eq_getElem?_getD, List.getElem?_eq_getElem hic]
      rfl

end Proofs.SequenceRoundtrip
