/-
  Proofs.StreamParse — helper lemmas for C01 (stream level): the reference stream parser
  `Spec.parseStream` applied to the headers written by `Model.writeSegment`.
-/
import Spec.Decode
import Spec.Sizing
import Model.Encoder
import Proofs.Roundtrip
import Proofs.Stream
import Proofs.Sizing

namespace Proofs.StreamParse
open Model Spec

/-! ### the parser loop, one iteration at a time -/

/-- stop: nothing left, or the next `min rem tlen` bits are zero, and no ECI header is pending -/
theorem go_stop (v : Int) (st : List Nat) (tlen mb f pos : Nat) (sa : Option (Nat × Nat × Nat))
    (acc : List Spec.Segment)
    (h : (st.length - pos == 0 || allZero ((st.drop pos).take (min (st.length - pos) tlen))) = true) :
    parseStream.go v st tlen mb (f + 1) pos none sa acc
      = .ok { sa := sa, segments := acc, endPos := pos } := by
  rw [parseStream.go]
  simp only [h, if_true]
  rfl

/-- ECI header (QR only): mode indicator 7, one-byte designator -/
theorem go_eci (v : Int) (st : List Nat) (tlen mb f pos : Nat) (eci : Option Nat)
    (sa : Option (Nat × Nat × Nat)) (acc : List Spec.Segment) (p x p2 : Nat)
    (h : (st.length - pos == 0 || allZero ((st.drop pos).take (min (st.length - pos) tlen))) = false)
    (hv : v > 0)
    (hmi : takeBits st pos mb = some (7, p))
    (hx : takeBits st p 8 = some (x, p2)) (hx128 : x < 128) :
    parseStream.go v st tlen mb (f + 1) pos eci sa acc
      = parseStream.go v st tlen mb f p2 (some x) sa acc := by
  rw [parseStream.go]
  simp only [h, hmi, hx, hv, hx128, if_true, decide_true, Bool.true_and]
  simp

/-- one data segment: mode indicator, (hanzi subset indicator,) character count, characters -/
theorem go_segment (v : Int) (st : List Nat) (tlen mb f pos : Nat) (eci : Option Nat)
    (sa : Option (Nat × Nat × Nat)) (acc : List Spec.Segment) (mi mode p p1 w cnt p2 p3 : Nat) (bytes : List Nat)
    (h : (st.length - pos == 0 || allZero ((st.drop pos).take (min (st.length - pos) tlen))) = false)
    (hmi : takeBits st pos mb = some (mi, p))
    (h3 : (decide (v > 0) && mi == 3) = false) (h7 : (decide (v > 0) && mi == 7) = false)
    (hmode : (if v > 0 then mi else microModeToQR mi) = mode)
    (hsub : (mode = 13 ∧ takeBits st p 4 = some (1, p1)) ∨ (mode ≠ 13 ∧ p1 = p))
    (hw : cciBits mode v = some w)
    (hcnt : takeBits st p1 w = some (cnt, p2))
    (hpc : parseChars st mode cnt p2 [] = .ok (bytes, p3)) :
    parseStream.go v st tlen mb (f + 1) pos eci sa acc
      = parseStream.go v st tlen mb f p3 none sa
          (acc ++ [{ mode := mode, eci := eci, count := cnt, bytes := bytes }]) := by
  rw [parseStream.go]
  simp only [h, hmi, h3, h7, hmode, Bool.false_eq_true, if_false]
  rcases hsub with ⟨h13, hs⟩ | ⟨h13, rfl⟩
  · subst h13
    simp only [hs, hw, hcnt, hpc, beq_self_eq_true, if_true]
  · have : (mode == 13) = false := by simpa using h13
    simp only [this, hw, hcnt, hpc, Bool.false_eq_true, if_false]

/-! ### all-zero prefixes -/

theorem allZero_append (a b : List Nat) : allZero (a ++ b) = (allZero a && allZero b) := by
  simp [allZero, List.all_append]

theorem allZero_replicate (n : Nat) : allZero (List.replicate n 0) = true := by
  simp [allZero]

theorem bitsToNat_allZero (l : List Nat) (h : allZero l = true) : Spec.bitsToNat l = 0 := by
  unfold Spec.bitsToNat
  induction l with
  | nil => rfl
  | cons x xs ih =>
    simp only [allZero, List.all_cons, Bool.and_eq_true, beq_iff_eq] at h
    obtain ⟨rfl, hx⟩ := h
    simp only [List.foldl_cons]
    exact ih (by simpa [allZero] using hx)

/-- if the first `k` elements are zero, a prefix no longer than `k` is zero -/
theorem allZero_take_prefix (a b : List Nat) (k : Nat) (hk : a.length ≤ k)
    (h : allZero ((a ++ b).take k) = true) : allZero a = true := by
  rw [List.take_append, List.take_of_length_le hk, allZero_append, Bool.and_eq_true] at h
  exact h.1

theorem appendBits_allZero (x w : Nat) (hx : x < 2 ^ w) (h : allZero (appendBits x w) = true) : x = 0 := by
  have := bitsToNat_allZero _ h
  rwa [Proofs.Roundtrip.bits_roundtrip w x hx] at this

/-- a header whose mode indicator is non-zero, or whose count is non-zero and lies within the first
    `k` bits, is not taken for a terminator -/
theorem not_allZero_header (mi mb cnt cl k : Nat) (sub rest : List Nat)
    (hmi : mi < 2 ^ mb) (hcnt : cnt < 2 ^ cl) (hk : mb ≤ k)
    (h : mi ≠ 0 ∨ (sub = [] ∧ cnt ≠ 0 ∧ mb + cl ≤ k)) :
    allZero ((appendBits mi mb ++ sub ++ appendBits cnt cl ++ rest).take k) = false := by
  cases hz : allZero ((appendBits mi mb ++ sub ++ appendBits cnt cl ++ rest).take k) with
  | false => rfl
  | true =>
    exfalso
    rcases h with h | ⟨rfl, h, hk2⟩
    · rw [List.append_assoc, List.append_assoc] at hz
      have := allZero_take_prefix _ _ k (by rw [Proofs.Roundtrip.appendBits_length]; exact hk) hz
      exact h (appendBits_allZero mi mb hmi this)
    · rw [List.append_nil] at hz
      have := allZero_take_prefix _ _ k
        (by rw [List.length_append, Proofs.Roundtrip.appendBits_length, Proofs.Roundtrip.appendBits_length]; exact hk2) hz
      rw [allZero_append, Bool.and_eq_true] at this
      exact h (appendBits_allZero cnt cl hcnt this.2)

/-! ### `writeSegment` taken apart -/

theorem verRange_nat : ∀ n : Nat, n < 44 →
    (if ((n : Int) - 3) < 1 then ((n : Int) - 3) else Gen.version_range ((n : Int) - 3))
      = Spec.verClass ((n : Int) - 3) := by
  decide +kernel

theorem verRange_eq (v : Int) (h1 : -3 ≤ v) (h2 : v ≤ 40) :
    (if v < 1 then v else Gen.version_range v) = Spec.verClass v := by
  have h := verRange_nat (v + 3).toNat (by omega)
  have e : (((v + 3).toNat : Nat) : Int) - 3 = v := by omega
  rw [e] at h
  exact h

theorem cciLen_eq (m : Nat) (v : Int) (h1 : -3 ≤ v) (h2 : v ≤ 40) :
    cciLen m (if v < 1 then v else Gen.version_range v) = cciBits m v := by
  unfold cciLen cciBits
  rw [Proofs.Sizing.cci_table_eq, verRange_eq v h1 h2]

/-- the ECI header of `write_segment` -/
def eciPart (s : Model.Segment) (eci : Bool) (eciNumber : String → Option Nat) : R (List Nat) :=
  if eci && s.mode == Gen.MODE_BYTE && s.encoding != some Gen.DEFAULT_BYTE_ENCODING then
    match eciNumber (s.encoding.getD "") with
    | some n => pure (appendBits Gen.MODE_ECI 4 ++ appendBits n 8)
    | none => throw PyErr.valueError
  else pure []

/-- the mode indicator of `write_segment` -/
def modePart (mode : Nat) (v : Int) : R (List Nat) :=
  if !(decide (v < 1)) then
    pure (appendBits mode 4 ++ (if mode == Gen.MODE_HANZI then appendBits 1 4 else []))
  else if v > Gen.VERSION_M1 then
    match assoc Gen.MODE_TO_MICRO_MODE_MAPPING mode with
    | some mm => pure (appendBits mm (v + 3).toNat)
    | none => throw PyErr.keyError
  else pure []

theorem writeSegment_eq (s : Model.Segment) (v : Int) (eci : Bool) (f : String → Option Nat) :
    writeSegment s v eci f =
      (eciPart s eci f).bind (fun e => (modePart s.mode v).bind (fun m =>
        match cciLen s.mode (if v < 1 then v else Gen.version_range v) with
        | some cl => .ok (e ++ m ++ appendBits s.charCount cl ++ s.bits)
        | none => .error PyErr.keyError)) := by
  unfold writeSegment eciPart modePart
  dsimp only
  have inner : ∀ e : List Nat,
      (if (!decide (v < 1)) = true then
        (do let modeBits ← (pure (appendBits s.mode 4 ++ if (s.mode == Gen.MODE_HANZI) = true then appendBits 1 4 else []) : R (List Nat))
            match cciLen s.mode (if v < 1 then v else Gen.version_range v) with
            | some cl => pure (e ++ modeBits ++ appendBits s.charCount cl ++ s.bits)
            | _ => throw PyErr.keyError)
      else if v > Gen.VERSION_M1 then
        match assoc Gen.MODE_TO_MICRO_MODE_MAPPING s.mode with
        | some mm => (do
            let modeBits ← (pure (appendBits mm (v + 3).toNat) : R (List Nat))
            match cciLen s.mode (if v < 1 then v else Gen.version_range v) with
            | some cl => pure (e ++ modeBits ++ appendBits s.charCount cl ++ s.bits)
            | _ => throw PyErr.keyError)
        | none => (do
            let modeBits ← (throw PyErr.keyError : R (List Nat))
            match cciLen s.mode (if v < 1 then v else Gen.version_range v) with
            | some cl => pure (e ++ modeBits ++ appendBits s.charCount cl ++ s.bits)
            | _ => throw PyErr.keyError)
      else (do
        let modeBits ← (pure [] : R (List Nat))
        match cciLen s.mode (if v < 1 then v else Gen.version_range v) with
        | some cl => pure (e ++ modeBits ++ appendBits s.charCount cl ++ s.bits)
        | _ => throw PyErr.keyError))
      = Except.bind (if (!decide (v < 1)) = true then
            pure (appendBits s.mode 4 ++ (if s.mode == Gen.MODE_HANZI then appendBits 1 4 else []))
          else if v > Gen.VERSION_M1 then
            match assoc Gen.MODE_TO_MICRO_MODE_MAPPING s.mode with
            | some mm => pure (appendBits mm (v + 3).toNat)
            | none => throw PyErr.keyError
          else pure []) (fun m =>
        match cciLen s.mode (if v < 1 then v else Gen.version_range v) with
        | some cl => .ok (e ++ m ++ appendBits s.charCount cl ++ s.bits)
        | none => .error PyErr.keyError) := by
    intro e
    by_cases c2 : (!decide (v < 1)) = true
    · rw [if_pos c2, if_pos c2]; cases cciLen s.mode (if v < 1 then v else Gen.version_range v) <;> rfl
    · rw [if_neg c2, if_neg c2]
      by_cases c3 : v > Gen.VERSION_M1
      · rw [if_pos c3, if_pos c3]
        cases assoc Gen.MODE_TO_MICRO_MODE_MAPPING s.mode with
        | none => rfl
        | some mm => cases cciLen s.mode (if v < 1 then v else Gen.version_range v) <;> rfl
      · rw [if_neg c3, if_neg c3]; cases cciLen s.mode (if v < 1 then v else Gen.version_range v) <;> rfl
  by_cases c1 : (eci && s.mode == Gen.MODE_BYTE && s.encoding != some Gen.DEFAULT_BYTE_ENCODING) = true
  · rw [if_pos c1, if_pos c1]
    cases f (s.encoding.getD "") with
    | none => rfl
    | some n => exact inner _
  · rw [if_neg c1, if_neg c1]
    exact inner _

/-- a successful `write_segment` is ECI header ++ mode indicator ++ character count ++ payload -/
theorem writeSegment_ok (s : Model.Segment) (v : Int) (eci : Bool) (f : String → Option Nat)
    (bits : List Nat) (h1 : -3 ≤ v) (h2 : v ≤ 40) (hw : writeSegment s v eci f = .ok bits) :
    ∃ e m cl, eciPart s eci f = .ok e ∧ modePart s.mode v = .ok m ∧ cciBits s.mode v = some cl ∧
      bits = e ++ m ++ appendBits s.charCount cl ++ s.bits := by
  rw [writeSegment_eq] at hw
  cases he : eciPart s eci f with
  | error x => rw [he] at hw; cases hw
  | ok e =>
    cases hm : modePart s.mode v with
    | error x => rw [he, hm] at hw; cases hw
    | ok m =>
      rw [he, hm, cciLen_eq s.mode v h1 h2] at hw
      cases hc : cciBits s.mode v with
      | none => rw [hc] at hw; cases hw
      | some cl =>
        rw [hc] at hw
        exact ⟨e, m, cl, rfl, rfl, rfl, (Except.ok.inj hw).symm⟩

theorem cci_isSome {m : Nat} {v : Int} {cl : Nat} (h : cciBits m v = some cl) :
    (cciBits m v).isSome = true := by rw [h]; rfl

/-- the mode indicator written by the model, as the parser will see it -/
theorem modePart_spec (mode : Nat) (v : Int) (m : List Nat) (cl : Nat) (h1 : -3 ≤ v) (h2 : v ≤ 40)
    (hmode : mode ∈ [1, 2, 4, 8, 13]) (hm : modePart mode v = .ok m) (hc : cciBits mode v = some cl) :
    ∃ mi, m = appendBits mi (modeBits v) ++ (if mode = 13 then appendBits 1 4 else [])
      ∧ mi < 2 ^ modeBits v
      ∧ (if v > 0 then mi else microModeToQR mi) = mode
      ∧ (decide (v > 0) && mi == 3) = false ∧ (decide (v > 0) && mi == 7) = false
      ∧ modeBits v ≤ terminatorLen v
      ∧ (mi ≠ 0 ∨ (mode ≠ 13 ∧ modeBits v + cl ≤ terminatorLen v)) := by
  by_cases hv : v > 0
  · have hnm : (!decide (v < 1)) = true := by simp; omega
    unfold modePart at hm
    rw [if_pos hnm] at hm
    have hm' := (Except.ok.inj hm).symm
    refine ⟨mode, ?_, ?_, ?_, ?_, ?_, ?_, ?_⟩
    · rw [hm']; unfold modeBits; rw [if_pos hv]
      simp only [List.mem_cons, List.mem_nil_iff, or_false] at hmode
      rcases hmode with rfl | rfl | rfl | rfl | rfl <;> rfl
    · unfold modeBits; rw [if_pos hv]
      simp only [List.mem_cons, List.mem_nil_iff, or_false] at hmode
      rcases hmode with rfl | rfl | rfl | rfl | rfl <;> decide
    · rw [if_pos hv]
    · simp only [List.mem_cons, List.mem_nil_iff, or_false] at hmode
      rcases hmode with rfl | rfl | rfl | rfl | rfl <;> simp
    · simp only [List.mem_cons, List.mem_nil_iff, or_false] at hmode
      rcases hmode with rfl | rfl | rfl | rfl | rfl <;> simp
    · unfold modeBits terminatorLen; rw [if_pos hv, if_pos hv]; omega
    · left
      simp only [List.mem_cons, List.mem_nil_iff, or_false] at hmode
      rcases hmode with rfl | rfl | rfl | rfl | rfl <;> decide
  · have hv' : v = -3 ∨ v = -2 ∨ v = -1 ∨ v = 0 := by omega
    simp only [List.mem_cons, List.mem_nil_iff, or_false] at hmode
    rcases hv' with rfl | rfl | rfl | rfl <;> rcases hmode with rfl | rfl | rfl | rfl | rfl <;>
      first
        | exact absurd (cci_isSome hc) (by decide)
        | (cases hm; cases hc; first | exact ⟨0, by decide⟩ | exact ⟨1, by decide⟩ | exact ⟨2, by decide⟩ | exact ⟨3, by decide⟩)

/-! ### one written segment is read back by one iteration of the loop -/

theorem shape_mode (data : List Nat) (s : Model.Segment) (h : Proofs.Modes.SegShape data s) :
    s.mode ∈ [1, 2, 4, 8, 13] := by
  rcases h with h | h | h | h | h <;> rw [h.1] <;> decide

theorem shape_count_pos (data : List Nat) (s : Model.Segment) (h : Proofs.Modes.SegShape data s)
    (hne : data ≠ []) (h1 : s.mode = 1) : s.charCount ≠ 0 := by
  have hl : data.length ≠ 0 := fun h0 => hne (List.eq_nil_of_length_eq_zero h0)
  rcases h with h | h | h | h | h
  · rw [h.2.1]; exact hl
  all_goals (have := h.1; omega)

theorem go_body (data : List Nat) (mode : Option Nat) (enc : String) (s : Model.Segment) (v : Int)
    (m : List Nat) (cl : Nat) (pre post st : List Nat) (fuel : Nat) (eci : Option Nat)
    (sa : Option (Nat × Nat × Nat)) (acc : List Spec.Segment)
    (h1 : -3 ≤ v) (h2 : v ≤ 40) (hd : ∀ b ∈ data, b < 256) (hne : data ≠ [])
    (hm : mode ∈ [none, some 1, some 2, some 4, some 8, some 13])
    (hs : Model.makeSegment data mode enc = .ok s)
    (hmp : modePart s.mode v = .ok m) (hc : cciBits s.mode v = some cl) (hcount : s.charCount < 2 ^ cl)
    (hst : st = pre ++ (m ++ appendBits s.charCount cl ++ s.bits) ++ post) :
    parseStream.go v st (terminatorLen v) (modeBits v) (fuel + 1) pre.length eci sa acc
      = parseStream.go v st (terminatorLen v) (modeBits v) fuel
          (pre.length + (m ++ appendBits s.charCount cl ++ s.bits).length) none sa
          (acc ++ [{ mode := s.mode, eci := eci, count := s.charCount, bytes := data }]) := by
  have hshape := Proofs.Modes.makeSegment_ok_cases data mode enc s hm hs
  have hmode := shape_mode data s hshape
  obtain ⟨mi, hmeq, hmi, hmq, h3, h7, hmt, hnz⟩ := modePart_spec s.mode v m cl h1 h2 hmode hmp hc
  generalize hsubdef : (if s.mode = 13 then appendBits 1 4 else []) = sub at hmeq
  have hsublen : (s.mode = 13 ∧ sub = appendBits 1 4) ∨ (s.mode ≠ 13 ∧ sub = []) := by
    by_cases h13 : s.mode = 13
    · rw [if_pos h13] at hsubdef; exact Or.inl ⟨h13, hsubdef.symm⟩
    · rw [if_neg h13] at hsubdef; exact Or.inr ⟨h13, hsubdef.symm⟩
  subst hmeq
  have hst' : st = pre ++ (appendBits mi (modeBits v) ++ sub ++ appendBits s.charCount cl ++ (s.bits ++ post)) := by
    rw [hst]; simp only [List.append_assoc]
  -- not a terminator
  have hz : allZero (((st.drop pre.length).take (min (st.length - pre.length) (terminatorLen v)))) = false := by
    rw [hst', List.drop_left]
    have hlen : (pre ++ (appendBits mi (modeBits v) ++ sub ++ appendBits s.charCount cl ++ (s.bits ++ post))).length
        - pre.length = modeBits v + sub.length + cl + (s.bits ++ post).length := by
      simp only [List.length_append, Proofs.Roundtrip.appendBits_length]; omega
    rw [hlen]
    apply not_allZero_header mi (modeBits v) s.charCount cl _ sub (s.bits ++ post) hmi hcount (by omega)
    rcases hnz with hnz | ⟨hn13, hle⟩
    · exact Or.inl hnz
    · by_cases hmi0 : mi = 0
      · right
        rcases hsublen with ⟨h13, _⟩ | ⟨_, hsub⟩
        · exact absurd h13 hn13
        · refine ⟨hsub, ?_, ?_⟩
          · apply shape_count_pos data s hshape hne
            by_cases hv : v > 0
            · rw [if_pos hv, hmi0] at hmq
              rw [← hmq] at hmode; exact absurd hmode (by decide)
            · rw [if_neg hv, hmi0] at hmq; exact hmq.symm
          · rw [hsub]; simp only [List.length_nil]; omega
      · exact Or.inl hmi0
  have h : (st.length - pre.length == 0 ||
      allZero ((st.drop pre.length).take (min (st.length - pre.length) (terminatorLen v)))) = false := by
    rw [hz, Bool.or_false]
    cases hr : (st.length - pre.length == 0) with
    | false => rfl
    | true =>
      rw [beq_iff_eq] at hr
      rw [hr] at hz
      simp [allZero] at hz
  -- the fields
  have tmi := Proofs.Roundtrip.takeBits_at st pre (sub ++ appendBits s.charCount cl ++ (s.bits ++ post))
    mi (modeBits v) pre.length (by rw [hst']; simp only [List.append_assoc]) rfl hmi
  have tsub : (s.mode = 13 ∧ takeBits st (pre.length + modeBits v) 4 = some (1, pre.length + modeBits v + sub.length))
      ∨ (s.mode ≠ 13 ∧ pre.length + modeBits v + sub.length = pre.length + modeBits v) := by
    rcases hsublen with ⟨h13, hsub⟩ | ⟨h13, hsub⟩
    · left
      refine ⟨h13, ?_⟩
      have := Proofs.Roundtrip.takeBits_at st (pre ++ appendBits mi (modeBits v))
        (appendBits s.charCount cl ++ (s.bits ++ post)) 1 4 (pre.length + modeBits v)
        (by rw [hst', hsub]; simp only [List.append_assoc])
        (by rw [List.length_append, Proofs.Roundtrip.appendBits_length]) (by decide)
      rw [this, hsub, Proofs.Roundtrip.appendBits_length]
    · right
      exact ⟨h13, by rw [hsub]; rfl⟩
  have tcnt := Proofs.Roundtrip.takeBits_at st (pre ++ appendBits mi (modeBits v) ++ sub) (s.bits ++ post)
    s.charCount cl (pre.length + modeBits v + sub.length)
    (by rw [hst']; simp only [List.append_assoc])
    (by simp only [List.length_append, Proofs.Roundtrip.appendBits_length]) hcount
  have tpc := Proofs.Roundtrip.segment_roundtrip data mode enc s
    (pre ++ appendBits mi (modeBits v) ++ sub ++ appendBits s.charCount cl) post hd hm hs
  have hst'' : pre ++ appendBits mi (modeBits v) ++ sub ++ appendBits s.charCount cl ++ s.bits ++ post = st := by
    rw [hst']; simp only [List.append_assoc]
  rw [hst''] at tpc
  have hpos : (pre ++ appendBits mi (modeBits v) ++ sub ++ appendBits s.charCount cl).length
      = pre.length + modeBits v + sub.length + cl := by
    simp only [List.length_append, Proofs.Roundtrip.appendBits_length]
  rw [hpos] at tpc
  rw [go_segment v st (terminatorLen v) (modeBits v) fuel pre.length eci sa acc mi s.mode
    (pre.length + modeBits v) (pre.length + modeBits v + sub.length) cl s.charCount
    (pre.length + modeBits v + sub.length + cl) (pre.length + modeBits v + sub.length + cl + s.bits.length) data
    h tmi h3 h7 hmq tsub hc tcnt tpc]
  congr 1
  simp only [List.length_append, Proofs.Roundtrip.appendBits_length]
  omega

/-! ### the tail stops the loop -/

theorem go_stop_tail (v : Int) (st : List Nat) (tlen mb f : Nat) (sa : Option (Nat × Nat × Nat))
    (acc : List Spec.Segment) (bits tail : List Nat) (hst : st = bits ++ tail)
    (hz : allZero (tail.take (min tail.length tlen)) = true) :
    parseStream.go v st tlen mb (f + 1) bits.length none sa acc
      = .ok { sa := sa, segments := acc, endPos := bits.length } := by
  apply go_stop
  have hl : st.length - bits.length = tail.length := by rw [hst, List.length_append]; omega
  rw [hl, hst, List.drop_left, hz, Bool.or_true]

theorem allZero_take_replicate_append (n k : Nat) (l : List Nat) (h : k ≤ n) :
    allZero ((List.replicate n 0 ++ l).take k) = true := by
  rw [List.take_append_of_le_length (by rw [List.length_replicate]; exact h), List.take_replicate]
  exact allZero_replicate _

theorem isoTail_zero (v : Int) (cap len k : Nat) (hk : k ≤ min (cap - len) (terminatorLen v)) :
    allZero ((isoTail v cap len).take k) = true := by
  unfold isoTail
  dsimp only
  generalize (if fourBitFinal v = true then cap - 4 else cap) = full
  split
  · have := allZero_take_replicate_append (cap - len) k [] (by omega)
    rwa [List.append_nil] at this
  · rw [List.append_assoc]
    exact allZero_take_replicate_append _ k _ (by omega)

theorem d1Tail_zero (v : Int) (cap len k : Nat) (hk : k ≤ min (cap - len) (terminatorLen v)) :
    allZero ((d1Tail v cap len).take k) = true := by
  unfold d1Tail
  dsimp only
  split
  · exact isoTail_zero v cap len k hk
  · exact allZero_take_replicate_append _ k _ (by omega)

theorem d1Tail_length (v : Int) (cap len : Nat) (e : Option Nat)
    (hc : Model.capacity v e = some cap) (hl : len ≤ cap) :
    len + (d1Tail v cap len).length = cap := by
  obtain ⟨h1, h2, hc4, hc0⟩ := Proofs.Stream.cap_facts e hc
  unfold d1Tail
  dsimp only
  split
  · exact Proofs.Stream.isoTail_length v cap len e hc hl
  · next hcond =>
    simp only [Bool.or_eq_true, bne_iff_ne, decide_eq_true_eq, not_or, Bool.not_eq_true] at hcond
    obtain ⟨⟨hf, hal⟩, hlt⟩ := hcond
    obtain ⟨hm, hge⟩ := hc0 hf
    simp only [List.length_append, List.length_replicate, Proofs.Stream.padCodewords_length]
    omega

/-! ### ECI header -/

theorem go_eci_hdr (v : Int) (st pre post : List Nat) (n fuel : Nat) (eci : Option Nat)
    (sa : Option (Nat × Nat × Nat)) (acc : List Spec.Segment) (hv : v > 0) (hn : n < 128)
    (hst : st = pre ++ (appendBits 7 4 ++ appendBits n 8) ++ post) :
    parseStream.go v st (terminatorLen v) (modeBits v) (fuel + 1) pre.length eci sa acc
      = parseStream.go v st (terminatorLen v) (modeBits v) fuel (pre.length + 12) (some n) sa acc := by
  have ht : terminatorLen v = 4 := by unfold terminatorLen; rw [if_pos hv]
  have hb : modeBits v = 4 := by unfold modeBits; rw [if_pos hv]
  rw [ht, hb]
  have hn' : n < 2 ^ 8 := by omega
  have hst' : st = pre ++ (appendBits 7 4 ++ [] ++ appendBits n 8 ++ post) := by
    rw [hst]; simp only [List.append_assoc, List.append_nil]
  have hlen : st.length - pre.length = 12 + post.length := by
    rw [hst]; simp only [List.length_append, Proofs.Roundtrip.appendBits_length]; omega
  have h : (st.length - pre.length == 0 ||
      allZero ((st.drop pre.length).take (min (st.length - pre.length) 4))) = false := by
    rw [hlen]
    have : (12 + post.length == 0) = false := by simp
    rw [this, Bool.false_or, hst', List.drop_left]
    exact not_allZero_header 7 4 n 8 _ [] post (by decide) hn' (by omega) (Or.inl (by decide))
  have t1 := Proofs.Roundtrip.takeBits_at st pre (appendBits n 8 ++ post) 7 4 pre.length
    (by rw [hst]; simp only [List.append_assoc]) rfl (by decide)
  have t2 := Proofs.Roundtrip.takeBits_at st (pre ++ appendBits 7 4) post n 8 (pre.length + 4)
    (by rw [hst]; simp only [List.append_assoc])
    (by rw [List.length_append, Proofs.Roundtrip.appendBits_length]) hn'
  exact go_eci v st 4 4 fuel pre.length eci sa acc (pre.length + 4) n (pre.length + 4 + 8) h hv t1 t2 hn

/-! ### whole streams with one segment -/

theorem eciPart_false (s : Model.Segment) (f : String → Option Nat) : eciPart s false f = .ok [] := rfl

/-- single segment without ECI header, followed by any tail that starts like a terminator -/
theorem single_tail (data : List Nat) (mode : Option Nat) (enc : String) (s : Model.Segment)
    (v : Int) (bits tail : List Nat) (f : String → Option Nat)
    (h1 : -3 ≤ v) (h2 : v ≤ 40) (hd : ∀ b ∈ data, b < 256) (hne : data ≠ [])
    (hm : mode ∈ [none, some 1, some 2, some 4, some 8, some 13])
    (hs : Model.makeSegment data mode enc = .ok s)
    (hw : Model.writeSegment s v false f = .ok bits)
    (hcount : ∀ w, Spec.cciBits s.mode v = some w → s.charCount < 2 ^ w)
    (htail : allZero (tail.take (min tail.length (terminatorLen v))) = true) :
    Spec.parseStream v (bits ++ tail)
      = .ok { sa := none, segments := [{ mode := s.mode, eci := none, count := s.charCount, bytes := data }],
              endPos := bits.length } := by
  obtain ⟨e, m, cl, he, hmp, hc, hb⟩ := writeSegment_ok s v false f bits h1 h2 hw
  rw [eciPart_false] at he
  cases he
  rw [List.nil_append] at hb
  have hst : bits ++ tail = [] ++ (m ++ appendBits s.charCount cl ++ s.bits) ++ tail := by
    rw [hb]; rfl
  have step := go_body data mode enc s v m cl [] tail (bits ++ tail) ((bits ++ tail).length + 1) none none []
    h1 h2 hd hne hm hs hmp hc (hcount cl hc) hst
  rw [← hb] at step
  simp only [List.length_nil, Nat.zero_add, List.nil_append] at step
  unfold parseStream
  dsimp only
  refine Eq.trans step ?_
  exact go_stop_tail v (bits ++ tail) _ _ _ none _ bits tail rfl htail

theorem isoTail_stop (v : Int) (cap len : Nat) (e : Option Nat)
    (hc : Model.capacity v e = some cap) (hl : len ≤ cap) :
    allZero ((isoTail v cap len).take (min (isoTail v cap len).length (terminatorLen v))) = true := by
  have := Proofs.Stream.isoTail_length v cap len e hc hl
  exact isoTail_zero v cap len _ (by omega)

theorem d1Tail_stop (v : Int) (cap len : Nat) (e : Option Nat)
    (hc : Model.capacity v e = some cap) (hl : len ≤ cap) :
    allZero ((d1Tail v cap len).take (min (d1Tail v cap len).length (terminatorLen v))) = true := by
  have := d1Tail_length v cap len e hc hl
  exact d1Tail_zero v cap len _ (by omega)

/-- single byte segment with ECI header (QR), followed by any tail that starts like a terminator -/
theorem single_tail_eci (data : List Nat) (enc : String) (s : Model.Segment)
    (v : Int) (n : Nat) (bits tail : List Nat) (f : String → Option Nat)
    (h1 : 1 ≤ v) (h2 : v ≤ 40) (hd : ∀ b ∈ data, b < 256) (hne : data ≠ [])
    (hs : Model.makeSegment data (some 4) enc = .ok s) (henc : enc ≠ "iso-8859-1")
    (hf : f enc = some n) (hn : n < 128)
    (hw : Model.writeSegment s v true f = .ok bits)
    (hcount : ∀ w, Spec.cciBits s.mode v = some w → s.charCount < 2 ^ w)
    (htail : allZero (tail.take (min tail.length (terminatorLen v))) = true) :
    Spec.parseStream v (bits ++ tail)
      = .ok { sa := none, segments := [{ mode := s.mode, eci := some n, count := s.charCount, bytes := data }],
              endPos := bits.length } := by
  obtain ⟨e, m, cl, he, hmp, hc, hb⟩ := writeSegment_ok s v true f bits (by omega) h2 hw
  have hs' := hs
  rw [Proofs.Modes.makeSegment_4, Proofs.Modes.segBody_4] at hs'
  have hsm : s.mode = 4 := by cases hs'; rfl
  have hse : s.encoding = some enc := by cases hs'; rfl
  have he' : eciPart s true f = .ok (appendBits 7 4 ++ appendBits n 8) := by
    unfold eciPart
    have hc1 : (true && s.mode == Gen.MODE_BYTE && s.encoding != some Gen.DEFAULT_BYTE_ENCODING) = true := by
      rw [hsm, hse]
      simp only [Bool.true_and, Bool.and_eq_true, bne_iff_ne, ne_eq, Option.some.injEq]
      exact ⟨by decide, henc⟩
    rw [if_pos hc1, hse]
    show (match f enc with
      | some n => (pure (appendBits Gen.MODE_ECI 4 ++ appendBits n 8) : R (List Nat))
      | none => throw PyErr.valueError) = _
    rw [hf]
    rfl
  rw [he'] at he
  cases he
  have hst : bits ++ tail = [] ++ (appendBits 7 4 ++ appendBits n 8)
      ++ ((m ++ appendBits s.charCount cl ++ s.bits) ++ tail) := by
    rw [hb]; simp only [List.append_assoc, List.nil_append]
  have step1 := go_eci_hdr v (bits ++ tail) [] _ n ((bits ++ tail).length + 1) none none [] (by omega) hn hst
  have hst2 : bits ++ tail = (appendBits 7 4 ++ appendBits n 8)
      ++ (m ++ appendBits s.charCount cl ++ s.bits) ++ tail := by
    rw [hb]; simp only [List.append_assoc]
  have step2 := go_body data (some 4) enc s v m cl (appendBits 7 4 ++ appendBits n 8) tail (bits ++ tail)
    ((bits ++ tail).length) (some n) none [] (by omega) h2 hd hne (by decide) hs hmp hc (hcount cl hc) hst2
  have hl12 : (appendBits 7 4 ++ appendBits n 8).length = 12 := by
    rw [List.length_append, Proofs.Roundtrip.appendBits_length, Proofs.Roundtrip.appendBits_length]
  have hbl : bits.length = 12 + (m ++ appendBits s.charCount cl ++ s.bits).length := by
    rw [hb]; simp only [List.length_append, Proofs.Roundtrip.appendBits_length]; omega
  rw [hl12, ← hbl] at step2
  simp only [List.length_nil, Nat.zero_add, List.nil_append] at step1 step2
  unfold parseStream
  dsimp only
  refine Eq.trans step1 (Eq.trans step2 ?_)
  have hpos : (bits ++ tail).length = ((bits ++ tail).length - 1) + 1 := by
    rw [List.length_append, hbl]; omega
  rw [hpos]
  exact go_stop_tail v (bits ++ tail) _ _ _ none _ bits tail rfl htail

/-! ### several segments -/

/-- the ECI designator `write_segment` puts in front of a segment (none: no ECI header) -/
def eciOf (s : Model.Segment) (eci : Bool) (eciNumber : String → Option Nat) : Option Nat :=
  if eci && s.mode == Gen.MODE_BYTE && s.encoding != some Gen.DEFAULT_BYTE_ENCODING then
    eciNumber (s.encoding.getD "")
  else none

theorem eciPart_ok (s : Model.Segment) (eci : Bool) (f : String → Option Nat) (e : List Nat)
    (h : eciPart s eci f = .ok e) :
    (eciOf s eci f = none ∧ e = []) ∨
    (eci = true ∧ ∃ n, eciOf s eci f = some n ∧ e = appendBits 7 4 ++ appendBits n 8) := by
  unfold eciPart at h
  unfold eciOf
  by_cases c : (eci && s.mode == Gen.MODE_BYTE && s.encoding != some Gen.DEFAULT_BYTE_ENCODING) = true
  · rw [if_pos c] at h
    rw [if_pos c]
    right
    refine ⟨by simp only [Bool.and_eq_true] at c; exact c.1.1, ?_⟩
    cases hf : f (s.encoding.getD "") with
    | none => rw [hf] at h; cases h
    | some n => rw [hf] at h; exact ⟨n, rfl, (Except.ok.inj h).symm⟩
  · rw [if_neg c] at h
    rw [if_neg c]
    exact Or.inl ⟨rfl, (Except.ok.inj h).symm⟩

theorem cci_table_pos : cciTable.all (fun x => decide (0 < x.2.2)) = true := by decide +kernel

theorem cci_pos {m : Nat} {v : Int} {cl : Nat} (h : cciBits m v = some cl) : 0 < cl := by
  unfold cciBits at h
  rw [Option.map_eq_some_iff] at h
  obtain ⟨x, hx, rfl⟩ := h
  have := List.all_eq_true.mp cci_table_pos x (List.mem_of_find?_eq_some hx)
  simpa using this

/-- what is required of one (content, segment) pair -/
def ItemOk (v : Int) (eci : Bool) (f : String → Option Nat) (x : List Nat × Model.Segment) : Prop :=
  (∀ b ∈ x.1, b < 256) ∧ x.1 ≠ [] ∧
  (∃ mode enc, mode ∈ [none, some 1, some 2, some 4, some 8, some 13] ∧ Model.makeSegment x.1 mode enc = .ok x.2) ∧
  (∀ w, cciBits x.2.mode v = some w → x.2.charCount < 2 ^ w) ∧
  (∀ n, eciOf x.2 eci f = some n → n < 128)

def expected (eci : Bool) (f : String → Option Nat) (x : List Nat × Model.Segment) : Spec.Segment :=
  { mode := x.2.mode, eci := eciOf x.2 eci f, count := x.2.charCount, bytes := x.1 }

/-- one written segment (with or without ECI header) costs at most two iterations, and no more
    iterations than it has bits -/
theorem go_written (v : Int) (eci : Bool) (f : String → Option Nat) (x : List Nat × Model.Segment)
    (bits pre post st : List Nat) (sa : Option (Nat × Nat × Nat)) (acc : List Spec.Segment)
    (h1 : -3 ≤ v) (h2 : v ≤ 40) (hev : eci = true → 1 ≤ v) (hx : ItemOk v eci f x)
    (hw : Model.writeSegment x.2 v eci f = .ok bits) (hst : st = pre ++ bits ++ post) :
    ∃ u, u ≤ bits.length ∧ ∀ fuel,
      parseStream.go v st (terminatorLen v) (modeBits v) (fuel + u) pre.length none sa acc
        = parseStream.go v st (terminatorLen v) (modeBits v) fuel (pre.length + bits.length) none sa
            (acc ++ [expected eci f x]) := by
  obtain ⟨hd, hne, ⟨mode, enc, hm, hs⟩, hcount, hn⟩ := hx
  obtain ⟨e, m, cl, he, hmp, hc, hb⟩ := writeSegment_ok x.2 v eci f bits h1 h2 hw
  have hcl := cci_pos hc
  rcases eciPart_ok x.2 eci f e he with ⟨hnone, rfl⟩ | ⟨heci, n, hsome, rfl⟩
  · refine ⟨1, ?_, ?_⟩
    · rw [hb]; simp only [List.length_append, Proofs.Roundtrip.appendBits_length]; omega
    · intro fuel
      rw [List.nil_append] at hb
      have := go_body x.1 mode enc x.2 v m cl pre post st fuel none sa acc h1 h2 hd hne hm hs hmp hc
        (hcount cl hc) (by rw [hst, hb])
      rw [← hb] at this
      rw [this]
      unfold expected
      rw [hnone]
  · refine ⟨2, ?_, ?_⟩
    · rw [hb]; simp only [List.length_append, Proofs.Roundtrip.appendBits_length]; omega
    · intro fuel
      have step1 := go_eci_hdr v st pre ((m ++ appendBits x.2.charCount cl ++ x.2.bits) ++ post) n (fuel + 1)
        none sa acc (by have := hev heci; omega) (hn n hsome) (by rw [hst, hb]; simp only [List.append_assoc])
      have step2 := go_body x.1 mode enc x.2 v m cl (pre ++ (appendBits 7 4 ++ appendBits n 8)) post st fuel
        (some n) sa acc h1 h2 hd hne hm hs hmp hc (hcount cl hc)
        (by rw [hst, hb]; simp only [List.append_assoc])
      have hl : (pre ++ (appendBits 7 4 ++ appendBits n 8)).length = pre.length + 12 := by
        simp only [List.length_append, Proofs.Roundtrip.appendBits_length]
      have hbl : pre.length + 12 + (m ++ appendBits x.2.charCount cl ++ x.2.bits).length
          = pre.length + bits.length := by
        rw [hb]; simp only [List.length_append, Proofs.Roundtrip.appendBits_length]; omega
      rw [hl, hbl] at step2
      refine Eq.trans step1 (Eq.trans step2 ?_)
      unfold expected
      rw [hsome]

theorem mapM_ok_cons {α β : Type} (g : α → R β) (a : α) (as : List α) (r : List β)
    (h : (a :: as).mapM g = .ok r) :
    ∃ b bs, g a = .ok b ∧ as.mapM g = .ok bs ∧ r = b :: bs := by
  rw [List.mapM_cons] at h
  cases hg : g a with
  | error e => rw [hg] at h; cases h
  | ok b =>
    cases hgs : as.mapM g with
    | error e => rw [hg, hgs] at h; cases h
    | ok bs =>
      rw [hg, hgs] at h
      exact ⟨b, bs, rfl, rfl, (Except.ok.inj h).symm⟩

theorem go_items (v : Int) (eci : Bool) (f : String → Option Nat) (tail st : List Nat)
    (h1 : -3 ≤ v) (h2 : v ≤ 40) (hev : eci = true → 1 ≤ v) :
    ∀ (items : List (List Nat × Model.Segment)) (segBits : List (List Nat)) (pre : List Nat)
      (sa : Option (Nat × Nat × Nat)) (acc : List Spec.Segment),
      (∀ x ∈ items, ItemOk v eci f x) →
      (items.map (·.2)).mapM (fun s => Model.writeSegment s v eci f) = .ok segBits →
      st = pre ++ segBits.flatten ++ tail →
      ∃ u, u ≤ segBits.flatten.length ∧ ∀ fuel,
        parseStream.go v st (terminatorLen v) (modeBits v) (fuel + u) pre.length none sa acc
          = parseStream.go v st (terminatorLen v) (modeBits v) fuel (pre.length + segBits.flatten.length)
              none sa (acc ++ items.map (expected eci f))
  | [], segBits, pre, sa, acc, _, hw, _ => by
    cases hw
    exact ⟨0, Nat.le_refl _, fun fuel => by simp⟩
  | x :: rest, segBits, pre, sa, acc, hok, hw, hst => by
    rw [List.map_cons] at hw
    obtain ⟨b, bs, hwb, hwr, rfl⟩ := mapM_ok_cons _ _ _ _ hw
    rw [List.flatten_cons] at hst
    obtain ⟨u1, hu1, step1⟩ := go_written v eci f x b pre (bs.flatten ++ tail) st sa acc h1 h2 hev
      (hok x (List.mem_cons_self ..)) hwb (by rw [hst]; simp only [List.append_assoc])
    obtain ⟨u2, hu2, step2⟩ := go_items v eci f tail st h1 h2 hev rest bs (pre ++ b) sa (acc ++ [expected eci f x])
      (fun y hy => hok y (List.mem_cons_of_mem _ hy)) hwr (by rw [hst]; simp only [List.append_assoc])
    refine ⟨u2 + u1, by rw [List.flatten_cons, List.length_append]; omega, fun fuel => ?_⟩
    rw [← Nat.add_assoc, step1 (fuel + u2)]
    have := step2 fuel
    rw [List.length_append] at this
    rw [this, List.flatten_cons, List.length_append, Nat.add_assoc, List.map_cons, List.append_assoc]
    rfl

/-- any number of written segments, followed by any tail that starts like a terminator -/
theorem list_tail (v : Int) (eci : Bool) (f : String → Option Nat) (items : List (List Nat × Model.Segment))
    (segBits : List (List Nat)) (tail : List Nat)
    (h1 : -3 ≤ v) (h2 : v ≤ 40) (hev : eci = true → 1 ≤ v)
    (hok : ∀ x ∈ items, ItemOk v eci f x)
    (hw : (items.map (·.2)).mapM (fun s => Model.writeSegment s v eci f) = .ok segBits)
    (htail : allZero (tail.take (min tail.length (terminatorLen v))) = true) :
    Spec.parseStream v (segBits.flatten ++ tail)
      = .ok { sa := none, segments := items.map (expected eci f), endPos := segBits.flatten.length } := by
  obtain ⟨u, hu, step⟩ := go_items v eci f tail (segBits.flatten ++ tail) h1 h2 hev items segBits [] none []
    hok hw (by rw [List.nil_append])
  unfold parseStream
  dsimp only
  have hfuel : (segBits.flatten ++ tail).length + 2 = ((segBits.flatten ++ tail).length - u + 1 + 1) + u := by
    rw [List.length_append]; omega
  rw [hfuel]
  have := step ((segBits.flatten ++ tail).length - u + 1 + 1)
  simp only [List.length_nil, Nat.zero_add, List.nil_append] at this
  rw [this]
  exact go_stop_tail v (segBits.flatten ++ tail) _ _ _ none _ segBits.flatten tail rfl htail

end Proofs.StreamParse
