/-
  Proofs.C14SerRaster — outcome of the raster / text document models (`write_pbm`, `write_xbm`, `write_txt`, `write_terminal`,
  `write_terminal_compact`, `write_pam`, `write_xpm`, `write_ppm`) on a symbol-shaped matrix and arguments of the documented
  types: a document or ValueError, ValueError exactly for what the documentation names.  Helper lemmas for
  Props/C14Serializers.lean; the picture theorems of Props/C09Docs.lean are reused, not re-proved.
-/
import Proofs.C14SerColour
import Proofs.C14SerCover
import Props.C09Docs

namespace Proofs.C14Ser
open Model Model.RasterDocs Proofs.RasterDocs

/-- a border of the documented domain that is not refused has a value -/
theorem border_value (w h : Nat) (scale : Num) (border : Option Num) (hb : BorderOK border) (hnr : ¬ Props.C09.Refused scale border) :
    ∃ b, Props.C09.borderValue w h border = some b := by
  cases border with
  | none => exact ⟨_, rfl⟩
  | some x =>
    rcases hb x rfl with ⟨i, rfl⟩ | hf | hn
    · exact ⟨_, rfl⟩
    · exact absurd (Or.inr ⟨x, rfl, Or.inl hf⟩) hnr
    · exact absurd (Or.inr ⟨x, rfl, Or.inr hn⟩) hnr

/-- symbol sizes are positive -/
theorem size_pos (v : Int) (hv : -3 ≤ v) : 0 < Spec.size v := by
  unfold Spec.size
  by_cases h : v > 0 <;> simp [h] <;> omega

/-- what the document theorems of C09 need of a symbol-shaped matrix -/
theorem shaped_facts {M : List (List Nat)} {w h : Nat} (hs : SymbolShaped M w h) :
    Proofs.Raster.WellFormed M w h ∧ Bits M ∧ 0 < w ∧ 0 < h ∧ SymbolSize w := by
  obtain ⟨v, hv1, hv2, hv⟩ := hs.size
  have hw : 0 < w := by rw [hv]; exact size_pos v hv1
  refine ⟨⟨hs.rows, hs.cols⟩, hs.bits, hw, ?_, ⟨v, hv1, hv2, hv⟩⟩
  rw [hs.square]; exact hw

/-- the writers without colour arguments: ValueError exactly for a scale below 1 (after `int()`) or a negative / fractional border -/
theorem simple_outcomes (M : List (List Nat)) (w h : Nat) (hs : SymbolShaped M w h) (scale : Num) (border : Option Num) (hb : BorderOK border)
    (plain : Bool) (name : List Char) :
    (Props.C09.Refused scale border →
        pbmDoc M w h scale border plain = .error .valueError ∧ xbmDoc M w h scale border name = .error .valueError)
    ∧ (¬ Props.C09.Refused scale border →
        (∃ d, pbmDoc M w h scale border plain = .ok d) ∧ (∃ d, xbmDoc M w h scale border name = .ok d)) := by
  constructor
  · intro hr
    have := Props.C09Docs.docs_refused M w h scale border hr plain [] none none name id {} none []
    exact ⟨this.1, this.2.2.2.1⟩
  · intro hnr
    obtain ⟨b, hbv⟩ := border_value w h scale border hb hnr
    have a := Props.C09Docs.admitted_of w h scale border b hnr hbv
    obtain ⟨hM, _, _, _, _⟩ := shaped_facts hs
    constructor
    · simp only [pbmDoc, validSB_ok a, createdBy_eq, matrixIter_ok a M hM, a.okRange, bind, Except.bind, pure, Except.pure]
      exact ⟨_, rfl⟩
    · simp only [xbmDoc, validSB_ok a, matrixIter_ok a M hM, a.okRange, bind, Except.bind, pure, Except.pure]
      exact ⟨_, rfl⟩

/-- the IndexError / KeyError guards of the text writers do not fire on a 0 / 1 matrix -/
theorem grid_any (M : List (List Nat)) (w h s b : Nat) (hbits : Bits M) :
    (Spec.grid M w h s b).any (fun row => row.any (· > 1)) = false := by
  rw [List.any_eq_false]
  intro r hr
  rw [Bool.not_eq_true, List.any_eq_false]
  intro v hv
  have := grid_bits M w h s b hbits r hr v hv
  simp; omega

/-- the text writers (no scale) -/
theorem text_outcomes (M : List (List Nat)) (w h : Nat) (hs : SymbolShaped M w h) (border : Option Num) (hb : BorderOK border)
    (dark light : List Char) :
    (Props.C09.Refused (.int 1) border →
        txtDoc M w h border dark light = .error .valueError ∧ ansiDoc M w h border = .error .valueError
        ∧ compactDoc M w h border = .error .valueError)
    ∧ (¬ Props.C09.Refused (.int 1) border →
        (∃ d, txtDoc M w h border dark light = .ok d) ∧ (∃ d, ansiDoc M w h border = .ok d) ∧ (∃ d, compactDoc M w h border = .ok d)) := by
  constructor
  · intro hr
    exact Props.C09Docs.text_docs_refused M w h border hr dark light
  · intro hnr
    obtain ⟨b, hbv⟩ := border_value w h (.int 1) border hb hnr
    have a := Props.C09Docs.admitted_of w h (.int 1) border b hnr hbv
    obtain ⟨hM, hbits, _, _, _⟩ := shaped_facts hs
    have hany := grid_any M w h 1 b hbits
    refine ⟨?_, ?_, ?_⟩
    · simp only [txtDoc, matrixIter_one a M hM, hany, bind, Except.bind, pure, Except.pure]
      exact ⟨_, rfl⟩
    · simp only [ansiDoc, matrixIter_one a M hM, hany, bind, Except.bind, pure, Except.pure]
      exact ⟨_, rfl⟩
    · simp only [compactDoc, matrixIter_one a M hM, hany, bind, Except.bind, pure, Except.pure]
      exact ⟨_, rfl⟩


/-! ### `write_pam` -/

/-- the colour logic of `write_pam` behind the parsing of the two colours never fails -/
theorem planTail_ok (s : List Nat) (bg : Option (List Nat)) : ∃ p, planTail s bg = .ok p := by
  unfold planTail
  simp only [pure, Except.pure]
  repeat (first | exact ⟨_, rfl⟩ | split)

/-- `not dark`: `None`, or a malformed colour (empty string, empty tuple) -/
theorem falsy_bad (c : ColorArg) (h : isFalsy c = true) : c = .none ∨ malformed c = true := by
  cases c with
  | none => exact Or.inl rfl
  | str s =>
    right
    simp only [isFalsy, List.isEmpty_iff] at h
    rw [String.toList_eq_nil_iff] at h
    subst h; decide
  | ints l =>
    right
    simp only [isFalsy, List.isEmpty_iff] at h
    subst h; rfl
  | floatAlpha r g b k => simp [isFalsy] at h

theorem not_falsy_ne (c : ColorArg) (h : ¬ isFalsy c = true) : c ≠ .none := by
  intro hc; subst hc; exact h rfl

/-- `write_pam`: refused exactly for scale / border, a dark colour that is `None` or malformed, a malformed light colour -/
theorem pam_outcome (M : List (List Nat)) (w h : Nat) (hs : SymbolShaped M w h) (scale : Num) (border : Option Num) (hb : BorderOK border)
    (dark light : ColorArg) :
    Clean (pamDoc M w h scale border (some dark) (some light))
    ∧ (pamDoc M w h scale border (some dark) (some light) = .error .valueError ↔
        Props.C09.Refused scale border ∨ dark = .none ∨ malformed dark = true ∨ malformed light = true) := by
  by_cases hr : Props.C09.Refused scale border
  · have := (Props.C09Docs.docs_refused M w h scale border hr false [] (some dark) (some light) [] id {} none []).2.2.1
    exact ⟨Or.inr this, fun _ => Or.inl hr, fun _ => this⟩
  obtain ⟨b, hbv⟩ := border_value w h scale border hb hr
  have a := Props.C09Docs.admitted_of w h scale border b hr hbv
  obtain ⟨hM, _, _, _, _⟩ := shaped_facts hs
  by_cases hf : isFalsy dark = true
  · have : pamDoc M w h scale border (some dark) (some light) = .error .valueError := by
      simp [pamDoc, hf, bind, Except.bind, throw, throwThe, MonadExceptOf.throw]
    refine ⟨Or.inr this, fun _ => ?_, fun _ => this⟩
    rcases falsy_bad dark hf with h1 | h1
    · exact Or.inr (Or.inl h1)
    · exact Or.inr (Or.inr (Or.inl h1))
  have hdn := not_falsy_ne dark hf
  have hd := rgbOrRgba_clean dark hdn
  by_cases hmd : malformed dark = true
  · have : pamDoc M w h scale border (some dark) (some light) = .error .valueError := by
      simp [pamDoc, hf, validSB_ok a, pamPlan_eq, hd.2 hmd, bind, Except.bind]
    exact ⟨Or.inr this, fun _ => Or.inr (Or.inr (Or.inl hmd)), fun _ => this⟩
  obtain ⟨s0, hs0⟩ := hd.1 (by simpa using hmd)
  by_cases hml : malformed light = true
  · have hln : light ≠ .none := by intro hc; subst hc; simp [malformed_none] at hml
    have hl := (rgbOrRgba_clean light hln).2 hml
    have : pamDoc M w h scale border (some dark) (some light) = .error .valueError := by
      cases light with
      | none => exact absurd rfl hln
      | _ => simp [pamDoc, hf, validSB_ok a, pamPlan_eq, hs0, hl, bind, Except.bind]
    exact ⟨Or.inr this, fun _ => Or.inr (Or.inr (Or.inr hml)), fun _ => this⟩
  have hplan : ∃ p, pamPlan dark light = .ok p := by
    rw [pamPlan_eq]
    cases hl : light with
    | none =>
      obtain ⟨p, hp⟩ := planTail_ok s0 none
      exact ⟨p, by simp only [hs0, hp, bind, Except.bind, pure, Except.pure]⟩
    | _ =>
      obtain ⟨t, ht⟩ := (rgbOrRgba_clean light (by rw [hl]; simp)).1 (by simpa using hml)
      rw [hl] at ht
      obtain ⟨p, hp⟩ := planTail_ok s0 (some t)
      exact ⟨p, by simp only [hs0, ht, hp, bind, Except.bind, pure, Except.pure]⟩
  obtain ⟨p, hplan⟩ := hplan
  have : ∃ d, pamDoc M w h scale border (some dark) (some light) = .ok d := by
    simp only [pamDoc, Option.getD_some, hf, validSB_ok a, hplan, createdBy_eq, matrixIter_ok a M hM, a.okRange, bind, Except.bind, pure, Except.pure]
    exact ⟨_, rfl⟩
  obtain ⟨d, hdoc⟩ := this
  refine ⟨Or.inl ⟨d, hdoc⟩, fun he => ?_, fun hor => ?_⟩
  · rw [hdoc] at he; cases he
  · rcases hor with h1 | h1 | h1 | h1
    · exact absurd h1 hr
    · exact absurd h1 hdn
    · exact absurd h1 hmd
    · exact absurd h1 hml

/-! ### `write_xpm` -/

/-- `write_xpm`: refused exactly for scale / border, a colour that is neither `None` nor opaque -/
theorem xpm_outcome (M : List (List Nat)) (w h : Nat) (hs : SymbolShaped M w h) (scale : Num) (border : Option Num) (hb : BorderOK border)
    (dark light : ColorArg) (name : List Char) :
    Clean (xpmDoc M w h scale border (some dark) (some light) name)
    ∧ (xpmDoc M w h scale border (some dark) (some light) name = .error .valueError ↔
        Props.C09.Refused scale border ∨ (dark ≠ .none ∧ opaqueCol dark = false) ∨ (light ≠ .none ∧ opaqueCol light = false)) := by
  by_cases hr : Props.C09.Refused scale border
  · have := (Props.C09Docs.docs_refused M w h scale border hr false [] (some dark) (some light) name id {} none []).2.2.2.2.1
    exact ⟨Or.inr this, fun _ => Or.inl hr, fun _ => this⟩
  obtain ⟨b, hbv⟩ := border_value w h scale border hb hr
  have a := Props.C09Docs.admitted_of w h scale border b hr hbv
  obtain ⟨hM, _, _, _, _⟩ := shaped_facts hs
  by_cases hd : dark ≠ .none ∧ opaqueCol dark = false
  · have hx := (xpmColour_clean dark).2 hd.1 hd.2
    have : xpmDoc M w h scale border (some dark) (some light) name = .error .valueError := by
      simp [xpmDoc, validSB_ok a, hx, bind, Except.bind]
    exact ⟨Or.inr this, fun _ => Or.inr (Or.inl hd), fun _ => this⟩
  obtain ⟨st, hst⟩ := (xpmColour_clean dark).1 (by
    by_cases h1 : dark = .none
    · exact Or.inl h1
    · right; cases ho : opaqueCol dark with
      | true => rfl
      | false => exact absurd ⟨h1, ho⟩ hd)
  by_cases hl : light ≠ .none ∧ opaqueCol light = false
  · have hx := (xpmColour_clean light).2 hl.1 hl.2
    have : xpmDoc M w h scale border (some dark) (some light) name = .error .valueError := by
      simp [xpmDoc, validSB_ok a, hst, hx, bind, Except.bind]
    exact ⟨Or.inr this, fun _ => Or.inr (Or.inr hl), fun _ => this⟩
  obtain ⟨bg, hbg⟩ := (xpmColour_clean light).1 (by
    by_cases h1 : light = .none
    · exact Or.inl h1
    · right; cases ho : opaqueCol light with
      | true => rfl
      | false => exact absurd ⟨h1, ho⟩ hl)
  have : ∃ d, xpmDoc M w h scale border (some dark) (some light) name = .ok d := by
    simp only [xpmDoc, Option.getD_some, validSB_ok a, hst, hbg, matrixIter_ok a M hM, a.okRange, bind, Except.bind, pure, Except.pure]
    exact ⟨_, rfl⟩
  obtain ⟨d, hdoc⟩ := this
  refine ⟨Or.inl ⟨d, hdoc⟩, fun he => ?_, fun hor => ?_⟩
  · rw [hdoc] at he; cases he
  · rcases hor with h1 | h1 | h1
    · exact absurd h1 hr
    · exact absurd h1 hd
    · exact absurd h1 hl

/-! ### ppm -/

/-- `mapM` with a function that keeps the key and parses the colour -/
theorem mapM_entries_aux {β : Type} (g : ColorArg → R β) (good : ColorArg → Bool) (f : Nat × ColorArg → R (Nat × β))
    (hg : ∀ c, (good c = true → ∃ x, g c = .ok x) ∧ (good c = false → g c = .error .valueError))
    (hfe : ∀ e : Nat × ColorArg, ∀ x, g e.2 = .ok x → f e = .ok (e.1, x))
    (hfb : ∀ e : Nat × ColorArg, g e.2 = .error .valueError → f e = .error .valueError)
    (l : List (Nat × ColorArg)) :
    ((∀ e ∈ l, good e.2 = true) → ∃ cm, l.mapM f = .ok cm ∧ ∀ t, (cmGet cm t).isSome = (cmGet l t).isSome)
    ∧ ((∃ e ∈ l, good e.2 = false) → l.mapM f = .error .valueError) := by
  induction l with
  | nil =>
    refine ⟨fun _ => ⟨[], rfl, fun _ => rfl⟩, fun ⟨e, he, _⟩ => by cases he⟩
  | cons e l ih =>
    rw [List.mapM_cons]
    cases hge : good e.2 with
    | false =>
      have := hfb e ((hg e.2).2 hge)
      refine ⟨fun hall => ?_, fun _ => ?_⟩
      · have := hall e (by simp); rw [hge] at this; cases this
      · rw [this]; rfl
    | true =>
      obtain ⟨x, hx⟩ := (hg e.2).1 hge
      have hx := hfe e x hx
      refine ⟨fun hall => ?_, fun ⟨e', he', hb'⟩ => ?_⟩
      · obtain ⟨cm, hcm, hkeys⟩ := ih.1 (fun e' he' => hall e' (by simp [he']))
        refine ⟨(e.1, x) :: cm, by rw [hx, hcm]; rfl, fun t => ?_⟩
        by_cases ht : (e.1 == t) = true
        · simp [cmGet, ht]
        · have := hkeys t
          simp only [cmGet] at this
          simp [cmGet, ht, this]
      · have : ∃ e ∈ l, good e.2 = false := by
          rcases List.mem_cons.1 he' with rfl | hm
          · rw [hge] at hb'; cases hb'
          · exact ⟨e', hm, hb'⟩
        rw [hx, ih.2 this]; rfl

/-- `mapM` over the entries of a colour map with a parser that succeeds exactly on the "good" entries and fails with ValueError
    otherwise: keys are kept / ValueError -/
theorem mapM_entries {β : Type} (g : ColorArg → R β) (good : ColorArg → Bool)
    (hg : ∀ c, (good c = true → ∃ x, g c = .ok x) ∧ (good c = false → g c = .error .valueError))
    (l : List (Nat × ColorArg)) :
    ((∀ e ∈ l, good e.2 = true) →
        ∃ cm, l.mapM (fun e => do let c ← g e.2; pure (e.1, c)) = .ok cm ∧ ∀ t, (cmGet cm t).isSome = (cmGet l t).isSome)
    ∧ ((∃ e ∈ l, good e.2 = false) → l.mapM (fun e => do let c ← g e.2; pure (e.1, c)) = .error .valueError) :=
  mapM_entries_aux g good _ hg
    (fun e x hx => by simp only [hx, bind, Except.bind, pure, Except.pure])
    (fun e hx => by simp only [hx, bind, Except.bind]) l

/-- `write_ppm` through `colorful`: refused exactly for scale / border, an entry of the colour map that is not an opaque colour
    (`None` included: "Transparency is not supported") -/
theorem ppm_outcome (M : List (List Nat)) (w h : Nat) (hs : SymbolShaped M w h) (scale : Num) (border : Option Num) (hb : BorderOK border)
    (dark light : ColorArg) (o : TypeOpts ColorArg) :
    Clean (savePpm M w h (some dark) (some light) o scale border)
    ∧ (savePpm M w h (some dark) (some light) o scale border = .error .valueError ↔
        Props.C09.Refused scale border ∨ ∃ e ∈ makeColormap w h dark light o, opaqueCol e.2 = false) := by
  have hsave : savePpm M w h (some dark) (some light) o scale border = ppmDoc M w h (makeColormap w h dark light o) scale border := rfl
  rw [hsave]
  by_cases hr : Props.C09.Refused scale border
  · have := (Props.C09Docs.docs_refused M w h scale border hr false (makeColormap w h dark light o) none none [] id {} none []).2.1
    exact ⟨Or.inr this, fun _ => Or.inl hr, fun _ => this⟩
  obtain ⟨b, hbv⟩ := border_value w h scale border hb hr
  have a := Props.C09Docs.admitted_of w h scale border b hr hbv
  obtain ⟨hM, _, _, _, hsz⟩ := shaped_facts hs
  have hsq := hs.square
  subst hsq
  have hmap := mapM_entries colorToRgb opaqueCol colorToRgb_clean (makeColormap h h dark light o)
  simp only [bind, Except.bind, pure, Except.pure] at hmap
  by_cases hbad : ∃ e ∈ makeColormap h h dark light o, opaqueCol e.2 = false
  · have hras : ppmRaster M h h (makeColormap h h dark light o) scale border = .error .valueError := by
      by_cases hany : (makeColormap h h dark light o).any (fun e => e.2 == .none) = true
      · simp [ppmRaster, a.okScale, a.okBorder, hany, bind, Except.bind, throw, throwThe, MonadExceptOf.throw]
      · simp only [ppmRaster, a.okScale, a.okBorder, hany, hmap.2 hbad, bind, Except.bind, pure, Except.pure]
        rfl
    have : ppmDoc M h h (makeColormap h h dark light o) scale border = .error .valueError := by
      simp [ppmDoc, hras, bind, Except.bind]
    exact ⟨Or.inr this, fun _ => Or.inr hbad, fun _ => this⟩
  have hall : ∀ e ∈ makeColormap h h dark light o, opaqueCol e.2 = true := by
    intro e he
    cases ho : opaqueCol e.2 with
    | true => rfl
    | false => exact absurd ⟨e, he, ho⟩ hbad
  have hany : (makeColormap h h dark light o).any (fun e => e.2 == .none) = false := by
    rw [List.any_eq_false]
    intro e he hn
    have h1 := hall e he
    rw [beq_iff_eq] at hn
    rw [hn, opaqueCol_none] at h1
    cases h1
  obtain ⟨cm, hcm, hkeys⟩ := hmap.1 hall
  have a' : Admitted h h (.int scale.toInt) border b := ⟨a.okScale, a.okBorder, a.okRange⟩
  obtain ⟨rows, hrows, hcov⟩ := iterVerbose_covered M h hsz (.int scale.toInt) border b a' dark light o
  have hguard : rows.any (fun row => row.any (fun t => (cmGet cm t).isNone)) = false := by
    rw [List.any_eq_false]
    intro r hr'
    rw [Bool.not_eq_true, List.any_eq_false]
    intro t ht
    have := hcov r hr' t ht
    rw [← hkeys t] at this
    cases hx : cmGet cm t with
    | none => rw [hx] at this; cases this
    | some _ => simp
  have : ∃ d, ppmDoc M h h (makeColormap h h dark light o) scale border = .ok d := by
    simp only [ppmDoc, ppmRaster, a.okScale, a.okBorder, hany, hcm, hrows, hguard, createdBy_eq, a.okRange, bind, Except.bind, pure, Except.pure]
    exact ⟨_, rfl⟩
  obtain ⟨d, hdoc⟩ := this
  refine ⟨Or.inl ⟨d, hdoc⟩, fun he => ?_, fun hor => ?_⟩
  · rw [hdoc] at he; cases he
  · rcases hor with h1 | h1
    · exact absurd h1 hr
    · exact absurd h1 hbad

end Proofs.C14Ser
