/-
  Proofs.C14SerPng — outcome of the PNG document model (`write_png` through `colorful`, Model/Png.lean + Model/RasterDocs.lean)
  on a symbol-shaped matrix and arguments of the documented types: a file, `struct.error` (a value does not fit a 32-bit
  field: `.ok none`) or ValueError — never KeyError (colour map look-ups), IndexError (alignment table), LookupError (the
  stand-in colour search: the CSS table has more distinct values than a palette can hold) or TypeError; ValueError exactly
  for what the documentation names.  Helper lemmas for Props/C14Serializers.lean.
-/
import Proofs.C14SerColour
import Proofs.C14SerCover
import Proofs.PngIndex
import Proofs.PngTwoTone
import Props.C09Docs

namespace Proofs.C14Ser
open Model Model.RasterDocs Proofs.RasterDocs Proofs.Png

/-- 17 pairwise distinct values of the CSS colour table -/
private def W17 : List (Nat × Nat × Nat) := (Gen.Colors.NAME2RGB_VALUES.eraseDups).take 17

private theorem w17_rgb : (W17.map (fun c => PColor.rgb c.1 c.2.1 c.2.2)).Nodup ∧ (W17.map (fun c => PColor.rgb c.1 c.2.1 c.2.2)).length = 17
  ∧ ∀ x ∈ W17, x ∈ Gen.Colors.NAME2RGB_VALUES := by decide +kernel

private theorem w17_rgba : (W17.map (fun c => PColor.rgba c.1 c.2.1 c.2.2 0)).Nodup ∧ (W17.map (fun c => PColor.rgba c.1 c.2.1 c.2.2 0)).length = 17 := by
  decide +kernel

/-- whatever the palette, the candidate list of `standIn` holds 17 pairwise distinct colours -/
private theorem candidates_many (palette : List PColor) :
    ∃ D : List PColor, D.Nodup ∧ D.length = 17 ∧ ∀ x ∈ D, x ∈ standInCandidates palette := by
  have hsub : ∀ (f : Nat × Nat × Nat → PColor), ∀ x ∈ W17.map f, x ∈ Gen.Colors.NAME2RGB_VALUES.map f := by
    intro f x hx
    obtain ⟨e, he, rfl⟩ := List.mem_map.1 hx
    exact List.mem_map.2 ⟨e, w17_rgb.2.2 e he, rfl⟩
  unfold standInCandidates
  cases h1 : palette[1]? with
  | none => exact ⟨_, w17_rgb.1, w17_rgb.2.1, hsub _⟩
  | some c =>
    cases c with
    | rgb r g b => exact ⟨_, w17_rgb.1, w17_rgb.2.1, hsub _⟩
    | rgba r g b a => exact ⟨_, w17_rgba.1, w17_rgba.2, hsub _⟩
    | transparent => exact ⟨_, w17_rgba.1, w17_rgba.2, hsub _⟩

/-- the stand-in colour for "transparent" is always found: a palette holds at most 16 colours, the table of CSS colours has more
    distinct values — no StopIteration -/
theorem standIn_total (palette : List PColor) (hlen : palette.length ≤ 16) : ∃ c, standIn palette = .ok c := by
  unfold standIn
  cases hfind : (standInCandidates palette).find? (fun c => !palette.contains c) with
  | some c => exact ⟨c, rfl⟩
  | none =>
    exfalso
    obtain ⟨D, hnd, hl, hsub⟩ := candidates_many palette
    have := nodup_length_le D palette hnd (fun x hx => by
      have := List.find?_eq_none.1 hfind x (hsub x hx)
      simpa using this)
    omega

/-! ### the steps of `write_png` -/

private theorem parseColormap_cons (e : Nat × ColorArg) (cm : List (Nat × ColorArg)) :
    (∀ err, pngColor e.2 = .error err → parseColormap (e :: cm) = .error err)
    ∧ (∀ c err, pngColor e.2 = .ok c → parseColormap cm = .error err → parseColormap (e :: cm) = .error err)
    ∧ (∀ c rest, pngColor e.2 = .ok c → parseColormap cm = .ok rest → parseColormap (e :: cm) = .ok ((e.1, c) :: rest)) := by
  unfold parseColormap
  rw [List.mapM_cons]
  simp only [bind, Except.bind, pure, Except.pure]
  refine ⟨?_, ?_, ?_⟩
  · intro err h1; rw [h1]
  · intro c err h1 h2; rw [h1]; simp only; rw [h2]
  · intro c rest h1 h2; rw [h1]; simp only; rw [h2]

/-- parsing the colour map: succeeds iff no entry is a malformed colour, ValueError otherwise -/
theorem parseColormap_clean (cm : List (Nat × ColorArg)) :
    ((∀ e ∈ cm, malformed e.2 = false) → ∃ clrMap, parseColormap cm = .ok clrMap)
    ∧ ((∃ e ∈ cm, malformed e.2 = true) → parseColormap cm = .error .valueError) := by
  induction cm with
  | nil =>
    refine ⟨fun _ => ⟨[], rfl⟩, ?_⟩
    rintro ⟨e, he, _⟩; cases he
  | cons e cm ih =>
    obtain ⟨k1, k2, k3⟩ := parseColormap_cons e cm
    have hc := pngColor_clean e.2
    cases hm : malformed e.2 with
    | true =>
      refine ⟨fun h => ?_, fun _ => k1 _ (hc.2 hm)⟩
      have := h e (by simp)
      rw [hm] at this; cases this
    | false =>
      obtain ⟨c, hcc⟩ := hc.1 hm
      constructor
      · intro h
        obtain ⟨rest, hr⟩ := ih.1 (fun x hx => h x (by simp [hx]))
        exact ⟨_, k3 c rest hcc hr⟩
      · rintro ⟨x, hx, hxm⟩
        rcases List.mem_cons.1 hx with rfl | hx
        · rw [hm] at hxm; cases hxm
        · exact k2 c _ hcc (ih.2 ⟨x, hx, hxm⟩)

/-- the palette step cannot fail for at most 16 colours (its only failure is the stand-in search) -/
theorem paletteFrom_total (P0 : List PColor) (clrMap : List (Nat × PColor)) (hlen : P0.length ≤ 16) :
    ∃ p, paletteFrom P0 clrMap = .ok p := by
  unfold paletteFrom
  simp only [bind, Except.bind, pure, Except.pure]
  split
  · split
    · obtain ⟨T, hT⟩ := standIn_total (P0.filter (·.isRgba) ++ P0.filter (fun c => !c.isRgba)) (by rw [length_plteOrder]; exact hlen)
      rw [hT]
      exact ⟨_, rfl⟩
    · exact ⟨_, rfl⟩
  · split <;> exact ⟨_, rfl⟩

/-- `buildPalette` on a colour map of at most 16 entries -/
theorem buildPalette_total (setOrder : List PColor → List PColor) (hset : SetOrderOK setOrder) (clrMap : List (Nat × PColor))
    (hlen : clrMap.length ≤ 16) : ∃ p, buildPalette setOrder clrMap = .ok p := by
  have hl : (palette0 setOrder clrMap).length ≤ 16 := by
    have := nodup_length_le (palette0 setOrder clrMap) (clrMap.map (·.2)) (nodup_palette0 setOrder hset clrMap)
      (fun x hx => (mem_palette0 setOrder hset clrMap x).1 hx)
    rw [List.length_map] at this
    omega
  exact paletteFrom_total (palette0 setOrder clrMap) clrMap hl

/-- the colour indexes: no IndexError (alignment table), no KeyError (every reported module type has a colour) -/
theorem indexRows_total (p : PaletteInfo) (M : List (List Nat)) (w : Nat) (hs : SymbolShaped M w w)
    (dark light : ColorArg) (o : TypeOpts ColorArg)
    (hcov : ∀ t, (cmGet (makeColormap w w dark light o) t).isSome = true → (cmGet p.clrMap t).isNone = false) :
    ∃ idx, indexRows p M w w = .ok idx := by
  unfold indexRows
  by_cases hv : useVerbose p = true
  · obtain ⟨A0, hA0⟩ := symbol_alignment w hs.size
    have hr0 : ∃ rows, matrixIterVerbose M w w (.int 1) (some (.int 0)) = .ok rows := by
      unfold matrixIterVerbose
      have e1 : checkValidBorder (some (Num.int 0)) = .ok () := rfl
      have e2 : checkValidScale (Num.int 1).toInt = .ok () := rfl
      have e3 : borderForRange w w (some (Num.int 0)) = .ok 0 := rfl
      simp only [e1, e2, e3, hA0, bind, Except.bind, pure, Except.pure]
      exact ⟨_, rfl⟩
    obtain ⟨rows, hr⟩ := hr0
    have hcovered : ∀ r ∈ rows, ∀ t ∈ r, (cmGet (makeColormap w w dark light o) t).isSome = true := by
      obtain ⟨A, _, hrows⟩ := matrixIterVerbose_unit M w w rows hr
      intro r hr' t ht
      rw [hrows] at hr'
      obtain ⟨y, _, rfl⟩ := List.mem_map.1 hr'
      obtain ⟨x, _, rfl⟩ := List.mem_map.1 ht
      exact colormap_covers w hs.size dark light o M A 0 y x
    simp only [hv, if_true, bind, Except.bind, hr]
    have hany : rows.any (fun row => row.any (fun t => (cmGet p.clrMap t).isNone)) = false := by
      rw [List.any_eq_false]
      intro r hr'
      simp only [List.any_eq_true, not_exists, not_and]
      intro t ht
      rw [hcov t (hcovered r hr' t ht)]
      simp
    rw [hany]
    exact ⟨_, rfl⟩
  · have hv' : useVerbose p = false := by simpa using hv
    simp only [hv', Bool.false_eq_true, if_false, bind, Except.bind]
    have hany : M.any (fun row => row.any (fun v => decide (v > 1))) = false := by
      rw [List.any_eq_false]
      intro r hr'
      simp only [List.any_eq_true, not_exists, not_and, decide_eq_true_eq]
      intro x hx
      have := hs.bits r hr' x hx
      omega
    rw [hany]
    exact ⟨_, rfl⟩

/-- `write_png` once scale and border are accepted (border absent or an `int`): a picture, or ValueError iff a colour is malformed -/
theorem writePng_outcome (setOrder : List PColor → List PColor) (hset : SetOrderOK setOrder) (M : List (List Nat)) (w : Nat)
    (hs : SymbolShaped M w w) (dark light : ColorArg) (o : TypeOpts ColorArg) (scale : Num) (border : Option Num) (b : Nat)
    (h1 : checkValidScale scale.toInt = .ok ()) (h2 : checkValidBorder border = .ok ()) (h5 : borderForRange w w border = .ok b) :
    ((∀ e ∈ makeColormap w w dark light o, malformed e.2 = false) →
        ∃ out, writePng setOrder M w w (makeColormap w w dark light o) scale border = .ok out)
    ∧ ((∃ e ∈ makeColormap w w dark light o, malformed e.2 = true) →
        writePng setOrder M w w (makeColormap w w dark light o) scale border = .error .valueError) := by
  obtain ⟨hgood, hbad⟩ := parseColormap_clean (makeColormap w w dark light o)
  have hform : ∀ colormap, writePng setOrder M w w colormap scale border = (do
    checkValidScale scale.toInt
    checkValidBorder border
    let clrMap ← parseColormap colormap
    let p ← buildPalette setOrder clrMap
    if (!useVerbose p && ((cmGet p.clrMap Gen.TYPE_QUIET_ZONE).isNone || (cmGet p.clrMap Gen.TYPE_FINDER_PATTERN_DARK).isNone)) = true then
      throw PyErr.keyError
    if (borderPositive w w border && (cmGet p.clrMap Gen.TYPE_QUIET_ZONE).isNone) = true then throw PyErr.keyError
    let b ← borderForRange w w border
    let idx ← indexRows p M w w
    pure ({ width := (w + 2 * b) * scale.toInt.toNat, height := (w + 2 * b) * scale.toInt.toNat, depth := p.depth,
            ctype := if p.isGrey then 0 else 3, plte := plteBytes p, trns := trnsBytes p,
            idat := pngStream idx w p.depth scale.toInt.toNat b (typeIndex p Gen.TYPE_QUIET_ZONE) } : PngOut)) := fun _ => rfl
  rw [hform]
  simp only [h1, h2, bind, Except.bind]
  constructor
  · intro hall
    obtain ⟨clrMap, h3⟩ := hgood hall
    have hlen : clrMap.length ≤ 16 := by
      rw [parseColormap_length _ _ h3]
      have := Props.C09Png.makeColormap_length w w dark light o
      omega
    obtain ⟨p, h4⟩ := buildPalette_total setOrder hset clrMap hlen
    obtain ⟨_, hnone, _, _⟩ := buildPalette_facts setOrder hset clrMap p h4 hlen
    have hcov : ∀ t, (cmGet (makeColormap w w dark light o) t).isSome = true → (cmGet p.clrMap t).isNone = false := by
      intro t ht
      cases hc : cmGet (makeColormap w w dark light o) t with
      | none => rw [hc] at ht; cases ht
      | some a =>
        obtain ⟨c, _, hcc⟩ := (parseColormap_get _ _ h3 t).1 a hc
        cases hp : cmGet p.clrMap t with
        | none => rw [(hnone t).1 hp] at hcc; cases hcc
        | some _ => rfl
    have hq : (cmGet p.clrMap Gen.TYPE_QUIET_ZONE).isNone = false :=
      hcov _ (by rw [colormap_quiet_zone]; rfl)
    have hf : (cmGet p.clrMap Gen.TYPE_FINDER_PATTERN_DARK).isNone = false :=
      hcov _ (by rw [colormap_finder_dark]; rfl)
    obtain ⟨idx, h6⟩ := indexRows_total p M w hs dark light o hcov
    simp only [h3, h4, hq, hf, h5, h6, Bool.or_false, Bool.and_false, Bool.false_eq_true, if_false, pure, Except.pure]
    exact ⟨_, rfl⟩
  · intro hex
    rw [hbad hex]

/-- the `dpi` argument: ValueError iff negative -/
theorem dpiPpm_clean (dpi : Option Dpi) :
    (dpiBad dpi = true → dpiPpm dpi = .error .valueError) ∧ (dpiBad dpi = false → ∃ ppm, dpiPpm dpi = .ok ppm) := by
  cases dpi with
  | none => exact ⟨(fun h => by cases h), (fun _ => ⟨0, rfl⟩)⟩
  | some d =>
    simp only [dpiBad, dpiPpm]
    cases ht : d.truthy with
    | false => exact ⟨(fun h => by simp at h), (fun _ => ⟨0, rfl⟩)⟩
    | true =>
      by_cases hn : d.int < 0
      · simp [hn, throw, throwThe, MonadExceptOf.throw]
      · simp [hn, pure, Except.pure]

/-- `write_png` through `colorful` -/
theorem png_outcome (setOrder : List PColor → List PColor) (hset : SetOrderOK setOrder) (M : List (List Nat)) (w h : Nat)
    (hs : SymbolShaped M w h) (scale : Num) (border : Option Num) (hb : BorderOK border) (dark light : ColorArg) (o : TypeOpts ColorArg)
    (dpi : Option Dpi) (comp : List Nat) :
    ((∃ f, savePngFile setOrder M w h (some dark) (some light) o scale border dpi comp = .ok f)
      ∨ savePngFile setOrder M w h (some dark) (some light) o scale border dpi comp = .error .valueError)
    ∧ (savePngFile setOrder M w h (some dark) (some light) o scale border dpi comp = .error .valueError ↔
        Props.C09.Refused scale border ∨ dpiBad dpi = true ∨ ∃ e ∈ makeColormap w h dark light o, malformed e.2 = true) := by
  by_cases hr : Props.C09.Refused scale border
  · have hF := (Props.C09Docs.docs_refused M w h scale border hr false [] (some dark) (some light) [] setOrder o dpi comp).2.2.2.2.2
    exact ⟨Or.inr hF, fun _ => Or.inl hr, fun _ => hF⟩
  · have hsq := hs.square.symm
    subst hsq
    -- the border is absent or an `int`
    have hbv : ∃ b, Props.C09.borderValue w w border = some b := by
      cases border with
      | none => exact ⟨_, rfl⟩
      | some x =>
        rcases hb x rfl with ⟨i, rfl⟩ | hx | hx
        · exact ⟨_, rfl⟩
        · exact absurd (Or.inr ⟨x, rfl, Or.inl hx⟩) hr
        · exact absurd (Or.inr ⟨x, rfl, Or.inr hx⟩) hr
    obtain ⟨b, hbv⟩ := hbv
    have a := Props.C09Docs.admitted_of w w scale border b hr hbv
    obtain ⟨hgood, hbad⟩ := writePng_outcome setOrder hset M w hs dark light o scale border b a.okScale a.okBorder a.okRange
    have hsave : ∀ bd, savePng setOrder M w w (some dark) (some light) o scale bd
        = writePng setOrder M w w (makeColormap w w dark light o) scale bd := fun _ => rfl
    have hform : savePngFile setOrder M w w (some dark) (some light) o scale border dpi comp = (do
        let ppm ← dpiPpm dpi
        let out ← writePng setOrder M w w (makeColormap w w dark light o) scale border
        if out.width ≥ 4294967296 || out.height ≥ 4294967296 || ppm ≥ 4294967296 || out.plte.length ≥ 4294967296
            || out.trns.length ≥ 4294967296 || comp.length ≥ 4294967296 then pure none
        else pure (some (pngFile out ppm comp))) := by
      unfold savePngFile
      rw [validSB_ok a]
      cases border with
      | none => rfl
      | some x =>
        cases x with
        | int i => rfl
        | float _ _ _ => simp [Props.C09.borderValue] at hbv
    rw [hform]
    obtain ⟨hd1, hd2⟩ := dpiPpm_clean dpi
    cases hdpi : dpiBad dpi with
    | true =>
      rw [hd1 hdpi]
      exact ⟨Or.inr rfl, fun _ => Or.inr (Or.inl rfl), fun _ => rfl⟩
    | false =>
      obtain ⟨ppm, hp⟩ := hd2 hdpi
      rw [hp]
      simp only [bind, Except.bind]
      by_cases hex : ∃ e ∈ makeColormap w w dark light o, malformed e.2 = true
      · rw [hbad hex]
        exact ⟨Or.inr rfl, fun _ => Or.inr (Or.inr hex), fun _ => rfl⟩
      · have hall : ∀ e ∈ makeColormap w w dark light o, malformed e.2 = false := by
          intro e he
          cases hm : malformed e.2 with
          | false => rfl
          | true => exact absurd ⟨e, he, hm⟩ hex
        obtain ⟨out, ho⟩ := hgood hall
        rw [ho]
        simp only [pure, Except.pure]
        have hok : ∃ f, (if (decide (out.width ≥ 4294967296) || decide (out.height ≥ 4294967296) || decide (ppm ≥ 4294967296)
            || decide (out.plte.length ≥ 4294967296) || decide (out.trns.length ≥ 4294967296) || decide (comp.length ≥ 4294967296)) = true
            then (Except.ok none : R (Option (List Nat))) else Except.ok (some (pngFile out ppm comp))) = .ok f := by
          split <;> exact ⟨_, rfl⟩
        obtain ⟨f, hf⟩ := hok
        rw [hf]
        refine ⟨Or.inl ⟨f, rfl⟩, (fun h => by cases h), ?_⟩
        rintro (h | h | h)
        · exact absurd h hr
        · cases h
        · exact absurd h hex

end Proofs.C14Ser
