/-
  Proofs.TieAGetBitQr — `get_bit` inside the symbol for is_micro = false (see Proofs/TieAGetBit.lean).
-/
import Proofs.TieA

set_option linter.unusedSimpArgs false
set_option linter.unusedTactic false

namespace Proofs.TieA
open Gen.Py Model

set_option maxHeartbeats 1000000 in
/-- QR Code symbols (`is_micro = False`) -/
theorem get_bit_inside_qr (w h i j : Int) (sq : Bool) (a val : Nat) (hi : 0 ≤ i ∧ i < h) (hj : 0 ≤ j ∧ j < w)
    (ha : a = 0 ∨ a = 1 ∨ a = 2) (hval : val = 0 ∨ val = 1) :
    Gen.Funcs.get_bit w h sq false i j val a = .ok (Int.ofNat (Model.getBitInside w h sq false a val i j)) := by
  have hin : (((decide ((0 : Int) ≤ i)) && (decide (i < h))) && ((decide ((0 : Int) ≤ j)) && (decide (j < w)))) = true := by
    simp [hi.1, hi.2, hj.1, hj.2]
  unfold Gen.Funcs.get_bit
  rw [if_pos hin]
  unfold Model.getBitInside Model.getBitBranch Model.branchCode Model.pick
  have hv' : (val : Int) = Int.ofNat val := rfl
  simp only [hv', index_pair _ _ val hval]
  rcases ha with h | h | h <;> subst h <;> cases sq <;>
    simp [index, Gen.TYPE_ALIGNMENT_PATTERN_LIGHT, Gen.TYPE_ALIGNMENT_PATTERN_DARK, Gen.TYPE_VERSION_LIGHT, Gen.TYPE_VERSION_DARK,
      Gen.TYPE_DARKMODULE, Gen.TYPE_TIMING_LIGHT, Gen.TYPE_TIMING_DARK, Gen.TYPE_FORMAT_LIGHT, Gen.TYPE_FORMAT_DARK,
      Gen.TYPE_FINDER_PATTERN_LIGHT, Gen.TYPE_FINDER_PATTERN_DARK, Gen.TYPE_SEPARATOR, Gen.TYPE_DATA_LIGHT, Gen.TYPE_DATA_DARK] <;>
    (try split_ifs) <;> (try simp_all) <;> (try omega)

end Proofs.TieA
