/-
  Proofs.C14SerVec — outcome of the vector document models (`write_svg` through `colorful`, `write_eps`, `write_pdf`,
  `write_tex`) on a symbol-shaped matrix and arguments of the documented types: a document or ValueError — never KeyError
  (colour map), IndexError (alignment table), LookupError (StopIteration of the EPS line iterator); ValueError exactly for
  what the documentation names.  Helper lemmas for Props/C14Serializers.lean.

  The helper lemmas live in the namespace `Proofs.C14Ser.Vec`; the four outcome theorems in `Proofs.C14Ser`.
-/
import Proofs.C14SerColour
import Proofs.C14SerCover

set_option linter.unusedSimpArgs false

namespace Proofs.C14Ser.Vec
open Model Model.Svg Model.VectorDocs Model.RoutesVec Model.Lines

/-! ### `write_eps`, `write_pdf` -/

theorem isNone_arg (c : ColorArg) : VColor.isNone (.arg c) = decide (c = .none) := by
  cases c <;> simp [VColor.isNone]

/-- the three ways the dark colour of `write_eps` / `write_pdf` is treated -/
theorem dark_cases (f : VColor → R String)
    (hf : ∀ c, (opaqueCol c = true → ∃ s, f (.arg c) = .ok s) ∧ (opaqueCol c = false → f (.arg c) = .error .valueError))
    (dark : ColorArg) :
    Svg.isBlack dark = true ∨ (Svg.isBlack dark = false ∧ opaqueCol dark = true ∧ ∃ s, f (.arg dark) = .ok s)
      ∨ (Svg.isBlack dark = false ∧ opaqueCol dark = false ∧ f (.arg dark) = .error .valueError) := by
  cases h1 : Svg.isBlack dark with
  | true => exact .inl rfl
  | false =>
    cases h2 : opaqueCol dark with
    | true => exact .inr (.inl ⟨rfl, rfl, (hf dark).1 h2⟩)
    | false => exact .inr (.inr ⟨rfl, rfl, (hf dark).2 h2⟩)

theorem light_cases (f : VColor → R String)
    (hf : ∀ c, (opaqueCol c = true → ∃ s, f (.arg c) = .ok s) ∧ (opaqueCol c = false → f (.arg c) = .error .valueError))
    (light : ColorArg) :
    light = .none ∨ (light ≠ .none ∧ opaqueCol light = true ∧ ∃ s, f (.arg light) = .ok s)
      ∨ (light ≠ .none ∧ opaqueCol light = false ∧ f (.arg light) = .error .valueError) := by
  by_cases h1 : light = .none
  · exact .inl h1
  · cases h2 : opaqueCol light with
    | true => exact .inr (.inl ⟨h1, rfl, (hf light).1 h2⟩)
    | false => exact .inr (.inr ⟨h1, rfl, (hf light).2 h2⟩)


/-! ### `write_svg` -/

/-- `mapM` over `Except` of a function that returns a value or raises ValueError -/
theorem mapM_clean {α β : Type} (f : α → R β) : ∀ (l : List α), (∀ x ∈ l, Clean (f x)) →
    Clean (l.mapM f) ∧ (l.mapM f = .error .valueError ↔ ∃ x ∈ l, f x = .error .valueError) := by
  intro l
  induction l with
  | nil => intro _; simp [Clean, pure, Except.pure]
  | cons a rest ih =>
    intro hf
    obtain ⟨ih1, ih2⟩ := ih (fun x hx => hf x (List.mem_cons_of_mem _ hx))
    rw [List.mapM_cons]
    rcases hf a List.mem_cons_self with ⟨y, hy⟩ | he
    · rcases ih1 with ⟨ys, hys⟩ | hr
      · have : ¬ ∃ x ∈ rest, f x = .error .valueError := fun hx => by rw [← ih2, hys] at hx; cases hx
        simp only [List.mem_cons, exists_eq_or_imp, hy, hys, bind, Except.bind, pure, Except.pure, Clean]
        simp [this]
      · have := ih2.1 hr
        simp only [List.mem_cons, exists_eq_or_imp, hy, hr, bind, Except.bind, pure, Except.pure, Clean]
        simp [this]
    · simp [he, bind, Except.bind, Clean]

theorem mapM_total {α β : Type} (f : α → R β) : ∀ (l : List α), (∀ x ∈ l, ∃ y, f x = .ok y) →
    ∃ ys, l.mapM f = .ok ys ∧ ys.length = l.length := by
  intro l
  induction l with
  | nil => intro _; exact ⟨[], rfl, rfl⟩
  | cons a rest ih =>
    intro hf
    obtain ⟨ys, hys, hlen⟩ := ih (fun x hx => hf x (List.mem_cons_of_mem _ hx))
    obtain ⟨y, hy⟩ := hf a List.mem_cons_self
    refine ⟨y :: ys, ?_, by simp [hlen]⟩
    rw [List.mapM_cons, hy, hys]; rfl

/-- `mapM` over rows: every result row is as long as its source row -/
theorem mapM_rows {α β : Type} (f : List α → R (List β)) (n : Nat) : ∀ (l : List (List α)),
    (∀ r ∈ l, ∃ y, f r = .ok y ∧ y.length = n) → ∃ ys, l.mapM f = .ok ys ∧ ∀ y ∈ ys, y.length = n := by
  intro l
  induction l with
  | nil => intro _; exact ⟨[], rfl, by simp⟩
  | cons a rest ih =>
    intro hf
    obtain ⟨ys, hys, hlen⟩ := ih (fun x hx => hf x (List.mem_cons_of_mem _ hx))
    obtain ⟨y, hy, hy2⟩ := hf a List.mem_cons_self
    refine ⟨y :: ys, ?_, ?_⟩
    · rw [List.mapM_cons, hy, hys]; rfl
    · intro z hz
      rcases List.mem_cons.1 hz with rfl | hz
      · exact hy2
      · exact hlen z hz

theorem vlinesGo_isSome {α κ : Type} [DecidableEq κ] (key : α → κ) : ∀ (rows : List (List α)) (j : Int),
    (∀ r ∈ rows, r ≠ []) → ∃ l, vlinesGo key j rows = some l := by
  intro rows
  induction rows with
  | nil => intro j _; exact ⟨[], rfl⟩
  | cons row rest ih =>
    intro j hne
    obtain ⟨more, hmore⟩ := ih (j + 2) (fun r hr => hne r (List.mem_cons_of_mem _ hr))
    cases row with
    | nil => exact absurd rfl (hne [] List.mem_cons_self)
    | cons c cs =>
      simp only [vlinesGo, vrowRuns, hmore]
      exact ⟨_, rfl⟩

theorem symbol_pos (M : List (List Nat)) (w h : Nat) (hs : SymbolShaped M w h) : 0 < w := by
  obtain ⟨r, hr, x, hx, _⟩ := hs.dark
  have := hs.cols r hr
  cases r with
  | nil => cases hx
  | cons a t => simp at this; omega

theorem flatMap_replicate_one {α : Type} (l : List α) : List.flatMap (List.replicate 1) l = l := by
  induction l with
  | nil => rfl
  | cons a t ih => simp [List.flatMap_cons, ih]

/-- `[colormap[mt] for mt in row]` -/
def cmRow (cm : List (Nat × ColorArg)) (row : List Nat) : R (List ColorArg) :=
  row.mapM (fun t => match cmGet cm t with | some c => pure c | none => throw PyErr.keyError)

theorem colorfulLines_eq (M : List (List Nat)) (w h b : Nat) (cm : List (Nat × ColorArg)) :
    colorfulLines M w h b cm = (do
      let rows ← matrixIterVerbose M w h (.int 1) (some (.int b))
      let crows ← rows.mapM (cmRow cm)
      match verboseLines pyKey crows with
      | some l => pure l
      | none => throw .valueError) := rfl

theorem colorfulLines_ok (M : List (List Nat)) (w : Nat) (hs : SymbolShaped M w w) (dark light : ColorArg) (to : TypeOpts ColorArg) (b : Nat) :
    ∃ l, colorfulLines M w w b (makeColormap w w dark light to) = .ok l := by
  have hw := symbol_pos M w w hs
  obtain ⟨A, hA⟩ := symbol_alignment w hs.size
  have hb1 : checkValidBorder (some (Num.int (b : Int))) = .ok () := by
    simp [checkValidBorder, Num.isFractional, Num.isNegative]; rfl
  have hb2 : borderForRange w w (some (Num.int (b : Int))) = .ok b := by
    simp [borderForRange, pure, Except.pure]
  have hsc : checkValidScale (Num.int 1).toInt = .ok () := by
    simp [checkValidScale, Num.toInt]; rfl
  have hrows : matrixIterVerbose M w w (.int 1) (some (.int b)) = .ok (iterWith (verboseCell M A w w b) w w 1 b) := by
    simp only [matrixIterVerbose, hb1, hb2, hsc, hA, bind, Except.bind, pure, Except.pure]
    rfl
  obtain ⟨crows, hcrows, hlen⟩ := mapM_rows (cmRow (makeColormap w w dark light to)) (w + 2 * b)
    (iterWith (verboseCell M A w w b) w w 1 b) (by
      intro r hr
      simp only [iterWith, scaleRow, flatMap_replicate_one, List.mem_map, List.mem_range] at hr
      obtain ⟨ii, _, rfl⟩ := hr
      obtain ⟨ys, h1, h2⟩ := mapM_total (fun t => match cmGet (makeColormap w w dark light to) t with
        | some c => (pure c : R ColorArg) | none => throw PyErr.keyError)
        (List.map (fun jj => verboseCell M A w w b ii jj) (List.range (w + 2 * b))) (by
          intro t ht
          simp only [List.mem_map, List.mem_range] at ht
          obtain ⟨jj, _, rfl⟩ := ht
          have := colormap_covers w hs.size dark light to M A b ii jj
          obtain ⟨c, hc⟩ := Option.isSome_iff_exists.1 this
          exact ⟨c, by simp only [hc]; rfl⟩)
      refine ⟨ys, h1, ?_⟩
      rw [h2]
      simp)
  obtain ⟨l, hl⟩ := vlinesGo_isSome pyKey crows (-1) (by
    intro r hr hnil
    have := hlen r hr
    rw [hnil] at this
    simp at this; omega)
  rw [colorfulLines_eq]
  simp only [hrows, hcrows, bind, Except.bind, verboseLines, hl]
  exact ⟨l, rfl⟩

/-- the body of the `mapM` of `pathElems` -/
def pathElem (allowCss3 : Bool) (p : String) (e : Entry ColorArg) : R (ColorArg × String) := do
    let clr ← match e.obj with
      | .none => pure none
      | c => do let wc ← toWebColor allowCss3 c; pure (some wc)
    pure (e.obj, pathHead p clr ++ pathD e.coords ++ "\"/>")

theorem pathElems_eq (css3 : Bool) (p : String) (d : List (Entry ColorArg)) : pathElems css3 p d = d.mapM (pathElem css3 p) := rfl

/-- a colour `_color_to_webcolor` refuses: not `None` (no call) and malformed -/
def webRefused (c : ColorArg) : Prop := c ≠ .none ∧ malformed c = true

theorem pathElem_outcome (css3 : Bool) (p : String) (e : Entry ColorArg) :
    Clean (pathElem css3 p e) ∧ (pathElem css3 p e = .error .valueError ↔ webRefused e.obj) := by
  unfold pathElem webRefused
  by_cases hn : e.obj = .none
  · simp [hn, Clean, bind, Except.bind, pure, Except.pure]
  · have hw := toWebColor_clean css3 e.obj hn
    cases hm : malformed e.obj with
    | false =>
      obtain ⟨x, hx⟩ := hw.1 hm
      cases he : e.obj <;> simp_all [Clean, bind, Except.bind, pure, Except.pure]
    | true =>
      have hx := hw.2 hm
      cases he : e.obj <;> simp_all [Clean, bind, Except.bind, pure, Except.pure]

theorem pathElems_outcome (css3 : Bool) (p : String) (d : List (Entry ColorArg)) :
    Clean (pathElems css3 p d)
    ∧ (pathElems css3 p d = .error .valueError ↔ ∃ c ∈ d.map (·.obj), webRefused c) := by
  rw [pathElems_eq]
  obtain ⟨h1, h2⟩ := mapM_clean _ d (fun e _ => (pathElem_outcome css3 p e).1)
  refine ⟨h1, h2.trans ?_⟩
  simp only [List.mem_map]
  constructor
  · rintro ⟨e, he, hx⟩
    exact ⟨e.obj, ⟨e, he, rfl⟩, (pathElem_outcome css3 p e).2.1 hx⟩
  · rintro ⟨c, ⟨e, he, rfl⟩, hx⟩
    exact ⟨e, he, (pathElem_outcome css3 p e).2.2 hx⟩

/-- the dict `coordinates` when the paths are written (`svgPainted` lists its keys) -/
def svgCoords (M : List (List Nat)) (w h : Nat) (cm : List (Nat × ColorArg)) (drawTransparent : Bool) (b : Nat) : List (Entry ColorArg) :=
  let qz := (cmGet cm Gen.TYPE_QUIET_ZONE).getD .none
  let multi := Svg.isMulticolor cm
  let needBg := !multi && qz != .none
  let lines := if multi then (match Svg.colorfulLines M w h b cm with | .ok l => l | .error _ => [])
    else Svg.plainLines M b ((cmGet cm Gen.TYPE_DATA_DARK).getD .none)
  let coords := Svg.accumulate Svg.pyKey lines
  let coords := if needBg then Svg.dictSet Svg.pyKey coords qz [(0, 0, ((w + 2 * b : Nat) : Int))] else coords
  let coords := if !drawTransparent then Svg.dictDel Svg.pyKey coords .none else coords
  coords

theorem svgPainted_eq (M : List (List Nat)) (w h : Nat) (cm : List (Nat × ColorArg)) (dt : Bool) (b : Nat) :
    svgPainted M w h cm dt b = (svgCoords M w h cm dt b).map (·.obj) := rfl

/-- `svgPaths` = the look-ups, the lines, then `pathElems` on `coordinates`, then pure text processing -/
theorem svgPaths_form (M : List (List Nat)) (w : Nat) (hs : SymbolShaped M w w) (dark light : ColorArg) (to : TypeOpts ColorArg)
    (o : Svg.Opts) (b : Nat) :
    ∃ (css3 : Bool) (p : String) (g : List (ColorArg × String) → List String),
      svgPaths M w w (makeColormap w w dark light to) o b
        = Except.bind (pathElems css3 p (svgCoords M w w (makeColormap w w dark light to) o.drawTransparent b))
            (fun v => Except.ok (g v)) := by
  unfold svgPaths svgCoords
  simp only [colormap_quiet_zone, colormap_data_dark, bind, pure, Except.pure, Option.getD_some]
  cases hm : isMulticolor (makeColormap w w dark light to) with
  | true =>
    obtain ⟨l, hl⟩ := colorfulLines_ok M w hs dark light to b
    simp only [hl, if_true]
    exact ⟨_, _, _, rfl⟩
  | false =>
    simp only [Bool.false_eq_true, if_false]
    exact ⟨_, _, _, rfl⟩

theorem svgPaths_outcome (M : List (List Nat)) (w : Nat) (hs : SymbolShaped M w w) (dark light : ColorArg) (to : TypeOpts ColorArg)
    (o : Svg.Opts) (b : Nat) :
    Clean (svgPaths M w w (makeColormap w w dark light to) o b)
    ∧ (svgPaths M w w (makeColormap w w dark light to) o b = .error .valueError ↔
        ∃ c ∈ svgPainted M w w (makeColormap w w dark light to) o.drawTransparent b,
          c ≠ .none ∧ malformed c = true) := by
  obtain ⟨css3, p, g, hg⟩ := svgPaths_form M w hs dark light to o b
  obtain ⟨h1, h2⟩ := pathElems_outcome css3 p (svgCoords M w w (makeColormap w w dark light to) o.drawTransparent b)
  unfold webRefused at h2
  rw [hg, svgPainted_eq, ← h2]
  rcases h1 with ⟨x, hx⟩ | he
  · simp [hx, Clean, Except.bind]
  · simp [he, Clean, Except.bind]

theorem unit_given (u : Option String) : (!(u.getD "").isEmpty) = true ↔ (u ≠ none ∧ u ≠ some "") := by
  cases u with
  | none => simp
  | some s => simp [String.isEmpty_iff]

theorem writeSvg_bad (M : List (List Nat)) (w h : Nat) (cm : List (Nat × ColorArg)) (o : Svg.Opts)
    (hbad : scaleBad o.scale = true ∨ borderBad o.border = true) : writeSvg M w h cm o = .error .valueError := by
  unfold writeSvg
  cases hsc : o.scale with
  | int i =>
    by_cases hi : i ≤ 0
    · simp [hi, bind, Except.bind, throw, throwThe, MonadExceptOf.throw]
    · cases hb : o.border with
      | none => simp [scaleBad, borderBad, hsc, hb, hi] at hbad
      | some j =>
        have hj : j < 0 := by simpa [scaleBad, borderBad, hsc, hb, hi] using hbad
        simp [hi, hj, bind, Except.bind, pure, Except.pure, throw, throwThe, MonadExceptOf.throw]
  | float t pos one =>
    cases pos with
    | false => simp [bind, Except.bind, throw, throwThe, MonadExceptOf.throw]
    | true =>
      cases hb : o.border with
      | none => simp [scaleBad, borderBad, hsc, hb] at hbad
      | some j =>
        have hj : j < 0 := by simpa [scaleBad, borderBad, hsc, hb] using hbad
        simp [hj, bind, Except.bind, pure, Except.pure, throw, throwThe, MonadExceptOf.throw]

theorem writeSvg_good (M : List (List Nat)) (w h : Nat) (cm : List (Nat × ColorArg)) (o : Svg.Opts)
    (h1 : scaleBad o.scale = false) (h2 : borderBad o.border = false) :
    ∃ F : List String → String, writeSvg M w h cm o =
      if (!(o.unit.getD "").isEmpty && o.omitsize) = true then .error .valueError
      else Except.bind (svgPaths M w h cm o (RoutesVec.effBorder w h o.border)) (fun v => .ok (F v)) := by
  unfold writeSvg RoutesVec.effBorder
  cases hsc : o.scale with
  | int i =>
    have hi : ¬ i ≤ 0 := by simpa [scaleBad, hsc] using h1
    cases hb : o.border with
    | none =>
      simp only [hi, bind, pure, Except.pure, throw, throwThe, MonadExceptOf.throw, if_false]
      exact ⟨_, rfl⟩
    | some j =>
      have hj : ¬ j < 0 := by simpa [borderBad, hb] using h2
      simp only [hi, hj, bind, pure, Except.pure, throw, throwThe, MonadExceptOf.throw, if_false]
      exact ⟨_, rfl⟩
  | float t pos one =>
    have hpos : pos = true := by simpa [scaleBad, hsc] using h1
    subst hpos
    cases hb : o.border with
    | none =>
      simp only [bind, pure, Except.pure, throw, throwThe, MonadExceptOf.throw, if_false]
      exact ⟨_, rfl⟩
    | some j =>
      have hj : ¬ j < 0 := by simpa [borderBad, hb] using h2
      simp only [hj, bind, pure, Except.pure, throw, throwThe, MonadExceptOf.throw, if_false]
      exact ⟨_, rfl⟩

end Proofs.C14Ser.Vec

namespace Proofs.C14Ser
open Model Model.Svg Model.VectorDocs Model.RoutesVec Model.Lines Vec

/-- `write_tex`: scale and border are all it checks -/
theorem tex_outcome (M : List (List Nat)) (w h : Nat) (o : Tex.Opts) :
    Clean (Tex.writeTex M w h o)
    ∧ (Tex.writeTex M w h o = .error .valueError ↔ scaleBad o.scale = true ∨ borderBad o.border = true) := by
  unfold Tex.writeTex Clean
  cases hsc : o.scale with
  | int i =>
    by_cases hi : i ≤ 0
    · simp [scaleBad, hi, bind, Except.bind, throw, throwThe, MonadExceptOf.throw]
    · cases hb : o.border with
      | none => simp [scaleBad, borderBad, hi, bind, Except.bind, pure, Except.pure]
      | some j =>
        by_cases hj : j < 0
        · simp [scaleBad, borderBad, hi, hj, bind, Except.bind, pure, Except.pure, throw, throwThe, MonadExceptOf.throw]
        · simp [scaleBad, borderBad, hi, hj, bind, Except.bind, pure, Except.pure]
  | float t pos one =>
    cases pos with
    | false => simp [scaleBad, bind, Except.bind, throw, throwThe, MonadExceptOf.throw]
    | true =>
      cases hb : o.border with
      | none => simp [scaleBad, borderBad, bind, Except.bind, pure, Except.pure]
      | some j =>
        by_cases hj : j < 0
        · simp [scaleBad, borderBad, hj, bind, Except.bind, pure, Except.pure, throw, throwThe, MonadExceptOf.throw]
        · simp [scaleBad, borderBad, hj, bind, Except.bind, pure, Except.pure]

/-- `write_eps` for colour arguments of the keyword universe: a dark colour that is neither black nor opaque, a light colour that
    is neither `None` nor opaque -/
theorem eps_outcome (M : List (List Nat)) (w h : Nat) (hs : SymbolShaped M w h) (o : EpsOpts) (dark light : ColorArg)
    (hd : o.dark = .arg dark) (hl : o.light = .arg light) :
    Clean (writeEps M w h o)
    ∧ (writeEps M w h o = .error .valueError ↔
        scaleBad o.scale = true ∨ borderBad o.border = true ∨ (Svg.isBlack dark = false ∧ opaqueCol dark = false)
          ∨ (light ≠ .none ∧ opaqueCol light = false)) := by
  have hp : ∀ b, ∃ toks, epsPath M b = some toks := fun b => Option.isSome_iff_exists.1 (epsPath_isSome M b hs.dark)
  have hD := dark_cases epsColor epsColor_clean dark
  have hL := light_cases epsColor epsColor_clean light
  unfold writeEps Clean
  rw [hd, hl]
  cases hsc : o.scale with
  | int i =>
    by_cases hi : i ≤ 0
    · simp [scaleBad, hi, bind, Except.bind, throw, throwThe, MonadExceptOf.throw]
    · cases hb : o.border with
      | none =>
        obtain ⟨toks, ht⟩ := hp (Gen.get_default_border_size w h).toNat
        rcases hD with h1 | ⟨h1, h2, s, h3⟩ | ⟨h1, h2, h3⟩ <;> rcases hL with g1 | ⟨g1, g2, t, g3⟩ | ⟨g1, g2, g3⟩ <;>
          simp [scaleBad, borderBad, hi, bind, Except.bind, pure, Except.pure, isNone_arg, VColor.isBlack, *]
      | some j =>
        by_cases hj : j < 0
        · simp [scaleBad, borderBad, hi, hj, bind, Except.bind, pure, Except.pure, throw, throwThe, MonadExceptOf.throw]
        · obtain ⟨toks, ht⟩ := hp j.toNat
          rcases hD with h1 | ⟨h1, h2, s, h3⟩ | ⟨h1, h2, h3⟩ <;> rcases hL with g1 | ⟨g1, g2, t, g3⟩ | ⟨g1, g2, g3⟩ <;>
            simp [scaleBad, borderBad, hi, hj, bind, Except.bind, pure, Except.pure, isNone_arg, VColor.isBlack, *]
  | float t pos one =>
    cases pos with
    | false => simp [scaleBad, bind, Except.bind, throw, throwThe, MonadExceptOf.throw]
    | true =>
      cases hb : o.border with
      | none =>
        obtain ⟨toks, ht⟩ := hp (Gen.get_default_border_size w h).toNat
        rcases hD with h1 | ⟨h1, h2, s, h3⟩ | ⟨h1, h2, h3⟩ <;> rcases hL with g1 | ⟨g1, g2, t, g3⟩ | ⟨g1, g2, g3⟩ <;>
          simp [scaleBad, borderBad, bind, Except.bind, pure, Except.pure, isNone_arg, VColor.isBlack, *]
      | some j =>
        by_cases hj : j < 0
        · simp [scaleBad, borderBad, hj, bind, Except.bind, pure, Except.pure, throw, throwThe, MonadExceptOf.throw]
        · obtain ⟨toks, ht⟩ := hp j.toNat
          rcases hD with h1 | ⟨h1, h2, s, h3⟩ | ⟨h1, h2, h3⟩ <;> rcases hL with g1 | ⟨g1, g2, t, g3⟩ | ⟨g1, g2, g3⟩ <;>
            simp [scaleBad, borderBad, hj, bind, Except.bind, pure, Except.pure, isNone_arg, VColor.isBlack, *]

/-- `write_pdf` (everything it computes before the file is written) -/
theorem pdf_outcome (M : List (List Nat)) (w h : Nat) (o : PdfOpts) (dark light : ColorArg)
    (hd : o.dark = .arg dark) (hl : o.light = .arg light) :
    Clean (pdfContent M w h o)
    ∧ (pdfContent M w h o = .error .valueError ↔
        scaleBad o.scale = true ∨ borderBad o.border = true ∨ (Svg.isBlack dark = false ∧ opaqueCol dark = false)
          ∨ (light ≠ .none ∧ opaqueCol light = false)) := by
  have hD := dark_cases (pdfColor o) (pdfColor_clean o) dark
  have hL := light_cases (pdfColor o) (pdfColor_clean o) light
  unfold pdfContent Clean
  rw [hd, hl]
  cases hsc : o.scale with
  | int i =>
    by_cases hi : i ≤ 0
    · simp [scaleBad, hi, bind, Except.bind, throw, throwThe, MonadExceptOf.throw]
    · cases hb : o.border with
      | none =>
        rcases hD with h1 | ⟨h1, h2, s, h3⟩ | ⟨h1, h2, h3⟩ <;> rcases hL with g1 | ⟨g1, g2, t, g3⟩ | ⟨g1, g2, g3⟩ <;>
          simp [scaleBad, borderBad, hi, bind, Except.bind, pure, Except.pure, isNone_arg, VColor.isBlack, *]
      | some j =>
        by_cases hj : j < 0
        · simp [scaleBad, borderBad, hi, hj, bind, Except.bind, pure, Except.pure, throw, throwThe, MonadExceptOf.throw]
        · rcases hD with h1 | ⟨h1, h2, s, h3⟩ | ⟨h1, h2, h3⟩ <;> rcases hL with g1 | ⟨g1, g2, t, g3⟩ | ⟨g1, g2, g3⟩ <;>
            simp [scaleBad, borderBad, hi, hj, bind, Except.bind, pure, Except.pure, isNone_arg, VColor.isBlack, *]
  | float t pos one =>
    cases pos with
    | false => simp [scaleBad, bind, Except.bind, throw, throwThe, MonadExceptOf.throw]
    | true =>
      cases hb : o.border with
      | none =>
        rcases hD with h1 | ⟨h1, h2, s, h3⟩ | ⟨h1, h2, h3⟩ <;> rcases hL with g1 | ⟨g1, g2, t, g3⟩ | ⟨g1, g2, g3⟩ <;>
          simp [scaleBad, borderBad, bind, Except.bind, pure, Except.pure, isNone_arg, VColor.isBlack, *]
      | some j =>
        by_cases hj : j < 0
        · simp [scaleBad, borderBad, hj, bind, Except.bind, pure, Except.pure, throw, throwThe, MonadExceptOf.throw]
        · rcases hD with h1 | ⟨h1, h2, s, h3⟩ | ⟨h1, h2, h3⟩ <;> rcases hL with g1 | ⟨g1, g2, t, g3⟩ | ⟨g1, g2, g3⟩ <;>
            simp [scaleBad, borderBad, hj, bind, Except.bind, pure, Except.pure, isNone_arg, VColor.isBlack, *]

/-- `write_svg` through `colorful`: scale, border, `unit` together with `omitsize`, a malformed colour among those that get a path
    (that `_color_is_black` / `_color_is_white` do not accept before the colour is parsed) -/
theorem svg_outcome (M : List (List Nat)) (w h : Nat) (hs : SymbolShaped M w h) (dark light : ColorArg) (to : TypeOpts ColorArg) (o : Svg.Opts) :
    Clean (saveSvg M w h (some dark) (some light) to o)
    ∧ (saveSvg M w h (some dark) (some light) to o = .error .valueError ↔
        scaleBad o.scale = true ∨ borderBad o.border = true ∨ (o.unit ≠ none ∧ o.unit ≠ some "" ∧ o.omitsize = true)
          ∨ ∃ c ∈ svgPainted M w h (makeColormap w h dark light to) o.drawTransparent (effBorder w h o.border),
              c ≠ .none ∧ malformed c = true) := by
  obtain rfl := hs.square
  obtain ⟨hP1, hP2⟩ := svgPaths_outcome M _ hs dark light to o (RoutesVec.effBorder h h o.border)
  have hU := unit_given o.unit
  unfold saveSvg Clean
  simp only [Option.getD_some]
  by_cases hbad : scaleBad o.scale = true ∨ borderBad o.border = true
  · rw [writeSvg_bad M h h _ o hbad]
    refine ⟨.inr rfl, fun _ => ?_, fun _ => rfl⟩
    rcases hbad with hb | hb
    · exact .inl hb
    · exact .inr (.inl hb)
  · have h1 : scaleBad o.scale = false := by
      cases hx : scaleBad o.scale with
      | false => rfl
      | true => exact absurd (.inl hx) hbad
    have h2 : borderBad o.border = false := by
      cases hx : borderBad o.border with
      | false => rfl
      | true => exact absurd (.inr hx) hbad
    obtain ⟨F, hF⟩ := writeSvg_good M h h (makeColormap h h dark light to) o h1 h2
    rw [hF, ← hP2]
    have hC : ((!(o.unit.getD "").isEmpty && o.omitsize) = true) ↔ (o.unit ≠ none ∧ o.unit ≠ some "" ∧ o.omitsize = true) := by
      rw [Bool.and_eq_true, hU, and_assoc]
    by_cases hc : (!(o.unit.getD "").isEmpty && o.omitsize) = true
    · rw [if_pos hc]
      exact ⟨.inr rfl, fun _ => .inr (.inr (.inl (hC.1 hc))), fun _ => rfl⟩
    · rw [if_neg hc]
      rcases hP1 with ⟨x, hx⟩ | he
      · rw [hx]
        refine ⟨.inl ⟨F x, rfl⟩, ⟨fun hh => by simp [Except.bind] at hh, fun hh => ?_⟩⟩
        rcases hh with hh | hh | hh | hh
        · rw [h1] at hh; cases hh
        · rw [h2] at hh; cases hh
        · exact absurd (hC.2 hh) hc
        · cases hh
      · rw [he]
        exact ⟨.inr rfl, fun _ => .inr (.inr (.inr rfl)), fun _ => rfl⟩

end Proofs.C14Ser
