import Proofs.RSGeneric
import Proofs.RSField
import Proofs.Stream
