import Proofs.RSGeneric
import Proofs.RSField
