import Proofs.RSGeneric
import Proofs.RSField
import Proofs.Stream
import Proofs.Mask
import Proofs.Modes
import Proofs.Roundtrip
import Proofs.Sizing
import Proofs.Lines
