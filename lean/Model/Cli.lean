/-
  Model.Cli — hand-written executable model of the option plumbing of segno/cli.py, of the
  extension / kind dispatch of `writers.save` and of the file naming of `QRCodeSequence.save`.
  Tables (`_EXT_TO_KW_MAPPING`, `_VALID_SERIALIZERS`) come from `Gen.Sigs`, regenerated from the
  repository on every run.  `argparse` itself is a runtime service: the parsed configuration
  (`vars(parse_args(argv))`) is an input.  Strings are `List Char` here so that the theorems in
  `Props/C12.lean` quantify over all strings; `str.lower` is modelled on ASCII letters.
-/
import Gen.Sigs
import Model.Encoder

namespace Model.Cli
open Gen (PyV)

abbrev Str := List Char

/-- `str.lower` on one character (ASCII letters; everything else unchanged) -/
def lowerC : Char → Char
  | 'A' => 'a'  | 'B' => 'b'  | 'C' => 'c'  | 'D' => 'd'  | 'E' => 'e'  | 'F' => 'f'  | 'G' => 'g'  | 'H' => 'h'  | 'I' => 'i'
  | 'J' => 'j'  | 'K' => 'k'  | 'L' => 'l'  | 'M' => 'm'  | 'N' => 'n'  | 'O' => 'o'  | 'P' => 'p'  | 'Q' => 'q'  | 'R' => 'r'
  | 'S' => 's'  | 'T' => 't'  | 'U' => 'u'  | 'V' => 'v'  | 'W' => 'w'  | 'X' => 'x'  | 'Y' => 'y'  | 'Z' => 'z'
  | c => c
/-- `str.upper` on one character (ASCII letters; everything else unchanged) -/
def upperC : Char → Char
  | 'a' => 'A'  | 'b' => 'B'  | 'c' => 'C'  | 'd' => 'D'  | 'e' => 'E'  | 'f' => 'F'  | 'g' => 'G'  | 'h' => 'H'  | 'i' => 'I'
  | 'j' => 'J'  | 'k' => 'K'  | 'l' => 'L'  | 'm' => 'M'  | 'n' => 'N'  | 'o' => 'O'  | 'p' => 'P'  | 'q' => 'Q'  | 'r' => 'R'
  | 's' => 'S'  | 't' => 'T'  | 'u' => 'U'  | 'v' => 'V'  | 'w' => 'W'  | 'x' => 'X'  | 'y' => 'Y'  | 'z' => 'Z'
  | c => c
def lower (s : Str) : Str := s.map lowerC
def upper (s : Str) : Str := s.map upperC

/-! ### insertion-ordered `dict` with string keys -/

abbrev Config := List (String × PyV)

def cget (c : Config) (k : String) : Option PyV := (c.find? (·.1 == k)).map (·.2)
def cpop (c : Config) (k : String) : Config := c.filter (·.1 != k)
/-- `d[k] = v`: replaces in place or appends -/
def cset (c : Config) (k : String) (v : PyV) : Config :=
  if c.any (·.1 == k) then c.map (fun kv => if kv.1 == k then (k, v) else kv) else c ++ [(k, v)]

/-- Python truthiness of the values that occur in a configuration -/
def truthy : PyV → Bool
  | .none => false
  | .bool b => b
  | .int i => i != 0
  | .str s => s != ""
  | .float n _ => n != 0
  | .other r => r != "[]" && r != "()" && r != "{}"

def colourKeys : List String :=
  ["dark", "light", "finder_dark", "finder_light", "format_dark", "format_light", "alignment_dark", "alignment_light",
   "timing_dark", "timing_light", "data_dark", "data_light", "version_dark", "version_light",
   "quiet_zone", "dark_module", "separator"]

/-- text after the last `.` (the whole text if there is none): `s[s.rfind('.') + 1:]` -/
def afterLastDot : Str → Str
  | [] => []
  | c :: rest =>
    if rest.contains '.' then afterLastDot rest
    else if c == '.' then rest else c :: rest

/-- text before the last `.` together with the rest starting at that dot; `none` = no dot (`rfind` = -1) -/
def splitLastDot : Str → Option (Str × Str)
  | [] => none
  | c :: rest =>
    match splitLastDot rest with
    | some (a, b) => some (c :: a, b)
    | none => if c == '.' then some ([], c :: rest) else none

/-- first half of `build_config`: colour handling, SVG ids / classes, document encoding -/
def prepareConfig (config : Config) : Config :=
  -- colours: `transparent` / `trans` -> None, other truthy values kept, everything else dropped
  let c1 := colourKeys.foldl (fun c clr =>
    let val := (cget c clr).getD .none
    let c' := cpop c clr
    if val == .str "transparent" || val == .str "trans" then cset c' clr .none
    else if truthy val then cset c' clr val
    else c') config
  -- svgid / svgclass / lineclass: dropped when None
  let c2 := ["svgid", "svgclass", "lineclass"].foldl (fun c name =>
    if (cget c name).getD .none == .none then cpop c name else c) c1
  -- --no-classes
  let noClasses := truthy ((cget c2 "no_classes").getD (.bool false))
  let c3 := cpop c2 "no_classes"
  let c4 := if noClasses then cset (cset c3 "svgclass" .none) "lineclass" .none else c3
  -- encoding of the SVG document
  let enc := (cget c4 "svgencoding").getD (.str "utf-8")
  cset (cpop c4 "svgencoding") "encoding" enc

/-- the extension `build_config` filters by: lower-cased text after the last dot, `svgz` counts as `svg` -/
def configExt (fname : Str) : String :=
  let ext0 := String.ofList (lower (afterLastDot fname))
  if ext0 == "svgz" then "svg" else ext0

def supportedKeywords (extToKw : List (String × List String)) (ext : String) : List String :=
  ((extToKw.find? (·.1 == ext)).map (·.2)).getD []

/-- second half of `build_config` (file name given): drop what the serialiser does not support, and a `unit` of None -/
def filterConfig (extToKw : List (String × List String)) (c : Config) (fname : Str) : Config :=
  let supported := supportedKeywords extToKw (configExt fname)
  let c6 := c.filter (fun kv => supported.contains kv.1)
  if (cget c6 "unit").getD .none == .none then cpop c6 "unit" else c6

/-- `build_config(config, filename)` -/
def buildConfig (extToKw : List (String × List String)) (config : Config) (filename : Option Str) : Config :=
  match filename with
  | none => prepareConfig config
  | some fname => filterConfig extToKw (prepareConfig config) fname

/-- keys that `make_code` / `main` pop from the parsed configuration before `build_config` sees it
    (command line without `--seq`; with `--seq`, `symbol_count` is popped instead of `micro`) -/
def creationKeys : List String :=
  ["mode", "error", "version", "pattern", "encoding", "boost_error", "seq", "micro", "content", "output"]

/-- the configuration `main` hands to `build_config` -/
def mainConfig (parsed : Config) : Config := parsed.filter (fun kv => !creationKeys.contains kv.1)

/-- the keyword arguments `main` passes to `QRCode.save(output, **kw)` for an output file name -/
def cliKwargs (extToKw : List (String × List String)) (parsed : Config) (output : Str) : Config :=
  buildConfig extToKw (mainConfig parsed) (some output)

/-! ### `writers.save`: which serialiser writes the file -/

/-- the key looked up in `_VALID_SERIALIZERS` and the "gzip-compressed" flag: `fname` is the file name (or
    the `name` attribute of a stream, `isStream`), `kind` overrides it -/
def dispatchKey (fname : Str) (isStream : Bool) (kind : Option Str) : String × Bool :=
  let (ext, stream) := match kind with
    | none => (lower (afterLastDot fname), isStream)
    | some k => (lower k, false)
  let isSvgz := !stream && ext == "svgz".toList
  (if isSvgz then "svg" else String.ofList ext, isSvgz)

/-- `save(matrix, size, out, kind)`: the serialiser that writes the document, or ValueError -/
def dispatch (valid : List String) (fname : Str) (isStream : Bool) (kind : Option Str) : R (String × Bool) :=
  let key := dispatchKey fname isStream kind
  if valid.contains key.1 then pure key else throw PyErr.valueError

/-! ### `QRCodeSequence.save`: file names -/

def digitChar (n : Nat) : Char := Char.ofNat (48 + n % 10)

/-- `f'{n:02d}'` -/
def fmt02 (n : Nat) : Str :=
  if n < 10 then ['0', digitChar n] else (Nat.toDigits 10 n)

/-- the name the n-th of m symbols is written to -/
def seqFileName (out : Str) (m n : Nat) : Str :=
  if m > 1 then
    match splitLastDot out with
    | some (stem, ext) => stem ++ ['-'] ++ fmt02 m ++ ['-'] ++ fmt02 n ++ ext
    | none => out
  else out

end Model.Cli
