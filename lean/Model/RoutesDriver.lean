/-
  Model.RoutesDriver — `model` commands for the route layer (correspondence for C12, Model/Routes.lean):

    rroute  route=save|inline|svguri|pnguri|terminal|cli  kw=<config>  [out=p:<hex>|b|b:<hex>|t|t:<hex>|-]  [kind=<hex>]
            [border=<val> compact=<val>]  so=b:<hex>|t:<hex>|t:<hex>:<hex enc>|err:<Exception>
            [enc=<hex> | encerr=<Exception>] [dec=<hex> | decerr=<Exception>] [gzerr=<Exception>]
        → the plan (serialiser key, keyword map as passed, completed keyword map, target, post-processing) and the
          result of executing it with the runtime services handed in: `so` = what the real serialiser handed to
          `writable` (captured by a probe stream), `enc` = bytes of the codec, `dec` = text of `bytes.decode`,
          gzip = identity (the harness gunzips the real file).
    rseq    out=… kind=… kw=… m=<n>  → the `out` of every symbol of a sequence
    b64 raw=<hex> | pct raw=<hex> minimal=0|1 | rq raw=<hex>  → the post-processing functions alone
    rdoc    route=… kw=… out=… kind=… m=<rows of the matrix>  fs=<num>/<den>~<hex str>,…  ms=<k>*<num>/<den>~<hex str>,…
            setorder=… comp=<hex> ppm=<n>
        → END TO END: the route executed with the whole-document models of Model/RoutesDocs.lean as serialisers
          (strings of the keyword map are UTF-8 here).  Services: `str` of floats (`fs`, `ms`), set order, zlib
          (`comp`), `int(dpi // 0.0254)` (`ppm`); codecs utf-8 / ascii / latin-1 are implemented in the driver,
          gzip = identity.  `err:AssertionError` = outside the modelled universe.

  Configurations and values as in Model/CliDriver.lean (`k:val;k:val`; `N` `T` `F` `i<int>` `f<num>/<den>`
  `s<hex>` `o<hex>`).
-/
import Model.Routes
import Model.RoutesDocs
import Model.CliDriver
import Model.IterDriver
import Model.PngDriver

namespace Model.RoutesDriver
open Gen (PyV)
open Model.Cli Model.CliDriver Model.Routes Model.Iter

def errOfName (s : String) : PyErr :=
  if s == "ValueError" then .valueError
  else if s == "TypeError" || s == "AttributeError" then .typeError
  else if s == "LookupError" then .lookupError
  else if s == "KeyError" then .keyError
  else if s == "IndexError" then .indexError
  else if s.startsWith "Unicode" then .unicodeError
  else .assertionError

def charsOfHex (h : String) : List Char := (stringOfHex h).toList

def parseOut (t : String) : Option (Option OutArg) :=
  if t == "-" then some none
  else if t == "b" then some (some (.stream true none))
  else if t == "t" then some (some (.stream false none))
  else match t.splitOn ":" with
    | ["p", h] => some (some (.path (charsOfHex h)))
    | ["b", h] => some (some (.stream true (some (charsOfHex h))))
    | ["t", h] => some (some (.stream false (some (charsOfHex h))))
    | _ => none

def parseSerOut (t : String) : R SerOut :=
  match t.splitOn ":" with
  | ["b", h] => pure (.bytes (bytesOfHex h))
  | ["t", h] => pure (.text (charsOfHex h) none)
  | ["t", h, e] => pure (.text (charsOfHex h) (some (stringOfHex e)))
  | ["err", n] => throw (errOfName n)
  | _ => throw .assertionError

def showSink : Sink → String
  | .file => "file" | .bin => "bin" | .txt => "txt"

def showTarget : Target → String
  | .out s => "out:" ++ showSink s
  | .gzipOf l s => "gz:" ++ showVal l ++ ":" ++ showSink s
  | .buffer => "buffer"
  | .stdout => "stdout"

def showPost : Post → String
  | .nothing => "nothing"
  | .decode e => "decode:" ++ showVal e
  | .svgUri e m o => s!"svguri:{showVal e}:{if m then 1 else 0}:{if o then 1 else 0}"
  | .pngUri => "pnguri"

def showResult : R Result → String
  | .error e => "err:" ++ e.name
  | .ok (.written (.bytes b)) => "w:b:" ++ hexOf b
  | .ok (.written (.chars s)) => "w:c:" ++ Iter.hexOfString (String.ofList s)
  | .ok (.value s) => "v:" ++ Iter.hexOfString (String.ofList s)

def showOut : OutArg → String
  | .path n => "p:" ++ Iter.hexOfString (String.ofList n)
  | .stream true none => "b"
  | .stream false none => "t"
  | .stream true (some n) => "b:" ++ Iter.hexOfString (String.ofList n)
  | .stream false (some n) => "t:" ++ Iter.hexOfString (String.ofList n)

def envOf (r : Req) : Env :=
  { sem := fun _ _ => parseSerOut (r.getD "so" ""),
    codec := fun _ _ => match r.get "encerr" with
      | some n => throw (errOfName n)
      | none => pure (bytesOfHex (r.getD "enc" "")),
    decode := fun _ _ => match r.get "decerr" with
      | some n => throw (errOfName n)
      | none => pure (charsOfHex (r.getD "dec" "")),
    defaultEnc := "locale",
    gzipCheck := fun _ => match r.get "gzerr" with
      | some n => throw (errOfName n)
      | none => pure (),
    gzip := fun _ b => b }

def planOf (r : Req) : Option (R Plan) :=
  let kw := parseConfig (r.getD "kw" "")
  let kind := (r.get "kind").map charsOfHex
  match parseOut (r.getD "out" "-") with
  | none => none
  | some out =>
    match r.getD "route" "", out with
    | "save", some o => some (savePlan o kind kw)
    | "inline", _ => some (svgInlinePlan kw)
    | "svguri", _ => some (svgDataUriPlan kw)
    | "pnguri", _ => some (pngDataUriPlan kw)
    | "terminal", o => some (pure (terminalPlan o (parseVal (r.getD "border" "N")) (parseVal (r.getD "compact" "F"))))
    | "cli", _ => some (cliPlan Gen.EXT_TO_KW_MAPPING kw)
    | _, _ => none

/-! ### end to end with the document models -/

def parseValU (t : String) : PyV :=
  match t.toList with
  | 's' :: rest => .str (stringOfHex (String.ofList rest))
  | 'o' :: rest => .other (stringOfHex (String.ofList rest))
  | _ => parseVal t

def parseConfigU (s : String) : Config :=
  if s == "" || s == "-" then [] else
  (s.splitOn ";").filterMap (fun kv =>
    match kv.splitOn ":" with
    | [k, v] => some (k, parseValU v)
    | _ => none)

def normEnc (e : String) : String :=
  String.ofList ((e.toList.filter (fun c => c != '-' && c != '_')).map lowerC)

def codecOf (e : String) (s : List Char) : R (List Nat) :=
  let n := normEnc e
  if n == "utf8" then pure ((String.ofList s).toUTF8.toList.map (·.toNat))
  else if n == "ascii" || n == "usascii" then
    if s.all (·.toNat < 128) then pure (s.map Char.toNat) else throw .unicodeError
  else if n == "latin1" || n == "iso88591" then
    if s.all (·.toNat < 256) then pure (s.map Char.toNat) else throw .unicodeError
  else throw .assertionError

def decodeOf (e : String) (b : List Nat) : R (List Char) :=
  let n := normEnc e
  if n == "utf8" then
    match String.fromUTF8? (ByteArray.mk (b.toArray.map (fun (x : Nat) => x.toUInt8))) with
    | some s => pure s.toList
    | none => throw .unicodeError
  else if n == "ascii" || n == "usascii" then
    if b.all (· < 128) then pure (b.map Char.ofNat) else throw .unicodeError
  else if n == "latin1" || n == "iso88591" then pure (b.map Char.ofNat)
  else throw .assertionError

/-- `<key>~<hex>,<key>~<hex>` -/
def tableOf (s : String) : List (String × String) :=
  if s == "" then [] else
  (s.splitOn ",").filterMap (fun e => match e.splitOn "~" with | [k, h] => some (k, stringOfHex h) | _ => none)

def servicesOf (r : Req) : RoutesDocs.Services :=
  let fs := tableOf (r.getD "fs" "")
  let ms := tableOf (r.getD "ms" "")
  { floatStr := fun n d => ((fs.find? (·.1 == s!"{n}/{d}")).map (·.2)).getD "?",
    mulStr := fun k n d => ((ms.find? (·.1 == s!"{k}*{n}/{d}")).map (·.2)).getD "?",
    setOrder := PngDriver.setOrderOf r,
    deflate := fun _ _ => bytesOfHex (r.getD "comp" ""),
    ppm := fun _ => (r.getD "ppm" "0").toNat?.getD 0 }

def docEnvOf (r : Req) : Env :=
  let m := parseRows (r.getD "m" "")
  RoutesDocs.docEnv (servicesOf r)
    { codec := codecOf, decode := decodeOf, defaultEnc := "utf-8", gzip := fun _ b => b,
      gzipCheck := fun _ => match r.get "gzerr" with
        | some n => throw (errOfName n)
        | none => pure () }
    m m.length m.length (fun _ _ => throw .assertionError)

def planOfU (r : Req) : Option (R Plan) :=
  let kw := parseConfigU (r.getD "kw" "")
  let kind := (r.get "kind").map charsOfHex
  match parseOut (r.getD "out" "-") with
  | none => none
  | some out =>
    match r.getD "route" "", out with
    | "save", some o => some (savePlan o kind kw)
    | "inline", _ => some (svgInlinePlan kw)
    | "svguri", _ => some (svgDataUriPlan kw)
    | "pnguri", _ => some (pngDataUriPlan kw)
    | "terminal", o => some (pure (terminalPlan o (parseVal (r.getD "border" "N")) (parseVal (r.getD "compact" "F"))))
    | _, _ => none

def handle (cmd : String) (r : Req) : Option String :=
  let id := r.getD "id" "?"
  match cmd with
  | "rdoc" => some (
    match planOfU r with
    | none => s!"id={id} error=bad-request"
    | some (.error e) => s!"id={id} result=err:{e.name}"
    | some (.ok p) => s!"id={id} result={showResult (execute (docEnvOf r) p)}")
  | "rroute" => some (
    match planOf r with
    | none => s!"id={id} error=bad-request"
    | some (.error e) => s!"id={id} planerr={e.name}"
    | some (.ok p) =>
      let full := match completeKw p.key p.kw with
        | .ok c => showConfig c
        | .error e => "err:" ++ e.name
      s!"id={id} plan=ok key={p.key} kw={showConfig p.kw} full={full} target={showTarget p.target} post={showPost p.post} result={showResult (execute (envOf r) p)}")
  | "rseq" => some (
    match parseOut (r.getD "out" "-") with
    | some (some o) =>
      let m := (r.getD "m" "0").toNat?.getD 0
      s!"id={id} outs={",".intercalate ((List.range m).map (fun i => showOut (seqOut o m (i + 1))))}"
    | _ => s!"id={id} error=bad-request")
  | "b64" => some s!"id={id} value={Iter.hexOfString (String.ofList (b64encode (bytesOfHex (r.getD "raw" ""))))}"
  | "pct" => some s!"id={id} value={Iter.hexOfString (String.ofList (pctEncode (if r.getD "minimal" "0" == "1" then safeMinimal else safeNormal) (bytesOfHex (r.getD "raw" ""))))}"
  | "rq" => some s!"id={id} value={hexOf (replaceQuotes (bytesOfHex (r.getD "raw" "")))}"
  | _ => none

end Model.RoutesDriver
