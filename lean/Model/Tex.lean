/-
  Model.Tex — hand-written executable model of `writers.write_tex` (segno/writers.py): every character
  of the LaTeX / PGF document.

  The lines come from `Model.Lines.matrixToLines m border (−border) (incby = −1)` (y carried doubled).
  Coordinates are `x * scale`, `y * scale`: integers for an `int` scale.  Runtime services passed in:
  the clock (`time.strftime`, the text after `% Date:     `) and, for a float `scale`, Python's `str` of
  the float and of the products `k * scale` for the k that occur (`mul k`; `(−k) * scale` prints as
  `-` followed by the text of `k * scale`, `0 * scale` as `0.0`).
-/
import Model.SvgDoc
import Gen.Writers

namespace Model.Tex

open Model Model.Lines Model.Svg

structure Opts where
  scale : Scale := .int 1
  border : Option Int := none
  dark : Option String := some "black"
  unit : String := "pt"
  url : Option String := none
  /-- `time.strftime("%Y-%m-%dT%H:%M:%S")` (runtime service) -/
  date : String := ""
  /-- `str(k * scale)` for a float scale (runtime service) -/
  mul : Nat → String := fun _ => ""

/-- `str(v * scale)` -/
def coordText (o : Opts) (v : Int) : String :=
  match o.scale with
  | .int i => toString (v * i)
  | .float .. => if v < 0 then "-" ++ o.mul v.natAbs else o.mul v.natAbs

/-- `\pgfqpoint{<x><unit>}{<y><unit>}` -/
def point (o : Opts) (x y : Int) : String :=
  "\\pgfqpoint{" ++ coordText o x ++ o.unit ++ "}{" ++ coordText o y ++ o.unit ++ "}"

/-- the lines of `matrix_to_lines(matrix, border, -border, incby=-1)` with their y un-doubled
    (all y are integers here: `y2` is even) -/
def texLines (m : List (List Nat)) (b : Nat) : List (Int × Int × Int) :=
  (toInt (matrixToLines m b (-(2 * (b : Int))) (-2))).map (fun t => (t.1, t.2.1 / 2, t.2.2))

/-- abstract PGF path commands of the body (what harness/vecparse.py hands to the judge as `mv:` / `ln:`) -/
inductive Cmd where
  | moveto (x y : Int)
  | lineto (x y : Int)
  deriving DecidableEq, Repr

/-- per line: `\pgfpathmoveto{(x1·s, y·s)}`, `\pgfpathlineto{(x2·s, y·s)}` — coordinates in modules, the factor
    `scale` is applied when the command is printed -/
def texCmds (lines : List (Int × Int × Int)) : List Cmd :=
  lines.flatMap (fun t => [.moveto t.1 t.2.1, .lineto t.2.2 t.2.1])

def cmdText (o : Opts) : Cmd → String
  | .moveto x y => "  \\pgfpathmoveto{" ++ point o x y ++ "}\n"
  | .lineto x y => "  \\pgfpathlineto{" ++ point o x y ++ "}\n"

/-- `write_tex(matrix, (w, h), out, scale, border, dark, unit, url)`: the text written -/
def writeTex (m : List (List Nat)) (w h : Nat) (o : Opts) : R String := do
  match o.scale with
  | .int i => if i ≤ 0 then throw PyErr.valueError
  | .float _ pos _ => if !pos then throw PyErr.valueError
  match o.border with
  | some i => if i < 0 then throw PyErr.valueError
  | none => pure ()
  let b : Nat := match o.border with
    | some i => i.toNat
    | none => (Gen.get_default_border_size w h).toNat
  let truthy := fun (x : Option String) => match x with | some s => !s.isEmpty | none => false
  pure (
    "% Creator:  " ++ Gen.Writers.CREATOR ++ "\n"
    ++ "% Date:     " ++ o.date ++ "\n"
    ++ (if truthy o.url then "\\href{" ++ o.url.getD "" ++ "}{" else "")
    ++ "\\begin{pgfpicture}\n"
    ++ "  \\pgfsetlinewidth{" ++ o.scale.text ++ o.unit ++ "}\n"
    ++ (if truthy o.dark && o.dark != some "black" then "  \\color{" ++ o.dark.getD "" ++ "}\n" else "")
    ++ String.join ((texCmds (texLines m b)).map (cmdText o))
    ++ "  \\pgfusepath{stroke}\n"
    ++ "\\end{pgfpicture}" ++ (if truthy o.url then "}" else "") ++ "\n")

end Model.Tex
