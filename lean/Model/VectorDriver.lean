/-
  Model.VectorDriver — `model` commands for the whole vector documents (correspondence for C10 / C11):
  `svgdoc` (whole `write_svg` document through the keyword interface of `colorful`), `svgpaths` (the
  `<path …/>` elements in document order), `texdoc` (whole `write_tex` document), `epsdoc` (whole `write_eps`
  program), `pdfdoc` (content stream of `write_pdf` and, given the compressed stream `graphic=`, the whole file).
  Runtime services: `date=` (clock), `mul=` (`str(k * scale)`, k = 0, 1, …), `wtext=` / `htext=`, `chan=` (`str(1 / 255.0 * c)`,
  c = 0 … 255), `graphic=` (zlib).
  Strings: `-` = None, `s<hex of UTF-8>` = a str.  Colours as in Model/PngDriver.lean.
  scale: `i:<int>` | `f:<hex of str(scale)>:<scale > 0>:<scale == 1>`; svgversion: `-` | `i:<int>` | `f:<hex>:<lt 2.0>`.
-/
import Model.SvgDoc
import Model.Tex
import Model.VectorDocs
import Model.PngDriver

namespace Model.VectorDriver

open Model Model.Iter Model.PngDriver

def optStr (r : Req) (key : String) (dflt : Option String) : Option String :=
  match r.get key with
  | none => dflt
  | some t => if t == "-" then none else some (stringOfHex (t.drop 1).toString)

def flag (r : Req) (key : String) (dflt : Bool) : Bool :=
  match r.get key with
  | some "1" => true
  | some "0" => false
  | _ => dflt

def parseScale (t : String) : Option Svg.Scale :=
  match t.splitOn ":" with
  | ["i", n] => (optInt n).map .int
  | ["f", h, pos, one] => some (.float (stringOfHex h) (pos == "1") (one == "1"))
  | _ => none

def parseSvgVersion (t : String) : Option (Option Svg.SvgVersion) :=
  if t == "-" then some none else
  match t.splitOn ":" with
  | ["i", n] => (optInt n).map (fun i => some (.int i))
  | ["f", h, lt2] => some (some (.float (stringOfHex h) (lt2 == "1")))
  | _ => none

def svgOpts (r : Req) : Option Svg.Opts := do
  let scale ← parseScale (r.getD "scale" "i:1")
  let border ← match r.getD "border" "-" with
    | "-" => some none
    | t => (optInt t).map some
  let ver ← parseSvgVersion (r.getD "svgversion" "-")
  pure { scale := scale, border := border, xmldecl := flag r "xmldecl" true, svgns := flag r "svgns" true,
         title := optStr r "title" none, desc := optStr r "desc" none, svgid := optStr r "svgid" none,
         svgclass := optStr r "svgclass" (some "segno"), lineclass := optStr r "lineclass" (some "qrline"),
         omitsize := flag r "omitsize" false, unit := optStr r "unit" none, encoding := optStr r "encoding" (some "utf-8"),
         svgversion := ver, nl := flag r "nl" true, drawTransparent := flag r "dt" false,
         widthText := stringOfHex (r.getD "wtext" ""), heightText := stringOfHex (r.getD "htext" "") }

def hexList (t : String) : List String := if t == "" then [] else (t.splitOn ",").map stringOfHex

def borderOpt (r : Req) : Option (Option Int) :=
  match r.getD "border" "-" with
  | "-" => some none
  | t => (optInt t).map some

/-- a channel: `i<n>` or `f<hex of '{:f}'>.<hex of str>.<== 0><0.0 <= c <= 1.0><0 <= c <= 255>` -/
def parseChan (t : String) : Option VectorDocs.Chan :=
  match t.toList with
  | 'i' :: rest => (String.ofList rest).toNat?.map .int
  | 'f' :: rest =>
    match (String.ofList rest).splitOn "." with
    | [a, b, flags] =>
      match flags.toList with
      | [z, p, q] => some (.float (stringOfHex a) (stringOfHex b) (z == '1') (p == '1') (q == '1'))
      | _ => none
    | _ => none
  | _ => none

/-- colour of `write_eps` / `write_pdf`: a colour token of Model/PngDriver.lean or `c:<chan>/<chan>/<chan>` -/
def colorOr (r : Req) (key : String) (dflt : ColorArg) : Option VectorDocs.VColor :=
  match r.get key with
  | none => some (.arg dflt)
  | some t =>
    if t.startsWith "c:" then
      match ((t.drop 2).toString.splitOn "/").map parseChan with
      | [some a, some b, some c] => some (.tuple3 a b c)
      | _ => none
    else (parseColorArg t).map .arg

def handle (cmd : String) (r : Req) : Option String :=
  let id := r.getD "id" "?"
  let fail (e : PyErr) := s!"id={id} err={e.name}"
  match cmd with
  | "texdoc" => some (
    let m := parseRows (r.getD "m" "")
    match parseScale (r.getD "scale" "i:1"), borderOpt r with
    | some scale, some border =>
      let muls := hexList (r.getD "mul" "")
      let o : Tex.Opts := { scale := scale, border := border, dark := optStr r "dark" (some "black"),
                            unit := (optStr r "unit" (some "pt")).getD "None", url := optStr r "url" none,
                            date := stringOfHex (r.getD "date" ""), mul := fun k => muls.getD k "?" }
      match Tex.writeTex m m.length m.length o with
      | .error e => fail e
      | .ok s => s!"id={id} ok=1 doc={hexOfString s}"
    | _, _ => s!"id={id} error=bad-request")
  | "epsdoc" => some (
    let m := parseRows (r.getD "m" "")
    match parseScale (r.getD "scale" "i:1"), borderOpt r, colorOr r "dark" (.str "#000"), colorOr r "light" .none with
    | some scale, some border, some dark, some light =>
      let o : VectorDocs.EpsOpts := { scale := scale, border := border, dark := dark, light := light, date := stringOfHex (r.getD "date" ""),
                                      widthText := stringOfHex (r.getD "wtext" ""), heightText := stringOfHex (r.getD "htext" "") }
      match VectorDocs.writeEps m m.length m.length o with
      | .error e => fail e
      | .ok s => s!"id={id} ok=1 doc={hexOfString s}"
    | _, _, _, _ => s!"id={id} error=bad-request")
  | "pdfdoc" => some (
    let m := parseRows (r.getD "m" "")
    match parseScale (r.getD "scale" "i:1"), borderOpt r, colorOr r "dark" (.str "#000"), colorOr r "light" .none with
    | some scale, some border, some dark, some light =>
      let chans := hexList (r.getD "chan" "")
      let date := stringOfHex (r.getD "date" "")
      let o : VectorDocs.PdfOpts := { scale := scale, border := border, dark := dark, light := light, date := date,
                                      widthText := stringOfHex (r.getD "wtext" ""), heightText := stringOfHex (r.getD "htext" ""),
                                      chan := fun c => chans.getD c "?" }
      match VectorDocs.pdfContent m m.length m.length o with
      | .error e => fail e
      | .ok p =>
        let file := match r.get "graphic" with
          | some g => " file=" ++ hexOf (VectorDocs.pdfFile p (bytesOfHex g) date)
          | none => ""
        s!"id={id} ok=1 content={hexOfString p.content}{file}"
    | _, _, _, _ => s!"id={id} error=bad-request")
  | "svgdoc" => some (
    let m := parseRows (r.getD "m" "")
    match svgOpts r, optArg r "dark", optArg r "light", typeOpts r with
    | some o, some dark, some light, some to =>
      match Svg.saveSvg m m.length m.length dark light to o with
      | .error e => fail e
      | .ok s => s!"id={id} ok=1 doc={hexOfString s}"
    | _, _, _, _ => s!"id={id} error=bad-request")
  | "svgpaths" => some (
    let m := parseRows (r.getD "m" "")
    match svgOpts r, optArg r "dark", optArg r "light", typeOpts r with
    | some o, some dark, some light, some to =>
      let n := m.length
      let b : Nat := match o.border with | some i => i.toNat | none => (Gen.get_default_border_size n n).toNat
      match Svg.svgPaths m n n (makeColormap n n (dark.getD (.str "#000")) (light.getD .none) to) o b with
      | .error e => fail e
      | .ok ps => s!"id={id} ok=1 paths={",".intercalate (ps.map hexOfString)}"
    | _, _, _, _ => s!"id={id} error=bad-request")
  | _ => none

end Model.VectorDriver
