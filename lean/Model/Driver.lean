/-
  Model.Driver — line protocol of the `model` executable (correspondence check, Tie B).
-/
import Model.Encoder

namespace Model

def hexDigit (n : Nat) : Char := "0123456789abcdef".toList.getD n '?'
def hexVal (c : Char) : Nat :=
  if '0' ≤ c && c ≤ '9' then c.toNat - 48
  else if 'a' ≤ c && c ≤ 'f' then c.toNat - 87
  else if 'A' ≤ c && c ≤ 'F' then c.toNat - 55 else 0
def bytesOfHex (s : String) : List Nat :=
  let rec go : List Char → List Nat
    | a :: b :: rest => (hexVal a * 16 + hexVal b) :: go rest
    | _ => []
  go s.toList

abbrev Req := List (String × String)
def parseReq (line : String) : String × Req :=
  match (line.splitOn " ").filter (· != "") with
  | [] => ("", [])
  | cmd :: rest => (cmd, rest.map (fun t =>
      match t.splitOn "=" with
      | k :: vs => (k, "=".intercalate vs)
      | [] => ("", "")))
def Req.get (r : Req) (k : String) : Option String := (r.find? (·.1 == k)).map (·.2)
def Req.getD (r : Req) (k : String) (d : String) : String := (r.get k).getD d

def optNat (s : String) : Option Nat := if s == "-" then none else s.toNat?
def optInt (s : String) : Option Int :=
  if s == "-" then none
  else if s.startsWith "-" then (s.drop 1).toNat?.map (fun n => -(n : Int)) else s.toNat?.map (fun n => (n : Int))
def optBool (s : String) : Option Bool := if s == "1" then some true else if s == "0" then some false else none

def matrixStr (m : Matrix) : String :=
  "/".intercalate (m.toList.map (fun r => String.ofList (r.toList.map (fun x => Char.ofNat (48 + x)))))

def parseParts (s : String) : List Part :=
  if s == "" then [] else
  (s.splitOn ",").map (fun p =>
    match p.splitOn ":" with
    | [h, m, e] => { data := bytesOfHex h, mode := optNat m, encoding := e }
    | _ => { data := [], mode := none, encoding := "?" })

/-- `canon=enc:canonicalname,...` : the value of `codecs.lookup(enc).name` supplied by the harness -/
def eciNumberFrom (canon : String) (enc : String) : Option Nat :=
  let table := (canon.splitOn ",").filterMap (fun p => match p.splitOn ":" with | [a, b] => some (a, b) | _ => none)
  (assoc table enc).bind (fun c => assoc Gen.ECI_ASSIGNMENT_NUM c)

def showCode (id : String) (r : R Code) : String :=
  match r with
  | .error e => s!"id={id} err={e.name}"
  | .ok c => s!"id={id} ok=1 v={c.version} e={match c.error with | some x => toString x | none => "-"} mask={c.mask} m={matrixStr c.matrix}"

/-- commands of this file; `none` = not mine -/
def handleCore (cmd : String) (r : Req) : Option String :=
  let id := r.getD "id" "?"
  match cmd with
  | "enc" =>
    some (showCode id (encode (parseParts (r.getD "parts" "")) (optNat (r.getD "error" "-")) (optInt (r.getD "version" "-"))
      (optNat (r.getD "gmode" "-")) (optNat (r.getD "mask" "-")) (r.getD "eci" "0" == "1") (optBool (r.getD "micro" "-")) (r.getD "boost" "1" == "1")
      (eciNumberFrom (r.getD "canon" ""))))
  | _ => none

end Model
