/-
  Model.PngDriver — `model` commands for `write_png` / `write_ppm` with the colour options of the
  public interface (correspondence for C09 and C11): `png`, `ppm`.
  Colour arguments as in Spec/RasterJudge.lean: `-` (None), `s:<hex of the UTF-8 string>`,
  `t:r,g,b[,a]` (tuple of ints, any length), `f:r,g,b,k` (float alpha k/1000).
-/
import Model.Png
import Model.IterDriver

namespace Model.PngDriver

open Model Model.Iter

def parseColorArg (t : String) : Option ColorArg :=
  if t == "-" then some .none
  else if t.startsWith "s:" then some (.str (stringOfHex (t.drop 2).toString))
  else if t == "t:" then some (.ints [])
  else if t.startsWith "t:" then (((t.drop 2).toString.splitOn ",").mapM String.toNat?).map .ints
  else if t.startsWith "f:" then
    match ((t.drop 2).toString.splitOn ",").map String.toNat? with
    | [some r, some g, some b, some k] => some (.floatAlpha r g b k)
    | _ => none
  else none

/-- `none` = a colour token the protocol cannot express -/
def optArg (r : Req) (key : String) : Option (Option ColorArg) :=
  match r.get key with
  | none => some none
  | some t => (parseColorArg t).map some

def typeOpts (r : Req) : Option (TypeOpts ColorArg) := do
  pure { finder_dark := ← optArg r "o.finder_dark", finder_light := ← optArg r "o.finder_light",
         data_dark := ← optArg r "o.data_dark", data_light := ← optArg r "o.data_light",
         version_dark := ← optArg r "o.version_dark", version_light := ← optArg r "o.version_light",
         format_dark := ← optArg r "o.format_dark", format_light := ← optArg r "o.format_light",
         alignment_dark := ← optArg r "o.alignment_dark", alignment_light := ← optArg r "o.alignment_light",
         timing_dark := ← optArg r "o.timing_dark", timing_light := ← optArg r "o.timing_light",
         separator := ← optArg r "o.separator", dark_module := ← optArg r "o.dark_module",
         quiet_zone := ← optArg r "o.quiet_zone" }

def showPColor : PColor → String
  | .transparent => "T"
  | .rgb r g b => s!"{r}.{g}.{b}"
  | .rgba r g b a => s!"{r}.{g}.{b}.{a}"

def parsePColor (t : String) : Option PColor :=
  if t == "T" then some .transparent else
  match (t.splitOn ".").map String.toNat? with
  | [some r, some g, some b] => some (.rgb r g b)
  | [some r, some g, some b, some a] => some (.rgba r g b a)
  | _ => none

/-- the iteration order of `set(vals)`: supplied by the harness (`setorder=`) when it matters, else
    the order of first occurrence -/
def setOrderOf (r : Req) (vals : List PColor) : List PColor :=
  let dflt := vals.eraseDups
  match r.get "setorder" with
  | none => dflt
  | some t =>
    match (t.splitOn ";").mapM parsePColor with
    | some l => if l.length == dflt.length && l.all dflt.contains && dflt.all l.contains then l else dflt
    | none => dflt

/-- do two colours of the map share R, G, B and differ in alpha?  (only then the order of the set
    shows in the palette) -/
def hasTie (vals : List PColor) : Bool :=
  let d := vals.eraseDups.filter (fun c => c.isRgba && c != .transparent)
  d.any (fun a => d.any (fun b => a != b && a.key == b.key))

def hexOrDash (bs : List Nat) : String := if bs.isEmpty then "-" else hexOf bs

def handle (cmd : String) (r : Req) : Option String :=
  let id := r.getD "id" "?"
  let fail (e : PyErr) := s!"id={id} err={e.name}"
  match cmd with
  | "png" => some (match args r, optArg r "dark", optArg r "light", typeOpts r with
    | some a, some dark, some light, some o =>
      let cm := makeColormap a.n a.n (dark.getD (.str "#000")) (light.getD (.str "#fff")) o
      let tie := match cm.mapM (fun e => pngColor e.2) with
        | .ok vals => if hasTie vals && (r.get "setorder").isNone then s!" tie=1 vals={";".intercalate (vals.map showPColor)}" else ""
        | .error _ => ""
      match savePng (setOrderOf r) a.m a.n a.n dark light o a.scale a.border with
      | .error e => fail e
      | .ok p => s!"id={id} ok=1 w={p.width} h={p.height} depth={p.depth} ctype={p.ctype} plte={hexOrDash p.plte} trns={hexOrDash p.trns} idat={hexOf p.idat}{tie}"
    | _, _, _, _ => s!"id={id} error=bad-request")
  | "ppm" => some (match args r, optArg r "dark", optArg r "light", typeOpts r with
    | some a, some dark, some light, some o =>
      let cm := makeColormap a.n a.n (dark.getD (.str "#000")) (light.getD (.str "#fff")) o
      match ppmRaster a.m a.n a.n cm a.scale a.border with
      | .error e => fail e
      | .ok bs => s!"id={id} ok=1 bytes={hexOf bs}"
    | _, _, _, _ => s!"id={id} error=bad-request")
  | "colormap" => some (match args r, optArg r "dark", optArg r "light", typeOpts r with
    -- the keys of `_make_colormap(n, n, …)` with the colour each one shows (parsed for the PNG path)
    | some a, some dark, some light, some o =>
      let cm := makeColormap a.n a.n (dark.getD (.str "#000")) (light.getD (.str "#fff")) o
      match cm.mapM (fun e => do let c ← pngColor e.2; pure (e.1, c)) with
      | .error e => fail e
      | .ok l => s!"id={id} ok=1 map={",".intercalate (l.map (fun e => s!"{e.1}:{showPColor e.2}"))}"
    | _, _, _, _ => s!"id={id} error=bad-request")
  | _ => none

end Model.PngDriver
