/-
  Model.CliDriver — driver commands of the `model` executable for C12 / C14 (correspondence, Tie B):
    cfg      build_config on a parsed command line configuration
    disp     which serialiser `writers.save` selects
    seqname  file name of the n-th of m symbols of a sequence
    api      outcome of make / make_qr / make_micro / make_sequence for tagged Python arguments
  Value tokens: `N` `T` `F` `i<int>` `f<num>/<den>` `s<hex utf-8>` `o<hex of repr>`.
-/
import Model.Driver
import Model.Cli
import Model.Args

namespace Model.CliDriver
open Gen (PyV)
open Model.Cli Model.Args

def strOfHex (h : String) : String := String.ofList ((bytesOfHex h).map Char.ofNat)

def parseVal (t : String) : PyV :=
  if t == "N" then .none else if t == "T" then .bool true else if t == "F" then .bool false
  else match t.toList with
  | 'i' :: rest => match optInt (String.ofList rest) with | some i => .int i | none => .other t
  | 's' :: rest => .str (strOfHex (String.ofList rest))
  | 'f' :: rest =>
    match (String.ofList rest).splitOn "/" with
    | [a, b] => match optInt a, b.toNat? with | some n, some d => .float n d | _, _ => .other t
    | _ => .other t
  | 'o' :: rest => .other (strOfHex (String.ofList rest))
  | _ => .other t

def hexOfString (s : String) : String :=
  -- strings travel as one character per byte (see `strOfHex`): write the bytes back, not their UTF-8 encoding
  String.ofList (s.toList.flatMap (fun c => [hexDigit (c.toNat / 16 % 16), hexDigit (c.toNat % 16)]))

def showVal : PyV → String
  | .none => "N" | .bool true => "T" | .bool false => "F"
  | .int i => s!"i{i}" | .float n d => s!"f{n}/{d}"
  | .str s => "s" ++ hexOfString s
  | .other r => "o" ++ hexOfString r

/-- `k:val;k:val` -/
def parseConfig (s : String) : Config :=
  if s == "" || s == "-" then [] else
  (s.splitOn ";").filterMap (fun kv =>
    match kv.splitOn ":" with
    | [k, v] => some (k, parseVal v)
    | _ => none)

def insertSorted (x : String × PyV) : Config → Config
  | [] => [x]
  | y :: ys => if x.1 < y.1 then x :: y :: ys else y :: insertSorted x ys

def showConfig (c : Config) : String :=
  let sorted := c.foldl (fun acc kv => insertSorted kv acc) []
  if sorted.isEmpty then "-" else ";".intercalate (sorted.map (fun kv => s!"{kv.1}:{showVal kv.2}"))

def fnOf (s : String) : Fn :=
  if s == "make_qr" then .makeQr else if s == "make_micro" then .makeMicro
  else if s == "make_sequence" then .makeSequence else .make

def errOf (s : String) : PyErr :=
  if s == "UnicodeError" then .unicodeError else if s == "LookupError" then .lookupError
  else if s == "TypeError" then .typeError else .valueError

def handle (cmd : String) (r : Req) : Option String :=
  let id := r.getD "id" "?"
  match cmd with
  | "cfg" =>
    let fname := match r.get "file" with | some h => some (strOfHex h).toList | none => none
    some s!"id={id} cfg={showConfig (buildConfig Gen.EXT_TO_KW_MAPPING (parseConfig (r.getD "config" "")) fname)}"
  | "disp" =>
    let kind := match r.get "kind" with | some h => some (strOfHex h).toList | none => none
    match dispatch (Gen.VALID_SERIALIZERS.map (·.1)) (strOfHex (r.getD "name" "")).toList (r.getD "stream" "0" == "1") kind with
    | .ok (k, gz) => some s!"id={id} ok=1 serializer={k} gz={if gz then 1 else 0}"
    | .error e => some s!"id={id} err={e.name}"
  | "seqname" =>
    some s!"id={id} name={hexOfString (String.ofList (seqFileName (strOfHex (r.getD "name" "")).toList ((r.getD "m" "0").toNat?.getD 0) ((r.getD "n" "0").toNat?.getD 0)))}"
  | "api" =>
    let parts : Except PyErr (List Part) := match r.get "converr" with
      | some e => .error (errOf e)
      | none => .ok (parseParts (r.getD "parts" ""))
    let call : Call := {
      fn := fnOf (r.getD "fn" "make"), parts := parts,
      version := parseVal (r.getD "version" "N"), error := parseVal (r.getD "error" "N"), mode := parseVal (r.getD "mode" "N"),
      mask := parseVal (r.getD "mask" "N"), micro := parseVal (r.getD "micro" "N"),
      eci := r.getD "eci" "F" == "T", boost := r.getD "boost" "T" == "T",
      symbolCount := parseVal (r.getD "count" "N"), eciNumber := eciNumberFrom (r.getD "canon" ""),
      unknownCodec := (r.get "unknowncodec").map strOfHex }
    match api call with
    | .error e => some s!"id={id} err={e.name}"
    | .ok (.code c) => some (showCode id (.ok c))
    | .ok .sequenceArgsOk => some s!"id={id} seqargs=ok"
  | _ => none

end Model.CliDriver
