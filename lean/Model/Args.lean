/-
  Model.Args — hand-written executable model of the argument handling of segno.make / make_qr /
  make_micro / make_sequence: `normalize_version`, `normalize_errorlevel`, `normalize_mode`,
  `normalize_mask` on tagged Python values (`Gen.PyV`: None | bool | int | str | float | other),
  the combination checks of `encoder.encode` and the argument checks of `encoder.encode_sequence`,
  composed with `Model.encode`.

  Exceptions are outcomes: an operation that raises `TypeError` / `AttributeError` in Python and is
  not caught there is `typeError` here (crashes are modelled, not tidied).  `int(str)` accepts what
  Python accepts on ASCII (blanks around, one sign, digits with single underscores); `str.upper` /
  `str.lower` are modelled on ASCII letters.  Text → bytes conversion of the content is a runtime
  service: the caller supplies the converted parts or the exception the codec raised.
-/
import Gen.Sigs
import Model.Encoder
import Model.Cli

namespace Model.Args
open Gen (PyV)
open Model.Cli (Str lower upper lowerC upperC)

/-! ### Python `int()` -/

def isDigit (c : Char) : Bool := '0' ≤ c && c ≤ '9'
def isSpace (c : Char) : Bool := c == ' ' || c == '\t' || c == '\n' || c == '\r' || c.toNat == 11 || c.toNat == 12

def stripSpace (s : Str) : Str := ((s.dropWhile isSpace).reverse.dropWhile isSpace).reverse

/-- digits with single underscores between digits → value -/
def digitsVal : Str → Option Nat
  | [] => none
  | c :: rest =>
    if !isDigit c then none else
    let rec go (acc : Nat) : Str → Option Nat
      | [] => some acc
      | '_' :: d :: more => if isDigit d then go (acc * 10 + (d.toNat - 48)) more else none
      | d :: more => if isDigit d then go (acc * 10 + (d.toNat - 48)) more else none
    go (c.toNat - 48) rest

/-- `int(s)` for a `str`; `none` = ValueError -/
def intOfStr (s : Str) : Option Int :=
  match stripSpace s with
  | '-' :: rest => (digitsVal rest).map (fun n => -(n : Int))
  | '+' :: rest => (digitsVal rest).map (fun n => (n : Int))
  | rest => (digitsVal rest).map (fun n => (n : Int))

inductive IntConv where
  | ok (i : Int) | valueError | typeError
  deriving DecidableEq, Repr

/-- `int(x)` -/
def pyInt : PyV → IntConv
  | .none => .typeError
  | .bool b => .ok (if b then 1 else 0)
  | .int i => .ok i
  | .str s => match intOfStr s.toList with | some i => .ok i | none => .valueError
  | .float n d => .ok (Int.tdiv n d)
  | .other _ => .typeError

/-! ### the four normalisers -/

def assocStr {β : Type} (t : List (String × β)) (k : Str) : Option β := (t.find? (·.1.toList == k)).map (·.2)

/-- `normalize_version` -/
def normalizeVersion (version : PyV) : R (Option Int) :=
  match version with
  | .none => pure none
  | v =>
    -- try: int(version) / except (ValueError, TypeError): MICRO_VERSION_MAPPING[version.upper()]
    let r : Option Int := match pyInt v with
      | .ok i => if i < 1 then none else some i
      | _ => match v with
        | .str s => assocStr Gen.MICRO_VERSION_MAPPING (upper s.toList)
        | _ => none     -- no `upper` attribute: AttributeError, caught
    match r with
    | none => throw PyErr.valueError
    | some x => if (0 < x && x < 41) || Gen.MICRO_VERSIONS.contains x then pure (some x) else throw PyErr.valueError

/-- value of a number-like Python value when it compares equal to an integer -/
def asInt : PyV → Option Int
  | .bool b => some (if b then 1 else 0)
  | .int i => some i
  | .float n d => if d == 1 then some n else none
  | _ => none

/-- `normalize_mode` -/
def normalizeMode (mode : PyV) : R (Option Nat) :=
  match mode with
  | .none => pure none
  | m =>
    match (asInt m).bind (fun i => (Gen.MODE_MAPPING.find? (fun kv => (kv.2 : Int) == i)).map (·.2)) with
    | some c => pure (some c)        -- `mode in consts.MODE_MAPPING.values()`
    | none =>
      match m with
      | .str s => match assocStr Gen.MODE_MAPPING (lower s.toList) with
        | some c => pure (some c)
        | none => throw PyErr.valueError
      | _ => throw PyErr.valueError   -- AttributeError, caught

/-- `normalize_errorlevel(error, accept_none=True)` -/
def normalizeErrorLevel (error : PyV) : R (Option Nat) :=
  match error with
  | .none => pure none
  | .str s => match assocStr Gen.ERROR_MAPPING (upper s.toList) with
    | some c => pure (some c)
    | none => throw PyErr.valueError      -- a str is never equal to an int constant
  | e =>
    match (asInt e).bind (fun i => (Gen.ERROR_MAPPING.find? (fun kv => (kv.2 : Int) == i)).map (·.2)) with
    | some c => pure (some c)
    | none => throw PyErr.valueError

/-- what a `mask` argument asks for: nothing, an integer, or the exception `int(mask)` raises -/
inductive MaskReq where
  | absent | value (i : Int) | valueError | typeError
  deriving DecidableEq, Repr

def maskRequest : PyV → MaskReq
  | .none => .absent
  | m => match pyInt m with
    | .ok i => .value i
    | .valueError => .valueError
    | .typeError => .typeError

/-- `normalize_mask(mask, is_micro)`: `int(mask)` catches ValueError only -/
def normalizeMask (mask : PyV) (isMicro : Bool) : R (Option Nat) :=
  match maskRequest mask with
  | .absent => pure none
  | .typeError => throw PyErr.typeError
  | .valueError => throw PyErr.valueError
  | .value i =>
    if 0 ≤ i && i < (if isMicro then 4 else 8) then pure (some i.toNat) else throw PyErr.valueError

/-! ### the public functions -/

inductive Fn where
  | make | makeQr | makeMicro | makeSequence
  deriving DecidableEq, Repr

structure Call where
  fn : Fn
  /-- the content after the documented text → bytes policy, or the exception the codec raised -/
  parts : Except PyErr (List Part)
  version : PyV := .none
  error : PyV := .none
  mode : PyV := .none
  mask : PyV := .none
  micro : PyV := .none
  eci : Bool := false
  boost : Bool := true
  symbolCount : PyV := .none
  eciNumber : String → Option Nat := fun _ => none
  /-- the requested encoding when `codecs.lookup` does not know it (runtime service) -/
  unknownCodec : Option String := none

/-- Python truthiness / identity of the `micro` argument: `none` = None, `some b` = truthy / falsy -/
def microOf : PyV → Option Bool
  | .none => none
  | v => some (Model.Cli.truthy v)

/-- the combination checks at the head of `encoder.encode` (all ValueError), on normalised values -/
def comboChecks (version : Option Int) (error : Option Nat) (mode : Option Nat) (eci : Bool) (micro : Option Bool) : R Unit := do
  let isMicroVer := match version with | some v => Gen.MICRO_VERSIONS.contains v | none => false
  if micro == some false && isMicroVer then throw PyErr.valueError
  if micro == some true && version.isSome && !isMicroVer then throw PyErr.valueError
  match mode, version with
  | some md, some v =>
    match isModeSupported md v with
    | some true => pure ()
    | _ => throw PyErr.valueError
  | _, _ => pure ()
  if error == some Gen.ERROR_LEVEL_H && (micro == some true || isMicroVer) then throw PyErr.valueError
  if eci && (micro == some true || isMicroVer) then throw PyErr.valueError

inductive Outcome where
  | code (c : Code)
  /-- `encode_sequence` passed its argument checks and built its segments (the splitting itself is modelled elsewhere) -/
  | sequenceArgsOk
  deriving Inhabited

/-- a mask request that `Model.encode` refuses with ValueError at the point where Python calls `normalize_mask` -/
def badMask : Nat := 99

/-- `encoder.encode` on normalised arguments; `get_eci_assignment_number` raises LookupError for an unknown
    codec where it raises ValueError for a known codec without ECI number: the ValueError of `Model.encode`
    is re-examined with a pretended ECI number for the unknown codec (same bit lengths, same control flow) -/
def encodeLookup (c : Call) (parts : List Part) (error : Option Nat) (version : Option Int) (mode : Option Nat)
    (mask : Option Nat) (eci : Bool) (micro : Option Bool) : R Code :=
  match encode parts error version mode mask eci micro c.boost c.eciNumber, c.unknownCodec with
  | .error PyErr.valueError, some u =>
    if eci then
      match encode parts error version mode mask eci micro c.boost (fun e => if e == u then some 0 else c.eciNumber e) with
      | .ok _ => .error PyErr.lookupError
      | .error e => .error e
    else .error PyErr.valueError
  | r, _ => r

/-- `encoder.encode(content, error, version, mode, mask, encoding, eci, micro, boost_error)` -/
def apiEncode (c : Call) (micro : Option Bool) (eci : Bool) : R Outcome := do
  let version ← normalizeVersion c.version
  let error ← normalizeErrorLevel c.error
  let mode ← normalizeMode c.mode
  comboChecks version error mode eci micro
  -- prepare_data: the codec may refuse
  let parts0 ← c.parts
  let parts := parts0.map (fun p => { p with mode := match p.mode with | some m => some m | none => mode })
  -- `normalize_mask` runs after the version is known: conversion failures are raised there
  match maskRequest c.mask with
  | .absent =>
    let code ← encodeLookup c parts error version mode none eci micro
    pure (.code code)
  | .value i =>
    let code ← encodeLookup c parts error version mode (some (if 0 ≤ i then i.toNat else badMask)) eci micro
    pure (.code code)
  | .valueError =>
    let _ ← encodeLookup c parts error version mode (some badMask) eci micro
    throw PyErr.valueError
  | .typeError =>
    -- everything before `normalize_mask` runs as without a mask, then `int(mask)` raises TypeError
    let _ ← encodeLookup c parts error version mode (some 0) eci micro
    throw PyErr.typeError

/-- comparison `1 <= symbol_count <= 16` -/
def symbolCountCheck : PyV → R (Option Int)
  | .none => pure none
  | v => match asInt v with
    | some i => if 1 ≤ i && i ≤ 16 then pure (some i) else throw PyErr.valueError
    | none => match v with
      | .float n d => if (1 : Int) * d ≤ n && n ≤ 16 * d then pure (some (Int.tdiv n d)) else throw PyErr.valueError
      | _ => throw PyErr.typeError      -- `1 <= 'x'`

/-- `encode_sequence`: a Micro QR version is refused; without a version the symbol count is required -/
def sequenceVersionCheck (version : Option Int) (symbolCount : PyV) : R Unit :=
  match version with
  | some v => if v < 1 then throw PyErr.valueError else pure ()
  | none => if symbolCount == .none then throw PyErr.valueError else pure ()

/-- the head of `encoder.encode_sequence` up to and including `prepare_data` -/
def apiSequence (c : Call) : R Outcome := do
  let version ← normalizeVersion c.version
  sequenceVersionCheck version c.symbolCount
  let _ ← symbolCountCheck c.symbolCount
  let _ ← normalizeErrorLevel c.error
  let mode ← normalizeMode c.mode
  let _ ← normalizeMask c.mask false
  let parts ← c.parts
  -- prepare_data with the global mode
  let _ ← prepareData (parts.map (fun p => { p with mode := match p.mode with | some m => some m | none => mode }))
  pure .sequenceArgsOk

/-- the public functions -/
def api (c : Call) : R Outcome :=
  match c.fn with
  | .make => apiEncode c (microOf c.micro) c.eci
  | .makeQr => apiEncode c (some false) c.eci
  | .makeMicro => apiEncode c (some true) false
  | .makeSequence => apiSequence c

end Model.Args
