/-
  Model.Routes — hand-written executable model of the ROUTE layer of segno: how a document gets from a
  symbol to a file, a stream or a string.

    segno/__init__.py : QRCode.save, QRCode.svg_inline, QRCode.svg_data_uri, QRCode.png_data_uri, QRCode.terminal,
                        QRCodeSequence.save, QRCodeSequence.terminal
    segno/writers.py  : save (kind / extension dispatch, svgz), writable (file name vs. stream, text vs. binary),
                        as_svg_data_uri (_replace_quotes, percent-encoding), as_png_data_uri (base64)
    segno/cli.py      : main (from the parsed command line to `save` / `terminal`)

  Every route is modelled as a pure function to a `Plan`: which serialiser is called with which keyword map,
  where its output goes (`Target`) and what happens to the output afterwards (`Post`).  `execute` runs a plan
  against an environment `Env`: the serialisers' behaviour on their BOUND parameters (`sem`; the whole-document
  models of Model/SvgDoc.lean, Model/RasterDocs.lean … are one instance, see Model/RoutesDocs.lean) and the
  runtime services codec, gzip and the locale's default encoding.

  Python's keyword binding is modelled explicitly (`bindArgs`, `callKw`, `completeKw`): a keyword that is
  passed twice, that names a positionally bound parameter or that the callee does not know is a TypeError.
  `AttributeError` (a stream without `name` and no `kind`) is reported as TypeError — `Model.PyErr` has no
  such constructor; the harness normalises.

  Post-processing is executable here: `b64encode`, `pctEncode` (urllib.parse.quote on bytes with a `safe` set),
  `replaceQuotes` (`_replace_quotes`, the recorded finding D12), the data-URI prefixes.

  Strings are `List Char`, byte strings `List Nat`.  Mathlib-free.
-/
import Gen.Sigs
import Model.Cli

namespace Model.Routes
open Gen (PyV)
open Model.Cli

/-! ### base64 (`base64.b64encode`) -/

/-- the n-th character of the standard alphabet (n < 64) -/
def b64Char (n : Nat) : Char :=
  if n < 26 then Char.ofNat (65 + n)
  else if n < 52 then Char.ofNat (71 + n)
  else if n < 62 then Char.ofNat (n - 4)
  else if n = 62 then '+' else '/'

/-- `base64.b64encode(bytes).decode('ascii')` -/
def b64encode : List Nat → List Char
  | [] => []
  | [a] => [b64Char (a / 4), b64Char (a % 4 * 16), '=', '=']
  | [a, b] => [b64Char (a / 4), b64Char (a % 4 * 16 + b / 16), b64Char (b % 16 * 4), '=']
  | a :: b :: c :: rest =>
    b64Char (a / 4) :: b64Char (a % 4 * 16 + b / 16) :: b64Char (b % 16 * 4 + c / 64) :: b64Char (c % 64) :: b64encode rest

/-! ### percent-encoding (`urllib.parse.quote(bytes, safe=…)`) -/

/-- `_ALWAYS_SAFE`: ASCII letters, digits and `_.-~` -/
def alwaysSafe (b : Nat) : Bool :=
  (65 ≤ b && b ≤ 90) || (97 ≤ b && b ≤ 122) || (48 ≤ b && b ≤ 57) || b == 95 || b == 46 || b == 45 || b == 126

/-- `'{:X}'` of one hexadecimal digit -/
def hexUpper (n : Nat) : Char := if n < 10 then Char.ofNat (48 + n) else Char.ofNat (55 + n)

/-- is the byte left alone?  (`quote_from_bytes` drops non-ASCII bytes from `safe`) -/
def isSafe (safe : List Nat) (b : Nat) : Bool := alwaysSafe b || (b < 128 && safe.contains b)

/-- `_Quoter.__missing__`: the byte itself or `%XX` -/
def pctByte (safe : List Nat) (b : Nat) : List Char :=
  if isSafe safe b then [Char.ofNat b] else ['%', hexUpper (b / 16), hexUpper (b % 16)]

def pctEncode (safe : List Nat) (bs : List Nat) : List Char := bs.flatMap (pctByte safe)

/-- `safe=b""` -/
def safeNormal : List Nat := []
/-- `safe=b" :/='"` (`encode_minimal=True`) -/
def safeMinimal : List Nat := [32, 58, 47, 61, 39]

/-! ### `_replace_quotes = partial(re.compile(br'(=)"([^"]+)"').sub, br"\1'\2'")` -/

/-- First argument: bytes of a match still to be skipped.  At a `=` followed by `"`, a non-empty run without
    `"` and a closing `"`, the two quotes become `'` and the scan continues after the closing quote
    (leftmost, non-overlapping matches; `[^"]` matches every other byte, line breaks included). -/
def replaceQuotesGo : Nat → List Nat → List Nat
  | _, [] => []
  | skip + 1, _ :: bs => replaceQuotesGo skip bs
  | 0, b :: bs =>
    if b = 61 then
      match bs with
      | 34 :: rest =>
        let body := rest.takeWhile (· != 34)
        if !body.isEmpty && (rest.drop body.length).head? == some 34 then
          61 :: 39 :: (body ++ 39 :: replaceQuotesGo (body.length + 2) bs)
        else 61 :: replaceQuotesGo 0 bs
      | _ => 61 :: replaceQuotesGo 0 bs
    else b :: replaceQuotesGo 0 bs

def replaceQuotes (bs : List Nat) : List Nat := replaceQuotesGo 0 bs

/-! ### Python's keyword binding -/

/-- a function signature as far as keywords are concerned: parameters the caller binds positionally,
    the remaining named parameters with their defaults, and whether there is a `**kw` -/
structure Sig where
  positional : List String
  params : Config
  varkw : Bool

/-- the call `f(<positional>, **kw)`: values of the named parameters (signature order) and what `**kw` receives.
    TypeError: a keyword names a positionally bound parameter ("multiple values"), or is unknown and there
    is no `**kw` ("unexpected keyword argument") -/
def bindArgs (sig : Sig) (kw : Config) : R (Config × Config) :=
  if kw.any (fun e => sig.positional.contains e.1) then throw .typeError
  else
    let rest := kw.filter (fun e => !sig.params.any (·.1 == e.1))
    if !sig.varkw && !rest.isEmpty then throw .typeError
    else pure (sig.params.map (fun p => (p.1, (cget kw p.1).getD p.2)), rest)

/-- the call site `f(…, k1=v1, …, **kw)`: a name given explicitly and again in `kw` is a TypeError -/
def callKw (explicit kw : Config) : R Config :=
  if kw.any (fun e => explicit.any (·.1 == e.1)) then throw .typeError else pure (explicit ++ kw)

/-- value of a parameter in a bound map (all parameters of the signature are present there) -/
def arg (bound : Config) (k : String) : PyV := (cget bound k).getD .none

/-- a wrapper `def w(<positional>, p1=d1, …, **kw): … f(<positional>, q1=q1, …, **kw)` that hands the parameters
    `passes` on by name together with its `**kw`: the bound parameters and the keyword map of the inner call -/
def through (sig : Sig) (passes : List String) (kw : Config) : R (Config × Config) := do
  let (b, rest) ← bindArgs sig kw
  let inner ← callKw (passes.map (fun k => (k, arg b k))) rest
  pure (b, inner)

/-- `{k: v for k, v in kw.items() if k not in names}` -/
def dropKeys (names : List String) (kw : Config) : Config := kw.filter (fun e => !names.contains e.1)

/-- `dict(defaults, **kw)` as far as lookups are concerned: `kw` overrides `defaults` -/
def withDefaults (defaults kw : Config) : Config := defaults.filter (fun e => !kw.any (·.1 == e.1)) ++ kw

/-- keys of `writers._VALID_SERIALIZERS` (Gen.Sigs, regenerated) -/
def validKeys : List String := Gen.VALID_SERIALIZERS.map (·.1)

/-- keyword parameters and defaults of a serialiser (`inspect.signature` through `colorful`, Gen.Sigs);
    `compact` = `write_terminal_compact`, which is not in `_VALID_SERIALIZERS` -/
def serializerDefaults (key : String) : Option Config :=
  if key == "compact" then some [("border", .none)]
  else (Gen.SERIALIZER_DEFAULTS.find? (·.1 == key)).map (·.2)

/-- the call `serializer(matrix, matrix_size, out, **kw)`: the value every keyword parameter receives.
    `matrix`, `matrix_size`, `out`, `colormap` have no default and are not in the table: passing them by keyword
    is a TypeError like any unknown keyword. -/
def completeKw (key : String) (kw : Config) : R Config :=
  match serializerDefaults key with
  | none => throw .keyError
  | some defaults =>
    if kw.all (fun kv => defaults.any (·.1 == kv.1)) then
      pure (defaults.map (fun d => (d.1, (cget kw d.1).getD d.2)))
    else throw .typeError

/-! ### what a serialiser hands to `writable`, and where it ends up -/

/-- the `out` argument: a file name, or an object with a `write` method — binary (`io.BytesIO`, a file
    opened `'wb'`) or text (`io.StringIO`, `'wt'`) — with its `name` attribute if it has one -/
inductive OutArg where
  | path (name : Str)
  | stream (binary : Bool) (name : Option Str)
  deriving DecidableEq, Repr

/-- what a serialiser does with `out`: `writable(out, 'wb')` + bytes, or `writable(out, 'wt', encoding=…)` + str -/
inductive SerOut where
  | bytes (b : List Nat)
  | text (s : List Char) (encoding : Option String)
  deriving DecidableEq, Repr

/-- what `out` received: the content of the file / the bytes appended to a binary stream, or the text appended
    to a text stream -/
inductive Written where
  | bytes (b : List Nat)
  | chars (s : List Char)
  deriving DecidableEq, Repr

inductive Sink where
  | file | bin | txt
  deriving DecidableEq, Repr

def OutArg.sink : OutArg → Sink
  | .path _ => .file
  | .stream true _ => .bin
  | .stream false _ => .txt

/-- serialiser behaviour and runtime services -/
structure Env where
  /-- body of a serialiser on its bound parameters (key of `_VALID_SERIALIZERS` or `compact`, completed keyword map) -/
  sem : String → Config → R SerOut
  /-- `text.encode(encoding)`: LookupError (unknown codec), UnicodeError -/
  codec : String → List Char → R (List Nat)
  /-- `data.decode(encoding)` -/
  decode : String → List Nat → R (List Char)
  /-- encoding of `open(path, 'wt')` without `encoding=` (locale) -/
  defaultEnc : String
  /-- `gzip.open(out, 'wb', compresslevel=level)`: refusal of the level -/
  gzipCheck : PyV → R Unit
  /-- the gzip member written for the data (header with time stamp included: a runtime service) -/
  gzip : PyV → List Nat → List Nat

/-- the serialiser call: keyword binding, then the body -/
def Env.ser (env : Env) (key : String) (kw : Config) : R SerOut := do
  let full ← completeKw key kw
  env.sem key full

/-- `writable(out, mode, encoding)` on a binary stream / `io.BytesIO` (`codecs.getwriter(encoding)` when an
    encoding is given; a `str` written to a binary stream is a TypeError) -/
def writableBin (env : Env) : SerOut → R (List Nat)
  | .bytes b => pure b
  | .text s (some e) => env.codec e s
  | .text _ none => throw .typeError

/-- `writable` + the writes, for every kind of `out` -/
def writable (env : Env) : Sink → SerOut → R Written
  | .file, .bytes b => pure (.bytes b)
  | .file, .text s (some e) => do let b ← env.codec e s; pure (.bytes b)
  | .file, .text s none => do let b ← env.codec env.defaultEnc s; pure (.bytes b)
  | .bin, so => do let b ← writableBin env so; pure (.bytes b)
  | .txt, .text s none => pure (.chars s)
  | .txt, .text s (some e) => do
    -- `codecs.getwriter(e)(out).write(s)`: the codec runs (and may refuse), then bytes reach a text stream
    let _ ← env.codec e s
    throw .typeError
  | .txt, .bytes _ => throw .typeError

/-! ### plans -/

/-- where the serialiser's `out` parameter points -/
inductive Target where
  | out (sink : Sink)                    -- the caller's `out`, unchanged
  | gzipOf (level : PyV) (sink : Sink)   -- `gzip.open(out, 'wb', compresslevel=level)`
  | buffer                               -- a fresh `io.BytesIO()`
  | stdout                               -- `sys.stdout`
  deriving DecidableEq, Repr

/-- what happens after the serialiser returned -/
inductive Post where
  | nothing                                              -- `save`, `terminal`: the effect on `out` is the result
  | decode (encoding : PyV)                              -- `buff.getvalue().decode(encoding)`
  | svgUri (encoding : PyV) (minimal omitCharset : Bool)  -- `as_svg_data_uri`
  | pngUri                                               -- `as_png_data_uri`
  deriving DecidableEq, Repr

structure Plan where
  key : String
  kw : Config
  target : Target
  post : Post
  deriving DecidableEq, Repr

def refuseNames (names : List String) (kw : Config) : R Unit :=
  if kw.any (fun e => names.contains e.1) then throw .typeError else pure ()

/-- `QRCode.save(out, kind=None, **kw)` → `writers.save(self.matrix, self._matrix_size, out, kind, **kw)` -/
def savePlan (out : OutArg) (kind : Option Str) (kw : Config) : R Plan := do
  refuseNames ["self", "out", "kind"] kw          -- parameters of QRCode.save
  refuseNames ["matrix", "matrix_size"] kw        -- positional parameters of writers.save
  let key ← match kind, out with
    | some _, _ => dispatch validKeys [] false kind
    | none, .path n => dispatch validKeys n false none
    | none, .stream _ (some n) => dispatch validKeys n true none
    | none, .stream _ none => throw .typeError    -- AttributeError: the stream has no `name`, `fname.rfind` fails
  if key.2 then
    -- `gzip.open(out, 'wb', compresslevel=kw.pop('compresslevel', 9))`
    pure { key := key.1, kw := cpop kw "compresslevel", target := .gzipOf ((cget kw "compresslevel").getD (.int 9)) out.sink, post := .nothing }
  else
    pure { key := key.1, kw := kw, target := .out out.sink, post := .nothing }

/-- the keywords `svg_inline` forces -/
def inlineForced : Config := [("xmldecl", .bool false), ("svgns", .bool false), ("nl", .bool false)]

/-- `QRCode.svg_inline(**kw)`: `self.save(buff, kind='svg', xmldecl=False, svgns=False, nl=False, **kw)`, then
    `buff.getvalue().decode(kw.get('encoding', 'utf-8'))` -/
def svgInlinePlan (kw : Config) : R Plan := do
  refuseNames ["kind"] kw
  let kw' ← callKw inlineForced kw
  let p ← savePlan (.stream true none) (some "svg".toList) kw'
  pure { p with target := .buffer, post := .decode ((cget kw "encoding").getD (.str "utf-8")) }

/-- `QRCode.svg_data_uri(self, xmldecl=False, encode_minimal=False, omit_charset=False, nl=False, **kw)` -/
def svgDataUriSig : Sig :=
  { positional := ["self"], varkw := true,
    params := [("xmldecl", .bool false), ("encode_minimal", .bool false), ("omit_charset", .bool false), ("nl", .bool false)] }

/-- `writers.as_svg_data_uri(matrix, matrix_size, scale=1, …, encode_minimal=False, omit_charset=False, **kw)` -/
def asSvgDataUriSig : Sig :=
  { positional := ["matrix", "matrix_size"], varkw := true,
    params := [("scale", .int 1), ("border", .none), ("xmldecl", .bool false), ("svgns", .bool true), ("title", .none), ("desc", .none),
               ("svgid", .none), ("svgclass", .str "segno"), ("lineclass", .str "qrline"), ("omitsize", .bool false), ("unit", .str ""),
               ("encoding", .str "utf-8"), ("svgversion", .none), ("nl", .bool false), ("encode_minimal", .bool false),
               ("omit_charset", .bool false)] }

/-- the keywords `as_svg_data_uri` hands to `write_svg` explicitly, in the order of the call -/
def uriExplicit : List String :=
  ["scale", "border", "xmldecl", "svgns", "title", "desc", "svgclass", "lineclass", "omitsize", "encoding", "svgid", "unit", "svgversion", "nl"]

/-- `QRCode.svg_data_uri(**kw)` → `writers.as_svg_data_uri(…)` → `write_svg(matrix, matrix_size, buff, scale=scale, …, **kw)` -/
def svgDataUriPlan (kw : Config) : R Plan := do
  -- as_svg_data_uri(self.matrix, self._matrix_size, xmldecl=xmldecl, nl=nl, encode_minimal=…, omit_charset=…, **kw)
  let (_, call) ← through svgDataUriSig ["xmldecl", "nl", "encode_minimal", "omit_charset"] kw
  -- write_svg(matrix, matrix_size, buff, scale=scale, …, nl=nl, **kw)
  -- (`out` in `**kw` collides with the positional `buff`: refused with every unknown keyword when the call is bound)
  let (b, kwSvg) ← through asSvgDataUriSig uriExplicit call
  pure { key := "svg", kw := kwSvg, target := .buffer,
         post := .svgUri (arg b "encoding") (truthy (arg b "encode_minimal")) (truthy (arg b "omit_charset")) }

/-- `writers.as_png_data_uri(matrix, matrix_size, scale=1, border=None, compresslevel=9, **kw)` -/
def asPngDataUriSig : Sig :=
  { positional := ["matrix", "matrix_size"], varkw := true,
    params := [("scale", .int 1), ("border", .none), ("compresslevel", .int 9)] }

/-- `QRCode.png_data_uri(**kw)` → `as_png_data_uri(self.matrix, self._matrix_size, **kw)` →
    `write_png(matrix, matrix_size, buff, scale=scale, border=border, compresslevel=compresslevel, **kw)` -/
def pngDataUriPlan (kw : Config) : R Plan := do
  refuseNames ["self"] kw
  let (_, kwPng) ← through asPngDataUriSig ["scale", "border", "compresslevel"] kw
  pure { key := "png", kw := kwPng, target := .buffer, post := .pngUri }

/-- `QRCode.terminal(out=None, border=None, compact=False)` (not Windows): `out or sys.stdout`; the border is
    passed positionally.  `outTruthy`: `bool(out)` of the object given (a stream is truthy, `''` is not). -/
def terminalPlan (out : Option OutArg) (border compact : PyV) : Plan :=
  let target : Target := match out with
    | none => .stdout
    | some (.path []) => .stdout                 -- `'' or sys.stdout`
    | some o => .out o.sink
  { key := if truthy compact then "compact" else "ans", kw := [("border", border)], target := target, post := .nothing }

/-! ### executing a plan -/

/-- result of a route: the effect on `out` / `sys.stdout`, or the returned string -/
inductive Result where
  | written (w : Written)
  | value (s : List Char)
  deriving DecidableEq, Repr

def dataUriSvgHead : List Char := "data:image/svg+xml".toList
def dataUriPngHead : List Char := "data:image/png;base64,".toList

/-- the bytes in the buffer / what the target received -/
def runTarget (env : Env) (t : Target) (so : SerOut) : R Written :=
  match t with
  | .out sink => writable env sink so
  | .gzipOf level _ => do let b ← writableBin env so; pure (.bytes (env.gzip level b))
  | .buffer => do let b ← writableBin env so; pure (.bytes b)
  | .stdout => writable env .txt so

/-- what must hold before the serialiser is called -/
def openTarget (env : Env) : Target → R Unit
  | .gzipOf level sink => do
    env.gzipCheck level
    -- `GzipFile.__init__` writes the header: bytes into a text stream
    if sink == .txt then throw .typeError else pure ()
  | _ => pure ()

def execute (env : Env) (p : Plan) : R Result := do
  openTarget env p.target
  let so ← env.ser p.key p.kw
  let w ← runTarget env p.target so
  match p.post, w with
  | .nothing, w => pure (.written w)
  | .decode (.str e), .bytes b => do let s ← env.decode e b; pure (.value s)
  | .decode _, _ => throw .typeError                      -- `decode(None)`: encoding must be a str
  | .svgUri enc minimal noCharset, .bytes b =>
    -- f'data:image/svg+xml{(";charset=" + encoding if not omit_charset else "")},' + encode(_replace_quotes(buff.getvalue()))
    let charset : R (List Char) := if noCharset then pure [] else match enc with
      | .str e => pure (";charset=".toList ++ e.toList)
      | _ => throw .typeError
    do
      let cs ← charset
      pure (.value (dataUriSvgHead ++ cs ++ [','] ++ pctEncode (if minimal then safeMinimal else safeNormal) (replaceQuotes b)))
  | .pngUri, .bytes b => pure (.value (dataUriPngHead ++ b64encode b))
  | _, .chars _ => throw .typeError

/-! ### the public routes -/

def save (env : Env) (out : OutArg) (kind : Option Str) (kw : Config) : R Result := do
  let p ← savePlan out kind kw
  execute env p

def svgInline (env : Env) (kw : Config) : R Result := do
  let p ← svgInlinePlan kw
  execute env p

def svgDataUri (env : Env) (kw : Config) : R Result := do
  let p ← svgDataUriPlan kw
  execute env p

def pngDataUri (env : Env) (kw : Config) : R Result := do
  let p ← pngDataUriPlan kw
  execute env p

def terminal (env : Env) (out : Option OutArg) (border compact : PyV) : R Result :=
  execute env (terminalPlan out border compact)

/-! ### sequences (`QRCodeSequence.save`) -/

/-- the `out` the n-th of m symbols is saved to: a file name `stem.ext` becomes `stem-MM-NN.ext` when m > 1,
    everything else (a stream, a single symbol, a name without a dot) is passed on unchanged -/
def seqOut (out : OutArg) (m n : Nat) : OutArg :=
  match out with
  | .path name => .path (seqFileName name m n)
  | o => o

/-- the loop of `QRCodeSequence.save`: `n` = number of the next symbol, `m` = `len(self)` -/
def seqSaveGo (m : Nat) (out : OutArg) (kind : Option Str) (kw : Config) : Nat → List Env → R (List (OutArg × Result))
  | _, [] => pure []
  | n, env :: rest => do
    let r ← save env (seqOut out m n) kind kw
    let more ← seqSaveGo m out kind kw (n + 1) rest
    pure ((seqOut out m n, r) :: more)

/-- `QRCodeSequence.save(out, kind=None, **kw)`: `qrcode.save(filename(out, n), kind=kind, **kw)` for n = 1 … m;
    the result lists, in order, what was written where.  `envs` = the symbols (each with its own serialisers). -/
def seqSave (envs : List Env) (out : OutArg) (kind : Option Str) (kw : Config) : R (List (OutArg × Result)) :=
  seqSaveGo envs.length out kind kw 1 envs

/-! ### the command line tool (`cli.main` after `make_code`) -/

/-- `main`: `output = config.pop('output')`; without an output file `qr.terminal(border=config['border'],
    compact=config.get('compact', False))`, otherwise `qr.save(output, **build_config(config, filename=output))`.
    `parsed` = `vars(parse_args(argv))`; the keys `make_code` pops are removed by `mainConfig`. -/
def cliPlan (extToKw : List (String × List String)) (parsed : Config) : R Plan :=
  match cget parsed "output" with
  | some (.str output) => savePlan (.path output.toList) none (cliKwargs extToKw parsed output.toList)
  | some .none =>
    match cget parsed "border" with
    | some border => pure (terminalPlan none border ((cget parsed "compact").getD (.bool false)))
    | none => throw .keyError
  | some _ => throw .typeError      -- argparse stores a str or None
  | none => throw .keyError

def cliMain (env : Env) (extToKw : List (String × List String)) (parsed : Config) : R Result := do
  let p ← cliPlan extToKw parsed
  execute env p

/-! ### vocabulary of the statements in Props/C12Routes.lean -/

/-- the compression level `writers.save` takes out of the keyword map -/
def gzLevel (kw : Config) : PyV := (cget kw "compresslevel").getD (.int 9)

/-- `buff.getvalue().decode(encoding)` -/
def decodeResult (env : Env) (encoding : PyV) : Result → R Result
  | .written (.bytes b) => match encoding with
    | .str e => (env.decode e b).map .value
    | _ => .error .typeError
  | _ => .error .typeError

/-- `'data:image/png;base64,' + base64.b64encode(buff.getvalue()).decode('ascii')` -/
def toPngUri : Result → R Result
  | .written (.bytes b) => .ok (.value (dataUriPngHead ++ b64encode b))
  | _ => .error .typeError

def pngDefaults : Config := (serializerDefaults "png").getD []
def svgDefaults : Config := (serializerDefaults "svg").getD []

def pngPasses : List String := ["scale", "border", "compresslevel"]

/-- the keyword defaults in which `svg_data_uri` / `as_svg_data_uri` DIFFER from `write_svg` -/
def uriDefaults : Config := [("xmldecl", .bool false), ("nl", .bool false), ("unit", .str "")]

/-- the keywords of the `save` call an SVG data URI corresponds to: the data URI's own two switches removed, its
    differing defaults made explicit unless given -/
def uriSaveKw (kw : Config) : Config := withDefaults uriDefaults (dropKeys ["encode_minimal", "omit_charset"] kw)

/-- `f'data:image/svg+xml{(";charset=" + encoding if not omit_charset else "")},' + quote(_replace_quotes(buff.getvalue()), safe=…)` -/
def toSvgUri (encoding : PyV) (minimal omitCharset : Bool) : Result → R Result
  | .written (.bytes b) =>
    let charset : R (List Char) := if omitCharset then pure [] else match encoding with
      | .str e => pure (";charset=".toList ++ e.toList)
      | _ => throw .typeError
    charset >>= fun cs =>
      pure (.value (dataUriSvgHead ++ cs ++ [','] ++ pctEncode (if minimal then safeMinimal else safeNormal) (replaceQuotes b)))
  | _ => .error .typeError

def uriFlags : List String := ["xmldecl", "nl", "encode_minimal", "omit_charset"]

/-- two plans that bind the same serialiser to the same keyword values, target and post-processing -/
def planEquiv (p q : R Plan) : Bool :=
  match p, q with
  | .ok p, .ok q =>
    p.key == q.key && p.target == q.target && p.post == q.post &&
      (match completeKw p.key p.kw, completeKw q.key q.kw with
       | .ok a, .ok b => a == b
       | .error a, .error b => a == b
       | _, _ => false)
  | .error a, .error b => a == b
  | _, _ => false

end Model.Routes
