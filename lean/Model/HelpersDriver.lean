/-
  Model.HelpersDriver — driver commands of the `model` executable for the helpers model (C16, Tie B).
  Requests use the argument encoding of Spec/HelperArgs.lean; answers: `id=… ok=s<code points>` or
  `id=… err=ValueError` (EPC: `id=… ok=1 k=<character set> text=s<code points>`).
-/
import Model.Driver
import Model.Helpers

namespace Model.Helpers
open Spec.Helpers

def showStr (s : Str) : String := "s" ++ ".".intercalate (s.map (fun c => toString c.toNat))

def showResult (id : String) (r : Option Str) : String :=
  match r with
  | some s => s!"id={id} ok={showStr s}"
  | none => s!"id={id} err=ValueError"

/-- documented codec names in the order of `can=` flags -/
def codecNames : List String :=
  ["utf-8", "iso-8859-1", "iso-8859-2", "iso-8859-4", "iso-8859-5", "iso-8859-7", "iso-8859-10", "iso-8859-15"]

def handle (cmd : String) (r : Model.Req) : Option String :=
  let id := KV.getD r "id" "?"
  match cmd with
  | "hwifi" => some (showResult id (some (wifiData (wifiArgs r))))
  | "hmecard" => some (showResult id (some (mecardData (mecardArgs r))))
  | "hvcard" => some (showResult id (vcardData (vcardArgs r)))
  | "hgeo" => some (showResult id (some (geoData (parseRat (KV.getD r "lat" "0/0")) (parseRat (KV.getD r "lng" "0/0")))))
  | "hmailto" => some (showResult id (emailData (emailArgs r)))
  | "hepc" =>
    let a := epcArgs r
    let canName := fun (n : String) => match codecNames.idxOf? n with
      | some i => a.can.getD i false
      | none => false
    some (match epcData a canName with
      | some (k, t) => s!"id={id} ok=1 k={k} text={showStr t}"
      | none => s!"id={id} err=ValueError")
  | "hesc" =>
    let s := getStr r "s"
    some s!"id={id} mecard={showStr (escapeMecard s)} vcard={showStr (escapeVcard s)} vname={showStr (escapeVcardName s)}"
  | "hamount" => some s!"id={id} ok={showStr (fmtAmount (natOfChars (KV.getD r "cents" "0").toList))}"
  | _ => none

end Model.Helpers
