/-
  Model.Iter — hand-written executable model of segno/utils.py: `check_valid_scale`,
  `check_valid_border`, `get_border`, `matrix_iter`, `matrix_iter_verbose` (the `get_bit` if-chain in
  the order Python evaluates it, with the look-up in the matrix that `encoder.add_alignment_patterns`
  fills), and of the bit packing of the raster writers (`write_png` scanlines, `write_pbm`,
  `write_xbm`) and the text writers (`write_txt`, `write_terminal`, `write_terminal_compact`).
  Matrices are lists of rows (the proof-friendly twin of DESIGN §3); matrix values are 0 / 1.
-/
import Model.Encoder
import Model.IterShape
import Model.Align

namespace Model

/-- a Python number passed for `scale` / `border`: an `int`, or a `float` given by sign, integer
    part of the absolute value and whether the fractional part is non-zero -/
inductive Num where
  | int (i : Int)
  | float (neg : Bool) (ip : Nat) (fracNonZero : Bool)
  deriving Repr, Inhabited, DecidableEq

/-- `int(x)`: truncation towards zero -/
def Num.toInt : Num → Int
  | .int i => i
  | .float neg ip _ => if neg then -(ip : Int) else ip

/-- `int(x) != x` -/
def Num.isFractional : Num → Bool
  | .int _ => false
  | .float _ _ f => f

/-- `x < 0` (−0.0 is not negative) -/
def Num.isNegative : Num → Bool
  | .int i => i < 0
  | .float neg ip f => neg && (ip != 0 || f)

/-- `check_valid_scale` -/
def checkValidScale (s : Int) : R Unit := if s ≤ 0 then throw .valueError else pure ()

/-- `check_valid_border` -/
def checkValidBorder (b : Option Num) : R Unit :=
  match b with
  | none => pure ()
  | some x => if x.isFractional || x.isNegative then throw .valueError else pure ()

/-- `get_border` followed by its use in `range(-border, …)`: a float (even an integral one) is a
    `TypeError` there -/
def borderForRange (w h : Nat) (b : Option Num) : R Nat :=
  match b with
  | none => pure (Gen.get_default_border_size w h).toNat
  | some (.int i) => pure i.toNat
  | some (.float ..) => throw .typeError

/-- `chain.from_iterable(repeat(x, scale) for x in row)` -/
def scaleRow (s : Nat) (row : List Nat) : List Nat := row.flatMap (List.replicate s)

/-- the generator body of `matrix_iter` / `matrix_iter_verbose`: `cell ii jj` is the value for
    position (ii − b, jj − b) of the bordered symbol; every value `s` times, every row `s` times -/
def iterWith (cell : Nat → Nat → Nat) (w h s b : Nat) : List (List Nat) :=
  ((List.range (h + 2 * b)).map (fun ii => scaleRow s ((List.range (w + 2 * b)).map (fun jj => cell ii jj)))).flatMap
    (List.replicate s)

/-- value of the bordered matrix at (ii − b, jj − b):
    `r = matrix[i] if 0 <= i < height else border_row; r[j] if 0 <= j < width else 0` -/
def borderedCell (M : List (List Nat)) (w h b : Nat) (ii jj : Nat) : Nat :=
  let r := if b ≤ ii ∧ ii < b + h then M.getD (ii - b) [] else List.replicate w 0
  if b ≤ jj ∧ jj < b + w then r.getD (jj - b) 0 else 0

/-- `utils.matrix_iter(matrix, (w, h), scale, border)` (the whole generator, as a list) -/
def matrixIter (M : List (List Nat)) (w h : Nat) (scale : Num) (border : Option Num) : R (List (List Nat)) := do
  checkValidBorder border
  let s := scale.toInt
  checkValidScale s
  let b ← borderForRange w h border
  pure (iterWith (borderedCell M w h b) w h s.toNat b)

/-! ### `matrix_iter_verbose` -/

/-- `alignment_matrix = make_matrix(w, h, reserve_regions=False, add_timing=False);
    add_alignment_patterns(alignment_matrix, w, h)` for a square matrix (see Model.Align) -/
def alignmentMatrix (n : Nat) : R (List (List Nat)) :=
  match alignmentMatrix? n with
  | some A => pure A
  | none => throw PyErr.indexError

/-- `(LIGHT, DARK)[val]` for a matrix value 0 / 1 -/
def pick (light dark val : Nat) : Nat := if val == 0 then light else dark

/-- the value `get_bit` returns at each of its `return` statements -/
def branchCode (br : Branch) (a val : Nat) : Nat :=
  match br with
  | .alignment => pick Gen.TYPE_ALIGNMENT_PATTERN_LIGHT Gen.TYPE_ALIGNMENT_PATTERN_DARK a
  | .version => pick Gen.TYPE_VERSION_LIGHT Gen.TYPE_VERSION_DARK val
  | .darkmodule => Gen.TYPE_DARKMODULE
  | .timing => pick Gen.TYPE_TIMING_LIGHT Gen.TYPE_TIMING_DARK val
  | .format => pick Gen.TYPE_FORMAT_LIGHT Gen.TYPE_FORMAT_DARK val
  | .finder => pick Gen.TYPE_FINDER_PATTERN_LIGHT Gen.TYPE_FINDER_PATTERN_DARK val
  | .separator => Gen.TYPE_SEPARATOR
  | .data => pick Gen.TYPE_DATA_LIGHT Gen.TYPE_DATA_DARK val

/-- `get_bit(i, j)` for a position inside the symbol (the decision chain is `getBitBranch`).
    `a` = `alignment_matrix[i][j]`, `val` = `matrix[i][j]`, `w`, `h` = matrix size -/
def getBitInside (w h : Int) (isSquare isMicro : Bool) (a val : Nat) (i j : Int) : Nat :=
  branchCode (getBitBranch w h isSquare isMicro a i j) a val

/-- `get_bit` at bordered position (ii − b, jj − b) -/
def verboseCell (M A : List (List Nat)) (w h b : Nat) (ii jj : Nat) : Nat :=
  if b ≤ ii ∧ ii < b + h ∧ b ≤ jj ∧ jj < b + w then
    let i := ii - b
    let j := jj - b
    let isSquare := w == h
    let isMicro := isSquare && w < 21
    getBitInside (w : Int) (h : Int) isSquare isMicro ((A.getD i []).getD j 2) ((M.getD i []).getD j 0) (i : Int) (j : Int)
  else Gen.TYPE_QUIET_ZONE

/-- `utils.matrix_iter_verbose(matrix, (w, h), scale, border)` for square symbols -/
def matrixIterVerbose (M : List (List Nat)) (w h : Nat) (scale : Num) (border : Option Num) : R (List (List Nat)) := do
  checkValidBorder border
  let s := scale.toInt
  checkValidScale s
  let b ← borderForRange w h border
  let A ← alignmentMatrix w
  pure (iterWith (verboseCell M A w h b) w h s.toNat b)

/-! ### bit packing of the raster writers -/

/-- `reduce(lambda x, y: (x << d) + y, group)` for a non-empty group -/
def foldBits (d : Nat) : List Nat → Nat
  | [] => 0
  | x :: rest => rest.foldl (fun acc y => (acc <<< d) + y) x

/-- group number `g` of `zip_longest(*[iter(row)] * k, fillvalue=0)`: `k` consecutive values from
    position g·k, zero-filled at the end of the row -/
def groupAt (k : Nat) (row : List Nat) (g : Nat) : List Nat :=
  let c := (row.drop (g * k)).take k
  c ++ List.replicate (k - c.length) 0

/-- `zip_longest(*[iter(row)] * k, fillvalue=0)` -/
def groupsOf (k : Nat) (row : List Nat) : List (List Nat) :=
  (List.range ((row.length + k - 1) / k)).map (groupAt k row)

/-- the packed bytes of a PNG scanline of bit depth `d` / of a PBM row (`d` = 1): most significant
    bits first, last byte zero-filled -/
def packRow (d : Nat) (row : List Nat) : List Nat := (groupsOf (8 / d) row).map (foldBits d)

/-- the bytes of an XBM row: groups of 8 pixels, reversed (least significant bit first) -/
def packRowXbm (row : List Nat) : List Nat := (groupsOf 8 row).map (fun g => foldBits 1 g.reverse)

/-- `scanline(row, filter_type)` of `write_png` -/
def scanline (d : Nat) (filterType : Nat) (row : List Nat) : List Nat := filterType :: packRow d row

/-- the IDAT stream (before compression) of `write_png` for a picture whose modules have the colour
    indexes `idx` (rows of the symbol without border, scale 1), quiet zone index `qz` -/
def pngStream (idx : List (List Nat)) (w : Nat) (d s b qz : Nat) : List Nat :=
  let width := (w + 2 * b) * s
  let horizontal := if b > 0 then (List.replicate (b * s) (scanline d 0 (List.replicate width qz))).flatten else []
  let vertical := if b > 0 then List.replicate (b * s) qz else []
  let sameAsAbove := if s > 1 then (List.replicate (s - 1) (scanline d 2 (List.replicate width 0))).flatten else []
  horizontal ++ (idx.flatMap (fun row => scanline d 0 (vertical ++ scaleRow s row ++ vertical) ++ sameAsAbove)) ++ horizontal

/-- raster of `write_pbm(plain=False)` -/
def pbmRaster (rows : List (List Nat)) : List Nat := rows.flatMap (packRow 1)

/-- array content of `write_xbm` -/
def xbmBytes (rows : List (List Nat)) : List Nat := rows.flatMap packRowXbm

/-! ### text writers -/

/-- `write_txt` -/
def txtLines (rows : List (List Nat)) (dark light : String) : String :=
  String.join (rows.map (fun row => String.join (row.map (fun v => if v == 0 then light else dark)) ++ "\n"))

/-- run lengths of equal neighbours -/
def runs : List Nat → List (Nat × Nat)
  | [] => []
  | x :: rest =>
    match runs rest with
    | (y, n) :: more => if x == y then (y, n + 1) :: more else (x, 1) :: (y, n) :: more
    | [] => [(x, 1)]

/-- `write_terminal`: per run `ESC[7m` (light) / `ESC[49m` (dark), two spaces per module, `ESC[0m` -/
def ansiLines (rows : List (List Nat)) : String :=
  String.join (rows.map (fun row =>
    String.join ((runs row).map (fun (v, n) =>
      (if v == 0 then "\x1b[7m" else "\x1b[49m") ++ String.join (List.replicate n "  ") ++ "\x1b[0m")) ++ "\n"))

/-- `write_terminal_compact`: two rows per line; an odd last row is paired with `repeat(1)` -/
def compactLines (rows : List (List Nat)) : String :=
  let rec go (fuel : Nat) (rs : List (List Nat)) : List String :=
    match fuel, rs with
    | 0, _ => []
    | _, [] => []
    | fuel + 1, top :: rest =>
      let bottom := rest.headD (List.replicate top.length 1)
      let line := String.ofList ((top.zip bottom).map (fun (t, b) =>
        if t != 0 && b != 0 then ' ' else if t == 0 && b != 0 then '▀' else if t != 0 && b == 0 then '▄' else '█'))
      (line ++ "\n") :: go fuel (rest.drop 1)
  String.join (go rows.length rows)

end Model
