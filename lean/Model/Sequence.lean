/-
  Model.Sequence — hand-written executable model of `encoder.encode_sequence` (Structured Append),
  following the code after the commit "Structured Append splits and checks the encoded bytes of the
  message": the content is converted to bytes once, the parity byte is the XOR of those bytes, the
  bytes are divided into chunks (two bytes per character in kanji / hanzi mode), the number of symbols
  for a requested version is estimated from the total bit length, and for a requested symbol count the
  version is searched for the longest chunk.

  `msg`, `msgEnc` are the result of `data_to_bytes(content, encoding)` (a runtime service, DESIGN §3);
  for `str | bytes | int` content they coincide with the data / encoding of the single part.
-/
import Model.Driver

namespace Model

/-- `divide_into_chunks(data, num, char_size)`:
    `k, m = divmod(len(data) // char_size, num)`; chunk i = `data[(i*k + min(i, m))*cs : ((i+1)*k + min(i+1, m))*cs]` -/
def chunkStart (k m cs i : Nat) : Nat := (i * k + min i m) * cs

def divideIntoChunks (data : List Nat) (num cs : Nat) : List (List Nat) :=
  let n := data.length / cs
  let k := n / num
  let m := n % num
  (List.range num).map (fun i => (data.drop (chunkStart k m cs i)).take (chunkStart k m cs (i + 1) - chunkStart k m cs i))

/-- payload part of `calc_qrcode_bit_length` (inner function of `encode_sequence`), including its quirk:
    a numeric length that is a multiple of three is charged 7 extra bits -/
def estPayloadBits (mode charCount : Nat) : Nat :=
  if mode == Gen.MODE_NUMERIC then (charCount / 3) * 10 + (if charCount % 3 == 1 then 4 else 7)
  else if mode == Gen.MODE_ALPHANUMERIC then (charCount / 2) * 11 + (if charCount % 2 != 0 then 6 else 0)
  else if mode == Gen.MODE_BYTE then charCount * 8
  else if mode == Gen.MODE_KANJI || mode == Gen.MODE_HANZI then charCount * 13
  else 0

/-- `calc_qrcode_bit_length(char_count, ver_range, mode, encoding, is_eci, is_sa)`; `none` = KeyError -/
def calcQrcodeBitLength (charCount : Nat) (verRange : Int) (mode : Nat) (encoding : String) (isEci isSa : Bool) : Option Nat := do
  let cl ← cciLen mode verRange
  let o1 := 4 + cl
  let o2 := if isEci && mode == Gen.MODE_BYTE && encoding != Gen.DEFAULT_BYTE_ENCODING then o1 + 4 + 8 else o1
  let o3 := if isSa then o2 + 5 * 4 else o2
  pure (o3 + estPayloadBits mode charCount)

/-- `int(math.ceil(a / b))` for positive integers in exact arithmetic (see DESIGN §3, floats) -/
def ceilDiv (a b : Nat) : Nat := (a + b - 1) / b

/-- `number_of_symbols_by_version` -/
def numberOfSymbolsByVersion (msgLen cs : Nat) (v : Int) (error : Option Nat) (mode : Nat) (encoding : String) (eci : Bool) : R Nat := do
  let length := msgLen / cs
  let verRange := Gen.version_range v
  let some bl := calcQrcodeBitLength length verRange mode encoding eci true | throw PyErr.keyError
  let some cap := capacity v error | throw PyErr.keyError
  let cnt := ceilDiv bl cap
  let bl' := bl + 5 * 4 * (cnt - 1) + (if eci then 12 * (cnt - 1) else 0)
  pure (ceilDiv bl' cap)

def xorBytes (bs : List Nat) : Nat := bs.foldl (· ^^^ ·) 0

/-- first longest chunk: `max(chunks, key=len)` -/
def longest : List (List Nat) → List Nat
  | [] => []
  | c :: cs => cs.foldl (fun best x => if x.length > best.length then x else best) c

/-- `one_item_segments(chunk, mode)` -/
def oneItemSegments (chunk : List Nat) (mode : Nat) (encoding : String) : R (List Segment) := do
  let s ← makeSegment chunk (some mode) (if mode == Gen.MODE_HANZI then Gen.HANZI_ENCODING else encoding)
  pure (addSegment [] s)

/-- the Structured Append part of `encode_sequence` (after the single symbol shortcut): returns the
    chunks, the version used for every symbol and the parity byte -/
def planSequence (segs : List Segment) (msg : List Nat) (msgEnc : String) (error : Option Nat) (version : Option Int)
    (eci : Bool) (symbolCount : Option Nat) : R (Nat × List (List Nat) × Int × Nat) := do
  if segs.length > 1 then throw PyErr.valueError
  let some s0 := segs.head? | throw PyErr.indexError
  let mode := s0.mode
  let cs := if mode == Gen.MODE_KANJI || mode == Gen.MODE_HANZI then 2 else 1
  let length := msg.length
  match symbolCount with
  | some k => if length / cs < k then throw PyErr.valueError
  | none => pure ()
  let parity := xorBytes msg
  let num ← match version with
    | some v => numberOfSymbolsByVersion length cs v error mode msgEnc eci
    | none => pure (symbolCount.getD 16)
  if num > 16 then throw PyErr.dataOverflow
  let chunks := divideIntoChunks msg num cs
  let v ← match symbolCount, version with
    | some _, _ => do
      let segs' ← oneItemSegments (longest chunks) mode msgEnc
      findVersion segs' error eci (some false) true
    | none, some v => pure v
    | none, none => throw PyErr.valueError      -- unreachable: refused before
  pure (mode, chunks, v, parity)

/-- `encode_sequence` after argument normalisation (`version`: normalised version constant,
    `symbolCount`: the integer as given); the flag tells whether the Structured Append path was taken -/
def encodeSequenceAux (parts : List Part) (msg : List Nat) (msgEnc : String) (error : Option Nat) (version : Option Int)
    (mask : Option Nat) (eci boost : Bool) (symbolCount : Option Int) (eciNumber : String → Option Nat) : R (Bool × List Code) := do
  match version with
  | some v => if v < 1 then throw PyErr.valueError
  | none => if symbolCount.isNone then throw PyErr.valueError
  match symbolCount with
  | some k => if !(1 ≤ k && k ≤ 16) then throw PyErr.valueError
  | none => pure ()
  let error' := if error.isNone then some Gen.ERROR_LEVEL_L else error
  match mask with
  | some mk => if mk ≥ 8 then throw PyErr.valueError
  | none => pure ()
  let segs ← prepareData parts
  -- single symbol without Structured Append header
  let shortcut : Option Int ←
    if symbolCount.isNone then
      match findVersion segs error' eci (some false) with
      | .ok g => pure (if g ≤ version.getD g then some (version.getD g) else none)
      | .error PyErr.dataOverflow => pure none
      | .error e => throw e
    else pure none
  match shortcut with
  | some v => do
    let c ← encodeCore segs error' v mask eci boost eciNumber
    pure (false, [c])
  | none => do
    let (mode, chunks, v, parity) ← planSequence segs msg msgEnc error' version eci (symbolCount.map Int.toNat)
    let total := chunks.length - 1
    let cs ← (chunks.zipIdx).mapM (fun (chunk, i) => do
      let segs' ← oneItemSegments chunk mode msgEnc
      encodeCore segs' error' v mask eci boost eciNumber (some (i, total, parity)))
    pure (true, cs)

/-- `encode_sequence`: the list of symbols -/
def encodeSequence (parts : List Part) (msg : List Nat) (msgEnc : String) (error : Option Nat) (version : Option Int)
    (mask : Option Nat) (eci boost : Bool) (symbolCount : Option Int) (eciNumber : String → Option Nat) : R (List Code) :=
  (encodeSequenceAux parts msg msgEnc error version mask eci boost symbolCount eciNumber).map (·.2)

/-- indices of the symbols whose data bit stream (headers included) is longer than the capacity of the
    version / level they were encoded with (the stream `_encode` builds is then cut: finding D16) -/
def overflowing (eci isSa : Bool) (cs : List Code) : List Nat :=
  (cs.zipIdx).filterMap (fun (c, i) =>
    match capacity c.version c.error, bitLengthWithOverhead c.segments c.version eci isSa with
    | some cap, some bl => if bl > cap then some i else none
    | _, _ => some i)

/-! ### `_encode` split at the point where the data bit stream is complete (used to state C08) -/

/-- the Structured Append header `_encode` writes first: 0011 ‖ number₄ ‖ total₄ ‖ parity₈ -/
def saHeader : Option (Nat × Nat × Nat) → List Nat
  | some (number, total, parity) =>
    appendBits Gen.MODE_STRUCTURED_APPEND 4 ++ appendBits number 4 ++ appendBits total 4 ++ appendBits parity 8
  | none => []

/-- `_encode` from the point where the data bit stream `buff` (header and segments) is complete;
    `Proofs.Sequence.encodeCore_eq` shows that `encodeCore` is exactly: boost the level, write the
    header and the segments, then `encodeTail` -/
def encodeTail (buff : List Nat) (segs : List Segment) (error' : Option Nat) (v : Int) (mask : Option Nat) : R Code := do
  let some cap := capacity v error' | throw PyErr.keyError
  let stream ← finishStream buff v cap
  let final ← makeFinalMessage v error' stream
  let n := (Gen.calc_matrix_size v).toNat
  let m0 ← addAlignmentPatterns (addFinderPatterns (makeMatrix n) n) n
  let m1 ← addCodewords m0 final v
  let (mk, m2) ← findAndApplyBestMask m1 mask
  let m3 ← addFormatInfo m2 v error' mk
  let m4 ← addVersionInfo m3 v
  pure { matrix := m4, version := v, error := error', mask := mk, segments := segs }

/-! ### driver command `seq` -/

def showCodes (id : String) (eci : Bool) (r : R (Bool × List Code)) : String :=
  match r with
  | .error e => s!"id={id} err={e.name}"
  | .ok (isSa, cs) => s!"id={id} ok=1 n={cs.length} sa={if isSa then 1 else 0} over={",".intercalate ((overflowing eci isSa cs).map toString)} " ++ " ".intercalate (cs.zipIdx.map (fun (c, i) =>
      s!"s{i}={c.version}:{match c.error with | some x => toString x | none => "-"}:{c.mask}:{matrixStr c.matrix}"))

/-- `plan` shows the chunk sizes / version / parity the model predicts (localiser) -/
def showPlan (id : String) (r : R (Nat × List (List Nat) × Int × Nat)) : String :=
  match r with
  | .error e => s!"id={id} err={e.name}"
  | .ok (mode, chunks, v, parity) =>
    s!"id={id} ok=1 mode={mode} n={chunks.length} v={v} parity={parity} sizes={",".intercalate (chunks.map (fun c => toString c.length))}"

def handleSequence (cmd : String) (r : Req) : Option String :=
  let id := r.getD "id" "?"
  match cmd with
  | "seq" =>
    let parts := parseParts (r.getD "parts" "")
    let (msg, msgEnc) := match r.get "msg", parts with
      | some h, _ => (bytesOfHex h, r.getD "msgenc" Gen.DEFAULT_BYTE_ENCODING)
      | none, [p] => (p.data, p.encoding)
      | none, _ => ([], Gen.DEFAULT_BYTE_ENCODING)
    some (showCodes id (r.getD "eci" "0" == "1") (encodeSequenceAux parts msg msgEnc (optNat (r.getD "error" "-")) (optInt (r.getD "version" "-"))
      (optNat (r.getD "mask" "-")) (r.getD "eci" "0" == "1") (r.getD "boost" "1" == "1") (optInt (r.getD "count" "-"))
      (eciNumberFrom (r.getD "canon" ""))))
  | _ => none

end Model
