/-
  Model.IterShape — the decision chain of `get_bit` inside `utils.matrix_iter_verbose`, in the order
  Python evaluates it, returning WHICH `return` statement is taken.  This file imports nothing (in
  particular nothing generated), so that the proofs about the chain (Proofs/IterShape.lean) are not
  recompiled when a table of consts.py changes; `Model.Iter` attaches the type constants.
-/
namespace Model

/-- the `return` statements of `get_bit`, top to bottom -/
inductive Branch where
  | alignment | version | darkmodule | timing | format | finder | separator | data
  deriving DecidableEq, Repr, Inhabited

/-- which `return` of `get_bit(i, j)` is reached for a position inside the symbol.
    `a` = `alignment_matrix[i][j]` (2 = no alignment pattern there), `w`, `h` = matrix size -/
def getBitBranch (w h : Int) (isSquare isMicro : Bool) (a : Nat) (i j : Int) : Branch :=
  if !isMicro && a != 2 then .alignment
  else if !isMicro && (isSquare && w > 41) &&
      ((i < 6 && (w - 12 < j && j < w - 8)) || ((h - 12 < i && i < h - 8) && j < 6)) then .version
  else if !isMicro && (i == h - 8 && j == 8) then .darkmodule
  else if (!isMicro && ((i == 6 && (7 < j && j < w - 8)) || (j == 6 && (7 < i && i < h - 8))))
      || (isMicro && ((i == 0 && j > 7) || (j == 0 && i > 7))) then .timing
  else if (i == 8 && (j < 9 || (!isMicro && j > w - 10))) || (j == 8 && (i < 8 || (!isMicro && i > h - 9))) then .format
  else if (i < 7 && (j < 7 || (!isMicro && j > w - 8))) || (!isMicro && (i > h - 8 && j < 7)) then .finder
  else if (i < 8 && (j < 8 || (!isMicro && j > w - 9))) || (!isMicro && (i > h - 9 && j < 8)) then .separator
  else .data

end Model
