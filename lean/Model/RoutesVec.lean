/-
  Model.RoutesVec — completes the serialiser environment of Model/RoutesDocs.lean: the parameter `other` of
  `docSem` (what the real serialiser does where the raster / SVG document models do not speak) is filled with

    * the WHOLE-DOCUMENT models of `write_eps`, `write_pdf` (Model/VectorDocs.lean) and `write_tex` (Model/Tex.lean),
      their typed arguments read from the completed keyword map (`epsArgs`, `pdfArgs`, `texArgs`), and
    * the first statements of `write_svg` / `write_eps` / `write_pdf` / `write_tex` for a `float` border: every one
      of these writers starts with `check_valid_scale(scale); check_valid_border(border)`, and
      `check_valid_border` refuses a float that is negative or has a fractional part with ValueError
      (`floatBorderRefusal`).  (A float border with an integral value ≥ 0 — `border=2.0` — is NOT modelled: the
      vector writers print float coordinates for it, the raster writers end in TypeError.)

  `fullSem` / `fullEnv` are `docSem` / `docEnv` with this `other`; what is still outside (`rest`) remains a parameter.

  Runtime services (`VecServices`): the clock (`date` of the three writers) and Python's `str(1 / 255.0 * c)` (PDF
  colour operands); the float texts and zlib come from `RoutesDocs.Services`.  Mathlib-free.
-/
import Model.RoutesDocs
import Model.Tex
import Model.VectorDocs

namespace Model.RoutesVec
open Gen (PyV)
open Model Model.Cli Model.Routes Model.RoutesDocs

structure VecServices where
  /-- `time.strftime("%Y-%m-%dT%H:%M:%S")` (`write_tex`) -/
  texDate : String
  /-- `time.strftime("%Y-%m-%d %H:%M:%S")` (`write_eps`) -/
  epsDate : String
  /-- the text between `(D:` and `)` of the PDF creation date -/
  pdfDate : String
  /-- `str(1 / 255.0 * c)` -/
  chan : Nat → String

/-- a `float` border that `check_valid_border` refuses: negative, or with a fractional part
    (`int(border) != border or border < 0`); the float is `n / d` -/
def refusedFloat : PyV → Bool
  | .float n d => d != 0 && (decide (n < 0) || n.natAbs % d != 0)
  | _ => false

/-- a number for `check_valid_scale` -/
def isNumber : PyV → Bool
  | .int _ => true
  | .float _ d => d != 0
  | _ => false

/-- `check_valid_scale(scale); check_valid_border(border)` for a refused float border: ValueError whatever the scale is
    (a non-positive scale is refused first, with the same exception class) -/
def floatBorderRefusal (c : Config) : Option (R SerOut) :=
  if isNumber (arg c "scale") && refusedFloat (arg c "border") then some (.error .valueError) else none

/-- colour of `write_eps` / `write_pdf` (3-tuples with float channels are outside the keyword universe) -/
def vcolorOf (v : PyV) : Option VectorDocs.VColor := (colorOf v).map .arg

/-- the effective border: given or the default of the symbol size -/
def effBorder (w h : Nat) (border : Option Int) : Nat :=
  match border with
  | some i => i.toNat
  | none => (Gen.get_default_border_size w h).toNat

/-- `str((w + 2·border) * scale)`, `str((h + 2·border) * scale)` for a float scale -/
def sizeTexts (svc : Services) (w h : Nat) (border : Option Int) (scale : PyV) : String × String :=
  match scale with
  | .float n d => (svc.mulStr (w + 2 * effBorder w h border) n d, svc.mulStr (h + 2 * effBorder w h border) n d)
  | _ => ("", "")

def epsArgs (svc : Services) (vs : VecServices) (w h : Nat) (c : Config) : Option VectorDocs.EpsOpts := do
  let scale ← svgScaleOf svc (arg c "scale")
  let border ← intBorderOf (arg c "border")
  let dark ← vcolorOf (arg c "dark")
  let light ← vcolorOf (arg c "light")
  let t := sizeTexts svc w h border (arg c "scale")
  pure { scale := scale, border := border, dark := dark, light := light, date := vs.epsDate, widthText := t.1, heightText := t.2 }

def epsSem (svc : Services) (vs : VecServices) (M : List (List Nat)) (w h : Nat) (c : Config) : Option (R SerOut) :=
  (epsArgs svc vs w h c).map (fun o => (VectorDocs.writeEps M w h o).map (fun s => .text s.toList none))

def pdfArgs (svc : Services) (vs : VecServices) (w h : Nat) (c : Config) : Option (VectorDocs.PdfOpts × Int) := do
  let scale ← svgScaleOf svc (arg c "scale")
  let border ← intBorderOf (arg c "border")
  let dark ← vcolorOf (arg c "dark")
  let light ← vcolorOf (arg c "light")
  let level ← match arg c "compresslevel" with
    | .int i => if -1 ≤ i ∧ i ≤ 9 then some i else none
    | _ => none
  let t := sizeTexts svc w h border (arg c "scale")
  pure ({ scale := scale, border := border, dark := dark, light := light, date := vs.pdfDate, widthText := t.1, heightText := t.2,
          chan := vs.chan }, level)

/-- `write_pdf`: the whole file around the compressed content stream (`zlib.compress(content, level)`: service `deflate`) -/
def pdfSem (svc : Services) (vs : VecServices) (M : List (List Nat)) (w h : Nat) (c : Config) : Option (R SerOut) :=
  (pdfArgs svc vs w h c).map (fun a =>
    (VectorDocs.pdfContent M w h a.1).map (fun p =>
      .bytes (VectorDocs.pdfFile p (svc.deflate a.2 (VectorDocs.asciiBytes p.content)) vs.pdfDate)))

def texArgs (svc : Services) (vs : VecServices) (c : Config) : Option Tex.Opts := do
  let scale ← svgScaleOf svc (arg c "scale")
  let border ← intBorderOf (arg c "border")
  let dark ← optStrOf (arg c "dark")
  let unit ← match arg c "unit" with | .str s => some s | _ => none
  let url ← optStrOf (arg c "url")
  let mul : Nat → String := match arg c "scale" with
    | .float n d => fun k => svc.mulStr k n d
    | _ => fun _ => ""
  pure { scale := scale, border := border, dark := dark, unit := unit, url := url, date := vs.texDate, mul := mul }

def texSem (svc : Services) (vs : VecServices) (M : List (List Nat)) (w h : Nat) (c : Config) : Option (R SerOut) :=
  (texArgs svc vs c).map (fun o => (Tex.writeTex M w h o).map (fun s => .text s.toList none))

/-- what the real serialisers do where `docSem` does not speak, as far as it is modelled -/
def vecSem (svc : Services) (vs : VecServices) (M : List (List Nat)) (w h : Nat) (rest : String → Config → R SerOut)
    (key : String) (c : Config) : R SerOut :=
  let modelled : Option (R SerOut) :=
    if key == "eps" then (epsSem svc vs M w h c).orElse (fun _ => floatBorderRefusal c)
    else if key == "pdf" then (pdfSem svc vs M w h c).orElse (fun _ => floatBorderRefusal c)
    else if key == "tex" then (texSem svc vs M w h c).orElse (fun _ => floatBorderRefusal c)
    else if key == "svg" then floatBorderRefusal c
    else none
  match modelled with
  | some r => r
  | none => rest key c

/-- all thirteen serialisers of one symbol -/
def fullSem (svc : Services) (vs : VecServices) (M : List (List Nat)) (w h : Nat) (rest : String → Config → R SerOut) :
    String → Config → R SerOut :=
  docSem svc M w h (vecSem svc vs M w h rest)

def fullEnv (svc : Services) (vs : VecServices) (rt : Runtime) (M : List (List Nat)) (w h : Nat)
    (rest : String → Config → R SerOut) : Env :=
  docEnv svc rt M w h (vecSem svc vs M w h rest)

end Model.RoutesVec
