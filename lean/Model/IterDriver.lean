/-
  Model.IterDriver — `model` commands for utils.matrix_iter / matrix_iter_verbose and the pixel
  pipelines of the raster / text writers (correspondence for C09 and C11).
-/
import Model.Iter
import Model.Driver

namespace Model.Iter

open Model

def parseNum (t : String) : Option Num :=
  let (neg, body) := if t.startsWith "-" then (true, (t.drop 1).toString) else (false, t)
  match body.splitOn "." with
  | [a] => a.toNat?.map (fun n => Num.int (if neg then -(n : Int) else n))
  | [a, f] => a.toNat?.map (fun n => Num.float neg n (f.toList.any (· != '0')))
  | _ => none

def parseRows (s : String) : List (List Nat) :=
  if s == "" then [] else (s.splitOn "/").map (fun r => r.toList.map (fun c => c.toNat - 48))

def showDigits (rows : List (List Nat)) : String :=
  "/".intercalate (rows.map (fun r => String.ofList (r.map (fun x => Char.ofNat (48 + x)))))

def showInts (rows : List (List Nat)) : String :=
  "/".intercalate (rows.map (fun r => ",".intercalate (r.map toString)))

def hexOf (bs : List Nat) : String := String.ofList (bs.flatMap (fun b => [hexDigit (b / 16 % 16), hexDigit (b % 16)]))

def stringOfHex (h : String) : String :=
  match String.fromUTF8? (ByteArray.mk ((bytesOfHex h).toArray.map (fun (n : Nat) => n.toUInt8))) with
  | some s => s
  | none => "?"

def hexOfString (s : String) : String := hexOf (s.toUTF8.toList.map (·.toNat))

structure Args where
  m : List (List Nat)
  n : Nat
  scale : Num
  border : Option Num

def args (r : Req) : Option Args := do
  let m := parseRows (r.getD "m" "")
  let scale ← parseNum (r.getD "scale" "1")
  let border ← match r.getD "border" "-" with
    | "-" => some none
    | t => (parseNum t).map some
  pure { m := m, n := m.length, scale := scale, border := border }

/-- the validation the writers perform before producing anything: `scale = int(scale)`,
    `_valid_width_height_and_border` -/
def writerRows (a : Args) : R (List (List Nat)) := matrixIter a.m a.n a.n a.scale a.border

def handle (cmd : String) (r : Req) : Option String :=
  let id := r.getD "id" "?"
  let fail (e : PyErr) := s!"id={id} err={e.name}"
  match cmd with
  | "iter" => some (match args r with
    | none => s!"id={id} error=bad-request"
    | some a => match matrixIter a.m a.n a.n a.scale a.border with
      | .error e => fail e
      | .ok rows => s!"id={id} ok=1 rows={showDigits rows}")
  | "iterv" => some (match args r with
    | none => s!"id={id} error=bad-request"
    | some a => match matrixIterVerbose a.m a.n a.n a.scale a.border with
      | .error e => fail e
      | .ok rows => s!"id={id} ok=1 rows={showInts rows}")
  | "pack" => some (match args r with
    | none => s!"id={id} error=bad-request"
    | some a => match writerRows a with
      | .error e => fail e
      | .ok rows =>
        match r.getD "fmt" "" with
        | "pbm" => s!"id={id} ok=1 bytes={hexOf (pbmRaster rows)}"
        | "pbm-plain" => s!"id={id} ok=1 bytes={hexOfString (String.join (rows.map (fun row => String.ofList (row.map (fun x => Char.ofNat (48 + x))) ++ "\n")))}"
        | "xbm" => s!"id={id} ok=1 bytes={hexOf (xbmBytes rows)}"
        | "png-grey" =>
          -- greyscale, bit depth 1: black = 0, white = 1; `inv` = dark modules white
          let inv := r.getD "inv" "0" == "1"
          let (darkIdx, lightIdx) := if inv then (1, 0) else (0, 1)
          match borderForRange a.n a.n a.border with
          | .error e => fail e
          | .ok b =>
            let idx := a.m.map (fun row => row.map (fun v => if v == 0 then lightIdx else darkIdx))
            s!"id={id} ok=1 bytes={hexOf (pngStream idx a.n 1 a.scale.toInt.toNat b lightIdx)}"
        | "txt" => s!"id={id} ok=1 bytes={hexOfString (txtLines rows (stringOfHex (r.getD "tdark" "31")) (stringOfHex (r.getD "tlight" "30")))}"
        | "ans" => s!"id={id} ok=1 bytes={hexOfString (ansiLines rows)}"
        | "compact" => s!"id={id} ok=1 bytes={hexOfString (compactLines rows)}"
        | f => s!"id={id} error=unknown-format-{f}")
  | _ => none

end Model.Iter
