/-
  Model.Colormap — hand-written executable model of `writers._make_colormap` and of the keyword
  handling of the `writers.colorful` decorator (segno/writers.py): the module type → colour map
  built from `dark` / `light` and the 15 per-type options, and the keys that are dropped for the
  size classes that have no such module type.  Generic in the colour type (the map is built before
  any colour is parsed).  A Python dict is an association list in insertion order.
-/
import Gen.Tables

namespace Model

/-- the 15 per-type keyword options of `colorful`'s wrapper.  `none` = not given (the default
    `False`; the code tests `is not False`), `some c` = given (`c` may stand for Python's `None`) -/
structure TypeOpts (α : Type) where
  finder_dark : Option α := none
  finder_light : Option α := none
  data_dark : Option α := none
  data_light : Option α := none
  version_dark : Option α := none
  version_light : Option α := none
  format_dark : Option α := none
  format_light : Option α := none
  alignment_dark : Option α := none
  alignment_light : Option α := none
  timing_dark : Option α := none
  timing_light : Option α := none
  separator : Option α := none
  dark_module : Option α := none
  quiet_zone : Option α := none

/-- `unsupported` of `_make_colormap(matrix_width, matrix_height, …)` -/
def unsupportedTypes (w h : Nat) : List Nat :=
  if w != h then
    -- rMQR
    [Gen.TYPE_DARKMODULE, Gen.TYPE_VERSION_DARK, Gen.TYPE_VERSION_LIGHT] ++
      (if w < 43 then [Gen.TYPE_ALIGNMENT_PATTERN_DARK, Gen.TYPE_ALIGNMENT_PATTERN_LIGHT] else [])
  else if w < 45 then
    -- below QR Code version 7
    [Gen.TYPE_VERSION_DARK, Gen.TYPE_VERSION_LIGHT] ++
      (if w < 21 then [Gen.TYPE_DARKMODULE, Gen.TYPE_ALIGNMENT_PATTERN_DARK, Gen.TYPE_ALIGNMENT_PATTERN_LIGHT] else [])
  else []

/-- the dict `mt2color` (insertion order of the literal): `x if x is not False else dark / light` -/
def mt2color {α : Type} (dark light : α) (o : TypeOpts α) : List (Nat × α) :=
  [(Gen.TYPE_FINDER_PATTERN_DARK, o.finder_dark.getD dark),
   (Gen.TYPE_FINDER_PATTERN_LIGHT, o.finder_light.getD light),
   (Gen.TYPE_DATA_DARK, o.data_dark.getD dark),
   (Gen.TYPE_DATA_LIGHT, o.data_light.getD light),
   (Gen.TYPE_VERSION_DARK, o.version_dark.getD dark),
   (Gen.TYPE_VERSION_LIGHT, o.version_light.getD light),
   (Gen.TYPE_ALIGNMENT_PATTERN_DARK, o.alignment_dark.getD dark),
   (Gen.TYPE_ALIGNMENT_PATTERN_LIGHT, o.alignment_light.getD light),
   (Gen.TYPE_TIMING_DARK, o.timing_dark.getD dark),
   (Gen.TYPE_TIMING_LIGHT, o.timing_light.getD light),
   (Gen.TYPE_FORMAT_DARK, o.format_dark.getD dark),
   (Gen.TYPE_FORMAT_LIGHT, o.format_light.getD light),
   (Gen.TYPE_SEPARATOR, o.separator.getD light),
   (Gen.TYPE_DARKMODULE, o.dark_module.getD dark),
   (Gen.TYPE_QUIET_ZONE, o.quiet_zone.getD light)]

/-- `_make_colormap(matrix_width, matrix_height, dark, light, **options)` -/
def makeColormap {α : Type} (w h : Nat) (dark light : α) (o : TypeOpts α) : List (Nat × α) :=
  (mt2color dark light o).filter (fun e => !(unsupportedTypes w h).contains e.1)

/-- `colormap[mt]` (`none` = KeyError) -/
def cmGet {α : Type} (cm : List (Nat × α)) (mt : Nat) : Option α := (cm.find? (·.1 == mt)).map (·.2)

end Model
