/-
  Model.VectorDocs — hand-written executable models of `writers.write_eps` (the whole PostScript
  program) and `writers.write_pdf` (the whole file) of segno/writers.py.

  Modelled: validation, colour handling (`_color_is_black`, `_color_to_rgb`, the `{:f}` formatting of
  `1 / 255.0 * c` for EPS), every line of the EPS program incl. the line breaking by
  `textwrap.wrap(content, 254)`, the content stream of the PDF, the header, the five objects, `/Length`,
  the cross-reference table from the byte offsets (`Model.Lines.prefixSums` of the piece lengths — the
  function of the theorem `pdf_offsets`), trailer and `startxref`.

  Runtime services passed in: the clock (`%%CreationDate`, `/CreationDate`), Python's `str` of floats
  (float `scale`, width / height for a float scale, `str(1 / 255.0 * c)` for the PDF colour operands),
  zlib (the compressed content stream; the model produces the uncompressed stream).
  Not modelled: colour tuples with float channels, tab expansion and the splitting of hyphenated words
  in `textwrap.wrap` (no line that needs wrapping contains letters), `break_long_words`.
-/
import Model.SvgDoc
import Gen.Writers

namespace Model.VectorDocs

open Model Model.Lines Model.Svg

/-! ### `textwrap.wrap(content, width)` for texts made of words and runs of blanks -/

/-- maximal runs of blanks / non-blanks (`TextWrapper._split` on a text without hyphenated words; every
    whitespace character counts as a blank: `replace_whitespace`) -/
def chunksOf : List Char → List (List Char)
  | [] => []
  | c :: rest =>
    let isB := fun (x : Char) => x == ' ' || x == '\t' || x == '\n' || x == '\r' || x.toNat == 11 || x.toNat == 12
    let c' := if isB c then ' ' else c
    match chunksOf rest with
    | [] => [[c']]
    | (d :: ds) :: more => if isB c == (d == ' ') then (c' :: d :: ds) :: more else [c'] :: (d :: ds) :: more
    | [] :: more => [c'] :: more

def isBlankChunk (ch : List Char) : Bool := ch.all (· == ' ')

/-- the inner loop: takes chunks while `cur_len + len(chunk) <= width`; returns the line (reversed list of chunks) and the rest -/
def takeLine (width : Nat) : Nat → List (List Char) → List (List Char) → List (List Char) × List (List Char)
  | _, cur, [] => (cur, [])
  | curLen, cur, ch :: rest =>
    if curLen + ch.length ≤ width then takeLine width (curLen + ch.length) (ch :: cur) rest
    else (cur, ch :: rest)

/-- the chunks the inner loop takes (reversed) and the rest; a word longer than the width is put on a line of its own, unbroken -/
def pickTaken (width : Nat) (c0 : List Char) (rest0 : List (List Char)) : List (List Char) × List (List Char) :=
  let tl := takeLine width 0 [] (c0 :: rest0)
  if tl.1.isEmpty then ([c0], rest0) else tl

/-- `if self.drop_whitespace and cur_line and cur_line[-1].strip() == '': del cur_line[-1]` (on the reversed line) -/
def dropTrailingBlank : List (List Char) → List (List Char)
  | last :: before => if isBlankChunk last then before else last :: before
  | [] => []

/-- one round of the outer loop of `TextWrapper._wrap_chunks` on the chunks `c0 :: rest0`.
    Result: the line (chunks in order) and the remaining chunks -/
def lineStep (width : Nat) (c0 : List Char) (rest0 : List (List Char)) : List (List Char) × List (List Char) :=
  ((dropTrailingBlank (pickTaken width c0 rest0).1).reverse, (pickTaken width c0 rest0).2)

/-- `TextWrapper._wrap_chunks`: the lines as lists of chunks -/
def wrapLines (width : Nat) : Nat → Bool → List (List Char) → List (List (List Char))
  | 0, _, _ => []
  | _, _, [] => []
  | fuel + 1, first, ch :: rest =>
    -- a blank chunk at the start of a line is dropped, except on the first line
    let chunks := if !first && isBlankChunk ch then rest else ch :: rest
    match chunks with
    | [] => []
    | c0 :: rest0 =>
      let st := lineStep width c0 rest0
      let tail := wrapLines width fuel false st.2
      if st.1.isEmpty then tail else st.1 :: tail

def wrapChunks (width : Nat) (fuel : Nat) (first : Bool) (chunks : List (List Char)) : List String :=
  (wrapLines width fuel first chunks).map (fun l => String.ofList l.flatten)

def wrap (width : Nat) (s : String) : List String :=
  let chunks := chunksOf s.toList
  wrapChunks width (chunks.length + 1) true chunks

/-- `write_line(f.write, content)`: every wrapped line followed by LF -/
def writeLine (content : String) : String := String.join ((wrap 254 content).map (· ++ "\n"))

/-! ### EPS -/

def pad6 (n : Nat) : String :=
  let s := toString n
  String.ofList (List.replicate (6 - s.length) '0') ++ s

/-- `'{:f}'.format(1 / 255.0 * c)` for an int 0 ≤ c ≤ 255: six decimals, correctly rounded (c / 255 never lies
    half-way between two millionths) -/
def fixed6 (c : Nat) : String :=
  let m := (2 * c * 1000000 + 255) / 510
  toString (m / 1000000) ++ "." ++ pad6 (m % 1000000)

/-- a channel of a colour 3-tuple: an `int`, or a `float` given by what Python prints for it (`'{:f}'`, `str`) and how it
    compares (`== 0`, `0.0 <= c <= 1.0`, `0 <= c <= 255`) — runtime services -/
inductive Chan where
  | int (n : Nat)
  | float (fixed6 repr : String) (isZero in01 in255 : Bool)
  deriving Repr, DecidableEq

/-- a colour argument of `write_eps` / `write_pdf`: a `ColorArg`, or a 3-tuple with float channels (accepted here only) -/
inductive VColor where
  | arg (c : ColorArg)
  | tuple3 (r g b : Chan)
  deriving Repr, DecidableEq

def Chan.isZero : Chan → Bool
  | .int n => n == 0
  | .float _ _ z _ _ => z

def Chan.in255 : Chan → Bool
  | .int n => n ≤ 255
  | .float _ _ _ _ b => b

/-- `_color_is_black(color)` -/
def VColor.isBlack : VColor → Bool
  | .arg c => Svg.isBlack c
  | .tuple3 r g b => r.isZero && g.isZero && b.isZero

def VColor.isNone : VColor → Bool
  | .arg .none => true
  | _ => false

/-- `tuple(to_float(i) for i in _color_to_rgb(clr))`, every channel printed by `intText` (an int `c`: the text of
    `1 / 255.0 * c`) or `floatText` (a float, after `0.0 <= c <= 1.0`) -/
def channelTexts (intText : Nat → String) (floatText : Chan → String) : VColor → R (List String)
  | .arg c => do let l ← colorToRgb c; pure (l.map intText)
  | .tuple3 r g b =>
    -- `_color_to_rgba`: `is_valid = 0 <= part <= 255` part by part
    if !(r.in255 && g.in255 && b.in255) then throw PyErr.valueError
    else [r, g, b].mapM (fun ch => match ch with
      | .int n => pure (intText n)
      | .float _ _ _ in01 _ => if in01 then pure (floatText ch) else throw PyErr.valueError)

structure EpsOpts where
  scale : Scale := .int 1
  border : Option Int := none
  dark : VColor := .arg (.str "#000")
  light : VColor := .arg .none
  /-- `time.strftime("%Y-%m-%d %H:%M:%S")` (runtime service) -/
  date : String := ""
  widthText : String := ""
  heightText : String := ""

/-- `'{0:f} {1:f} {2:f}'.format(*rgb_to_floats(clr))` -/
def epsColor (c : VColor) : R String := do
  match ← channelTexts fixed6 (fun ch => match ch with | .float t _ _ _ _ => t | .int n => fixed6 n) c with
  | [r, g, b] => pure (r ++ " " ++ g ++ " " ++ b)
  | _ => throw PyErr.valueError

/-- `write_eps(matrix, (w, h), out, scale, border, dark, light)`: the text written -/
def writeEps (m : List (List Nat)) (w h : Nat) (o : EpsOpts) : R String := do
  match o.scale with
  | .int i => if i ≤ 0 then throw PyErr.valueError
  | .float _ pos _ => if !pos then throw PyErr.valueError
  match o.border with
  | some i => if i < 0 then throw PyErr.valueError
  | none => pure ()
  let b : Nat := match o.border with
    | some i => i.toNat
    | none => (Gen.get_default_border_size w h).toNat
  let (width, height) : String × String := match o.scale with
    | .int i => (toString (((w + 2 * b : Nat) : Int) * i), toString (((h + 2 * b : Nat) : Int) * i))
    | .float .. => (o.widthText, o.heightText)
  let strokeBlack := o.dark.isBlack
  let strokeColor ← if strokeBlack then pure "" else epsColor o.dark
  let lightPart ← if o.light.isNone then pure "" else do
      let t ← epsColor o.light
      pure (writeLine (t ++ " setrgbcolor clippath fill") ++ (if strokeBlack then writeLine "0 0 0 setrgbcolor" else ""))
  let path ← match epsPath m b with
    | some toks => pure (" ".intercalate toks)
    | none => throw PyErr.lookupError          -- `next(line_iter)`: StopIteration (no dark module at all)
  pure (
    writeLine "%!PS-Adobe-3.0 EPSF-3.0"
    ++ writeLine ("%%Creator: " ++ Gen.Writers.CREATOR)
    ++ writeLine ("%%CreationDate: " ++ o.date)
    ++ writeLine "%%DocumentData: Clean7Bit"
    ++ writeLine ("%%BoundingBox: 0 0 " ++ width ++ " " ++ height)
    ++ writeLine "/m { rmoveto } bind def"
    ++ writeLine "/l { rlineto } bind def"
    ++ lightPart
    ++ (if !strokeBlack then writeLine (strokeColor ++ " setrgbcolor") else "")
    ++ (if o.scale.notOne then writeLine (o.scale.text ++ " " ++ o.scale.text ++ " scale") else "")
    ++ writeLine "newpath"
    ++ writeLine path
    ++ writeLine "stroke"
    ++ writeLine "%%EOF")

/-! ### PDF -/

structure PdfOpts where
  scale : Scale := .int 1
  border : Option Int := none
  dark : VColor := .arg (.str "#000")
  light : VColor := .arg .none
  /-- the creation date text between `(D:` and `)` (runtime service) -/
  date : String := ""
  widthText : String := ""
  heightText : String := ""
  /-- `str(1 / 255.0 * c)` (runtime service: Python's float `repr`) -/
  chan : Nat → String := fun _ => ""

/-- `'{} {} {}'.format(*to_pdf_color(clr))` -/
def pdfColor (o : PdfOpts) (c : VColor) : R String := do
  match ← channelTexts o.chan (fun ch => match ch with | .float _ t _ _ _ => t | .int n => o.chan n) c with
  | [r, g, b] => pure (r ++ " " ++ g ++ " " ++ b)
  | _ => throw PyErr.valueError

structure PdfPage where
  width : String
  height : String
  content : String          -- `' '.join(cmds)`, before compression

/-- everything `write_pdf` computes before it opens the file -/
def pdfContent (m : List (List Nat)) (w h : Nat) (o : PdfOpts) : R PdfPage := do
  match o.scale with
  | .int i => if i ≤ 0 then throw PyErr.valueError
  | .float _ pos _ => if !pos then throw PyErr.valueError
  match o.border with
  | some i => if i < 0 then throw PyErr.valueError
  | none => pure ()
  let b : Nat := match o.border with
    | some i => i.toNat
    | none => (Gen.get_default_border_size w h).toNat
  let (width, height) : String × String := match o.scale with
    | .int i => (toString (((w + 2 * b : Nat) : Int) * i), toString (((h + 2 * b : Nat) : Int) * i))
    | .float .. => (o.widthText, o.heightText)
  let lightCmds ← if o.light.isNone then pure [] else do
      let t ← pdfColor o o.light
      pure [t ++ " rg", "0 0 " ++ width ++ " " ++ height ++ " re", "f q"]
  let scaleCmds := if o.scale.notOne then [o.scale.text ++ " 0 0 " ++ o.scale.text ++ " 0 0 cm"] else []
  let darkCmds ← if o.dark.isBlack then pure [] else do
    let t ← pdfColor o o.dark
    pure [t ++ " RG"]
  -- `1 0 0 1 border y cm`, the lines, `S` (the token stream of `Model.Lines.pdfOps`)
  pure { width := width, height := height,
         content := " ".intercalate (lightCmds ++ scaleCmds ++ darkCmds ++ pdfOps m b) }

def asciiBytes (s : String) : List Nat := s.toList.map (·.toNat)

def pad10 (n : Nat) : String :=
  let s := toString n
  String.ofList (List.replicate (10 - s.length) '0') ++ s

/-- the pieces `write_pdf` writes before the cross-reference table: header, objects 1 … 5 (object 4 with the compressed
    stream `graphic` and its trailer) -/
def pdfFilePieces (p : PdfPage) (graphic : List Nat) (date : String) : List (List Nat) :=
  [ [0x25, 0x50, 0x44, 0x46, 0x2d, 0x31, 0x2e, 0x34, 0x0d, 0x25, 0xe2, 0xe3, 0xcf, 0xd3, 0x0d, 0x0a],   -- b'%PDF-1.4\r%\xE2\xE3\xCF\xD3\r\n'
    asciiBytes "1 0 obj <</Type /Catalog /Pages 2 0 R>>\r\nendobj\r\n",
    asciiBytes "2 0 obj <</Type /Pages /Kids [3 0 R] /Count 1>>\r\nendobj\r\n",
    asciiBytes ("3 0 obj <</Type /Page /Parent 2 0 R /MediaBox [0 0 " ++ p.width ++ " " ++ p.height ++ "] /Contents 4 0 R>>\r\nendobj\r\n"),
    asciiBytes ("4 0 obj <</Length " ++ toString graphic.length ++ " /Filter /FlateDecode>>\r\nstream\r\n") ++ graphic
      ++ asciiBytes "\r\nendstream\r\nendobj\r\n",
    asciiBytes ("5 0 obj <</CreationDate(D:" ++ date ++ ")/Producer(" ++ Gen.Writers.CREATOR ++ ")/Creator(" ++ Gen.Writers.CREATOR
      ++ ")\r\n>>\r\nendofbj\r\n") ]

/-- `object_pos`: the position before each of the objects 1 … 5 and the position after object 5 (= `xref_location`) -/
def pdfObjectPos (pieces : List (List Nat)) : List Nat := prefixSums 0 (pieces.map List.length)

/-- the cross-reference table, the trailer and `startxref` -/
def pdfTail (objectPos : List Nat) : List Nat :=
  asciiBytes ("xref\r\n0 " ++ toString (objectPos.length + 1) ++ "\r\n0000000000 65535 f\r\n"
    ++ String.join (objectPos.map (fun pos => pad10 pos ++ " 00000 n\r\n"))
    ++ "trailer <</Size " ++ toString (objectPos.length + 1) ++ "/Root 1 0 R/Info 5 0 R>>\r\n"
    ++ "startxref\r\n" ++ toString (objectPos.getLastD 0) ++ "\r\n%%EOF\r\n")

/-- the whole file, given the compressed content stream -/
def pdfFile (p : PdfPage) (graphic : List Nat) (date : String) : List Nat :=
  let pieces := pdfFilePieces p graphic date
  pieces.flatten ++ pdfTail (pdfObjectPos pieces)

end Model.VectorDocs
