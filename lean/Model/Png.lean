/-
  Model.Png — hand-written executable model of `writers.write_png` (segno/writers.py) from the colour
  map to the chunk contents: colour parsing of the PNG path (`png_color` = `_color_to_rgb_or_rgba`
  with `alpha_float=False`, `_color_to_rgba`, `_hex_to_rgb_or_rgba`, `_alpha_value`), palette
  assembly (sorted set of colours, greyscale detection, bit depth, RGBA entries first, stand-in colour
  for "transparent" from the CSS table, tRNS), selection of the iterator (`_is_two_tone`), colour
  index per module type, and the scanlines (`Model.pngStream`).

  Output = IHDR fields, PLTE bytes, tRNS bytes and the IDAT stream before compression.
  Runtime services supplied by the caller: the iteration order of Python's `set` (`setOrder`, only
  relevant if two colours share R, G, B and differ in alpha), zlib and the CRCs (not modelled: the
  harness inflates, the judge checks the CRCs).  Not modelled: the pHYs chunk (`dpi`).
-/
import Model.Iter
import Model.Colormap
import Gen.Colors

namespace Model

/-! ### colour arguments and their parsing (`alpha_float=False`) -/

/-- a colour argument as the caller wrote it -/
inductive ColorArg where
  | none                                   -- Python `None`
  | str (s : String)                       -- colour name or hexadecimal notation
  | ints (parts : List Nat)                -- a tuple of (non-negative) ints of any length
  | floatAlpha (r g b permille : Nat)      -- `(r, g, b, a)` with a float `a` = permille / 1000
  deriving DecidableEq, Repr, Inhabited

/-- what `png_color` returns: an `(R, G, B)` tuple, an `(R, G, B, A)` tuple (A ≠ 255) or the
    placeholder `(-1, -1, -1, -1)` for "transparent" -/
inductive PColor where
  | transparent
  | rgb (r g b : Nat)
  | rgba (r g b a : Nat)
  deriving DecidableEq, Repr, Inhabited

def hexVal? (c : Char) : Option Nat :=
  if '0' ≤ c && c ≤ '9' then some (c.toNat - 48)
  else if 'a' ≤ c && c ≤ 'f' then some (c.toNat - 87)
  else if 'A' ≤ c && c ≤ 'F' then some (c.toNat - 55) else none

/-- `[int(color[i:i + 2], 16) for i in range(0, len, 2)]` for a list of hexadecimal digits -/
def hexPairs : List Char → List Nat
  | a :: b :: rest => ((hexVal? a).getD 0 * 16 + (hexVal? b).getD 0) :: hexPairs rest
  | _ => []

/-- `_hex_to_rgb_or_rgba(color, alpha_float=False)`: 3 or 4 values -/
def hexToInts (s : String) : R (List Nat) :=
  let cs := s.toList
  let cs := match cs with | '#' :: rest => rest | _ => cs
  let cs := if 2 < cs.length ∧ cs.length < 5 then cs.flatMap (fun c => [c, c]) else cs
  if (cs.length == 6 || cs.length == 8) && cs.all (fun c => (hexVal? c).isSome) then pure (hexPairs cs)
  else throw .valueError

/-- `str.lower()` on the ASCII letters (one non-ASCII character, U+212A KELVIN SIGN, lowers to an
    ASCII letter in Python; not modelled) -/
def lowerAscii (s : String) : String :=
  String.ofList (s.toList.map (fun c => if 'A' ≤ c && c ≤ 'Z' then Char.ofNat (c.toNat + 32) else c))

/-- `_NAME2RGB[color.lower()]` (`none` = KeyError) -/
def nameToRgb (s : String) : Option (Nat × Nat × Nat) :=
  (Gen.NAME2RGB.find? (fun e => e.1 == lowerAscii s)).map (·.2)

/-- `int(round(a * 255.0))` for the float a = k / 1000: round half to even (at the five arguments
    whose product ends in .5 — 0.1, 0.3, 0.5, 0.7, 0.9 — the double product is exactly x.5) -/
def roundAlpha (k : Nat) : Nat :=
  let q := k * 255 / 1000
  let r := k * 255 % 1000
  if r < 500 then q else if r > 500 then q + 1 else if q % 2 == 0 then q else q + 1

/-- `_alpha_value(a, alpha_float=False)` for an int -/
def alphaOfInt (a : Nat) : R Nat := if a ≤ 255 then pure a else throw .valueError

/-- `_alpha_value(a, alpha_float=False)` for a float given in 1/1000 -/
def alphaOfFloat (k : Nat) : R Nat := if k ≤ 1000 then pure (roundAlpha k) else throw .valueError

/-- `_color_to_rgba(color, alpha_float=False)` (`None` is never passed: `png_color` tests it before) -/
def colorToRgba : ColorArg → R (Nat × Nat × Nat × Nat)
  | .none => throw .valueError
  | .ints [r, g, b] => if r ≤ 255 ∧ g ≤ 255 ∧ b ≤ 255 then pure (r, g, b, 255) else throw .valueError
  | .ints [r, g, b, a] =>
    if r ≤ 255 ∧ g ≤ 255 ∧ b ≤ 255 then do let a ← alphaOfInt a; pure (r, g, b, a) else throw .valueError
  | .ints _ => throw .valueError
  | .floatAlpha r g b k =>
    if r ≤ 255 ∧ g ≤ 255 ∧ b ≤ 255 then do let a ← alphaOfFloat k; pure (r, g, b, a) else throw .valueError
  | .str s =>
    match nameToRgb s with
    | some (r, g, b) => pure (r, g, b, 255)
    | none => do
      match ← hexToInts s with
      | [r, g, b] => pure (r, g, b, 255)
      | [r, g, b, a] => pure (r, g, b, a)
      | _ => throw .valueError

/-- `png_color(clr)`: `_color_to_rgb_or_rgba(clr, alpha_float=False) if clr is not None else transparent` -/
def pngColor : ColorArg → R PColor
  | .none => pure .transparent
  | c => do
    let (r, g, b, a) ← colorToRgba c
    pure (if a == 255 then .rgb r g b else .rgba r g b a)

/-! ### the palette -/

def PColor.black : PColor := .rgb 0 0 0
def PColor.white : PColor := .rgb 255 255 255

/-- `itemgetter(0, 1, 2)`, every component shifted by one so that the key of the placeholder,
    (-1, -1, -1), becomes (0, 0, 0) (an order isomorphism; keeps the model in `Nat`) -/
def PColor.key : PColor → Nat × Nat × Nat
  | .transparent => (0, 0, 0)
  | .rgb r g b => (r + 1, g + 1, b + 1)
  | .rgba r g b _ => (r + 1, g + 1, b + 1)

/-- `a.key <= b.key` (tuples compare lexicographically) -/
def keyLe (a b : PColor) : Bool :=
  decide (a.key.1 < b.key.1 ∨ (a.key.1 = b.key.1 ∧ (a.key.2.1 < b.key.2.1 ∨ (a.key.2.1 = b.key.2.1 ∧ a.key.2.2 ≤ b.key.2.2))))

/-- `len(clr) == 4` -/
def PColor.isRgba : PColor → Bool
  | .rgb .. => false
  | _ => true

/-- `clr[:3]` as bytes of the PLTE chunk (the placeholder never reaches PLTE) -/
def PColor.rgb3 : PColor → List Nat
  | .transparent => [0, 0, 0]
  | .rgb r g b => [r, g, b]
  | .rgba r g b _ => [r, g, b]

/-- `clr[3]` -/
def PColor.alpha : PColor → Nat
  | .rgba _ _ _ a => a
  | .rgb .. => 255
  | .transparent => 0

/-- `rgb_values = _NAME2RGB.values() if len(palette) < 2 or len(palette[1]) == 3 else ((*clr, 0) for clr in _NAME2RGB.values())` -/
def standInCandidates (palette : List PColor) : List PColor :=
  match palette[1]? with
  | none => Gen.Colors.NAME2RGB_VALUES.map (fun c => PColor.rgb c.1 c.2.1 c.2.2)
  | some (PColor.rgb _ _ _) => Gen.Colors.NAME2RGB_VALUES.map (fun c => PColor.rgb c.1 c.2.1 c.2.2)
  | some _ => Gen.Colors.NAME2RGB_VALUES.map (fun c => PColor.rgba c.1 c.2.1 c.2.2 0)

/-- `next(clr for clr in rgb_values if clr not in palette)` -/
def standIn (palette : List PColor) : R PColor :=
  match (standInCandidates palette).find? (fun c => !palette.contains c) with
  | some c => pure c
  | none => throw .lookupError     -- StopIteration: impossible, the table has more than 15 distinct values

structure PaletteInfo where
  palette : List PColor            -- the palette written to PLTE / used for greyscale
  clrMap : List (Nat × PColor)     -- module type → colour (placeholder replaced in the PLTE case)
  n : Nat                          -- `number_of_colors`
  isGrey : Bool
  isTransparent : Bool
  depth : Nat
  transIdx : Nat                   -- `png_trans_idx` (meaningful if `isTransparent`)
  deriving Repr, DecidableEq

/-- the palette part of `write_png` after `palette = sorted(set(clr_map.values()), key=itemgetter(0, 1, 2))` -/
def paletteFrom (palette0 : List PColor) (clrMap : List (Nat × PColor)) : R PaletteInfo := do
  let isTransparent := palette0.contains .transparent
  let n := palette0.length
  let isGrey := n == 2 && palette0.all (fun c => c == .transparent || c == .black || c == .white)
  if !isGrey then
    let depth := if n > 2 then (if n < 5 then 2 else 4) else 1
    -- palette.sort(key=len, reverse=True): a stable sort on a key with two values (4 before 3)
    let palette1 := palette0.filter (·.isRgba) ++ palette0.filter (fun c => !c.isRgba)
    if isTransparent then
      let t ← standIn palette1
      pure { palette := palette1.set 0 t,
             clrMap := clrMap.map (fun e => if e.2 == .transparent then (e.1, t) else e),
             n := n, isGrey := false, isTransparent := true, depth := depth, transIdx := 0 }
    else
      pure { palette := palette1, clrMap := clrMap, n := n, isGrey := false, isTransparent := false, depth := depth, transIdx := 0 }
  else if isTransparent then
    let palette := if palette0.contains .black then [.black, .transparent] else palette0
    pure { palette := palette, clrMap := clrMap, n := n, isGrey := true, isTransparent := true, depth := 1,
           transIdx := palette.idxOf .transparent }
  else
    pure { palette := palette0, clrMap := clrMap, n := n, isGrey := true, isTransparent := false, depth := 1, transIdx := 0 }

/-- insertion into a sorted list, before the first element that is not smaller -/
def insertBy {α : Type} (le : α → α → Bool) (a : α) : List α → List α
  | [] => [a]
  | b :: l => if le a b then a :: b :: l else b :: insertBy le a l

/-- `sorted(l, key=…)`: a stable sort (insertion sort from the right: equal keys keep their order) -/
def sortBy {α : Type} (le : α → α → Bool) (l : List α) : List α := l.foldr (insertBy le) []

/-- the palette part of `write_png`.  `setOrder vals` = the order in which Python's `set(vals)` yields
    its elements (a permutation of the distinct values) -/
def buildPalette (setOrder : List PColor → List PColor) (clrMap : List (Nat × PColor)) : R PaletteInfo :=
  -- palette = sorted(set(clr_map.values()), key=itemgetter(0, 1, 2))
  paletteFrom (sortBy keyLe (setOrder (clrMap.map (·.2)))) clrMap

/-- `_is_two_tone(colormap)` -/
def isTwoTone (cm : List (Nat × PColor)) : Bool :=
  ((cm.filter (fun e => e.1 >>> 8 != 0)).map (·.2)).eraseDups.length == 1
    && ((cm.filter (fun e => !(e.1 >>> 8 != 0))).map (·.2)).eraseDups.length == 1

/-- `color_index[mt]` = `palette.index(clr_map[mt])` (0 for a type without entry; `indexRows` / `writePng` raise KeyError before such an index is used) -/
def typeIndex (p : PaletteInfo) (mt : Nat) : Nat :=
  match cmGet p.clrMap mt with
  | some c => p.palette.idxOf c
  | none => 0

/-- `number_of_colors > 2 or not _is_two_tone(clr_map)`: the expensive (verbose) iterator is needed -/
def useVerbose (p : PaletteInfo) : Bool := p.n > 2 || !isTwoTone p.clrMap

/-- the colour indexes of the modules (rows of the symbol, no border, scale 1) -/
def indexRows (p : PaletteInfo) (M : List (List Nat)) (w h : Nat) : R (List (List Nat)) := do
  if useVerbose p then
    -- miter = matrix_iter_verbose(matrix, matrix_size, scale=1, border=0)
    let rows ← matrixIterVerbose M w h (.int 1) (some (.int 0))
    if rows.any (fun row => row.any (fun t => (cmGet p.clrMap t).isNone)) then throw .keyError
    pure (rows.map (fun row => row.map (typeIndex p)))
  else
    -- miter = iter(matrix); color_index = {qz_idx: …, 0: color_index[qz_idx], 1: palette.index(clr_map[dark_idx])}
    if M.any (fun row => row.any (fun v => v > 1)) then throw .keyError
    pure (M.map (fun row => row.map (fun v => if v == 0 then typeIndex p Gen.TYPE_QUIET_ZONE else typeIndex p Gen.TYPE_FINDER_PATTERN_DARK)))

/-- the content of the PLTE chunk (`[]` = no chunk) -/
def plteBytes (p : PaletteInfo) : List Nat := if p.isGrey then [] else p.palette.flatMap PColor.rgb3

/-- the content of the tRNS chunk (`[]` = no chunk) -/
def trnsBytes (p : PaletteInfo) : List Nat :=
  if !p.isGrey then
    if (p.palette.head?.map PColor.isRgba).getD false then (p.palette.filter PColor.isRgba).map PColor.alpha
    else if p.isTransparent then [p.transIdx % 256]
    else []
  else if p.isTransparent then [p.transIdx / 256 % 256, p.transIdx % 256]
  else []

structure PngOut where
  width : Nat
  height : Nat
  depth : Nat
  ctype : Nat
  plte : List Nat
  trns : List Nat
  idat : List Nat
  deriving Repr, DecidableEq

/-- `border > 0` after `get_border` (the border has passed `check_valid_border`) -/
def borderPositive (w h : Nat) : Option Num → Bool
  | none => Gen.get_default_border_size w h > 0
  | some (.int i) => i > 0
  | some (.float _ ip _) => ip > 0

/-- `write_png(matrix, (w, h), out, colormap, scale, border)` up to compression and chunk framing -/
def writePng (setOrder : List PColor → List PColor) (M : List (List Nat)) (w h : Nat) (colormap : List (Nat × ColorArg))
    (scale : Num) (border : Option Num) : R PngOut := do
  let s := scale.toInt
  checkValidScale s
  checkValidBorder border
  let clrMap ← colormap.mapM (fun e => do let c ← pngColor e.2; pure (e.1, c))
  let p ← buildPalette setOrder clrMap
  -- `color_index` of the cheap iterator needs the entries of the quiet zone and of the dark finder modules
  if !useVerbose p && ((cmGet p.clrMap Gen.TYPE_QUIET_ZONE).isNone || (cmGet p.clrMap Gen.TYPE_FINDER_PATTERN_DARK).isNone) then
    throw .keyError
  -- `if border > 0: qz_value = color_index[qz_idx]`
  if borderPositive w h border && (cmGet p.clrMap Gen.TYPE_QUIET_ZONE).isNone then throw .keyError
  -- a float border fails at `repeat(qz_value, width)` / `pack(…, width, …)`
  let b ← borderForRange w h border
  let idx ← indexRows p M w h
  let qz := typeIndex p Gen.TYPE_QUIET_ZONE
  pure { width := (w + 2 * b) * s.toNat, height := (h + 2 * b) * s.toNat, depth := p.depth,
         ctype := if p.isGrey then 0 else 3, plte := plteBytes p, trns := trnsBytes p,
         idat := pngStream idx w p.depth s.toNat b qz }

/-- `write_png` as decorated by `colorful(dark='#000', light='#fff')`: the public keyword interface -/
def savePng (setOrder : List PColor → List PColor) (M : List (List Nat)) (w h : Nat) (dark light : Option ColorArg)
    (o : TypeOpts ColorArg) (scale : Num) (border : Option Num) : R PngOut :=
  writePng setOrder M w h (makeColormap w h (dark.getD (.str "#000")) (light.getD (.str "#fff")) o) scale border

/-! ### `write_ppm` (the colour part) -/

/-- `_color_to_rgb(color)` (`alpha_float=True`): refused unless the alpha value is 1.0 — which the ints
    255 and 254 are (`float('%.02f' % (254 / 255.0))` = 1.0) and, of the floats, only 1.0 -/
def colorToRgb : ColorArg → R (List Nat)
  | .none => throw .valueError
  | .ints [r, g, b] => if r ≤ 255 ∧ g ≤ 255 ∧ b ≤ 255 then pure [r, g, b] else throw .valueError
  | .ints [r, g, b, a] => if r ≤ 255 ∧ g ≤ 255 ∧ b ≤ 255 ∧ 254 ≤ a ∧ a ≤ 255 then pure [r, g, b] else throw .valueError
  | .ints _ => throw .valueError
  | .floatAlpha r g b k => if r ≤ 255 ∧ g ≤ 255 ∧ b ≤ 255 ∧ k = 1000 then pure [r, g, b] else throw .valueError
  | .str s =>
    match nameToRgb s with
    | some (r, g, b) => pure [r, g, b]
    | none => do
      match ← hexToInts s with
      | [r, g, b] => pure [r, g, b]
      | [r, g, b, a] => if 254 ≤ a then pure [r, g, b] else throw .valueError
      | _ => throw .valueError

/-- the raster of `write_ppm` -/
def ppmRaster (M : List (List Nat)) (w h : Nat) (colormap : List (Nat × ColorArg)) (scale : Num) (border : Option Num) :
    R (List Nat) := do
  let s := scale.toInt
  checkValidScale s
  checkValidBorder border
  if colormap.any (fun e => e.2 == .none) then throw .valueError
  let cm ← colormap.mapM (fun e => do let c ← colorToRgb e.2; pure (e.1, c))
  let rows ← matrixIterVerbose M w h (.int s) border
  if rows.any (fun row => row.any (fun t => (cmGet cm t).isNone)) then throw .keyError
  pure (rows.flatMap (fun row => row.flatMap (fun t => (cmGet cm t).getD [])))

end Model
