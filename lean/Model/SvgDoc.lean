/-
  Model.SvgDoc — hand-written executable model of `writers.write_svg` (segno/writers.py): every
  character of the document, for all options of the signature.

  * `vrowGo` / `vrowRuns` / `vlinesGo`: the generator `matrix_to_lines_verbose` (runs of equal colour
    per row of `matrix_iter_verbose(matrix, matrix_size, scale=1, border=border)` mapped through the
    colour map),
  * `accumulate`: the loop that fills `xy` / `coordinates` (two `defaultdict`s that always receive
    the same keys: one association list in insertion order, entry = first key object, pen, triples),
  * `toWebColor`: `_color_to_webcolor` (`_color_is_black`, `_color_is_white`,
    `_color_to_rgb_or_rgba(alpha_float=True)`, `_alpha_value`, the `tan` / `red` / `#rgb` shortening),
  * `escape` / `quoteattr` (xml.sax.saxutils), `str.replace`, `re.sub(r'\sclass="[^"]+"', '', …)`,
    `sorted(paths.values(), key=len)`,
  * `writeSvg`: the document.

  Colours are `Model.ColorArg` values.  Python compares colour *objects* with `==` (dict keys, the
  run detection, `set`): `pyKey` is a normal form with `a == b ↔ pyKey a = pyKey b`; the machines
  below are generic in a key function and carry the objects, because the object that is written is
  the FIRST key object of the dict (`(1, 2, 3, 1.0) == (1, 2, 3, 1)` but they print differently).

  Runtime services passed in: for a float `scale` its `str` and the `str` of width and height
  (`(w + 2·border) * scale`), for a float `svgversion` its `str` and whether it is `< 2.0`; the codec
  of `encoding` (the model produces the text; UTF-8 bytes in the driver).  Not modelled: float
  borders (`border=1.0` passes `check_valid_border` and then prints float coordinates), colour
  tuples with float channels, `str.lower()` beyond ASCII.
-/
import Model.Png
import Model.Lines

namespace Model.Svg

open Model Model.Lines

/-! ### `matrix_to_lines_verbose` (generic in the colour objects `α` and their equality key `κ`) -/

section machine
variable {α κ : Type} [DecidableEq κ] (key : α → κ)

/-- the `for c in …` loop after the first value: `last` = `last_color` (a colour, no longer the
    invalid marker), `[x1, x2)` the pending run; ends with the `yield` after the loop -/
def vrowGo (x1 x2 : Nat) (last : α) : List α → List (α × Nat × Nat)
  | [] => [(last, x1, x2)]
  | c :: rest =>
    if key last = key c then vrowGo x1 (x2 + 1) c rest
    else (last, x1, x2) :: vrowGo x2 (x2 + 1) c rest

/-- one row: `last_color = invalid_color; x1, x2 = 0, 0`; `none`: an empty row yields the invalid
    colour `-1` (refused by the caller; rows of a symbol are never empty) -/
def vrowRuns : List α → Option (List (α × Nat × Nat))
  | [] => none
  | c :: rest => some (vrowGo key 0 1 c rest)

/-- all rows; `j2` is twice `j` of the previous row (`j = -.5` initially, `j += 1` per row).
    Lines are `(colour, x1, 2·y, x2)` -/
def vlinesGo : Int → List (List α) → Option (List (α × Int × Int × Int))
  | _, [] => some []
  | j2, row :: rest =>
    match vrowRuns key row, vlinesGo (j2 + 2) rest with
    | some rs, some more => some (rs.map (fun r => (r.1, (r.2.1 : Int), j2 + 2, (r.2.2 : Int))) ++ more)
    | _, _ => none

def verboseLines (rows : List (List α)) : Option (List (α × Int × Int × Int)) := vlinesGo key (-1) rows

/-! ### the loop `for clr, (x1, x2, y1) in miter` -/

/-- entry of `xy` / `coordinates`: the key object that created the entry, the pen `xy[clr]`, the
    relative triples `(dx, 2·dy, length)` -/
structure Entry (α : Type) where
  obj : α
  px : Int
  py2 : Int
  coords : List (Int × Int × Int)
  deriving Repr

/-- `x, y = xy[clr]; coordinates[clr].append((x1 - x, y1 - y, x2 - x1)); xy[clr] = x2, y1` -/
def accumStep (d : List (Entry α)) (l : α × Int × Int × Int) : List (Entry α) :=
  if d.any (fun e => key e.obj = key l.1) then
    d.map (fun e => if key e.obj = key l.1 then
      { e with px := l.2.2.2, py2 := l.2.2.1, coords := e.coords ++ [(l.2.1 - e.px, l.2.2.1 - e.py2, l.2.2.2 - l.2.1)] } else e)
  else d ++ [{ obj := l.1, px := l.2.2.2, py2 := l.2.2.1, coords := [(l.2.1 - 0, l.2.2.1 - 0, l.2.2.2 - l.2.1)] }]

def accumulate (lines : List (α × Int × Int × Int)) : List (Entry α) := lines.foldl (accumStep key) []

/-- `coordinates[k] = v` (an existing key keeps its position and its key object) -/
def dictSet (d : List (Entry α)) (k : α) (v : List (Int × Int × Int)) : List (Entry α) :=
  if d.any (fun e => key e.obj = key k) then d.map (fun e => if key e.obj = key k then { e with coords := v } else e)
  else d ++ [{ obj := k, px := 0, py2 := 0, coords := v }]

/-- `del coordinates[k]` inside `try … except KeyError: pass` -/
def dictDel (d : List (Entry α)) (k : α) : List (Entry α) := d.filter (fun e => !(key e.obj = key k))

/-- number of elements of `set(values)` -/
def distinctCount (vals : List α) : Nat := ((vals.map key).eraseDups).length

end machine

/-! ### Python equality of colour values -/

/-- normal form of a colour value under Python's `==`: a float alpha with an integral value equals the int -/
def pyKey : ColorArg → ColorArg
  | .floatAlpha r g b k => if k % 1000 == 0 then .ints [r, g, b, k / 1000] else .floatAlpha r g b k
  | c => c

/-! ### `_color_to_webcolor` -/

/-- `_is_opaque_alpha(alpha)` of an `int` alpha value: `alpha in (255, 1)` -/
def opaqueIntAlpha (a : Nat) : Bool := a == 255 || a == 1

/-- `_color_is_black` (since fix 5f5dbe9: a 4-tuple counts only if its alpha value is opaque BY TYPE — the float 1.0, the ints 255
    and 1 —, then the first three values are compared; `(0, 0, 0, 255.0)` is no longer black) -/
def isBlack : ColorArg → Bool
  | .str s => let l := lowerAscii s; l == "#000" || l == "#000000" || l == "black"
  | .ints [r, g, b] => r == 0 && g == 0 && b == 0
  | .ints [r, g, b, a] => opaqueIntAlpha a && r == 0 && g == 0 && b == 0
  | .floatAlpha r g b k => k == 1000 && r == 0 && g == 0 && b == 0
  | _ => false

/-- `_color_is_white` -/
def isWhite : ColorArg → Bool
  | .str s => let l := lowerAscii s; l == "#fff" || l == "#ffffff" || l == "white"
  | .ints [r, g, b] => r == 255 && g == 255 && b == 255
  | .ints [r, g, b, a] => opaqueIntAlpha a && r == 255 && g == 255 && b == 255
  | .floatAlpha r g b k => k == 1000 && r == 255 && g == 255 && b == 255
  | _ => false

def digit (n : Nat) : Char := Char.ofNat (48 + n % 10)

/-- `str(h / 100)` for 0 < h < 100 -/
def hundredthsText (h : Nat) : String :=
  if h % 10 == 0 then String.ofList ['0', '.', digit (h / 10)] else String.ofList ['0', '.', digit (h / 10), digit h]

/-- `str(k / 1000)` for 0 < k < 1000 -/
def permilleText (k : Nat) : String :=
  if k % 100 == 0 then String.ofList ['0', '.', digit (k / 100)]
  else if k % 10 == 0 then String.ofList ['0', '.', digit (k / 100), digit (k / 10)]
  else String.ofList ['0', '.', digit (k / 100), digit (k / 10), digit k]

/-- `_alpha_value(a, alpha_float=True)` for an int: `_ALPHA_COMMONS.get(a, float('%.02f' % (a / 255.0)))`.
    Result: `none` = 1.0 (opaque), `some t` = `str` of the float.  (a / 255 never lies half-way between
    two hundredths: 40·a = 51·(2k+1) has no solution.) -/
def alphaOfIntF (a : Nat) : R (Option String) :=
  if a > 255 then throw .valueError
  else if a == 255 then pure none
  else if a == 32 then pure (some "0.125")
  else if a == 16 then pure (some "0.0625")
  else
    let h := (200 * a + 255) / 510
    pure (if h == 0 then some "0.0" else if h ≥ 100 then none else some (hundredthsText h))

/-- `_alpha_value(a, alpha_float=True)` for the float a = k / 1000 -/
def alphaOfFloatF (k : Nat) : R (Option String) :=
  if k > 1000 then throw .valueError
  else if k == 1000 then pure none
  else if k == 0 then pure (some "0.0")
  else pure (some (permilleText k))

/-- `_color_to_rgb_or_rgba(color)` (`alpha_float=True`): R, G, B and the alpha value (`none` = 1.0, dropped) -/
def colorToRgbaF : ColorArg → R (Nat × Nat × Nat × Option String)
  | .none => throw .valueError   -- `not isinstance(color, str)` (since fix 6e33575; AttributeError before)
  | .ints [r, g, b] => if r ≤ 255 ∧ g ≤ 255 ∧ b ≤ 255 then pure (r, g, b, none) else throw .valueError
  | .ints [r, g, b, a] =>
    if r ≤ 255 ∧ g ≤ 255 ∧ b ≤ 255 then do let t ← alphaOfIntF a; pure (r, g, b, t) else throw .valueError
  | .ints _ => throw .valueError
  | .floatAlpha r g b k =>
    if r ≤ 255 ∧ g ≤ 255 ∧ b ≤ 255 then do let t ← alphaOfFloatF k; pure (r, g, b, t) else throw .valueError
  | .str s =>
    match nameToRgb s with
    | some (r, g, b) => pure (r, g, b, none)
    | none => do
      match ← hexToInts s with
      | [r, g, b] => pure (r, g, b, none)
      | [r, g, b, a] => do let t ← alphaOfIntF a; pure (r, g, b, t)
      | _ => throw .valueError

/-- what `_color_to_webcolor` returns: a string, or a `(string, alpha)` tuple -/
inductive WebColor where
  | plain (s : String)
  | withOpacity (s : String) (opacity : String)
  deriving DecidableEq, Repr

def hex2 (n : Nat) : List Char := [hexDigit (n / 16 % 16), hexDigit (n % 16)]

/-- `'#{0:02x}{1:02x}{2:02x}'` and the `optimize` step -/
def hexName (r g b : Nat) : String :=
  let hx := '#' :: (hex2 r ++ hex2 g ++ hex2 b)
  if hx == "#d2b48c".toList then "tan"
  else if hx == "#ff0000".toList then "red"
  else match hx with
    | [_, a, a', c, c', e, e'] => if a == a' && c == c' && e == e' then String.ofList ['#', a, c, e] else String.ofList hx
    | _ => String.ofList hx

/-- `_color_to_webcolor(color, allow_css3_colors=…)` -/
def toWebColor (allowCss3 : Bool) (c : ColorArg) : R WebColor :=
  if isBlack c then pure (.plain "#000")
  else if isWhite c then pure (.plain "#fff")
  else do
    let (r, g, b, a) ← colorToRgbaF c
    match a with
    | some t =>
      if allowCss3 then pure (.plain s!"rgba({r},{g},{b},{t})")
      else pure (.withOpacity (hexName r g b) t)
    | none => pure (.plain (hexName r g b))

/-! ### string helpers (xml.sax.saxutils, `str.replace`, the regular expression) -/

/-- `xml.sax.saxutils.escape(data)` -/
def escape (s : List Char) : List Char :=
  s.flatMap (fun c => if c == '&' then "&amp;".toList else if c == '>' then "&gt;".toList else if c == '<' then "&lt;".toList else [c])

/-- `xml.sax.saxutils.quoteattr(data)` -/
def quoteattr (s : String) : String :=
  let d := (escape s.toList).flatMap (fun c =>
    if c == '\n' then "&#10;".toList else if c == '\r' then "&#13;".toList else if c == '\t' then "&#9;".toList else [c])
  if d.contains '"' then
    if d.contains '\'' then String.ofList ('"' :: d.flatMap (fun c => if c == '"' then "&quot;".toList else [c]) ++ ['"'])
    else String.ofList ('\'' :: d ++ ['\''])
  else String.ofList ('"' :: d ++ ['"'])

/-- `pat` is a prefix of `s`: the rest -/
def stripPrefix? : List Char → List Char → Option (List Char)
  | [], s => some s
  | _ :: _, [] => none
  | p :: ps, c :: cs => if p == c then stripPrefix? ps cs else none

/-- `s.replace(old, new)` for a non-empty `old`: non-overlapping occurrences from the left.
    First argument: characters of a matched occurrence still to be skipped -/
def replaceGo (old new : List Char) : Nat → List Char → List Char
  | _, [] => []
  | skip + 1, _ :: cs => replaceGo old new skip cs
  | 0, c :: cs =>
    if (stripPrefix? old (c :: cs)).isSome then new ++ replaceGo old new (old.length - 1) cs
    else c :: replaceGo old new 0 cs

def replaceAll (old new : String) (s : String) : String :=
  if old.isEmpty then s else String.ofList (replaceGo old.toList new.toList 0 s.toList)

/-- `\s` of a `str` pattern: `str.isspace()` -/
def isPySpace (c : Char) : Bool :=
  let n := c.toNat
  (9 ≤ n && n ≤ 13) || (28 ≤ n && n ≤ 32) || n == 0x85 || n == 0xa0 || n == 0x1680 || (0x2000 ≤ n && n ≤ 0x200a)
    || n == 0x2028 || n == 0x2029 || n == 0x202f || n == 0x205f || n == 0x3000

/-- length of the match of `\sclass="[^"]+"` at the start of the list (`none` = no match here) -/
def classAttrMatch (s : List Char) : Option Nat :=
  match s with
  | [] => none
  | c :: cs =>
    if !isPySpace c then none else
    match stripPrefix? "class=\"".toList cs with
    | none => none
    | some rest =>
      let run := rest.takeWhile (· != '"')
      if run.isEmpty then none
      else match rest.drop run.length with
        | '"' :: _ => some (1 + 7 + run.length + 1)
        | _ => none

/-- `re.sub(r'\sclass="[^"]+"', '', s)` -/
def removeClassGo : Nat → List Char → List Char
  | _, [] => []
  | skip + 1, _ :: cs => removeClassGo skip cs
  | 0, c :: cs =>
    match classAttrMatch (c :: cs) with
    | some n => removeClassGo (n - 1) cs
    | none => c :: removeClassGo 0 cs

def removeClassAttrs (s : String) : String := String.ofList (removeClassGo 0 s.toList)

/-! ### the document -/

/-- the `scale` argument: an `int`, or a `float` given by its `str`, whether it is `> 0` and whether it is `== 1` -/
inductive Scale where
  | int (i : Int)
  | float (text : String) (positive : Bool) (isOne : Bool)
  deriving Repr, DecidableEq

def Scale.text : Scale → String
  | .int i => toString i
  | .float t _ _ => t

/-- `scale != 1` -/
def Scale.notOne : Scale → Bool
  | .int i => i != 1
  | .float _ _ one => !one

/-- the `svgversion` argument: an `int`, or a `float` given by its `str` and whether it is `< 2.0` -/
inductive SvgVersion where
  | int (i : Int)
  | float (text : String) (lt2 : Bool)
  deriving Repr, DecidableEq

def SvgVersion.text : SvgVersion → String
  | .int i => toString i
  | .float t _ => t

def SvgVersion.lt2 : SvgVersion → Bool
  | .int i => i < 2
  | .float _ b => b

structure Opts where
  scale : Scale := .int 1
  border : Option Int := none
  xmldecl : Bool := true
  svgns : Bool := true
  title : Option String := none
  desc : Option String := none
  svgid : Option String := none
  svgclass : Option String := some "segno"
  lineclass : Option String := some "qrline"
  omitsize : Bool := false
  unit : Option String := none
  encoding : Option String := some "utf-8"
  svgversion : Option SvgVersion := none
  nl : Bool := true
  drawTransparent : Bool := false
  /-- `str((w + 2·border) * scale)`, `str((h + 2·border) * scale)` for a float scale (runtime service) -/
  widthText : String := ""
  heightText : String := ""
  deriving Repr

/-- the `d` attribute: `'{moveto}{x} {y}h{l}'`, `M` first, `m` afterwards; y as int if integral -/
def pathD (coords : List (Int × Int × Int)) : String :=
  String.join (coords.zipIdx.map (fun (t, i) =>
    (if i == 0 then "M" else "m") ++ toString t.1 ++ " " ++ showHalf t.2.1 ++ "h" ++ toString t.2.2))

/-- `_is_two_tone(colormap)` under Python equality of the colour values -/
def isTwoTone (cm : List (Nat × ColorArg)) : Bool :=
  distinctCount pyKey ((cm.filter (fun e => e.1 >>> 8 != 0)).map (·.2)) == 1
    && distinctCount pyKey ((cm.filter (fun e => !(e.1 >>> 8 != 0))).map (·.2)) == 1

/-- `is_multicolor = len(set(colormap.values())) > 2 or not _is_two_tone(colormap)` -/
def isMulticolor (cm : List (Nat × ColorArg)) : Bool :=
  distinctCount pyKey (cm.map (·.2)) > 2 || !isTwoTone cm

/-- the lines of the multicolour branch: `matrix_to_lines_verbose()` over
    `matrix_iter_verbose(matrix, matrix_size, scale=1, border=border)` -/
def colorfulLines (M : List (List Nat)) (w h b : Nat) (cm : List (Nat × ColorArg)) : R (List (ColorArg × Int × Int × Int)) := do
  let rows ← matrixIterVerbose M w h (.int 1) (some (.int b))
  -- `colormap[mt]`
  let crows ← rows.mapM (fun row => row.mapM (fun t => match cmGet cm t with | some c => pure c | none => throw PyErr.keyError))
  match verboseLines pyKey crows with
  | some l => pure l
  | none => throw .valueError     -- the invalid colour -1 reaches `svg_color` (refused: not a str); unreachable for w ≥ 1

/-- the lines of the two-colour branch: `(dark, (x1, x2, y1)) for … in matrix_to_lines(matrix, border, border + .5)` -/
def plainLines (M : List (List Nat)) (b : Nat) (dark : ColorArg) : List (ColorArg × Int × Int × Int) :=
  (toInt (matrixToLines M b (2 * (b : Int) + 1) 2)).map (fun t => (dark, t))

/-- the opening of a path up to and including ` d="`, for one colour -/
def pathHead (p : String) (clr : Option WebColor) : String :=
  p ++ (match clr with
    | none => ""
    | some (.plain s) => " stroke=" ++ quoteattr s
    | some (.withOpacity s o) => " stroke=" ++ quoteattr s ++ " stroke-opacity=" ++ quoteattr o) ++ " d=\""

/-- `sorted(l, key=len)` (stable) -/
def sortByLen (l : List String) : List String := sortBy (fun a b => decide (a.length ≤ b.length)) l

/-- the path elements in the order of `coordinates.items()`, keyed by colour object (`paths`) -/
def pathElems (allowCss3 : Bool) (p : String) (d : List (Entry ColorArg)) : R (List (ColorArg × String)) :=
  d.mapM (fun e => do
    let clr ← match e.obj with
      | .none => pure none
      | c => do let wc ← toWebColor allowCss3 c; pure (some wc)
    pure (e.obj, pathHead p clr ++ pathD e.coords ++ "\"/>"))

/-- the `<path …/>` elements in document order -/
def svgPaths (M : List (List Nat)) (w h : Nat) (cm : List (Nat × ColorArg)) (o : Opts) (b : Nat) : R (List String) := do
  let allowCss3 := match o.svgversion with | some v => !v.lt2 | none => false
  let qz ← match cmGet cm Gen.TYPE_QUIET_ZONE with | some c => pure c | none => throw PyErr.keyError
  let multi := isMulticolor cm
  let needBg := !multi && qz != .none
  let needGroup := o.scale.notOne && (needBg || multi)
  let bgW := w + 2 * b
  let bgH := h + 2 * b
  let lines ← if multi then colorfulLines M w h b cm else do
    let dark ← match cmGet cm Gen.TYPE_DATA_DARK with | some c => pure c | none => throw PyErr.keyError
    pure (plainLines M b dark)
  let coords := accumulate pyKey lines
  let coords := if needBg then dictSet pyKey coords qz [(0, 0, (bgW : Int))] else coords
  let coords := if !o.drawTransparent then dictDel pyKey coords .none else coords
  let scaleInfo := if o.scale.notOne then " transform=\"scale(" ++ o.scale.text ++ ")\"" else ""
  let p := "<path" ++ (if !needGroup then scaleInfo else "") ++
    (match o.lineclass with | some c => if c.isEmpty then "" else " class=" ++ quoteattr c | none => "")
  let paths ← pathElems allowCss3 p coords
  let paths := if needBg then
      paths.map (fun e => if pyKey e.1 = pyKey qz then
        (e.1, removeClassAttrs (replaceAll "\"/>" ("v" ++ toString bgH ++ "h-" ++ toString bgW ++ "z\"/>") (replaceAll "stroke" "fill" e.2)))
        else e)
    else paths
  pure (sortByLen (paths.map (·.2)))

/-- `write_svg(matrix, (w, h), out, colormap, **options)`: the text handed to the codec writer -/
def writeSvg (M : List (List Nat)) (w h : Nat) (cm : List (Nat × ColorArg)) (o : Opts) : R String := do
  -- `_valid_width_height_and_border`
  match o.scale with
  | .int i => if i ≤ 0 then throw PyErr.valueError
  | .float _ pos _ => if !pos then throw PyErr.valueError
  match o.border with
  | some i => if i < 0 then throw PyErr.valueError
  | none => pure ()
  let b : Nat := match o.border with
    | some i => i.toNat
    | none => (Gen.get_default_border_size w h).toNat
  let (width, height) : String × String := match o.scale with
    | .int i => (toString (((w + 2 * b : Nat) : Int) * i), toString (((h + 2 * b : Nat) : Int) * i))
    | .float .. => (o.widthText, o.heightText)
  let unit := o.unit.getD ""
  if !unit.isEmpty && o.omitsize then throw PyErr.valueError
  let multi := isMulticolor cm
  let needBg := !multi && (cmGet cm Gen.TYPE_QUIET_ZONE).getD .none != .none
  let needGroup := o.scale.notOne && (needBg || multi)
  let paths ← svgPaths M w h cm o b
  let scaleInfo := if o.scale.notOne then " transform=\"scale(" ++ o.scale.text ++ ")\"" else ""
  let truthy := fun (x : Option String) => match x with | some s => !s.isEmpty | none => false
  pure (
    (if o.xmldecl then "<?xml version=\"1.0\"" ++ (match o.encoding with | some e => " encoding=" ++ quoteattr e | none => "") ++ "?>\n" else "")
    ++ "<svg"
    ++ (if o.svgns then " xmlns=\"http://www.w3.org/2000/svg\"" else "")
    ++ (match o.svgversion with | some v => if v.lt2 then " version=" ++ quoteattr v.text else "" | none => "")
    ++ (if !o.omitsize then " width=\"" ++ width ++ unit ++ "\" height=\"" ++ height ++ unit ++ "\"" else "")
    ++ (if o.omitsize || !unit.isEmpty then " viewBox=\"0 0 " ++ width ++ " " ++ height ++ "\"" else "")
    ++ (if truthy o.svgid then " id=" ++ quoteattr (o.svgid.getD "") else "")
    ++ (if truthy o.svgclass then " class=" ++ quoteattr (o.svgclass.getD "") else "")
    ++ ">"
    ++ (match o.title with | some t => "<title>" ++ String.ofList (escape t.toList) ++ "</title>" | none => "")
    ++ (match o.desc with | some t => "<desc>" ++ String.ofList (escape t.toList) ++ "</desc>" | none => "")
    ++ (if needGroup then "<g" ++ scaleInfo ++ ">" else "")
    ++ String.join paths
    ++ (if needGroup then "</g>" else "")
    ++ "</svg>"
    ++ (if o.nl then "\n" else ""))

/-- `write_svg` as decorated by `colorful(dark='#000', light=None)`: the public keyword interface -/
def saveSvg (M : List (List Nat)) (w h : Nat) (dark light : Option ColorArg) (to : TypeOpts ColorArg) (o : Opts) : R String :=
  writeSvg M w h (makeColormap w h (dark.getD (.str "#000")) (light.getD .none) to) o

end Model.Svg
