/-
  Model.C14Driver — `model` commands for the serializer half of C14 (correspondence, Tie B):

    serdoc  key=<serializer key | compact>  kw=<config>  m=<rows of the matrix>
            [fs=… ms=… setorder=… comp=<hex> ppm=<n>]            (services of `rdoc`, Model/RoutesDriver.lean)
            [tdate=<hex> edate=<hex> pdate=<hex> chan=<hex>,<hex>,… graphic=<hex>]
        → the call `serializer(matrix, matrix_size, out, **kw)` executed by the whole-document models of all thirteen
          serialisers (`Model.RoutesVec.fullSem` behind Python's keyword binding `completeKw`):
          `class=ok` + the document (`doc=b:<hex>` | `doc=t:<hex of UTF-8>[:<hex encoding>]`),
          `class=<Exception>` for a raised exception, `class=outside` where the models do not speak.
          Services: the clock texts (`tdate` / `edate` / `pdate`), `str(1 / 255.0 * c)` (`chan`), the compressed PDF content
          stream (`graphic`; zlib), and those of `rdoc`.
    rdocv   as `rdoc` (Model/RoutesDriver.lean) but with `fullEnv`: the route executed end to end with ALL document models.

  Strings of the keyword map are UTF-8 (`parseConfigU`).
-/
import Model.RoutesVec
import Model.RoutesDriver
import Model.VectorDriver

namespace Model.C14Driver
open Gen (PyV)
open Model.Cli Model.CliDriver Model.Routes Model.Iter Model.RoutesDriver

def vecServicesOf (r : Req) : RoutesVec.VecServices :=
  let chans := Model.VectorDriver.hexList (r.getD "chan" "")
  { texDate := stringOfHex (r.getD "tdate" ""), epsDate := stringOfHex (r.getD "edate" ""), pdfDate := stringOfHex (r.getD "pdate" ""),
    chan := fun c => chans.getD c "?" }

/-- the services of `rdoc`; the PDF content stream is compressed by `graphic=` when given -/
def servicesOf' (r : Req) : RoutesDocs.Services :=
  let s := servicesOf r
  match r.get "graphic" with
  | some g => { s with deflate := fun _ _ => bytesOfHex g }
  | none => s

def outside : String → Config → R SerOut := fun _ _ => throw .assertionError

def fullEnvOf (r : Req) : Env :=
  let m := parseRows (r.getD "m" "")
  RoutesVec.fullEnv (servicesOf' r) (vecServicesOf r)
    { codec := codecOf, decode := decodeOf, defaultEnc := "utf-8", gzip := fun _ b => b,
      gzipCheck := fun _ => match r.get "gzerr" with
        | some n => throw (errOfName n)
        | none => pure () }
    m m.length m.length outside

def showSerOut : SerOut → String
  | .bytes b => "b:" ++ hexOf b
  | .text s none => "t:" ++ Iter.hexOfString (String.ofList s)
  | .text s (some e) => "t:" ++ Iter.hexOfString (String.ofList s) ++ ":" ++ Iter.hexOfString e

def handle (cmd : String) (r : Req) : Option String :=
  let id := r.getD "id" "?"
  match cmd with
  | "serdoc" => some (
    let key := r.getD "key" ""
    let kw := parseConfigU (r.getD "kw" "")
    match (fullEnvOf r).ser key kw with
    | .ok so => s!"id={id} class=ok doc={showSerOut so}"
    | .error .assertionError => s!"id={id} class=outside"
    | .error e => s!"id={id} class={e.name}")
  | "rdocv" => some (
    match planOfU r with
    | none => s!"id={id} error=bad-request"
    | some (.error e) => s!"id={id} result=err:{e.name}"
    | some (.ok p) => s!"id={id} result={showResult (execute (fullEnvOf r) p)}")
  | _ => none

end Model.C14Driver
