/-
  Model.Lines — model of `utils.matrix_to_lines` and of the path emission of the vector writers
  (`write_svg` single-colour branch, `write_eps`, `write_pdf`, `write_tex`), C10.

  Coordinates: x is an `Int`; y is carried as *twice* its value (`y2 : Int`) because the writers use
  the half-integers `border + .5` / `height + border − .5` (the centre line of a row of modules).
  Not modelled: Python's float formatting of `width * scale` (page size texts are parameters of the
  driver), `textwrap.wrap` (token stream only), zlib.
-/
import Model.Driver
import Gen.Arith

namespace Model.Lines

/-- inner loop of `matrix_to_lines` over the bits of one row.
    State `(x1, x2, last_bit)`; returns the runs yielded inside the loop and the final state.
    (x is a `Nat`: every caller passes `border` or 0.) -/
def rowGo : Nat → Nat → Nat → List Nat → List (Nat × Nat) × Nat × Nat × Nat
  | x1, x2, lb, [] => ([], x1, x2, lb)
  | x1, x2, lb, bit :: rest =>
    let emit := lb != bit && bit == 0          -- `if last_bit != bit and not bit: yield …; x1 = x2`
    let x1a := if emit then x2 else x1
    let x1b := if bit == 0 then x1a + 1 else x1a  -- `x2 += 1; if not bit: x1 += 1`
    let r := rowGo x1b (x2 + 1) bit rest
    (if emit then (x1, x2) :: r.1 else r.1, r.2)

/-- one row: `x1, x2 = x, x`, the loop, then `if last_bit: yield …; last_bit = 0`.
    Returns the runs `(x1, x2)` of the row and the `last_bit` carried over to the next row. -/
def rowRuns (x : Nat) (lb : Nat) (row : List Nat) : List (Nat × Nat) × Nat :=
  let r := rowGo x x lb row
  if r.2.2.2 != 0 then (r.1 ++ [(r.2.1, r.2.2.1)], 0) else (r.1, r.2.2.2)

/-- outer loop; `y2` is twice the y of the previous row, `inc2` twice `incby` -/
def linesGo (x : Nat) (inc2 : Int) : Int → Nat → List (List Nat) → List (Nat × Int × Nat)
  | _, _, [] => []
  | y2, lb, row :: rest =>
    let r := rowRuns x lb row
    r.1.map (fun ab => (ab.1, y2 + inc2, ab.2)) ++ linesGo x inc2 (y2 + inc2) r.2 rest

/-- `matrix_to_lines(matrix, x, y, incby)`: `(x1, 2·y, x2)` per yielded line, `last_bit = 0x1` initially -/
def matrixToLines (m : List (List Nat)) (x : Nat) (y2 inc2 : Int) : List (Nat × Int × Nat) :=
  linesGo x inc2 (y2 - inc2) 1 m

/-- the same lines with `Int` x coordinates (the emitters subtract pen positions) -/
def toInt (l : List (Nat × Int × Nat)) : List (Int × Int × Int) := l.map (fun t => ((t.1 : Int), t.2.1, (t.2.2 : Int)))

/-! ### number formatting (integers and halves only) -/

/-- Python's `str` of the float / int whose double is `y2` -/
def showHalf (y2 : Int) : String :=
  if y2 % 2 == 0 then toString (y2 / 2)
  else (if y2 < 0 then "-" else "") ++ toString (y2.natAbs / 2) ++ ".5"

/-! ### SVG: `coordinates[clr].append((x1 - x, y1 - y, x2 - x1)); xy[clr] = x2, y1` -/

/-- relative triples `(dx, 2·dy, length)`; the pen starts at (0, 0) -/
def svgRel : Int → Int → List (Int × Int × Int) → List (Int × Int × Int)
  | _, _, [] => []
  | px, py2, (x1, y2, x2) :: rest => (x1 - px, y2 - py2, x2 - x1) :: svgRel x2 y2 rest

/-- `'{moveto}{x} {y}h{l}'` with `M` for the first element, `m` afterwards -/
def svgTokens (rel : List (Int × Int × Int)) : List String :=
  (rel.zipIdx.map (fun (t, i) => [if i == 0 then "M" else "m", toString t.1, showHalf t.2.1, "h", toString t.2.2])).flatten

def effBorder (size : Nat) (b : Option Nat) : Nat :=
  match b with
  | some x => x
  | none => (Gen.get_default_border_size size size).toNat

/-- tokens of the `d` attribute of the module path of `write_svg` (two-colour case) -/
def svgPath (m : List (List Nat)) (b : Nat) : List String :=
  svgTokens (svgRel 0 0 (toInt (matrixToLines m b (2 * (b : Int) + 1) 2)))

/-! ### EPS -/

/-- after the first line: `' {x1 - x} {int(y1 - y)} m {x2 - x1} 0 l'; x, y = x2, y2` -/
def epsRel : Int → Int → List (Int × Int × Int) → List (Int × Int × Int)
  | _, _, [] => []
  | px, py2, (x1, y2, x2) :: rest => (x1 - px, (y2 - py2) / 2, x2 - x1) :: epsRel x2 y2 rest

/-- tokens between `newpath` and `stroke`.  `y` (the variable the first relative move refers to) is the
    *initial* y, not the y of the first line — exactly as in the code. -/
def epsPath (m : List (List Nat)) (b : Nat) : Option (List String) :=
  let y2 : Int := 2 * ((m.length : Int) + (b : Int)) - 1
  match toInt (matrixToLines m b y2 (-2)) with
  | [] => none                                  -- `next(line_iter)` raises StopIteration
  | (x1, y1, x2) :: rest =>
    some ([toString x1, showHalf y1, "moveto", toString (x2 - x1), "0", "l"]
      ++ ((epsRel x2 y2 rest).map (fun t => [toString t.1, toString t.2.1, "m", toString t.2.2, "0", "l"])).flatten)

/-! ### PDF -/

/-- from the translation `1 0 0 1 border y cm` to the final `S` -/
def pdfOps (m : List (List Nat)) (b : Nat) : List String :=
  let y2 : Int := 2 * ((m.length : Int) + (b : Int)) - 1
  ["1", "0", "0", "1", toString b, showHalf y2, "cm"]
    ++ ((matrixToLines m 0 0 (-2)).map (fun (x1, y, x2) => [toString x1, showHalf y, "m", toString x2, showHalf y, "l"])).flatten
    ++ ["S"]

/-- byte offsets `object_pos` (five objects + the position after them), which is also `xref_location`.
    `pieces`: lengths of the header and of the texts written for the objects 1..5 (object 4 includes the
    stream and its trailer). -/
def prefixSums : Nat → List Nat → List Nat
  | _, [] => []
  | acc, p :: rest => (acc + p) :: prefixSums (acc + p) rest

def natLen (n : Nat) : Nat := (toString n).length

/-- lengths of the pieces `write_pdf` writes: header; objects 1, 2; page object (with the texts of
    width and height); stream object (dictionary with the decimal length, the data, the trailer); info
    object (creation date of length `dlen`, creator text of length `clen` twice) -/
def pdfPieces (wlen hlen glen dlen clen : Nat) : List Nat :=
  [ 16,                                             -- b'%PDF-1.4\r%\xE2\xE3\xCF\xD3\r\n'
    "1 0 obj <</Type /Catalog /Pages 2 0 R>>\r\nendobj\r\n".length,
    "2 0 obj <</Type /Pages /Kids [3 0 R] /Count 1>>\r\nendobj\r\n".length,
    "3 0 obj <</Type /Page /Parent 2 0 R /MediaBox [0 0 ".length + wlen + 1 + hlen + "] /Contents 4 0 R>>\r\nendobj\r\n".length,
    "4 0 obj <</Length ".length + natLen glen + " /Filter /FlateDecode>>\r\nstream\r\n".length + glen
      + "\r\nendstream\r\nendobj\r\n".length,
    "5 0 obj <</CreationDate(D:".length + dlen + ")/Producer(".length + clen + ")/Creator(".length + clen
      + ")\r\n>>\r\nendofbj\r\n".length ]

def pdfPositions (wlen hlen glen dlen clen : Nat) : List Nat := prefixSums 0 (pdfPieces wlen hlen glen dlen clen)

/-! ### driver -/

def parseMatrix (s : String) : List (List Nat) :=
  (s.splitOn "/").map (fun r => r.toList.map (fun c => c.toNat - 48))

/-- runs in module coordinates of the symbol (row, first column, end column), zero-length runs dropped -/
def segsStr (m : List (List Nat)) : String :=
  ";".intercalate (((matrixToLines m 0 0 2).filter (fun (x1, _, x2) => x1 != x2)).map (fun (x1, y2, x2) => s!"{y2 / 2}:{x1}:{x2}"))

def handle (cmd : String) (r : Req) : Option String :=
  let id := r.getD "id" "?"
  match cmd with
  | "lines" =>
    let m := parseMatrix (r.getD "m" "")
    let b := effBorder m.length (optNat (r.getD "border" "-"))
    let toks : String := match r.getD "kind" "svg" with
      | "svg" => ",".intercalate (svgPath m b)
      | "eps" => match epsPath m b with | some t => ",".intercalate t | none => "StopIteration"
      | "pdf" => ",".intercalate (pdfOps m b)
      | _ => "-"
    some s!"id={id} toks={toks} segs={segsStr m}"
  | "pdfpos" =>
    let g := fun k => (r.getD k "0").toNat?.getD 0
    some s!"id={id} pos={",".intercalate ((pdfPositions (g "wlen") (g "hlen") (g "glen") (g "dlen") (g "clen")).map toString)}"
  | _ => none

end Model.Lines
