/-
  Model.Helpers — executable model of segno/helpers.py (the `make_*_data` builders), as total functions
  over `List Char`.  The `str.translate` tables and the EPC constants come from `Gen.Helpers`
  (regenerated from the repository on every run), so the model always computes with what helpers.py
  says now.  Runtime services are parameters (DESIGN §3): `strftime` of date objects and `str()` of
  floats (the harness passes the text), "can codec k represent the text" (`EpcArgs.can`), exact values
  of numbers (`Rat'`).  Python exceptions: every refusal here is a `ValueError` (`none`).
-/
import Gen.Helpers
import Spec.HelperArgs

namespace Model.Helpers
open Spec.Helpers (Str Arg Rat' WifiArgs MecardArgs VcardArgs EmailArgs EpcArgs EpcEnc)

/-- `str.translate(table)` -/
def translate (table : List (Char × Option (List Char))) (s : Str) : Str :=
  s.flatMap (fun c => match table.lookup c with
    | none => [c]
    | some none => []
    | some (some r) => r)

/-- `_escape_mecard` -/
def escapeMecard (s : Str) : Str := translate Gen.MECARD_ESCAPE s
/-- `_escape_vcard` -/
def escapeVcard (s : Str) : Str := translate Gen.VCARD_ESCAPE s
/-- `str(name).translate(_VCARD_LINEBREAK_ESCAPE)` -/
def escapeVcardName (s : Str) : Str := translate Gen.VCARD_LINEBREAK_ESCAPE s

def upperAscii (c : Char) : Char := if 'a' ≤ c ∧ c ≤ 'z' then Char.ofNat (c.toNat - 32) else c
def lowerAscii (c : Char) : Char := if 'A' ≤ c ∧ c ≤ 'Z' then Char.ofNat (c.toNat + 32) else c

/-- Python truth value of an optional string -/
def truthy : Option Str → Bool
  | some s => !s.isEmpty
  | none => false

/-- `make_multifield`: `None`, `''`, `[]` give nothing; a string is one value -/
def multiValues : Arg → List Str
  | .none => []
  | .str s => if s.isEmpty then [] else [s]
  | .list l => l

/-! ### WIFI -/

def wifiSecurity (s : Str) : Str := if s = ['n', 'o', 'p', 'a', 's', 's'] then s else s.map upperAscii

/-- `make_wifi_data` -/
def wifiData (a : WifiArgs) : Str :=
  ['W', 'I', 'F', 'I', ':']
  ++ (if truthy a.security then ['T', ':'] ++ wifiSecurity (a.security.getD []) ++ [';'] else [])
  ++ (['S', ':'] ++ escapeMecard a.ssid ++ [';'])
  ++ (match a.password with | some p => ['P', ':'] ++ escapeMecard p ++ [';'] | none => [])
  ++ (if a.hidden then ['H', ':', 't', 'r', 'u', 'e', ';'] else [';'])

/-! ### MeCard -/

def mecardField (key : Str) (v : Str) : Str := key ++ [':'] ++ escapeMecard v ++ [';']
def mecardMulti (key : Str) (a : Arg) : Str := ((multiValues a).map (mecardField key)).flatten
def mecardOpt (key : Str) (o : Option Str) : Str := if truthy o then mecardField key (o.getD []) else []

def commaJoin : List Str → Str
  | [] => []
  | [x] => x
  | x :: rest => x ++ ',' :: commaJoin rest

def mecardAdrProps (a : MecardArgs) : List (Option Str) :=
  [a.pobox, a.roomno, a.houseno, a.city, a.prefecture, a.zipcode, a.country]

/-- `make_mecard_data` -/
def mecardData (a : MecardArgs) : Str :=
  ['M', 'E', 'C', 'A', 'R', 'D', ':'] ++ mecardField ['N'] a.name
  ++ mecardOpt ['S', 'O', 'U', 'N', 'D'] a.reading
  ++ mecardMulti ['T', 'E', 'L'] a.phone
  ++ mecardMulti ['T', 'E', 'L', 'A', 'V'] a.videophone
  ++ mecardMulti ['E', 'M', 'A', 'I', 'L'] a.email
  ++ mecardOpt ['N', 'I', 'C', 'K', 'N', 'A', 'M', 'E'] a.nickname
  ++ (if truthy a.birthday then ['B', 'D', 'A', 'Y', ':'] ++ a.birthday.getD [] ++ [';'] else [])
  ++ mecardMulti ['U', 'R', 'L'] a.url
  ++ (if (mecardAdrProps a).any truthy
      then ['A', 'D', 'R', ':'] ++ commaJoin ((mecardAdrProps a).map (fun o => escapeMecard (o.getD []))) ++ [';'] else [])
  ++ mecardOpt ['M', 'E', 'M', 'O'] a.memo
  ++ [';']

/-! ### vCard -/

def isD (c : Char) : Bool := '0' ≤ c && c ≤ '9'

/-- `d` in the pattern = one ASCII digit, every other pattern character stands for itself -/
def matchPat : List Char → Str → Bool
  | [], [] => true
  | p :: ps, c :: cs => (if p = 'd' then isD c else p = c) && matchPat ps cs
  | _, _ => false

/-- `_looks_like_datetime` (full match): `\d{4}-\d{2}-\d{2}(T\d{2}:\d{2}:\d{2}((-?\d{2}:\d{2})|Z)?)?` -/
def looksLikeDatetime (s : Str) : Bool :=
  let d := ['d', 'd', 'd', 'd', '-', 'd', 'd', '-', 'd', 'd']
  let t := d ++ ['T', 'd', 'd', ':', 'd', 'd', ':', 'd', 'd']
  matchPat d s || matchPat t s || matchPat (t ++ ['Z']) s
  || matchPat (t ++ ['d', 'd', ':', 'd', 'd']) s || matchPat (t ++ ['-', 'd', 'd', ':', 'd', 'd']) s

def semiJoin : List Str → Str
  | [] => []
  | [x] => x
  | x :: rest => x ++ ';' :: semiJoin rest

def vLine (key : Str) (v : Str) : Str := key ++ [':'] ++ escapeVcard v
def vMulti (key : Str) (a : Arg) : List Str := (multiValues a).map (vLine key)
def vOpt (key : Str) (o : Option Str) : List Str := if truthy o then [vLine key (o.getD [])] else []

def vcardAdrProps (a : VcardArgs) : List (Option Str) := [a.pobox, a.street, a.city, a.region, a.zipcode, a.country]

def vTelType (t : Str) : Str := ['T', 'E', 'L', ';', 'T', 'Y', 'P', 'E', '='] ++ t

/-- the content lines of `make_vcard_data` between VERSION and END (without validation) -/
def vcardContent (a : VcardArgs) : List Str :=
  [['N', ':'] ++ escapeVcardName a.name, vLine ['F', 'N'] a.displayname]
  ++ vOpt ['O', 'R', 'G'] a.org
  ++ vMulti ['E', 'M', 'A', 'I', 'L'] a.email
  ++ vMulti ['T', 'E', 'L'] a.phone
  ++ vMulti (vTelType ['F', 'A', 'X']) a.fax
  ++ vMulti (vTelType ['V', 'I', 'D', 'E', 'O']) a.videophone
  ++ vMulti (vTelType ['C', 'E', 'L', 'L']) a.cellphone
  ++ vMulti (vTelType ['H', 'O', 'M', 'E']) a.homephone
  ++ vMulti (vTelType ['W', 'O', 'R', 'K']) a.workphone
  ++ vMulti ['U', 'R', 'L'] a.url
  ++ vMulti ['T', 'I', 'T', 'L', 'E'] a.title
  ++ vMulti ['P', 'H', 'O', 'T', 'O', ';', 'V', 'A', 'L', 'U', 'E', '=', 'u', 'r', 'i'] a.photoUri
  ++ vOpt ['N', 'I', 'C', 'K', 'N', 'A', 'M', 'E'] a.nickname
  ++ (if (vcardAdrProps a).any truthy then
        (match (vcardAdrProps a).map (fun o => escapeVcard (o.getD [])) with
         | p :: rest => [['A', 'D', 'R', ':'] ++ p ++ [';', ';'] ++ semiJoin rest]
         | [] => [])
      else [])
  ++ (if truthy a.birthday then [['B', 'D', 'A', 'Y', ':'] ++ a.birthday.getD []] else [])
  ++ (if a.latTrue && a.lngTrue then [['G', 'E', 'O', ':'] ++ a.lat.getD [] ++ [';'] ++ a.lng.getD []] else [])
  ++ vOpt ['S', 'O', 'U', 'R', 'C', 'E'] a.source
  ++ vOpt ['N', 'O', 'T', 'E'] a.memo
  ++ (if truthy a.rev then [['R', 'E', 'V', ':'] ++ a.rev.getD []] else [])

/-- the conditions under which `make_vcard_data` raises ValueError -/
def vcardRefused (a : VcardArgs) : Bool :=
  (truthy a.birthday && !looksLikeDatetime (a.birthday.getD []))
  || (truthy a.rev && !looksLikeDatetime (a.rev.getD []))
  || (a.latTrue && !a.lngTrue) || (a.lngTrue && !a.latTrue)

def vcardLines (a : VcardArgs) : List Str :=
  [['B', 'E', 'G', 'I', 'N', ':', 'V', 'C', 'A', 'R', 'D'], ['V', 'E', 'R', 'S', 'I', 'O', 'N', ':', '3', '.', '0']]
  ++ vcardContent a ++ [['E', 'N', 'D', ':', 'V', 'C', 'A', 'R', 'D']]

/-- `'\r\n'.join(data)` where `data` ends with `''`: every line is followed by CRLF -/
def crlfJoin (lines : List Str) : Str := (lines.map (· ++ ['\r', '\n'])).flatten

/-- `make_vcard_data`; `none` = ValueError -/
def vcardData (a : VcardArgs) : Option Str :=
  if vcardRefused a then none else some (crlfJoin (vcardLines a))

/-! ### decimal formatting -/

def digitChar (n : Nat) : Char := Char.ofNat (48 + n % 10)

/-- decimal digits of a natural number (`str(n)`) -/
def decDigits (n : Nat) : Str :=
  if h : n < 10 then [digitChar n] else decDigits (n / 10) ++ [digitChar (n % 10)]
termination_by n
decreasing_by omega

def roundHalfEven (n d : Nat) : Nat :=
  let q := n / d
  let r := n % d
  if 2 * r < d then q else if 2 * r > d then q + 1 else if q % 2 = 0 then q else q + 1

def padZeros (k : Nat) (s : Str) : Str := List.replicate (k - s.length) '0' ++ s

/-- `str.rstrip(c)` for a single character -/
def rstrip (c : Char) (s : Str) : Str := (s.reverse.dropWhile (· = c)).reverse

/-- `'{:.kf}'.format(x)` for an exactly known `x` (correctly rounded, ties to even) -/
def fixed (k : Nat) (x : Rat') : Str :=
  let v := roundHalfEven (x.num * 10 ^ k) x.den
  (if x.neg then ['-'] else []) ++ decDigits (v / 10 ^ k) ++ '.' :: padZeros k (decDigits (v % 10 ^ k))

/-! ### geo -/

/-- `float_to_str`: `f'{f:.8f}'.rstrip('0').rstrip('.')` -/
def floatToStr (x : Rat') : Str := rstrip '.' (rstrip '0' (fixed 8 x))

/-- `make_geo_data` -/
def geoData (lat lng : Rat') : Str := ['g', 'e', 'o', ':'] ++ floatToStr lat ++ [','] ++ floatToStr lng

/-! ### mailto -/

def hexUpper (n : Nat) : Char := if n < 10 then Char.ofNat (48 + n) else Char.ofNat (55 + n)

/-- `urllib.parse.quote(bytes)` with the default `safe='/'` -/
def quoteByte (b : Nat) : Str :=
  let c := Char.ofNat b
  if (('a' ≤ c && c ≤ 'z') || ('A' ≤ c && c ≤ 'Z') || ('0' ≤ c && c ≤ '9') || c = '_' || c = '.' || c = '-' || c = '~' || c = '/') && b < 128
  then [c] else ['%', hexUpper (b / 16), hexUpper (b % 16)]

/-- `str.encode('utf-8')` for one character -/
def utf8Char (c : Char) : List Nat :=
  let n := c.toNat
  if n < 128 then [n]
  else if n < 2048 then [192 + n / 64, 128 + n % 64]
  else if n < 65536 then [224 + n / 4096, 128 + n / 64 % 64, 128 + n % 64]
  else [240 + n / 262144, 128 + n / 4096 % 64, 128 + n / 64 % 64, 128 + n % 64]

def utf8 (s : Str) : List Nat := s.flatMap utf8Char

def quoteUtf8 (s : Str) : Str := (utf8 s).flatMap quoteByte

/-- `multi` of `make_make_email_data` -/
def multi : Arg → List Str
  | .none => []
  | .str s => if s.isEmpty then [] else [s]
  | .list l => l

/-- `make_make_email_data`; `none` = ValueError -/
def emailData (a : EmailArgs) : Option Str :=
  if (multi a.to).isEmpty then none else
  let step1 := fun (st : Str × Char) (kv : Str × Arg) =>
    let vals := multi kv.2
    if vals.isEmpty then st else (st.1 ++ [st.2] ++ kv.1 ++ ['='] ++ commaJoin vals, '&')
  let step2 := fun (st : Str × Char) (kv : Str × Option Str) =>
    match kv.2 with
    | some v => (st.1 ++ [st.2] ++ kv.1 ++ ['='] ++ quoteUtf8 v, '&')
    | none => st
  let st := [(['c', 'c'], a.cc), (['b', 'c', 'c'], a.bcc)].foldl step1 (['m', 'a', 'i', 'l', 't', 'o', ':'] ++ commaJoin (multi a.to), '?')
  let st := [(['s', 'u', 'b', 'j', 'e', 'c', 't'], a.subject), (['b', 'o', 'd', 'y'], a.body)].foldl step2 st
  some st.1

/-! ### EPC -/

/-- `str.isspace` -/
def pyIsSpace (c : Char) : Bool :=
  let n := c.toNat
  (9 ≤ n && n ≤ 13) || (28 ≤ n && n ≤ 32) || n = 133 || n = 160 || n = 5760 || (8192 ≤ n && n ≤ 8202)
  || n = 8232 || n = 8233 || n = 8239 || n = 8287 || n = 12288

def rstripWs (s : Str) : Str := (s.reverse.dropWhile pyIsSpace).reverse
def stripWs (s : Str) : Str := rstripWs (s.dropWhile pyIsSpace)

/-- `f'EUR{amount:.2f}'.rstrip('0').rstrip('.')` for an amount of `cents`/100 -/
def fmtAmount (cents : Nat) : Str :=
  rstrip '.' (rstrip '0' (['E', 'U', 'R'] ++ decDigits (cents / 100) ++ ['.', digitChar (cents % 100 / 10), digitChar (cents % 10)]))

def newlineJoin : List Str → Str
  | [] => []
  | [x] => x
  | x :: rest => x ++ '\n' :: newlineJoin rest

def utf8Len (s : Str) : Nat := (utf8 s).length

/-- `x.strip() if x else x` keeps `None` and `''` -/
def mapTruthy (f : Str → Str) (o : Option Str) : Option Str :=
  match o with
  | some s => if s.isEmpty then some s else some (f s)
  | none => none

def epcText (a : EpcArgs) : Option Str := mapTruthy rstripWs a.text
def epcReference (a : EpcArgs) : Option Str := mapTruthy rstripWs a.reference
def epcBic (a : EpcArgs) : Option Str := mapTruthy stripWs a.bic
def epcName (a : EpcArgs) : Option Str := mapTruthy stripWs a.name

/-- `encoding` argument -> requested character set number; outer `none` = ValueError -/
def epcEncodingArg (e : EpcEnc) : Option (Option Nat) :=
  let encodings := Gen.EPC_ENCODINGS
  match e with
  | .none => some none
  | .name s =>
    let i := encodings.idxOf (String.ofList (s.map lowerAscii))
    if i < encodings.length then some (some (i + 1)) else none
  | .num n => if 1 ≤ n ∧ n ≤ (encodings.length : Int) then some (some n.toNat) else none

/-- the length / presence / range checks of `_make_epc_qr_data` (each raises ValueError) -/
def epcRefusedByLimits (a : EpcArgs) : Bool :=
  let text := epcText a; let reference := epcReference a; let bic := epcBic a; let name := epcName a
  (!truthy text && !truthy reference) || (truthy text && truthy reference)
  || (truthy text && !((text.getD []).length ≤ 140))
  || (!truthy text && truthy reference && !((reference.getD []).length ≤ 35))
  || (name.isNone || !(0 < (name.getD []).length && (name.getD []).length ≤ 70))
  || (a.iban.isNone || !(4 < (a.iban.getD []).length && (a.iban.getD []).length ≤ 34))
  || (truthy bic && (bic.getD []).length != 8 && (bic.getD []).length != 11)
  || (truthy a.purpose && (a.purpose.getD []).length != 4)
  || a.amount.den = 0
  || (a.amount.neg && a.amount.num != 0)
  || decide (100 * a.amount.num < Gen.EPC_MIN_AMOUNT_CENTS * a.amount.den)
  || decide (100 * a.amount.num > Gen.EPC_MAX_AMOUNT_CENTS * a.amount.den)

/-- `tmp_data` with the character set line filled in (`cs = 0`: still empty) -/
def epcLines (a : EpcArgs) (cs cents : Nat) : List Str :=
  [['B', 'C', 'D'], ['0', '0', '2'], (if cs = 0 then [] else decDigits cs), ['S', 'C', 'T'],
   (if truthy (epcBic a) then (epcBic a).getD [] else []), (epcName a).getD [], a.iban.getD [], fmtAmount cents,
   (if truthy a.purpose then a.purpose.getD [] else []), (if truthy (epcReference a) then (epcReference a).getD [] else [])]
  ++ (if truthy (epcText a) then [(epcText a).getD []] else [])

/-- `_make_epc_qr_data`: `none` = ValueError, else (character set number, text of the payload).
    `canName` = "the codec of this name can represent the text" (runtime service). -/
def epcData (a : EpcArgs) (canName : String → Bool) : Option (Nat × Str) :=
  let encodings := Gen.EPC_ENCODINGS
  match epcEncodingArg a.encoding with
  | none => none
  | some encoding =>
  if epcRefusedByLimits a then none
  else
    let cents := roundHalfEven (100 * a.amount.num) a.amount.den
    let charset : Nat :=
      match encoding with
      | some k => k
      | none =>
        match ((encodings.drop 1).zipIdx 2).find? (fun p => canName p.1) with
        | some p => p.2
        | none => 1
    let codec := encodings.getD (charset - 1) ""
    if !canName codec then none
    else
      let data := newlineJoin (epcLines a charset cents)
      let blen := if codec == "utf-8" then utf8Len data else data.length
      if blen > Gen.EPC_MAX_BYTES then none else some (charset, data)

end Model.Helpers
