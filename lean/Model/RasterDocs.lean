/-
  Model.RasterDocs — hand-written executable model of the WHOLE DOCUMENTS written by the raster and
  text serialisers of segno/writers.py: `write_pbm` (P4 / plain P1), `write_ppm` (P6), `write_pam`
  (P7, with the colour logic that selects the tuple type), `write_xbm`, `write_xpm`, `write_txt`,
  `write_terminal`, `write_terminal_compact`, and the chunk framing of `write_png` (signature, IHDR,
  pHYs, PLTE, tRNS, IDAT, IEND with length and CRC-32 of every chunk).

  Binary documents are lists of bytes, text documents lists of characters (the harness compares their
  UTF-8 encoding).  Runtime services handed in by the caller: the zlib-compressed IDAT payload
  (`comp`), `int(int(dpi) // 0.0254)` (float arithmetic), the iteration order of `set()` (as for
  `Model.writePng`).  `Gen.Writers.CREATOR_POINTS` is regenerated from the repository.
  Mathlib-free.
-/
import Model.Png
import Gen.Writers

namespace Model.RasterDocs

open Model

/-! ### text helpers -/

/-- `str(n)` of a non-negative int -/
def dec (n : Nat) : List Char := Nat.toDigits 10 n

/-- the ASCII bytes of `str(n)` -/
def decBytes (n : Nat) : List Nat := (dec n).map Char.toNat

/-- `s.encode('ascii')` of a literal -/
def ascii (s : String) : List Nat := s.toList.map Char.toNat

/-- lower-case hexadecimal digit -/
def hexChar (n : Nat) : Char := if n < 10 then Char.ofNat (48 + n) else Char.ofNat (87 + n)

/-- `'{:02x}'.format(b)` for b < 256 -/
def hex2 (b : Nat) : List Char := [hexChar (b / 16 % 16), hexChar (b % 16)]

/-- the validation every raster writer performs first: `scale = int(scale)` and
    `_valid_width_height_and_border` (`check_valid_scale`, `check_valid_border`) -/
def validSB (scale : Num) (border : Option Num) : R Unit := do
  checkValidScale scale.toInt
  checkValidBorder border

/-- the comment of the Netpbm headers: `f'# Created by {CREATOR}'.encode('ascii')` -/
def createdBy : R (List Nat) :=
  if Gen.Writers.CREATOR_POINTS.all (· < 128) then pure (ascii "# Created by " ++ Gen.Writers.CREATOR_POINTS) else throw .unicodeError

/-! ### `write_pbm` -/

/-- the header of `write_pbm` -/
def pbmHeader (comment : List Nat) (plain : Bool) (width height : Nat) : List Nat :=
  ascii (if plain then "P1" else "P4") ++ [10] ++ comment ++ [10] ++ decBytes width ++ [32] ++ decBytes height ++ [10]

/-- one row of the plain (P1) raster: `b''.join(str(i).encode('ascii') for i in row) + b'\n'` -/
def plainRow (row : List Nat) : List Nat := row.flatMap decBytes ++ [10]

/-- `write_pbm(matrix, (w, h), out, scale, border, plain)`: the whole file -/
def pbmDoc (M : List (List Nat)) (w h : Nat) (scale : Num) (border : Option Num) (plain : Bool) : R (List Nat) := do
  validSB scale border
  let comment ← createdBy
  -- the header is written before the first row is requested (a float border fails there, after the header)
  let rows ← matrixIter M w h scale border
  let b ← borderForRange w h border
  let s := scale.toInt.toNat
  pure (pbmHeader comment plain ((w + 2 * b) * s) ((h + 2 * b) * s)
        ++ (if plain then rows.flatMap plainRow else rows.flatMap (packRow 1)))

/-! ### `write_ppm` -/

def ppmHeader (comment : List Nat) (width height : Nat) : List Nat :=
  ascii "P6 " ++ comment ++ [10] ++ decBytes width ++ [32] ++ decBytes height ++ ascii " 255" ++ [10]

/-- `write_ppm(matrix, (w, h), out, colormap, scale, border)`: the whole file (`Model.ppmRaster` is the
    pixel part: validation, `_color_to_rgb` of every entry, `matrix_iter_verbose`) -/
def ppmDoc (M : List (List Nat)) (w h : Nat) (colormap : List (Nat × ColorArg)) (scale : Num) (border : Option Num) : R (List Nat) := do
  -- validation, colours, rows (`Model.ppmRaster`); the header is written before the first row is requested
  let raster ← ppmRaster M w h colormap scale border
  let comment ← createdBy
  let b ← borderForRange w h border
  let s := scale.toInt.toNat
  pure (ppmHeader comment ((w + 2 * b) * s) ((h + 2 * b) * s) ++ raster)

/-- `write_ppm` as decorated by `colorful(dark='#000', light='#fff')` -/
def savePpm (M : List (List Nat)) (w h : Nat) (dark light : Option ColorArg) (o : TypeOpts ColorArg) (scale : Num) (border : Option Num) :
    R (List Nat) :=
  ppmDoc M w h (makeColormap w h (dark.getD (.str "#000")) (light.getD (.str "#fff")) o) scale border

/-! ### `write_pam` -/

/-- `_color_to_rgb_or_rgba(clr, alpha_float=False)` as a tuple: 3 values if the alpha value is 255, else 4 -/
def rgbOrRgba (c : ColorArg) : R (List Nat) := do
  let (r, g, b, a) ← colorToRgba c
  pure (if a == 255 then [r, g, b] else [r, g, b, a])

/-- `_color_is_black(t)` for a tuple of ints (`(0, 0, 0, 1)` equals `(0, 0, 0, 1.0)` in Python) -/
def isBlackT (t : List Nat) : Bool := t == [0, 0, 0] || t == [0, 0, 0, 255] || t == [0, 0, 0, 1]

/-- `_color_is_white(t)` for a tuple of ints -/
def isWhiteT (t : List Nat) : Bool := t == [255, 255, 255] || t == [255, 255, 255, 255] || t == [255, 255, 255, 1]

/-- `not dark`: `None`, the empty string, the empty tuple -/
def isFalsy : ColorArg → Bool
  | .none => true
  | .str s => s.toList.isEmpty
  | .ints l => l.isEmpty
  | .floatAlpha .. => false

/-- `tuple_type` -/
inductive TuplType where
  | blackAndWhite | grayscaleAlpha | rgb | rgbAlpha
  deriving Repr, DecidableEq

def TuplType.name : TuplType → List Char
  | .blackAndWhite => "BLACKANDWHITE".toList
  | .grayscaleAlpha => "GRAYSCALE_ALPHA".toList
  | .rgb => "RGB".toList
  | .rgbAlpha => "RGB_ALPHA".toList

/-- `tuple_type.startswith('RGB')` -/
def TuplType.isRgb : TuplType → Bool
  | .rgb => true
  | .rgbAlpha => true
  | _ => false

/-- what `write_pam` decides before it writes: header values and the bytes of a light / dark pixel
    (`colours = none`: the row bits are inverted, `b ^ 1`) -/
structure PamPlan where
  depth : Nat
  maxval : Nat
  tupl : TuplType
  colours : Option (List Nat × List Nat)     -- (colours[0], colours[1]) = (light, dark)
  deriving Repr, DecidableEq

/-- the colour logic of `write_pam`; `.none` = Python `None` (a `None` for `dark` is refused before) -/
def pamPlan (dark light : ColorArg) : R PamPlan := do
  let stroke0 ← rgbOrRgba dark
  let bg0 : Option (List Nat) ← match light with
    | .none => pure none
    | c => do let t ← rgbOrRgba c; pure (some t)
  let coloredStroke := !(isBlackT stroke0 || isWhiteT stroke0)
  -- (tuple_type, transparency, stroke_color, bg_color)
  let (tupl, transparency, stroke, bg) : TuplType × Bool × List Nat × List Nat :=
    match bg0 with
    | none =>
      ((if !coloredStroke && stroke0.length != 4 then TuplType.grayscaleAlpha else TuplType.rgbAlpha), true,
       (if stroke0.length != 4 then stroke0 ++ [255] else stroke0), (stroke0.take 3).map (255 - ·) ++ [0])
    | some bg0 =>
      if stroke0.length == 4 || bg0.length == 4 then
        (TuplType.rgbAlpha, true, (if stroke0.length != 4 then stroke0 ++ [255] else stroke0), (if bg0.length != 4 then bg0 ++ [255] else bg0))
      else if coloredStroke || !(isBlackT bg0 || isWhiteT bg0) then (TuplType.rgb, false, stroke0, bg0)
      else (TuplType.blackAndWhite, false, stroke0, bg0)
  if !tupl.isRgb && transparency then
    pure { depth := 2, maxval := 1, tupl := tupl, colours := some (if isBlackT stroke then ([1, 0], [0, 1]) else ([0, 0], [1, 1])) }
  else if tupl.isRgb then
    pure { depth := if !transparency then 3 else 4, maxval := 255, tupl := tupl, colours := some (bg, stroke) }
  else if !(isBlackT stroke && isWhiteT bg) then
    pure { depth := 1, maxval := 1, tupl := tupl,
           colours := some ((if isBlackT bg then [0] else [1]), (if isBlackT stroke then [0] else [1])) }
  else pure { depth := 1, maxval := 1, tupl := tupl, colours := none }

def pamHeader (comment : List Nat) (width height : Nat) (p : PamPlan) : List Nat :=
  ascii "P7" ++ [10] ++ comment ++ [10]
    ++ ascii "WIDTH " ++ decBytes width ++ [10]
    ++ ascii "HEIGHT " ++ decBytes height ++ [10]
    ++ ascii "DEPTH " ++ decBytes p.depth ++ [10]
    ++ ascii "MAXVAL " ++ decBytes p.maxval ++ [10]
    ++ ascii "TUPLTYPE " ++ p.tupl.name.map Char.toNat ++ [10]
    ++ ascii "ENDHDR" ++ [10]

/-- `row_filter(row)`: `invert_row_bits` or `row_to_color_values` -/
def pamRow (p : PamPlan) (row : List Nat) : List Nat :=
  match p.colours with
  | none => row.map (fun b => b ^^^ 1)
  | some (l, d) => row.flatMap (fun b => if b == 0 then l else d)

/-- `write_pam(matrix, (w, h), out, scale, border, dark, light)`: the whole file.
    `dark` / `light`: `none` = the keyword was not given (defaults `'#000'` / `'#fff'`), `some .none` = `None` -/
def pamDoc (M : List (List Nat)) (w h : Nat) (scale : Num) (border : Option Num) (dark light : Option ColorArg) : R (List Nat) := do
  let dark := dark.getD (.str "#000")
  let light := light.getD (.str "#fff")
  if isFalsy dark then throw .valueError
  validSB scale border
  let plan ← pamPlan dark light
  let comment ← createdBy
  let rows ← matrixIter M w h scale border
  let b ← borderForRange w h border
  let s := scale.toInt.toNat
  -- `colours[b]` / `b ^ 1` of a matrix value other than 0 / 1 does not occur (matrices hold 0 / 1)
  pure (pamHeader comment ((w + 2 * b) * s) ((h + 2 * b) * s) plan ++ rows.flatMap (pamRow plan))

/-! ### `write_xbm` -/

/-- `', '.join(items)` -/
def joinComma : List (List Char) → List Char
  | [] => []
  | [x] => x
  | x :: rest => x ++ [',', ' '] ++ joinComma rest

/-- the text of one array row: four spaces, `0x..` items, `,\n` (not after the last row: `\n`) -/
def xbmRow (row : List Nat) (last : Bool) : List Char :=
  "    ".toList ++ joinComma ((packRowXbm row).map (fun b => '0' :: 'x' :: hex2 b)) ++ (if last then ['\n'] else [',', '\n'])

/-- the rows of a list with the flag "this is the last one" -/
def withLast {α β : Type} (f : α → Bool → β) : List α → List β
  | [] => []
  | [x] => [f x true]
  | x :: rest => f x false :: withLast f rest

def xbmHeader (name : List Char) (width height : Nat) : List Char :=
  "#define ".toList ++ name ++ "_width ".toList ++ dec width ++ ['\n']
    ++ "#define ".toList ++ name ++ "_height ".toList ++ dec height ++ ['\n']
    ++ "static unsigned char ".toList ++ name ++ "_bits[] = {".toList ++ ['\n']

/-- `write_xbm(matrix, (w, h), out, scale, border, name)`: the whole text -/
def xbmDoc (M : List (List Nat)) (w h : Nat) (scale : Num) (border : Option Num) (name : List Char) : R (List Char) := do
  validSB scale border
  let rows ← matrixIter M w h scale border
  let b ← borderForRange w h border
  let s := scale.toInt.toNat
  pure (xbmHeader name ((w + 2 * b) * s) ((h + 2 * b) * s) ++ (withLast xbmRow rows).flatten ++ "};\n".toList)

/-! ### `write_xpm` -/

/-- `color_to_rgb_hex(color) if color is not None else 'None'` -/
def xpmColour : ColorArg → R (List Char)
  | .none => pure "None".toList
  | c => do
    let rgb ← colorToRgb c
    pure ('#' :: rgb.flatMap hex2)

def xpmHeader (name : List Char) (width height : Nat) (bg stroke : List Char) : List Char :=
  "/* XPM */\n".toList
    ++ "static char *".toList ++ name ++ "[] = {\n".toList
    ++ ['"'] ++ dec width ++ [' '] ++ dec height ++ " 2 1\",\n".toList
    ++ "\"  c ".toList ++ bg ++ "\",\n".toList
    ++ "\"X c ".toList ++ stroke ++ "\",\n".toList

/-- one pixel row: `"` + one character per pixel + `"` + `,` (not after the last row) + newline -/
def xpmRow (row : List Nat) (last : Bool) : List Char :=
  ['"'] ++ row.map (fun b => if b == 0 then ' ' else 'X') ++ (if last then ['"', '\n'] else ['"', ',', '\n'])

/-- `write_xpm(matrix, (w, h), out, scale, border, dark, light, name)`: the whole text.
    `dark` / `light`: `none` = keyword not given (defaults `'#000'` / `'#fff'`) -/
def xpmDoc (M : List (List Nat)) (w h : Nat) (scale : Num) (border : Option Num) (dark light : Option ColorArg) (name : List Char) :
    R (List Char) := do
  validSB scale border
  let stroke ← xpmColour (dark.getD (.str "#000"))
  let bg ← xpmColour (light.getD (.str "#fff"))
  let rows ← matrixIter M w h scale border
  let b ← borderForRange w h border
  let s := scale.toInt.toNat
  pure (xpmHeader name ((w + 2 * b) * s) ((h + 2 * b) * s) bg stroke ++ (withLast xpmRow rows).flatten ++ "};\n".toList)

/-! ### text writers: `write_txt`, `write_terminal`, `write_terminal_compact` (always scale 1) -/

/-- `write_txt(matrix, (w, h), out, border, dark, light)`: `colours[i]` for i = 0 / 1, one line per row -/
def txtDoc (M : List (List Nat)) (w h : Nat) (border : Option Num) (dark light : List Char) : R (List Char) := do
  let rows ← matrixIter M w h (.int 1) border
  if rows.any (fun row => row.any (· > 1)) then throw .indexError
  pure (rows.flatMap (fun row => row.flatMap (fun v => if v == 0 then light else dark) ++ ['\n']))

/-- one run of `write_terminal`: `ESC[7m` (light) / `ESC[49m` (dark), two spaces per module, `ESC[0m` -/
def ansiRun (v n : Nat) : List Char :=
  (if v == 0 then "\x1b[7m".toList else "\x1b[49m".toList) ++ (List.replicate n [' ', ' ']).flatten ++ "\x1b[0m".toList

def ansiLine (row : List Nat) : List Char := (runs row).flatMap (fun e => ansiRun e.1 e.2) ++ ['\n']

/-- `write_terminal(matrix, (w, h), out, border)` -/
def ansiDoc (M : List (List Nat)) (w h : Nat) (border : Option Num) : R (List Char) := do
  let rows ← matrixIter M w h (.int 1) border
  if rows.any (fun row => row.any (· > 1)) then throw .indexError
  pure (rows.flatMap ansiLine)

/-- `blocks[(top, bottom)]` -/
def block (t b : Nat) : Char :=
  if t != 0 && b != 0 then ' ' else if t == 0 && b != 0 then '▀' else if t != 0 && b == 0 then '▄' else '█'

/-- the lines of `write_terminal_compact`: rows in pairs; an odd last row is paired with `repeat(1)` -/
def compactLinesL : List (List Nat) → List (List Char)
  | [] => []
  | [top] => [(top.zip (List.replicate top.length 1)).map (fun p => block p.1 p.2) ++ ['\n']]
  | top :: bottom :: rest => ((top.zip bottom).map (fun p => block p.1 p.2) ++ ['\n']) :: compactLinesL rest

/-- `write_terminal_compact(matrix, (w, h), out, border)` -/
def compactDoc (M : List (List Nat)) (w h : Nat) (border : Option Num) : R (List Char) := do
  let rows ← matrixIter M w h (.int 1) border
  if rows.any (fun row => row.any (· > 1)) then throw .keyError
  pure (compactLinesL rows).flatten

/-! ### the chunk framing of `write_png` -/

/-- `pack('>I', n)` -/
def be32 (n : Nat) : List Nat := [n / 16777216 % 256, n / 65536 % 256, n / 256 % 256, n % 256]

/-- one bit of the CRC-32 shift register (reflected polynomial 0xEDB88320) -/
def crcBit (c : UInt32) : UInt32 := if c &&& 1 == 1 then (c >>> 1) ^^^ 0xEDB88320 else c >>> 1

/-- one byte -/
def crcByte (c : UInt32) (b : Nat) : UInt32 :=
  crcBit (crcBit (crcBit (crcBit (crcBit (crcBit (crcBit (crcBit (c ^^^ (UInt8.ofNat b).toUInt32))))))))

/-- `zlib.crc32(data)` -/
def crc32 (bs : List Nat) : Nat := ((bs.foldl crcByte 0xFFFFFFFF) ^^^ 0xFFFFFFFF).toNat

/-- `chunk(name, data)`: length, name, data, CRC-32 of name + data -/
def chunk (name : String) (data : List Nat) : List Nat :=
  be32 data.length ++ ascii name ++ data ++ be32 (crc32 (ascii name ++ data))

def pngSignature : List Nat := [137, 80, 78, 71, 13, 10, 26, 10]

/-- what `write_png` writes to the file, given the chunk contents (`Model.PngOut`), the pixels-per-metre
    value of pHYs (`0` = no chunk: `if dpi:`) and the compressed IDAT payload.
    PLTE is written for indexed colour (`ctype` 3; never empty there), tRNS when `trns` is non-empty. -/
def pngFile (o : PngOut) (ppm : Nat) (comp : List Nat) : List Nat :=
  pngSignature
    ++ chunk "IHDR" (be32 o.width ++ be32 o.height ++ [o.depth, o.ctype, 0, 0, 0])
    ++ (if ppm != 0 then chunk "pHYs" (be32 ppm ++ be32 ppm ++ [1]) else [])
    ++ (if o.ctype != 0 then chunk "PLTE" o.plte else [])
    ++ (if !o.trns.isEmpty then chunk "tRNS" o.trns else [])
    ++ chunk "IDAT" comp
    ++ chunk "IEND" []

/-- the `dpi` argument: `none` = `None`; else `int(dpi)` and the runtime value `int(int(dpi) // 0.0254)`;
    `truthy` = `bool(dpi)` of the argument as given (0 and 0.0 are falsy) -/
structure Dpi where
  truthy : Bool
  int : Int
  ppm : Nat

/-- `if dpi: dpi = int(dpi); if dpi < 0: raise ValueError; dpi = int(dpi // 0.0254)`: the value written to pHYs (0 = no chunk) -/
def dpiPpm : Option Dpi → R Nat
  | none => pure 0
  | some d => if !d.truthy then pure 0 else if d.int < 0 then throw .valueError else pure d.ppm

/-- `write_png` through `colorful`: the whole file.  `none` = `struct.error`: `struct.pack` refuses a value
    ≥ 2^32 (not reachable by the harness) and a float — which the width is for a border of 0.0 / -0.0 (such a
    border passes `check_valid_border`, `border > 0` is false, so nothing fails before the IHDR chunk is packed). -/
def savePngFile (setOrder : List PColor → List PColor) (M : List (List Nat)) (w h : Nat) (dark light : Option ColorArg)
    (o : TypeOpts ColorArg) (scale : Num) (border : Option Num) (dpi : Option Dpi) (comp : List Nat) : R (Option (List Nat)) := do
  validSB scale border
  let ppm ← dpiPpm dpi
  match border with
  | some (.float _ 0 false) => do
    let _ ← savePng setOrder M w h dark light o scale (some (.int 0))
    pure none
  | _ => do
    let out ← savePng setOrder M w h dark light o scale border
    if out.width ≥ 4294967296 || out.height ≥ 4294967296 || ppm ≥ 4294967296 || out.plte.length ≥ 4294967296
        || out.trns.length ≥ 4294967296 || comp.length ≥ 4294967296 then pure none
    else pure (some (pngFile out ppm comp))

end Model.RasterDocs
