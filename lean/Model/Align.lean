/-
  Model.Align — model of the alignment look-up of `utils.matrix_iter_verbose`:
  `alignment_matrix = encoder.make_matrix(w, h, reserve_regions=False, add_timing=False)` (all 2)
  followed by `encoder.add_alignment_patterns(alignment_matrix, w, h)`, on lists of rows.
  Imports only Gen.Align (the table `consts.ALIGNMENT_POS`), so that the per-version kernel
  theorems about it are rebuilt only when that table changes.
-/
import Gen.Align

namespace Model

/-- the 5×5 alignment pattern, row by row -/
def alignPatternRows : List (List Nat) := [[1,1,1,1,1], [1,0,0,0,1], [1,0,1,0,1], [1,0,0,0,1], [1,1,1,1,1]]

/-- `row[j:j+5] = pat` -/
def sliceAssign (row : List Nat) (j : Nat) (pat : List Nat) : List Nat := row.take j ++ pat ++ row.drop (j + 5)

/-- rows i … i+4 of the matrix get `pattern` at columns j … j+4 -/
def placeAlignment (m : List (List Nat)) (i j : Nat) : List (List Nat) :=
  m.zipIdx.map (fun (row, k) => if i ≤ k ∧ k < i + 5 then sliceAssign row j (alignPatternRows.getD (k - i) []) else row)

/-- the alignment matrix of a square symbol of `n` modules: 2 = no alignment pattern, else the
    pattern value.  `none` = `IndexError` (no entry in `ALIGNMENT_POS`) -/
def alignmentMatrix? (n : Nat) : Option (List (List Nat)) :=
  let m0 := List.replicate n (List.replicate n 2)
  let version : Int := Int.fdiv ((n : Int) - 17) 4
  if version < 2 then some m0 else
  match Gen.Align.ALIGNMENT_POS[(version - 2).toNat]? with
  | none => none
  | some positions =>
    match positions.head?, positions.getLast? with
    | some minPos, some maxPos =>
      let centres := positions.flatMap (fun x => positions.map (fun y => (x, y)))
      some (centres.foldl (fun m (x, y) =>
        if (x, y) == (minPos, minPos) || (x, y) == (minPos, maxPos) || (x, y) == (maxPos, minPos) then m
        else placeAlignment m (x - 2) (y - 2)) m0)
    | _, _ => none

end Model
