/-
  Model.RoutesDocs — the serialiser environment of Model/Routes.lean instantiated with the WHOLE-DOCUMENT
  models: `write_svg` (Model/SvgDoc.lean), `write_png` (Model/RasterDocs.lean: `savePngFile`), `write_pbm`,
  `write_pam`, `write_ppm`, `write_xbm`, `write_xpm`, `write_txt`, `write_terminal`, `write_terminal_compact`.

  `…Args` read the typed arguments of a serialiser from the COMPLETED keyword map (`Routes.completeKw`).  A value
  outside the universe the document models speak about (a float border, a colour tuple with float channels, a
  `bool` as a number, …) makes the reader answer `none`; the behaviour of the real serialiser there — and of
  `write_eps`, `write_pdf`, `write_tex`, which need the clock and float formatting — is the parameter `other` of
  `docSem`, so every theorem about `docEnv` holds whatever the real code does outside the modelled universe.

  Runtime services (`Services`): `str` of floats and of float products, the iteration order of `set()` (PNG
  palette), zlib (`deflate`), `int(dpi // 0.0254)`.  Colour tuples travel as `PyV.other "t:r,g,b[,a]"` /
  `"f:r,g,b,permille"` (the tokens of Model/PngDriver.lean).  Mathlib-free.
-/
import Model.Routes
import Model.SvgDoc
import Model.RasterDocs

namespace Model.RoutesDocs
open Gen (PyV)
open Model Model.Cli Model.Routes

structure Services where
  /-- `str(x)` of the float x = num / den -/
  floatStr : Int → Nat → String
  /-- `str(k * x)` -/
  mulStr : Nat → Int → Nat → String
  /-- iteration order of `set(colours)` (PNG palette) -/
  setOrder : List PColor → List PColor
  /-- `zlib.compress(data, level)` -/
  deflate : Int → List Nat → List Nat
  /-- `int(dpi // 0.0254)` -/
  ppm : Int → Nat

def natsOf (s : String) : Option (List Nat) := if s == "" then some [] else (s.splitOn ",").mapM String.toNat?

/-- a colour tuple token -/
def tupleColor (t : String) : Option ColorArg :=
  if t.startsWith "t:" then (natsOf (t.drop 2).toString).map .ints
  else if t.startsWith "f:" then
    match natsOf (t.drop 2).toString with
    | some [r, g, b, k] => some (.floatAlpha r g b k)
    | _ => none
  else none

/-- a colour argument -/
def colorOf : PyV → Option ColorArg
  | .none => some .none
  | .str s => some (.str s)
  | .other t => tupleColor t
  | _ => none

/-- a module-type colour option: `False` = not given (`x if x is not False else dark`) -/
def typeOpt : PyV → Option (Option ColorArg)
  | .bool false => some none
  | v => (colorOf v).map some

def typeOptsOf (c : Config) : Option (TypeOpts ColorArg) := do
  pure { finder_dark := ← typeOpt (arg c "finder_dark"), finder_light := ← typeOpt (arg c "finder_light"),
         data_dark := ← typeOpt (arg c "data_dark"), data_light := ← typeOpt (arg c "data_light"),
         version_dark := ← typeOpt (arg c "version_dark"), version_light := ← typeOpt (arg c "version_light"),
         format_dark := ← typeOpt (arg c "format_dark"), format_light := ← typeOpt (arg c "format_light"),
         alignment_dark := ← typeOpt (arg c "alignment_dark"), alignment_light := ← typeOpt (arg c "alignment_light"),
         timing_dark := ← typeOpt (arg c "timing_dark"), timing_light := ← typeOpt (arg c "timing_light"),
         separator := ← typeOpt (arg c "separator"), dark_module := ← typeOpt (arg c "dark_module"),
         quiet_zone := ← typeOpt (arg c "quiet_zone") }

/-- `None` or a `str` -/
def optStrOf : PyV → Option (Option String)
  | .none => some none
  | .str s => some (some s)
  | _ => none

/-- an argument that is only tested for truth -/
def flagOf : PyV → Option Bool
  | .none => some false
  | .bool b => some b
  | .int i => some (i != 0)
  | .str s => some (s != "")
  | _ => none

/-- `None` or an `int` border -/
def intBorderOf : PyV → Option (Option Int)
  | .none => some none
  | .int i => some (some i)
  | _ => none

def svgScaleOf (svc : Services) : PyV → Option Svg.Scale
  | .int i => some (.int i)
  | .float n d => some (.float (svc.floatStr n d) (decide (n > 0)) (decide (n = (d : Int))))
  | _ => none

def svgVersionOf (svc : Services) : PyV → Option (Option Svg.SvgVersion)
  | .none => some none
  | .int i => some (some (.int i))
  | .float n d => some (some (.float (svc.floatStr n d) (decide (n < 2 * (d : Int)))))
  | _ => none

structure SvgArgs where
  dark : ColorArg
  light : ColorArg
  to : TypeOpts ColorArg
  o : Svg.Opts

/-- the arguments of `write_svg` (through `colorful`) read from the completed keyword map -/
def svgArgs (svc : Services) (w h : Nat) (c : Config) : Option SvgArgs := do
  let dark ← colorOf (arg c "dark")
  let light ← colorOf (arg c "light")
  let to ← typeOptsOf c
  let scale ← svgScaleOf svc (arg c "scale")
  let border ← intBorderOf (arg c "border")
  let b : Nat := match border with
    | some i => i.toNat
    | none => (Gen.get_default_border_size w h).toNat
  let (wt, ht) : String × String := match arg c "scale" with
    | .float n d => (svc.mulStr (w + 2 * b) n d, svc.mulStr (h + 2 * b) n d)
    | _ => ("", "")
  pure { dark := dark, light := light, to := to,
         o := { scale := scale, border := border, xmldecl := ← flagOf (arg c "xmldecl"), svgns := ← flagOf (arg c "svgns"),
                title := ← optStrOf (arg c "title"), desc := ← optStrOf (arg c "desc"), svgid := ← optStrOf (arg c "svgid"),
                svgclass := ← optStrOf (arg c "svgclass"), lineclass := ← optStrOf (arg c "lineclass"),
                omitsize := ← flagOf (arg c "omitsize"), unit := ← optStrOf (arg c "unit"), encoding := ← optStrOf (arg c "encoding"),
                svgversion := ← svgVersionOf svc (arg c "svgversion"), nl := ← flagOf (arg c "nl"),
                drawTransparent := ← flagOf (arg c "draw_transparent"), widthText := wt, heightText := ht } }

/-- the document `write_svg` hands to `writable(out, 'wt', encoding=encoding or 'utf-8')` -/
def svgDoc (M : List (List Nat)) (w h : Nat) (a : SvgArgs) : R SerOut := do
  let s ← Svg.saveSvg M w h (some a.dark) (some a.light) a.to a.o
  pure (.text s.toList (some (a.o.encoding.getD "utf-8")))

def svgSem (svc : Services) (M : List (List Nat)) (w h : Nat) (c : Config) : Option (R SerOut) :=
  (svgArgs svc w h c).map (svgDoc M w h)

/-- a number for the raster / text writers -/
def numOf : PyV → Option Num
  | .int i => some (.int i)
  | .float n d => if d = 0 then none else some (.float (decide (n < 0)) (n.natAbs / d) (decide (n.natAbs % d ≠ 0)))
  | _ => none

def optNumOf : PyV → Option (Option Num)
  | .none => some none
  | v => (numOf v).map some

def dpiOf (svc : Services) : PyV → Option (Option RasterDocs.Dpi)
  | .none => some none
  | .int i => some (some { truthy := i != 0, int := i, ppm := svc.ppm i })
  | _ => none

/-- `write_png` through `colorful`: the whole file; zlib is the service `deflate` -/
def pngSem (svc : Services) (M : List (List Nat)) (w h : Nat) (c : Config) : Option (R SerOut) := do
  let dark ← colorOf (arg c "dark")
  let light ← colorOf (arg c "light")
  let to ← typeOptsOf c
  let scale ← numOf (arg c "scale")
  let border ← optNumOf (arg c "border")
  let dpi ← dpiOf svc (arg c "dpi")
  let level ← match arg c "compresslevel" with
    | .int i => if -1 ≤ i ∧ i ≤ 9 then some i else none
    | _ => none
  let comp := match savePng svc.setOrder M w h (some dark) (some light) to scale border with
    | .ok out => svc.deflate level out.idat
    | .error _ => []
  match RasterDocs.savePngFile svc.setOrder M w h (some dark) (some light) to scale border dpi comp with
  | .error e => some (.error e)
  | .ok none => none                      -- `struct.error`: outside the model's exception classes
  | .ok (some bs) => some (.ok (.bytes bs))

def bytesOut (r : R (List Nat)) : R SerOut := r.map .bytes
def textOut (r : R (List Char)) : R SerOut := r.map (fun s => .text s none)

/-- `str(x)` of the `dark` / `light` arguments of `write_txt` -/
def txtStrOf : PyV → Option (List Char)
  | .str s => some s.toList
  | .int i => some (toString i).toList
  | .none => some "None".toList
  | .bool true => some "True".toList
  | .bool false => some "False".toList
  | _ => none

/-- the remaining raster and text writers -/
def rasterSem (M : List (List Nat)) (w h : Nat) (key : String) (c : Config) : Option (R SerOut) :=
  match key with
  | "pbm" => do
    let scale ← numOf (arg c "scale"); let border ← optNumOf (arg c "border"); let plain ← flagOf (arg c "plain")
    pure (bytesOut (RasterDocs.pbmDoc M w h scale border plain))
  | "ppm" => do
    let dark ← colorOf (arg c "dark"); let light ← colorOf (arg c "light"); let to ← typeOptsOf c
    let scale ← numOf (arg c "scale"); let border ← optNumOf (arg c "border")
    pure (bytesOut (RasterDocs.savePpm M w h (some dark) (some light) to scale border))
  | "pam" => do
    let dark ← colorOf (arg c "dark"); let light ← colorOf (arg c "light")
    let scale ← numOf (arg c "scale"); let border ← optNumOf (arg c "border")
    pure (bytesOut (RasterDocs.pamDoc M w h scale border (some dark) (some light)))
  | "xbm" => do
    let scale ← numOf (arg c "scale"); let border ← optNumOf (arg c "border")
    let name ← match arg c "name" with | .str s => some s.toList | _ => none
    pure (textOut (RasterDocs.xbmDoc M w h scale border name))
  | "xpm" => do
    let dark ← colorOf (arg c "dark"); let light ← colorOf (arg c "light")
    let scale ← numOf (arg c "scale"); let border ← optNumOf (arg c "border")
    let name ← match arg c "name" with | .str s => some s.toList | _ => none
    pure (textOut (RasterDocs.xpmDoc M w h scale border (some dark) (some light) name))
  | "txt" => do
    let border ← optNumOf (arg c "border")
    let dark ← txtStrOf (arg c "dark"); let light ← txtStrOf (arg c "light")
    pure (textOut (RasterDocs.txtDoc M w h border dark light))
  | "ans" => do
    let border ← optNumOf (arg c "border")
    pure (textOut (RasterDocs.ansiDoc M w h border))
  | "compact" => do
    let border ← optNumOf (arg c "border")
    pure (textOut (RasterDocs.compactDoc M w h border))
  | _ => none

/-- the serialisers of one symbol: the document models where they speak, `other` elsewhere -/
def docSem (svc : Services) (M : List (List Nat)) (w h : Nat) (other : String → Config → R SerOut) (key : String) (c : Config) : R SerOut :=
  let modelled : Option (R SerOut) :=
    if key == "svg" then svgSem svc M w h c
    else if key == "png" then pngSem svc M w h c
    else rasterSem M w h key c
  match modelled with
  | some r => r
  | none => other key c

/-- codec, gzip and locale -/
structure Runtime where
  codec : String → List Char → R (List Nat)
  decode : String → List Nat → R (List Char)
  defaultEnc : String
  gzipCheck : PyV → R Unit
  gzip : PyV → List Nat → List Nat

def docEnv (svc : Services) (rt : Runtime) (M : List (List Nat)) (w h : Nat) (other : String → Config → R SerOut) : Env :=
  { sem := docSem svc M w h other, codec := rt.codec, decode := rt.decode, defaultEnc := rt.defaultEnc,
    gzipCheck := rt.gzipCheck, gzip := rt.gzip }

end Model.RoutesDocs
