/-
  Model.Dispatch — the model driver's command table.  Every Model/*.lean file that offers driver
  commands defines `handle : String → Model.Req → Option String` and is listed here.
-/
import Model.Driver
import Model.Lines
import Model.HelpersDriver
import Model.CliDriver
import Model.IterDriver
import Model.Sequence
import Model.PngDriver
import Model.VectorDriver
import Model.RasterDocsDriver
import Model.RoutesDriver
import Model.C14Driver

namespace Model

def handlers : List (String → Req → Option String) := [handleCore, Lines.handle, Helpers.handle, CliDriver.handle, Iter.handle, handleSequence, PngDriver.handle, VectorDriver.handle, RasterDocsDriver.handle, RoutesDriver.handle, C14Driver.handle]

def handle (line : String) : String :=
  let (cmd, r) := parseReq line
  if cmd == "" then "" else
  match handlers.findSome? (fun h => h cmd r) with
  | some out => out
  | none => s!"id={r.getD "id" "?"} error=unknown-command-{cmd}"

end Model
