/-
  Model.Encoder — hand-written executable model of segno/encoder.py (encode → _encode pipeline).
  It follows the Python code statement by statement (loops become folds / structural recursion,
  mutation becomes returning the new value, exceptions become `Except PyErr`).  All tables come
  from `Gen` (regenerated from the repository on every run).  Text → bytes conversion and codec
  names are parameters supplied by the caller (see DESIGN §3).
-/
import Gen.Tables
import Gen.Arith

namespace Model

inductive PyErr where
  | valueError | dataOverflow | indexError | keyError | typeError | assertionError
  | unicodeError | lookupError
  deriving DecidableEq, Repr, Inhabited

def PyErr.name : PyErr → String
  | .valueError => "ValueError" | .dataOverflow => "DataOverflowError" | .indexError => "IndexError"
  | .keyError => "KeyError" | .typeError => "TypeError" | .assertionError => "AssertionError"
  | .unicodeError => "UnicodeError" | .lookupError => "LookupError"

abbrev R := Except PyErr

abbrev Matrix := Array (Array Nat)

/-! ### table access (Python dict / tuple lookups; `none` = KeyError / IndexError) -/

def lookup2 {α : Type} (t : List (Int × Int × α)) (a b : Int) : Option α :=
  (t.find? (fun x => x.1 == a && x.2.1 == b)).map (·.2.2)

def lvlKey (e : Option Nat) : Int := match e with | none => -1 | some x => (x : Int)

def capacity (v : Int) (e : Option Nat) : Option Nat := lookup2 Gen.SYMBOL_CAPACITY v (lvlKey e)
def eccInfo (v : Int) (e : Option Nat) : Option (List (Nat × Nat × Nat)) := lookup2 Gen.ECC v (lvlKey e)

def cciLen (mode : Nat) (verRange : Int) : Option Nat :=
  (Gen.CHAR_COUNT_INDICATOR_LENGTH.find? (fun x => x.1 == mode && x.2.1 == verRange)).map (·.2.2)

def assoc {α β : Type} [BEq α] (t : List (α × β)) (k : α) : Option β := (t.find? (·.1 == k)).map (·.2)

def expArr : Array Nat := Gen.GALIOS_EXP.toArray
def logArr : Array Nat := Gen.GALIOS_LOG.toArray

/-! ### bit buffer -/

/-- `Buffer.append_bits(val, length)`: most significant bit first -/
def appendBits (val len : Nat) : List Nat := (List.range len).map (fun k => (val >>> (len - 1 - k)) % 2)

def bitsToNat (bs : List Nat) : Nat := bs.foldl (fun acc b => acc * 2 + b) 0

/-- `Buffer.toints()`: groups of 8 bits, the last group zero-filled -/
def toInts : Nat → List Nat → List Nat
  | 0, _ => []
  | _, [] => []
  | f + 1, bs =>
    let g := bs.take 8
    bitsToNat (g ++ List.replicate (8 - g.length) 0) :: toInts f (bs.drop 8)

/-! ### segments -/

structure Segment where
  bits : List Nat
  charCount : Nat
  mode : Nat
  encoding : Option String
  deriving Repr, BEq, Inhabited

def isDigitByte (b : Nat) : Bool := 48 ≤ b && b ≤ 57

def isAlnumByte (b : Nat) : Bool := Gen.ALPHANUMERIC_CHARS.contains b

def isSjisTrail (b : Nat) : Bool := 0x40 ≤ b && b ≤ 0xfc && b != 0x7f

def pairs : List Nat → List (Nat × Nat)
  | a :: b :: rest => (a, b) :: pairs rest
  | _ => []

/-- `is_kanji` -/
def isKanji (data : List Nat) : Bool :=
  data.length != 0 && data.length % 2 == 0 &&
  (pairs data).all (fun (hi, lo) =>
    let code := hi * 256 + lo
    ((0x8140 ≤ code && code ≤ 0x9ffc) || (0xe040 ≤ code && code ≤ 0xebbf)) && isSjisTrail lo)

/-- `find_mode` -/
def findMode (data : List Nat) : Nat :=
  if data.length != 0 && data.all isDigitByte then Gen.MODE_NUMERIC
  else if data.length != 0 && data.all isAlnumByte then Gen.MODE_ALPHANUMERIC
  else if isKanji data then Gen.MODE_KANJI
  else Gen.MODE_BYTE

def chunks (k : Nat) : Nat → List Nat → List (List Nat)
  | 0, _ => []
  | _, [] => []
  | f + 1, l => l.take k :: chunks k f (l.drop k)

def digitsVal (ds : List Nat) : Nat := ds.foldl (fun acc d => acc * 10 + (d - 48)) 0

def alnumIndex (b : Nat) : Nat := (Gen.ALPHANUMERIC_CHARS.idxOf b)

/-- `make_segment(data, mode, encoding)` with `data` already converted to bytes and `encoding`
    the codec name that conversion used (or the requested one for bytes input) -/
def makeSegment (data : List Nat) (mode : Option Nat) (encoding : String) : R Segment := do
  let len := data.length
  let guessed := if mode != some Gen.MODE_BYTE then findMode data else Gen.MODE_BYTE
  let segMode ← match mode with
    | some m => if m < guessed then throw PyErr.valueError else pure m
    | none => pure guessed
  let segEnc := if segMode != Gen.MODE_BYTE then none else some encoding
  let isDouble := segMode == Gen.MODE_KANJI || segMode == Gen.MODE_HANZI
  let charCount := if isDouble then len / 2 else len
  if isDouble && len % 2 != 0 then throw PyErr.valueError
  if segMode == Gen.MODE_NUMERIC then
    let bits := ((chunks 3 len data).map (fun c => appendBits (digitsVal c) (c.length * 3 + 1))).flatten
    return { bits := bits, charCount := charCount, mode := segMode, encoding := segEnc }
  else if segMode == Gen.MODE_ALPHANUMERIC then
    let bits := ((chunks 2 len data).map (fun c =>
      match c with
      | [a, b] => appendBits (alnumIndex a * 45 + alnumIndex b) 11
      | [a] => appendBits (alnumIndex a) 6
      | _ => [])).flatten
    return { bits := bits, charCount := charCount, mode := segMode, encoding := segEnc }
  else if segMode == Gen.MODE_BYTE then
    return { bits := (data.map (fun b => appendBits b 8)).flatten, charCount := charCount, mode := segMode, encoding := segEnc }
  else if segMode == Gen.MODE_HANZI then
    let groups ← (pairs data).mapM (fun (hi, lo) => do
      let code := hi * 256 + lo
      if !(0xa1 ≤ lo && lo ≤ 0xfe) then throw PyErr.valueError
      let diff ← if 0xa1a1 ≤ code && code ≤ 0xaafe then pure (code - 0xa1a1)
                 else if 0xb0a1 ≤ code && code ≤ 0xfafe then pure (code - 0xa6a1)
                 else throw PyErr.valueError
      pure (appendBits ((diff >>> 8) * 0x60 + (diff &&& 0xff)) 13))
    return { bits := groups.flatten, charCount := charCount, mode := segMode, encoding := segEnc }
  else
    let groups ← (pairs data).mapM (fun (hi, lo) => do
      let code := hi * 256 + lo
      if !isSjisTrail lo then throw PyErr.valueError
      let diff ← if 0x8140 ≤ code && code ≤ 0x9ffc then pure (code - 0x8140)
                 else if 0xe040 ≤ code && code ≤ 0xebbf then pure (code - 0xc140)
                 else throw PyErr.valueError
      pure (appendBits ((diff >>> 8) * 0xc0 + (diff &&& 0xff)) 13))
    return { bits := groups.flatten, charCount := charCount, mode := segMode, encoding := segEnc }

/-- `Segments.add_segment`: merge with the previous segment when mode and encoding agree and the
    previous segment ends at a group boundary -/
def addSegment (segs : List Segment) (s : Segment) : List Segment :=
  match segs.getLast? with
  | none => [s]
  | some prev =>
    let group := if s.mode == Gen.MODE_NUMERIC then 3 else if s.mode == Gen.MODE_ALPHANUMERIC then 2 else 1
    if prev.mode == s.mode && prev.encoding == s.encoding && prev.charCount % group == 0 then
      segs.dropLast ++ [{ bits := prev.bits ++ s.bits, charCount := prev.charCount + s.charCount,
                          mode := s.mode, encoding := s.encoding }]
    else segs ++ [s]

structure Part where
  data : List Nat
  mode : Option Nat
  encoding : String
  deriving Repr, Inhabited

/-- `prepare_data` -/
def prepareData (parts : List Part) : R (List Segment) :=
  parts.foldlM (fun segs p => do
    let s ← makeSegment p.data p.mode p.encoding
    pure (addSegment segs s)) []

def sumNat (l : List Nat) : Nat := l.foldl (· + ·) 0

/-- `Segments.bit_length_with_overhead`; `none` = KeyError (mode without character count entry) -/
def bitLengthWithOverhead (segs : List Segment) (v : Int) (eci isSa : Bool) : Option Nat := do
  let nEci := if eci then (segs.filter (fun s => s.mode == Gen.MODE_BYTE && s.encoding != some Gen.DEFAULT_BYTE_ENCODING)).length else 0
  let o1 := nEci * 4 + nEci * 8 + (if isSa then 20 else 0)
  let o2 := if v > 0 then segs.length * 4 + 4 * (segs.filter (fun s => s.mode == Gen.MODE_HANZI)).length
            else if v > Gen.VERSION_M1 then segs.length * (v + 3).toNat else 0
  let verRange := if v > 0 then Gen.version_range v else v
  let ccis ← segs.mapM (fun s => cciLen s.mode verRange)
  pure (o1 + o2 + sumNat ccis + sumNat (segs.map (fun s => s.bits.length)))

/-- `is_mode_supported(mode, ver)`; `none` = ValueError (unknown mode) -/
def isModeSupported (mode : Nat) (v : Int) : Option Bool :=
  (assoc Gen.SUPPORTED_MODES mode).map (fun vs => vs.contains (if v > 0 then 1 else v))

/-- `find_minimum_version_for_mode` -/
def findMinimumVersionForMode (mode : Nat) : Option Int :=
  match Gen.MICRO_VERSIONS.findSome? (fun v =>
      match isModeSupported mode v with
      | none => some none
      | some true => some (some v)
      | some false => none) with
  | some r => r
  | none => some 1

def intRange (lo hi : Int) : List Int := (List.range (hi + 1 - lo).toNat).map (fun k => lo + Int.ofNat k)

/-- `find_version` -/
def findVersion (segs : List Segment) (error : Option Nat) (eci : Bool) (micro : Option Bool) (isSa : Bool := false) : R Int := do
  if eci && micro == some true then throw PyErr.assertionError
  let microAllowed := micro != some false
  let minV0 : Int := if microAllowed then Gen.VERSION_M1 else 1
  let maxV : Int := if micro == some true then Gen.VERSION_M4 else 40
  let minV1 ← if minV0 < 1 then
      match segs.mapM (fun s => findMinimumVersionForMode s.mode) with
      | none => throw PyErr.valueError
      | some [] => throw PyErr.valueError   -- max() of an empty sequence
      | some (x :: xs) => pure (xs.foldl max x)
    else pure minV0
  let minV := if error.isSome && microAllowed then Gen.VERSION_M2 else minV1
  let found := (intRange minV maxV).find? (fun v =>
    let e := if error.isNone && v != Gen.VERSION_M1 then some Gen.ERROR_LEVEL_L else error
    match capacity v e, bitLengthWithOverhead segs v eci isSa with
    | some cap, some bl => cap ≥ bl
    | _, _ => false)
  match found with
  | some v => pure v
  | none => throw PyErr.dataOverflow

/-- `boost_error_level` -/
def boostErrorLevel (v : Int) (error : Option Nat) (segs : List Segment) (eci isSa : Bool) : R (Option Nat) := do
  match error with
  | none => pure error
  | some e =>
    if e == Gen.ERROR_LEVEL_H || segs.length != 1 then pure error else
    let levels0 := [Gen.ERROR_LEVEL_L, Gen.ERROR_LEVEL_M, Gen.ERROR_LEVEL_Q, Gen.ERROR_LEVEL_H]
    let levels := if v < 1 then (if v < Gen.VERSION_M4 then levels0.take 2 else levels0.take 3) else levels0
    let some dataLen := bitLengthWithOverhead segs v eci isSa | throw PyErr.keyError
    if !levels.contains e then throw PyErr.valueError  -- levels.index(error)
    let rest := levels.drop (levels.idxOf e + 1)
    -- walk up while the capacity suffices, stop at the first level that does not
    let rec go (cur : Nat) : List Nat → R Nat
      | [] => pure cur
      | l :: ls =>
        match capacity v (some l) with
        | none => throw PyErr.keyError
        | some cap => if cap ≥ dataLen then go l ls else pure cur
    let r ← go e rest
    pure (some r)

/-! ### data bit stream -/

/-- `write_segment` -/
def writeSegment (s : Segment) (v : Int) (eci : Bool) (eciNumber : String → Option Nat) : R (List Nat) := do
  let isMicro := v < 1
  let verRange := if isMicro then v else Gen.version_range v
  let eciBits ← if eci && s.mode == Gen.MODE_BYTE && s.encoding != some Gen.DEFAULT_BYTE_ENCODING then
      match eciNumber (s.encoding.getD "") with
      | some n => pure (appendBits Gen.MODE_ECI 4 ++ appendBits n 8)
      | none => throw PyErr.valueError
    else pure []
  let modeBits ← if !isMicro then
      pure (appendBits s.mode 4 ++ (if s.mode == Gen.MODE_HANZI then appendBits 1 4 else []))
    else if v > Gen.VERSION_M1 then
      match assoc Gen.MODE_TO_MICRO_MODE_MAPPING s.mode with
      | some mm => pure (appendBits mm (v + 3).toNat)
      | none => throw PyErr.keyError
    else pure []
  let some cl := cciLen s.mode verRange | throw PyErr.keyError
  pure (eciBits ++ modeBits ++ appendBits s.charCount cl ++ s.bits)

def terminatorLength (v : Int) : Option Nat := assoc Gen.TERMINATOR_LENGTH (if v > 0 then 1 else v)

def isM1M3 (v : Int) : Bool := v == Gen.VERSION_M1 || v == Gen.VERSION_M3

def padCodeword (i : Nat) : List Nat := if i % 2 == 0 then [1,1,1,0,1,1,0,0] else [0,0,0,1,0,0,0,1]

/-- `write_terminator`, `write_padding_bits`, `write_pad_codewords` applied to the stream `buff` -/
def finishStream (buff : List Nat) (v : Int) (cap : Nat) : R (List Nat) := do
  let some tl := terminatorLength v | throw PyErr.keyError
  -- write_terminator: [0] * min(capacity - length, tl)  (a negative count gives the empty list)
  let b1 := buff ++ List.replicate (min (cap - buff.length) tl) 0
  -- write_padding_bits
  let b2 := if !isM1M3 v then b1 ++ List.replicate (8 - b1.length % 8) 0 else b1
  -- write_pad_codewords
  if isM1M3 v then
    let len := b2.length
    let b3 := b2 ++ List.replicate (min ((8 - len % 8) % 8) (cap - len)) 0
    let b4 := b3 ++ ((List.range ((cap - b3.length) / 8)).map padCodeword).flatten
    pure (b4 ++ List.replicate (cap - b4.length) 0)
  else
    pure (b2 ++ ((List.range (cap / 8 - b2.length / 8)).map padCodeword).flatten)

/-! ### Reed-Solomon blocks (`make_blocks`) -/

/-- one step of the synthetic division: `error_block[k + n + 1] ^= gen_exp[lcoef + gen[n]]` for all n -/
def rsStep (gen : List Nat) (coef : Nat) (rest : List Nat) : List Nat :=
  if coef == 0 then rest else
  let lcoef := logArr.getD coef 0
  let upd := List.zipWith (fun r g => r ^^^ expArr.getD (lcoef + g) 0) rest gen
  upd ++ rest.drop upd.length

def rsLoop (gen : List Nat) : Nat → List Nat → List Nat
  | 0, l => l
  | _ + 1, [] => []
  | k + 1, c :: rest => rsLoop gen k (rsStep gen c rest)

/-- error correction codewords of one block -/
def rsRemainder (gen : List Nat) (block : List Nat) (nEc : Nat) : List Nat :=
  rsLoop gen block.length (block ++ List.replicate nEc 0)

def makeBlocks (ecInfos : List (Nat × Nat × Nat)) (codewords : List Nat) : R (List (List Nat) × List (List Nat)) := do
  let shapes := (ecInfos.map (fun e => List.replicate e.1 (e.2.2, e.2.1 - e.2.2))).flatten
  let rec go (cws : List Nat) : List (Nat × Nat) → R (List (List Nat) × List (List Nat))
    | [] => pure ([], [])
    | (nd, ne) :: rest => do
      let block := cws.take nd
      let some gen := assoc Gen.GEN_POLY ne | throw PyErr.keyError
      let ec := rsRemainder gen block ne
      let (ds, es) ← go (cws.drop nd) rest
      pure (block :: ds, ec :: es)
  go codewords shapes

/-- `chain.from_iterable(zip_longest(*blocks))` without the `None`s -/
def interleave (blocks : List (List Nat)) : List Nat :=
  let maxLen := (blocks.map List.length).foldl max 0
  ((List.range maxLen).map (fun r => blocks.filterMap (fun b => b[r]?))).flatten

/-- `make_final_message` -/
def makeFinalMessage (v : Int) (error : Option Nat) (buff : List Nat) : R (List Nat) := do
  let some ecInfos := eccInfo v error | throw PyErr.keyError
  let codewords := toInts (buff.length + 1) buff
  let (dataBlocks, errorBlocks) ← makeBlocks ecInfos codewords
  let (dataBlocks', cwFour) ←
    if isM1M3 v then
      match dataBlocks with
      | b :: bs =>
        match b.getLast? with
        | some lastCw => pure (b.dropLast :: bs, appendBits (lastCw >>> 4) 4)
        | none => throw PyErr.indexError
      | [] => throw PyErr.indexError
    else pure (dataBlocks, [])
  let d := ((interleave dataBlocks').map (fun x => appendBits x 8)).flatten
  let e := ((interleave errorBlocks).map (fun x => appendBits x 8)).flatten
  pure (d ++ cwFour ++ e ++ List.replicate (Gen.remainder_bits v).toNat 0)

/-! ### matrix construction -/

def get2 (m : Matrix) (i j : Nat) : Nat := (m.getD i #[]).getD j 0
def set2 (m : Matrix) (i j v : Nat) : Matrix := m.modify i (fun r => r.setIfInBounds j v)

/-- `make_matrix(width, height)` for a square matrix incl. timing pattern -/
def makeMatrix (n : Nat) : Matrix :=
  let isMicro := n < 21
  let m0 : Matrix := Array.replicate n (Array.replicate n 2)
  -- version areas
  let m1 := if n > 41 then
      (List.range 6).foldl (fun m i =>
        let m := set2 (set2 (set2 m i (n - 11) 0) i (n - 10) 0) i (n - 9) 0
        set2 (set2 (set2 m (n - 11) i 0) (n - 10) i 0) (n - 9) i 0) m0
    else m0
  -- format areas; Python index -i: 0 for i = 0, n - i otherwise
  let m2 := (List.range 9).foldl (fun m i =>
      let m := set2 (set2 m i 8 0) 8 i 0
      if !isMicro then
        let ni := if i == 0 then 0 else n - i
        set2 (set2 m ni 8 0) 8 ni 0
      else m) m1
  -- add_timing_pattern
  let (j, stop) := if isMicro then (0, n) else (6, n - 8)
  (List.range (stop - 8)).foldl (fun m k =>
    let i := 8 + k
    let bit := (k + 1) % 2
    set2 (set2 m i j bit) j i bit) m2

/-- `add_finder_patterns` -/
def addFinderPatterns (m : Matrix) (n : Nat) : Matrix :=
  let corners : List (Nat × Nat × Nat × Nat) :=   -- (row0, col0, offset, sepoffset)
    if n < 21 then [(0, 0, 1, 1)] else [(0, 0, 1, 1), (0, n - 8, 1, 0), (n - 8, 0, 0, 1)]
  corners.foldl (fun m (i, j, off, sep) =>
    (List.range 8).foldl (fun m r =>
      (List.range 8).foldl (fun m c =>
        set2 m (i + r) (j + c) ((Gen.FINDER_PATTERN.getD (off + r) []).getD (sep + c) 0)) m) m) m

def alignmentPattern : List Nat := [1,1,1,1,1, 1,0,0,0,1, 1,0,1,0,1, 1,0,0,0,1, 1,1,1,1,1]

/-- `add_alignment_patterns` -/
def addAlignmentPatterns (m : Matrix) (n : Nat) : R Matrix := do
  let version : Int := Int.fdiv ((n : Int) - 17) 4
  if version < 2 then return m
  let some positions := Gen.ALIGNMENT_POS[(version - 2).toNat]? | throw PyErr.indexError
  let some minPos := positions.head? | throw PyErr.indexError
  let some maxPos := positions.getLast? | throw PyErr.indexError
  let cells := (positions.map (fun x => positions.map (fun y => (x, y)))).flatten
  pure (cells.foldl (fun m (x, y) =>
    if (x, y) == (minPos, minPos) || (x, y) == (minPos, maxPos) || (x, y) == (maxPos, minPos) then m
    else
      (List.range 5).foldl (fun m r =>
        (List.range 5).foldl (fun m c =>
          set2 m (x - 2 + r) (y - 2 + c) (alignmentPattern.getD (r * 5 + c) 0)) m) m) m)

/-- the (i, j) visiting order of `add_codewords` -/
def codewordCoords (n : Nat) (v : Int) : List (Nat × Nat) :=
  let isMicro := v < 1
  let inc := if isM1M3 v then 2 else 0
  let rights := (List.range (n / 2)).map (fun k => n - 1 - 2 * k)   -- range(n-1, 0, -2)
  (rights.map (fun right0 =>
    let right := if !isMicro && right0 ≤ 6 then right0 - 1 else right0
    ((List.range n).map (fun vertical =>
      [0, 1].map (fun z =>
        let j := right - z
        let up0 := ((right + inc) &&& 2) == 0
        let upwards := if !isMicro then (up0 != decide (j < 6)) else up0
        let i := if upwards then n - 1 - vertical else vertical
        (i, j)))).flatten)).flatten

/-- `add_codewords` -/
def addCodewords (m : Matrix) (bits : List Nat) (v : Int) : R Matrix :=
  let n := m.size
  let (m', rest) := (codewordCoords n v).foldl (fun (acc : Matrix × List Nat) (i, j) =>
    match acc.2 with
    | [] => acc
    | b :: bs => if get2 acc.1 i j == 2 then (set2 acc.1 i j b, bs) else acc) (m, bits)
  if rest.isEmpty then pure m' else throw PyErr.valueError

def maskFn (p : Nat) (i j : Nat) : Bool :=
  match p with
  | 0 => Gen.fn0 i j | 1 => Gen.fn1 i j | 2 => Gen.fn2 i j | 3 => Gen.fn3 i j
  | 4 => Gen.fn4 i j | 5 => Gen.fn5 i j | 6 => Gen.fn6 i j | _ => Gen.fn7 i j

def maskPatterns (isMicro : Bool) : List Nat := if isMicro then Gen.maskOrderMicro else Gen.maskOrderQR

/-- `apply_mask` with `is_encoding_region` taken from the function matrix -/
def applyMask (m fm : Matrix) (p : Nat) : Matrix :=
  m.mapIdx (fun i row => row.mapIdx (fun j x =>
    if get2 fm i j > 1 then x ^^^ (if maskFn p i j then 1 else 0) else x))

/-! ### mask evaluation -/

def n3Pattern : List Nat := [1, 0, 1, 1, 1, 0, 1]

/-- `seq.find(n3_pattern, start)`; returns the index or `none` -/
def findPattern (seq : List Nat) (start : Nat) : Option Nat :=
  (List.range (seq.length + 1 - start - 7 + 0)).findSome? (fun k =>
    let idx := start + k
    if idx + 7 ≤ seq.length && (seq.drop idx).take 7 == n3Pattern then some idx else none)

def anyNonZero (l : List Nat) : Bool := l.any (· != 0)

/-- `n3_pattern_occurrences` -/
def n3Occurrences (seq : List Nat) : Nat :=
  let size := seq.length
  let rec go (fuel : Nat) (idx? : Option Nat) (count : Nat) : Nat :=
    match fuel, idx? with
    | 0, _ => count
    | _, none => count
    | f + 1, some idx =>
      let offset := idx + 7
      let hit := idx == 0 || idx + 7 == size
        || !anyNonZero ((seq.drop (idx - 4)).take (min idx size - (idx - 4)))
        || !anyNonZero ((seq.drop offset).take (min (offset + 4) size - offset))
      go f (findPattern seq (idx + 4)) (if hit then count + 40 else count)
  go (size + 1) (findPattern seq 0) 0

/-- N1 contribution of one line (row or column): runs of length ≥ 5 score length − 2 -/
def n1Line (l : List Nat) : Nat :=
  let (score, _, cnt) := l.foldl (fun (acc : Nat × Nat × Nat) b =>
    let (score, prev, cnt) := acc
    if b == prev then (score, prev, cnt + 1)
    else ((if cnt ≥ 5 then score + (cnt - 2) else score), b, 1)) (0, 2, 0)   -- 2 = "no previous bit"
  if cnt ≥ 5 then score + (cnt - 2) else score

def column (m : Matrix) (j : Nat) : List Nat := (List.range m.size).map (fun i => get2 m i j)

/-- `mask_scores`: (N1, N2, N3, N4) -/
def maskScores (m : Matrix) : Nat × Nat × Nat × Nat :=
  let n := m.size
  let rows := (List.range n).map (fun i => (m.getD i #[]).toList)
  let cols := (List.range n).map (column m)
  let n1 := sumNat (rows.map n1Line) + sumNat (cols.map n1Line)
  let n2 := sumNat ((List.range (n - 1)).map (fun i =>
      sumNat ((List.range (n - 1)).map (fun j =>
        let a := get2 m i j
        if a == get2 m i (j + 1) && a == get2 m (i + 1) j && a == get2 m (i + 1) (j + 1) then 3 else 0))))
  let n3 := sumNat (rows.map n3Occurrences) + sumNat (cols.map n3Occurrences)
  let dark := sumNat (rows.map sumNat)
  let total := n * n
  -- 10 * int(abs(dark / total * 100 - 50) / 5) in exact arithmetic
  let dev := if 20 * dark ≥ 10 * total then 20 * dark - 10 * total else 10 * total - 20 * dark
  let n4 := 10 * (dev / total)
  (n1, n2, n3, n4)

def evaluateMask (m : Matrix) : Nat := let (a, b, c, d) := maskScores m; a + b + c + d

/-- `evaluate_micro_mask` -/
def evaluateMicroMask (m : Matrix) : Nat :=
  let n := m.size
  let sum1 := sumNat ((List.range (n - 1)).map (fun k => get2 m (k + 1) (n - 1)))
  let sum2 := sumNat ((List.range (n - 1)).map (fun k => get2 m (n - 1) (k + 1)))
  if sum1 ≤ sum2 then sum1 * 16 + sum2 else sum2 * 16 + sum1

/-- function matrix of `find_and_apply_best_mask` -/
def functionMatrix (n : Nat) : R Matrix := do
  let fm ← addAlignmentPatterns (addFinderPatterns (makeMatrix n) n) n
  pure (if n < 21 then fm else set2 fm (n - 8) 8 1)

/-- `find_and_apply_best_mask` -/
def findAndApplyBestMask (m : Matrix) (proposed : Option Nat) : R (Nat × Matrix) := do
  let n := m.size
  let isMicro := n < 21
  let fm ← functionMatrix n
  let patterns := maskPatterns isMicro
  match proposed with
  | some p =>
    let some pat := patterns[p]? | throw PyErr.indexError
    pure (p, applyMask m fm pat)
  | none =>
    -- strict comparison: the first best candidate wins
    let init : Option (Nat × Nat × Matrix) := none
    let best := (patterns.zipIdx).foldl (fun (best : Option (Nat × Nat × Matrix)) (pat, k) =>
      let cand := applyMask m fm pat
      let score := if isMicro then evaluateMicroMask cand else evaluateMask cand
      match best with
      | none => some (score, k, cand)      -- initial best score is +inf (QR) / -1 (Micro)
      | some (bs, bk, bm) =>
        if (if isMicro then score > bs else score < bs) then some (score, k, cand) else some (bs, bk, bm)) init
    match best with
    | some (_, k, bm) => pure (k, bm)
    | none => throw PyErr.typeError

/-- `calc_format_info` -/
def calcFormatInfo (v : Int) (error : Option Nat) (mask : Nat) : R Nat := do
  if v > 0 then
    let fmt := mask + (if error == some Gen.ERROR_LEVEL_L then 0x08
                       else if error == some Gen.ERROR_LEVEL_H then 0x10
                       else if error == some Gen.ERROR_LEVEL_Q then 0x18 else 0)
    match Gen.FORMAT_INFO[fmt]? with
    | some w => pure w
    | none => throw PyErr.indexError
  else
    let some s := lookup2 Gen.ERROR_LEVEL_TO_MICRO_MAPPING v (lvlKey error) | throw PyErr.keyError
    match Gen.FORMAT_INFO_MICRO[mask + (s <<< 2)]? with
    | some w => pure w
    | none => throw PyErr.indexError

/-- `add_format_info` -/
def addFormatInfo (m : Matrix) (v : Int) (error : Option Nat) (mask : Nat) : R Matrix := do
  let n := m.size
  let isMicro := v < 1
  let fi ← calcFormatInfo v error mask
  let off0 := if isMicro then 1 else 0
  let m' := (List.range 8).foldl (fun m i =>
    let vbit := (fi >>> i) % 2
    let hbit := (fi >>> (14 - i)) % 2
    let voff := if !isMicro && i ≥ 6 then off0 + 1 else off0
    let hoff := if !isMicro && i ≥ 6 then 1 else off0
    let m := set2 (set2 m (i + voff) 8 vbit) 8 (i + hoff) hbit
    if !isMicro then set2 (set2 m 8 (n - 1 - i) vbit) (n - 1 - i) 8 hbit else m) m
  pure (if !isMicro then set2 m' (n - 8) 8 1 else m')

/-- `add_version_info` -/
def addVersionInfo (m : Matrix) (v : Int) : R Matrix := do
  if v < 7 then return m
  let n := m.size
  let some vi := Gen.VERSION_INFO[(v - 7).toNat]? | throw PyErr.indexError
  pure ((List.range 6).foldl (fun m i =>
    let b1 := (vi >>> (i * 3)) % 2
    let b2 := (vi >>> (i * 3 + 1)) % 2
    let b3 := (vi >>> (i * 3 + 2)) % 2
    let m := set2 (set2 (set2 m (n - 11) i b1) (n - 10) i b2) (n - 9) i b3
    set2 (set2 (set2 m i (n - 11) b1) i (n - 10) b2) i (n - 9) b3) m)

structure Code where
  matrix : Matrix
  version : Int
  error : Option Nat
  mask : Nat
  segments : List Segment
  deriving Inhabited

/-- `_encode` -/
def encodeCore (segs : List Segment) (error : Option Nat) (v : Int) (mask : Option Nat) (eci boost : Bool)
    (eciNumber : String → Option Nat) (sa : Option (Nat × Nat × Nat) := none) : R Code := do
  let error' ← if boost then boostErrorLevel v error segs eci sa.isSome else pure error
  let saBits := match sa with
    | some (number, total, parity) => appendBits Gen.MODE_STRUCTURED_APPEND 4 ++ appendBits number 4 ++ appendBits total 4 ++ appendBits parity 8
    | none => []
  let segBits ← segs.mapM (fun s => writeSegment s v eci eciNumber)
  let buff := saBits ++ segBits.flatten
  let some cap := capacity v error' | throw PyErr.keyError
  let stream ← finishStream buff v cap
  let final ← makeFinalMessage v error' stream
  let n := (Gen.calc_matrix_size v).toNat
  let m0 ← addAlignmentPatterns (addFinderPatterns (makeMatrix n) n) n
  let m1 ← addCodewords m0 final v
  let (mk, m2) ← findAndApplyBestMask m1 mask
  let m3 ← addFormatInfo m2 v error' mk
  let m4 ← addVersionInfo m3 v
  pure { matrix := m4, version := v, error := error', mask := mk, segments := segs }

/-- `encode` after argument normalisation -/
def encode (parts : List Part) (error : Option Nat) (version : Option Int) (mode : Option Nat) (mask : Option Nat)
    (eci : Bool) (micro : Option Bool) (boost : Bool) (eciNumber : String → Option Nat) : R Code := do
  let isMicroVer := match version with | some v => Gen.MICRO_VERSIONS.contains v | none => false
  if micro == some false && isMicroVer then throw PyErr.valueError
  if micro == some true && version.isSome && !isMicroVer then throw PyErr.valueError
  -- a mode requested for the whole content must be supported by a requested version
  match mode, version with
  | some md, some v =>
    match isModeSupported md v with
    | none => throw PyErr.valueError
    | some false => throw PyErr.valueError
    | some true => pure ()
  | _, _ => pure ()
  if error == some Gen.ERROR_LEVEL_H && (micro == some true || isMicroVer) then throw PyErr.valueError
  if eci && (micro == some true || isMicroVer) then throw PyErr.valueError
  let micro' := if eci && micro.isNone then some false else micro
  let segs ← prepareData parts
  let guessed ← findVersion segs error eci micro'
  let v ← match version with
    | none => pure guessed
    | some v => if guessed > v then throw PyErr.dataOverflow else pure v
  let error' := if error.isNone && v != Gen.VERSION_M1 then some Gen.ERROR_LEVEL_L else error
  -- a requested version above the minimal one is checked against its own capacity
  if v != guessed then
    match capacity v error', bitLengthWithOverhead segs v eci false with
    | some cap, some bl => if cap ≥ bl then pure () else throw PyErr.dataOverflow
    | _, _ => throw PyErr.dataOverflow
  -- normalize_mask range check
  match mask with
  | some mk => if (v < 1 && mk ≥ 4) || mk ≥ 8 then throw PyErr.valueError
  | none => pure ()
  encodeCore segs error' v mask eci boost eciNumber

end Model
