/-
  Model.RasterDocsDriver — `model` commands for the whole documents of the raster / text writers
  (correspondence for C09): `doc` (fmt = pbm | pbm-plain | ppm | pam | xbm | xpm | txt | ans | compact) and
  `pngfile` (the complete PNG file; `comp` = the compressed IDAT payload of the real file, `dpi` =
  `truthy:int(dpi):int(int(dpi) // 0.0254)`).  Colour arguments as for `png` (Model/PngDriver.lean).
-/
import Model.RasterDocs
import Model.PngDriver

namespace Model.RasterDocsDriver

open Model Model.Iter Model.PngDriver Model.RasterDocs

def parseDpi (t : String) : Option Dpi :=
  match t.splitOn ":" with
  | [a, b, c] => do
    let truthy ← optBool a
    let i ← optInt b
    let p ← c.toNat?
    pure { truthy := truthy, int := i, ppm := p }
  | _ => none

def handle (cmd : String) (r : Req) : Option String :=
  let id := r.getD "id" "?"
  let fail (e : PyErr) := s!"id={id} err={e.name}"
  let bytes (x : R (List Nat)) : String := match x with
    | .error e => fail e
    | .ok bs => s!"id={id} ok=1 bytes={hexOf bs}"
  let text (x : R (List Char)) : String := match x with
    | .error e => fail e
    | .ok cs => s!"id={id} ok=1 bytes={hexOfString (String.ofList cs)}"
  match cmd with
  | "doc" => some (match args r, optArg r "dark", optArg r "light", typeOpts r with
    | some a, some dark, some light, some o =>
      let name := (stringOfHex (r.getD "name" "696d67")).toList
      match r.getD "fmt" "" with
      | "pbm" => bytes (pbmDoc a.m a.n a.n a.scale a.border false)
      | "pbm-plain" => bytes (pbmDoc a.m a.n a.n a.scale a.border true)
      | "ppm" => bytes (savePpm a.m a.n a.n dark light o a.scale a.border)
      | "pam" => bytes (pamDoc a.m a.n a.n a.scale a.border dark light)
      | "xbm" => text (xbmDoc a.m a.n a.n a.scale a.border name)
      | "xpm" => text (xpmDoc a.m a.n a.n a.scale a.border dark light name)
      | "txt" => text (txtDoc a.m a.n a.n a.border (stringOfHex (r.getD "tdark" "31")).toList (stringOfHex (r.getD "tlight" "30")).toList)
      | "ans" => text (ansiDoc a.m a.n a.n a.border)
      | "compact" => text (compactDoc a.m a.n a.n a.border)
      | f => s!"id={id} error=unknown-format-{f}"
    | _, _, _, _ => s!"id={id} error=bad-request")
  | "pngfile" => some (match args r, optArg r "dark", optArg r "light", typeOpts r with
    | some a, some dark, some light, some o =>
      let dpi : Option (Option Dpi) := match r.get "dpi" with
        | none => some none
        | some t => (parseDpi t).map some
      match dpi with
      | none => s!"id={id} error=bad-request"
      | some dpi =>
        let cm := makeColormap a.n a.n (dark.getD (.str "#000")) (light.getD (.str "#fff")) o
        let tie := match cm.mapM (fun e => pngColor e.2) with
          | .ok vals => if hasTie vals && (r.get "setorder").isNone then s!" tie=1 vals={";".intercalate (vals.map showPColor)}" else ""
          | .error _ => ""
        match savePngFile (setOrderOf r) a.m a.n a.n dark light o a.scale a.border dpi (bytesOfHex (r.getD "comp" "")) with
        | .error e => fail e
        | .ok none => s!"id={id} err=error"
        | .ok (some bs) => s!"id={id} ok=1 bytes={hexOf bs}{tie}"
    | _, _, _, _ => s!"id={id} error=bad-request")
  | _ => none

end Model.RasterDocsDriver
