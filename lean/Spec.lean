import Spec.GF
import Spec.Geometry
import Spec.Tables
import Spec.Decode
import Spec.Judge
