import Spec.GF
import Spec.Geometry
import Spec.Tables
import Spec.Decode
import Spec.Penalty
import Spec.Sizing
import Spec.Judge
import Spec.Dispatch
