import Props.C02
import Props.C03Tables
import Props.C03
import Props.C13
