import Props.C02
import Props.C03Tables
import Props.C03
