/-
  Spec.Judge — evaluates the properties on what the *implementation* returned.  Line protocol:
  one request per line, tokens `key=value` separated by single spaces, first token = command.
  Output: one line per request, tokens `key=value`.  Verdict fields are `cNN=ok` or `cNN=<reason>`;
  `cNN=-` means "not judged in this request".
-/
import Spec.Decode
import Spec.Penalty
import Spec.Sizing

namespace Spec

def hexDigit (n : Nat) : Char := "0123456789abcdef".toList.getD n '?'
def hexOfBytes (bs : List Nat) : String := String.ofList (bs.flatMap (fun b => [hexDigit (b / 16 % 16), hexDigit (b % 16)]))

def hexVal (c : Char) : Nat :=
  if '0' ≤ c && c ≤ '9' then c.toNat - 48
  else if 'a' ≤ c && c ≤ 'f' then c.toNat - 87
  else if 'A' ≤ c && c ≤ 'F' then c.toNat - 55 else 0

def bytesOfHex (s : String) : List Nat :=
  let rec go : List Char → List Nat
    | a :: b :: rest => (hexVal a * 16 + hexVal b) :: go rest
    | _ => []
  go s.toList

def parseMatrix (s : String) : Matrix :=
  ((s.splitOn "/").map (fun r => (r.toList.map (fun c => c.toNat - 48)).toArray)).toArray

abbrev Req := List (String × String)

def parseReq (line : String) : String × Req :=
  match (line.splitOn " ").filter (· != "") with
  | [] => ("", [])
  | cmd :: rest => (cmd, rest.map (fun t =>
      match t.splitOn "=" with
      | k :: vs => (k, "=".intercalate vs)
      | [] => ("", "")))

def Req.get (r : Req) (k : String) : Option String := (r.find? (·.1 == k)).map (·.2)
def Req.getD (r : Req) (k : String) (d : String) : String := (r.get k).getD d

def intOfString (s : String) : Option Int :=
  if s.startsWith "-" then (s.drop 1).toNat?.map (fun n => -(n : Int)) else s.toNat?.map (fun n => (n : Int))
def optNat (s : String) : Option Nat := if s == "-" then none else s.toNat?
def optInt (s : String) : Option Int := if s == "-" then none else intOfString s
def optBool (s : String) : Option Bool := if s == "1" then some true else if s == "0" then some false else none

/-! ### C01: payload and ECI headers -/

/-- expected parts `canon:hex,…`: canon = Python codec name of the part's encoding (`-` = ISO-8859-1
    or irrelevant), hex = the content bytes of the part -/
def parseExpected (s : String) : List (String × List Nat) :=
  if s == "" || s == "-" then [] else
  (s.splitOn ",").map (fun p =>
    match p.splitOn ":" with
    | [e, h] => (e, bytesOfHex h)
    | _ => ("?", []))

def isLatin1 (canon : String) : Bool := canon == "-" || canon == "iso8859-1"

/-- consume whole expected parts that make up exactly `bytes`; returns their codec names and the rest -/
def takeParts : Nat → List Nat → List (String × List Nat) → Option (List String × List (String × List Nat))
  | 0, _, _ => none
  | _ + 1, [], rest =>
    -- zero-length segment: consume empty parts greedily
    match rest with
    | (c, []) :: more => some ([c], more)
    | _ => some ([], rest)
  | f + 1, bytes, (c, b) :: rest =>
    if b.length ≤ bytes.length && bytes.take b.length == b then
      if b.length == bytes.length then some ([c], rest)
      else (takeParts f (bytes.drop b.length) rest).map (fun (cs, r) => (c :: cs, r))
    else none
  | _ + 1, _ :: _, [] => none

/-- C01 on decoded segments: bytes equal part by part; with `eci` every byte-mode segment whose codec
    is not ISO-8859-1 carries the ECI header of that codec; otherwise, and in Micro symbols, none -/
def judgeC01 (v : Int) (segs : List Segment) (exp : List (String × List Nat)) (eciReq : Bool) : String :=
  let rec go (segs : List Segment) (exp : List (String × List Nat)) : String :=
    match segs with
    | [] => if exp.all (fun p => p.2.isEmpty) then "ok" else "payload-truncated"
    | s :: rest =>
      match takeParts (exp.length + 2) s.bytes exp with
      | none => "payload-mismatch"
      | some (canons, exp') =>
        let canon := canons.headD "-"
        if s.mode == 4 && !(canons.all (· == canon)) then "merged-parts-of-different-encodings"
        else
          let want : Option (Option Nat) :=       -- none = header optional (alias spelling of Latin-1)
            if !eciReq || v < 1 || s.mode != 4 then some none
            else if isLatin1 canon then (if canon == "-" then some none else none)
            else some ((eciTable.find? (·.1 == canon)).map (·.2))
          match want with
          | none => if s.eci == none || s.eci == some 3 then go rest exp' else "eci-header-wrong-for-latin1"
          | some w => if s.eci == w then go rest exp' else s!"eci-header-expected-{w}-found-{s.eci}"
  go segs exp

/-! ### the `sym` command: everything about one symbol -/

def segInfos (segs : List Segment) : List SegInfo :=
  segs.map (fun s => { mode := s.mode, count := s.count, eci := s.eci.isSome })

def judgeSym (r : Req) : String :=
  let id := r.getD "id" "?"
  let m := parseMatrix (r.getD "m" "")
  match decode m with
  | .error e => s!"id={id} hdr={e} c01=hdr-{e} c02={e} c03=hdr-{e} c04=hdr c05=hdr c06=hdr c07=hdr c13=hdr-{e}"
  | .ok d =>
    let h := d.header
    let cap := d.stream.length
    -- C02: geometry + function patterns + metadata agreement
    let metaBad : Option String :=
      (match (r.get "ev").bind intOfString with | some ev => if ev != h.version then some s!"version-reported-{ev}-matrix-{h.version}" else none | none => none)
      <|> (match (r.get "ee").bind intOfString with | some ee => if ee != h.level then some s!"error-reported-{ee}-matrix-{h.level}" else none | none => none)
      <|> (match (r.get "em").bind String.toNat? with | some em => if em != h.mask then some s!"mask-reported-{em}-matrix-{h.mask}" else none | none => none)
      <|> (match r.get "ismicro" with | some x => if (x == "1") != isMicro h.version then some s!"is_micro-reported-{x}" else none | none => none)
      <|> (match (r.get "dborder").bind String.toNat? with | some b => if b != (if isMicro h.version then 2 else 4) then some s!"default_border_size-reported-{b}" else none | none => none)
      <|> (match (r.get "symsize").bind String.toNat? with | some x => if x != m.size + 2 * (if isMicro h.version then 2 else 4) then some s!"symbol_size-reported-{x}" else none | none => none)
      <|> (match r.get "desig" with
           | some x =>
             let vn := if h.version < 1 then s!"M{h.version + 4}" else toString h.version
             let ln := if h.level == -1 then "" else if h.level == 1 then "-L" else if h.level == 0 then "-M" else if h.level == 3 then "-Q" else "-H"
             if x != vn ++ ln then some s!"designator-reported-{x}-matrix-{vn}{ln}" else none
           | none => none)
    let c02 := match d.fnBad with
      | some (i, j) => s!"function-module-{i}-{j}"
      | none => match metaBad with | some e => e | none => "ok"
    let c03 := if d.badBlocks != 0 then s!"invalid-rs-blocks-{d.badBlocks}" else "ok"
    -- C06
    let c06 :=
      match r.get "reqmask" with
      | some rm =>
        if rm != "-" then (if rm.toNat? == some h.mask then "ok" else s!"requested-mask-{rm}-used-{h.mask}")
        else
          let (best, scores) := bestMask h.version m h.mask
          if best == h.mask then "ok" else s!"mask-{h.mask}-but-optimum-{best}-scores-{scores}"
      | none => "-"
    let common := s!"id={id} hdr=ok v={h.version} lvl={h.level} mask={h.mask} cap={cap} c02={c02} c03={c03} c06={c06}"
    match d.parsed with
    | .error e =>
      s!"{common} parse={e} c01=parse-{e} c04=parse c05=parse c07=parse c13=parse-{e} cw={hexOfBytes d.blocks.data.flatten}"
    | .ok p =>
      let tail := d.stream.drop p.endPos
      let c13 :=
        if !allZero d.blocks.remainder then "remainder-bits-nonzero"
        else if tail == isoTail h.version cap p.endPos then "ok"
        else if tail == d1Tail h.version cap p.endPos then "d1"
        else "bad-tail"
      let eciReq := r.getD "eci" "0" == "1"
      let c01 := match r.get "exp" with
        | none => "-"
        | some e => judgeC01 h.version p.segments (parseExpected e) eciReq
      -- C04 / C05 on the decoded segments
      let infos := segInfos p.segments
      let micro := optBool (r.getD "micro" "-")
      let reqLevel := optNat (r.getD "reqerr" "-")
      let reqVer := optInt (r.getD "reqver" "-")
      let isSa := p.sa.isSome
      let c04 := match r.get "micro" with
        | none => "-"
        | some _ =>
          match neededBits h.version infos isSa with
          | none => "mode-not-available-in-version"
          | some need =>
            if need > cap then s!"content-{need}-bits-exceeds-capacity-{cap}"
            else if need != p.endPos then s!"stream-length-{p.endPos}-vs-iso-bit-count-{need}"
            else match reqVer with
              | some rv => if rv == h.version then "ok" else s!"requested-version-{rv}-got-{h.version}"
              | none =>
                match expectedVersion micro eciReq reqLevel infos isSa with
                | some ev => if ev == h.version then "ok" else s!"version-{h.version}-but-smallest-fitting-{ev}"
                | none => "nothing-fits-but-symbol-returned"
      let c05 := match r.get "boost" with
        | none => "-"
        | some b =>
          let el := expectedLevel h.version reqLevel (b == "1") infos isSa
          if h.level == el then "ok" else s!"level-{h.level}-expected-{el}"
      let c07 := match r.get "content" with
        | none => "-"
        | some c =>
          let data := bytesOfHex c
          match optNat (r.getD "reqmode" "-"), p.segments with
          | none, [s] => if s.mode == autoMode data then "ok" else s!"mode-{s.mode}-but-first-applicable-{autoMode data}"
          | some rm, [s] => if s.mode != rm then s!"mode-{s.mode}-but-requested-{rm}"
                            else if representable rm data then "ok" else s!"content-not-representable-in-mode-{rm}"
          | _, _ => "not-single-segment"
      let c07 := match (r.get "emode"), p.segments with
        | some em, [s] => if c07 == "ok" || c07 == "-" then (if em == toString s.mode then c07 else s!"mode-reported-{em}-symbol-{s.mode}") else c07
        | _, _ => c07
      -- C02 metadata: a reported mode must be the mode indicator of every segment in the symbol
      let c02 := match (r.get "emode") with
        | some em => if c02 == "ok" && em != "-" && p.segments.any (fun s => toString s.mode != em)
                     then s!"mode-reported-{em}-but-symbol-has-modes-{p.segments.map Segment.mode}" else c02
        | none => c02
      let sa := match p.sa with | some (a, b, c) => s!"{a}:{b}:{c}" | none => "-"
      let segs := ",".intercalate (p.segments.map (fun s =>
        s!"{s.mode}:{match s.eci with | some e => toString e | none => "-"}:{s.count}"))
      let common := s!"id={id} hdr=ok v={h.version} lvl={h.level} mask={h.mask} cap={cap} c02={c02} c03={c03} c06={c06}"
      s!"{common} parse=ok end={p.endPos} sa={sa} c01={c01} c04={c04} c05={c05} c07={c07} c13={c13} segs={segs} bytes={hexOfBytes (p.segments.map (·.bytes)).flatten} cw={hexOfBytes d.blocks.data.flatten}"

/-! ### the `fit` command: what should `make` do for single-part content (C04 / C07 / C14 refusals) -/

/-- expected outcome for single-part content `data` (bytes), requested mode / level / version -/
def judgeFit (r : Req) : String :=
  let id := r.getD "id" "?"
  let data := bytesOfHex (r.getD "content" "")
  let reqMode := optNat (r.getD "reqmode" "-")
  let micro := optBool (r.getD "micro" "-")
  let reqLevel := optNat (r.getD "reqerr" "-")
  let reqVer := optInt (r.getD "reqver" "-")
  let eciReq := r.getD "eci" "0" == "1"
  let eciHeader := eciReq && r.getD "latin1" "1" == "0"     -- would a byte segment carry an ECI header?
  let mode := match reqMode with | some m => m | none => autoMode data
  if !representable mode data then s!"id={id} expect=refused why=not-representable-in-mode-{mode}" else
  let info : SegInfo := { mode := mode, count := charCount mode data.length, eci := eciHeader && mode == 4 }
  match reqVer with
  | some rv =>
    if fits rv (sizingLevel reqLevel rv) [info] false then s!"id={id} expect=version v={rv}"
    else if (cciBits mode rv).isNone then s!"id={id} expect=refused why=mode-not-in-version"
    else s!"id={id} expect=overflow"
  | none =>
    match expectedVersion micro eciReq reqLevel [info] false with
    | some v => s!"id={id} expect=version v={v}"
    | none => s!"id={id} expect=overflow"

/-! ### the `seq` command: a Structured Append sequence (C08) -/

def xorAll (bs : List Nat) : Nat := bs.foldl (· ^^^ ·) 0

def judgeSeq (r : Req) : String :=
  let id := r.getD "id" "?"
  let sas := (r.getD "sa" "").splitOn ","
  let payloads := ((r.getD "bytes" "").splitOn ",").map bytesOfHex
  let msg := bytesOfHex (r.getD "msg" "")
  let n := payloads.length
  let versions := ((r.getD "vs" "").splitOn ",").filterMap intOfString
  let c08 :=
    if n < 1 || n > 16 then s!"symbol-count-{n}"
    else if versions.any (· < 1) then "micro-symbol-in-sequence"
    else if payloads.flatten != msg then "reassembled-payload-differs"
    else if (match optNat (r.getD "count" "-") with | some k => k != n | none => false) then s!"symbol-count-{n}-requested-{r.getD "count" "-"}"
    else if (match optInt (r.getD "ver" "-") with | some v => versions.any (· != v) | none => false) then "version-differs-from-request"
    else if n > 1 then
      let par := xorAll msg
      let bad := (sas.zipIdx).find? (fun (s, i) => s != s!"{i}:{n - 1}:{par}")
      match bad with
      | some (s, i) => s!"header-of-symbol-{i}-is-{s}-expected-{i}:{n - 1}:{par}"
      | none => if sas.length == n then "ok" else "header-count"
    else "ok"
  s!"id={id} c08={c08}"

/-- commands of this file; `none` = not mine -/
def handleCore (cmd : String) (r : Req) : Option String :=
  match cmd with
  | "sym" => some (judgeSym r)
  | "fit" => some (judgeFit r)
  | "seq" => some (judgeSeq r)
  | _ => none

end Spec
