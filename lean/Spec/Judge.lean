/-
  Spec.Judge — evaluates the properties on what the *implementation* returned.  Line protocol:
  one request per line, tokens `key=value` separated by single spaces, first token = command.
  Output: one line per request, tokens `key=value`.
-/
import Spec.Decode

namespace Spec

def hexDigit (n : Nat) : Char := "0123456789abcdef".toList.getD n '?'
def hexOfBytes (bs : List Nat) : String := String.ofList (bs.flatMap (fun b => [hexDigit (b / 16 % 16), hexDigit (b % 16)]))

def hexVal (c : Char) : Nat :=
  if '0' ≤ c && c ≤ '9' then c.toNat - 48
  else if 'a' ≤ c && c ≤ 'f' then c.toNat - 87
  else if 'A' ≤ c && c ≤ 'F' then c.toNat - 55 else 0

def bytesOfHex (s : String) : List Nat :=
  let rec go : List Char → List Nat
    | a :: b :: rest => (hexVal a * 16 + hexVal b) :: go rest
    | _ => []
  go s.toList

def parseMatrix (s : String) : Matrix :=
  ((s.splitOn "/").map (fun r => (r.toList.map (fun c => c.toNat - 48)).toArray)).toArray

abbrev Req := List (String × String)

def parseReq (line : String) : String × Req :=
  match (line.splitOn " ").filter (· != "") with
  | [] => ("", [])
  | cmd :: rest => (cmd, rest.map (fun t =>
      match t.splitOn "=" with
      | k :: vs => (k, "=".intercalate vs)
      | [] => ("", "")))

def Req.get (r : Req) (k : String) : Option String := (r.find? (·.1 == k)).map (·.2)
def Req.getD (r : Req) (k : String) (d : String) : String := (r.get k).getD d

/-- expected payload parts: `eci:hex` separated by commas; eci = `-` for none -/
def parseExpected (s : String) : List (Option Nat × List Nat) :=
  if s == "" || s == "-" then [] else
  (s.splitOn ",").map (fun p =>
    match p.splitOn ":" with
    | [e, h] => (if e == "-" then none else e.toNat?, bytesOfHex h)
    | _ => (none, []))

/-- merge adjacent parts carrying the same ECI marker (segno merges same-mode same-encoding parts;
    the property speaks about bytes and about the presence of the header, not about segmentation) -/
def mergeParts : List (Option Nat × List Nat) → List (Option Nat × List Nat)
  | [] => []
  | [x] => [x]
  | (e1, b1) :: (e2, b2) :: rest =>
    if e1 == e2 then mergeParts ((e1, b1 ++ b2) :: rest) else (e1, b1) :: mergeParts ((e2, b2) :: rest)
termination_by l => l.length

def showSeg (s : Segment) : String :=
  s!"{s.mode}:{match s.eci with | some e => toString e | none => "-"}:{s.count}:{hexOfBytes s.bytes}"

def intOfString (s : String) : Option Int :=
  if s.startsWith "-" then (s.drop 1).toNat?.map (fun n => -(n : Int)) else s.toNat?.map (fun n => (n : Int))

/-- `sym`: decode one symbol and judge C01/C02/C03/C13 on it -/
def judgeSym (r : Req) : String :=
  let id := r.getD "id" "?"
  let m := parseMatrix (r.getD "m" "")
  match decode m with
  | .error e => s!"id={id} hdr={e} c01=hdr c02={e} c03=hdr c13=hdr"
  | .ok d =>
    let h := d.header
    let cap := d.stream.length
    -- C02: geometry + function patterns + metadata agreement
    let metaBad : Option String :=
      (match (r.get "ev").bind intOfString with | some ev => if ev != h.version then some s!"version-reported-{ev}-matrix-{h.version}" else none | none => none)
      <|> (match (r.get "ee").bind intOfString with | some ee => if ee != h.level then some s!"error-reported-{ee}-matrix-{h.level}" else none | none => none)
      <|> (match (r.get "em").bind String.toNat? with | some em => if em != h.mask then some s!"mask-reported-{em}-matrix-{h.mask}" else none | none => none)
    let c02 := match d.fnBad with
      | some (i, j) => s!"function-module-{i}-{j}"
      | none => match metaBad with | some e => e | none => "ok"
    -- C03
    let remBad := !allZero d.blocks.remainder
    let c03 := if d.badBlocks != 0 then s!"invalid-rs-blocks-{d.badBlocks}" else "ok"
    match d.parsed with
    | .error e =>
      s!"id={id} hdr=ok v={h.version} lvl={h.level} mask={h.mask} cap={cap} c02={c02} c03={c03} parse={e} c01=parse-{e} c13=parse-{e} cw={hexOfBytes d.blocks.data.flatten}"
    | .ok p =>
      let tail := d.stream.drop p.endPos
      let c13 :=
        if remBad then "remainder-bits-nonzero"
        else if tail == isoTail h.version cap p.endPos then "ok"
        else if tail == d1Tail h.version cap p.endPos then "d1"
        else "bad-tail"
      let got := mergeParts (p.segments.map (fun s => (s.eci, s.bytes)))
      let c01 := match r.get "exp" with
        | none => "-"
        | some e =>
          let exp := mergeParts (parseExpected e)
          if got == exp then "ok"
          else if (got.map Prod.snd).flatten == (exp.map Prod.snd).flatten then "eci-header-mismatch"
          else "payload-mismatch"
      let sa := match p.sa with | some (a, b, c) => s!"{a}:{b}:{c}" | none => "-"
      let segs := ",".intercalate (p.segments.map showSeg)
      s!"id={id} hdr=ok v={h.version} lvl={h.level} mask={h.mask} cap={cap} c02={c02} c03={c03} parse=ok end={p.endPos} sa={sa} c01={c01} c13={c13} segs={segs} cw={hexOfBytes d.blocks.data.flatten}"

def judgeLine (line : String) : String :=
  let (cmd, r) := parseReq line
  match cmd with
  | "sym" => judgeSym r
  | "" => ""
  | _ => s!"error=unknown-command-{cmd}"

end Spec
