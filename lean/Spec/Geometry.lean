/-
  Spec.Geometry — symbol geometry of ISO/IEC 18004 from first principles: sizes, Annex E alignment
  centres, region predicates, function pattern values, Table 10 mask conditions.
  Versions are integers as in segno's public constants: 1..40 QR, 0 = M4, -1 = M3, -2 = M2, -3 = M1.
-/
namespace Spec

def isMicro (v : Int) : Bool := v < 1

/-- symbol size: 17+4v for QR version v, 9+2k for Micro Mk (k = v+4) -/
def size (v : Int) : Nat := if v > 0 then (17 + 4 * v).toNat else (9 + 2 * (v + 4)).toNat

/-- Annex E: centres of alignment patterns (row = column coordinates) for QR version `v` (Nat). -/
def annexE (v : Nat) : List Nat :=
  if v < 2 then [] else
  let num := v / 7 + 2
  let sz := 17 + 4 * v
  let step := if v = 32 then 26 else ((v * 4 + num * 2 + 1) / (num * 2 - 2)) * 2
  6 :: ((List.range (num - 1)).map (fun k => sz - 7 - k * step)).reverse

inductive Kind where
  | finder | separator | timing | alignment | format | version | darkmodule | data
  deriving DecidableEq, Repr, Inhabited

def inRange (a lo hi : Nat) : Bool := lo ≤ a && a ≤ hi

/-- is (i,j) inside the 5×5 block of an alignment pattern of QR version v (size n)?  The centres are
    all pairs (x, y) of Annex E coordinates except the three that coincide with finder patterns.
    (The coordinates are at least 16 apart, so at most one x is within 2 of i.) -/
def inAlignment (v n i j : Nat) : Bool :=
  let pos := annexE v
  match pos.find? (fun x => inRange i (x - 2) (x + 2)), pos.find? (fun y => inRange j (y - 2) (y + 2)) with
  | some x, some y => !((x == 6 && y == 6) || (x == 6 && y == n - 7) || (x == n - 7 && y == 6))
  | _, _ => false

/-- region of module (i,j) (row, column) in a symbol of version v -/
def kind (v : Int) (i j : Nat) : Kind :=
  let n := size v
  if isMicro v then
    if i < 7 && j < 7 then .finder
    else if (i == 7 && j ≤ 7) || (j == 7 && i ≤ 7) then .separator
    else if i == 0 || j == 0 then .timing
    else if (i == 8 && 1 ≤ j && j ≤ 8) || (j == 8 && 1 ≤ i && i ≤ 8) then .format
    else .data
  else
    if (i < 7 && j < 7) || (i < 7 && j + 7 ≥ n) || (i + 7 ≥ n && j < 7) then .finder
    else if (i ≤ 7 && j ≤ 7) || (i ≤ 7 && j + 8 ≥ n) || (i + 8 ≥ n && j ≤ 7) then .separator
    else if i + 8 == n && j == 8 then .darkmodule
    else if (i == 8 && (j ≤ 8 || j + 8 ≥ n)) || (j == 8 && (i ≤ 8 || i + 8 ≥ n)) then
      (if i == 6 || j == 6 then .timing else .format)
    else if v ≥ 7 && ((i < 6 && n - 11 ≤ j && j + 9 ≤ n) || (j < 6 && n - 11 ≤ i && i + 9 ≤ n)) then .version
    else if inAlignment v.toNat n i j then .alignment
    else if i == 6 || j == 6 then .timing
    else .data

def isData (v : Int) (i j : Nat) : Bool := kind v i j == .data

/-- dark/light value of a 7×7 finder at local coordinates -/
def finderBit (a b : Nat) : Nat :=
  if a == 0 || a == 6 || b == 0 || b == 6 then 1
  else if inRange a 2 4 && inRange b 2 4 then 1 else 0

/-- value of a fixed function-pattern module (finder, separator, timing, alignment, dark module);
    `none` for format/version/data cells, whose value depends on the symbol -/
def fixedValue (v : Int) (i j : Nat) : Option Nat :=
  let n := size v
  match kind v i j with
  | .finder =>
      let a := if i < 7 then i else i - (n - 7)
      let b := if j < 7 then j else j - (n - 7)
      some (finderBit a b)
  | .separator => some 0
  | .timing => some (if isMicro v then (if i == 0 then (j + 1) % 2 else (i + 1) % 2)
                     else (if i == 6 then (j + 1) % 2 else (i + 1) % 2))
  | .alignment =>
      -- distance to the nearest centre decides: ring (2) dark, inner ring (1) light, centre dark
      let pos := annexE v.toNat
      let d (c : Nat) (x : Nat) : Nat := if c ≥ x then c - x else x - c
      let di := (pos.map (d i)).foldl min 1000
      let dj := (pos.map (d j)).foldl min 1000
      some (if max di dj == 1 then 0 else 1)
  | .darkmodule => some 1
  | _ => none

/-- ISO Table 10 data mask conditions (i = row, j = column); QR pattern numbers -/
def maskCond (p i j : Nat) : Bool :=
  match p with
  | 0 => (i + j) % 2 == 0
  | 1 => i % 2 == 0
  | 2 => j % 3 == 0
  | 3 => (i + j) % 3 == 0
  | 4 => (i / 2 + j / 3) % 2 == 0
  | 5 => (i * j) % 2 + (i * j) % 3 == 0
  | 6 => ((i * j) % 2 + (i * j) % 3) % 2 == 0
  | 7 => ((i + j) % 2 + (i * j) % 3) % 2 == 0
  | _ => false

/-- Micro QR pattern numbers 0..3 are QR patterns 1, 4, 6, 7 -/
def microMaskToQR (p : Nat) : Nat := match p with | 0 => 1 | 1 => 4 | 2 => 6 | _ => 7

def maskBit (v : Int) (p i j : Nat) : Nat :=
  if maskCond (if isMicro v then microMaskToQR p else p) i j then 1 else 0

/-! ### module type codes reported by `matrix_iter(verbose=True)` (public constants of segno) -/
def typeCode (k : Kind) (value : Nat) : Nat :=
  let dark := value != 0
  match k with
  | .finder => if dark then 6 <<< 8 else 6
  | .separator => 8
  | .alignment => if dark then 10 <<< 8 else 10
  | .timing => if dark then 12 <<< 8 else 12
  | .format => if dark then 14 <<< 8 else 14
  | .version => if dark then 16 <<< 8 else 16
  | .darkmodule => 512
  | .data => if dark then 4 <<< 8 else 4
def typeQuietZone : Nat := 18

end Spec
