/-
  Spec.Decode — an ISO/IEC 18004 reference *reader*: format / version information, unmasking,
  zig-zag module order, de-interleaving by Table 9, Reed-Solomon syndromes, bit stream parser and
  the ISO 7.4.9/7.4.10 tail (terminator, padding bits, pad codewords).  Nothing here is taken from
  segno except the frozen tables in Spec.Tables.
-/
import Spec.GF
import Spec.Geometry
import Spec.Tables

namespace Spec

abbrev Matrix := Array (Array Nat)

def cell (m : Matrix) (i j : Nat) : Nat := (m.getD i #[]).getD j 0

def lookup2 {α : Type} (t : List (Int × Int × α)) (a b : Int) : Option α :=
  (t.find? (fun x => x.1 == a && x.2.1 == b)).map (·.2.2)

def eccOf (v lvl : Int) : Option (List (Nat × Nat × Nat)) := lookup2 eccTable v lvl
def capacityOf (v lvl : Int) : Option Nat := lookup2 capacityTable v lvl

/-- version class used by Table 3 -/
def verClass (v : Int) : Int := if v < 1 then v else if v < 10 then 1 else if v < 27 then 2 else 3

def cciBits (mode : Nat) (v : Int) : Option Nat :=
  (cciTable.find? (fun x => x.1 == mode && x.2.1 == verClass v)).map (·.2.2)

/-- terminator length: 4 for QR, 3/5/7/9 for M1..M4 -/
def terminatorLen (v : Int) : Nat := if v > 0 then 4 else (2 * (v + 4) + 1).toNat

/-- mode indicator length: 4 for QR, 0..3 for M1..M4 -/
def modeBits (v : Int) : Nat := if v > 0 then 4 else (v + 3).toNat

def fourBitFinal (v : Int) : Bool := v == -3 || v == -1

/-- remainder bits: modules of the encoding region not covered by codewords -/
def remainderBits (v : Int) : Nat :=
  if 2 ≤ v && v ≤ 6 then 7
  else if (14 ≤ v && v ≤ 20) || (28 ≤ v && v ≤ 34) then 3
  else if 21 ≤ v && v ≤ 27 then 4 else 0

/-! ### format and version information -/

def bitsToNat (bs : List Nat) : Nat := bs.foldl (fun acc b => acc * 2 + b) 0

def natToBits (w n : Nat) : List Nat := (List.range w).map (fun k => (n >>> (w - 1 - k)) % 2)

/-- Micro symbol number → (version, level) -/
def microSymbol (s : Nat) : Int × Int :=
  match s with
  | 0 => (-3, -1) | 1 => (-2, 1) | 2 => (-2, 0) | 3 => (-1, 1)
  | 4 => (-1, 0) | 5 => (0, 1) | 6 => (0, 0) | _ => (0, 3)

def microSymbolNumber (v lvl : Int) : Option Nat :=
  (List.range 8).find? (fun s => microSymbol s == (v, lvl))

/-- coordinates (row, col) of format bit k (0 = least significant), first copy, QR -/
def fmtPos1 (k : Nat) : Nat × Nat :=
  if k < 6 then (k, 8) else if k == 6 then (7, 8) else if k == 7 then (8, 8)
  else if k == 8 then (8, 7) else (8, 14 - k)

/-- second copy, QR, symbol size n -/
def fmtPos2 (n k : Nat) : Nat × Nat :=
  if k < 8 then (8, n - 1 - k) else (n - 15 + k, 8)

/-- Micro: bit k at (k+1, 8) for k < 8, bits 8..14 at (8, 15-k) -/
def fmtPosMicro (k : Nat) : Nat × Nat := if k < 8 then (k + 1, 8) else (8, 15 - k)

def readWord (m : Matrix) (pos : Nat → Nat × Nat) (w : Nat) : Nat :=
  (List.range w).foldl (fun acc k => let p := pos k; acc + (cell m p.1 p.2) * 2 ^ k) 0

/-- version information: bit k (0 = lsb) at (k / 3, n - 11 + k % 3) and transposed -/
def verPos1 (n k : Nat) : Nat × Nat := (k / 3, n - 11 + k % 3)
def verPos2 (n k : Nat) : Nat × Nat := (n - 11 + k % 3, k / 3)

structure Header where
  version : Int
  level : Int      -- -1 = none (M1); otherwise the ISO indicator bits L=1 M=0 Q=3 H=2
  mask : Nat
  deriving Repr, BEq, Inhabited

/-- Reads size, both format copies, version information.  Returns an error text or the header. -/
def readHeader (m : Matrix) : Except String Header := do
  let n := m.size
  if !(m.all (fun r => r.size == n)) then throw "not-square"
  if !(m.all (fun r => r.all (fun x => x ≤ 1))) then throw "non-binary-module"
  if n < 21 then
    if !(n == 11 || n == 13 || n == 15 || n == 17) then throw "bad-size"
    let w := readWord m fmtPosMicro 15 ^^^ 0x4445
    let d := w >>> 10
    if bch15 d != w then throw "micro-format-not-bch"
    let (v, lvl) := microSymbol (d >>> 2)
    if size v != n then throw "micro-format-version-vs-size"
    return { version := v, level := lvl, mask := d % 4 }
  else
    if (n - 17) % 4 != 0 || n > 177 then throw "bad-size"
    let v := (n - 17) / 4
    let w1 := readWord m fmtPos1 15
    let w2 := readWord m (fmtPos2 n) 15
    if w1 != w2 then throw "format-copies-differ"
    if cell m (n - 8) 8 != 1 then throw "dark-module-missing"
    let w := w1 ^^^ 0x5412
    let d := w >>> 10
    if bch15 d != w then throw "format-not-bch"
    if v ≥ 7 then
      let a := readWord m (verPos1 n) 18
      let b := readWord m (verPos2 n) 18
      if a != golay18 v then throw "version-info-1-wrong"
      if b != golay18 v then throw "version-info-2-wrong"
    return { version := (v : Int), level := ((d >>> 3 : Nat) : Int), mask := d % 8 }

/-- every fixed function module (finder, separator, timing, alignment, dark module) has its ISO value -/
def functionPatternsOk (v : Int) (m : Matrix) : Option (Nat × Nat) :=
  let n := size v
  (List.range n).findSome? (fun i => (List.range n).findSome? (fun j =>
    match fixedValue v i j with
    | some x => if cell m i j == x then none else some (i, j)
    | none => none))

/-! ### module order -/

/-- columns (right column of each two-module strip), right to left; QR skips the timing column 6 -/
def stripColumns (v : Int) : List Nat :=
  let n := size v
  let rec go (fuel c : Nat) (acc : List Nat) : List Nat :=
    match fuel with
    | 0 => acc.reverse
    | f + 1 =>
      if c == 0 then acc.reverse else
      let c' := if !isMicro v && c == 6 then 5 else c
      go f (c' - 2) (c' :: acc)
  go n (n - 1) []

/-- the zig-zag placement order of ISO 7.7.3: all data modules, first upwards in the rightmost strip -/
def dataCoords (v : Int) : List (Nat × Nat) :=
  let n := size v
  let cols := stripColumns v
  (cols.zipIdx.map (fun (c, k) =>
    let rows := if k % 2 == 0 then (List.range n).reverse else List.range n
    (rows.map (fun i => [(i, c), (i, c - 1)])).flatten)).flatten.filter (fun p => isData v p.1 p.2)

/-- unmasked bits of the encoding region in placement order -/
def readDataBits (v : Int) (mask : Nat) (m : Matrix) : List Nat :=
  (dataCoords v).map (fun p => (cell m p.1 p.2 + maskBit v mask p.1 p.2) % 2)

/-! ### codewords and blocks -/

def chunk8 : Nat → List Nat → List Nat
  | 0, _ => []
  | _, [] => []
  | f + 1, bs => bitsToNat (bs.take 8) :: chunk8 f (bs.drop 8)

def blockShapes (ecc : List (Nat × Nat × Nat)) : List (Nat × Nat) :=
  (ecc.map (fun e => List.replicate e.1 (e.2.2, e.2.1 - e.2.2))).flatten

/-- inverse of "round-robin over blocks, shorter blocks first": distributes `cws` to blocks of the
    given lengths -/
def deinterleave (lens : List Nat) (cws : List Nat) : List (List Nat) :=
  let maxLen := lens.foldl max 0
  -- order of (block index) in the interleaved stream
  let order := ((List.range maxLen).map (fun r =>
      (lens.zipIdx.filter (fun (l, _) => r < l)).map (fun (_, b) => b))).flatten
  let tagged := order.zip cws
  (List.range lens.length).map (fun b => (tagged.filter (fun (x, _) => x == b)).map (·.2))

structure Blocks where
  data : List (List Nat)
  ec : List (List Nat)
  remainder : List Nat
  deriving Repr, Inhabited

/-- splits the bit sequence of the encoding region into data blocks, EC blocks and remainder bits -/
def splitBlocks (v lvl : Int) (bits : List Nat) : Except String Blocks := do
  let some ecc := eccOf v lvl | throw "no-table9-entry"
  let shapes := blockShapes ecc
  let nData := (shapes.map (·.1)).foldl (· + ·) 0
  let nEc := (shapes.map (·.2)).foldl (· + ·) 0
  let four := fourBitFinal v
  let dataBitsLen := nData * 8 - (if four then 4 else 0)
  let total := dataBitsLen + nEc * 8
  if bits.length < total then throw s!"too-few-data-modules {bits.length} < {total}"
  let rem := bits.drop total
  if rem.length != remainderBits v then throw s!"remainder-count {rem.length}"
  let dbits := bits.take dataBitsLen
  let ebits := (bits.drop dataBitsLen).take (nEc * 8)
  let dcw := if four then chunk8 nData (dbits ++ [0, 0, 0, 0]) else chunk8 nData dbits
  let ecw := chunk8 nEc ebits
  return { data := deinterleave (shapes.map (·.1)) dcw,
           ec := deinterleave (shapes.map (·.2)) ecw,
           remainder := rem }

/-- number of blocks whose syndromes are not all zero -/
def badBlocks (b : Blocks) : Nat :=
  ((b.data.zip b.ec).filter (fun (d, e) => !validCodeword (d ++ e) e.length)).length

/-- the data bit stream (capacity bits): all data codewords in block order, last 4 bits dropped for M1/M3 -/
def dataStream (v : Int) (b : Blocks) : List Nat :=
  let bits := (b.data.flatten.map (natToBits 8)).flatten
  if fourBitFinal v then bits.take (bits.length - 4) else bits

/-! ### bit stream parser -/

structure Segment where
  mode : Nat               -- ISO QR mode indicator value: 1 numeric, 2 alnum, 4 byte, 8 kanji, 13 hanzi
  eci : Option Nat         -- ECI designator that immediately preceded this segment
  count : Nat              -- character count
  bytes : List Nat
  deriving Repr, BEq, Inhabited

structure Parsed where
  sa : Option (Nat × Nat × Nat)   -- structured append: index, total-1, parity
  segments : List Segment
  endPos : Nat                    -- number of stream bits consumed by headers and segments
  deriving Repr, Inhabited

def alnumChars : List Char := "0123456789ABCDEFGHIJKLMNOPQRSTUVWXYZ $%*+-./:".toList

def takeBits (st : List Nat) (pos k : Nat) : Option (Nat × Nat) :=
  if pos + k ≤ st.length then some (bitsToNat ((st.drop pos).take k), pos + k) else none

def digits (w n : Nat) : List Nat := (List.range w).map (fun k => 48 + (n / 10 ^ (w - 1 - k)) % 10)

def microModeToQR (mi : Nat) : Nat := match mi with | 0 => 1 | 1 => 2 | 2 => 4 | _ => 8

/-- parse `n` characters of `mode` starting at `pos`; returns bytes and the new position -/
def parseChars (st : List Nat) (mode : Nat) : Nat → Nat → List Nat → Except String (List Nat × Nat)
  | 0, pos, acc => .ok (acc, pos)
  | n + 1, pos, acc =>
    match mode with
    | 1 =>
      if n + 1 ≥ 3 then
        match takeBits st pos 10 with
        | some (x, p) => if x < 1000 then
            (match n with
             | k + 2 => parseChars st mode k p (acc ++ digits 3 x)
             | _ => .error "impossible")
          else .error "numeric-group-ge-1000"
        | none => .error "overrun"
      else if n + 1 == 2 then
        match takeBits st pos 7 with
        | some (x, p) => if x < 100 then .ok (acc ++ digits 2 x, p) else .error "numeric-group-ge-100"
        | none => .error "overrun"
      else
        match takeBits st pos 4 with
        | some (x, p) => if x < 10 then .ok (acc ++ digits 1 x, p) else .error "numeric-group-ge-10"
        | none => .error "overrun"
    | 2 =>
      if n + 1 ≥ 2 then
        match takeBits st pos 11 with
        | some (x, p) => if x < 2025 then
            (match n with
             | k + 1 => parseChars st mode k p
                 (acc ++ [(alnumChars.getD (x / 45) ' ').toNat, (alnumChars.getD (x % 45) ' ').toNat])
             | _ => .error "impossible")
          else .error "alnum-group-ge-2025"
        | none => .error "overrun"
      else
        match takeBits st pos 6 with
        | some (x, p) => if x < 45 then .ok (acc ++ [(alnumChars.getD x ' ').toNat], p) else .error "alnum-ge-45"
        | none => .error "overrun"
    | 4 =>
      match takeBits st pos 8 with
      | some (x, p) => parseChars st mode n p (acc ++ [x])
      | none => .error "overrun"
    | 8 =>
      match takeBits st pos 13 with
      | some (x, p) =>
        let t := (x / 0xC0) * 256 + x % 0xC0
        let code := if t + 0x8140 ≤ 0x9ffc then t + 0x8140 else t + 0xc140
        parseChars st mode n p (acc ++ [code / 256, code % 256])
      | none => .error "overrun"
    | 13 =>
      match takeBits st pos 13 with
      | some (x, p) =>
        let t := (x / 0x60) * 256 + x % 0x60
        let code := if t + 0xa1a1 ≤ 0xaafe then t + 0xa1a1 else t + 0xa6a1
        parseChars st mode n p (acc ++ [code / 256, code % 256])
      | none => .error "overrun"
    | _ => .error s!"unknown-mode {mode}"
termination_by n => n
decreasing_by all_goals omega

def allZero (l : List Nat) : Bool := l.all (· == 0)

/-- Parses the data bit stream of a symbol of version `v`. Stops at the terminator (or a truncated
    terminator at the end of the capacity). -/
def parseStream (v : Int) (st : List Nat) : Except String Parsed :=
  let tlen := terminatorLen v
  let mb := modeBits v
  let rec go (fuel pos : Nat) (eci : Option Nat) (sa : Option (Nat × Nat × Nat)) (acc : List Segment) :
      Except String Parsed :=
    match fuel with
    | 0 => .error "parser-fuel"
    | f + 1 =>
      let rem := st.length - pos
      if rem == 0 || allZero ((st.drop pos).take (min rem tlen)) then
        if eci.isSome then .error "dangling-eci" else .ok { sa := sa, segments := acc, endPos := pos }
      else
        match takeBits st pos mb with
        | none => .error "overrun-mode"
        | some (mi, p) =>
          if v > 0 && mi == 3 then
            match takeBits st p 16 with
            | some (x, p2) =>
              if sa.isSome || !acc.isEmpty then .error "structured-append-not-first"
              else go f p2 eci (some (x / 4096, (x / 256) % 16, x % 256)) acc
            | none => .error "overrun-sa"
          else if v > 0 && mi == 7 then
            match takeBits st p 8 with
            | some (x, p2) => if x < 128 then go f p2 (some x) sa acc else .error "eci-multibyte"
            | none => .error "overrun-eci"
          else
            let mode := if v > 0 then mi else microModeToQR mi
            let hdr : Except String Nat :=
              if mode == 13 then
                match takeBits st p 4 with
                | some (s, p2) => if s == 1 then .ok p2 else .error "hanzi-subset"
                | none => .error "overrun-subset"
              else .ok p
            match hdr with
            | .error e => .error e
            | .ok p1 =>
              match cciBits mode v with
              | none => .error s!"mode-{mode}-not-in-version"
              | some w =>
                match takeBits st p1 w with
                | none => .error "overrun-count"
                | some (cnt, p2) =>
                  match parseChars st mode cnt p2 [] with
                  | .error e => .error e
                  | .ok (bytes, p3) =>
                    go f p3 none sa (acc ++ [{ mode := mode, eci := eci, count := cnt, bytes := bytes }])
  go (st.length + 2) 0 none none []

/-! ### ISO 7.4.9 / 7.4.10: what must follow the last segment -/

def padCodewords : Nat → List Nat
  | 0 => []
  | n + 1 => padCodewords n ++ (if n % 2 == 0 then [1,1,1,0,1,1,0,0] else [0,0,0,1,0,0,0,1])

/-- the tail prescribed by ISO after `len` bits of segments in a symbol with `cap` data bits:
    terminator, zero bits to the codeword boundary (only if needed), alternating pad codewords,
    final 0000 nibble in M1/M3 -/
def isoTail (v : Int) (cap len : Nat) : List Nat :=
  let t := min (cap - len) (terminatorLen v)
  let l1 := len + t
  let full := if fourBitFinal v then cap - 4 else cap   -- bits in whole 8-bit codewords
  if l1 ≥ full then List.replicate (cap - len) 0
  else
    let a := (8 - l1 % 8) % 8
    let l2 := l1 + a
    List.replicate (t + a) 0 ++ padCodewords ((full - l2) / 8) ++ List.replicate (cap - full) 0

/-- trigger of known finding D1: not M1/M3, the terminated stream is already codeword-aligned and
    shorter than the capacity -/
def d1Trigger (v : Int) (cap len : Nat) : Bool :=
  let l1 := len + min (cap - len) (terminatorLen v)
  !fourBitFinal v && l1 % 8 == 0 && l1 < cap

/-- the deviation of pinned segno recorded as known finding D1 (write_padding_bits appends a whole
    zero codeword when the terminated stream is already codeword-aligned) -/
def d1Tail (v : Int) (cap len : Nat) : List Nat :=
  let t := min (cap - len) (terminatorLen v)
  let l1 := len + t
  if fourBitFinal v || l1 % 8 != 0 || l1 ≥ cap then isoTail v cap len
  else List.replicate (t + 8) 0 ++ padCodewords ((cap - l1 - 8) / 8)

/-! ### everything at once -/

structure Decoded where
  header : Header
  fnBad : Option (Nat × Nat)
  blocks : Blocks
  badBlocks : Nat
  stream : List Nat
  parsed : Except String Parsed

def decode (m : Matrix) : Except String Decoded := do
  let h ← readHeader m
  let bits := readDataBits h.version h.mask m
  let b ← splitBlocks h.version h.level bits
  let st := dataStream h.version b
  return { header := h, fnBad := functionPatternsOk h.version m, blocks := b, badBlocks := badBlocks b,
           stream := st, parsed := parseStream h.version st }

end Spec
