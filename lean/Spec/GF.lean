/-
  Spec.GF — GF(256) of ISO/IEC 18004 (x^8+x^4+x^3+x^2+1 = 0x11d), defined from first principles
  (shift-and-xor), independent of segno's log/antilog tables.  Bytes are `Nat`s < 256.
-/
namespace Spec

/-- multiply by x (= α = 2) modulo 0x11d -/
def xtime (a : Nat) : Nat := if a * 2 ≥ 256 then (a * 2) ^^^ 0x11d else a * 2

def gmulAux : Nat → Nat → Nat → Nat → Nat
  | 0, _, _, acc => acc
  | f + 1, a, b, acc => gmulAux f (xtime a) (b / 2) (if b % 2 = 1 then acc ^^^ a else acc)

/-- product in GF(256) by shift-and-xor (Russian peasant), 8 rounds -/
def gmul (a b : Nat) : Nat := gmulAux 8 a b 0

/-- α^i -/
def alphaPow : Nat → Nat
  | 0 => 1
  | i + 1 => xtime (alphaPow i)

/-- Horner evaluation of a polynomial given by its coefficients, highest degree first -/
def evalPoly (cs : List Nat) (x : Nat) : Nat := cs.foldl (fun acc c => gmul acc x ^^^ c) 0

/-- (coefficients high→low) * (x + r) -/
def mulLinear (p : List Nat) (r : Nat) : List Nat :=
  let a := p ++ [0]                       -- p * x
  let b := 0 :: p.map (fun c => gmul c r) -- p * r
  List.zipWith (· ^^^ ·) a b

/-- generator polynomial ∏_{i<n} (x - α^i), monic, high→low, n+1 coefficients -/
def genPoly : Nat → List Nat
  | 0 => [1]
  | n + 1 => mulLinear (genPoly n) (alphaPow n)

/-- all syndromes S_0..S_{n-1} of a codeword (data ++ ec, high→low) -/
def syndromes (cw : List Nat) (n : Nat) : List Nat :=
  (List.range n).map (fun i => evalPoly cw (alphaPow i))

def validCodeword (cw : List Nat) (n : Nat) : Bool := (syndromes cw n).all (· == 0)

/-! ### BCH(15,5) and (18,6) Golay remainders by polynomial division over GF(2) -/

/-- reduce `v` modulo generator `g` whose degree is `top`, examining bit positions top+k-1 … top -/
def gf2Rem (g top : Nat) : Nat → Nat → Nat
  | 0, v => v
  | k + 1, v => gf2Rem g top k (if v.testBit (k + top) then v ^^^ (g <<< k) else v)

/-- 15-bit BCH codeword (unmasked) of 5 data bits, generator 0x537 -/
def bch15 (d : Nat) : Nat := (d <<< 10) ||| gf2Rem 0x537 10 5 (d <<< 10)

/-- 18-bit Golay codeword of 6 data bits, generator 0x1F25 -/
def golay18 (d : Nat) : Nat := (d <<< 12) ||| gf2Rem 0x1f25 12 6 (d <<< 12)

def formatWordQR (levelBits mask : Nat) : Nat := bch15 (levelBits * 8 + mask) ^^^ 0x5412
def formatWordMicro (symbolNumber mask : Nat) : Nat := bch15 (symbolNumber * 4 + mask) ^^^ 0x4445

end Spec
