/-
  Spec.RasterJudge — judge commands of C09 (`c09`) and C11 (`c11v`, `c11i`, `c11c`): evaluate the
  properties, as written in Spec.Raster / Spec.Geometry, on what the real code returned.
-/
import Spec.Raster

namespace Spec.Raster

open Spec

/-- scale / border handling common to all commands.  Returns `.error verdict` when the verdict
    is already decided (refusal expected / wrongly refused / wrongly accepted), else (s, b). -/
def admission (r : Req) (n : Nat) (extraRefusal : Option String := none) : Except String (Nat × Nat) := do
  let outcome := r.getD "outcome" "ok"
  let some sc := parseDec (r.getD "scale" "1") | throw "request-scale-unreadable"
  let bd ← match r.getD "border" "-" with
    | "-" => pure none
    | t => match parseDec t with | some d => pure (some d) | none => throw "request-border-unreadable"
  let refusal : Option String :=
    match effectiveScale sc, effectiveBorder n bd with
    | none, _ => some "scale-below-1"
    | _, none => some "border-negative-or-fractional"
    | some _, some _ => extraRefusal
  match refusal with
  | some why =>
    if outcome == "ValueError" then throw "ok"
    else if outcome == "ok" then throw s!"accepted-although-{why}"
    else throw s!"raised-{outcome}-instead-of-ValueError-for-{why}"
  | none =>
    if outcome != "ok" then throw s!"raised-{outcome}-for-valid-arguments"
    match effectiveScale sc, effectiveBorder n bd with
    | some s, some b => pure (s, b)
    | _, _ => throw "unreachable"

def colourArg (r : Req) (key : String) (dflt : ColExp) : Except String ColExp :=
  match r.get key with
  | none => pure dflt
  | some t => match parseColourArg t with | some c => pure c | none => throw s!"invalid-colour-{key}"

def textOfHex (h : String) : Except String String :=
  match String.fromUTF8? (byteArrayOfHex h) with
  | some s => pure s
  | none => throw "file-not-utf8"

/-- decodes the file of format `fmt` -/
def decode (r : Req) (fmt : String) : Except String Img := do
  let file := byteArrayOfHex (r.getD "file" "")
  let name := stringOfHex (r.getD "name" "696d67")
  match fmt with
  | "png" => do
    if r.getD "idaterr" "0" != "0" then throw "png-idat-is-not-one-zlib-stream"
    let p ← readPng file (byteArrayOfHex (r.getD "idat" ""))
    -- resolution, if requested: pixels per metre = dpi / 0.0254 (within one unit), both axes
    match (r.get "dpi").bind String.toNat? with
    | some dpi =>
      if dpi != 0 then
        match p.phys with
        | none => throw "png-phys-missing"
        | some (px, py, unit) =>
          let want := dpi * 10000
          let diff (v : Nat) : Nat := if v * 254 ≥ want then v * 254 - want else want - v * 254
          if unit != 1 || px != py || diff px > 254 then throw s!"png-phys-{px}-{py}-{unit}-for-dpi-{dpi}"
    | none => pure ()
    pure p.img
  | "pbm" => readPbm file
  | "ppm" => readPpm file
  | "pam" => readPam file
  | "xbm" => do readXbm (← textOfHex (r.getD "file" "")) name
  | "xpm" => do readXpm (← textOfHex (r.getD "file" "")) name
  | "ans" => do readAnsi (← textOfHex (r.getD "file" ""))
  | "compact" => do readCompact (← textOfHex (r.getD "file" ""))
  | _ => throw s!"unknown-format-{fmt}"

def hasColours (fmt : String) : Bool := fmt == "png" || fmt == "ppm" || fmt == "pam" || fmt == "xpm"

def judgeC09 (r : Req) : String :=
  let id := r.getD "id" "?"
  let M := parseMatrix (r.getD "m" "")
  let n := M.size
  let fmt := r.getD "fmt" ""
  let res : Except String String := do
    if versionOfSize n == none || M.any (fun row => row.size != n) then throw "request-matrix-is-not-a-symbol"
    -- colours (only formats with colour options); an unreadable colour has to be refused
    let (dark, light, badColour) ←
      if hasColours fmt then
        match colourArg r "dark" (.exact black), colourArg r "light" (.exact white) with
        | .ok d, .ok l => pure (d, l, (none : Option String))
        | .error e, _ => pure (ColExp.exact black, ColExp.exact white, some e)
        | _, .error e => pure (ColExp.exact black, ColExp.exact white, some e)
      else pure (ColExp.exact black, ColExp.exact white, none)
    let (s, b) ← admission r n badColour
    let W := (n + 2 * b) * s
    if fmt == "txt" then
      -- one cell per module: the configured strings for dark and light modules, one line per row
      let text ← textOfHex (r.getD "file" "")
      let d := stringOfHex (r.getD "tdark" "31")
      let l := stringOfHex (r.getD "tlight" "30")
      let some lines := linesTerminated text | throw "txt-last-line-not-terminated"
      if lines.length != W then throw s!"txt-{lines.length}-lines-expected-{W}"
      for (line, y) in lines.zipIdx do
        let want := String.join ((List.range W).map (fun x => if pixelOf (cellA M) s b x y != 0 then d else l))
        if line != want then throw s!"txt-line-{y}-differs"
      pure "ok info=txt"
    else
      let img ← decode r fmt
      let H := if fmt == "compact" then W + W % 2 else W
      let cls (x y : Nat) : Nat := if pixelOf (cellA M) s b x y != 0 then 1 else 0
      if fmt == "compact" && img.h == H && H != W then
        -- the lower half of the last line lies outside the picture: it has to be uniform
        let v := img.sample 0 (H - 1)
        if (List.range W).any (fun x => img.sample x (H - 1) != v) then throw "compact-padding-row-not-uniform"
      let img' : Img := if fmt == "compact" && img.h == H then { img with h := W } else img
      let (verdict, _) := comparePixels img' W W cls #[light, dark]
      if verdict != "ok" then throw verdict
      pure s!"ok info={img.info.replace " " ","}"
  match res with
  | .ok v => s!"id={id} c09={v}"
  | .error "ok" => s!"id={id} c09=ok info=refused"
  | .error e => s!"id={id} c09={e.replace " " "_"}"

/-! ### C11 -/

/-- rows of integers `a,b,c/d,e,f` -/
def parseIntRows (s : String) : Array (Array Nat) :=
  if s == "" then #[] else
  ((s.splitOn "/").map (fun row => ((row.splitOn ",").map (fun t => t.toNat?.getD 999999)).toArray)).toArray

/-- the module (8, n−9) of a QR Code, where the pinned code reports format information (D8) -/
def isD8Module (v : Int) (n i j : Nat) : Bool := v ≥ 1 && i == 8 && j + 9 == n

def judgeC11v (r : Req) : String :=
  let id := r.getD "id" "?"
  let M := parseMatrix (r.getD "m" "")
  let n := M.size
  let res : Except String String := do
    let some v := versionOfSize n | throw "request-matrix-is-not-a-symbol"
    if M.any (fun row => row.size != n) then throw "request-matrix-is-not-a-symbol"
    let (s, b) ← admission r n
    let W := (n + 2 * b) * s
    let rows := parseIntRows (r.getD "rows" "")
    if rows.size != W then throw s!"rows-{rows.size}-expected-{W}"
    let mut d8 := 0
    for y in [0:W] do
      let row := rows.getD y #[]
      if row.size != W then throw s!"row-{y}-length-{row.size}-expected-{W}"
      for x in [0:W] do
        let want := typeAt v n (cellA M) s b x y
        let got := row.getD x 0
        if got != want then
          let i := y / s - b
          let j := x / s - b
          if b ≤ y / s && b ≤ x / s && isD8Module v n i j && got == typeCode .format (cellA M i j) then d8 := d8 + 1
          else throw s!"cell-x{x}-y{y}-module-{(y / s : Int) - b}-{(x / s : Int) - b}-reported-{got}-expected-{want}"
    pure (if d8 > 0 then "d8" else "ok")
  match res with
  | .ok v => s!"id={id} c11={v}"
  | .error "ok" => s!"id={id} c11=ok info=refused"
  | .error e => s!"id={id} c11={e}"

def judgeC11i (r : Req) : String :=
  let id := r.getD "id" "?"
  let M := parseMatrix (r.getD "m" "")
  let n := M.size
  let res : Except String String := do
    if versionOfSize n == none || M.any (fun row => row.size != n) then throw "request-matrix-is-not-a-symbol"
    let (s, b) ← admission r n
    let W := (n + 2 * b) * s
    let rows := parseMatrix (r.getD "rows" "")
    let rows := if r.getD "rows" "" == "" then #[] else rows
    if rows.size != W then throw s!"rows-{rows.size}-expected-{W}"
    for y in [0:W] do
      let row := rows.getD y #[]
      if row.size != W then throw s!"row-{y}-length-{row.size}-expected-{W}"
      for x in [0:W] do
        if row.getD x 9 != pixelOf (cellA M) s b x y then
          throw s!"cell-x{x}-y{y}-reported-{row.getD x 9}-expected-{pixelOf (cellA M) s b x y}"
    pure "ok"
  match res with
  | .ok v => s!"id={id} c11={v}"
  | .error "ok" => s!"id={id} c11=ok info=refused"
  | .error e => s!"id={id} c11={e}"

/-- the 15 module types with the name of their colour option -/
def typeOptions : List (Nat × String) :=
  [(6, "finder_light"), (6 <<< 8, "finder_dark"), (8, "separator"), (10, "alignment_light"), (10 <<< 8, "alignment_dark"),
   (12, "timing_light"), (12 <<< 8, "timing_dark"), (14, "format_light"), (14 <<< 8, "format_dark"),
   (16, "version_light"), (16 <<< 8, "version_dark"), (512, "dark_module"), (4, "data_light"), (4 <<< 8, "data_dark"),
   (18, "quiet_zone")]

def classOfType (t : Nat) : Nat := typeOptions.findIdx (·.1 == t)

/-- colour expected for each module type: the colour configured for the type, else dark / light -/
def expectedColours (r : Req) (dark light : ColExp) : Except String (Array ColExp) := do
  let mut out : Array ColExp := #[]
  for (t, name) in typeOptions do
    let c ← colourArg r ("o." ++ name) (if isDarkType t then dark else light)
    out := out.push c
  return out


def hexField (t : String) : Option String := if t == "-" || t == "" then none else some (stringOfHex t)

/-- colourful SVG: the paths (container parsing by the harness: XML attributes in document order)
    are painted onto the module grid; every module has to show the colour of its type -/
def judgeSvg (r : Req) (v : Int) (n : Nat) (M : Matrix) (s b : Nat) (exps : Array ColExp) : Except String String := do
  let W := n + 2 * b
  if (r.get "svgerr").isSome then throw "svg-not-well-formed-xml"
  let scaleText := r.getD "scale" "1"
  let wantTransform : Option String := if s == 1 && (parseDec scaleText).map (·.fracNonZero) == some false then none else some s!"scale({scaleText})"
  -- page size (integral scales): (n + 2b)·s
  if (parseDec scaleText).map (·.fracNonZero) == some false then
    let want := toString (W * s)
    match hexField (r.getD "svgw" "-"), hexField (r.getD "svgh" "-") with
    | some w, some h => if w != want || h != want then throw s!"svg-size-{w}x{h}-expected-{want}"
    | _, _ => pure ()
  let gt := hexField (r.getD "gt" "-")
  let mut grid : Array (Option SvgPaint) := Array.replicate (W * W) none
  let entries := if r.getD "paths" "" == "" then [] else (r.getD "paths" "").splitOn "|"
  for e in entries do
    match (e.splitOn ";").map hexField with
    | [stroke, sop, fill, fop, tr, some d] =>
      let eff := match tr, gt with | some t, _ => some t | none, g => g
      if eff != wantTransform && !(wantTransform == none && eff == some "scale(1)") then
        throw s!"svg-transform-{eff.getD "none"}-expected-{wantTransform.getD "none"}"
      let some cmds := svgCommands d | throw "svg-path-data-unreadable"
      let paintOf (col op : Option String) : Except String SvgPaint := do
        let some c := col | throw "svg-path-without-colour"
        let some rgba := parseColourString c | throw s!"svg-colour-{c}"
        let o ← match op with
          | none => pure 1000
          | some t => match parseMilli t with
            | some k => if 0 ≤ k && k ≤ 1000 then pure k.toNat else throw s!"svg-opacity-{t}"
            | none => throw s!"svg-opacity-{t}"
        pure { r := rgba.r, g := rgba.g, b := rgba.b, opacity := o * rgba.a / 255 }
      match stroke, fill with
      | some _, none => grid ← svgStroke cmds W (← paintOf stroke sop) grid
      | none, some _ => grid ← svgFill cmds W (← paintOf fill fop) grid
      | _, _ => throw "svg-path-with-stroke-and-fill-or-neither"
    | _ => throw "request-svg-path-entry"
  let mut altHits := 0
  for i in [0:W] do
    for j in [0:W] do
      let k := classOfType (typeAt v n (cellA M) 1 b j i)
      let got := grid.getD (i * W + j) none
      if !(exps.getD k .transparent).acceptsPaint got then
        let alt := if b ≤ i && b ≤ j && isD8Module v n (i - b) (j - b) then
            some (classOfType (typeCode .format (cellA M (i - b) (j - b)))) else none
        match alt with
        | some k2 =>
          if (exps.getD k2 .transparent).acceptsPaint got then altHits := altHits + 1
          else throw s!"module-{(i : Int) - b}-{(j : Int) - b}-painted-{match got with | some p => p.show | none => "nothing"}-expected-{(exps.getD k .transparent).show}"
        | none =>
          throw s!"module-{(i : Int) - b}-{(j : Int) - b}-painted-{match got with | some p => p.show | none => "nothing"}-expected-{(exps.getD k .transparent).show}"
  pure (if altHits > 0 then s!"d8 info=svg,paths={entries.length}" else s!"ok info=svg,paths={entries.length}")

def judgeC11c (r : Req) : String :=
  let id := r.getD "id" "?"
  let M := parseMatrix (r.getD "m" "")
  let n := M.size
  let fmt := r.getD "fmt" ""
  let res : Except String String := do
    let some v := versionOfSize n | throw "request-matrix-is-not-a-symbol"
    if M.any (fun row => row.size != n) then throw "request-matrix-is-not-a-symbol"
    let colours : Except String (ColExp × ColExp × Array ColExp) := do
      let dark ← colourArg r "dark" (.exact black)
      let light ← colourArg r "light" (if fmt == "svg" then .transparent else .exact white)
      let exps ← expectedColours r dark light
      pure (dark, light, exps)
    let bad := match colours with | .error e => some e | .ok _ => none
    let (s, b) ← admission r n bad
    let (_, _, exps) ← colours
    let W := (n + 2 * b) * s
    if fmt == "svg" then
      return ← judgeSvg r v n M s b exps
    let img ← decode r fmt
    let cls (x y : Nat) : Nat := classOfType (typeAt v n (cellA M) s b x y)
    let alt (x y : Nat) : Option Nat :=
      if b ≤ y / s && b ≤ x / s && isD8Module v n (y / s - b) (x / s - b) then
        some (classOfType (typeCode .format (cellA M (y / s - b) (x / s - b))))
      else none
    let (verdict, altHits) := comparePixels img W W cls exps alt
    if verdict == "ok" then
      pure (if altHits > 0 then s!"d8 info={img.info.replace " " ","}" else s!"ok info={img.info.replace " " ","}")
    else throw verdict
  match res with
  | .ok v => s!"id={id} c11={v}"
  | .error "ok" => s!"id={id} c11=ok info=refused"
  | .error e => s!"id={id} c11={e.replace " " "_"}"

/-- commands of this file; `none` = not mine -/
def handle (cmd : String) (r : Req) : Option String :=
  match cmd with
  | "c09" => some (judgeC09 r)
  | "c11v" => some (judgeC11v r)
  | "c11i" => some (judgeC11i r)
  | "c11c" => some (judgeC11c r)
  | _ => none

end Spec.Raster
