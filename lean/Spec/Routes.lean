/-
  Spec.Routes — judge commands of property C12 ("all output routes give the same document").

  The property itself is evaluated here, on what the real code wrote:
  * `routes`   : a reference document and the documents produced through the other routes (path with
                 another letter case, stream + kind, data URI after decoding, inline, gunzipped svgz,
                 command line tool) are byte-identical after removing the creation time stamps that
                 EPS, PDF and LaTeX embed.  The only tolerated deviation is the recorded finding D12
                 (SVG data URI: attribute quotes `"` rewritten to `'`), recognised exactly.
  * `seqnames` : a sequence of m symbols saved to `stem.ext` wrote exactly `stem-MM-NN.ext`, NN = 01..m
                 (two digits, total first as documented in `QRCodeSequence.save`); m = 1 keeps the name.
  * `refuse`   : an extension / kind outside the 13 documented kinds is refused with ValueError and a
                 documented kind (any letter case) is not refused.
  Container handling (gunzip, base64, percent-decoding, directory listing) is done by the harness.
-/
import Spec.Judge

namespace Spec.Routes
open Spec

/-- the 13 documented output kinds (12 serialisers + gzip-compressed SVG) -/
def validKinds : List String :=
  ["svg", "svgz", "png", "eps", "txt", "pdf", "ans", "pbm", "pam", "ppm", "tex", "xbm", "xpm"]

def ascii (s : String) : List Nat := s.toList.map Char.toNat

def lowerByte (b : Nat) : Nat := if 65 ≤ b && b ≤ 90 then b + 32 else b

def strOfBytes (bs : List Nat) : String := String.ofList (bs.map Char.ofNat)

/-- lines including their terminating LF -/
def splitLines (bs : List Nat) : List (List Nat) :=
  let (acc, cur) := bs.foldl (fun (st : List (List Nat) × List Nat) b =>
    if b == 10 then ((b :: st.2).reverse :: st.1, []) else (st.1, b :: st.2)) ([], [])
  (if cur.isEmpty then acc else cur.reverse :: acc).reverse

def isPrefix (p l : List Nat) : Bool := l.take p.length == p

/-- index of the first occurrence of `pat` in `l` -/
def findSub (pat : List Nat) : List Nat → Nat → Option Nat
  | [], _ => none
  | l@(_ :: rest), i => if isPrefix pat l then some i else findSub pat rest (i + 1)

def pdfDate : List Nat := ascii "/CreationDate(D:"

/-- PDF: the date between `/CreationDate(D:` and the closing parenthesis is removed -/
def blankPdfDate (line : List Nat) : List Nat :=
  match findSub pdfDate line 0 with
  | none => line
  | some i =>
    let after := (line.drop (i + pdfDate.length)).dropWhile (· != 41)
    line.take (i + pdfDate.length) ++ after

/-- the documented time stamps: `%%CreationDate:` comment (EPS), `% Date:` comment (LaTeX),
    `/CreationDate(D:…)` entry of the information dictionary (PDF) -/
def stripStamp (kind : String) (doc : List Nat) : List Nat :=
  if kind == "eps" then ((splitLines doc).filter (fun l => !isPrefix (ascii "%%CreationDate:") l)).flatten
  else if kind == "tex" then ((splitLines doc).filter (fun l => !isPrefix (ascii "% Date:") l)).flatten
  else if kind == "pdf" then ((splitLines doc).map blankPdfDate).flatten
  else doc

/-- D12: `="…"` with a non-empty value free of `"` becomes `='…'` (attribute quotes), scanning left to
    right without overlap — the rewriting `writers._replace_quotes` performs for data URIs -/
def rewriteQuotes : Nat → List Nat → List Nat
  | 0, l => l
  | _, [] => []
  | f + 1, 61 :: 34 :: rest =>
    let body := rest.takeWhile (· != 34)
    let after := rest.drop body.length
    if !body.isEmpty && after.head? == some 34 then
      61 :: 39 :: (body ++ 39 :: rewriteQuotes f (after.drop 1))
    else 61 :: rewriteQuotes f (34 :: rest)
  | f + 1, b :: rest => b :: rewriteQuotes f rest

def firstDiff : List Nat → List Nat → Nat → Nat
  | a :: as, b :: bs, i => if a == b then firstDiff as bs (i + 1) else i
  | _, _, i => i

/-- `routes id= kind= ref=<hex> names=a,b docs=<hex>,<hex> uri=<names of data-URI routes> errs=name:Exc,…` -/
def judgeRoutes (r : Req) : String :=
  let id := r.getD "id" "?"
  let kind := r.getD "kind" ""
  let ref := stripStamp kind (bytesOfHex (r.getD "ref" ""))
  let names := (r.getD "names" "").splitOn ","
  let docs := ((r.getD "docs" "").splitOn ",").map bytesOfHex
  let uri := (r.getD "uri" "").splitOn ","
  let errs := r.getD "errs" ""
  if errs != "" then s!"id={id} c12=route-raised-{errs} d12=0" else
  if names.length != docs.length then s!"id={id} c12=malformed-request d12=0" else
  let quoted := rewriteQuotes (ref.length + 1) ref
  let verdicts := (names.zip docs).map (fun (n, d) =>
    let d' := stripStamp kind d
    if d' == ref then (n, "ok")
    else if uri.contains n && d' == quoted then (n, "d12")
    else (n, s!"differs-at-{firstDiff d' ref 0}-len-{d'.length}-vs-{ref.length}"))
  let nd12 := (verdicts.filter (·.2 == "d12")).length
  match verdicts.find? (fun v => v.2 != "ok" && v.2 != "d12") with
  | some (n, v) => s!"id={id} c12=route-{n}-{v} d12={nd12}"
  | none => if nd12 > 0 then s!"id={id} c12=d12 d12={nd12}" else s!"id={id} c12=ok d12=0"

def pad2 (n : Nat) : String := if n < 10 then s!"0{n}" else toString n

/-- position of the last `.` of a name -/
def lastDot (cs : List Char) : Option Nat :=
  (cs.zipIdx.filter (·.1 == '.')).getLast?.map (·.2)

/-- documented file names of a sequence of `m` symbols saved to `name` -/
def seqNames (name : String) (m : Nat) : List String :=
  let cs := name.toList
  match lastDot cs with
  | some i =>
    if m > 1 then (List.range m).map (fun k =>
      String.ofList (cs.take i) ++ "-" ++ pad2 m ++ "-" ++ pad2 (k + 1) ++ String.ofList (cs.drop i))
    else [name]
  | none => [name]

/-- `seqnames id= name=<hex> m= files=<hex>,<hex>` -/
def judgeSeqNames (r : Req) : String :=
  let id := r.getD "id" "?"
  let name := strOfBytes (bytesOfHex (r.getD "name" ""))
  let m := (r.getD "m" "0").toNat?.getD 0
  let files := if r.getD "files" "" == "" then [] else ((r.getD "files" "").splitOn ",").map (fun h => strOfBytes (bytesOfHex h))
  let want := seqNames name m
  match want.find? (fun w => !files.contains w) with
  | some w => s!"id={id} c12=missing-file-{w}"
  | none =>
    match files.find? (fun f => !want.contains f) with
    | some f => s!"id={id} c12=unexpected-file-{f}"
    | none => if files.length == want.length then s!"id={id} c12=ok" else s!"id={id} c12=file-count-{files.length}-expected-{want.length}"

/-- `refuse id= ext=<hex> outcome=ok | Class,Base,…` -/
def judgeRefuse (r : Req) : String :=
  let id := r.getD "id" "?"
  let ext := strOfBytes ((bytesOfHex (r.getD "ext" "")).map lowerByte)
  let outcome := r.getD "outcome" ""
  let mro := outcome.splitOn ","
  if validKinds.contains ext then
    (if outcome == "ok" then s!"id={id} c12=ok" else s!"id={id} c12=documented-kind-{ext}-refused-{mro.headD "?"}")
  else if outcome == "ok" then s!"id={id} c12=unknown-extension-accepted"
  else if mro.contains "ValueError" then s!"id={id} c12=ok"
  else s!"id={id} c12=unknown-extension-raised-{mro.headD "?"}"

def handle (cmd : String) (r : Req) : Option String :=
  match cmd with
  | "routes" => some (judgeRoutes r)
  | "seqnames" => some (judgeSeqNames r)
  | "refuse" => some (judgeRefuse r)
  | _ => none

end Spec.Routes
