/-
  Spec.Decoders — reference READERS of the two container encodings of property C12: base64 (RFC 4648 §4,
  data URI of the PNG route) and percent-encoding (RFC 3986 §2.1, data URI of the SVG route).  They are
  independent of the model's encoders (Model/Routes.lean); `Props.C12Routes` proves that they invert them.
  Judge commands `b64dec` / `pctdec` run them on the text the real code returned; the harness compares the
  result with Python's `base64.b64decode(validate=True)` / `urllib.parse.unquote_to_bytes`.
-/
import Spec.Judge

namespace Spec.Decoders
open Spec

/-- value of a character of the base64 alphabet -/
def b64Val (c : Char) : Option Nat :=
  let n := c.toNat
  if 65 ≤ n ∧ n ≤ 90 then some (n - 65)
  else if 97 ≤ n ∧ n ≤ 122 then some (n - 71)
  else if 48 ≤ n ∧ n ≤ 57 then some (n + 4)
  else if n = 43 then some 62
  else if n = 47 then some 63
  else none

/-- groups of four characters; `=` only as the last one or two characters of the text -/
def b64decode : List Char → Option (List Nat)
  | [] => some []
  | c1 :: c2 :: c3 :: c4 :: rest =>
    match b64Val c1, b64Val c2 with
    | some v1, some v2 =>
      if c3 = '=' ∧ c4 = '=' ∧ rest = [] then some [v1 * 4 + v2 / 16]
      else match b64Val c3 with
        | none => none
        | some v3 =>
          if c4 = '=' ∧ rest = [] then some [v1 * 4 + v2 / 16, v2 % 16 * 16 + v3 / 4]
          else match b64Val c4 with
            | none => none
            | some v4 => (b64decode rest).map (fun t => (v1 * 4 + v2 / 16) :: (v2 % 16 * 16 + v3 / 4) :: (v3 % 4 * 64 + v4) :: t)
    | _, _ => none
  | _ => none

def hexVal? (c : Char) : Option Nat :=
  let n := c.toNat
  if 48 ≤ n ∧ n ≤ 57 then some (n - 48)
  else if 65 ≤ n ∧ n ≤ 70 then some (n - 55)
  else if 97 ≤ n ∧ n ≤ 102 then some (n - 87)
  else none

/-- `%` followed by two hexadecimal digits is the byte, every other character stands for itself.
    First argument: characters of an escape still to be skipped. -/
def pctDecodeGo : Nat → List Char → List Nat
  | _, [] => []
  | skip + 1, _ :: cs => pctDecodeGo skip cs
  | 0, c :: cs =>
    if c = '%' then
      match cs with
      | h :: l :: _ =>
        match hexVal? h, hexVal? l with
        | some a, some b => (a * 16 + b) :: pctDecodeGo 2 cs
        | _, _ => c.toNat :: pctDecodeGo 0 cs
      | _ => c.toNat :: pctDecodeGo 0 cs
    else c.toNat :: pctDecodeGo 0 cs

def pctDecode (cs : List Char) : List Nat := pctDecodeGo 0 cs

/-! ### the documents on which the SVG data URI differs from the file (recorded finding D12) -/

/-- the list starts with `="`, a non-empty run without `"` and a closing `"` (an attribute value in double quotes) -/
def StartsAttr (l : List Nat) : Prop :=
  ∃ body post, l = 61 :: 34 :: (body ++ 34 :: post) ∧ body ≠ [] ∧ 34 ∉ body

/-- somewhere in the document there is `="…"` with a non-empty value free of `"` -/
def HasQuotedAttr (d : List Nat) : Prop := ∃ pre l, d = pre ++ l ∧ StartsAttr l

/-- one position: unchanged, or a `"` (34) that became `'` (39) -/
def QuoteStep (x y : Nat) : Prop := x = y ∨ (x = 34 ∧ y = 39)

/-- two lists of the same length related position by position -/
inductive Pointwise (R : Nat → Nat → Prop) : List Nat → List Nat → Prop where
  | nil : Pointwise R [] []
  | cons {a b : Nat} {l1 l2 : List Nat} : R a b → Pointwise R l1 l2 → Pointwise R (a :: l1) (b :: l2)

def handle (cmd : String) (r : Req) : Option String :=
  let id := r.getD "id" "?"
  let text := (bytesOfHex (r.getD "text" "")).map Char.ofNat
  match cmd with
  | "b64dec" => some (match b64decode text with
    | some bs => s!"id={id} ok=1 bytes={hexOfBytes bs}"
    | none => s!"id={id} err=1")
  | "pctdec" => some s!"id={id} ok=1 bytes={hexOfBytes (pctDecode text)}"
  | _ => none

end Spec.Decoders
